package c07

// Event sequences through the REAL onchainLoop of one member (round 5; review H #3, seeded change C07f).
//
//	evs <n> <me> <gid> <id;id;…> <event,event,…>
//
// A real DosNode (member <me> of the n-member group <gid>; group table, share and public polynomial in
// the dkg double) runs its real onchainLoop and queryLoop. The events are handed to the loop back to
// back, as the chain adaptor would emit them:
//
//	R:<last>:<evgid>                              LogUpdateRandom
//	U:<rid>:<last>:<seed>:<evgid>                 LogRequestUserRandom
//	Q:<rid>:<last>:<evgid>:<sel>:<doc>:<parsed>   LogUrl (document served by the local data source)
//	C:<cid>                                       LogStartCommitReveal (→ go handleCR(content, randSeed),
//	                                              randSeed being the *big.Int of the latest request event)
//	K:<gid>                                       LogPublicKeyAccepted        X   an event type the loop ignores
//
// Every request event of the member's group starts the real handleQuery (groupInfo, choseSubmitter, content
// stage, genSign, dispatchSign …) concurrently with whatever the following events start. Observed: the
// share the member hands to p2p.Request (addressee, content, request id, type), or – in a 1-member group –
// what it reports. Printed per request event, in event order: "<k>:to=<member>:<content>" |
// "<k>:rep=<rand|data>:<result>" | "<k>:-", then "nil=<number of Requests without a share>".
//
// Oracle (case line and math/big only): for every request event of the group, the share is addressed to
// ids[(last mod 2^64) mod n], its content is the content function of THE EVENT'S FIELDS AS EMITTED, its
// request id and type are the event's; and after the handlers ran every number of every event object
// still has the value the chain emitted (input-modified: handlers started from one event loop share these
// objects – onchainLoop keeps the latest randomness for handleCR while handleQuery reads it).

import (
	"bytes"
	"context"
	"fmt"
	"math/big"
	"reflect"
	"sort"
	"strconv"
	"strings"
	"sync"
	"time"

	"github.com/DOSNetwork/core/dosnode"
	"github.com/DOSNetwork/core/onchain"
	"github.com/DOSNetwork/core/p2p"
	vss "github.com/DOSNetwork/core/share/vss/pedersen"
	"github.com/golang/protobuf/proto"

	"verifharness/internal/doubles"
	"verifharness/internal/h"
)

// evChain: the recording chain double plus the three calls handleCR makes
type evChain struct {
	*doubles.Chain
	mu      sync.Mutex
	commits int
}

func (c *evChain) CurrentBlock() (uint64, error) { return 1, nil }
func (c *evChain) Commit(cid *big.Int, commitment [32]byte) error {
	c.mu.Lock()
	c.commits++
	c.mu.Unlock()
	return nil
}
func (c *evChain) Reveal(cid *big.Int, secret *big.Int) error { return nil }

type evItem struct {
	kind             byte
	rid, last, seed  *big.Int
	evgid            *big.Int
	sel              string
	doc              []byte
	parsed           string
	obj              interface{}
	nums             []*big.Int // the numbers of obj, and their emitted values
	emitted          []*big.Int
	names            []string
	ptype            uint32
	request, inGroup bool
}

func execEvs(w []string) (res h.Result) {
	res.Nontrivial = true
	n, me, gid := h.Atoi(w[1]), h.Atoi(w[2]), h.BigDec(w[3])
	ids := splitIDs(w[4])
	if len(ids) != n || me >= n {
		panic("bad evs line")
	}
	keepIDs := copyIDs(ids)
	var evs []*evItem
	hasCR := false
	for _, tok := range strings.Split(w[5], ",") {
		f := strings.Split(tok, ":")
		e := &evItem{kind: f[0][0]}
		num := func(name, s string) *big.Int {
			v := h.BigDec(s)
			e.nums, e.emitted, e.names = append(e.nums, v), append(e.emitted, new(big.Int).Set(v)), append(e.names, name)
			return v
		}
		switch e.kind {
		case 'R':
			e.last, e.evgid = num("LastRandomness", f[1]), num("DispatchedGroupId", f[2])
			e.rid, e.seed, e.ptype, e.request = e.last, big.NewInt(0), 0, true
			e.obj = &onchain.LogUpdateRandom{LastRandomness: e.last, DispatchedGroupId: e.evgid}
		case 'U':
			e.rid, e.last, e.seed, e.evgid = num("RequestId", f[1]), num("LastSystemRandomness", f[2]), num("UserSeed", f[3]), num("DispatchedGroupId", f[4])
			e.ptype, e.request = 1, true
			e.obj = &onchain.LogRequestUserRandom{RequestId: e.rid, LastSystemRandomness: e.last, UserSeed: e.seed, DispatchedGroupId: e.evgid}
		case 'Q':
			e.rid, e.last, e.evgid = num("QueryId", f[1]), num("Randomness", f[2]), num("DispatchedGroupId", f[3])
			e.sel, e.doc, e.parsed = string(h.UnHex(f[4])), exact(h.UnHex(f[5])), f[6]
			e.seed, e.ptype, e.request = big.NewInt(0), 2, true
			e.obj = &onchain.LogUrl{QueryId: e.rid, Timeout: big.NewInt(30), DataSource: docURL(e.doc), Selector: e.sel, Randomness: e.last, DispatchedGroupId: e.evgid}
		case 'C':
			hasCR = true
			e.obj = &onchain.LogStartCommitReveal{Cid: num("Cid", f[1]), StartBlock: big.NewInt(0), CommitDuration: big.NewInt(0), RevealDuration: big.NewInt(0), RevealThreshold: big.NewInt(1)}
		case 'K':
			e.obj = &onchain.LogPublicKeyAccepted{GroupId: num("GroupId", f[1])}
		case 'X':
			e.obj = struct{}{}
		default:
			panic("bad evs event")
		}
		e.inGroup = e.request && e.evgid.Cmp(gid) == 0
		evs = append(evs, e)
	}
	res.Class = fmt.Sprintf("evs n=%s commit-reveal=%v", sizeClass(n), hasCR)

	g := groupOf(n)
	p := doubles.NewP2P(exact(keepIDs[me]), 0)
	var mu sync.Mutex
	type sent struct {
		to  []byte
		sig *vss.Signature
	}
	var sends []sent
	nils := 0
	p.OnRequest = func(_ context.Context, from, to []byte, m proto.Message) (p2p.P2PMessage, error) {
		mu.Lock()
		defer mu.Unlock()
		if m == nil || reflect.ValueOf(m).IsNil() {
			nils++
			return p2p.P2PMessage{}, fmt.Errorf("nil message")
		}
		if s, ok := m.(*vss.Signature); ok {
			sends = append(sends, sent{append([]byte(nil), to...), proto.Clone(s).(*vss.Signature)})
		}
		return p2p.P2PMessage{}, nil
	}
	chain := &evChain{Chain: &doubles.Chain{BlockTime: 1, Events: make(chan interface{}), Notify: make(chan struct{}, 64)}}
	table := &doubles.DKG{Groups: map[string]doubles.Group{gid.Text(16): {IDs: ids, Pub: g.pub, Sec: g.shares[me]}}}
	node := dosnode.VerifNewNode(exact(keepIDs[me]), p, chain, table, 21, quiet)
	go node.VerifQueryLoop()
	go node.VerifOnchainLoop()
	defer node.VerifCancel()

	// ---- expectations from the case line
	type exp struct {
		sub     int
		content []byte // nil = the content stage fails
	}
	exps := map[int]exp{}
	wantSends, wantReps, wantNils := 0, 0, 0
	for k, e := range evs {
		if !e.inGroup {
			continue
		}
		sub := int(new(big.Int).Mod(new(big.Int).And(e.last, new(big.Int).Sub(two64, big.NewInt(1))), big.NewInt(int64(n))).Int64())
		var c []byte
		switch e.kind {
		case 'R':
			c = append(new(big.Int).Mod(e.last, two256).FillBytes(make([]byte, 32)), keepIDs[sub]...)
		case 'U':
			c = append(append(append(append([]byte{}, minBytes(e.rid)...), minBytes(e.last)...), minBytes(e.seed)...), keepIDs[sub]...)
		case 'Q':
			if pv, ok := parsedTok(e.parsed); ok {
				c = append(append([]byte{}, pv...), keepIDs[sub]...)
			}
		}
		exps[k] = exp{sub, c}
		switch {
		case sub != me && c != nil:
			wantSends++
		case sub != me:
			wantNils++
		case n == 1 && len(c) >= 20:
			wantReps++
		}
	}

	// ---- the events, back to back
	give := func(ev interface{}) bool {
		select {
		case chain.Events <- ev:
			return true
		case <-time.After(15 * time.Second):
			return false
		}
	}
	stuck := false
	for _, e := range evs {
		if !give(e.obj) {
			stuck = true
			break
		}
	}
	if !stuck && !give(struct{}{}) { // taken = the last event has been dispatched
		stuck = true
	}
	if stuck {
		res.Impl = "stuck event"
		res.Oracle = "evs-stuck: onchainLoop did not take a chain event for 15 s"
		return
	}
	deadline := time.Now().Add(15 * time.Second)
	for time.Now().Before(deadline) {
		mu.Lock()
		ok := len(sends) >= wantSends && nils >= wantNils
		mu.Unlock()
		if ok && len(chain.Reports()) >= wantReps {
			break
		}
		time.Sleep(2 * time.Millisecond)
	}
	time.Sleep(30 * time.Millisecond) // anything in excess shows up
	mu.Lock()
	got := append([]sent(nil), sends...)
	gotNils := nils
	mu.Unlock()
	reps := chain.Reports()

	// ---- attribute the observations to the events by (type, request id)
	idxOf := func(id []byte) string {
		for i := range keepIDs {
			if bytes.Equal(keepIDs[i], id) {
				return strconv.Itoa(i)
			}
		}
		return "?" + h.Hex(id)
	}
	used := make([]bool, len(got))
	usedR := make([]bool, len(reps))
	var parts, o []string
	for k, e := range evs {
		if !e.request {
			continue
		}
		ex, in := exps[k]
		var mine []int
		for i, s := range got {
			if !used[i] && s.sig.Index == e.ptype && bytes.Equal(s.sig.RequestId, minBytes(e.rid)) {
				mine = append(mine, i)
				used[i] = true
			}
		}
		var mineR []int
		for i, r := range reps {
			if !usedR[i] && r.Sig != nil && r.Sig.Index == e.ptype && bytes.Equal(r.Sig.RequestId, minBytes(e.rid)) {
				mineR = append(mineR, i)
				usedR[i] = true
			}
		}
		switch {
		case len(mine) == 0 && len(mineR) == 0:
			parts = append(parts, fmt.Sprintf("%d:-", k))
		default:
			for _, i := range mine {
				parts = append(parts, fmt.Sprintf("%d:to=%s:%s", k, idxOf(got[i].to), h.Hex(got[i].sig.Content)))
			}
			for _, i := range mineR {
				parts = append(parts, fmt.Sprintf("%d:rep=%s:%s", k, reps[i].Kind, h.Hex(reps[i].Sig.Content)))
			}
		}
		desc := fmt.Sprintf("event %d (%c, last randomness %s)", k, e.kind, e.emitted[indexOf(e.names, map[byte]string{'R': "LastRandomness", 'U': "LastSystemRandomness", 'Q': "Randomness"}[e.kind])])
		if !in {
			if len(mine)+len(mineR) > 0 {
				o = append(o, "evs-foreign-group: "+desc+" is dispatched to another group and the member acted on it")
			}
			continue
		}
		if len(mine) > 1 || len(mineR) > 1 {
			o = append(o, "evs-twice: "+desc+" produced more than one share / report")
		}
		switch {
		case ex.sub != me && ex.content != nil:
			if len(mine) == 0 {
				o = append(o, fmt.Sprintf("evs-content: %s: no share with the event's request id and type was sent (the content function gives %.80s for member %d)", desc, h.Hex(ex.content), ex.sub))
			} else {
				s := got[mine[0]]
				if !bytes.Equal(s.sig.Content, ex.content) {
					o = append(o, fmt.Sprintf("evs-content: %s: the member signed %.120s, the content function of the event gives %.120s", desc, h.Hex(s.sig.Content), h.Hex(ex.content)))
				}
				if !bytes.Equal(s.to, keepIDs[ex.sub]) {
					o = append(o, fmt.Sprintf("evs-addressee: %s: the share went to member %s, the submitter is member %d", desc, idxOf(s.to), ex.sub))
				}
			}
		case ex.sub == me && n == 1 && len(ex.content) >= 20:
			if len(mineR) == 0 {
				o = append(o, "evs-content: "+desc+": nothing was reported by the only member")
			} else if r := reps[mineR[0]]; !bytes.Equal(append(exact(r.Sig.Content), keepIDs[me]...), ex.content) || (e.kind == 'R') != (r.Kind == "rand") {
				o = append(o, fmt.Sprintf("evs-content: %s: reported %s %.120s, the content function of the event gives %.120s", desc, r.Kind, h.Hex(r.Sig.Content), h.Hex(ex.content)))
			}
		case ex.content == nil && len(mine)+len(mineR) > 0:
			o = append(o, "evs-content: "+desc+": the content stage fails and a share / report was produced")
		}
	}
	var extra []string
	for i, s := range got {
		if !used[i] {
			extra = append(extra, fmt.Sprintf("?:to=%s:%s/%d/%s", idxOf(s.to), h.Hex(s.sig.RequestId), s.sig.Index, h.Hex(s.sig.Content)))
		}
	}
	for i, r := range reps {
		if !usedR[i] {
			extra = append(extra, fmt.Sprintf("?:rep=%s", r.Kind))
		}
	}
	sort.Strings(extra)
	if len(extra) > 0 {
		o = append(o, fmt.Sprintf("evs-id: a share / report carries a request id and type of no event: %.200s", strings.Join(extra, " ")))
	}
	parts = append(parts, extra...)
	parts = append(parts, fmt.Sprintf("nil=%d", gotNils))
	res.Impl = strings.Join(parts, " ")
	// ---- the event objects afterwards
	for k, e := range evs {
		for i := range e.nums {
			if e.nums[i].Cmp(e.emitted[i]) != 0 {
				o = append(o, fmt.Sprintf("input-modified: %s of event %d (%c) was %s when the chain emitted it and is %s after the handlers ran", e.names[i], k, e.kind, e.emitted[i], e.nums[i]))
			}
		}
	}
	if !sameIDs(ids, keepIDs) {
		o = append(o, "input-modified: the member list of the group table was changed")
	}
	res.Oracle = pick(o, "evs-content", "evs-addressee", "evs-id", "input-modified", "evs-")
	return
}

func indexOf(l []string, s string) int {
	for i, x := range l {
		if x == s {
			return i
		}
	}
	return 0
}

// ---------------------------------------------------------------- generation

func genEvs(tier string, rng *h.Rng, emit func(string)) {
	rs := rands(rng, false)
	cases := 40
	if tier == "thorough" {
		cases = 400
	}
	used := map[string]bool{}
	fresh := func() *big.Int { // distinct numbers: an observation is attributed to its event by request id
		for {
			v := rs[rng.Intn(len(rs))]
			if rng.Intn(3) == 0 {
				v = new(big.Int).SetBytes(rng.Bytes(1 + rng.Intn(33)))
			}
			if v.Sign() > 0 && !used[v.String()] {
				used[v.String()] = true
				return v
			}
		}
	}
	for i := 0; i < cases; i++ {
		n := []int{1, 3, 4, 5, 7, 21, 300}[rng.Intn(7)]
		if i < 7 {
			n = []int{1, 3, 4, 5, 7, 21, 300}[i]
		}
		me := rng.Intn(n)
		gid := 1 + rng.Intn(1000)
		ids := idList(rng, n, 0)
		var evs []string
		nev := 1 + rng.Intn(5)
		for k := 0; k < nev; k++ {
			eg := gid
			if rng.Intn(8) == 0 {
				eg = gid + 1 // a group the member is not in
			}
			switch rng.Intn(3) {
			case 0:
				evs = append(evs, fmt.Sprintf("R:%s:%d", fresh(), eg))
			case 1:
				evs = append(evs, fmt.Sprintf("U:%s:%s:%s:%d", fresh(), fresh(), fresh(), eg))
			case 2:
				doc, sel := []byte(fmt.Sprintf(`{"a":%d,"b":[1,2]}`, rng.Intn(100000))), "$.a"
				switch rng.Intn(4) {
				case 0:
					doc, sel = []byte(fmt.Sprintf(`<r><a>%d</a><a>x</a></r>`, rng.Intn(100000))), "//a"
				case 1:
					doc, sel = rng.Bytes(1+rng.Intn(60)), ""
				case 2:
					if rng.Intn(3) == 0 {
						doc = []byte(`{"a":`) // does not parse: nothing is signed
					}
				}
				evs = append(evs, fmt.Sprintf("Q:%s:%s:%d:%s:%s:%s", fresh(), fresh(), eg, h.Hex([]byte(sel)), h.Hex(doc), parseOnce(doc, sel)))
			}
			// what the loop starts right behind the request event
			switch rng.Intn(5) {
			case 0, 1:
				evs = append(evs, fmt.Sprintf("C:%d", 1+rng.Intn(1000)))
			case 2:
				evs = append(evs, fmt.Sprintf("K:%d", gid))
			case 3:
				evs = append(evs, "X")
			}
		}
		if i%5 == 0 { // a commit-reveal round before any request event: handleCR gets the start value of onchainLoop
			evs = append([]string{"C:7"}, evs...)
		}
		emit(fmt.Sprintf("evs %d %d %d %s %s", n, me, gid, joinIDs(ids), strings.Join(evs, ",")))
	}
}

/-
C20 (round 5, follow-up) — lemmas about the interpreter of the translated point.go (Model/PtProg.lean); theorems:
Props/C20Point.lean.
-/
import Lean.Elab.Tactic
import Mathlib.Data.List.Basic
import DosModel.Gen.Ed25519Pt

namespace Dos.PtProg
open Dos Dos.Ed25519 Dos.Ge Dos.FeProg

open Lean Elab Tactic Meta in
/-- close `a = b` with `Eq.refl a`, type-checked by the kernel only (the elaborator's unifier needs seconds per program
run, the kernel milliseconds) -/
elab "pt_kernel_refl" : tactic => do
  let g ← getMainGoal
  let t ← instantiateMVars (← g.getType)
  match t.eq? with
  | some (_, a, _) => g.assign (← mkEqRefl a)
  | none => throwError "pt_kernel_refl: the goal is not an equality"

theorem runStmt_ifByteGt (st : St) (hd : st.done = false) (name idx k : Nat) (thn : List Stmt) :
    runStmt st (.ifByteGt name idx k thn) =
      if ((bytesOf (st.val name)).getD idx 0).toNat > k then runBlock st thn else st := by
  rw [runStmt]; simp [hd]

theorem runStmt_rangeNe (st : St) (hd : st.done = false) (a b : Nat) (thn : List Stmt) :
    runStmt st (.rangeNe a b thn) =
      if firstNe (bytesOf (st.val a)) (bytesOf (st.val b)) then runBlock st thn else st := by
  rw [runStmt]; simp [hd]

theorem feToBytes_len (h : L10) : (FeOps.feToBytes h).1.length = 32 := by
  simp only [FeOps.feToBytes, FeProg.runW, FeProg.outW, List.length_map]
  rfl

/-- `ToBytes` fills all 32 bytes, for every limb vector -/
theorem extToBytes_len (p : Ext) : (extToBytes p).length = 32 := by
  simp only [extToBytes, finishBytes, List.length_set, feToBytes_len]

/-- the comparison loop of `point.Equal` finds a differing index iff the arrays differ -/
theorem firstNe_false_iff (a b : Bytes) (h : a.length = b.length) : firstNe a b = false ↔ a = b := by
  unfold firstNe
  rw [List.any_eq_false]
  constructor
  · intro hh
    apply List.ext_getElem h
    intro i h1 h2
    have := hh i (List.mem_range.2 h1)
    simpa [List.getD_eq_getElem?_getD, List.getElem?_eq_getElem h1, List.getElem?_eq_getElem h2] using this
  · intro e i _
    subst e
    simp

theorem firstNe_eq (a b : Bytes) (h : a.length = b.length) : firstNe a b = !(a == b) := by
  cases hf : firstNe a b
  · rw [(firstNe_false_iff a b h).1 hf]; simp
  · have : a ≠ b := fun e => by rw [(firstNe_false_iff a b h).2 e] at hf; cases hf
    simp [this]

/-- `copy(wide[:], a[:])` into a zeroed `[64]byte` -/
theorem copy64 (a : Bytes) (h : a.length = 32) : copyInto (List.replicate 64 0) a = a ++ List.replicate 32 0 := by
  unfold copyInto
  rw [List.take_of_length_le (by simp [h]), h]
  rfl

end Dos.PtProg

/-
C14: discipline B (fan-in): one closer that passes `wgWait w` before `close c`; every sender
still owes its `wgDone w` when it sends.
-/
import DosModel.Proofs.PipeWg

namespace Dos.Pipe

/-- how one goroutine's control state changes in a step -/
theorem pos_step {p : Pipeline} {s s' : State} {e : Ev} (hst : Step p s e (.run s')) (h : Gi) :
    s'.gs[h]? = s.gs[h]? ∨
    (∃ pc nd l n, s.gs[h]? = some (.at pc) ∧ p.node h pc = some nd ∧ (l, n) ∈ nd.edges ∧
        s'.gs[h]? = some (.at n) ∧ (guard p s l = true ∨ ∃ c, l = .send c ∨ l = .recvOk c)) ∨
    (s.gs[h]? = some .idle ∧ s'.gs[h]? = some (.at 0)) ∨
    (∃ pc, s.gs[h]? = some (.at pc) ∧ p.node h pc = some .exit ∧ s'.gs[h]? = some .done) := by
  cases hst with
  | env k hk hd => left; rfl
  | act g pc nd l n hat hnd hed hgd hdf =>
    by_cases hgh : g = h
    · subst hgh
      right; left
      refine ⟨pc, nd, l, n, hat, hnd, hed, ?_, Or.inl hgd⟩
      rw [State.setG_get, if_pos rfl, effect_gs_length, if_pos (List.getElem?_eq_some_iff.mp hat).1]
    · rw [State.setG_get, if_neg hgh, effect_gs_get]
      split
      · rename_i hc
        right; right; left
        exact ⟨hc.2, rfl⟩
      · left; rfl
  | sync g pc nd n g' pc' nd' n' c hne hat hnd hed hat' hnd' hed' hcap hcl =>
    by_cases h2 : g' = h
    · subst h2
      right; left
      refine ⟨pc', nd', _, n', hat', hnd', hed', ?_, Or.inr ⟨c, Or.inr rfl⟩⟩
      apply State.setG_get_self (y := GSt.at pc')
      rw [State.setG_get_ne hne]; exact hat'
    · by_cases h1 : g = h
      · subst h1
        right; left
        refine ⟨pc, nd, _, n, hat, hnd, hed, ?_, Or.inr ⟨c, Or.inl rfl⟩⟩
        rw [State.setG_get_ne h2]
        exact State.setG_get_self hat
      · left
        rw [State.setG_get_ne h2, State.setG_get_ne h1]
  | exit g pc hat hnd =>
    by_cases hgh : g = h
    · subst hgh
      right; right; right
      exact ⟨pc, hat, hnd, State.setG_get_self hat⟩
    · left
      rw [State.setG_get_ne hgh]

theorem wg_zero_mono {p : Pipeline} {w : Nat} {s s' : State} {e : Ev} (hst : Step p s e (.run s'))
    (h : s.wg w = 0) : s'.wg w = 0 := by
  cases hst with
  | env k hk hd => simpa using h
  | act g pc nd l n hat hnd hed hgd hdf =>
    simp only [State.setG_wg, effect_wg]
    split <;> omega
  | sync g pc nd n g' pc' nd' n' c hne hat hnd hed hat' hnd' hed' hcap hcl => simpa using h
  | exit g pc hat hnd => simpa using h

theorem fwdClosed_parts {nodes : List Node} {cut : Node → Bool} {m : List Bool}
    (h : fwdClosedOk nodes cut m = true) :
    mark m 0 = true ∧ ∀ i nd, nodes[i]? = some nd → mark m i = true → cut nd = false →
      ∀ j ∈ nd.succs, mark m j = true := by
  unfold fwdClosedOk at h
  simp only [Bool.and_eq_true] at h
  refine ⟨h.1, ?_⟩
  intro i nd hn hm hc j hj
  have := zipIdx_all h.2 hn
  simp only [Bool.or_eq_true, Bool.not_eq_true', List.all_eq_true] at this
  rcases this with (h1 | h1) | h1
  · rw [hm] at h1; cases h1
  · rw [hc] at h1; cases h1
  · exact h1 j hj

/-- the closer has really waited: past the `wgWait w` on every path, the counter is zero -/
theorem waited_zero {p : Pipeline} {w : Nat} {h : Gi} {gr : Goroutine} (hg : p.gs[h]? = some gr)
    (hfw : fwdClosedOk gr.nodes (Node.isWait w) (notWaited gr w) = true) :
    ∀ s, Reach p s → ∀ pc, s.gs[h]? = some (.at pc) → mark (notWaited gr w) pc = false → s.wg w = 0 := by
  obtain ⟨h0, hedge⟩ := fwdClosed_parts hfw
  apply reach_inv (I := fun s => ∀ pc, s.gs[h]? = some (.at pc) → mark (notWaited gr w) pc = false → s.wg w = 0)
  · intro pc hat hm
    rw [init_gs, hg] at hat
    simp only [Option.map_some] at hat
    split at hat
    · simp only [Option.some.injEq, GSt.at.injEq] at hat
      subst hat; rw [h0] at hm; cases hm
    · cases hat
  · intro s e s' _ ih hst pc' hat' hm'
    rcases pos_step hst h with hsame | ⟨pc, nd, l, n, hat, hnd, hed, hat2, hgd⟩ | ⟨_, hat2⟩ | ⟨pc, _, _, hat2⟩
    · rw [hsame] at hat'
      exact wg_zero_mono hst (ih pc' hat' hm')
    · rw [hat2] at hat'
      simp only [Option.some.injEq, GSt.at.injEq] at hat'
      subst hat'
      cases hmp : mark (notWaited gr w) pc with
      | false => exact wg_zero_mono hst (ih pc hat hmp)
      | true =>
        have hn := node_of_gs hg hnd
        have hcut : (Node.isWait w nd) = true := by
          cases hc : Node.isWait w nd with
          | true => rfl
          | false =>
            have := hedge pc nd hn hmp hc n (mem_succs_of_edge hed)
            rw [hm'] at this; cases this
        have hl : l = .wgWait w := by
          cases nd <;> simp [Node.isWait] at hcut
          case wgWait w' n' =>
            subst hcut
            simp [Node.edges] at hed
            exact hed.1
        subst hl
        rcases hgd with hgd | ⟨c, hc | hc⟩
        · have : s.wg w = 0 := by simpa [guard] using hgd
          exact wg_zero_mono hst this
        · cases hc
        · cases hc
    · rw [hat2] at hat'
      simp only [Option.some.injEq, GSt.at.injEq] at hat'
      subst hat'; rw [h0] at hm'; cases hm'
    · rw [hat2] at hat'; cases hat'

theorem safe_B {p : Pipeline} {c : Ch} (h : discB p c = true) :
    ¬ CrashReachable p (.sendClosed c) ∧ ¬ CrashReachable p (.closeClosed c) := by
  unfold discB at h
  rw [List.any_eq_true] at h
  obtain ⟨w, _, hw⟩ := h
  unfold discBw at hw
  split at hw
  · rename_i h0 hsing
    split at hw
    · rename_i gr hg
      simp only [Bool.and_eq_true, Bool.not_eq_true'] at hw
      obtain ⟨⟨⟨⟨_, honce⟩, hwait⟩, hsend⟩, h5⟩ := hw
      obtain ⟨hfw, hclnw⟩ := hwait
      have honly : ∀ g gr', p.gs[g]? = some gr' → gr'.hasClose c = true → g = h0 :=
        fun g gr' hg' hf => gsWhere_singleton hsing hg' hf
      have hpast := closer_past_ops hg honce honly
      have hwaited := waited_zero hg hfw
      have hcnt := wg_counts_debt (wgOk_of_W5w h5)
      obtain ⟨hback, _⟩ := closeOnce_parts honce
      -- closed c → the counter is zero
      have hzero : ∀ s, Reach p s → s.closed c = true → s.wg w = 0 := by
        intro s hr
        induction hr with
        | init => intro hc; rw [init_closed] at hc; cases hc
        | step hr hst ih =>
          rename_i s0 e s1
          intro hc'
          cases hc : s0.closed c with
          | true => exact wg_zero_mono hst (ih hc)
          | false =>
            obtain ⟨g, pc, n, _, hat, hnd, _⟩ := closed_step hst hc hc'
            obtain ⟨gr', hg', hn⟩ := node_some hnd
            have hgh : g = h0 := honly g gr' hg' (hasClose_of_node hn (by simp [Node.closes]))
            subst hgh
            rw [hg] at hg'; cases hg'
            have hnw : mark (notWaited gr w) pc = false := by
              have := zipIdx_all hclnw hn
              simpa [Node.closes] using this
            exact wg_zero_mono hst (hwaited s0 hr pc hat hnw)
      constructor
      · rintro ⟨s, e, g, pc, hr, hst⟩
        cases hst with
        | crash g pc nd l n k hat hnd hed hk =>
          obtain ⟨hl, hc⟩ := crashOf_send hk
          subst hl
          obtain ⟨grg, hgg, hn⟩ := node_some hnd
          have hso := sendsOn_of_edge hed
          rw [List.all_eq_true] at hsend
          have hs := hsend grg (List.mem_of_getElem? hgg)
          simp only [Bool.or_eq_true, Bool.not_eq_true'] at hs
          rcases hs with hs | hs
          · rw [hasSend_of_node hn hso] at hs; cases hs
          · have hm := zipIdx_all hs hn
            simp only [hso, Bool.not_true, Bool.false_or] at hm
            have h1 : owe grg w (GSt.at pc) = 1 := owe_at_true hm
            have h2 := debt_ge w p.gs s.gs g grg (GSt.at pc) hgg hat
            have h3 := (hcnt s hr).2
            have h4 := hzero s hr hc
            omega
      · rintro ⟨s, e, g, pc, hr, hst⟩
        cases hst with
        | crash g pc nd l n k hat hnd hed hk =>
          obtain ⟨hl, hc⟩ := crashOf_close hk
          subst hl
          obtain ⟨grg, hgg, hn⟩ := node_some hnd
          have hgh : g = h0 := honly g grg hgg (hasClose_of_node hn (closes_of_edge hed))
          subst hgh
          rw [hg] at hgg; cases hgg
          have h1 := backClosed_seed hback hn (by simp [Node.opsOn, closes_of_edge hed])
          have h2 := hpast s hr hc
          rw [hat] at h2
          simp only [labelAt] at h2
          rw [h1] at h2; cases h2
    · cases hw
  · cases hw

end Dos.Pipe

/-
C14 — interleaving small-step semantics of the pipeline IR.  Core Lean only.

State = one control state per goroutine, (queue length, closed flag) per channel,
wait-group counters, one `done` flag per context.  A step is
* `env k`      : the environment cancels context `k` (any moment, once),
* `act g l`    : goroutine `g` alone moves along a CFG edge labelled `l`,
* `sync g g' c`: rendezvous of a sender `g` and a receiver `g'` on the unbuffered open channel `c`,
* `exit g`     : `g` returns,
or it ends in the distinguished **crash** configuration: send on a closed channel, close of a
closed channel, negative wait-group counter (the three run-time panics of this fragment of Go).

Go semantics modelled (trusted, DESIGN §5): a receive on a closed channel yields buffered items
first and then proceeds with `ok = false`; `select` picks any ready alternative (a send on a
closed channel is ready and panics when picked); `default` only when nothing else is ready.
-/
import DosModel.Model.PipeIR

namespace Dos.Pipe

inductive GSt where
  | idle            -- not started yet (will be started by a `spawn` node)
  | at (pc : Pc)
  | done
  deriving DecidableEq, Repr, Inhabited, Hashable

structure ChSt where
  len : Nat
  closed : Bool
  deriving DecidableEq, Repr, Inhabited, Hashable

structure State where
  gs : List GSt
  chs : List ChSt
  wgs : List Nat
  ctxs : List Bool
  deriving DecidableEq, Repr, Inhabited, Hashable

inductive CrashKind where
  | sendClosed (c : Ch)
  | closeClosed (c : Ch)
  | wgNegative (w : Nat)
  deriving DecidableEq, Repr, Inhabited, Hashable

inductive Cfg where
  | run (s : State)
  | crash (k : CrashKind) (g : Gi) (pc : Pc)
  deriving DecidableEq, Repr, Inhabited

inductive Ev where
  | env (k : Nat)
  | act (g : Gi) (l : Lab)
  | sync (g g' : Gi) (c : Ch)
  | exit (g : Gi)
  deriving DecidableEq, Repr, Inhabited

def init (p : Pipeline) : State where
  gs := p.gs.map (fun g => if g.static then GSt.at 0 else GSt.idle)
  chs := p.chans.map (fun _ => { len := 0, closed := false })
  wgs := p.wgs.map (·.init)
  ctxs := List.replicate p.nctx false

namespace State

def len (s : State) (c : Ch) : Nat := match s.chs[c]? with | some x => x.len | none => 0
def closed (s : State) (c : Ch) : Bool := match s.chs[c]? with | some x => x.closed | none => false
def wg (s : State) (w : Nat) : Nat := match s.wgs[w]? with | some x => x | none => 0
def ctxDone (s : State) (k : Nat) : Bool := match s.ctxs[k]? with | some x => x | none => false

def setG (s : State) (g : Gi) (x : GSt) : State := { s with gs := s.gs.set g x }
def setLen (s : State) (c : Ch) (n : Nat) : State :=
  { s with chs := s.chs.set c { len := n, closed := s.closed c } }
def setClosed (s : State) (c : Ch) : State :=
  { s with chs := s.chs.set c { len := s.len c, closed := true } }
def setWg (s : State) (w : Nat) (n : Nat) : State := { s with wgs := s.wgs.set w n }
def setCtx (s : State) (k : Nat) : State := { s with ctxs := s.ctxs.set k true }

end State

/-- can `g` (alone) move along an edge labelled `l` in state `s`? -/
def guard (p : Pipeline) (s : State) : Lab → Bool
  | .tau | .tick | .dflt => true
  | .recvOk c => decide (0 < s.len c)
  | .recvCl c => s.closed c && s.len c == 0
  | .send c => !s.closed c && decide (s.len c < p.cap c)
  | .ctx k => s.ctxDone k
  | .close c => !s.closed c
  | .wgDone w => decide (0 < s.wg w)
  | .wgWait w => s.wg w == 0
  | .spawn _ | .cancel _ => true

def effect (s : State) : Lab → State
  | .recvOk c => s.setLen c (s.len c - 1)
  | .send c => s.setLen c (s.len c + 1)
  | .close c => s.setClosed c
  | .wgDone w => s.setWg w (s.wg w - 1)
  | .spawn g => if s.gs[g]? = some GSt.idle then s.setG g (.at 0) else s
  | .cancel k => s.setCtx k
  | _ => s

def crashOf (s : State) : Lab → Option CrashKind
  | .send c => if s.closed c then some (.sendClosed c) else none
  | .close c => if s.closed c then some (.closeClosed c) else none
  | .wgDone w => if s.wg w = 0 then some (.wgNegative w) else none
  | _ => none

/-- some goroutine other than `g` stands at a node with an edge labelled `l` -/
def partner (p : Pipeline) (s : State) (g : Gi) (l : Lab) : Bool :=
  (List.range s.gs.length).any fun g' =>
    g' != g && match s.gs[g']? with
      | some (.at pc') => match p.node g' pc' with
        | some nd' => nd'.edges.any (fun e => e.1 == l)
        | none => false
      | _ => false

/-- is this `select` alternative ready (for the purpose of `default`)? -/
def altReady (p : Pipeline) (s : State) (g : Gi) : Alt → Bool
  | .recv c _ _ => decide (0 < s.len c) || s.closed c || (p.cap c == 0 && partner p s g (.send c))
  | .send c _ => s.closed c || decide (s.len c < p.cap c) || (p.cap c == 0 && partner p s g (.recvOk c))
  | .ctx k _ => s.ctxDone k
  | .tick _ => false
  | .dflt _ => false

def dfltOk (p : Pipeline) (s : State) (g : Gi) : Node → Bool
  | .sel alts => alts.all (fun a => !altReady p s g a)
  | _ => true

inductive Step (p : Pipeline) (s : State) : Ev → Cfg → Prop
  | env (k : Nat) : k < p.nctx → s.ctxDone k = false → Step p s (.env k) (.run (s.setCtx k))
  | act (g : Gi) (pc : Pc) (nd : Node) (l : Lab) (n : Pc) :
      s.gs[g]? = some (.at pc) → p.node g pc = some nd → (l, n) ∈ nd.edges →
      guard p s l = true → (l = .dflt → dfltOk p s g nd = true) →
      Step p s (.act g l) (.run ((effect s l).setG g (.at n)))
  | crash (g : Gi) (pc : Pc) (nd : Node) (l : Lab) (n : Pc) (k : CrashKind) :
      s.gs[g]? = some (.at pc) → p.node g pc = some nd → (l, n) ∈ nd.edges →
      crashOf s l = some k → Step p s (.act g l) (.crash k g pc)
  | sync (g : Gi) (pc : Pc) (nd : Node) (n : Pc) (g' : Gi) (pc' : Pc) (nd' : Node) (n' : Pc) (c : Ch) :
      g ≠ g' → s.gs[g]? = some (.at pc) → p.node g pc = some nd → (Lab.send c, n) ∈ nd.edges →
      s.gs[g']? = some (.at pc') → p.node g' pc' = some nd' → (Lab.recvOk c, n') ∈ nd'.edges →
      p.cap c = 0 → s.closed c = false →
      Step p s (.sync g g' c) (.run ((s.setG g (.at n)).setG g' (.at n')))
  | exit (g : Gi) (pc : Pc) :
      s.gs[g]? = some (.at pc) → p.node g pc = some .exit → Step p s (.exit g) (.run (s.setG g .done))

/-- states reachable from the initial state under any schedule and any cancellation instants -/
inductive Reach (p : Pipeline) : State → Prop
  | init : Reach p (init p)
  | step {s : State} {e : Ev} {s' : State} : Reach p s → Step p s e (.run s') → Reach p s'

/-- the distinguished crash configuration is reachable -/
def CrashReachable (p : Pipeline) (k : CrashKind) : Prop :=
  ∃ s e g pc, Reach p s ∧ Step p s e (.crash k g pc)

/-- `s'` is reachable from `s` -/
inductive Path (p : Pipeline) : State → State → Prop
  | refl (s : State) : Path p s s
  | step {s t u : State} {e : Ev} : Step p s e (.run t) → Path p t u → Path p s u

/-! ### executable successor function (driver, explorer) -/

def envSuccs (p : Pipeline) (s : State) : List (Ev × Cfg) :=
  (List.range p.nctx).filterMap fun k =>
    if s.ctxDone k = false then some (.env k, .run (s.setCtx k)) else none

/-- rendezvous partners of a send edge of `g` on the unbuffered open channel `c` -/
def syncSuccs (p : Pipeline) (s : State) (g : Gi) (n : Pc) (c : Ch) : List (Ev × Cfg) :=
  if p.cap c = 0 ∧ s.closed c = false then
    (List.range s.gs.length).flatMap fun g' =>
      if g' = g then [] else
      match s.gs[g']? with
      | some (.at pc') => match p.node g' pc' with
        | some nd' => nd'.edges.filterMap fun e =>
            if e.1 = Lab.recvOk c then some (.sync g g' c, .run ((s.setG g (.at n)).setG g' (.at e.2))) else none
        | none => []
      | _ => []
  else []

def edgeSuccs (p : Pipeline) (s : State) (g : Gi) (pc : Pc) (nd : Node) (e : Lab × Pc) : List (Ev × Cfg) :=
  (match crashOf s e.1 with
   | some k => [(Ev.act g e.1, Cfg.crash k g pc)]
   | none => []) ++
  (if guard p s e.1 = true ∧ (e.1 = .dflt → dfltOk p s g nd = true)
   then [(Ev.act g e.1, Cfg.run ((effect s e.1).setG g (.at e.2)))] else []) ++
  (match e.1 with
   | .send c => syncSuccs p s g e.2 c
   | _ => [])

def gSuccs (p : Pipeline) (s : State) (g : Gi) : List (Ev × Cfg) :=
  match s.gs[g]? with
  | some (.at pc) => match p.node g pc with
    | some nd =>
      (if nd = .exit then [(Ev.exit g, Cfg.run (s.setG g .done))] else []) ++
      nd.edges.flatMap (edgeSuccs p s g pc nd)
    | none => []
  | _ => []

def succs (p : Pipeline) (s : State) : List (Ev × Cfg) :=
  envSuccs p s ++ (List.range s.gs.length).flatMap (gSuccs p s)

end Dos.Pipe

package c07

// The member list AFTER a completed key generation (round 5, review H #1).
//
//	grpk <n> <gid> <id;id;…> <lastRand>
//
// n members, each with a REAL pdkg on the in-memory network of go/internal/dkgnet (used as a library,
// as C04 runs it), run pdkg.Grouping(ctx, gid, ids) – every member is handed its own copy of the
// announced list, unsorted – until every member's key generation is certified (genGroup has run, the
// member holds a share). THEN every member's list (pdkg.GetGroupIDs, what groupInfo hands to
// handleQuery) is compared with the announcement, element for element, and goes to the real
// choseSubmitter. Printed per member: "<k>:n=<len> id <submitter>", or "<k>:unfinished".
// The `grp` cases only reach the bookkeeping BEFORE the key generation (block time 0).

import (
	"context"
	"fmt"
	"math/big"
	"reflect"
	"strconv"
	"strings"
	"sync"
	"time"

	"github.com/DOSNetwork/core/dosnode"
	"github.com/DOSNetwork/core/onchain"
	"github.com/DOSNetwork/core/p2p"
	dkg "github.com/DOSNetwork/core/share/dkg/pedersen"
	"github.com/golang/protobuf/proto"

	"verifharness/internal/dkgnet"
	"verifharness/internal/doubles"
	"verifharness/internal/h"
)

func execGrpK(w []string) (res h.Result) {
	quietOnce.Do(dkgnet.Quiet)
	res.Nontrivial = true
	n, gid, ids, r := h.Atoi(w[1]), gidKey(w[2]), splitIDs(w[3]), h.BigDec(w[4])
	if len(ids) != n {
		panic("bad grpk line")
	}
	res.Class = fmt.Sprintf("grpk n=%d (completed key generation)", n)
	nw := dkgnet.NewNet(ids)
	ctx, cancel := context.WithTimeout(context.Background(), 90*time.Second)
	defer cancel()
	pd := make([]dkg.PDKGInterface, n)
	handed := make([][][]byte, n)
	for k := 0; k < n; k++ {
		pd[k] = dkg.NewPDKG(nw.Node(k, ids), suite)
		go pd[k].Loop()
	}
	done := make(chan [2]int, n)
	for k := 0; k < n; k++ {
		handed[k] = copyIDs(ids)
		go func(k int) {
			outc, errc, err := pd[k].Grouping(ctx, gid, handed[k])
			if err != nil {
				done <- [2]int{k, 0}
				return
			}
			for outc != nil || errc != nil {
				select {
				case _, ok := <-outc:
					if ok {
						done <- [2]int{k, 1}
						return
					}
					outc = nil
				case _, ok := <-errc:
					if !ok {
						errc = nil
					}
				case <-ctx.Done():
					done <- [2]int{k, 0}
					return
				}
			}
			done <- [2]int{k, 0}
		}(k)
	}
	fin := make([]bool, n)
	for c := 0; c < n; c++ {
		d := <-done
		fin[d[0]] = d[1] == 1
	}
	var parts, o []string
	for k := 0; k < n; k++ {
		if !fin[k] || pd[k].GetShareSecurity(gid) == nil {
			parts = append(parts, fmt.Sprintf("%d:unfinished", k))
			o = append(o, fmt.Sprintf("keygen-unfinished: member %d did not finish a key generation nobody disturbed", k))
			continue
		}
		got := pd[k].GetGroupIDs(gid)
		if !sameIDs(got, ids) {
			o = append(o, fmt.Sprintf("member-list: after the key generation member %d holds [%.200s] for group %s, announced on chain was [%.200s]", k, joinIDs(got), gid, joinIDs(ids)))
		}
		if !sameIDs(handed[k], ids) {
			o = append(o, "input-modified: the member list of the announcement was changed by the key generation")
		}
		sub, tag := stageSubmitter(r, got)
		if tag != "" {
			parts = append(parts, fmt.Sprintf("%d:%s", k, tag))
		} else {
			parts = append(parts, fmt.Sprintf("%d:n=%d id %s", k, len(got), h.Hex(sub)))
		}
		if ws := wantSubmitter(ids, r); tag != "" || !bytesEq(sub, ws) {
			o = append(o, fmt.Sprintf("submitter-index: member %d chose %s; entry (lastRand mod 2^64) mod %d of the list announced on chain is %s", k, h.Hex(sub), n, h.Hex(ws)))
		}
	}
	cancel()
	res.Impl = strings.Join(parts, " ")
	res.Oracle = pick(o, "member-list", "submitter-index", "input-modified", "keygen-unfinished")
	return
}

func bytesEq(a, b []byte) bool { return string(a) == string(b) }

func genGrpK(tier string, rng *h.Rng, emit func(string)) {
	rs := rands(rng, false)
	k := 3
	if tier == "thorough" {
		k = 12
	}
	for i := 0; i < k; i++ {
		n := 3
		if i%3 == 2 {
			n = 4
		}
		ids := idList(rng, n, 0)
		// every residue is hit over the cases: the submitter is not always member 0
		r := rs[rng.Intn(60)]
		emit(fmt.Sprintf("grpk %d %d %s %s", n, 1+rng.Intn(1000), joinIDs(ids), r))
	}
}

// ---------------------------------------------------------------- grpd (review H #6)
//
//	grpd <n> <gid> <ids1> <ids2> <share|noshare> <lastRand>
//
// n real DosNodes, each around its REAL pdkg (in-memory network of dkgnet) with its real onchainLoop and
// queryLoop. History: the group is announced with <ids1>;
//   share:   every member's key generation runs to completion (it holds a share);
//   noshare: the key generation is cancelled at once (the entry exists, no share);
// then a LogGroupDissolve event for the group goes through every node's onchainLoop
// (`if d.isMember(groupID) { d.dkg.GroupDissolve(groupID) }`); then the group is announced again with
// <ids2> (the same members in another order) – share: key generation to completion again; noshare: the
// node refuses the id ("dkg: duplicate share public key"); then a LogUpdateRandom event for the group
// goes through every onchainLoop. Printed per member:
// "<k>:<gone|kept> <none | n=<len> id <submitter of its list>> share=<0|1> req=<to=<member of ids2>|->".
// Oracle (line only): whatever list a member holds is ids1 or ids2, element for element; a member that
// handles the request (sends a share) holds the LATEST announcement ids2 and addresses
// ids2[(lastRand mod 2^64) mod n] (stale-list-used otherwise); with a share at the dissolve the entry
// is gone after it and every non-submitter handles the request.

type grpdNode struct {
	p     *doubles.P2P
	chain *evChain
	node  *dosnode.DosNode
	mu    sync.Mutex
	to    [][]byte
}

func keygen(ctx context.Context, pd []dkg.PDKGInterface, gid string, ids [][]byte) []bool {
	n := len(pd)
	done := make(chan [2]int, n)
	for k := 0; k < n; k++ {
		go func(k int) {
			outc, errc, err := pd[k].Grouping(ctx, gid, copyIDs(ids))
			if err != nil {
				done <- [2]int{k, 0}
				return
			}
			for outc != nil || errc != nil {
				select {
				case _, ok := <-outc:
					if ok {
						done <- [2]int{k, 1}
						return
					}
					outc = nil
				case _, ok := <-errc:
					if !ok {
						errc = nil
					}
				case <-ctx.Done():
					done <- [2]int{k, 0}
					return
				}
			}
			done <- [2]int{k, 0}
		}(k)
	}
	fin := make([]bool, n)
	for c := 0; c < n; c++ {
		d := <-done
		fin[d[0]] = d[1] == 1
	}
	return fin
}

func execGrpD(w []string) (res h.Result) {
	quietOnce.Do(dkgnet.Quiet)
	res.Nontrivial = true
	n, gidNum, ids1, ids2, mode, r := h.Atoi(w[1]), h.BigDec(w[2]), splitIDs(w[3]), splitIDs(w[4]), w[5], h.BigDec(w[6])
	gid := gidKey(w[2])
	if len(ids1) != n || len(ids2) != n || (mode != "share" && mode != "noshare") {
		panic("bad grpd line")
	}
	res.Class = "grpd " + mode
	nw := dkgnet.NewNet(ids1)
	ctx, cancel := context.WithTimeout(context.Background(), 120*time.Second)
	defer cancel()
	pd := make([]dkg.PDKGInterface, n)
	nodes := make([]*grpdNode, n)
	for k := 0; k < n; k++ {
		pd[k] = dkg.NewPDKG(nw.Node(k, ids1), suite)
		go pd[k].Loop()
		gn := &grpdNode{p: doubles.NewP2P(exact(ids1[k]), 0), chain: &evChain{Chain: &doubles.Chain{BlockTime: 1, Events: make(chan interface{})}}}
		gn.p.OnRequest = func(_ context.Context, from, to []byte, m proto.Message) (p2p.P2PMessage, error) {
			if m == nil || reflect.ValueOf(m).IsNil() {
				return p2p.P2PMessage{}, fmt.Errorf("nil message")
			}
			gn.mu.Lock()
			gn.to = append(gn.to, append([]byte(nil), to...))
			gn.mu.Unlock()
			return p2p.P2PMessage{}, nil
		}
		gn.node = dosnode.VerifNewNode(exact(ids1[k]), gn.p, gn.chain, pd[k], 21, quiet)
		go gn.node.VerifQueryLoop()
		go gn.node.VerifOnchainLoop()
		nodes[k] = gn
	}
	defer func() {
		for _, gn := range nodes {
			gn.node.VerifCancel()
		}
	}()
	toAll := func(mk func() interface{}) bool {
		for _, gn := range nodes {
			for _, ev := range []interface{}{mk(), struct{}{}} { // the second one taken = the first one handled
				select {
				case gn.chain.Events <- ev:
				case <-time.After(15 * time.Second):
					return false
				}
			}
		}
		return true
	}
	var o []string
	// 1. first announcement
	if mode == "share" {
		for k, ok := range keygen(ctx, pd, gid, ids1) {
			if !ok {
				o = append(o, fmt.Sprintf("keygen-unfinished: member %d did not finish the first key generation", k))
			}
		}
	} else {
		dead, kill := context.WithCancel(context.Background())
		kill()
		keygen(dead, pd, gid, ids1)
	}
	// 2. the dissolve event through onchainLoop
	if !toAll(func() interface{} { return &onchain.LogGroupDissolve{GroupId: new(big.Int).Set(gidNum)} }) {
		res.Impl, res.Oracle = "stuck event", "grp-stuck: onchainLoop did not take a chain event for 15 s"
		return
	}
	after := make([][][]byte, n)
	for k := range pd {
		after[k] = copyIDs(pd[k].GetGroupIDs(gid))
	}
	// 3. the group id is announced again, the members in another order
	fin2 := keygen(ctx, pd, gid, ids2)
	// 4. a request event of the group
	if !toAll(func() interface{} {
		return &onchain.LogUpdateRandom{LastRandomness: new(big.Int).Set(r), DispatchedGroupId: new(big.Int).Set(gidNum)}
	}) {
		res.Impl, res.Oracle = "stuck event", "grp-stuck: onchainLoop did not take a chain event for 15 s"
		return
	}
	sub2 := int(new(big.Int).Mod(new(big.Int).And(r, new(big.Int).Sub(two64, big.NewInt(1))), big.NewInt(int64(n))).Int64())
	memberOf2 := func(id []byte) string {
		for i := range ids2 {
			if bytesEq(ids2[i], id) {
				return strconv.Itoa(i)
			}
		}
		return "?"
	}
	if mode == "share" { // every non-submitter is expected to send: wait for it, no fixed sleep
		deadline := time.Now().Add(15 * time.Second)
		for time.Now().Before(deadline) {
			all := true
			for k, gn := range nodes {
				gn.mu.Lock()
				if len(gn.to) == 0 && !bytesEq(ids1[k], ids2[sub2]) {
					all = false
				}
				gn.mu.Unlock()
			}
			if all {
				break
			}
			time.Sleep(2 * time.Millisecond)
		}
	}
	time.Sleep(50 * time.Millisecond)
	var parts []string
	for k, gn := range nodes {
		st := "gone"
		if len(after[k]) > 0 {
			st = "kept"
			if !sameIDs(after[k], ids1) {
				o = append(o, fmt.Sprintf("member-list: after the dissolve member %d holds [%.120s], announced was [%.120s]", k, joinIDs(after[k]), joinIDs(ids1)))
			}
		}
		if mode == "share" && st != "gone" {
			o = append(o, fmt.Sprintf("dissolve-ignored: member %d held a share and kept the entry after the dissolve", k))
		}
		got := pd[k].GetGroupIDs(gid)
		share := pd[k].GetShareSecurity(gid) != nil
		fin := "none"
		if len(got) > 0 {
			sub, tag := stageSubmitter(r, got)
			fin = fmt.Sprintf("n=%d id %s", len(got), h.Hex(sub))
			if tag != "" {
				fin = tag
			}
			if !sameIDs(got, ids1) && !sameIDs(got, ids2) {
				o = append(o, fmt.Sprintf("member-list: member %d holds [%.120s] for group %s, which is neither announcement", k, joinIDs(got), gid))
			}
		}
		if mode == "share" && (!share || !fin2[k] || !sameIDs(got, ids2)) {
			o = append(o, fmt.Sprintf("keygen-unfinished: member %d: after dissolve and re-announcement it holds [%.90s], share %v (announced [%.90s])", k, joinIDs(got), share, joinIDs(ids2)))
		}
		gn.mu.Lock()
		to := append([][]byte(nil), gn.to...)
		gn.mu.Unlock()
		req := "-"
		if len(to) > 0 {
			req = "to=" + memberOf2(to[0])
			if len(to) > 1 {
				req += fmt.Sprintf("(x%d)", len(to))
			}
			if !sameIDs(got, ids2) {
				o = append(o, fmt.Sprintf("stale-list-used: member %d handled a request of group %s with the list [%.120s], the latest announcement is [%.120s]", k, gid, joinIDs(got), joinIDs(ids2)))
			} else if !bytesEq(to[0], ids2[sub2]) {
				o = append(o, fmt.Sprintf("submitter-index: member %d sent its share to member %s, entry (lastRand mod 2^64) mod %d of the announced list is member %d", k, memberOf2(to[0]), n, sub2))
			}
		} else if mode == "share" && !bytesEq(ids1[k], ids2[sub2]) {
			o = append(o, fmt.Sprintf("request-ignored: member %d holds a share of group %s and did not handle its request", k, gid))
		}
		parts = append(parts, fmt.Sprintf("%d:%s %s share=%d req=%s", k, st, fin, map[bool]int{true: 1, false: 0}[share], req))
	}
	cancel()
	res.Impl = strings.Join(parts, " ")
	res.Oracle = pick(o, "stale-list-used", "member-list", "submitter-index", "dissolve-ignored", "request-ignored", "keygen-unfinished")
	return
}

func genGrpD(tier string, rng *h.Rng, emit func(string)) {
	rs := rands(rng, false)
	k := 2
	if tier == "thorough" {
		k = 8
	}
	for i := 0; i < k; i++ {
		for _, mode := range []string{"share", "noshare"} {
			n := 3 + i%2
			ids := idList(rng, n, 0)
			perm := rng.Perm(n)
			if perm[0] == 0 { // another order for certain
				perm[0], perm[1] = perm[1], perm[0]
			}
			ids2 := make([][]byte, n)
			for a, b := range perm {
				ids2[a] = ids[b]
			}
			emit(fmt.Sprintf("grpd %d %d %s %s %s %s", n, 1+rng.Intn(1000), joinIDs(ids), joinIDs(ids2), mode, rs[rng.Intn(60)]))
		}
	}
}

/-
C05 driver: `adv` case lines (go/props/c05) on the member-machine model with the adversarial
message language of `Model/DkgSim.lean`. The trailing field (the Byzantine member's index) only
tells the Go oracle whom to leave out of the joint outcome.
-/
import DosModel.Model.DkgSim

def main : IO Unit := Dos.lineLoop (fun line =>
  let w := Dos.words line
  match w.head? with
  | some "adv" => Dos.DkgSim.runLine (w.take 5)
  | _ => "bad-op")

/-
C20 driver: maps a case line of go/props/c20 to the line the real code must print.
Scalar routines = the GENERATED translation of scalar.go executed with the real shift;
Schnorr = Model/Schnorr.lean over the independent SHA-512 / Edwards arithmetic in the same file.
fe / ge / pt2 cases (go/props/c20/fege.go) = the regenerated translation of fe.go / ge.go executed with Go's wrapping
integer semantics (Model/Ed25519FeOps.lean, Model/Ed25519Ge.lean), compared limb for limb and byte for byte.
-/
import DosModel.Model.Schnorr
import DosModel.Gen.Ed25519Sc
import DosModel.Model.Ed25519Ge
import DosModel.Model.SchnorrHist
import DosModel.Model.Ed25519ScalarApi
import DosModel.Gen.Ed25519Pt

open Dos Dos.Ed25519 Dos.Schnorr

namespace C20

def H := Sha512.sha512
def g := edGrp

def hex! (s : String) : Bytes := (ofHex s).getD []

def msgOf (tok : String) : Bytes :=
  if tok.startsWith "x" then hex! (tok.drop 1).toString
  else
    match ((tok.drop 1).toString.splitOn ",").map (fun s => s.toNat?.getD 0) with
    | [n, a, b] => (List.range n).map (fun i => UInt8.ofNat ((a * i + b) % 256))
    | _ => []

def zero32 : Bytes := List.replicate 32 0
def one32 : Bytes := 1 :: List.replicate 31 0

/-- scalar.Inv: Model/Ed25519ScalarApi.lean (the 256 square / multiply rounds over the translated scMul) -/
def scInv (a : Bytes) : Bytes := Ed25519.Api.inv a

def verdict : Except VErr Unit → String
  | .ok _ => "ok"
  | .error e => "rej:" ++ e.name

def stdVerdict (pub msg sig : Bytes) : String :=
  if pub.length = 32 ∧ verifyStd g H pub msg sig then "ok" else "rej"

/-- the nonce `random.Int(l, stream)` draws from the harness' fixed stream: 32 bytes big-endian, top 3 bits
masked, accepted if 0 < k < l; otherwise the stream continues with 00…01 blocks, i.e. k = 1 -/
def nonceOf (kb : Bytes) : Nat :=
  let k := beNat kb % 2 ^ 253
  if 0 < k ∧ k < ell then k else 1

structure StdKey where
  a : Nat          -- clamped secret scalar
  pre : Bytes      -- hash prefix
  pub : Bytes

def stdKey (seed : Bytes) : StdKey :=
  let d := H seed
  let lo := d.take 32
  let a := (leNat lo % 2 ^ 255) / 8 * 8 % 2 ^ 254 + 2 ^ 254
  { a := a, pre := d.drop 32, pub := g.enc (g.smul (a % ell) g.base) }

/-- RFC 8032 §5.1.6 signing (what crypto/ed25519.Sign does) -/
def stdSign (k : StdKey) (msg : Bytes) : Bytes :=
  let r := leNat (H (k.pre ++ msg)) % ell
  let R := g.enc (g.smul r g.base)
  let hk := leNat (H (R ++ k.pub ++ msg)) % ell
  R ++ natLE 32 ((r + hk * k.a) % ell)

def flipBit (bs : Bytes) (b : Nat) : Bytes :=
  bs.mapIdx (fun i x => if i = b / 8 then x ^^^ UInt8.ofNat (2 ^ (b % 8)) else x)

def bundledVerdict (pub msg sig : Bytes) : String :=
  match g.dec pub with
  | none => "rej:key"
  | some A => verdict (verify g H A msg sig)

/-! ### fe / ge / pt2: the limb-level model (Model/Ed25519FeOps.lean, Model/Ed25519Ge.lean) -/

open Dos.FeProg in
/-- `l0,l1,…,l9` (decimal, leading `-` for negatives) -/
def limbsOf (tok : String) : L10 := toL10 ((tok.splitOn ",").map (fun s => s.toInt?.getD 0))

open Dos.FeProg in
def showLimbs (l : L10) : String := ",".intercalate (l.toList.map toString)

open Dos.FeProg in
/-- a struct token: limb vectors joined by `/` -/
def vecsOf (tok : String) : List L10 := (tok.splitOn "/").map limbsOf

open Dos.FeProg in
def showVecs (vs : List L10) : String := "/".intercalate (vs.map showLimbs)

def projOf (tok : String) : Ge.Proj := Ge.proj3 (vecsOf tok) 0
def extOf (tok : String) : Ge.Ext := Ge.ext4 (vecsOf tok) 0
def complOf (tok : String) : Ge.Compl := Ge.compl4 (vecsOf tok) 0
def preOf (tok : String) : Ge.Pre := Ge.pre3 (vecsOf tok) 0
def cachedOf (tok : String) : Ge.Cached := Ge.cached4 (vecsOf tok) 0

def intOf (tok : String) : Int := tok.toInt?.getD 0

def feStep (arg : Nat → String) : String :=
  let pat := arg 2
  let f := limbsOf (arg 3)
  -- `f=g` / `all`: both operands are the same object, the second vector of the line is not used
  let g := if pat == "f=g" || pat == "all" then f else limbsOf (arg 4)
  match arg 1 with
  | "mul" => showLimbs (FeOps.feMul f g)
  | "square" => showLimbs (FeOps.feSquare f)
  | "square2" => showLimbs (FeOps.feSquare2 f)
  | "add" => showLimbs (FeOps.feAdd f g)
  | "sub" => showLimbs (FeOps.feSub f g)
  | "neg" => showLimbs (FeOps.feNeg f)
  | "copy" => showLimbs (FeOps.feCopy f)
  | "zero" => showLimbs FeOps.feZero
  | "one" => showLimbs FeOps.feOne
  | "cmove" => showLimbs (FeOps.feCMove f g (intOf (arg 5)))
  | "frombytes" => showLimbs (FeOps.feFromBytes (hex! (arg 3)))
  | "tobytes" => let r := FeOps.feToBytes f; toHex r.1 ++ " " ++ showLimbs r.2
  | "isneg" => let r := FeOps.feIsNegative f; toString r.1.toNat ++ " " ++ showLimbs r.2
  | "isnonzero" => let r := FeOps.feIsNonZero f; toString r.1 ++ " " ++ showLimbs r.2
  | "invert" => showLimbs (FeOps.feInvert f)
  | "pow22523" => showLimbs (FeOps.fePow22523 f)
  | _ => "bad fe op"

def geStep (arg : Nat → String) : String :=
  match arg 1 with
  | "zero" =>
    match arg 2 with
    | "proj" => showVecs Ge.projZero.regs
    | "ext" => showVecs Ge.extZero.regs
    | "pre" => showVecs Ge.preZero.regs
    | "cached" => showVecs Ge.cachedZero.regs
    | _ => "bad ge zero kind"
  | "double" => showVecs (Ge.projDouble (projOf (arg 2))).regs
  | "extdouble" => showVecs (Ge.extDouble (extOf (arg 2))).regs
  | "neg" =>
    if arg 2 == "inplace" then showVecs (Ge.extNegInPlace (extOf (arg 3))).regs
    else showVecs (Ge.extNeg (extOf (arg 3))).regs
  | "tocached" => showVecs (Ge.extToCached (extOf (arg 2))).regs
  | "toproj" => showVecs (Ge.extToProj (extOf (arg 2))).regs
  | "c2proj" => showVecs (Ge.complToProj (complOf (arg 2))).regs
  | "c2ext" => showVecs (Ge.complToExt (complOf (arg 2))).regs
  | "add" => showVecs (Ge.complAdd (extOf (arg 2)) (cachedOf (arg 3))).regs
  | "sub" => showVecs (Ge.complSub (extOf (arg 2)) (cachedOf (arg 3))).regs
  | "madd" => showVecs (Ge.complMixedAdd (extOf (arg 2)) (preOf (arg 3))).regs
  | "msub" => showVecs (Ge.complMixedSub (extOf (arg 2)) (preOf (arg 3))).regs
  | "precmove" => showVecs (Ge.preCMove (preOf (arg 2)) (preOf (arg 3)) (intOf (arg 4))).regs
  | "preneg" => showVecs (Ge.preNeg (preOf (arg 2))).regs
  | "cachedcmove" => showVecs (Ge.cachedCMove (cachedOf (arg 2)) (cachedOf (arg 3)) (intOf (arg 4))).regs
  | "cachedneg" => showVecs (Ge.cachedNeg (cachedOf (arg 2))).regs
  | "ptobytes" => toHex (Ge.projToBytes (projOf (arg 2)))
  | "tobytes" => toHex (Ge.extToBytes (extOf (arg 2)))
  | "frombytes" =>
    match Ge.extFromBytes (hex! (arg 2)) with
    | none => "false"
    | some p => showVecs p.regs
  | "equal" => toString (Ge.equal (intOf (arg 2)) (intOf (arg 3)))
  | "negative" => toString (Ge.negative (intOf (arg 2)))
  | "selpre" => showVecs (Ge.selectPreComputed (intOf (arg 2)).toNat (intOf (arg 3))).regs
  | "selcached" =>
    let ai := (List.range 8).map (fun i => cachedOf (arg (3 + i)))
    showVecs (Ge.selectCached ai (intOf (arg 2))).regs
  | "smult" => showVecs (Ge.geScalarMult (hex! (arg 3)) (extOf (arg 4))).regs  -- `inplace`: h is written last
  | "smultbase" => showVecs (Ge.geScalarMultBase (hex! (arg 2))).regs
  | "baseext" => showVecs Ge.baseExt.regs
  | _ => "bad ge op"

/-! pt2: the point API through the TRANSLATED point.go (Gen/Ed25519Pt.lean run by Model/PtProg.lean; proved equal to the hand
model `Ge.pt*` in Props/C20Point.lean): operands are decoded into fresh objects, the receiver is a fresh point -/

open Dos.PtProg Dos.Gen.Ed25519Pt in
def ptOut (st : St) (r : Nat) : Ge.Ext := geOf (st.regs.getD r .unset)

open Dos.PtProg Dos.Gen.Ed25519Pt in
/-- `suite.Point().UnmarshalBinary(b)` with the translated method -/
def ptUn (b : Bytes) : Option Ge.Ext :=
  let st := point_UnmarshalBinary.run [0, 1] [Ty.zero .ext, .bytes b]
  match st.res with
  | .ok => some (ptOut st 0)
  | _ => none

open Dos.PtProg Dos.Gen.Ed25519Pt in
/-- MarshalBinary with the translated method -/
def ptMar (p : Ge.Ext) : Bytes :=
  match (point_MarshalBinary.run [0] [.ext p false]).res with
  | .bytes b => b
  | _ => []

def showPt (p : Ge.Ext) : String := toHex (ptMar p) ++ " " ++ showVecs p.regs

open Dos.PtProg Dos.Gen.Ed25519Pt in
def pt2Step (arg : Nat → String) : String :=
  let un (i : Nat) : Option Ge.Ext := ptUn (hex! (arg i))
  let fresh : Val := Ty.zero .ext
  match arg 1 with
  | "base" => showPt (ptOut (point_Base.run [0] [fresh]) 0)
  | "null" =>
    -- the harness calls Null on a point that held the base point
    showPt (ptOut (point_Null.run [0] [.ext Ge.baseExt false]) 0)
  | "mulbase" => showPt (ptOut (point_Mul.run [0, 1, 2] [fresh, .bytes (hex! (arg 2)), .nil]) 0)
  | "unmarshal" =>
    match un 2 with
    | none => "err"
    | some p => "ok " ++ showPt p
  | "neg" =>
    match un 2 with
    | some p => showPt (ptOut (point_Neg.run [0, 1] [fresh, .ext p false]) 0)
    | none => "operand does not decode"
  | "mul" =>
    match un 3 with
    | some p => showPt (ptOut (point_Mul.run [0, 1, 2] [fresh, .bytes (hex! (arg 2)), .ext p false]) 0)
    | none => "operand does not decode"
  | "add" | "sub" | "equal" =>
    match un 2, un 3 with
    | some p, some q =>
      match arg 1 with
      | "add" => showPt (ptOut (point_Add.run [0, 1, 2] [fresh, .ext p false, .ext q false]) 0)
      | "sub" => showPt (ptOut (point_Sub.run [0, 1, 2] [fresh, .ext p false, .ext q false]) 0)
      | _ =>
        match (point_Equal.run [0, 1] [.ext p false, .ext q false]).res with
        | .bool b => toString b
        | _ => "no result"
    | _, _ => "operand does not decode"
  | _ => "bad pt2 op"

/-! ### hist: call histories (go/props/c20/hist.go) through Model/SchnorrHist.lean -/

open Dos.SchnorrHist in
/-- one token of a `hist` line as a step of the history model (`none`: not a step the model knows) -/
def histTok (tok : String) : Option (Step Ed.Pt) :=
  let f := tok.splitOn ":"
  let n (k : Nat) : Nat := (f.getD k "").toNat?.getD 0
  let hx (k : Nat) : Bytes := hex! (f.getD k "")
  match f.getD 0 "" with
  | "su" => some (.upd (.scSet (n 1) (leNat (hx 2))))
  | "sb" => some (.upd (.scSet (n 1) (leNat (hx 2) % ell)))
  | "sp" => some (.upd (.scSet (n 1) (nonceOf (hx 2))))
  | "s1" => some (.upd (.scSet (n 1) 1))
  | "s0" => some (.upd (.scSet (n 1) 0))
  | "sa" => some (.upd (.scAdd (n 1) (n 2) (n 3)))
  | "ss" => some (.upd (.scSub (n 1) (n 2) (n 3)))
  | "sm" => some (.upd (.scMul (n 1) (n 2) (n 3)))
  | "sn" => some (.upd (.scNeg (n 1) (n 2)))
  | "sc" | "sk" => some (.upd (.scCopy (n 1) (n 2)))
  | "pu" => (g.dec (hx 2)).map (fun P => .upd (.ptSet (n 1) P))
  | "pb" => some (.upd (.ptMulBase (n 1) (n 2)))
  | "pm" => some (.upd (.ptMul (n 1) (n 2) (n 3)))
  | "pa" => some (.upd (.ptAdd (n 1) (n 2) (n 3)))
  | "pc" | "pk" => some (.upd (.ptCopy (n 1) (n 2)))
  | "bw" | "bn" => some (.upd (.bufWrite (n 1) (msgOf (f.getD 2 ""))))
  | "bp" => some (.upd (.bufPoke (n 1) (n 2) (hx 3)))
  | "S" => some (.call (.sign (n 1) (n 2) (nonceOf (hx 3))) (if f.getD 4 "-" == "-" then none else some (n 4)))
  | "V" => some (.call (.verify (n 1) (n 2) (n 3)) none)
  | _ => none

open Dos.SchnorrHist in
def showOutcome : Outcome → String
  | .signature s => "sig=" ++ toHex s
  | .verdict none => "ok"
  | .verdict (some e) => "rej:" ++ e.name
  | .badRef => "badref"

open Dos.SchnorrHist in
/-- the outcome list of the model `runHist` on the steps of the line -/
def histStep (toks : List String) : String :=
  match toks.mapM histTok with
  | none => "bad hist step"
  | some steps =>
    match runHist g H {} steps with
    | [] => "-"
    | outs => " ".intercalate (outs.map showOutcome)

open Dos.PtProg Dos.Gen.Ed25519Pt in
/-- point receivers with history: the TRANSLATED methods run with the receiver register holding the old point -/
def drpStep (arg : Nat → String) : String :=
  match ptUn (hex! (arg 2)) with
  | none => "receiver does not decode"
  | some d =>
    let r : Val := .ext d false
    let un (i : Nat) : Option Ge.Ext := ptUn (hex! (arg i))
    let show1 (st : St) : String := toHex (ptMar (ptOut st 0))
    match arg 1 with
    | "null" => show1 (point_Null.run [0] [r])
    | "base" => show1 (point_Base.run [0] [r])
    | "unmarshal" =>
      let st := point_UnmarshalBinary.run [0, 1] [r, .bytes (hex! (arg 3))]
      match st.res with
      | .ok => show1 st
      | _ => "err"
    | "set" =>
      match un 3 with
      | some p => show1 (point_Set.run [0, 1] [r, .ext p false])
      | none => "operand does not decode"
    | "neg" =>
      match un 3 with
      | some p => show1 (point_Neg.run [0, 1] [r, .ext p false])
      | none => "operand does not decode"
    | "add" | "sub" =>
      match un 3, un 4 with
      | some p, some q =>
        if arg 1 == "add" then show1 (point_Add.run [0, 1, 2] [r, .ext p false, .ext q false])
        else show1 (point_Sub.run [0, 1, 2] [r, .ext p false, .ext q false])
      | _, _ => "operand does not decode"
    | "mul" =>
      match un 4 with
      | some p => show1 (point_Mul.run [0, 1, 2] [r, .bytes (hex! (arg 3)), .ext p false])
      | none => "operand does not decode"
    | "mulbase" => show1 (point_Mul.run [0, 1, 2] [r, .bytes (hex! (arg 3)), .nil])
    | _ => "bad drp op"

def step (line : String) : String :=
  let w := words line
  let arg (i : Nat) : String := w.getD i ""
  let hx (i : Nat) : Bytes := hex! (arg i)
  match arg 0 with
  | "sc" =>
    match arg 1 with
    | "muladd" => toHex (Gen.Ed25519Sc.scMulAdd shrI (hx 2) (hx 3) (hx 4))
    | "add" => toHex (Gen.Ed25519Sc.scAdd shrI (hx 2) (hx 3))
    | "sub" => toHex (Gen.Ed25519Sc.scSub shrI (hx 2) (hx 3))
    | "mul" => toHex (Gen.Ed25519Sc.scMul shrI (hx 2) (hx 3))
    | "reduce" => toHex (Gen.Ed25519Sc.scReduce shrI (hx 2))
    | _ => "bad sc op"
  | "api" =>
    match arg 1 with
    | "add" => toHex (scMarshal (Gen.Ed25519Sc.scAdd shrI (hx 2) (hx 3)))
    | "sub" => toHex (scMarshal (Gen.Ed25519Sc.scSub shrI (hx 2) (hx 3)))
    | "mul" => toHex (scMarshal (Gen.Ed25519Sc.scMul shrI (hx 2) (hx 3)))
    | "neg" => toHex (scMarshal (Gen.Ed25519Sc.scSub shrI zero32 (hx 2)))
    | "inv" => toHex (scMarshal (scInv (hx 2)))
    | "setbytes" => toHex (scSetBytes (hx 2))
    | "unmarshal" =>
      match scUnmarshal (hx 2) with
      | .ok v => "ok " ++ toHex (scMarshal v)
      | .error _ => "err size"
    | _ => "bad api op"
  | "pt" =>
    match g.dec (hx 1) with
    | none => "err"
    | some P => "ok " ++ toHex (g.enc P)
  | "sv" =>
    let key := stdKey (hx 1)
    let k := nonceOf (hx 2)
    let msg := msgOf (arg 3)
    let x := key.a % ell
    let sig := sign g H x k msg
    let sig2 := stdSign key msg
    s!"pub={toHex key.pub} sig={toHex sig} bv={bundledVerdict key.pub msg sig} sv={stdVerdict key.pub msg sig} sig2={toHex sig2} bv2={bundledVerdict key.pub msg sig2}"
  | "svx" =>
    let x := leNat (hx 1)
    let k := nonceOf (hx 2)
    let msg := msgOf (arg 3)
    let pub := g.enc (g.smul x g.base)
    let sig := sign g H x k msg
    s!"pub={toHex pub} sig={toHex sig} bv={bundledVerdict pub msg sig} sv={stdVerdict pub msg sig}"
  | "mut" =>
    let key := stdKey (hx 1)
    let k := nonceOf (hx 2)
    let msg := msgOf (arg 3)
    let sig := if arg 4 == "b" then sign g H (key.a % ell) k msg else stdSign key msg
    let what := (arg 5).splitOn ":"
    let kind := what.getD 0 ""
    let a := what.getD 1 ""
    let n := a.toNat?.getD 0
    let (pub, msg, sig) : Bytes × Bytes × Bytes :=
      match kind with
      | "sig" => (key.pub, msg, flipBit sig n)
      | "msg" => (key.pub, flipBit msg n, sig)
      | "app" => (key.pub, msg ++ [UInt8.ofNat n], sig)
      | "key" => (flipBit key.pub n, msg, sig)
      | "splus" => (key.pub, msg, sig.take 32 ++ natLE 32 (leNat (sig.drop 32) + ell))
      | "sneg" => (key.pub, msg, sig.take 32 ++ natLE 32 ((ell - leNat (sig.drop 32) % ell) % ell))
      | "rneg" => (key.pub, msg, flipBit sig 255)
      | "rsneg" => (key.pub, msg, (flipBit sig 255).take 32 ++ natLE 32 ((ell - leNat (sig.drop 32) % ell) % ell))
      | "trunc" => (key.pub, msg, sig.take n)
      | "ext" => (key.pub, msg, sig ++ hex! a)
      | _ => (key.pub, msg, sig)
    s!"bv={bundledVerdict pub msg sig} sv={stdVerdict pub msg sig}"
  | "ali" =>
    -- the value of an operation does not depend on which object receives it: patterns f / r1 / r2 use (A, B),
    -- patterns ab / all use (A, A)
    let a := hx 3
    let b := if arg 2 == "ab" || arg 2 == "all" then hx 3 else hx 4
    match arg 1 with
    | "add" => toHex (scMarshal (Gen.Ed25519Sc.scAdd shrI a b))
    | "sub" => toHex (scMarshal (Gen.Ed25519Sc.scSub shrI a b))
    | "mul" => toHex (scMarshal (Gen.Ed25519Sc.scMul shrI a b))
    | "div" => toHex (scMarshal (Gen.Ed25519Sc.scMul shrI a (scInv b)))
    | "neg" => toHex (scMarshal (Gen.Ed25519Sc.scSub shrI zero32 a))
    | "inv" => toHex (scMarshal (scInv a))
    | "set" => toHex (scMarshal a)
    | _ => "bad ali op"
  | "sca" =>
    let same := arg 2 == "in" || arg 2 == "all"
    let a := hx 3
    let b := if same then a else hx 4
    let c := if same then a else hx 5
    match arg 1 with
    | "muladd" => toHex (Gen.Ed25519Sc.scMulAdd shrI a b c)
    | "add" => toHex (Gen.Ed25519Sc.scAdd shrI a b)
    | "sub" => toHex (Gen.Ed25519Sc.scSub shrI a b)
    | "mul" => toHex (Gen.Ed25519Sc.scMul shrI a b)
    | _ => "bad sca op"
  | "pta" =>
    match g.dec (hx 3), g.dec (hx 4) with
    | some P, some Q0 =>
      let Q := if arg 2 == "ab" || arg 2 == "all" then P else Q0
      let s := leNat (hx 5)
      match arg 1 with
      | "add" => toHex (g.enc (Ed.add P Q))
      | "sub" => toHex (g.enc (Ed.add P (Ed.neg Q)))
      | "neg" => toHex (g.enc (Ed.neg P))
      | "mul" => toHex (g.enc (Ed.smul s P))
      | "mulbase" => toHex (g.enc (Ed.smul s Ed.base))
      | _ => "bad pta op"
    | _, _ => "operand does not decode"
  | "apx" =>
    match arg 1 with
    | "setint64" => toHex (Ed25519.Api.setInt64 ((arg 2).toInt?.getD 0))
    | "zero" => toHex (natLE 32 0)
    | "one" => toHex (natLE 32 1)
    | "pick" =>
      -- the harness' fixed stream: the given 32 bytes, then 00…01 blocks
      toHex ((Ed25519.Api.pick [hx 2, List.replicate 31 0 ++ [1]]).getD [])
    | "clone" => toHex (scMarshal (hx 2))
    | "equal" => s!"equal={hx 2 == hx 3} self=true"
    | "string" => String.join ((scMarshal (hx 2)).map hexOfByte)
    | "marshalto" => toHex (Ed25519.Api.marshalTo (hx 2)) ++ " n=32 err=false"
    | "unmarshalfrom" =>
      let r := Ed25519.Api.unmarshalFrom (hx 2)
      match r.2 with
      | .ok v => s!"ok n={r.1} {toHex (scMarshal v)} left={(hx 2).length - 32}"
      | .error _ => s!"err n={r.1}"
    | "ptmarshalto" =>
      match ptUn (hx 2) with
      | some p => toHex (ptMar p) ++ " n=32 err=false"
      | none => "operand does not decode"
    | "ptunmarshalfrom" =>
      -- marshalling.PointUnmarshalFrom: io.ReadFull of MarshalSize() bytes, then the translated UnmarshalBinary
      let x := hx 2
      if x.length < 32 then s!"err n={x.length}" else
      match ptUn (x.take 32) with
      | some p => s!"ok n=32 {toHex (ptMar p)} left={x.length - 32}"
      | none => "err n=32"
    | _ => "bad apx op"
  | "hist" => histStep (w.drop 2)
  | "vfy" =>
    -- a literal (key, message, signature): the bundled Verify and the RFC 8032 verifier, both cofactorless
    s!"bv={bundledVerdict (hx 2) (msgOf (arg 3)) (hx 4)} sv={stdVerdict (hx 2) (msgOf (arg 3)) (hx 4)}"
  | "drt" =>
    -- a receiver with history: the value of an operation does not depend on what the receiver held (arg 2)
    match arg 1 with
    | "setbytes" => toHex (scSetBytes (hx 3))
    | "unmarshal" =>
      match scUnmarshal (hx 3) with
      | .ok v => toHex (scMarshal v)
      | .error _ => "err size " ++ toHex (scMarshal (hx 2))
    | "setint64" => toHex (Ed25519.Api.setInt64 ((arg 3).toInt?.getD 0))
    | "zero" => toHex Ed25519.Api.zero
    | "one" => toHex Ed25519.Api.one
    | "pick" => toHex ((Ed25519.Api.pick [hx 3, List.replicate 31 0 ++ [1]]).getD [])
    | "set" => toHex (scMarshal (hx 3))
    | "add" => toHex (scMarshal (Ed25519.Api.add (hx 3) (hx 4)))
    | "sub" => toHex (scMarshal (Ed25519.Api.sub (hx 3) (hx 4)))
    | "mul" => toHex (scMarshal (Ed25519.Api.mul (hx 3) (hx 4)))
    | "div" => toHex (scMarshal (Ed25519.Api.div (hx 3) (hx 4)))
    | "neg" => toHex (scMarshal (Ed25519.Api.neg (hx 3)))
    | "inv" => toHex (scMarshal (Ed25519.Api.inv (hx 3)))
    | _ => "bad drt op"
  | "drp" => drpStep arg
  | "fe" => feStep arg
  | "ge" => geStep arg
  | "pt2" => pt2Step arg
  | _ => "bad case line"

end C20

/-- `Dos.lineLoop` with the lines of a batch evaluated in parallel tasks (the limb interpreter makes `step` slow: one
scalar multiplication takes seconds); the output order is the input order, empty lines are skipped as `lineLoop` does -/
partial def parLoop (f : String → String) : IO Unit := do
  let stdin ← IO.getStdin
  let stdout ← IO.getStdout
  let rec readBatch (n : Nat) (acc : Array String) : IO (Array String × Bool) := do
    if n = 0 then return (acc, false)
    let line ← stdin.getLine
    if line.isEmpty then return (acc, true)
    let l := (line.trimAsciiEnd).toString
    if l.isEmpty then readBatch n acc else readBatch (n - 1) (acc.push l)
  let rec go : IO Unit := do
    let (batch, eof) ← readBatch 512 #[]
    let tasks := batch.map (fun l => Task.spawn (fun _ => f l))
    for t in tasks do
      stdout.putStrLn t.get
    stdout.flush
    if eof then return () else go
  go

def main : IO Unit := parLoop C20.step

import DosModel.Model.ReqLoop
import DosModel.Model.Keccak
/-!
Line-protocol driver for C19 (see go/props/c19/c19.go for the grammar).

  hr <o1,o2,…>                                   handleReq alone (hook), outcomes acc|closed|nonce|revert|funds|other|done|op
  seq <gasLimit> <gasPrice> <chainId> <call>…    real adaptor, each call = name/args/outcomes
  sig <sighex>                                   Signature.ToBigInt
  pk <marshalled G2 hex>                         decodePubKey
-/
namespace Dos.C19Drv
open Dos Dos.ReqLoop

def synPayload (n a b : Nat) : Bytes :=
  (List.range n).map (fun i => UInt8.ofNat ((a * i + b) % 256))

def adler32 (bs : Bytes) : Nat :=
  let (s1, s2) := bs.foldl (fun (p : Nat × Nat) x =>
    let s1 := (p.1 + x.toNat) % 65521
    (s1, (p.2 + s1) % 65521)) (1, 0)
  s2 * 65536 + s1

def parseContent (s : String) : Option Bytes :=
  match s.splitOn "." with
  | ["syn", n, a, b] => do
    let n ← n.toNat?
    let a ← a.toNat?
    let b ← b.toNat?
    pure (synPayload n a b)
  | _ => ofHex s

/-- full-stack outcome token → (model outcome, does the raw transaction reach the endpoint) -/
def parseFs : String → Option (Outcome × Bool)
  | "acc" => some (.accept, true)
  | "conn" => some (.nonceErr, false)      -- connection dropped at the first RPC (account nonce)
  | "nonce" => some (.nonceErr, false)
  | "revert" => some (.revert, true)
  | "funds" => some (.insufficient, true)
  | "other" => some (.otherErr, true)
  | "closed" => some (.closedConn, true)
  | "hdr" => some (.otherErr, false)       -- error at eth_getBlockByNumber
  | "connsend" => some (.otherErr, false)  -- connection dropped at eth_sendRawTransaction
  | _ => none

def mod256 (v : Nat) : Nat := v % 2 ^ 256

/-- canonical method + argument rendering of one call, as decoded from the raw transaction -/
def renderCall (name args : String) : Option String :=
  let a := args.splitOn ";"
  match name, a with
  | "ur", [sig] => do
    let s ← ofHex sig
    let (x, y) := toBigInt s
    pure s!"to=proxy m=updateRandomness args={mod256 x},{mod256 y}"
  | "dr", [sig, rid, idx, content] => do
    let s ← ofHex sig
    let r ← ofHex rid
    let i ← idx.toNat?
    let c ← parseContent content
    let (x, y) := toBigInt s
    pure s!"to=proxy m=triggerCallback args={mod256 (requestId r)},{trafficType i},{c.length}:{adler32 c},{mod256 x},{mod256 y}"
  | "rg", [d0, d1, d2, d3, d4] => do
    let v ← [d0, d1, d2, d3, d4].mapM String.toNat?
    pure s!"to=proxy m=registerGroupPubKey args={String.intercalate "," (v.map (fun x => toString (mod256 x)))}"
  | "rn", ["-"] => pure "to=proxy m=registerNewNode args=-"
  | "cm", [cid, h] => do
    let c ← cid.toNat?
    let b ← ofHex h
    if b.length ≠ 32 then none else
    pure s!"to=cr m=commit args={mod256 c},{toHex b}"
  | "rv", [cid, sec] => do
    let c ← cid.toNat?
    let s ← sec.toNat?
    pure s!"to=cr m=reveal args={mod256 c},{mod256 s}"
  | _, _ => none

def seqStep (gl gp cid : Nat) : List Nat → List String → Option (List String)
  | _, [] => some []
  | dead, c :: rest =>
    match c.splitOn "/" with
    | [name, args, outs] => do
      let fs ← (outs.splitOn ",").mapM parseFs
      let os := fs.map (·.1)
      let (r, dead') := call true dead os
      let raw := r.contacted.filter (fun i => match fs[i]? with | some (_, b) => b | none => false)
      let body ← renderCall name args
      let txs := raw.map (fun i =>
        s!"{i}:{body} nonce={7 + i} gas={gl} price={if gp = 0 then 2000000000 + i else gp} chain={cid} from=key")
      let line := s!"err={callErrName r.err} contacted={natsCsv r.contacted} raw={natsCsv raw} tx={if txs.isEmpty then "-" else String.intercalate ";" txs}"
      let more ← seqStep gl gp cid dead' rest
      pure (line :: more)
    | _ => none

/-- `cfg` lines: a history of setters, reconnects and calls (RegisterNewNode) on one adaptor -/
def cfgStep : Adaptor → List String → Option (List String)
  | _, [] => some []
  | a, tok :: rest =>
    match tok.splitOn ":" with
    | ["gp", v] => do cfgStep (a.setGasPrice (← v.toNat?)) rest
    | ["gl", v] => do cfgStep (a.setGasLimit (← v.toNat?)) rest
    | ["re"] => cfgStep a.reconnect rest
    | ["tx", outs] => do
      let fs ← (outs.splitOn ",").mapM parseFs
      let (r, dead') := call true a.dead (fs.map (·.1))
      let raw := r.contacted.filter (fun i => match fs[i]? with | some (_, b) => b | none => false)
      let txs := raw.map (fun i =>
        s!"{i}:nonce={7 + i} gas={a.session.gasLimit} price={if a.session.gasPrice = 0 then 2000000000 + i else a.session.gasPrice} chain={a.session.chainId} from=key")
      let line := s!"err={callErrName r.err} contacted={natsCsv r.contacted} raw={natsCsv raw} tx={if txs.isEmpty then "-" else String.intercalate ";" txs}"
      let more ← cfgStep { a with dead := dead' } rest
      pure (line :: more)
    | _ => none

def step (line : String) : String :=
  match words line with
  | ["hr", os] =>
    match parseOutcomes os with
    | some os => showResult (run os)
    | none => "bad-op"
  | "seq" :: gl :: gp :: cid :: calls =>
    match gl.toNat?, gp.toNat?, cid.toNat? with
    | some gl, some gp, some cid =>
      match seqStep gl gp cid [] calls with
      | some ls => String.intercalate " | " ls
      | none => "bad-op"
    | _, _, _ => "bad-op"
  | "cfg" :: gl :: gp :: cid :: ops =>
    match gl.toNat?, gp.toNat?, cid.toNat? with
    | some gl, some gp, some cid =>
      match cfgStep (Adaptor.start ⟨gl, gp, cid⟩) ops with
      | some ls => String.intercalate " | " ls
      | none => "bad-op"
    | _, _, _ => "bad-op"
  | ["cr", seed, cid] =>
    match seed.toNat?, cid.toNat? with
    | some seed, some cid =>
      -- the secret is drawn inside handleCR; with randSeed = 1 it is 0 and the commitment is determined
      let extra := if seed = 1 then " commitment=" ++ toHex (crCommitment Keccak.keccak256 0) else ""
      s!"txs=commit,reveal cid={cid % 2 ^ 256},{cid % 2 ^ 256} match=true" ++ extra
    | _, _ => "bad-op"
  | ["race", n] =>
    match n.toNat? with
    | some n =>
      -- A fails with a nonce error on every endpoint (each is cancelled); B already passed the
      -- isConnecting check, so it goes straight to handleReq with every endpoint context done
      let (a, dead) := call true [] (List.replicate n .nonceErr)
      let b := handleReq true (overlay dead (List.replicate n .accept))
      let be := match b.reply with
        | none => some CallErr.opCtx
        | some rep => rep.err.map CallErr.req
      s!"A={callErrName a.err} B={callErrName be} sent=0"
    | none => "bad-op"
  | ["sig", s] =>
    match ofHex s with
    | some b =>
      let (x, y) := toBigInt b
      s!"ok {x} {y}"
    | none => "bad-op"
  | "pk" :: s :: _ =>
    match ofHex s with
    | some b =>
      match decodePubKey b with
      | some v => "ok " ++ String.intercalate " " (v.map toString)
      | none => "panic"
    | none => "bad-op"
  | _ => "bad-op"

end Dos.C19Drv

def main : IO Unit := Dos.lineLoop Dos.C19Drv.step

/-
Composition helper: the executable `Fp2` of `Model/Bn256.lean` (pairs of naturals, every operation
reduced `% p`) computes in the FIELD `F_p² = F_p[i]/(i²+1)`, realised as Mathlib's
`QuadraticAlgebra (ZMod p) (-1) 0` — a field because `p` is prime (`Proofs/Primes.lean`) and
`p ≡ 3 (mod 4)`, so `−1` is not a square modulo `p`.
`c2 : Fp2 → K2` (cast both components) carries `add sub neg mul sq smulFp inv` to `+ − − · ·² · ⁻¹`.
-/
import Mathlib.Algebra.QuadraticAlgebra.Basic
import Mathlib.NumberTheory.LegendreSymbol.Basic
import DosModel.Proofs.Bn256ConcCurve

namespace Dos.Compose
open Dos Dos.Bn256

theorem p_mod_four : Bn256.p % 4 = 3 := by decide

instance fact_neg_one_nonsquare : Fact (∀ r : ZMod Bn256.p, r ^ 2 ≠ -1 + 0 * r) :=
  ⟨fun r h => ZMod.mod_four_ne_three_of_sq_eq_neg_one (p := Bn256.p) (y := r) (by simpa using h) p_mod_four⟩

/-- `F_p²`, `ω = i`, `i² = −1` -/
abbrev K2 := QuadraticAlgebra (ZMod Bn256.p) (-1) 0

/-- the value of a model `Fp2` (`im·i + re`) -/
def c2 (a : Bn256.Fp2) : K2 := ⟨(a.re : ZMod Bn256.p), (a.im : ZMod Bn256.p)⟩

theorem c2_add (a b : Bn256.Fp2) : c2 (Fp2.add a b) = c2 a + c2 b := by
  ext <;> simp [c2, Fp2.add, cast_fadd]

theorem c2_sub (a b : Bn256.Fp2) : c2 (Fp2.sub a b) = c2 a - c2 b := by
  ext <;> simp [c2, Fp2.sub, cast_fsub]

theorem c2_neg (a : Bn256.Fp2) : c2 (Fp2.neg a) = -c2 a := by
  ext <;> simp [c2, Fp2.neg, cast_fneg]

theorem c2_mul (a b : Bn256.Fp2) : c2 (Fp2.mul a b) = c2 a * c2 b := by
  ext
  · simp only [c2, Fp2.mul, cast_fsub, cast_fmul, QuadraticAlgebra.re_mul]; ring
  · simp only [c2, Fp2.mul, cast_fadd, cast_fmul, QuadraticAlgebra.im_mul]; ring

theorem c2_sq (a : Bn256.Fp2) : c2 (Fp2.sq a) = c2 a * c2 a := c2_mul a a

theorem c2_smulFp (k : Nat) (a : Bn256.Fp2) : c2 (Fp2.smulFp k a) = (k : K2) * c2 a := by
  ext
  · simp [c2, Fp2.smulFp, cast_fmul]
  · simp [c2, Fp2.smulFp, cast_fmul]

theorem c2_inv (a : Bn256.Fp2) : c2 (Fp2.inv a) = (c2 a)⁻¹ := by
  ext
  · simp only [c2, Fp2.inv, cast_fmul, cast_finv, cast_fadd, cast_fsq, QuadraticAlgebra.re_inv,
      QuadraticAlgebra.norm_def]
    rw [show ((a.re : ZMod Bn256.p) * a.re + 0 * a.re * a.im - -1 * a.im * a.im) = (a.im : ZMod Bn256.p) * a.im + a.re * a.re by ring]
    ring
  · simp only [c2, Fp2.inv, cast_fmul, cast_finv, cast_fadd, cast_fsq, cast_fneg, QuadraticAlgebra.im_inv,
      QuadraticAlgebra.norm_def]
    rw [show ((a.re : ZMod Bn256.p) * a.re + 0 * a.re * a.im - -1 * a.im * a.im) = (a.im : ZMod Bn256.p) * a.im + a.re * a.re by ring]
    ring

/-- equality after reduction = equality of values -/
theorem reduce_eq_iff (a b : Bn256.Fp2) : Fp2.reduce a = Fp2.reduce b ↔ c2 a = c2 b := by
  simp only [Fp2.reduce, Fp2.mk.injEq, mod_eq_iff_cast, c2, QuadraticAlgebra.ext_iff]
  exact and_comm

theorem reduce_isZero_iff (a : Bn256.Fp2) : (Fp2.reduce a).isZero = true ↔ c2 a = 0 := by
  simp only [Fp2.reduce, Fp2.isZero, Bool.and_eq_true, beq_iff_eq, mod_eq_zero_iff_cast, c2,
    QuadraticAlgebra.ext_iff, QuadraticAlgebra.re_zero, QuadraticAlgebra.im_zero]
  exact and_comm

/-- on reduced values `c2` is injective -/
theorem c2_inj_reduced {a b : Bn256.Fp2} (ha : a.im < Bn256.p ∧ a.re < Bn256.p)
    (hb : b.im < Bn256.p ∧ b.re < Bn256.p) (h : c2 a = c2 b) : a = b := by
  have := (reduce_eq_iff a b).2 h
  simp only [Fp2.reduce, Nat.mod_eq_of_lt ha.1, Nat.mod_eq_of_lt ha.2, Nat.mod_eq_of_lt hb.1,
    Nat.mod_eq_of_lt hb.2] at this
  cases a; cases b; simpa using this

def Fp2.Red (a : Bn256.Fp2) : Prop := a.im < Bn256.p ∧ a.re < Bn256.p

theorem red_add (a b : Bn256.Fp2) : Fp2.Red (Fp2.add a b) := ⟨fadd_lt _ _, fadd_lt _ _⟩
theorem red_sub (a b : Bn256.Fp2) : Fp2.Red (Fp2.sub a b) := ⟨fsub_lt _ _, fsub_lt _ _⟩
theorem red_neg (a : Bn256.Fp2) : Fp2.Red (Fp2.neg a) := ⟨fneg_lt _, fneg_lt _⟩
theorem red_mul (a b : Bn256.Fp2) : Fp2.Red (Fp2.mul a b) := ⟨fadd_lt _ _, fsub_lt _ _⟩

theorem two_ne_zero_K2 : (2 : K2) ≠ 0 := by
  intro h
  have := congrArg QuadraticAlgebra.re h
  rw [QuadraticAlgebra.re_ofNat, QuadraticAlgebra.re_zero] at this
  exact two_ne_zero_F this

theorem three_ne_zero_K2 : (3 : K2) ≠ 0 := by
  intro h
  have h1 := congrArg QuadraticAlgebra.re h
  rw [QuadraticAlgebra.re_ofNat, QuadraticAlgebra.re_zero] at h1
  have : ((3 : Nat) : ZMod Bn256.p) = 0 := by exact_mod_cast h1
  rw [ZMod.natCast_eq_zero_iff] at this
  exact absurd (Nat.le_of_dvd (by decide) this) (by decide)

theorem three_ne_zero_F : (3 : ZMod Bn256.p) ≠ 0 := by
  intro h1
  have : ((3 : Nat) : ZMod Bn256.p) = 0 := by exact_mod_cast h1
  rw [ZMod.natCast_eq_zero_iff] at this
  exact absurd (Nat.le_of_dvd (by decide) this) (by decide)

end Dos.Compose

import DosModel.Model.Content
import DosModel.Model.Eval
import DosModel.Model.ContentPath
import DosModel.Gen.DosnodeConsts
import DosModel.Gen.DosnodeFlow
def main : IO Unit := Dos.lineLoop (fun l =>
  match Dos.ContentPath.stepLine Dos.Gen.padSize Dos.Gen.stripLen Dos.Gen.DosnodeFlow.maxDocumentSize l with
  | some o => o
  | none =>
    match Dos.Eval.stepLine Dos.Gen.padSize Dos.Gen.stripLen l with
    | some o => o
    | none => Dos.Content.stepLine Dos.Gen.padSize Dos.Gen.stripLen l)

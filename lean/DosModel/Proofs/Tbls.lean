/-
Lemmas about the model of `sign/tbls` (`Model/Tbls.lean`) over an arbitrary field `F`
(scalars), `F`-module `G` (signature group) and codec.
-/
import DosModel.Model.Tbls
import DosModel.Proofs.Share
import Mathlib.Data.Finset.Card

set_option linter.unusedSectionVars false

namespace Dos.Tbls
open Dos Dos.Share

variable {F : Type} [Field F] [DecidableEq F]
variable {G : Type} [AddCommGroup G] [Module F G] [DecidableEq G]

/-! ### `sliceUniqMap` -/

theorem mem_uniqAux (seen l : List Bytes) (e : Bytes) :
    e ∈ uniqAux seen l ↔ e ∈ l ∧ e ∉ seen := by
  induction l generalizing seen with
  | nil => simp [uniqAux]
  | cons v rest ih =>
    unfold uniqAux
    by_cases hv : v ∈ seen
    · simp only [hv, if_true, ih, List.mem_cons]
      constructor
      · rintro ⟨h1, h2⟩; exact ⟨Or.inr h1, h2⟩
      · rintro ⟨h1 | h1, h2⟩
        · subst h1; exact absurd hv h2
        · exact ⟨h1, h2⟩
    · simp only [hv, if_false, List.mem_cons, ih]
      constructor
      · rintro (h | ⟨h1, h2⟩)
        · subst h; exact ⟨Or.inl rfl, hv⟩
        · exact ⟨Or.inr h1, fun h => h2 (Or.inr h)⟩
      · rintro ⟨h1 | h1, h2⟩
        · exact Or.inl h1
        · by_cases he : e = v
          · exact Or.inl he
          · exact Or.inr ⟨h1, fun h => by rcases h with h | h; exact he h; exact h2 h⟩

/-- exact-duplicate removal keeps exactly the same set of entries -/
theorem mem_uniq (l : List Bytes) (e : Bytes) : e ∈ uniq l ↔ e ∈ l := by
  simp [uniq, mem_uniqAux]

/-- the caller's slice after the in-place compaction still holds exactly the same set of entries -/
theorem mem_uniqInPlace (l : List Bytes) (e : Bytes) : e ∈ uniqInPlace l ↔ e ∈ l := by
  unfold uniqInPlace
  rw [List.mem_append, mem_uniq]
  constructor
  · rintro (h | h)
    · exact h
    · exact List.mem_of_mem_drop h
  · intro h; exact Or.inl h

/-! ### verification -/

variable (cd : Codec G) (pub : List F) (hm : G) (t n : Nat)

theorem blsVerifyR_ok_iff (x : F) (sig : Bytes) :
    blsVerifyR cd x hm sig = .ok ↔ cd.decode sig = some (x • hm) := by
  unfold blsVerifyR
  cases h : cd.decode sig with
  | none => simp
  | some s =>
    by_cases hs : s = x • hm
    · simp [hs]
    · simp [hs]

theorem blsVerify_iff (x : F) (sig : Bytes) :
    blsVerify cd x hm sig = true ↔ cd.decode sig = some (x • hm) := by
  unfold blsVerify
  rw [decide_eq_true_iff, blsVerifyR_ok_iff]

theorem tblsVerifyR_ok_iff (sig : Bytes) :
    tblsVerifyR cd pub hm sig = .ok
      ↔ ∃ i, sigIndex sig = some i ∧ cd.decode (sigValue sig) = some (priEval pub (i : Int) • hm) := by
  unfold tblsVerifyR
  cases h : sigIndex sig with
  | none => simp
  | some i => simp [blsVerifyR_ok_iff]

/-! ### the collecting loop -/

/-- the member number for which entry `e` is a valid share (index in range, verifies) -/
def validIdx (e : Bytes) : Option Nat :=
  match sigIndex e with
  | none => none
  | some i =>
    if i < n ∧ blsVerify cd (priEval pub (i : Int)) hm (sigValue e) = true then some i else none

/-- the members that have a valid share somewhere in the list -/
def members (l : List Bytes) : Finset Nat := (l.filterMap (validIdx cd pub hm n)).toFinset

theorem members_nil : members cd pub hm n [] = ∅ := rfl

theorem members_cons (e : Bytes) (l : List Bytes) :
    members cd pub hm n (e :: l)
      = match validIdx cd pub hm n e with
        | some i => insert i (members cd pub hm n l)
        | none => members cd pub hm n l := by
  unfold members
  cases h : validIdx cd pub hm n e <;> simp [h]

theorem members_uniq (l : List Bytes) : members cd pub hm n (uniq l) = members cd pub hm n l := by
  ext i
  simp only [members, List.mem_toFinset, List.mem_filterMap, mem_uniq]

theorem members_uniqInPlace (l : List Bytes) :
    members cd pub hm n (uniqInPlace l) = members cd pub hm n l := by
  ext i
  simp only [members, List.mem_toFinset, List.mem_filterMap, mem_uniqInPlace]

/-- what the accumulator `pubShares` always looks like -/
structure AccOK (acc : List (PubShare G)) : Prop where
  val : ∀ s ∈ acc, ∃ i : Nat, i < n ∧ s = ⟨(i : Int), some (priEval pub (i : Int) • hm)⟩
  nodup : (acc.map (·.I)).Nodup

theorem sdiff_insert_card (M S : Finset Nat) (i : Nat) (hi : i ∉ S) :
    ((insert i M) \ S).card = 1 + (M \ (insert i S)).card := by
  have h : (insert i M) \ S = insert i (M \ (insert i S)) := by
    ext x
    simp only [Finset.mem_sdiff, Finset.mem_insert]
    constructor
    · rintro ⟨h1 | h1, h2⟩
      · exact Or.inl h1
      · by_cases hx : x = i
        · exact Or.inl hx
        · exact Or.inr ⟨h1, fun h => by rcases h with h | h; exact hx h; exact h2 h⟩
    · rintro (h1 | ⟨h1, h2⟩)
      · subst h1; exact ⟨Or.inl rfl, hi⟩
      · exact ⟨Or.inr h1, fun h => h2 (Or.inr h)⟩
  rw [h, Finset.card_insert_of_notMem (by simp), Nat.add_comm]

theorem sdiff_insert_seen (M S : Finset Nat) (i : Nat) (hi : i ∈ S) :
    (insert i M) \ S = M \ S := by
  ext x
  simp only [Finset.mem_sdiff, Finset.mem_insert]
  constructor
  · rintro ⟨h1 | h1, h2⟩
    · subst h1; exact absurd hi h2
    · exact ⟨h1, h2⟩
  · rintro ⟨h1, h2⟩; exact ⟨Or.inr h1, h2⟩

/-- **the loop of `tbls.Recover`**: it never fails, the collected shares are true shares of
distinct members in range, and their number is `min t (#members with a valid share not yet seen)` -/
theorem collect_spec : ∀ (rest : List Bytes) (seen : List Nat) (acc : List (PubShare G)),
    AccOK pub hm n acc → (∀ i : Nat, i ∈ seen ↔ (i : Int) ∈ acc.map (·.I)) → acc.length < t →
    ∃ acc', collect cd pub hm t n rest seen acc = some acc' ∧ AccOK pub hm n acc'
      ∧ acc'.length = min t (acc.length + (members cd pub hm n rest \ seen.toFinset).card) := by
  intro rest
  induction rest with
  | nil =>
    intro seen acc hok _ hlt
    refine ⟨acc, rfl, hok, ?_⟩
    simp [members_nil]; omega
  | cons sig rest ih =>
    intro seen acc hok hseen hlt
    unfold collect
    cases hidx : sigIndex sig with
    | none =>
      have hv : validIdx cd pub hm n sig = none := by simp [validIdx, hidx]
      simp only [members_cons, hv]
      exact ih seen acc hok hseen hlt
    | some i =>
      simp only
      by_cases hskip : i ∈ seen ∨ n ≤ i
      · simp only [hskip, if_true]
        have hm' : members cd pub hm n (sig :: rest) \ seen.toFinset
            = members cd pub hm n rest \ seen.toFinset := by
          rw [members_cons]
          cases hv : validIdx cd pub hm n sig with
          | none => rfl
          | some j =>
            have hj : j = i ∧ i < n := by
              simp only [validIdx, hidx] at hv
              split at hv
              · rename_i h; simp at hv; exact ⟨hv.symm, h.1⟩
              · simp at hv
            obtain ⟨rfl, hjn⟩ := hj
            have : j ∈ seen := by rcases hskip with h | h; exact h; omega
            exact sdiff_insert_seen _ _ _ (by simpa using this)
        rw [hm']
        exact ih seen acc hok hseen hlt
      · simp only [hskip, if_false]
        have hin : i ∉ seen ∧ i < n := by
          constructor
          · exact fun h => hskip (Or.inl h)
          · by_contra h; exact hskip (Or.inr (by omega))
        by_cases hver : blsVerify cd (priEval pub (i : Int)) hm (sigValue sig) = false
        · simp only [hver, if_true]
          have hv : validIdx cd pub hm n sig = none := by simp [validIdx, hidx, hver]
          simp only [members_cons, hv]
          exact ih seen acc hok hseen hlt
        · have hver' : blsVerify cd (priEval pub (i : Int)) hm (sigValue sig) = true := by
            simpa using hver
          have hdec := (blsVerify_iff cd hm _ _).1 hver'
          have hv : validIdx cd pub hm n sig = some i := by simp [validIdx, hidx, hver', hin.2]
          simp only [hver', Bool.true_eq_false, if_false, hdec]
          have hnew : (i : Int) ∉ acc.map (·.I) := fun h => hin.1 ((hseen i).2 h)
          have hok' : AccOK pub hm n (acc ++ [⟨(i : Int), some (priEval pub (i : Int) • hm)⟩]) := by
            constructor
            · intro s hs
              rcases List.mem_append.1 hs with h | h
              · exact hok.val s h
              · simp at h; exact ⟨i, hin.2, h⟩
            · rw [List.map_append, List.nodup_append]
              refine ⟨hok.nodup, by simp, ?_⟩
              intro a ha b hb
              simp at hb; subst hb
              intro hab; subst hab; exact hnew ha
          have hcard : (members cd pub hm n (sig :: rest) \ seen.toFinset).card
              = 1 + (members cd pub hm n rest \ (i :: seen).toFinset).card := by
            rw [members_cons, hv]
            simp only [List.toFinset_cons]
            exact sdiff_insert_card _ _ _ (by simpa using hin.1)
          by_cases hfull : (acc ++ [(⟨(i : Int), some (priEval pub (i : Int) • hm)⟩ : PubShare G)]).length ≥ t
          · simp only [hfull, if_true]
            refine ⟨_, rfl, hok', ?_⟩
            rw [hcard]
            simp only [List.length_append, List.length_cons, List.length_nil] at hfull ⊢
            omega
          · simp only [hfull, if_false]
            have hseen' : ∀ j : Nat, j ∈ i :: seen ↔
                (j : Int) ∈ (acc ++ [(⟨(i : Int), some (priEval pub (i : Int) • hm)⟩ : PubShare G)]).map (·.I) := by
              intro j
              simp only [List.mem_cons, List.map_append, List.mem_append, List.map_cons,
                List.map_nil, List.not_mem_nil, or_false]
              rw [← hseen j]
              constructor
              · rintro (h | h)
                · exact Or.inr (by exact_mod_cast h)
                · exact Or.inl h
              · rintro (h | h)
                · exact Or.inr h
                · exact Or.inl (by exact_mod_cast h)
            obtain ⟨acc', e1, e2, e3⟩ := ih (i :: seen) _ hok' hseen' (by omega)
            refine ⟨acc', e1, e2, ?_⟩
            rw [e3, hcard]
            simp only [List.length_append, List.length_cons, List.length_nil]
            omega

/-! ### from the collected shares to `RecoverCommit` -/

theorem usable_of_accOK (acc : List (PubShare G)) (hok : AccOK pub hm n acc) :
    (acc.map some).filterMap (usablePub n)
      = acc.map (fun s => (s.I, (priEval pub s.I • hm))) := by
  induction acc with
  | nil => rfl
  | cons s acc ih =>
    have hs := hok.val s (by simp)
    obtain ⟨i, hi, rfl⟩ := hs
    have hok' : AccOK pub hm n acc :=
      ⟨fun s hs => hok.val s (by simp [hs]), (List.nodup_cons.1 (by simpa using hok.nodup)).2⟩
    have hu : usablePub n (some (⟨(i : Int), some (priEval pub (i : Int) • hm)⟩ : PubShare G))
        = some ((i : Int), priEval pub (i : Int) • hm) := by
      simp [usablePub, hi]
    simp only [List.map_cons, List.filterMap_cons, hu, ih hok']

/-- the outcome of `Recover` in terms of the number of members with a valid share -/
theorem recover_cases (ht : 0 < t) (sigs : List Bytes) :
    ∃ acc, collect cd pub hm t n (uniq sigs) [] [] = some acc ∧ AccOK pub hm n acc
      ∧ acc.length = min t (members cd pub hm n sigs).card := by
  obtain ⟨acc, e1, e2, e3⟩ := collect_spec cd pub hm t n (uniq sigs) [] []
    ⟨by simp, by simp⟩ (by simp) (by simpa using ht)
  refine ⟨acc, e1, e2, ?_⟩
  rw [e3, members_uniq]; simp

/-- the guard of /repo 3cdfff8: a threshold below the number of coefficients is refused before
anything else happens -/
theorem recover_guard (sigs : List Bytes) (hlt : t < pub.length) :
    recover cd pub hm sigs t n = .errThreshold := by
  unfold recover; simp [hlt]

/-- **the complete outcome of `Recover`**, no hypothesis on the public polynomial -/
theorem recover_eq_full (ht : 0 < t) (hc : CharGt F n) (sigs : List Bytes) :
    recover cd pub hm sigs t n
      = if t < pub.length then .errThreshold
        else if t ≤ (members cd pub hm n sigs).card then .ok (cd.encode (pub.headD 0 • hm))
        else .errFew := by
  by_cases hlt : t < pub.length
  · rw [recover_guard cd pub hm t n sigs hlt, if_pos hlt]
  · have hf : pub.length ≤ t := Nat.le_of_not_lt hlt
    obtain ⟨acc, e1, hok, hlen⟩ := recover_cases cd pub hm t n ht sigs
    unfold recover
    rw [e1]
    simp only [hlt, if_false]
    have hu := usable_of_accOK pub hm n acc hok
    have hdist : (((acc.map some).filterMap (usablePub n)).map (·.1)).Nodup := by
      rw [hu, List.map_map]; exact hok.nodup
    have hval : ∀ iv ∈ (acc.map some).filterMap (usablePub n), iv.2 = priEval pub iv.1 • hm := by
      intro iv hiv
      rw [hu] at hiv
      obtain ⟨s, _, rfl⟩ := List.mem_map.1 hiv
      rfl
    have hl : (idxPub n (acc.map some)).card = acc.length := by
      rw [idxPub_card_of_nodup n _ hdist, hu]; simp
    by_cases hq : t ≤ (members cd pub hm n sigs).card
    · simp only [hq, if_true]
      rw [recoverCommit_ok true pub hm t n hf hc _ hval (by rw [hl, hlen]; omega)]
    · simp only [hq, if_false]
      rw [recoverCommit_few true t n _ (by rw [hl, hlen]; omega)]

theorem recover_eq (ht : 0 < t) (hf : pub.length ≤ t) (hc : CharGt F n) (sigs : List Bytes) :
    recover cd pub hm sigs t n
      = if t ≤ (members cd pub hm n sigs).card then .ok (cd.encode (pub.headD 0 • hm)) else .errFew := by
  rw [recover_eq_full cd pub hm t n ht hc sigs, if_neg (Nat.not_lt.2 hf)]

/-- never a panic, for ANY public polynomial and any entries -/
theorem recover_total (ht : 0 < t) (hc : CharGt F n) (sigs : List Bytes) :
    recover cd pub hm sigs t n = .errFew ∨ recover cd pub hm sigs t n = .errThreshold
      ∨ ∃ s, recover cd pub hm sigs t n = .ok s := by
  rw [recover_eq_full cd pub hm t n ht hc sigs]
  split_ifs
  · exact Or.inr (Or.inl rfl)
  · exact Or.inr (Or.inr ⟨_, rfl⟩)
  · exact Or.inl rfl

/-- fewer than `t` members with a valid share: an error, for ANY public polynomial -/
theorem recover_few (ht : 0 < t) (sigs : List Bytes)
    (hfew : (members cd pub hm n sigs).card < t) :
    recover cd pub hm sigs t n = if t < pub.length then .errThreshold else .errFew := by
  by_cases hlt : t < pub.length
  · rw [recover_guard cd pub hm t n sigs hlt, if_pos hlt]
  · obtain ⟨acc, e1, hok, hlen⟩ := recover_cases cd pub hm t n ht sigs
    unfold recover
    rw [e1]
    simp only [hlt, if_false]
    have hu := usable_of_accOK pub hm n acc hok
    have hdist : (((acc.map some).filterMap (usablePub n)).map (·.1)).Nodup := by
      rw [hu, List.map_map]; exact hok.nodup
    have hl : (idxPub n (acc.map some)).card = acc.length := by
      rw [idxPub_card_of_nodup n _ hdist, hu]; simp
    rw [recoverCommit_few (F := F) true t n _ (by rw [hl, hlen]; omega)]

theorem validIdx_eq_some_iff (e : Bytes) (i : Nat) :
    validIdx cd pub hm n e = some i
      ↔ sigIndex e = some i ∧ i < n ∧ cd.decode (sigValue e) = some (priEval pub (i : Int) • hm) := by
  unfold validIdx
  cases hidx : sigIndex e with
  | none => simp
  | some j =>
    simp only [Option.some.injEq]
    constructor
    · intro h
      split at h
      · rename_i hc
        simp only [Option.some.injEq] at h; subst h
        exact ⟨rfl, hc.1, (blsVerify_iff cd hm _ _).1 hc.2⟩
      · simp at h
    · rintro ⟨rfl, hlt, hd⟩
      simp [hlt, (blsVerify_iff cd hm _ _).2 hd]

end Dos.Tbls

/-
C20 (round 4) — soundness of the interval analysis of a field routine (`FeProg.absRun`, Model/FeProg.lean),
proved once for every routine, on top of Proofs/IntervalProg.lean:

  `n32v_eq`         : `(x << 32) >> 32 = x` in unbounded `Int`
  `n32_wrap`        : in Go's wrapping int64 semantics `(x << 32) >> 32` is the int32 wrap-around of `x`
  `strip32_eval`    : removing the `n32` wrappers does not change the unbounded value
  `absProg32_sound` : as `absProg_sound`, for the carry rule that looks through `n32`
  `absRun_sound`    : inputs in their intervals and `absRun p I = some (L, O)` ⇒ `p.SafeFrom inp` (no int32/int64
                      overflow in any (sub)expression), limbs in `L`, stored values in `O`
  `runW_wrap_eq`    : `SafeFrom` ⇒ the run with wrapping int64 arithmetic is the unbounded run
-/
import DosModel.Proofs.IntervalProg
import DosModel.Model.FeProg

set_option exponentiation.threshold 600

namespace Dos.FeProg
open Dos Dos.Ed25519 Dos.IntervalProg List

/-! ### int32 narrowing -/

theorem n32v_eq (x : Int) : n32v x = x := by
  unfold n32v shl shrI
  rw [Int.shiftRight_eq_div_pow]
  exact Int.mul_ediv_cancel x (by decide)

theorem n32_wrap (x : Int) (_h : I64 x) : shrI (wrap (shl x 32)) 32 = wrap32 x := by
  unfold shl shrI wrap wrap32
  rw [Int.shiftRight_eq_div_pow]
  omega

theorem wrap32_of_I32 {x : Int} (h : I32 x) : wrap32 x = x := by
  unfold wrap32; unfold I32 at h; omega

/-- `n32 e` is safe exactly when `e` is and its value is an int32 -/
theorem n32_safe (ρ : Env) (e : Expr) : (n32 e).Safe ρ ↔ e.Safe ρ ∧ I32 (e.eval ρ) := by
  show ((e.Safe ρ ∧ I64 (Ed25519.shl (e.eval ρ) 32)) ∧ I64 (shrI (id (Ed25519.shl (e.eval ρ) 32)) 32)) ↔ _
  have h2 : shrI (id (Ed25519.shl (e.eval ρ) 32)) 32 = e.eval ρ := n32v_eq _
  rw [h2]
  unfold I64 I32 minI64 maxI64 Ed25519.shl
  constructor
  · rintro ⟨⟨h1, h3⟩, _⟩; exact ⟨h1, by omega⟩
  · rintro ⟨h1, h3⟩; exact ⟨⟨h1, by omega⟩, by omega⟩

theorem unwrap32_eval (ρ : Env) (a : Expr) (k : Nat) : (unwrap32 a k).eval ρ = (Expr.shr a k).eval ρ := by
  unfold unwrap32
  split
  · rename_i e j
    split
    · rename_i hc
      obtain ⟨rfl, rfl⟩ := hc
      exact (n32v_eq (e.eval ρ)).symm
    · rfl
  · rfl

theorem strip32_eval (ρ : Env) : ∀ e : Expr, (strip32 e).eval ρ = e.eval ρ := by
  intro e
  induction e with
  | v i => rfl
  | c n => rfl
  | add a b iha ihb => show id ((strip32 a).eval ρ + (strip32 b).eval ρ) = id (a.eval ρ + b.eval ρ); rw [iha, ihb]
  | sub a b iha ihb => show id ((strip32 a).eval ρ - (strip32 b).eval ρ) = id (a.eval ρ - b.eval ρ); rw [iha, ihb]
  | mul a b iha ihb => show id ((strip32 a).eval ρ * (strip32 b).eval ρ) = id (a.eval ρ * b.eval ρ); rw [iha, ihb]
  | shr a k iha =>
    show (unwrap32 (strip32 a) k).eval ρ = shrI (a.eval ρ) k
    rw [unwrap32_eval]
    show shrI ((strip32 a).eval ρ) k = _
    rw [iha]
  | shl a k iha => show id (Ed25519.shl ((strip32 a).eval ρ) k) = id (Ed25519.shl (a.eval ρ) k); rw [iha]
  | band a b iha ihb =>
    show id (Ed25519.band ((strip32 a).eval ρ) ((strip32 b).eval ρ)) = id (Ed25519.band (a.eval ρ) (b.eval ρ)); rw [iha, ihb]
  | bor a b iha ihb =>
    show id (Ed25519.bor ((strip32 a).eval ρ) ((strip32 b).eval ρ)) = id (Ed25519.bor (a.eval ρ) (b.eval ρ)); rw [iha, ihb]

/-! ### the abstract interpreter with the `n32`-transparent carry rule -/

theorem absStmt32_sound {ρ : Env} {σ σ' : AState} (h : Sound ρ σ) (s : Stmt) (hs : absStmt32 σ s = some σ') :
    s.rhs.Safe ρ ∧ Sound (ρ.set s.dst (s.rhs.eval ρ)) σ' := by
  unfold absStmt32 at hs
  split at hs
  · rename_i hlt
    split at hs
    · rename_i i hi
      cases Option.some.inj hs
      obtain ⟨hsafe, hm, _, _⟩ := absExpr_sound h.1 s.rhs i hi
      have hlen : s.dst < ρ.length := by rw [forall₂_length h.1]; exact hlt
      have e := strip32_eval ρ s.rhs
      have hm' : Itv.mem ((strip32 s.rhs).eval ρ) i := by rw [e]; exact hm
      have r := refine_sound h.2 (strip32 s.rhs) i hm'
      rw [e] at r
      have sf := stepFact_sound h.2 ⟨s.dst, strip32 s.rhs⟩ hlen
      simp only [e] at sf
      exact ⟨hsafe, forall₂_set h.1 r s.dst, sf⟩
    · cases hs
  · cases hs

theorem absProg32_sound : ∀ (p : Prog) {ρ : Env} {σ σ' : AState}, Sound ρ σ → absProg32 σ p = some σ' →
    SafeProg ρ p ∧ Sound (evalProg ρ p) σ' := by
  intro p
  induction p with
  | nil =>
    intro ρ σ σ' h hp
    cases Option.some.inj hp
    exact ⟨trivial, h⟩
  | cons s p ih =>
    intro ρ σ σ' h hp
    simp only [absProg32] at hp
    cases hs : absStmt32 σ s with
    | none => simp [hs] at hp
    | some σ₁ =>
      simp only [hs] at hp
      obtain ⟨h1, h2⟩ := absStmt32_sound h s hs
      obtain ⟨h3, h4⟩ := ih h2 hp
      exact ⟨⟨h1, h3⟩, h4⟩

theorem slice_slice (n : Nat) (ρ : Env) : slice 0 n (slice 0 n ρ) = slice 0 n ρ := by
  unfold slice
  apply List.map_congr_left
  intro i hi
  have hi' : i < n := List.mem_range.1 hi
  simp [List.getD, List.getElem?_map, List.getElem?_range hi']

set_option linter.dupNamespace false

namespace FeProg

theorem absInit_sound {p : FeProg} {inp : Env} {I A : List Itv} (h : In inp I) (hi : absInit p I = some A) :
    SafeProg (enter p.nIn p.nLoc inp) p.init ∧ In (initW id p inp) A := by
  unfold absInit at hi
  split at hi
  · rename_i σ hσ
    cases Option.some.inj hi
    obtain ⟨h1, h2⟩ := absProg32_sound p.init (sound_init (h.enter p.nIn p.nLoc)) hσ
    exact ⟨h1, forall₂_map_same _ _ (fun j => h2.1.getD j) _⟩
  · cases hi

theorem absBlock_sound {nC : Nat} {b : Prog} {ρ : Env} {A A' : List Itv} (h : In ρ A)
    (hb : absBlock nC b A = some A') : SafeProg (enter 10 nC ρ) b ∧ In (blockW id nC b ρ) A' := by
  unfold absBlock at hb
  split at hb
  · rename_i σ hσ
    cases Option.some.inj hb
    obtain ⟨h1, h2⟩ := absProg32_sound b (sound_init (h.enter 10 nC)) hσ
    exact ⟨h1, h2.1⟩
  · cases hb

theorem absBlocks_sound {nC : Nat} : ∀ (bs : List Prog) {ρ : Env} {A A' : List Itv}, In ρ A →
    absBlocks nC bs A = some A' → SafeBlocks nC bs ρ ∧ In (blocksW id nC bs ρ) A' := by
  intro bs
  induction bs with
  | nil =>
    intro ρ A A' h hb
    cases Option.some.inj hb
    exact ⟨trivial, h⟩
  | cons b bs ih =>
    intro ρ A A' h hb
    simp only [absBlocks] at hb
    cases h1 : absBlock nC b A with
    | none => simp [h1] at hb
    | some A₁ =>
      simp only [h1] at hb
      obtain ⟨s1, i1⟩ := absBlock_sound h h1
      obtain ⟨s2, i2⟩ := ih i1 hb
      exact ⟨⟨s1, s2⟩, i2⟩

theorem absOuts_sound {ρ : Env} {A : List Itv} (h : In ρ A) : ∀ (es : List Expr) (O : List Itv),
    absOuts A es = some O → (∀ e ∈ es, e.Safe ρ) ∧ In (es.map (fun e => e.eval ρ)) O := by
  intro es
  induction es with
  | nil =>
    intro O hO
    cases Option.some.inj hO
    exact ⟨(fun _ he => nomatch he), Forall₂.nil⟩
  | cons e es ih =>
    intro O hO
    simp only [absOuts] at hO
    cases h1 : absExpr A e with
    | none => simp [h1] at hO
    | some i =>
      cases h2 : absOuts A es with
      | none => simp [h1, h2] at hO
      | some is =>
        simp only [h1, h2] at hO
        cases Option.some.inj hO
        obtain ⟨s1, m1, _, _⟩ := absExpr_sound h e i h1
        obtain ⟨s2, m2⟩ := ih is h2
        refine ⟨?_, Forall₂.cons m1 m2⟩
        intro e' he'
        rcases List.mem_cons.1 he' with rfl | he'
        · exact s1
        · exact s2 e' he'

/-- **soundness of the analysis of a field routine** -/
theorem absRun_sound {p : FeProg} {inp : Env} {I L O : List Itv} (h : In inp I) (hr : absRun p I = some (L, O)) :
    p.SafeFrom inp ∧ In (limbsW id p inp) L ∧ In (runW id p inp) O := by
  unfold absRun at hr
  split at hr
  · cases hr
  · rename_i A hA
    split at hr
    · cases hr
    · rename_i B hB
      split at hr
      · cases hr
      · rename_i O' hO
        cases Option.some.inj hr
        obtain ⟨s1, i1⟩ := absInit_sound h hA
        obtain ⟨s2, i2⟩ := absBlocks_sound p.blocks i1 hB
        have i3 : In (limbsW id p inp) (aslice 0 10 B) := i2.slice 0 10
        have hs : slice 0 10 (limbsW id p inp) = limbsW id p inp := slice_slice _ _
        obtain ⟨s3, i4⟩ := absOuts_sound (ρ := slice 0 10 (limbsW id p inp)) (by rw [hs]; exact i3) p.out O hO
        exact ⟨⟨s1, s2, s3⟩, i3, i4⟩

/-! ### wrapping semantics -/

theorem blocksW_wrap_eq {nC : Nat} : ∀ (bs : List Prog) (ρ : Env), SafeBlocks nC bs ρ →
    blocksW wrap nC bs ρ = blocksW id nC bs ρ := by
  intro bs
  induction bs with
  | nil => intro ρ _; rfl
  | cons b bs ih =>
    intro ρ h
    obtain ⟨h1, h2⟩ := h
    show blocksW wrap nC bs (blockW wrap nC b ρ) = blocksW id nC bs (blockW id nC b ρ)
    have e : blockW wrap nC b ρ = blockW id nC b ρ := evalProg64_eq b _ h1
    rw [e]
    exact ih _ h2

/-- **no overflow ⇒ Go's wrapping run is the unbounded-`Int` run** -/
theorem runW_wrap_eq {p : FeProg} {inp : Env} (h : p.SafeFrom inp) :
    p.limbsW wrap inp = p.limbsW id inp ∧ p.runW wrap inp = p.runW id inp := by
  obtain ⟨h1, h2, h3⟩ := h
  have e1 : initW wrap p inp = initW id p inp := by
    unfold initW
    rw [evalProg64_eq p.init _ h1]
  have e2 : p.limbsW wrap inp = p.limbsW id inp := by
    unfold limbsW
    rw [e1, blocksW_wrap_eq _ _ h2]
  refine ⟨e2, ?_⟩
  unfold runW outW
  rw [e2]
  apply List.map_congr_left
  intro e he
  exact Expr.eval64_eq _ e (h3 e he)

end FeProg

end Dos.FeProg

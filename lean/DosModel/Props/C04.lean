/-
C04 — honest key generation agrees on one key under every delivery schedule.

Theorems about the executable models `Model/VssSym.lean`, `Model/Dkg.lean`,
`Model/DkgSession.lean` for every field `F`, `F`-module `G` (`g ≠ 0`), every group size, all
long-term keys (pairwise distinct public keys), all dealer polynomials and ephemeral secrets.
`HonestReach c i d` (Proofs/DkgHonest.lean): `d` is ANY state member `i`'s `DistKeyGenerator` can
be in after `Deals()` and an arbitrary sequence of `ProcessDeal` calls on genuine deals (any
dealer, any addressee, re-delivered any number of times, in any order) interleaved with
`ProcessResponse` calls on arbitrary responses – every schedule of the protocol (order, delay,
start skew, re-delivery) only ever produces such sequences, because the session layer and the
stages (Model/DkgSession.lean) do nothing else with a generator.
Helper lemmas: Proofs/Dkg*.lean; reconstruction uses C09 (`Proofs/Share.lean`).
-/
import DosModel.Gen.VssFacts
import DosModel.Proofs.DkgHonest
import DosModel.Proofs.DkgLiveGlobal
import DosModel.Proofs.DkgTick
import Mathlib.Algebra.Order.Field.Rat

set_option linter.unusedSectionVars false

namespace Dos.Props.C04
open Dos Dos.Vss Dos.Dkg

variable {F G : Type} [Field F] [AddCommGroup G] [Module F G] [DecidableEq F] [DecidableEq G]

/-- regenerated fact (`go/extract/vssfacts` → `Gen/VssFacts.lean`, on every check run): the ordered statement
skeletons of the session layer as `Model/DkgSession.lean` transcribes it – `handlePeerMsg` (one duplicate filter per
message type, each asserting ITS type on the buffered entries and comparing the keys `dupPk` / `dupDeal` /
`dupResp` compare; hand-over when the count reaches `numOfResps` exactly), the dispatch of `Loop` (one
`handlePeerMsg` per entry of a `Responses` message, each kind into its own buffer), the reply channel of capacity 1
of `askMembers`, and the stages the member machine runs (`getAndProcessDeals`, `getAndProcessResponses`,
`DistKeyShare`). A change to any of them must be re-modelled. -/
theorem c04_code_shape :
    Gen.VssFacts.handlePeerMsg = [
      "0| func handlePeerMsg(sessionMap map[string][]interface{}, sessionReq map[string]request, p p2p.P2PInterface, sessionID string, content interface{})",
      "1| switch pubkeyFromPeer := content.(type)",
      "2| case *PublicKey:",
      "3| pubkeys := sessionMap[sessionID]",
      "3| for _, p := range pubkeys",
      "4| pubkey, ok := p.(*PublicKey)",
      "4| if ok",
      "5| if pubkey.Index == pubkeyFromPeer.Index",
      "6| return",
      "2| default:",
      "1| switch dealFromPeer := content.(type)",
      "2| case *Deal:",
      "3| deals := sessionMap[sessionID]",
      "3| for _, dd := range deals",
      "4| d, ok := dd.(*Deal)",
      "4| if ok",
      "5| if d.Index == dealFromPeer.Index",
      "6| return",
      "2| default:",
      "1| switch respFromPeer := content.(type)",
      "2| case *Response:",
      "3| if respFromPeer.Response != nil",
      "4| for _, rr := range sessionMap[sessionID]",
      "5| r, ok := rr.(*Response)",
      "5| if ok && r.Response != nil",
      "6| if r.Index == respFromPeer.Index && r.Response.Index == respFromPeer.Response.Index",
      "7| return",
      "2| default:",
      "1| sessionMap[sessionID] = append(sessionMap[sessionID], content)",
      "1| if len(sessionMap[sessionID]) == sessionReq[sessionID].numOfResps",
      "2| select",
      "3| case <-sessionReq[sessionID].ctx.Done():",
      "3| case sessionReq[sessionID].reply <- sessionMap[sessionID]:",
      "2| close(sessionReq[sessionID].reply)",
      "2| delete(sessionMap, sessionID)",
      "2| delete(sessionReq, sessionID)"] ∧
    Gen.VssFacts.loopWhole = [
      "0| func Loop()",
      "1| defer d.logger.Info(\"End Loop\")",
      "1| peersToBuf, _ := d.p.SubscribeMsg(400, PublicKey{}, Deal{}, Responses{})",
      "1| sessionPubKeys := make(map[string][]interface{})",
      "1| sessionDeals := make(map[string][]interface{})",
      "1| sessionResps := make(map[string][]interface{})",
      "1| sessionReqPubs := map[string]request{}",
      "1| sessionReqDeals := map[string]request{}",
      "1| sessionReResps := map[string]request{}",
      "1| expire := func(sessionMap map[string][]interface{}, sessionReq map[string]request) {…}",
      "2| func(sessionMap map[string][]interface{}, sessionReq map[string]request)",
      "3| for _, req := range sessionReq",
      "4| select",
      "5| case <-req.ctx.Done():",
      "6| close(req.reply)",
      "6| delete(sessionMap, req.sessionID)",
      "6| delete(sessionReq, req.sessionID)",
      "5| default:",
      "1| watchdog := time.NewTicker(time.Minute)",
      "1| defer watchdog.Stop()",
      "1| for",
      "2| select",
      "3| case <-watchdog.C:",
      "4| expire(sessionPubKeys, sessionReqPubs)",
      "4| expire(sessionDeals, sessionReqDeals)",
      "4| expire(sessionResps, sessionReResps)",
      "3| case msg, ok := <-peersToBuf:",
      "4| if !ok",
      "5| return",
      "4| switch content := msg.Msg.Message.(type)",
      "5| case *PublicKey:",
      "6| err := d.p.Reply(context.Background(), msg.Sender, msg.RequestNonce, content)",
      "6| if err != nil",
      "6| stampSender(content, msg.Sender)",
      "6| handlePeerMsg(sessionPubKeys, sessionReqPubs, d.p, content.SessionId, content)",
      "5| case *Deal:",
      "6| err := d.p.Reply(context.Background(), msg.Sender, msg.RequestNonce, content)",
      "6| if err != nil",
      "6| handlePeerMsg(sessionDeals, sessionReqDeals, d.p, content.SessionId, content)",
      "5| case *Responses:",
      "6| err := d.p.Reply(context.Background(), msg.Sender, msg.RequestNonce, content)",
      "6| if err != nil",
      "6| resps := content.Response",
      "6| for _, resp := range resps",
      "7| handlePeerMsg(sessionResps, sessionReResps, d.p, content.SessionId, resp)",
      "3| case req, ok := <-d.bufToNode:",
      "4| if !ok",
      "5| return",
      "4| if r, ok := req.(request); ok",
      "5| switch r.reqType",
      "6| case 0:",
      "7| handleRequest(sessionPubKeys, sessionReqPubs, r)",
      "6| case 1:",
      "7| handleRequest(sessionDeals, sessionReqDeals, r)",
      "6| case 2:",
      "7| handleRequest(sessionResps, sessionReResps, r)",
      "4| else"] ∧
    Gen.VssFacts.handleRequest = [
      "0| func handleRequest(sessionMap map[string][]interface{}, sessionReq map[string]request, req request)",
      "1| sessionReq[req.sessionID] = req",
      "1| if len(sessionMap[req.sessionID]) == req.numOfResps",
      "2| select",
      "3| case <-sessionReq[req.sessionID].ctx.Done():",
      "3| case sessionReq[req.sessionID].reply <- sessionMap[req.sessionID]:",
      "2| close(req.reply)",
      "2| delete(sessionMap, req.sessionID)",
      "2| delete(sessionReq, req.sessionID)"] ∧
    Gen.VssFacts.newPDKG = [
      "0| func NewPDKG(p p2p.P2PInterface, suite suites.Suite) PDKGInterface",
      "1| d := &pdkg{ p: p, bufToNode: make(chan interface{}, 50), register: make(chan *group), suite: suite, logger: log.New(\"module\", \"dkg\"), }",
      "1| return d"] ∧
    Gen.VssFacts.askMembers = [
      "0| func askMembers(ctx context.Context, logger log.Logger, bufToNode chan interface{}, numOfResp, reqTpe int, sessionID string) (out chan []interface{})",
      "1| out = make(chan []interface{}, 1)",
      "1| go func() {…}()",
      "2| func()",
      "3| req := request{ctx: ctx, reqType: reqTpe, sessionID: sessionID, numOfResps: numOfResp, reply: out}",
      "3| select",
      "4| case <-ctx.Done():",
      "5| close(out)",
      "4| case bufToNode <- req:",
      "1| return"] ∧
    Gen.VssFacts.getAndProcessDeals = [
      "0| func getAndProcessDeals(ctx context.Context, logger log.Logger, dkgc chan *DistKeyGenerator, dealsc chan []interface{}, sessionID string) (dkgOut chan *DistKeyGenerator, out chan interface{}, errc chan error)",
      "1| dkgOut = make(chan *DistKeyGenerator)",
      "1| out = make(chan interface{})",
      "1| errc = make(chan error)",
      "1| go func() {…}()",
      "2| func()",
      "3| var dkg *DistKeyGenerator",
      "3| var ok bool",
      "3| defer close(dkgOut)",
      "3| defer close(out)",
      "3| defer close(errc)",
      "3| select",
      "4| case <-ctx.Done():",
      "4| case dkg, ok = <-dkgc:",
      "5| if !ok",
      "6| return",
      "3| if dkg == nil",
      "4| return",
      "3| select",
      "4| case <-ctx.Done():",
      "4| case deals, ok := <-dealsc:",
      "5| if ok",
      "6| var resps []*Response",
      "6| for _, d := range deals",
      "7| deal, ok := d.(*Deal)",
      "7| if !ok",
      "8| err := &DKGError{err: errors.Errorf(\"Casting Deal failed for GID %s : %w\", sessionID, ErrCasting)}",
      "8| reportErr(ctx, errc, err)",
      "8| return",
      "7| resp, err := dkg.ProcessDeal(deal)",
      "7| if err != nil",
      "8| err = &DKGError{err: errors.Errorf(\"ProcessDeal failed for GID %s : %w\", sessionID, err)}",
      "8| reportErr(ctx, errc, err)",
      "8| continue",
      "7| resp.SessionId = sessionID",
      "7| if vss.StatusApproval != resp.Response.Status",
      "8| err = &DKGError{err: errors.Errorf(\"ProcessDeal failed for GID %s : %w\", sessionID, ErrResponseNoApproval)}",
      "8| reportErr(ctx, errc, err)",
      "8| return",
      "7| resps = append(resps, resp)",
      "6| select",
      "7| case <-ctx.Done():",
      "8| return",
      "7| case out <- &Responses{SessionId: sessionID, Response: resps}:",
      "6| select",
      "7| case <-ctx.Done():",
      "7| case dkgOut <- dkg:",
      "1| return"] ∧
    Gen.VssFacts.getAndProcessResponses = [
      "0| func getAndProcessResponses(ctx context.Context, logger log.Logger, dkgc chan *DistKeyGenerator, respsc chan []interface{}, sessionID string) (out chan *DistKeyGenerator, errc chan error)",
      "1| out = make(chan *DistKeyGenerator)",
      "1| errc = make(chan error)",
      "1| go func() {…}()",
      "2| func()",
      "3| defer close(out)",
      "3| defer close(errc)",
      "3| var dkg *DistKeyGenerator",
      "3| var ok bool",
      "3| select",
      "4| case <-ctx.Done():",
      "4| case dkg, ok = <-dkgc:",
      "5| if !ok",
      "6| return",
      "3| if dkg == nil",
      "4| return",
      "3| select",
      "4| case <-ctx.Done():",
      "4| case resps, ok := <-respsc:",
      "5| if ok",
      "6| for _, r := range resps",
      "7| resp, ok := r.(*Response)",
      "7| if !ok",
      "8| err := &DKGError{err: errors.Errorf(\"getAndProcessResponses failed for GID %s : %w\", sessionID, ErrCasting)}",
      "8| reportErr(ctx, errc, err)",
      "8| return",
      "7| if _, err := dkg.ProcessResponse(resp); err != nil",
      "8| err := &DKGError{err: errors.Errorf(\"ProcessResponse failed for GID %s : %w\", sessionID, err)}",
      "8| reportErr(ctx, errc, err)",
      "8| return",
      "6| select",
      "7| case <-ctx.Done():",
      "7| case out <- dkg:",
      "1| return"] ∧
    Gen.VssFacts.distKeyShare = [
      "0| func DistKeyShare() (*DistKeyShare, error)",
      "1| if !d.Certified()",
      "2| return nil, errors.New(\"dkg: distributed key not certified\")",
      "1| sh := d.suite.Scalar().Zero()",
      "1| var pub *share.PubPoly",
      "1| var err error",
      "1| d.qualIter(func(i uint32, v *vss.Verifier) bool {…})",
      "2| func(i uint32, v *vss.Verifier) bool",
      "3| deal := v.Deal()",
      "3| s := deal.SecShare.V",
      "3| sh = sh.Add(sh, s)",
      "3| poly := share.NewPubPoly(d.suite, d.suite.Point().Base(), deal.Commitments)",
      "3| if pub == nil",
      "4| pub = poly",
      "4| return true",
      "3| pub, err = pub.Add(poly)",
      "3| return err == nil",
      "1| if err != nil",
      "2| return nil, err",
      "1| _, commits := pub.Info()",
      "1| return &DistKeyShare{ Commits: commits, Share: &share.PriShare{ I: int(d.index), V: sh, }, PrivatePoly: d.dealer.PrivatePoly().Coefficients(), }, nil"] ∧
    Gen.VssFacts.dkgCertified = [
      "0| func Certified() bool",
      "1| return len(d.QUAL()) >= len(d.participants)"] ∧
    Gen.VssFacts.dkgQualIter = [
      "0| func qualIter(fn func(idx uint32, v *vss.Verifier) bool)",
      "1| for i, v := range d.verifiers",
      "2| if v.DealCertified()",
      "3| if !fn(i, v)",
      "4| break"] ∧
    Gen.VssFacts.verifierDealCertified = [
      "0| func DealCertified() bool",
      "1| return v.approved && v.aggregator.DealCertified()"] :=
  ⟨rfl, rfl, rfl, rfl, rfl, rfl, rfl, rfl, rfl, rfl, rfl⟩


/-- **4. `schedule_independent`.**  Whatever the schedule did to member `i`, if it finishes its
output is the same function of the dealers' polynomials alone: the public polynomial is the
coefficient-wise sum of all dealers' commitment vectors and the private share is the sum of all
dealers' polynomials at `i+1`. -/
theorem schedule_independent (c : Cfg F G) (hg : c.g ≠ 0) (hnd : c.pubs.Nodup) (hpl : c.polys.length = c.n)
    (i : Nat) (d : Gen F G) (ks : KeyShare F G) (hr : HonestReach c i d) (h : distKeyShare d = .ok ks) :
    ks.commits = vecSum (c.polys.map (commit c.g)) ∧
    ks.shareV = (c.polys.map (fun f => priEval f (i : Int))).sum ∧ ks.shareI = i := by
  obtain ⟨hgood, hsg, hp, hi⟩ := honestReach_inv c i hg hnd d hr
  have := finished_genuine c d ks hgood.len (by rw [hp]; simp [Cfg.pubs, Cfg.n]) hpl hsg h
  rw [hi] at this; exact this

/-- **1. `agree`.**  Any two members that finish – under any two schedules – output the same public
polynomial, hence the same group public key (its constant coefficient). -/
theorem agree (c : Cfg F G) (hg : c.g ≠ 0) (hnd : c.pubs.Nodup) (hpl : c.polys.length = c.n)
    (i i' : Nat) (d d' : Gen F G) (ks ks' : KeyShare F G) (hr : HonestReach c i d) (hr' : HonestReach c i' d')
    (h : distKeyShare d = .ok ks) (h' : distKeyShare d' = .ok ks') :
    ks.commits = ks'.commits ∧ ks.commits.headD 0 = ks'.commits.headD 0 := by
  have h1 := (schedule_independent c hg hnd hpl i d ks hr h).1
  have h2 := (schedule_independent c hg hnd hpl i' d' ks' hr' h').1
  rw [h1, h2]; exact ⟨rfl, rfl⟩

/-- **2. `share_on_poly`.**  With all dealer polynomials of one length (the threshold), a finisher's
share is the summed polynomial at its own index, the public polynomial is the commitment of the
summed polynomial, and the share verifies against it (`PubPoly.Check`). -/
theorem share_on_poly (c : Cfg F G) (hg : c.g ≠ 0) (hnd : c.pubs.Nodup) (hpl : c.polys.length = c.n)
    (t : Nat) (ht : ∀ f ∈ c.polys, f.length = t)
    (i : Nat) (d : Gen F G) (ks : KeyShare F G) (hr : HonestReach c i d) (h : distKeyShare d = .ok ks) :
    ks.shareV = priEval (vecSum c.polys) (i : Int) ∧ ks.commits = commit c.g (vecSum c.polys) ∧
    ks.shareV • c.g = pubEval (S := F) ks.commits (i : Int) := by
  obtain ⟨h1, h2, _⟩ := schedule_independent c hg hnd hpl i d ks hr h
  have e1 : ks.shareV = priEval (vecSum c.polys) (i : Int) := by rw [h2, priEval_vecSum t c.polys ht]
  have e2 : ks.commits = commit c.g (vecSum c.polys) := by rw [h1, vecSum_commit]
  exact ⟨e1, e2, by rw [e1, e2, pubEval_commit]⟩

/-- **3. `reconstruct`.**  Take ANY slice of private shares in which every usable entry is the
output share of a finished member with that index (`hval`), at least `t` are usable and the first
`t` usable ones belong to distinct members: `share.RecoverSecret` (model of poly.go, C09) returns
the sum of the dealers' secrets, and the commitment of that sum is the group public key. -/
theorem reconstruct (c : Cfg F G) (hg : c.g ≠ 0) (hnd : c.pubs.Nodup) (hpl : c.polys.length = c.n)
    (t : Nat) (ht0 : 0 < t) (ht : ∀ f ∈ c.polys, f.length = t) (hn0 : c.polys ≠ [])
    (hc : Share.CharGt F c.n) (dp : Bool)
    (shares : List (Option (Share.PriShare F)))
    (hval : ∀ iv ∈ shares.filterMap (Share.usablePri c.n), ∃ (k : Nat) (d : Gen F G) (ks : KeyShare F G),
      (k : Int) = iv.1 ∧ HonestReach c k d ∧ distKeyShare d = .ok ks ∧ ks.shareV = iv.2)
    (hcnt : t ≤ (shares.filterMap (Share.usablePri c.n)).length)
    (hdist : (((shares.filterMap (Share.usablePri c.n)).take t).map (·.1)).Nodup)
    (i : Nat) (d : Gen F G) (ks : KeyShare F G) (hr : HonestReach c i d) (h : distKeyShare d = .ok ks) :
    Share.recoverSecret dp shares t c.n = .ok ((c.polys.map (fun f => f.headD 0)).sum) ∧
    (c.polys.map (fun f => f.headD 0)).sum • c.g = ks.commits.headD 0 := by
  have hlen : (vecSum c.polys).length = t := length_vecSum t c.polys hn0 ht
  have hrec := recoverSecret_of_shares dp (vecSum c.polys) t c.n ht0 (by rw [hlen]) hc shares
    (by
      intro iv hiv
      obtain ⟨k, dk, ksk, hk, hrk, hfk, hvk⟩ := hval iv hiv
      have := (share_on_poly c hg hnd hpl t ht k dk ksk hrk hfk).1
      rw [← hvk, this, ← hk]; rfl)
    hcnt hdist
  rw [headD_vecSum t c.polys ht] at hrec
  refine ⟨hrec, ?_⟩
  rw [(share_on_poly c hg hnd hpl t ht i d ks hr h).2.1, headD_commit, headD_vecSum t c.polys ht]

/-- **5. `complete_delivery_finishes`.**  `runEvents c ephs evs` (Model/DkgNet.lean) runs the `n` member
machines of the group – session layer of `pdkg.Loop` + the stages of `Grouping` – under the schedule
`evs`: any list of `start i`, `pk j i`, `deal j i`, `resps k i` events (a delivery of a message that
does not exist yet does nothing; everything else – every order, start skew, re-delivery – is a
schedule).  For every well-formed honest configuration (`n ≥ 3`, pairwise distinct public keys,
polynomials of length `n/2+1`, non-zero ephemerals) and EVERY schedule in which every member is
started and every message that is sent is delivered to every other member at least once, every
member ends in stage `done`.  (On the pinned tree this is false: F11 and the blocking reply channel,
fixed by 41ce4e1 and 0865f79 – corpus/C04.)  Proof: Proofs/DkgLive*.lean – the session layer hands
each batch over exactly once with one message per key (`pair_step_inv`), every stage succeeds on a
batch of genuine messages (`adv_pk`, `adv_dl`, `adv_rs`), all messages in flight are genuine
(`sysInv_step`), and completeness drives every member through the three stages. -/
theorem complete_delivery_finishes (c : Cfg F G) (ephs : List (List F)) (hw : WellFormed c ephs)
    (evs : List Ev) (hcomp : Complete c.n (runEvents c ephs evs)) :
    ∀ i, i < c.n → ∃ m d ks, (runEvents c ephs evs).ms[i]? = some m ∧ m.stage = .done d ks :=
  complete_finishes c ephs hw evs hcomp

/-! ### the watchdog of `pdkg.Loop` (round 5, review C finding 4; `Model/DkgTick.lean`) -/

/-- **6a. `watchdog_keeps_unregistered_buffers`.**  `expire` – what a tick of `Loop`'s one-minute watchdog does
to the (buffer, request) pair of a session, as the code is (`c04_code_shape` pins the closure) – leaves a
session WITHOUT a registered request exactly as it is and closes nothing, whether or not any context is
done: the messages that arrived before the local `Grouping` call stay buffered. -/
theorem watchdog_keeps_unregistered_buffers {M : Type} (p : Pair M) (done : Bool) (h : p.req = none) :
    expire p done = (p, false) := expire_unregistered p done h

/-- **6b. `tick_never_drops_before_start` – a tick never drops messages of a session that can still start.**
Take ANY history of a member before its own `Grouping` call: PublicKey, Deal and Response arrivals (any
messages, any order, any repetition) interleaved with any number of watchdog ticks, at which the contexts
may or may not be done.  The member ends in exactly the state of the same history WITHOUT the ticks, still
`idle` with nothing registered. -/
theorem tick_never_drops_before_start (g : G) (n index : Nat) (long : F) (f ephs : List F) (evs : List (PreEv F G)) :
    evs.foldl (preStep g) (Member.init n index long f ephs) =
      evs.foldl (preStepNoTick g) (Member.init n index long f ephs) ∧
    BeforeStart (evs.foldl (preStep g) (Member.init (S := F) (P := G) n index long f ephs)) :=
  pre_fold g evs _ (beforeStart_init n index long f ephs)

/-- **6c. `complete_delivery_finishes_with_ticks`.**  Liveness with the watchdog running: a schedule may
contain ticks at any member at any position; as long as no context is done at a tick (no deadline has
passed – deadlines are outside the model), the run is the run of the schedule without the ticks, and
complete delivery makes every member finish. -/
theorem complete_delivery_finishes_with_ticks (c : Cfg F G) (ephs : List (List F)) (hw : WellFormed c ephs)
    (evs : List EvT) (hnd : ∀ i d, EvT.tick i d ∈ evs → d = false)
    (hcomp : Complete c.n (runEventsT c ephs evs)) :
    runEventsT c ephs evs = runEvents c ephs (dropTicks evs) ∧
    ∀ i, i < c.n → ∃ m d ks, (runEventsT c ephs evs).ms[i]? = some m ∧ m.stage = .done d ks := by
  have he : runEventsT c ephs evs = runEvents c ephs (dropTicks evs) := runEventsT_dropTicks c.g evs _ hnd
  refine ⟨he, ?_⟩
  rw [he] at hcomp ⊢
  exact complete_finishes c ephs hw (dropTicks evs) hcomp

/-- **6d.** the rule of the reviewer's escape E7 / the seeded change C04f-watchdog (buffers nobody asked for are
deleted too) does drop them: what `watchdog_keeps_unregistered_buffers` excludes.  On the real code the case is
the `net` line whose Loops are a minute old (go/props/c04 `prewarmNet`): oracle `stall-after-watchdog-tick`. -/
theorem e7_rule_drops_unasked_buffer {M : Type} (x : M) (buf : List M) (done : Bool) :
    (expireDropUnasked ⟨x :: buf, none⟩ done).1.buf = [] ∧ (expire ⟨x :: buf, none⟩ done).1.buf = x :: buf :=
  ⟨rfl, rfl⟩

/-- 6b/6c are not vacuous: two key arrivals and a tick with every context done before the start of member 0 -/
example : ([PreEv.pk ⟨1, some 7, 1⟩, .tick true, .pk ⟨2, some 9, 2⟩, .tick false].foldl (preStep (1 : ℚ))
    (Member.init (S := ℚ) (P := ℚ) 3 0 5 [4, 2] [11, 12, 13])).pkP.buf.length = 2 := by decide +kernel

/-! ### the theorems above, stated directly over schedules

`runEvents_sound` is the link between the event system and `HonestReach`: it is proved by the same
induction over the schedule as liveness (`sysInv_step`: every message in flight in an honest group is
genuine, so the stages only make `HonestReach` steps – `runDeals_reach`, `runResps_reach`).  The
corollaries below no longer mention `HonestReach`. -/

/-- **0. `runEvents_sound`.**  After ANY schedule `evs` – complete or not, any order, start skew,
re-delivery – of a well-formed honest group, no member machine has failed, the generator of a member
that is past `Deals()` is an `HonestReach` state, and a member in stage `done` holds exactly what
`DistKeyShare()` returned on its generator: a `done` member of `runEvents` is a finisher in the sense
of theorems 1–4. -/
theorem runEvents_sound (c : Cfg F G) (ephs : List (List F)) (hw : WellFormed c ephs) (evs : List Ev)
    (i : Nat) (m : Member F G) (hm : (runEvents c ephs evs).ms[i]? = some m) :
    i < c.n ∧ (∀ why, m.stage ≠ .failed why) ∧
    (∀ d, m.stage = .waitDeals d → HonestReach c i d) ∧ (∀ d, m.stage = .waitResps d → HonestReach c i d) ∧
    (∀ d ks, m.stage = .done d ks → HonestReach c i d ∧ distKeyShare d = .ok ks) :=
  Dkg.runEvents_sound c ephs hw evs i m hm

/-- **4′. `run_schedule_independent`.**  The output of a member that is `done` after a schedule is a
function of the dealers' polynomials alone. -/
theorem run_schedule_independent (c : Cfg F G) (ephs : List (List F)) (hw : WellFormed c ephs) (evs : List Ev)
    (i : Nat) (m : Member F G) (d : Gen F G) (ks : KeyShare F G)
    (hm : (runEvents c ephs evs).ms[i]? = some m) (hs : m.stage = .done d ks) :
    ks.commits = vecSum (c.polys.map (commit c.g)) ∧
    ks.shareV = (c.polys.map (fun f => priEval f (i : Int))).sum ∧ ks.shareI = i := by
  obtain ⟨hr, hk⟩ := (runEvents_sound c ephs hw evs i m hm).2.2.2.2 d ks hs
  exact schedule_independent c hw.g_ne hw.nodup hw.polys_len i d ks hr hk

/-- **1′. `run_agree`.**  Any two members that are `done` – after ANY two schedules `evs`, `evs'` of the
group (the same one, or different ones, with different ephemeral randomness) – hold the same public
polynomial and the same group public key. -/
theorem run_agree (c : Cfg F G) (ephs ephs' : List (List F)) (hw : WellFormed c ephs) (hw' : WellFormed c ephs')
    (evs evs' : List Ev) (i i' : Nat) (m m' : Member F G) (d d' : Gen F G) (ks ks' : KeyShare F G)
    (hm : (runEvents c ephs evs).ms[i]? = some m) (hm' : (runEvents c ephs' evs').ms[i']? = some m')
    (hs : m.stage = .done d ks) (hs' : m'.stage = .done d' ks') :
    ks.commits = ks'.commits ∧ ks.commits.headD 0 = ks'.commits.headD 0 := by
  rw [(run_schedule_independent c ephs hw evs i m d ks hm hs).1,
    (run_schedule_independent c ephs' hw' evs' i' m' d' ks' hm' hs').1]
  exact ⟨rfl, rfl⟩

/-- **2′. `run_share_on_poly`.**  A `done` member's share is the summed polynomial at its own index, its
public polynomial is the commitment of the summed polynomial, and the share verifies against it. -/
theorem run_share_on_poly (c : Cfg F G) (ephs : List (List F)) (hw : WellFormed c ephs) (evs : List Ev)
    (i : Nat) (m : Member F G) (d : Gen F G) (ks : KeyShare F G)
    (hm : (runEvents c ephs evs).ms[i]? = some m) (hs : m.stage = .done d ks) :
    ks.shareI = i ∧ ks.shareV = priEval (vecSum c.polys) (i : Int) ∧ ks.commits = commit c.g (vecSum c.polys) ∧
    ks.shareV • c.g = pubEval (S := F) ks.commits (i : Int) := by
  obtain ⟨hr, hk⟩ := (runEvents_sound c ephs hw evs i m hm).2.2.2.2 d ks hs
  obtain ⟨h1, h2, h3⟩ := share_on_poly c hw.g_ne hw.nodup hw.polys_len (c.n / 2 + 1) hw.poly_len i d ks hr hk
  exact ⟨(schedule_independent c hw.g_ne hw.nodup hw.polys_len i d ks hr hk).2.2, h1, h2, h3⟩

/-- **3′. `run_reconstruct`.**  Take ANY slice of private shares in which every usable entry is the key
share of a member that is `done` after the schedule, at least `t = n/2+1` are usable and the first `t`
usable ones belong to distinct members: `share.RecoverSecret` returns the sum of the dealers' secrets,
and the commitment of that sum is the group public key every `done` member holds. -/
theorem run_reconstruct (c : Cfg F G) (ephs : List (List F)) (hw : WellFormed c ephs) (evs : List Ev)
    (hc : Share.CharGt F c.n) (dp : Bool) (shares : List (Option (Share.PriShare F)))
    (hval : ∀ iv ∈ shares.filterMap (Share.usablePri c.n), ∃ (k : Nat) (mk : Member F G) (d : Gen F G) (ks : KeyShare F G),
      (k : Int) = iv.1 ∧ (runEvents c ephs evs).ms[k]? = some mk ∧ mk.stage = .done d ks ∧ ks.shareV = iv.2)
    (hcnt : c.n / 2 + 1 ≤ (shares.filterMap (Share.usablePri c.n)).length)
    (hdist : (((shares.filterMap (Share.usablePri c.n)).take (c.n / 2 + 1)).map (·.1)).Nodup)
    (i : Nat) (m : Member F G) (d : Gen F G) (ks : KeyShare F G)
    (hm : (runEvents c ephs evs).ms[i]? = some m) (hs : m.stage = .done d ks) :
    Share.recoverSecret dp shares (c.n / 2 + 1) c.n = .ok ((c.polys.map (fun f => f.headD 0)).sum) ∧
    (c.polys.map (fun f => f.headD 0)).sum • c.g = ks.commits.headD 0 := by
  obtain ⟨hr, hk⟩ := (runEvents_sound c ephs hw evs i m hm).2.2.2.2 d ks hs
  have hn0 : c.polys ≠ [] := by
    intro h
    have := hw.polys_len
    rw [h] at this
    have := hw.three
    simp at *; omega
  exact reconstruct c hw.g_ne hw.nodup hw.polys_len (c.n / 2 + 1) (by omega) hw.poly_len hn0 hc dp shares
    (by
      intro iv hiv
      obtain ⟨k, mk, dk, ksk, h1, h2, h3, h4⟩ := hval iv hiv
      obtain ⟨hrk, hkk⟩ := (runEvents_sound c ephs hw evs k mk h2).2.2.2.2 dk ksk h3
      exact ⟨k, dk, ksk, h1, hrk, hkk, h4⟩)
    hcnt hdist i d ks hr hk

/-- **6. `honest_run_complete_and_agree`.**  For every well-formed honest configuration and EVERY
schedule in which every member is started and every message that is sent is delivered to every other
member at least once: every member ends `done`, all on ONE public polynomial – the commitment of the
sum of the dealers' polynomials, whose constant coefficient (the group public key) is the commitment
of the sum of the dealers' secrets – and member `i`'s share is that sum polynomial at `i` and verifies
against the public polynomial. -/
theorem honest_run_complete_and_agree (c : Cfg F G) (ephs : List (List F)) (hw : WellFormed c ephs)
    (evs : List Ev) (hcomp : Complete c.n (runEvents c ephs evs)) :
    (commit c.g (vecSum c.polys)).headD 0 = (c.polys.map (fun f => f.headD 0)).sum • c.g ∧
    ∀ i, i < c.n → ∃ m d ks, (runEvents c ephs evs).ms[i]? = some m ∧ m.stage = .done d ks ∧
      ks.commits = commit c.g (vecSum c.polys) ∧ ks.shareI = i ∧ ks.shareV = priEval (vecSum c.polys) (i : Int) ∧
      ks.shareV • c.g = pubEval (S := F) ks.commits (i : Int) := by
  refine ⟨by rw [headD_commit, headD_vecSum (c.n / 2 + 1) c.polys hw.poly_len], ?_⟩
  intro i hi
  obtain ⟨m, d, ks, hm, hs⟩ := complete_delivery_finishes c ephs hw evs hcomp i hi
  obtain ⟨h1, h2, h3, h4⟩ := run_share_on_poly c ephs hw evs i m d ks hm hs
  exact ⟨m, d, ks, hm, hs, h3, h1, h2, h4⟩

/-- **5a. the session layer alone**, for ANY message kind with de-duplication by a key: if the request
for `|K|` messages is registered once and a message of every key of `K` arrives at least once – before
or after the registration, in any order, any number of times – `Loop` hands the waiting stage exactly
one batch, with exactly one message per key.  (Without de-duplication this is false: F11.) -/
theorem session_hands_over_once {M κ : Type} [DecidableEq κ] (key : M → κ) (K : List κ) (hK : K.Nodup)
    (evs : List (PEv M)) (hok : OkEvs (fun _ => True) key K K.length false evs)
    (hreg : endsRegistered false evs = true) (hall : ∀ x ∈ K, x ∈ msgKeys key evs) :
    ∃ b, (pairRun (fun a b => decide (key a = key b)) evs).2 = some b ∧ (b.map key).Nodup ∧
      b.length = K.length ∧ (∀ x ∈ b.map key, x ∈ K) ∧ (∀ x ∈ K, x ∈ b.map key) := by
  obtain ⟨b, h1, h2, h3, h4, h5, _⟩ :=
    pair_complete (fun _ => True) (fun a b => decide (key a = key b)) key (fun _ _ _ _ => rfl) K hK evs hok hreg hall
  exact ⟨b, h1, h2, h3, h4, h5⟩

/-! ### non-vacuity: three members over ℚ (`g = 1`), keys 5, 7, 9, polynomials of length 2 -/

section Examples
def exCfg : Cfg ℚ ℚ := { g := 1, longs := [5, 7, 9], polys := [[4, 2], [6, 1], [3, 8]] }
def exGen (i : Nat) (long : ℚ) (f : List ℚ) : Option (Gen ℚ ℚ) :=
  match newGen (1 : ℚ) long exCfg.pubs f with
  | .ok d0 => match deals 1 d0 [11 + i, 21 + i, 31 + i] with
    | .ok (d1, _) => some d1
    | _ => none
  | _ => none
-- 5: two deals of dealers 1 and 2 arrive (one twice) around the registration of a request for 2
example : (pairRun (fun a b : Nat × Nat => decide (a.1 = b.1)) [.msg (1, 7), .msg (1, 7), .reg 2, .msg (2, 8)]).2
    = some [(1, 7), (2, 8)] := by decide
-- the generators of an honest group exist (hypotheses of HonestReach.init are satisfiable) and the
-- configuration is well formed
example : (exGen 0 5 [4, 2]).isSome ∧ (exGen 1 7 [6, 1]).isSome ∧ (exGen 2 9 [3, 8]).isSome := by decide +kernel
example : exCfg.pubs.Nodup ∧ exCfg.polys.length = exCfg.n ∧ ∀ f ∈ exCfg.polys, f.length = 2 := by decide +kernel
def exEphs : List (List ℚ) := [[11, 12, 13], [21, 22, 23], [31, 32, 33]]
/-- canonical schedule: everybody starts, then keys, deals, responses; each delivered twice -/
def exSched : List Ev :=
  let pairs := [(0, 1), (0, 2), (1, 0), (1, 2), (2, 0), (2, 1)]
  [.start 0, .start 1, .start 2] ++ pairs.map (fun p => Ev.pk p.1 p.2) ++ pairs.map (fun p => Ev.deal p.1 p.2) ++
    pairs.map (fun p => Ev.pk p.1 p.2) ++ pairs.map (fun p => Ev.resps p.1 p.2) ++ pairs.map (fun p => Ev.resps p.1 p.2)
-- 5: a well-formed configuration, and a schedule with re-deliveries under which all three machines finish
example : exCfg.g ≠ 0 ∧ 3 ≤ exCfg.n ∧ exEphs.length = exCfg.n ∧ ∀ es ∈ exEphs, es.length = exCfg.n ∧ ∀ e ∈ es, e ≠ 0 := by
  decide +kernel
example : (runEvents exCfg exEphs exSched).ms.map (fun m => match m.stage with | .done _ _ => true | _ => false)
    = [true, true, true] := by decide +kernel
-- 0, 1′–4′, 6: the hypotheses are satisfiable – the configuration is well formed, the schedule complete
theorem exWellFormed : WellFormed exCfg exEphs :=
  ⟨by decide +kernel, by decide +kernel, by decide +kernel, by decide +kernel, by decide +kernel, by decide +kernel,
    by decide +kernel⟩
/-- a schedule that stops half way (member 2 never receives the responses): nobody has failed, members 0, 1 are done -/
def exPartial : List Ev := exSched.filter (fun e => match e with | .resps _ 2 => false | _ => true)
example : (runEvents exCfg exEphs exPartial).ms.map (fun m => match m.stage with
    | .done _ _ => "D" | .waitResps _ => "r" | .failed _ => "F" | _ => "?") = ["D", "D", "r"] := by decide +kernel
end Examples

end Dos.Props.C04

/-
C03 — nothing below threshold or not signed by the group is ever accepted.

Part A: in EVERY non-degenerate bilinear pairing the equation `bls.Verify` checks is equivalent
to `s = x • H(m)`, and skipping identity pairs (as `PairingCheck` does) does not change the
product – this justifies modelling verification by point equality.
Part B: theorems about the byte-level model `Model/Tbls.lean` (any field, module, codec, public
polynomial, entries): a share verifies iff it decodes to exactly that member's `xᵢ • H(m)`;
below threshold `Recover` errors whatever padding is added; only valid shares of in-range
members count; whatever `Recover` returns is the group signature and verifies under the group key.
Unforgeability (nobody without `xᵢ` produces `xᵢ • H(m)`) is a cryptographic assumption.
-/
import DosModel.Proofs.Tbls
import DosModel.Proofs.TblsPairing
import DosModel.Proofs.ShareZq
import DosModel.Props.C02
import DosModel.Props.C09

set_option linter.unusedSectionVars false

namespace Dos.Props.C03
open Dos Dos.Share Dos.Tbls

/-- the statements C03 is about, regenerated from /repo on every run (see `C02.c02_code_shape`):
index prefix, `tbls.Verify`, `bls.Verify`, the counting loop of `tbls.Recover`, `PubPoly.Eval`. -/
theorem c03_code_shape :
    Gen.TblsShape.sigShareIndex = [
      "0| func (s SigShare) Index() (int, error)",
      "1| var index uint16",
      "1| buf := bytes.NewReader(s)",
      "1| err := binary.Read(buf, binary.BigEndian, &index)",
      "1| if err != nil",
      "2| return -1, err",
      "1| return int(index), nil"
    ] ∧
    Gen.TblsShape.sigShareValue = [
      "0| func (s *SigShare) Value() []byte",
      "1| return []byte(*s)[2:]"
    ] ∧
    Gen.TblsShape.tblsVerify = [
      "0| func Verify(suite suites.Suite, public *share.PubPoly, msg, sig []byte) error",
      "1| s := SigShare(sig)",
      "1| i, err := s.Index()",
      "1| if err != nil",
      "2| return err",
      "1| return bls.Verify(suite, public.Eval(i).V, msg, s.Value())"
    ] ∧
    Gen.TblsShape.blsVerify = [
      "0| func Verify(suite suites.Suite, X kyber.Point, msg, sig []byte) error",
      "1| HM := hashToPoint(suite, msg)",
      "1| s := suite.G1().Point()",
      "1| if err := s.UnmarshalBinary(sig); err != nil",
      "2| return err",
      "1| s.Neg(s)",
      "1| if !suite.PairingCheck([]kyber.Point{s, HM}, []kyber.Point{suite.G2().Point().Base(), X})",
      "2| return errors.New(\"bls: invalid signature\")",
      "1| return nil"
    ] ∧
    Gen.TblsShape.tblsRecover = [
      "0| func Recover(suite suites.Suite, public *share.PubPoly, msg []byte, sigs [][]byte, t, n int) ([]byte, error)",
      "1| if t < public.Threshold()",
      "2| return nil, errors.New(\"tbls: threshold smaller than the threshold of the public polynomial\")",
      "1| pubShares := make([]*share.PubShare, 0)",
      "1| sigs = sliceUniqMap(sigs)",
      "1| seen := make(map[int]struct{})",
      "1| for _, sig := range sigs",
      "2| s := SigShare(sig)",
      "2| i, err := s.Index()",
      "2| if err != nil",
      "3| continue",
      "2| if _, dup := seen[i]; dup || i >= n",
      "3| continue",
      "2| if err = bls.Verify(suite, public.Eval(i).V, msg, s.Value()); err != nil",
      "3| continue",
      "2| point := suite.G1().Point()",
      "2| if err := point.UnmarshalBinary(s.Value()); err != nil",
      "3| return nil, err",
      "2| seen[i] = struct{}{}",
      "2| pubShares = append(pubShares, &share.PubShare{I: i, V: point})",
      "2| if len(pubShares) >= t",
      "3| break",
      "1| commit, err := share.RecoverCommit(suite.G1(), pubShares, t, n)",
      "1| if err != nil",
      "2| return nil, err",
      "1| sig, err := commit.MarshalBinary()",
      "1| if err != nil",
      "2| return nil, err",
      "1| return sig, nil"
    ] ∧
    Gen.TblsShape.pubEval = [
      "0| func (p *PubPoly) Eval(i int) *PubShare",
      "1| xi := p.g.Scalar().SetInt64(1 + int64(i))",
      "1| v := p.g.Point().Null()",
      "1| for j := p.Threshold() - 1; j >= 0; j--",
      "2| v.Mul(xi, v)",
      "2| v.Add(v, p.commits[j])",
      "1| return &PubShare{i, v}"
    ] :=
  ⟨rfl, rfl, rfl, rfl, rfl, rfl⟩

/-! ### A. the pairing equation -/

section PairingPart
variable {F G1 G2 GT : Type} [Field F] [AddCommGroup G1] [Module F G1]
  [AddCommGroup G2] [Module F G2] [CommGroup GT]

/-- **`bls.Verify` accepts exactly `x • H(m)`** under the key `X = x • B₂`: the pairing equation
`e(-s, B₂) · e(H(m), x•B₂) = 1` holds iff `s = x • H(m)` (bilinearity + non-degeneracy). -/
theorem verify_iff (pr : Pairing F G1 G2 GT) (x : F) (hm s : G1) :
    pr.verifyEq (x • pr.g2) hm s ↔ s = x • hm := by
  unfold Pairing.verifyEq
  rw [← pr.smul_swap, ← pr.add_left]
  constructor
  · intro h
    have := pr.nondeg _ h
    rw [neg_add_eq_zero] at this; exact this
  · rintro rfl
    rw [neg_add_cancel]; exact pr.zero_left _

/-- **skipping pairs with an identity component** (what `PairingCheck` does) leaves the product
of pairings unchanged. -/
theorem pairingCheck_skip_identity [DecidableEq G1] [DecidableEq G2] (pr : Pairing F G1 G2 GT)
    (ps : List (G1 × G2)) : pr.checkSkipping ps = pr.checkAll ps := by
  unfold Pairing.checkSkipping Pairing.checkAll
  induction ps with
  | nil => rfl
  | cons ab ps ih =>
    by_cases h : ab.1 = 0 ∨ ab.2 = 0
    · have h1 : pr.e ab.1 ab.2 = 1 := by
        rcases h with h | h <;> rw [h]
        · exact pr.zero_left _
        · exact pr.zero_right _
      rw [List.filter_cons_of_neg (by simp only [decide_not, Bool.not_eq_true', decide_eq_false_iff_not, not_not]; exact h),
        List.map_cons, List.prod_cons, h1, one_mul, ih]
    · rw [List.filter_cons_of_pos (by simp only [decide_eq_true_eq]; exact h),
        List.map_cons, List.prod_cons, List.map_cons, List.prod_cons, ih]

/-- the share key of member `i` is `f(i+1) • B₂` (C09 `pubEval_commit`), so a share verifies under
`public.Eval(i)` iff it is `f(i+1) • H(m)`. -/
theorem share_verify_iff (pr : Pairing F G1 G2 GT) [DecidableEq F] [DecidableEq G2] (f : List F) (i : Int) (hm s : G1) :
    pr.verifyEq (pubEval F (f.map (fun c => c • pr.g2)) i) hm s ↔ s = priEval f i • hm := by
  rw [pubEval_map_smul]; exact verify_iff pr _ hm s

end PairingPart

/-! ### B. the model of `tbls.Verify` / `tbls.Recover` -/

variable {F : Type} [Field F] [DecidableEq F]
variable {G : Type} [AddCommGroup G] [Module F G] [DecidableEq G]

/-- **a signature share verifies only if it is the BLS signature of exactly that message under
exactly that member's share key**: `tbls.Verify` answers ok iff the entry has a 2-byte index `i`
and its value decodes to `f(i+1) • H(m)`. -/
theorem tblsVerify_iff (cd : Codec G) (f : List F) (hm : G) (sig : Bytes) :
    tblsVerifyR cd f hm sig = .ok
      ↔ ∃ i, sigIndex sig = some i ∧ cd.decode (sigValue sig) = some (priEval f (i : Int) • hm) :=
  tblsVerifyR_ok_iff cd f hm sig

/-- an entry counts for member `i` iff index `i < n` and it decodes to `f(i+1) • H(m)` -/
theorem counts_iff (cd : Codec G) (f : List F) (hm : G) (n : Nat) (e : Bytes) (i : Nat) :
    validIdx cd f hm n e = some i
      ↔ sigIndex e = some i ∧ i < n ∧ cd.decode (sigValue e) = some (priEval f (i : Int) • hm) :=
  validIdx_eq_some_iff cd f hm n e i

/-- **shares for another message never count**: member `i`'s share on `H' ≠ H(m)` is not a valid
entry (its share key being non-zero). -/
theorem other_message_never_counts (cd : Codec G) (f : List F) (hm hm' : G) (n : Nat) (e : Bytes)
    (i : Nat) (hidx : sigIndex e = some i)
    (hdec : cd.decode (sigValue e) = some (priEval f (i : Int) • hm'))
    (hne : hm' ≠ hm) (hx : priEval f (i : Int) ≠ 0) :
    validIdx cd f hm n e = none := by
  cases hv : validIdx cd f hm n e with
  | none => rfl
  | some j =>
    exfalso
    obtain ⟨h1, _, h3⟩ := (validIdx_eq_some_iff cd f hm n e j).1 hv
    rw [hidx] at h1; cases h1
    rw [hdec] at h3
    have := Option.some.inj h3
    exact hne (smul_right_injective G hx this)

/-- **shares under another index never count** unless the two share keys coincide (then it IS the
right share): member `i`'s point presented under index `j`. -/
theorem other_index_never_counts (cd : Codec G) (f : List F) (hm : G) (hH : ∀ c : F, c • hm = 0 → c = 0)
    (n : Nat) (e : Bytes) (i j : Nat) (hidx : sigIndex e = some j)
    (hdec : cd.decode (sigValue e) = some (priEval f (i : Int) • hm))
    (hne : priEval f (i : Int) ≠ priEval f (j : Int)) :
    validIdx cd f hm n e = none := by
  cases hv : validIdx cd f hm n e with
  | none => rfl
  | some k =>
    exfalso
    obtain ⟨h1, _, h3⟩ := (validIdx_eq_some_iff cd f hm n e k).1 hv
    rw [hidx] at h1; cases h1
    rw [hdec] at h3
    have h4 := Option.some.inj h3
    have : (priEval f (i : Int) - priEval f (j : Int)) • hm = 0 := by rw [sub_smul, h4, sub_self]
    exact hne (sub_eq_zero.1 (hH _ this))

/-- **a share of a member number beyond the 2-byte index format never counts**: `tbls.Sign` for member
`i ≥ 2^16` labels `x_i • H(m)` with `i mod 2^16` (`C02.signed_share_index_truncated`); unless the two share
keys coincide that is another member's number on this member's point – not a valid entry for anybody. -/
theorem oversize_member_share_never_counts (cd : Codec G) (hcd : ∀ p, cd.decode (cd.encode p) = some p)
    (f : List F) (hm : G) (hH : ∀ c : F, c • hm = 0 → c = 0) (n i : Nat)
    (hne : priEval f (i : Int) ≠ priEval f ((i % 65536 : Nat) : Int)) :
    validIdx cd f hm n (tblsSign cd f hm i) = none := by
  obtain ⟨h1, h2⟩ := C02.signed_share_index_truncated cd f hm i
  exact other_index_never_counts cd f hm hH n _ i (i % 65536) h1 (by rw [h2]; exact hcd _) hne

/-- **shares under another group's polynomial never count** unless that polynomial has the same
value at the member's point. -/
theorem foreign_polynomial_never_counts (cd : Codec G) (f g : List F) (hm : G)
    (hH : ∀ c : F, c • hm = 0 → c = 0) (n : Nat) (e : Bytes) (i : Nat) (hidx : sigIndex e = some i)
    (hdec : cd.decode (sigValue e) = some (priEval g (i : Int) • hm))
    (hne : priEval g (i : Int) ≠ priEval f (i : Int)) :
    validIdx cd f hm n e = none := by
  cases hv : validIdx cd f hm n e with
  | none => rfl
  | some k =>
    exfalso
    obtain ⟨h1, _, h3⟩ := (validIdx_eq_some_iff cd f hm n e k).1 hv
    rw [hidx] at h1; cases h1
    rw [hdec] at h3
    have h4 := Option.some.inj h3
    have : (priEval g (i : Int) - priEval f (i : Int)) • hm = 0 := by rw [sub_smul, h4, sub_self]
    exact hne (sub_eq_zero.1 (hH _ this))

/-- **below threshold ⇒ error**, for every padding: if fewer than `t` distinct members have a
valid share in the list – whatever else the list contains, in any number – `Recover` returns an
error ("not enough shares", or the refusal of a threshold below the polynomial's), never a
signature and never a panic. Any public polynomial. -/
theorem below_threshold_errors (cd : Codec G) (f : List F) (hm : G) (t n : Nat) (ht : 0 < t)
    (sigs : List Bytes) (hfew : (members cd f hm n sigs).card < t) :
    recover cd f hm sigs t n = if t < f.length then .errThreshold else .errFew :=
  recover_few cd f hm t n ht sigs hfew

/-- … in particular nothing is ever accepted below threshold -/
theorem below_threshold_never_ok (cd : Codec G) (f : List F) (hm : G) (t n : Nat) (ht : 0 < t)
    (sigs : List Bytes) (hfew : (members cd f hm n sigs).card < t) (s : Bytes) :
    recover cd f hm sigs t n ≠ .ok s := by
  rw [below_threshold_errors cd f hm t n ht sigs hfew]
  split_ifs <;> simp

/-- **padding never helps**: entries that are not valid shares of an in-range member can be
added to (or removed from) a list, anywhere, without changing the outcome. Any public polynomial. -/
theorem padding_irrelevant (cd : Codec G) (f : List F) (hm : G) (t n : Nat) (ht : 0 < t)
    (hc : CharGt F n) (s₁ s₂ : List Bytes)
    (h : ∀ e, validIdx cd f hm n e ≠ none → (e ∈ s₁ ↔ e ∈ s₂)) :
    recover cd f hm s₁ t n = recover cd f hm s₂ t n := by
  rw [recover_eq_full cd f hm t n ht hc s₁, recover_eq_full cd f hm t n ht hc s₂,
    C02.members_perm_junk cd f hm n s₁ s₂ h]

/-- **whatever recovery returns verifies under the group key** – for ANY public polynomial and
any threshold (since /repo 3cdfff8 the code refuses `t < len f` itself, so no hypothesis relating
`t` to the polynomial is needed): a returned signature is the encoding of `f(0) • H(m)` – the
signature the group key `f(0) • B₂` accepts (by `verify_iff`) – and at least `t` distinct members
contributed a valid share. -/
theorem recover_ok_verifies (cd : Codec G) (hcd : ∀ p, cd.decode (cd.encode p) = some p)
    (f : List F) (hm : G) (t n : Nat) (ht : 0 < t) (hc : CharGt F n)
    (sigs : List Bytes) (s : Bytes) (h : recover cd f hm sigs t n = .ok s) :
    t ≤ (members cd f hm n sigs).card ∧ s = cd.encode (f.headD 0 • hm)
      ∧ blsVerifyR cd (f.headD 0) hm s = .ok := by
  obtain ⟨hs, _, hq⟩ := C02.recover_ok_is_group_signature cd f hm t n ht hc sigs s h
  refine ⟨hq, hs, ?_⟩
  rw [blsVerifyR_ok_iff, hs]; exact hcd _

/-! ### non-vacuity -/

/-- a concrete pairing: `G1 = G2 = F = ℚ` additively, `GT = Multiplicative ℚ`, `e(a,b) = a·b`. -/
def toyPairing : Pairing ℚ ℚ ℚ (Multiplicative ℚ) where
  e a b := Multiplicative.ofAdd (a * b)
  add_left a b q := by simp [add_mul]
  add_right a p q := by simp [mul_add]
  smul_swap c a q := by simp [mul_comm c a, mul_assoc]
  g2 := 1
  nondeg a h := by simpa using h

example : toyPairing.verifyEq ((3 : ℚ) • toyPairing.g2) 5 15 := (verify_iff toyPairing 3 5 15).2 (by norm_num)
example : ¬ toyPairing.verifyEq ((3 : ℚ) • toyPairing.g2) 5 16 :=
  fun h => by have := (verify_iff toyPairing 3 5 16).1 h; norm_num at this

open C02 in
example : tblsVerifyR toyCodec [(4 : Zq 11), 3] 2 [0, 2, 4, 77] = .ok
    ∧ tblsVerifyR toyCodec [(4 : Zq 11), 3] 2 [0, 2, 5] = .errInvalid
    ∧ tblsVerifyR toyCodec [(4 : Zq 11), 3] 2 [0, 1, 4] = .errInvalid
    ∧ tblsVerifyR toyCodec [(4 : Zq 11), 3] 2 [0] = .errIndex
    ∧ tblsVerifyR toyCodec [(4 : Zq 11), 3] 2 [0, 2, 99] = .errDecode := by decide

open C02 in
example : recover toyCodec [(4 : Zq 11), 3] 2
    [[0, 2, 4], [0, 2, 4, 77], [5], [0, 0, 8], [0, 7, 10], [0, 1, 4]] 2 3 = .errFew :=
  below_threshold_errors toyCodec _ 2 2 3 (by decide) _ (by decide)

open C02 in
example : recover toyCodec [(4 : Zq 11), 3] 2
    [[0, 2, 4], [0, 2, 4, 77], [5], [0, 0, 8], [0, 7, 10], [0, 1, 4]] 2 3 ≠ .ok [4] :=
  below_threshold_never_ok toyCodec _ 2 2 3 (by decide) _ (by decide) _

open C02 in
/-- the input of the repaired defect 3cdfff8 (three coefficients, `t = 2`, two true shares): before
the repair `ok [4]`, which does not verify under the group key `4`; now refused -/
example : recover toyCodec [(4 : Zq 11), 3, 1] 2 [[0, 0, 5], [0, 1, 6]] 2 3 = .errThreshold
    ∧ blsVerifyR toyCodec (4 : Zq 11) 2 [4] = .errInvalid := by decide

open C02 in
/-- `padding_irrelevant`: junk added in front, in the middle and behind, one entry repeated -/
example : recover toyCodec [(4 : Zq 11), 3] 2 [[0, 2, 4], [0, 0, 3]] 2 3
    = recover toyCodec [(4 : Zq 11), 3] 2 [[9], [0, 2, 4], [0, 0, 8], [0, 0, 3], [0, 2, 4], [0, 7, 10]] 2 3 :=
  padding_irrelevant toyCodec [(4 : Zq 11), 3] 2 2 3 (by decide) (C09.zq_charGt 11 3 (by decide)) _ _
    (by
      intro e he
      simp only [List.mem_cons, List.not_mem_nil, or_false]
      constructor
      · rintro (rfl | rfl) <;> simp
      · rintro (rfl | rfl | rfl | rfl | rfl | rfl) <;>
          first
            | exact Or.inl rfl
            | exact Or.inr rfl
            | exact absurd (by decide) he)

open C02 in
/-- `oversize_member_share_never_counts`: member 65538 (labelled 2; `f(65539) = 4 ≠ 2 = f(3)` mod 11) -/
example : validIdx toyCodec [(4 : Zq 11), 3] 2 3 (tblsSign toyCodec [(4 : Zq 11), 3] 2 65538) = none :=
  oversize_member_share_never_counts toyCodec toyCodec_roundtrip [(4 : Zq 11), 3] 2
    (fun c h => (mul_eq_zero.1 (show c * 2 = 0 from h)).resolve_right (by decide)) 3 65538 (by decide)

open C02 in
/-- `other_message_never_counts`: member 2's share on the message point 3 offered for message
point 2 -/
example : validIdx toyCodec [(4 : Zq 11), 3] 2 3 [0, 2, 6] = none :=
  other_message_never_counts toyCodec [(4 : Zq 11), 3] 2 3 3 [0, 2, 6] 2 (by decide) (by decide)
    (by decide) (by decide)

open C02 in
/-- `foreign_polynomial_never_counts`: member 1's share under `g = 5 + 3x` -/
example : validIdx toyCodec [(4 : Zq 11), 3] 2 3 [0, 1, 0] = none :=
  foreign_polynomial_never_counts toyCodec [(4 : Zq 11), 3] [(5 : Zq 11), 3] 2
    (fun c h => (mul_eq_zero.1 (show c * 2 = 0 from h)).resolve_right (by decide)) 3 [0, 1, 0] 1
    (by decide) (by decide) (by decide)

open C02 in
example : blsVerifyR toyCodec (4 : Zq 11) 2 (blsSign toyCodec (4 : Zq 11) 2) = .ok :=
  (recover_ok_verifies toyCodec toyCodec_roundtrip [(4 : Zq 11), 3] 2 2 3 (by decide)
    (C09.zq_charGt 11 3 (by decide))
    [[0, 9, 200], [0, 2, 4], [0, 2, 4, 77], [5], [0, 0, 8], [0, 0, 3]] _ (by decide)).2.2

open C02 in
example : validIdx toyCodec [(4 : Zq 11), 3] 2 3 [0, 1, 4] = none :=
  other_index_never_counts toyCodec [(4 : Zq 11), 3] 2
    (fun c h => (mul_eq_zero.1 (show c * 2 = 0 from h)).resolve_right (by decide)) 3 [0, 1, 4] 2 1 (by decide)
    (by decide) (by decide)

end Dos.Props.C03

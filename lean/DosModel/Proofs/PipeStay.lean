/-
C14, round 5 — soundness of the rules of `Model/PipeStay.lean`.

* `stays_reach`  : a goroutine passing `stayOkM` for (`c`, `k`) is, in every reachable state, not yet
                   started, or at a node of the labeling, or `c` is closed, or context `k` is done —
                   in particular it has not returned while `c` is open and the context live.
* `drain_takes`  : while such a goroutine is in its drain phase (`drainOkM`) on the unbuffered `c`, a
                   weakly fair sender standing at a send on `c` moves (or `c` gets closed / the
                   context ends): it is never left waiting for a receiver that is gone.
-/
import DosModel.Proofs.PipeFair4
import DosModel.Proofs.PipeFairDemo
import DosModel.Model.PipeStay

namespace Dos.Pipe
variable {p : Pipeline}

theorem leaves_guard {s : State} {c : Ch} {k : Nat} {l : Lab} (hl : Lab.leaves c k l = true)
    (hg : guard p s l = true) : s.closed c = true ∨ s.ctxDone k = true := by
  simp only [Lab.leaves, Bool.or_eq_true, beq_iff_eq] at hl
  rcases hl with rfl | rfl
  · left
    simp only [guard, Bool.and_eq_true] at hg
    exact hg.1
  · right
    simpa [guard] using hg

theorem not_leaves_send (c : Ch) (k : Nat) (c' : Ch) : Lab.leaves c k (.send c') = false := by
  simp [Lab.leaves]

theorem not_leaves_recvOk (c : Ch) (k : Nat) (c' : Ch) : Lab.leaves c k (.recvOk c') = false := by
  simp [Lab.leaves]

/-- the invariant behind `staysUntil` -/
def StayInv (g : Gi) (c : Ch) (k : Nat) (m : List Bool) (s : State) : Prop :=
  s.gs[g]? = some .idle ∨ (∃ pc, s.gs[g]? = some (.at pc) ∧ mark m pc = true) ∨
    s.closed c = true ∨ s.ctxDone k = true

theorem stay_step {g : Gi} {gr : Goroutine} {c : Ch} {k : Nat} {m : List Bool}
    (hg : p.gs[g]? = some gr) (hok : stayOkM gr c k m = true) {s s' : State} {e : Ev}
    (hst : Step p s e (.run s')) (hI : StayInv g c k m s) : StayInv g c k m s' := by
  unfold stayOkM at hok
  rw [Bool.and_eq_true] at hok
  obtain ⟨h0, hall⟩ := hok
  rcases hI with hI | ⟨pc, hat, hm⟩ | hI | hI
  · rcases pos_step hst g with hsame | ⟨pc, _, _, _, hat, _⟩ | ⟨_, h1⟩ | ⟨pc, hat, _⟩
    · left; rw [hsame]; exact hI
    · rw [hI] at hat; cases hat
    · right; left; exact ⟨0, h1, h0⟩
    · rw [hI] at hat; cases hat
  · rcases pos_step hst g with hsame | ⟨pc', nd, l, n, hat', hnd, hed, hat2, hgd⟩ | ⟨hi, _⟩ | ⟨pc', hat', hnd, _⟩
    · right; left; exact ⟨pc, by rw [hsame]; exact hat, hm⟩
    · rw [hat] at hat'; cases hat'
      obtain ⟨gr', hg', hn⟩ := node_some hnd
      rw [hg] at hg'; cases hg'
      have hx := zipIdx_all hall hn
      simp only [hm, Bool.not_true, Bool.false_or, Bool.and_eq_true, List.all_eq_true,
        Bool.or_eq_true] at hx
      rcases hx.2 (l, n) hed with hl | hmn
      · have hgd' : guard p s l = true := by
          rcases hgd with h | ⟨c', h | h⟩
          · exact h
          · subst h; rw [not_leaves_send] at hl; cases hl
          · subst h; rw [not_leaves_recvOk] at hl; cases hl
        rcases leaves_guard hl hgd' with h | h
        · right; right; left; exact closed_mono hst h
        · right; right; right; exact ctxDone_mono hst k h
      · right; left; exact ⟨n, hat2, hmn⟩
    · rw [hat] at hi; cases hi
    · rw [hat] at hat'; cases hat'
      obtain ⟨gr', hg', hn⟩ := node_some hnd
      rw [hg] at hg'; cases hg'
      have hx := zipIdx_all hall hn
      simp [hm, Node.isExit] at hx
  · right; right; left; exact closed_mono hst hI
  · right; right; right; exact ctxDone_mono hst k hI

theorem stays_reach {g : Gi} {gr : Goroutine} {c : Ch} {k : Nat} {m : List Bool}
    (hg : p.gs[g]? = some gr) (hok : stayOkM gr c k m = true) :
    ∀ s, Reach p s → StayInv g c k m s := by
  intro s hr
  induction hr with
  | init =>
    have h0 : mark m 0 = true := by
      unfold stayOkM at hok
      rw [Bool.and_eq_true] at hok
      exact hok.1
    unfold StayInv
    rw [init_gs, hg]
    cases hs : gr.static with
    | true => right; left; exact ⟨0, by simp [hs], h0⟩
    | false => left; simp [hs]
  | step _ hst ih => exact stay_step hg hok hst ih

/-- a goroutine that passes the rule has not returned while `c` is open and context `k` is live -/
theorem not_gone {g : Gi} {gr : Goroutine} {c : Ch} {k : Nat} {m : List Bool}
    (hg : p.gs[g]? = some gr) (hok : stayOkM gr c k m = true) {s : State} (hr : Reach p s)
    (hd : s.gs[g]? = some .done) : s.closed c = true ∨ s.ctxDone k = true := by
  rcases stays_reach hg hok s hr with h | ⟨pc, h, _⟩ | h | h
  · rw [hd] at h; cases h
  · rw [hd] at h; cases h
  · exact Or.inl h
  · exact Or.inr h

/-! ### the drain phase -/

theorem mark_lt {m : List Bool} {i : Nat} (h : mark m i = true) : i < m.length := by
  unfold mark at h
  cases hh : m[i]? with
  | none => rw [hh] at h; cases h
  | some b => exact (List.getElem?_eq_some_iff.mp hh).1

/-- one step of the run keeps the goroutine inside its drain phase unless `c` is closed or the
    context is done at that position -/
theorem drain_step {g : Gi} {gr : Goroutine} {c : Ch} {k : Nat} {m : List Bool}
    (hg : p.gs[g]? = some gr) (hok : drainOkM gr c k m = true) {s s' : State} {e : Ev}
    (hst : Step p s e (.run s')) {pc : Pc} (hat : s.gs[g]? = some (.at pc)) (hm : mark m pc = true)
    (hcl : s.closed c = false) (hcx : s.ctxDone k = false) :
    ∃ pc', s'.gs[g]? = some (.at pc') ∧ mark m pc' = true := by
  unfold drainOkM at hok
  cases hmv : e.moves g with
  | false => exact ⟨pc, nomove_at hst hat hmv, hm⟩
  | true =>
    obtain ⟨nd, hnd, hcase⟩ := move_cases hst hat hmv
    obtain ⟨gr', hg', hn⟩ := node_some hnd
    rw [hg] at hg'; cases hg'
    have hx := zipIdx_all hok hn
    simp only [hm, Bool.not_true, Bool.false_or, Bool.and_eq_true, List.all_eq_true,
      Bool.or_eq_true, List.any_eq_true] at hx
    rcases hcase with ⟨l, n, hed, _, hgd, _, hat2⟩ | ⟨c', n, g', hed, _, _, hat2⟩ |
        ⟨c', n, g', hed, _, _, hat2⟩ | ⟨hex, _, _⟩
    · rcases hx.2 (l, n) hed with hl | hmn
      · rcases leaves_guard hl hgd with h | h
        · rw [hcl] at h; cases h
        · rw [hcx] at h; cases h
      · exact ⟨n, hat2, hmn⟩
    · rcases hx.2 (_, n) hed with hl | hmn
      · rw [not_leaves_send] at hl; cases hl
      · exact ⟨n, hat2, hmn⟩
    · rcases hx.2 (_, n) hed with hl | hmn
      · rw [not_leaves_recvOk] at hl; cases hl
      · exact ⟨n, hat2, hmn⟩
    · subst hex
      obtain ⟨e', he', _⟩ := hx.1
      simp [Node.edges] at he'

/-- along a run the goroutine stays in its drain phase as long as `c` is open and the context live -/
theorem drain_phase_stays {g : Gi} {gr : Goroutine} {c : Ch} {k : Nat} {m : List Bool}
    (hg : p.gs[g]? = some gr) (hok : drainOkM gr c k m = true) (r : Run p) {T : Nat} {pc : Pc}
    (hat : (r.st T).gs[g]? = some (.at pc)) (hm : mark m pc = true) :
    ∀ d, (∀ j, T ≤ j → j < T + d → (r.st j).closed c = false ∧ (r.st j).ctxDone k = false) →
      ∃ pc', (r.st (T + d)).gs[g]? = some (.at pc') ∧ mark m pc' = true := by
  intro d
  induction d with
  | zero => intro _; exact ⟨pc, hat, hm⟩
  | succ d ih =>
    intro hopen
    obtain ⟨pc', hat', hm'⟩ := ih (fun j h1 h2 => hopen j h1 (by omega))
    have ho := hopen (T + d) (by omega) (by omega)
    rcases r.step_cases (T + d) with ⟨e, _, hst⟩ | ⟨_, heq⟩
    · exact drain_step hg hok hst hat' hm' ho.1 ho.2
    · have e : T + (d + 1) = T + d + 1 := by omega
      rw [e, heq]; exact ⟨pc', hat', hm'⟩

/-- **the late item is taken.**  `g` is in its drain phase on the unbuffered channel `c` at position
`T`; another goroutine `g'`, weakly fair, stands at a `select` with a send on `c`.  Then `g'` moves (its
item is received, or it leaves through another alternative), or `c` is closed, or context `k` is done:
the sender is not left waiting for a receiver that has gone away. -/
theorem drain_takes (hsafe : NoCrash p) {g : Gi} {gr : Goroutine} {c : Ch} {k : Nat} {m : List Bool}
    (hg : p.gs[g]? = some gr) (hok : drainOkM gr c k m = true) (hlen : m.length ≤ gr.nodes.length)
    (hcap : p.cap c = 0) (r : Run p) {g' : Gi} (hne : g ≠ g') (hw : WeakFairG r g') {T : Nat}
    {pc pc' n : Pc} {nd' : Node} (hat : (r.st T).gs[g]? = some (.at pc)) (hm : mark m pc = true)
    (hat' : (r.st T).gs[g']? = some (.at pc')) (hnd' : p.node g' pc' = some nd')
    (hed' : (Lab.send c, n) ∈ nd'.edges) :
    ∃ i, T ≤ i ∧ (r.movesAt g' i ∨ (r.st i).closed c = true ∨ (r.st i).ctxDone k = true) := by
  apply Classical.byContradiction
  intro hno
  have hopen : ∀ j, T ≤ j → (r.st j).closed c = false ∧ (r.st j).ctxDone k = false := by
    intro j hj
    constructor
    · cases h : (r.st j).closed c with
      | false => rfl
      | true => exact absurd ⟨j, hj, Or.inr (Or.inl h)⟩ hno
    · cases h : (r.st j).ctxDone k with
      | false => rfl
      | true => exact absurd ⟨j, hj, Or.inr (Or.inr h)⟩ hno
  obtain ⟨i, hi, hmv⟩ := send_moves hsafe hw hat' hnd' hed' (by
    intro i hi _
    obtain ⟨d, rfl⟩ := Nat.exists_eq_add_of_le hi
    obtain ⟨pci, hati, hmi⟩ := drain_phase_stays hg hok r hat hm d (fun j h1 _ => hopen j h1)
    have hlt : pci < gr.nodes.length := Nat.lt_of_lt_of_le (mark_lt hmi) hlen
    have hn : gr.nodes[pci]? = some gr.nodes[pci] := List.getElem?_eq_getElem hlt
    have hx := zipIdx_all (by unfold drainOkM at hok; exact hok) hn
    simp only [hmi, Bool.not_true, Bool.false_or, Bool.and_eq_true, List.any_eq_true, beq_iff_eq] at hx
    obtain ⟨⟨l, n'⟩, he, hl⟩ := hx.1
    simp only at hl
    subst hl
    refine Or.inr ⟨hcap, g, pci, gr.nodes[pci], n', hne, hati, ?_, he⟩
    unfold Pipeline.node
    rw [hg]
    exact hn)
  exact hno ⟨i, hi, Or.inl hmv⟩

/-! ### the labelings computed by the model have the right length -/

theorem drainStep_length (gr : Goroutine) (c : Ch) (k : Nat) (m : List Bool) :
    (drainStep gr c k m).length = gr.nodes.length := by
  simp [drainStep]

theorem iter_length {f : List Bool → List Bool} {N : Nat} (hf : ∀ m, (f m).length = N) :
    ∀ n (m : List Bool), m.length = N → (iter f n m).length = N := by
  intro n
  induction n with
  | zero => intro m h; exact h
  | succ n ih => intro m _; exact ih (f m) (hf m)

theorem drainD_length (gr : Goroutine) (c : Ch) (k : Nat) : (drainD gr c k).length = gr.nodes.length := by
  unfold drainD
  exact iter_length (drainStep_length gr c k) _ _ (by simp)

/-! ### a two-goroutine demo (non-vacuity of the theorems of `Props/C14Drain.lean`) -/

namespace Demo

/-- a sender of one item on the unbuffered channel 0, and a drain loop on it -/
def drain : Pipeline where
  name := "demo.drain"
  nctx := 1
  chans := [⟨"c", 0, false⟩]
  wgs := []
  gs := [
    { name := "sender", nodes := [.sel [.send 0 1, .ctx 0 1], .exit] },
    { name := "drainer", nodes := [.sel [.recv 0 0 1, .ctx 0 1], .exit] }]
  rank := [0, 0]

theorem drain_wf : W0 drain = true ∧ SafeOk drain = true ∧ LiveOk drain = true := by decide +kernel

/-- the item is handed over, the sender returns, the deadline fires, the drain loop ends -/
def drainTrace : List Ev := [.sync 0 1 0, .exit 0, .env 0, .act 1 (.ctx 0), .exit 1]

theorem drainTrace_ok : traceOk drain drainTrace = true := by decide +kernel

def drainRun : Run drain := Run.ofTrace drain drainTrace drainTrace_ok

theorem drainRun_fair : Fair drainRun := ofTrace_fair drain drainTrace drainTrace_ok (by decide +kernel)

end Demo

end Dos.Pipe

/-
C14 driver: one scenario line in → the set of final observations the model allows, in the
canonical form of the Go harness (go/props/c14).

  sc p=<pipeline> keep=<g,g,..> feed=<chan>#k:<prog>;.. cons=<chan>#k:<mode>;.. ctl=<op,op,..>
     pick=<site substring>:<i>;.. pre=<0|1> obs=<chan>#k;..

* `keep`  : goroutines of the regenerated pipeline (by function name prefix) that are the code under test;
* `feed`  : harness feeders of input channels (`s` send, `c` close), each started by the controller;
* `cons`  : harness consumers of output channels (`all`, `ctx`, `n<k>`);
* `ctl`   : what the harness does, each step after the system went quiet:
            `f<i>` start feeder i, `x` cancel the pipeline context, `r` release the feeders;
* `pick`  : resolve a data-dependent branch (node whose site contains the text) to its i-th successor;
* `pre=1` : the pipeline context is already done when the stage starts.
  wf <pipeline>     → the violations of the well-formedness rules on the regenerated IR
-/
import DosModel.Model.PipeExplore
import DosModel.Model.PipeWf
import DosModel.Model.Util
import DosModel.Gen.PipeIR

open Dos Dos.Pipe

def kvs (ws : List String) : List (String × String) :=
  ws.filterMap fun w => match w.splitOn "=" with
    | k :: rest => if rest.isEmpty then none else some (k, String.intercalate "=" rest)
    | _ => none

def look (m : List (String × String)) (k : String) : String :=
  match m.find? (·.1 == k) with
  | some x => x.2
  | none => ""

def listOf (s : String) (sep : String) : List String :=
  if s == "" || s == "-" then [] else s.splitOn sep

/-- `<chan>#k` → channel index -/
def chanRef (p : Pipeline) (s : String) : Option Ch :=
  match s.splitOn "#" with
  | [n] => p.chanByName n 0
  | [n, k] => match k.toNat? with
    | some k => p.chanByName n k
    | none => none
  | _ => none

/-- does the decision path `cond` ("text:i;text:j;..") agree with picking branch `i` of the
    decision whose text contains `site`? -/
def condAgrees (cond site : String) (i : Nat) : Bool :=
  (cond.splitOn ";").all fun d =>
    match (d.splitOn ":").reverse with
    | idx :: rest =>
      let text := String.intercalate ":" rest.reverse
      if (text.splitOn site).length > 1 then idx.toNat? == some i else true
    | [] => true

/-- resolve a data-dependent decision: successors of branch nodes that stand for another outcome
    of the decision are removed -/
def applyPick (p : Pipeline) (keep : List Gi) (site : String) (i : Nat) : Pipeline :=
  { p with gs := p.gs.zipIdx.map fun x =>
      if !keep.contains x.2 then x.1 else
      { x.1 with nodes := x.1.nodes.zipIdx.map fun nd =>
          match nd.1 with
          | .branch ns =>
            let conds := x.1.conds[nd.2]?.getD []
            let kept := ns.zipIdx.filterMap fun s =>
              if condAgrees (conds[s.2]?.getD "") site i then some s.1 else none
            if kept.isEmpty then nd.1 else .branch kept
          | _ => nd.1 } }

def runScenario (m : List (String × String)) : String :=
  match Gen.Pipes.all.find? (·.name == look m "p") with
  | none => "error unknown-pipeline"
  | some p0 =>
    let keep := (listOf (look m "keep") ",").flatMap p0.gsByPrefix
    let p1 := (listOf (look m "pick") ";").foldl (fun p s =>
      match s.splitOn ":" with
      | [site, i] => applyPick p keep (site.replace "_" " ") (i.toNat?.getD 0)
      | _ => p) p0
    let feeds := (listOf (look m "feed") ";").map fun s =>
      match s.splitOn ":" with
      | [c, prog] => (chanRef p1 c, if prog == "-" then [] else prog.toList)
      | [c] => (chanRef p1 c, [])
      | _ => (none, [])
    let conss := (listOf (look m "cons") ";").map fun s =>
      match s.splitOn ":" with
      | [c, mode] => (chanRef p1 c, mode)
      | _ => (none, "")
    let obs := (listOf (look m "obs") ";").map (chanRef p1)
    if feeds.any (·.1.isNone) || conss.any (·.1.isNone) || obs.any Option.isNone then "error unknown-channel" else
    let rel := p1.nctx
    let gate (i : Nat) := p1.nctx + 1 + i
    let feeders := feeds.zipIdx.map fun x =>
      -- gate, then the program (shifted by one node)
      let body := feederNodes (x.1.1.getD 0) rel x.1.2
      let shifted := body.map (Node.shift 1)
      mkG ("harness.feeder" ++ toString x.2) (Node.sel [.ctx (gate x.2) 1] :: shifted)
    let consumers := conss.filterMap fun x => (consumerNodes (x.1.getD 0) x.2).map (mkG "harness.consumer")
    let ctlOps := listOf (look m "ctl") ","
    let goGate := gate feeds.length
    let gated := ctlOps.contains "go"
    let ctlCtxs := ctlOps.filterMap fun op =>
      if op == "x" then some 0 else if op == "r" then some rel else if op == "go" then some goGate
      else if op.startsWith "f" then (op.drop 1).toNat?.map gate else none
    let ctl := mkG "harness.controller" (controllerNodes ctlCtxs)
    let extra := feeders ++ consumers ++ [ctl]
    -- `go` in the script: the code under test is started by the controller
    let gateG (x : Goroutine × Nat) : Goroutine :=
      if keep.contains x.2 && !x.1.daemon && x.1.static then
        { x.1 with nodes := Node.sel [.ctx goGate 1] :: x.1.nodes.map (Node.shift 1), sites := "start" :: x.1.sites }
      else x.1
    let p1 : Pipeline := if gated then { p1 with gs := p1.gs.zipIdx.map gateG } else p1
    let p2 := p1.surgery keep extra (p1.nctx + 2 + feeds.length)
    let sc : Scenario := { p := p2, controller := some (p2.gs.length - 1),
                           watched := keep.filter (fun g => match p2.gs[g]? with | some gr => !gr.daemon | none => false),
                           observed := obs.filterMap id }
    -- pre=1: the stage is started with its context already done
    let e := if look m "pre" == "1" then sc.exploreFrom ((init sc.p).setCtx 0) else sc.explore
    (if e.truncated then "TRUNCATED " else "") ++ String.intercalate " | " e.finals

def runWf (name : String) : String :=
  match Gen.Pipes.all.find? (·.name == name) with
  | none => "error unknown-pipeline"
  | some p =>
    let v := violations p
    if v.isEmpty then "wf" else String.intercalate " " (v.map Violation.show)

def step (line : String) : String :=
  match words line with
  | "sc" :: rest => runScenario (kvs rest)
  | ["wf", name] => runWf name
  | _ => "error bad-line"

def main : IO Unit := lineLoop step

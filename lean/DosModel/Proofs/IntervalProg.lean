/-
C20 (round 2) — soundness of the interval abstract interpreter of Model/IntervalProg.lean, proved ONCE
for all programs:

  `absProg_sound`   : if the concrete environment lies in the abstract one (every variable in its interval, the
                      carry fact true) and `absProg σ p = some σ'`, then no (sub)expression of `p` leaves the int64
                      range (`SafeProg`) and the final environment lies in `σ'`;
  `evalProg64_eq`   : `SafeProg ρ p` ⇒ Go's wrapping int64 semantics and the unbounded-`Int` semantics coincide;
  the same for the phases of a scalar routine (`absLoad/absInit/absBlocks/absStore`, `runW wrap = runW id`).

Interval rules: `+ - *` by interval arithmetic (four corner products), `>> k` is floor division by 2^k (monotone),
`<< k` multiplication by 2^k, `&` of two non-negative values is bounded by both, `|` of two non-negative values has
no more bits than the larger.  Relational rule: after `c := (s + off) >> k` (s, c not overwritten since),
`s - (c << k) = (s + off) mod 2^k - off ∈ [-off, 2^k - 1 - off]`.
-/
import Mathlib.Tactic.Ring
import Mathlib.Tactic.Linarith
import Mathlib.Order.Basic
import DosModel.Model.IntervalProg

set_option exponentiation.threshold 600

namespace Dos.IntervalProg
open Dos Dos.Ed25519 List

/-! ### int64 wrap-around -/

theorem wrap_of_I64 {x : Int} (h : I64 x) : wrap x = x := by
  unfold wrap
  unfold I64 minI64 maxI64 at h
  omega

theorem Expr.eval64_eq (ρ : Env) : ∀ e : Expr, e.Safe ρ → e.evalW wrap ρ = e.evalW id ρ := by
  intro e
  induction e with
  | v i => intro _; rfl
  | c n => intro _; rfl
  | add a b iha ihb =>
    intro h; obtain ⟨h1, h2, h3⟩ := h
    show wrap (a.evalW wrap ρ + b.evalW wrap ρ) = id (a.evalW id ρ + b.evalW id ρ)
    rw [iha h1, ihb h2]; exact wrap_of_I64 h3
  | sub a b iha ihb =>
    intro h; obtain ⟨h1, h2, h3⟩ := h
    show wrap (a.evalW wrap ρ - b.evalW wrap ρ) = id (a.evalW id ρ - b.evalW id ρ)
    rw [iha h1, ihb h2]; exact wrap_of_I64 h3
  | mul a b iha ihb =>
    intro h; obtain ⟨h1, h2, h3⟩ := h
    show wrap (a.evalW wrap ρ * b.evalW wrap ρ) = id (a.evalW id ρ * b.evalW id ρ)
    rw [iha h1, ihb h2]; exact wrap_of_I64 h3
  | shr a k iha =>
    intro h; obtain ⟨h1, _⟩ := h
    show shrI (a.evalW wrap ρ) k = shrI (a.evalW id ρ) k
    rw [iha h1]
  | shl a k iha =>
    intro h; obtain ⟨h1, h3⟩ := h
    show wrap (Ed25519.shl (a.evalW wrap ρ) k) = id (Ed25519.shl (a.evalW id ρ) k)
    rw [iha h1]; exact wrap_of_I64 h3
  | band a b iha ihb =>
    intro h; obtain ⟨h1, h2, h3⟩ := h
    show wrap (Ed25519.band (a.evalW wrap ρ) (b.evalW wrap ρ)) = id (Ed25519.band (a.evalW id ρ) (b.evalW id ρ))
    rw [iha h1, ihb h2]; exact wrap_of_I64 h3
  | bor a b iha ihb =>
    intro h; obtain ⟨h1, h2, h3⟩ := h
    show wrap (Ed25519.bor (a.evalW wrap ρ) (b.evalW wrap ρ)) = id (Ed25519.bor (a.evalW id ρ) (b.evalW id ρ))
    rw [iha h1, ihb h2]; exact wrap_of_I64 h3

theorem evalProg64_eq : ∀ (p : Prog) (ρ : Env), SafeProg ρ p → evalProgW wrap ρ p = evalProgW id ρ p := by
  intro p
  induction p with
  | nil => intro ρ _; rfl
  | cons s p ih =>
    intro ρ h
    obtain ⟨h1, h2⟩ := h
    show evalProgW wrap (ρ.set s.dst (s.rhs.evalW wrap ρ)) p = evalProgW id (ρ.set s.dst (s.rhs.evalW id ρ)) p
    rw [Expr.eval64_eq ρ s.rhs h1]
    exact ih _ h2

/-! ### lists related pointwise -/

theorem forall₂_getD {α β : Type} {R : α → β → Prop} {l₁ : List α} {l₂ : List β} (h : Forall₂ R l₁ l₂)
    {d₁ : α} {d₂ : β} (hd : R d₁ d₂) : ∀ i, R (l₁.getD i d₁) (l₂.getD i d₂) := by
  induction h with
  | nil => intro i; simpa using hd
  | cons hab _ ih =>
    intro i
    cases i with
    | zero => simpa using hab
    | succ i => simpa using ih i

theorem forall₂_set {α β : Type} {R : α → β → Prop} {l₁ : List α} {l₂ : List β} (h : Forall₂ R l₁ l₂)
    {a : α} {b : β} (hab : R a b) : ∀ i, Forall₂ R (l₁.set i a) (l₂.set i b) := by
  induction h with
  | nil => intro i; simp
  | cons hxy hl ih =>
    intro i
    cases i with
    | zero => simpa using Forall₂.cons hab hl
    | succ i => simpa using Forall₂.cons hxy (ih i)

theorem forall₂_map_same {α β γ : Type} {R : α → β → Prop} (f : γ → α) (g : γ → β) (h : ∀ i, R (f i) (g i)) :
    ∀ l : List γ, Forall₂ R (l.map f) (l.map g) := by
  intro l
  induction l with
  | nil => exact Forall₂.nil
  | cons x l ih => exact Forall₂.cons (h x) ih

theorem forall₂_append' {α β : Type} {R : α → β → Prop} {l₁ : List α} {l₂ : List β} (h : Forall₂ R l₁ l₂)
    {m₁ : List α} {m₂ : List β} (hm : Forall₂ R m₁ m₂) : Forall₂ R (l₁ ++ m₁) (l₂ ++ m₂) := by
  induction h with
  | nil => simpa using hm
  | cons hab _ ih => exact Forall₂.cons hab ih

theorem forall₂_replicate {α β : Type} {R : α → β → Prop} {a : α} {b : β} (h : R a b) :
    ∀ n, Forall₂ R (List.replicate n a) (List.replicate n b) := by
  intro n
  induction n with
  | zero => exact Forall₂.nil
  | succ n ih => exact Forall₂.cons h ih

theorem forall₂_length {α β : Type} {R : α → β → Prop} {l₁ : List α} {l₂ : List β} (h : Forall₂ R l₁ l₂) :
    l₁.length = l₂.length := by
  induction h with
  | nil => rfl
  | cons _ _ ih => simp [ih]

/-- every variable lies in its interval -/
abbrev In (ρ : Env) (A : List Itv) : Prop := Forall₂ Itv.mem ρ A

theorem mem_zero : Itv.mem 0 (0, 0) := ⟨Int.le_refl _, Int.le_refl _⟩

theorem In.getD {ρ : Env} {A : List Itv} (h : In ρ A) (i : Nat) : Itv.mem (ρ.getD i 0) (A.getD i (0, 0)) :=
  forall₂_getD h mem_zero i

theorem In.slice {ρ : Env} {A : List Itv} (h : In ρ A) (off n : Nat) : In (slice off n ρ) (aslice off n A) :=
  forall₂_map_same _ _ (fun i => h.getD (off + i)) _

theorem In.enter {ρ : Env} {A : List Itv} (h : In ρ A) (n m : Nat) : In (enter n m ρ) (aenter n m A) :=
  forall₂_append' (h.slice 0 n) (forall₂_replicate mem_zero m)

/-! ### reading an updated list -/

theorem getD_set_ne {α : Type} (l : List α) (i j : Nat) (a d : α) (h : i ≠ j) :
    (l.set i a).getD j d = l.getD j d := by
  simp [List.getD, List.getElem?_set_ne h]

theorem getD_set_self {α : Type} (l : List α) (i : Nat) (a d : α) (h : i < l.length) :
    (l.set i a).getD i d = a := by
  simp [List.getD, List.getElem?_set_self h]

/-! ### the interval rules -/

theorem chk_some {i j : Itv} (h : chk i = some j) : j = i ∧ minI64 ≤ i.1 ∧ i.2 ≤ maxI64 := by
  unfold chk at h
  split at h
  · rename_i hc; exact ⟨(Option.some.inj h).symm, hc.1, hc.2⟩
  · cases h

theorem I64_of_mem {x : Int} {i : Itv} (hm : Itv.mem x i) (h1 : minI64 ≤ i.1) (h2 : i.2 ≤ maxI64) : I64 x :=
  ⟨Int.le_trans h1 hm.1, Int.le_trans hm.2 h2⟩

theorem mul_le_max (c b y1 y2 : Int) (h1 : y1 ≤ b) (h2 : b ≤ y2) : c * b ≤ max (c * y1) (c * y2) := by
  rcases Int.le_total 0 c with hc | hc
  · exact Int.le_trans (Int.mul_le_mul_of_nonneg_left h2 hc) (Int.le_max_right _ _)
  · exact Int.le_trans (Int.mul_le_mul_of_nonpos_left hc h1) (Int.le_max_left _ _)

theorem min_le_mul (c b y1 y2 : Int) (h1 : y1 ≤ b) (h2 : b ≤ y2) : min (c * y1) (c * y2) ≤ c * b := by
  rcases Int.le_total 0 c with hc | hc
  · exact Int.le_trans (Int.min_le_left _ _) (Int.mul_le_mul_of_nonneg_left h1 hc)
  · exact Int.le_trans (Int.min_le_right _ _) (Int.mul_le_mul_of_nonpos_left hc h2)

/-- the product of two values lies between the smallest and the largest corner product -/
theorem mul_corners (a b x1 x2 y1 y2 : Int) (ha1 : x1 ≤ a) (ha2 : a ≤ x2) (hb1 : y1 ≤ b) (hb2 : b ≤ y2) :
    min (min (x1 * y1) (x1 * y2)) (min (x2 * y1) (x2 * y2)) ≤ a * b
    ∧ a * b ≤ max (max (x1 * y1) (x1 * y2)) (max (x2 * y1) (x2 * y2)) := by
  constructor
  · -- a*b ≥ min (x1*b) (x2*b) ≥ …
    have h1 : min (b * x1) (b * x2) ≤ b * a := min_le_mul b a x1 x2 ha1 ha2
    have h2 : min (x1 * y1) (x1 * y2) ≤ x1 * b := min_le_mul x1 b y1 y2 hb1 hb2
    have h3 : min (x2 * y1) (x2 * y2) ≤ x2 * b := min_le_mul x2 b y1 y2 hb1 hb2
    rw [Int.mul_comm b a, Int.mul_comm b x1, Int.mul_comm b x2] at h1
    have h4 : min (min (x1 * y1) (x1 * y2)) (min (x2 * y1) (x2 * y2)) ≤ min (x1 * b) (x2 * b) :=
      le_min (Int.le_trans (Int.min_le_left _ _) h2) (Int.le_trans (Int.min_le_right _ _) h3)
    exact Int.le_trans h4 h1
  · have h1 : b * a ≤ max (b * x1) (b * x2) := mul_le_max b a x1 x2 ha1 ha2
    have h2 : x1 * b ≤ max (x1 * y1) (x1 * y2) := mul_le_max x1 b y1 y2 hb1 hb2
    have h3 : x2 * b ≤ max (x2 * y1) (x2 * y2) := mul_le_max x2 b y1 y2 hb1 hb2
    rw [Int.mul_comm b a, Int.mul_comm b x1, Int.mul_comm b x2] at h1
    have h4 : max (x1 * b) (x2 * b) ≤ max (max (x1 * y1) (x1 * y2)) (max (x2 * y1) (x2 * y2)) :=
      max_le (Int.le_trans h2 (Int.le_max_left _ _)) (Int.le_trans h3 (Int.le_max_right _ _))
    exact Int.le_trans h1 h4

theorem shrI_mono (a b : Int) (k : Nat) (h : a ≤ b) : shrI a k ≤ shrI b k := by
  have e : ∀ x : Int, shrI x k = x / 2 ^ k := fun x => Int.shiftRight_eq_div_pow x k
  rw [e, e]
  exact Int.ediv_le_ediv (Int.pow_pos (by decide) : (0 : Int) < 2 ^ k) h

theorem shl_mono (a b : Int) (k : Nat) (h : a ≤ b) : Ed25519.shl a k ≤ Ed25519.shl b k := by
  unfold Ed25519.shl
  exact Int.mul_le_mul_of_nonneg_right h (Int.le_of_lt (Int.pow_pos (by decide)))

theorem u64_nonneg (x : Int) (h0 : 0 ≤ x) (h : x ≤ maxI64) : u64 x = x.toNat := by
  unfold u64
  unfold maxI64 at h
  rw [Int.emod_eq_of_lt h0 (by omega)]

theorem band_bounds (a b : Int) (ha0 : 0 ≤ a) (ha : a ≤ maxI64) (hb0 : 0 ≤ b) (hb : b ≤ maxI64) :
    0 ≤ Ed25519.band a b ∧ Ed25519.band a b ≤ a ∧ Ed25519.band a b ≤ b := by
  unfold Ed25519.band
  rw [u64_nonneg a ha0 ha, u64_nonneg b hb0 hb]
  obtain ⟨m, rfl⟩ := Int.eq_ofNat_of_zero_le ha0
  obtain ⟨n, rfl⟩ := Int.eq_ofNat_of_zero_le hb0
  simp only [Int.toNat_natCast, Int.ofNat_eq_natCast]
  refine ⟨Int.natCast_nonneg _, ?_, ?_⟩
  · exact_mod_cast Nat.and_le_left
  · exact_mod_cast Nat.and_le_right

theorem bor_bounds (a b m : Int) (ha0 : 0 ≤ a) (ha : a ≤ maxI64) (hb0 : 0 ≤ b) (hb : b ≤ maxI64)
    (ham : a ≤ m) (hbm : b ≤ m) : 0 ≤ Ed25519.bor a b ∧ Ed25519.bor a b ≤ 2 ^ bitlen m - 1 := by
  unfold Ed25519.bor
  rw [u64_nonneg a ha0 ha, u64_nonneg b hb0 hb]
  obtain ⟨x, rfl⟩ := Int.eq_ofNat_of_zero_le ha0
  obtain ⟨y, rfl⟩ := Int.eq_ofNat_of_zero_le hb0
  have hm0 : 0 ≤ m := Int.le_trans ha0 ham
  obtain ⟨z, rfl⟩ := Int.eq_ofNat_of_zero_le hm0
  simp only [Int.toNat_natCast, Int.ofNat_eq_natCast, bitlen]
  refine ⟨Int.natCast_nonneg _, ?_⟩
  have hx : x ≤ z := by exact_mod_cast ham
  have hy : y ≤ z := by exact_mod_cast hbm
  have hz : z < 2 ^ (z.log2 + 1) := Nat.lt_log2_self
  have h := Nat.or_lt_two_pow (Nat.lt_of_le_of_lt hx hz) (Nat.lt_of_le_of_lt hy hz)
  have h' : ((x ||| y : Nat) : Int) < ((2 ^ (z.log2 + 1) : Nat) : Int) := by exact_mod_cast h
  rw [Nat.cast_pow] at h'
  have : ((2 : Nat) : Int) = 2 := rfl
  rw [this] at h'
  omega

/-- **soundness of the abstract evaluation of an expression** -/
theorem absExpr_sound {ρ : Env} {A : List Itv} (h : In ρ A) :
    ∀ (e : Expr) (i : Itv), absExpr A e = some i →
      e.Safe ρ ∧ Itv.mem (e.eval ρ) i ∧ minI64 ≤ i.1 ∧ i.2 ≤ maxI64 := by
  intro e
  induction e with
  | v n =>
    intro i hi
    obtain ⟨rfl, h1, h2⟩ := chk_some hi
    have hm := h.getD n
    exact ⟨I64_of_mem hm h1 h2, hm, h1, h2⟩
  | c n =>
    intro i hi
    obtain ⟨rfl, h1, h2⟩ := chk_some hi
    have hm : Itv.mem n (n, n) := ⟨Int.le_refl _, Int.le_refl _⟩
    exact ⟨I64_of_mem hm h1 h2, hm, h1, h2⟩
  | add a b iha ihb =>
    intro i hi
    simp only [absExpr] at hi
    cases hxa : absExpr A a with
    | none => simp [hxa] at hi
    | some x =>
      cases hxb : absExpr A b with
      | none => simp [hxa, hxb] at hi
      | some y =>
        simp only [hxa, hxb] at hi
        obtain ⟨rfl, h1, h2⟩ := chk_some hi
        obtain ⟨sa, ma, _, _⟩ := iha x hxa
        obtain ⟨sb, mb, _, _⟩ := ihb y hxb
        have hm : Itv.mem (a.eval ρ + b.eval ρ) (x.1 + y.1, x.2 + y.2) :=
          ⟨Int.add_le_add ma.1 mb.1, Int.add_le_add ma.2 mb.2⟩
        exact ⟨⟨sa, sb, I64_of_mem hm h1 h2⟩, hm, h1, h2⟩
  | sub a b iha ihb =>
    intro i hi
    simp only [absExpr] at hi
    cases hxa : absExpr A a with
    | none => simp [hxa] at hi
    | some x =>
      cases hxb : absExpr A b with
      | none => simp [hxa, hxb] at hi
      | some y =>
        simp only [hxa, hxb] at hi
        obtain ⟨rfl, h1, h2⟩ := chk_some hi
        obtain ⟨sa, ma, _, _⟩ := iha x hxa
        obtain ⟨sb, mb, _, _⟩ := ihb y hxb
        have hm : Itv.mem (a.eval ρ - b.eval ρ) (x.1 - y.2, x.2 - y.1) :=
          ⟨Int.sub_le_sub ma.1 mb.2, Int.sub_le_sub ma.2 mb.1⟩
        exact ⟨⟨sa, sb, I64_of_mem hm h1 h2⟩, hm, h1, h2⟩
  | mul a b iha ihb =>
    intro i hi
    simp only [absExpr] at hi
    cases hxa : absExpr A a with
    | none => simp [hxa] at hi
    | some x =>
      cases hxb : absExpr A b with
      | none => simp [hxa, hxb] at hi
      | some y =>
        simp only [hxa, hxb] at hi
        obtain ⟨rfl, h1, h2⟩ := chk_some hi
        obtain ⟨sa, ma, _, _⟩ := iha x hxa
        obtain ⟨sb, mb, _, _⟩ := ihb y hxb
        have hm : Itv.mem (a.eval ρ * b.eval ρ)
            (min (min (x.1 * y.1) (x.1 * y.2)) (min (x.2 * y.1) (x.2 * y.2)),
             max (max (x.1 * y.1) (x.1 * y.2)) (max (x.2 * y.1) (x.2 * y.2))) :=
          mul_corners (a.eval ρ) (b.eval ρ) x.1 x.2 y.1 y.2 ma.1 ma.2 mb.1 mb.2
        exact ⟨⟨sa, sb, I64_of_mem hm h1 h2⟩, hm, h1, h2⟩
  | shr a k iha =>
    intro i hi
    simp only [absExpr] at hi
    cases hxa : absExpr A a with
    | none => simp [hxa] at hi
    | some x =>
      simp only [hxa] at hi
      obtain ⟨rfl, h1, h2⟩ := chk_some hi
      obtain ⟨sa, ma, _, _⟩ := iha x hxa
      have hm : Itv.mem (shrI (a.eval ρ) k) (shrI x.1 k, shrI x.2 k) :=
        ⟨shrI_mono _ _ k ma.1, shrI_mono _ _ k ma.2⟩
      exact ⟨⟨sa, I64_of_mem hm h1 h2⟩, hm, h1, h2⟩
  | shl a k iha =>
    intro i hi
    simp only [absExpr] at hi
    cases hxa : absExpr A a with
    | none => simp [hxa] at hi
    | some x =>
      simp only [hxa] at hi
      obtain ⟨rfl, h1, h2⟩ := chk_some hi
      obtain ⟨sa, ma, _, _⟩ := iha x hxa
      have hm : Itv.mem (Ed25519.shl (a.eval ρ) k) (Ed25519.shl x.1 k, Ed25519.shl x.2 k) :=
        ⟨shl_mono _ _ k ma.1, shl_mono _ _ k ma.2⟩
      exact ⟨⟨sa, I64_of_mem hm h1 h2⟩, hm, h1, h2⟩
  | band a b iha ihb =>
    intro i hi
    simp only [absExpr] at hi
    cases hxa : absExpr A a with
    | none => simp [hxa] at hi
    | some x =>
      cases hxb : absExpr A b with
      | none => simp [hxa, hxb] at hi
      | some y =>
        simp only [hxa, hxb] at hi
        split at hi
        · rename_i hc
          obtain ⟨rfl, h1, h2⟩ := chk_some hi
          obtain ⟨sa, ma, _, xa2⟩ := iha x hxa
          obtain ⟨sb, mb, _, yb2⟩ := ihb y hxb
          have ha0 := Int.le_trans hc.1 ma.1
          have hb0 := Int.le_trans hc.2 mb.1
          obtain ⟨g0, g1, g2⟩ := band_bounds (a.eval ρ) (b.eval ρ) ha0 (Int.le_trans ma.2 xa2) hb0 (Int.le_trans mb.2 yb2)
          have hm : Itv.mem (Ed25519.band (a.eval ρ) (b.eval ρ)) (0, min x.2 y.2) :=
            ⟨g0, le_min (Int.le_trans g1 ma.2) (Int.le_trans g2 mb.2)⟩
          exact ⟨⟨sa, sb, I64_of_mem hm h1 h2⟩, hm, h1, h2⟩
        · cases hi
  | bor a b iha ihb =>
    intro i hi
    simp only [absExpr] at hi
    cases hxa : absExpr A a with
    | none => simp [hxa] at hi
    | some x =>
      cases hxb : absExpr A b with
      | none => simp [hxa, hxb] at hi
      | some y =>
        simp only [hxa, hxb] at hi
        split at hi
        · rename_i hc
          obtain ⟨rfl, h1, h2⟩ := chk_some hi
          obtain ⟨sa, ma, _, xa2⟩ := iha x hxa
          obtain ⟨sb, mb, _, yb2⟩ := ihb y hxb
          have ha0 := Int.le_trans hc.1 ma.1
          have hb0 := Int.le_trans hc.2 mb.1
          obtain ⟨g0, g1⟩ := bor_bounds (a.eval ρ) (b.eval ρ) (max x.2 y.2) ha0 (Int.le_trans ma.2 xa2) hb0
            (Int.le_trans mb.2 yb2) (Int.le_trans ma.2 (Int.le_max_left _ _)) (Int.le_trans mb.2 (Int.le_max_right _ _))
          have hm : Itv.mem (Ed25519.bor (a.eval ρ) (b.eval ρ)) (0, 2 ^ bitlen (max x.2 y.2) - 1) := ⟨g0, g1⟩
          exact ⟨⟨sa, sb, I64_of_mem hm h1 h2⟩, hm, h1, h2⟩
        · cases hi

/-! ### the carry fact -/

theorem constVal_sound {e : Expr} {n : Int} (h : constVal e = some n) (ρ : Env) : e.eval ρ = n := by
  unfold constVal at h
  split at h
  · exact Option.some.inj h
  · exact Option.some.inj h
  · cases h

theorem newFact_sound {dst : Nat} {e : Expr} {f : Fact} (h : newFact dst e = some f) :
    f.cv = dst ∧ f.sv ≠ dst ∧ ∀ ρ : Env, e.eval ρ = shrI (ρ.getD f.sv 0 + f.off) f.k := by
  unfold newFact at h
  split at h
  · rename_i x k
    split at h
    · cases h
    · rename_i hne
      cases Option.some.inj h
      refine ⟨rfl, hne, fun ρ => ?_⟩
      show shrI (ρ.getD x 0) k = shrI (ρ.getD x 0 + 0) k
      rw [Int.add_zero]
  · rename_i x e' k
    split at h
    · rename_i off hoff
      split at h
      · cases h
      · rename_i hne
        cases Option.some.inj h
        refine ⟨rfl, hne, fun ρ => ?_⟩
        show shrI (id (ρ.getD x 0 + e'.evalW id ρ)) k = shrI (ρ.getD x 0 + off) k
        have := constVal_sound hoff ρ
        simp only [Expr.eval] at this
        rw [this]; rfl
    · cases h
  · cases h

/-- `s - ((s + off) >> k << k) = (s + off) mod 2^k - off` -/
theorem sub_carry_bounds (s off : Int) (k : Nat) :
    -off ≤ s - Ed25519.shl (shrI (s + off) k) k ∧ s - Ed25519.shl (shrI (s + off) k) k ≤ 2 ^ k - 1 - off := by
  have e : shrI (s + off) k = (s + off) / 2 ^ k := Int.shiftRight_eq_div_pow _ k
  rw [e]
  unfold Ed25519.shl
  have hp : (0 : Int) < 2 ^ k := Int.pow_pos (by decide)
  have h1 := Int.emod_nonneg (s + off) (Int.ne_of_gt hp)
  have h2 := Int.emod_lt_of_pos (s + off) hp
  have h3 := Int.emod_def (s + off) (2 ^ k)
  rw [Int.mul_comm] at h3
  generalize (s + off) / 2 ^ k * 2 ^ k = q at *
  generalize (s + off) % 2 ^ k = r at *
  generalize (2 : Int) ^ k = m at *
  omega

theorem refine_sound {ρ : Env} {fact : Option Fact} (hf : ∀ f, fact = some f → f.holds ρ)
    (e : Expr) (i : Itv) (hm : Itv.mem (e.eval ρ) i) : Itv.mem (e.eval ρ) (refine fact e i) := by
  unfold refine
  split
  · rename_i f x y k
    split
    · rename_i hc
      obtain ⟨rfl, rfl, rfl⟩ := hc
      have hh : ρ.getD f.cv 0 = shrI (ρ.getD f.sv 0 + f.off) f.k := hf f rfl
      have hv : (Expr.sub (.v f.sv) (.shl (.v f.cv) f.k)).eval ρ
          = ρ.getD f.sv 0 - Ed25519.shl (shrI (ρ.getD f.sv 0 + f.off) f.k) f.k := by
        show id (ρ.getD f.sv 0 - id (Ed25519.shl (ρ.getD f.cv 0) f.k)) = _
        rw [hh]; rfl
      have hb := sub_carry_bounds (ρ.getD f.sv 0) f.off f.k
      rw [← hv] at hb
      exact ⟨max_le hm.1 hb.1, le_min hm.2 hb.2⟩
    · exact hm
  · exact hm

/-- concrete environment ∈ abstract state -/
def Sound (ρ : Env) (σ : AState) : Prop := In ρ σ.itv ∧ ∀ f, σ.fact = some f → f.holds ρ

theorem stepFact_sound {ρ : Env} {fact : Option Fact} (hf : ∀ f, fact = some f → f.holds ρ)
    (s : Stmt) (hd : s.dst < ρ.length) :
    ∀ f, stepFact fact s = some f → f.holds (ρ.set s.dst (s.rhs.eval ρ)) := by
  intro f hs
  unfold stepFact at hs
  split at hs
  · rename_i g hg
    cases Option.some.inj hs
    obtain ⟨h1, h2, h3⟩ := newFact_sound hg
    unfold Fact.holds
    rw [h1, getD_set_self _ _ _ _ hd, getD_set_ne _ _ _ _ _ (Ne.symm h2)]
    exact h3 ρ
  · split at hs
    · rename_i g
      split at hs
      · cases hs
      · rename_i hne
        cases Option.some.inj hs
        have hg := hf f rfl
        unfold Fact.holds at *
        have n1 : s.dst ≠ f.cv := fun h => hne (Or.inl h)
        have n2 : s.dst ≠ f.sv := fun h => hne (Or.inr h)
        rw [getD_set_ne _ _ _ _ _ n1, getD_set_ne _ _ _ _ _ n2]
        exact hg
    · cases hs

/-- **soundness of one abstract step** -/
theorem absStmt_sound {ρ : Env} {σ σ' : AState} (h : Sound ρ σ) (s : Stmt) (hs : absStmt σ s = some σ') :
    s.rhs.Safe ρ ∧ Sound (ρ.set s.dst (s.rhs.eval ρ)) σ' := by
  unfold absStmt at hs
  split at hs
  · rename_i hlt
    split at hs
    · rename_i i hi
      cases Option.some.inj hs
      obtain ⟨hsafe, hm, _, _⟩ := absExpr_sound h.1 s.rhs i hi
      have hlen : s.dst < ρ.length := by rw [forall₂_length h.1]; exact hlt
      exact ⟨hsafe, forall₂_set h.1 (refine_sound h.2 s.rhs i hm) s.dst, stepFact_sound h.2 s hlen⟩
    · cases hs
  · cases hs

/-- **soundness of the abstract interpreter** -/
theorem absProg_sound : ∀ (p : Prog) {ρ : Env} {σ σ' : AState}, Sound ρ σ → absProg σ p = some σ' →
    SafeProg ρ p ∧ Sound (evalProg ρ p) σ' := by
  intro p
  induction p with
  | nil =>
    intro ρ σ σ' h hp
    cases Option.some.inj hp
    exact ⟨trivial, h⟩
  | cons s p ih =>
    intro ρ σ σ' h hp
    simp only [absProg] at hp
    cases hs : absStmt σ s with
    | none => simp [hs] at hp
    | some σ₁ =>
      simp only [hs] at hp
      obtain ⟨h1, h2⟩ := absStmt_sound h s hs
      obtain ⟨h3, h4⟩ := ih h2 hp
      exact ⟨⟨h1, h3⟩, h4⟩

theorem sound_init {ρ : Env} {A : List Itv} (h : In ρ A) : Sound ρ ⟨A, none⟩ :=
  ⟨h, fun _ hf => by cases hf⟩

/-! ### phases -/

open ScProg

theorem absBlock_sound {nC : Nat} {b : Prog} {ρ : Env} {A A' : List Itv} (h : In ρ A)
    (hb : absBlock nC b A = some A') : SafeProg (enter 24 nC ρ) b ∧ In (blockW id nC b ρ) A' := by
  unfold absBlock at hb
  split at hb
  · rename_i σ hσ
    cases Option.some.inj hb
    obtain ⟨h1, h2⟩ := absProg_sound b (sound_init (h.enter 24 nC)) hσ
    exact ⟨h1, h2.1⟩
  · cases hb

theorem absBlocks_sound {nC : Nat} : ∀ (bs : List Prog) {ρ : Env} {A A' : List Itv}, In ρ A →
    absBlocks nC bs A = some A' → SafeBlocks nC bs ρ ∧ In (blocksW id nC bs ρ) A' := by
  intro bs
  induction bs with
  | nil =>
    intro ρ A A' h hb
    cases Option.some.inj hb
    exact ⟨trivial, h⟩
  | cons b bs ih =>
    intro ρ A A' h hb
    simp only [absBlocks] at hb
    cases h1 : absBlock nC b A with
    | none => simp [h1] at hb
    | some A₁ =>
      simp only [h1] at hb
      obtain ⟨s1, i1⟩ := absBlock_sound h h1
      obtain ⟨s2, i2⟩ := ih i1 hb
      exact ⟨⟨s1, s2⟩, i2⟩

theorem blocksW_append (w : Int → Int) (nC : Nat) (bs cs : List Prog) (ρ : Env) :
    blocksW w nC (bs ++ cs) ρ = blocksW w nC cs (blocksW w nC bs ρ) := by
  simp [blocksW, List.foldl_append]

theorem safeBlocks_append {nC : Nat} : ∀ (bs cs : List Prog) (ρ : Env),
    SafeBlocks nC (bs ++ cs) ρ ↔ SafeBlocks nC bs ρ ∧ SafeBlocks nC cs (blocksW id nC bs ρ) := by
  intro bs
  induction bs with
  | nil => intro cs ρ; simp [SafeBlocks, blocksW]
  | cons b bs ih =>
    intro cs ρ
    simp only [List.cons_append, SafeBlocks, ih, and_assoc]
    rfl

theorem absInit_sound {p : ScProg} {lv : Env} {L I : List Itv} (h : In lv L) (hi : absInit p L = some I) :
    SafeProg (enter p.nLoad p.nInit lv) p.init ∧ In (initW id p lv) I := by
  unfold absInit at hi
  split at hi
  · rename_i σ hσ
    cases Option.some.inj hi
    obtain ⟨h1, h2⟩ := absProg_sound p.init (sound_init (h.enter p.nLoad p.nInit)) hσ
    exact ⟨h1, forall₂_map_same _ _ (fun j => h2.1.getD j) _⟩
  · cases hi

theorem absLoad_sound {p : ScProg} {raws : Env} {R L : List Itv} (h : In raws R) (hl : absLoad p R = some L) :
    SafeProg (enter p.raw.length p.nLoad raws) p.loads ∧ In (loadW id p raws) L := by
  unfold absLoad at hl
  split at hl
  · rename_i σ hσ
    cases Option.some.inj hl
    obtain ⟨h1, h2⟩ := absProg_sound p.loads (sound_init (h.enter p.raw.length p.nLoad)) hσ
    exact ⟨h1, h2.1.slice _ _⟩
  · cases hl

theorem absStore_sound {p : ScProg} {ρ : Env} {A : List Itv} (h : In ρ A) (hs : absStore p A = true) :
    ∀ e ∈ p.store, e.Safe (slice 0 24 ρ) := by
  intro e he
  unfold absStore at hs
  rw [List.all_eq_true] at hs
  have := hs e he
  cases hx : absExpr (aslice 0 24 A) e with
  | none => simp [hx] at this
  | some i => exact (absExpr_sound (h.slice 0 24) e i hx).1

/-- `absLimbs`: from intervals of the load variables to intervals of the final limbs, init and blocks overflow-free -/
theorem absLimbs_sound {p : ScProg} {lv : Env} {L F : List Itv} (h : In lv L) (hl : absLimbs p L = some F) :
    SafeProg (enter p.nLoad p.nInit lv) p.init ∧ SafeBlocks p.nCarry p.blocks (initW id p lv)
    ∧ In (limbsW id p lv) F := by
  unfold absLimbs at hl
  split at hl
  · rename_i I hI
    obtain ⟨s1, i1⟩ := absInit_sound h hI
    obtain ⟨s2, i2⟩ := absBlocks_sound p.blocks i1 hl
    exact ⟨s1, s2, i2⟩
  · cases hl

/-! ### raw loads -/

theorem load3_bounds (b : Bytes) (h : 3 ≤ b.length) : Itv.mem (load3 b) (0, 16777215) := by
  rcases b with _ | ⟨b0, _ | ⟨b1, _ | ⟨b2, t⟩⟩⟩
  · simp at h
  · simp at h
  · simp at h
  · have h0 := b0.toNat_lt
    have h1 := b1.toNat_lt
    have h2 := b2.toNat_lt
    simp only [load3, Itv.mem, Int.ofNat_eq_natCast]
    omega

theorem load4_bounds (b : Bytes) (h : 4 ≤ b.length) : Itv.mem (load4 b) (0, 4294967295) := by
  rcases b with _ | ⟨b0, _ | ⟨b1, _ | ⟨b2, _ | ⟨b3, t⟩⟩⟩⟩
  · simp at h
  · simp at h
  · simp at h
  · simp at h
  · have h0 := b0.toNat_lt
    have h1 := b1.toNat_lt
    have h2 := b2.toNat_lt
    have h3 := b3.toNat_lt
    simp only [load4, Itv.mem, Int.ofNat_eq_natCast]
    omega

theorem rawItv_sound (arrs : List Bytes) (r : Nat × Nat × Nat) (i : Itv)
    (h : rawItv (arrs.map List.length) r = some i) : Itv.mem (rawVal arrs r) i := by
  have hlen : (arrs.map List.length).getD r.2.1 0 = (arrs.getD r.2.1 []).length := by
    simp [List.getD, List.getElem?_map]
    cases arrs[r.2.1]? <;> simp
  unfold rawItv at h
  rw [hlen] at h
  unfold rawVal
  split at h
  · rename_i hc
    cases Option.some.inj h
    rw [if_pos hc.1]
    apply load3_bounds
    simp only [sl, List.length_drop]
    omega
  · split at h
    · rename_i hn hc
      cases Option.some.inj h
      have : ¬ r.1 = 3 := by omega
      rw [if_neg this]
      apply load4_bounds
      simp only [sl, List.length_drop]
      omega
    · cases h

theorem rawItvs_sound (arrs : List Bytes) : ∀ (rs : List (Nat × Nat × Nat)) (R : List Itv),
    rawItvs (arrs.map List.length) rs = some R → In (rs.map (rawVal arrs)) R := by
  intro rs
  induction rs with
  | nil =>
    intro R h
    cases Option.some.inj h
    exact Forall₂.nil
  | cons r rs ih =>
    intro R h
    simp only [rawItvs] at h
    cases h1 : rawItv (arrs.map List.length) r with
    | none => simp [h1] at h
    | some i =>
      cases h2 : rawItvs (arrs.map List.length) rs with
      | none => simp [h1, h2] at h
      | some is =>
        simp only [h1, h2] at h
        cases Option.some.inj h
        exact Forall₂.cons (rawItv_sound arrs r i h1) (ih is h2)

theorem absLoadsOf_sound {p : ScProg} (arrs : List Bytes) {L : List Itv}
    (h : absLoadsOf p (arrs.map List.length) = some L) :
    SafeProg (enter p.raw.length p.nLoad (p.rawVals arrs)) p.loads ∧ In (loadW id p (p.rawVals arrs)) L := by
  unfold absLoadsOf at h
  split at h
  · rename_i R hR
    exact absLoad_sound (rawItvs_sound arrs p.raw R hR) h
  · cases h

/-! ### the wrapping semantics of the phases -/

theorem blocksW_wrap_eq {nC : Nat} : ∀ (bs : List Prog) (ρ : Env), SafeBlocks nC bs ρ →
    blocksW wrap nC bs ρ = blocksW id nC bs ρ := by
  intro bs
  induction bs with
  | nil => intro ρ _; rfl
  | cons b bs ih =>
    intro ρ h
    obtain ⟨h1, h2⟩ := h
    show blocksW wrap nC bs (blockW wrap nC b ρ) = blocksW id nC bs (blockW id nC b ρ)
    have e : blockW wrap nC b ρ = blockW id nC b ρ := evalProg64_eq b _ h1
    rw [e]
    exact ih _ h2

theorem limbsW_wrap_eq {p : ScProg} {lv : Env} (h : p.SafeLimbs lv) : limbsW wrap p lv = limbsW id p lv := by
  obtain ⟨h1, h2, _⟩ := h
  unfold limbsW
  have e : initW wrap p lv = initW id p lv := by
    unfold initW
    rw [evalProg64_eq p.init _ h1]
  rw [e]
  exact blocksW_wrap_eq _ _ h2

theorem storeW_wrap_eq {p : ScProg} {ρ : Env} (h : ∀ e ∈ p.store, e.Safe (slice 0 24 ρ)) :
    storeW wrap p ρ = storeW id p ρ := by
  unfold storeW
  apply List.map_congr_left
  intro e he
  rw [Expr.eval64_eq _ e (h e he)]

/-- **no overflow ⇒ Go's wrapping int64 run is the unbounded-`Int` run**, on byte arrays -/
theorem runW_wrap_eq {p : ScProg} {arrs : List Bytes} (h : p.SafeFrom (p.rawVals arrs)) :
    p.runW wrap arrs = p.runW id arrs := by
  obtain ⟨h1, h2, h3, h4⟩ := h
  unfold runW
  have e : loadW wrap p (p.rawVals arrs) = loadW id p (p.rawVals arrs) := by
    unfold loadW
    rw [evalProg64_eq p.loads _ h1]
  rw [e, limbsW_wrap_eq ⟨h2, h3, h4⟩, storeW_wrap_eq h4]

end Dos.IntervalProg

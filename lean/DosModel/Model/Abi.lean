/-
Solidity contract ABI (v2 head/tail encoding) as go-ethereum v1.10.9 `accounts/abi` packs and unpacks it,
for exactly the types that occur in the methods the node sends and the events it watches
(onchain/dosproxy, onchain/commitreveal):

    uint256 uint8 address bool bytes32            one 32-byte word            `Elem`
    uint256[2] uint256[4]                         static arrays of words      `sarray`
    address[]                                     dynamic array of words      `darray`
    bytes string                                  length-prefixed, padded     `bytes`, `string`

`encodeArgs` is `abi.Arguments.Pack` (pack.go, argument.go), `decodeArgs` is `abi.Arguments.UnpackValues`
(unpack.go `toGoType`, `lengthPrefixPointsTo`, `forEachUnpack`) with every Go slice expression modelled
by `slice` (out of range = `panic`), `decodeLog` is `bind.BoundContract.UnpackLog` + `abi.ParseTopics`,
`callData` is `abi.ABI.Pack` (4-byte selector ++ arguments).

The decoder is NOT the inverse of the encoder only: it accepts non-canonical inputs, exactly these
(read off the code, confirmed by experiment through the real subscription path):
  * uint8/16/32/64 : only the low bytes of the word are read, the rest is ignored;
  * address        : only the low 20 bytes are read;
  * bytesN         : only the first N bytes are read;
  * bool           : strict (31 zero bytes, then 0 or 1);
  * uint256        : the whole word;
  * offsets of dynamic values may point anywhere inside the data (overlapping, unordered, into the head);
  * padding after `bytes`/`string` contents and anything after the last tail is never looked at.
Core Lean only.
-/
import DosModel.Model.Util

namespace Dos.Abi
open Dos

/-! ### types and values -/

/-- types encoded in one 32-byte word -/
inductive Elem where
  | uint (bits : Nat)
  | address
  | bool
  | fixedBytes (n : Nat)
  deriving DecidableEq, Repr, Inhabited

inductive AbiType where
  | elem (e : Elem)
  | sarray (e : Elem) (n : Nat)      -- `T[n]`, `T` a word type: `n` words in place
  | darray (e : Elem)                -- `T[]`
  | bytes
  | string
  deriving DecidableEq, Repr, Inhabited

/-- value of a word type: numbers (uint, address as a 160-bit number, bool as 0/1) or `bytesN` contents -/
inductive EVal where
  | num (n : Nat)
  | fixed (bs : Bytes)
  deriving DecidableEq, Repr, Inhabited

inductive AbiVal where
  | elem (v : EVal)
  | arr (l : List EVal)
  | blob (bs : Bytes)                -- `bytes` / `string` contents
  deriving DecidableEq, Repr, Inhabited

/-- the word types go-ethereum decodes to a value of the type's own range (`ReadInteger` reduces 8/16/32/64-bit
integers to their low bytes and reads every other width as the whole word: only `uint256` is then in range) -/
def Elem.wf : Elem → Bool
  | .uint b => b == 8 || b == 16 || b == 32 || b == 64 || b == 256
  | .address => true
  | .bool => true
  | .fixedBytes n => 1 ≤ n && n ≤ 32

def AbiType.wf : AbiType → Bool
  | .elem e => e.wf
  | .sarray e n => e.wf && 0 < n
  | .darray e => e.wf
  | .bytes => true
  | .string => true

/-- well-typed word value: in the range of its type -/
def EVal.wt : Elem → EVal → Bool
  | .uint b, .num n => n < 2 ^ b
  | .address, .num n => n < 2 ^ 160
  | .bool, .num n => n < 2
  | .fixedBytes k, .fixed bs => bs.length == k
  | _, _ => false

def AbiVal.wt : AbiType → AbiVal → Bool
  | .elem e, .elem v => v.wt e
  | .sarray e n, .arr l => l.length == n && l.all (EVal.wt e)
  | .darray e, .arr l => l.all (EVal.wt e)
  | .bytes, .blob _ => true
  | .string, .blob _ => true
  | _, _ => false

/-- argument list well-typed for a type list (same length, pointwise) -/
def wtArgs : List AbiType → List AbiVal → Bool
  | [], [] => true
  | t :: ts, v :: vs => v.wt t && wtArgs ts vs
  | _, _ => false

def tysWf (tys : List AbiType) : Bool := tys.all AbiType.wf

def AbiType.isDynamic : AbiType → Bool
  | .darray _ => true
  | .bytes => true
  | .string => true
  | _ => false

/-- `getTypeSize`: bytes a value of the type occupies in the head -/
def AbiType.headSize : AbiType → Nat
  | .sarray _ n => 32 * n
  | _ => 32

def headLen (tys : List AbiType) : Nat := (tys.map AbiType.headSize).sum

/-! ### encoding (`Arguments.Pack`) -/

/-- one word: `packNum` → `math.U256Bytes` (the low 256 bits, big-endian) for numbers, `RightPadBytes(…, 32)` for `bytesN` -/
def encEVal : EVal → Bytes
  | .num v => natBE 32 v
  | .fixed bs => bs ++ List.replicate (32 - bs.length) 0

def zeros (n : Nat) : Bytes := List.replicate n 0

/-- `RightPadBytes(bs, (len+31)/32*32)` -/
def pad32 (bs : Bytes) : Bytes := bs ++ zeros ((bs.length + 31) / 32 * 32 - bs.length)

def encWords (l : List EVal) : Bytes := (l.map encEVal).flatten

/-- in-place encoding of a static value -/
def encStatic : AbiVal → Bytes
  | .elem v => encEVal v
  | .arr l => encWords l
  | .blob _ => []

/-- tail of a dynamic value: length word, then contents -/
def encTail : AbiVal → Bytes
  | .blob bs => natBE 32 bs.length ++ pad32 bs
  | .arr l => natBE 32 l.length ++ encWords l
  | .elem _ => []

/-- heads and tails of an argument list; `off` is where the next tail will start (`inputOffset`) -/
def encGo : Nat → List AbiType → List AbiVal → Bytes × Bytes
  | off, t :: ts, v :: vs =>
    if t.isDynamic then
      let tl := encTail v
      let r := encGo (off + tl.length) ts vs
      (natBE 32 off ++ r.1, tl ++ r.2)
    else
      let r := encGo off ts vs
      (encStatic v ++ r.1, r.2)
  | _, _, _ => ([], [])

/-- the bytes `Arguments.Pack` produces for values of the right shape -/
def encodeRaw (tys : List AbiType) (vs : List AbiVal) : Bytes :=
  let r := encGo (headLen tys) tys vs
  r.1 ++ r.2

/-- `Arguments.Pack`: `none` = the error go-ethereum returns for a wrong number / kind of arguments
(cannot happen behind the typed bindings) -/
def encodeArgs (tys : List AbiType) (vs : List AbiVal) : Option Bytes :=
  if wtArgs tys vs then some (encodeRaw tys vs) else none

/-- offset of argument `i`'s head slot -/
def headOffset (tys : List AbiType) (i : Nat) : Nat := headLen (tys.take i)

/-! ### decoding (`Arguments.UnpackValues`) -/

inductive DErr where
  | err                       -- go-ethereum returns an error
  | panic (site : String)     -- a Go run-time panic (slice bounds / index out of range)
  deriving DecidableEq, Repr

abbrev Dec := Except DErr

instance {α : Type} [DecidableEq α] : DecidableEq (Dec α)
  | .ok a, .ok b => if h : a = b then isTrue (by rw [h]) else isFalse (by intro h'; cases h'; exact h rfl)
  | .error a, .error b => if h : a = b then isTrue (by rw [h]) else isFalse (by intro h'; cases h'; exact h rfl)
  | .ok _, .error _ => isFalse (by intro h; cases h)
  | .error _, .ok _ => isFalse (by intro h; cases h)

/-- Go `bs[a:b]` -/
def slice (site : String) (bs : Bytes) (a b : Nat) : Dec Bytes :=
  if a ≤ b ∧ b ≤ bs.length then .ok ((bs.drop a).take (b - a)) else .error (.panic site)

/-- entry of `toGoType`: `if index+32 > len(output) { error }`, then `output[index : index+32]` -/
def wordAt (bs : Bytes) (i : Nat) : Dec Bytes :=
  if i + 32 > bs.length then .error .err else slice "toGoType:output[index:index+32]" bs i (i + 32)

/-- `ReadInteger` / `readBool` / `BytesToAddress` / `ReadFixedBytes` on one word -/
def decElem (e : Elem) (w : Bytes) : Dec EVal :=
  match e with
  | .uint b =>
    if b == 8 || b == 16 || b == 32 || b == 64 then .ok (.num (beNat w % 2 ^ b)) else .ok (.num (beNat w))
  | .address => .ok (.num (beNat w % 2 ^ 160))
  | .bool =>
    if beNat w = 0 then .ok (.num 0) else if beNat w = 1 then .ok (.num 1) else .error .err
  | .fixedBytes n => do
    let b ← slice "ReadFixedBytes:word[0:size]" w 0 n
    pure (.fixed b)

/-- `forEachUnpack` loop: `size` elements, 32 bytes apart, the first at `start` of `sub` -/
def decWords (e : Elem) (sub : Bytes) : Nat → Nat → Dec (List EVal)
  | 0, _ => .ok []
  | n + 1, start => do
    let w ← wordAt sub start
    let v ← decElem e w
    let vs ← decWords e sub n (start + 32)
    pure (v :: vs)

/-- `forEachUnpack(t, output, 0, size)` -/
def forEach (e : Elem) (sub : Bytes) (size : Nat) : Dec (List EVal) :=
  if 32 * size > sub.length then .error .err else decWords e sub size 0

/-- `lengthPrefixPointsTo`: where the contents start and how long they are -/
def lengthPrefix (bs : Bytes) (i : Nat) : Dec (Nat × Nat) := do
  let w ← slice "lengthPrefixPointsTo:output[index:index+32]" bs i (i + 32)
  let offEnd := beNat w + 32
  if offEnd > bs.length then .error .err
  else if offEnd ≥ 2 ^ 63 then .error .err
  else do
    let lw ← slice "lengthPrefixPointsTo:output[offsetEnd-32:offsetEnd]" bs (offEnd - 32) offEnd
    let total := offEnd + beNat lw
    if total ≥ 2 ^ 63 then .error .err
    else if total > bs.length then .error .err
    else pure (offEnd, beNat lw)

/-- `toGoType(index, t, output)` -/
def decOne (t : AbiType) (bs : Bytes) (i : Nat) : Dec AbiVal :=
  if i + 32 > bs.length then .error .err else
  match t with
  | .elem e => do
    let w ← wordAt bs i
    let v ← decElem e w
    pure (.elem v)
  | .sarray e n => do
    let sub ← slice "toGoType:output[index:]" bs i bs.length
    let l ← forEach e sub n
    pure (.arr l)
  | .darray e => do
    let (start, len) ← lengthPrefix bs i
    let sub ← slice "toGoType:output[begin:]" bs start bs.length
    let l ← forEach e sub len
    pure (.arr l)
  | .bytes => do
    let (start, len) ← lengthPrefix bs i
    let c ← slice "toGoType:output[begin:begin+length]" bs start (start + len)
    pure (.blob c)
  | .string => do
    let (start, len) ← lengthPrefix bs i
    let c ← slice "toGoType:output[begin:begin+length]" bs start (start + len)
    pure (.blob c)

/-- `UnpackValues` loop: argument `k` is read at the sum of the head sizes before it (`index+virtualArgs`) -/
def decGo : Nat → List AbiType → Bytes → Dec (List AbiVal)
  | _, [], _ => .ok []
  | i, t :: ts, bs => do
    let v ← decOne t bs i
    let vs ← decGo (i + t.headSize) ts bs
    pure (v :: vs)

/-- `Arguments.UnpackValues(data)` -/
def decodeArgs (tys : List AbiType) (bs : Bytes) : Dec (List AbiVal) := decGo 0 tys bs

/-- `Arguments.Unpack(data)`: empty data is an error when arguments are expected -/
def unpack (tys : List AbiType) (bs : Bytes) : Dec (List AbiVal) :=
  if bs.isEmpty then (if tys.isEmpty then .ok [] else .error .err) else decodeArgs tys bs

/-! ### signatures, selectors, call data -/

def Elem.name : Elem → String
  | .uint b => "uint" ++ toString b
  | .address => "address"
  | .bool => "bool"
  | .fixedBytes n => "bytes" ++ toString n

def AbiType.name : AbiType → String
  | .elem e => e.name
  | .sarray e n => e.name ++ "[" ++ toString n ++ "]"
  | .darray e => e.name ++ "[]"
  | .bytes => "bytes"
  | .string => "string"

/-- canonical signature `name(type,type,…)` (what `abi.Method.Sig` / `abi.Event.Sig` is) -/
def signature (name : String) (tys : List AbiType) : String :=
  name ++ "(" ++ String.intercalate "," (tys.map AbiType.name) ++ ")"

def strBytes (s : String) : Bytes := s.toUTF8.toList

/-- `method.ID`: first four bytes of the hash of the signature -/
def selector (hash : Bytes → Bytes) (name : String) (tys : List AbiType) : Bytes :=
  (hash (strBytes (signature name tys))).take 4

/-- `abi.ABI.Pack(name, args…)`: selector, then the packed arguments -/
def callData (hash : Bytes → Bytes) (name : String) (tys : List AbiType) (vs : List AbiVal) : Option Bytes :=
  (encodeArgs tys vs).map (selector hash name tys ++ ·)

/-! ### event logs (`BoundContract.UnpackLog`) -/

structure Input where
  name : String
  ty : AbiType
  indexed : Bool
  deriving DecidableEq, Repr

structure EventSpec where
  name : String
  inputs : List Input
  deriving DecidableEq, Repr

def EventSpec.types (s : EventSpec) : List AbiType := s.inputs.map (·.ty)
def EventSpec.nonIndexed (s : EventSpec) : List Input := s.inputs.filter (fun i => !i.indexed)
def EventSpec.indexed (s : EventSpec) : List Input := s.inputs.filter (·.indexed)

/-- every input type is in the modelled fragment and indexed inputs are word types (a topic holds one word) -/
def AbiType.isElem : AbiType → Bool
  | .elem _ => true
  | _ => false

def Input.wf (i : Input) : Bool := i.ty.wf && (!i.indexed || i.ty.isElem)

def EventSpec.wf (s : EventSpec) : Bool := s.inputs.all Input.wf

/-- `event.ID`: hash of the signature over ALL inputs, indexed or not -/
def topic0 (hash : Bytes → Bytes) (s : EventSpec) : Bytes := hash (strBytes (signature s.name s.types))

structure RawLog where
  topics : List Bytes      -- 32 bytes each
  data : Bytes
  deriving DecidableEq, Repr

/-- keep the values whose input satisfies `p` -/
def selectVals (p : Input → Bool) : List Input → List AbiVal → List AbiVal
  | i :: is, v :: vs => if p i then v :: selectVals p is vs else selectVals p is vs
  | _, _ => []

/-- topic of an indexed word value -/
def topicOf : AbiVal → Bytes
  | .elem v => encEVal v
  | _ => zeros 32          -- indexed arrays/strings are hashed by the EVM; no such input exists in these contracts

/-- the log a contract emits for event `s` with argument values `vs` (one per input, in order):
topic 0 = event id, one topic per indexed input, data = the non-indexed inputs ABI-encoded -/
def encodeLog (id : Bytes) (s : EventSpec) (vs : List AbiVal) : RawLog :=
  { topics := id :: (selectVals (·.indexed) s.inputs vs).map topicOf,
    data := encodeRaw (s.nonIndexed.map (·.ty)) (selectVals (fun i => !i.indexed) s.inputs vs) }

/-- `parseTopicWithSetter` for one indexed input: word types through `toGoType(0, t, topic)`, the others keep the hash -/
def decTopic (i : Input) (topic : Bytes) : Dec AbiVal :=
  match i.ty with
  | .elem e => do
    let w ← wordAt topic 0
    let v ← decElem e w
    pure (.elem v)
  | _ => .ok (.blob topic)

def decTopics : List Input → List Bytes → Dec (List AbiVal)
  | [], [] => .ok []
  | i :: is, t :: ts => do
    let v ← decTopic i t
    let vs ← decTopics is ts
    pure (v :: vs)
  | _, _ => .error .err      -- "topic/field count mismatch"

/-- put decoded non-indexed and indexed values back into input order; `none` = the Go zero value the
binding struct keeps when nothing was unpacked into the field -/
def mergeVals : List Input → List (Option AbiVal) → List AbiVal → List (Option AbiVal)
  | [], _, _ => []
  | i :: is, ns, xs =>
    if i.indexed then
      match xs with
      | x :: xs' => some x :: mergeVals is ns xs'
      | [] => none :: mergeVals is ns []
    else
      match ns with
      | n :: ns' => n :: mergeVals is ns' xs
      | [] => none :: mergeVals is [] xs

/-- `UnpackLog(out, event, log)`:

    if log.Topics[0] != event.ID { error }                     -- index panic on a log without topics
    if len(log.Data) > 0 { UnpackIntoInterface(out, event, log.Data) }   -- Unpack + Copy
    ParseTopics(out, indexed, log.Topics[1:])

Result: per input the value written into the binding struct (`none`: untouched). -/
def decodeLog (id : Bytes) (s : EventSpec) (l : RawLog) : Dec (List (Option AbiVal)) :=
  match l.topics with
  | [] => .error (.panic "UnpackLog:log.Topics[0]")
  | t0 :: rest =>
    if t0 ≠ id then .error .err else do
    let ns : List (Option AbiVal) ←
      (if l.data.isEmpty then (pure (s.nonIndexed.map (fun _ => none)) : Dec _)
       else do
        let vs ← decodeArgs (s.nonIndexed.map (·.ty)) l.data
        -- `Arguments.Copy`: no values but arguments expected is an error
        if vs.isEmpty && !s.inputs.isEmpty then .error .err else pure (vs.map some))
    let xs ← decTopics s.indexed rest
    pure (mergeVals s.inputs ns xs)

/-! ### type names (the ABI JSON `type` strings) -/

def parseElem (s : String) : Option Elem :=
  if s == "address" then some .address
  else if s == "bool" then some .bool
  else if s.startsWith "uint" then (s.drop 4).toString.toNat?.map Elem.uint
  else if s.startsWith "bytes" && s.length > 5 then (s.drop 5).toString.toNat?.map Elem.fixedBytes
  else none

/-- `"uint256[4]"` → `sarray (uint 256) 4` etc.; `none` for anything outside the modelled fragment -/
def parseType (s : String) : Option AbiType :=
  if s == "bytes" then some .bytes
  else if s == "string" then some .string
  else if s.endsWith "[]" then (parseElem (s.dropEnd 2).toString).map AbiType.darray
  else if s.endsWith "]" then
    match (s.dropEnd 1).toString.splitOn "[" with
    | [e, n] => do
      let e ← parseElem e
      let n ← n.toNat?
      pure (.sarray e n)
    | _ => none
  else (parseElem s).map AbiType.elem

/-! ### text form of values (case lines of the drivers) -/

def adler32 (bs : Bytes) : Nat :=
  let (s1, s2) := bs.foldl (fun (p : Nat × Nat) x =>
    let s1 := (p.1 + x.toNat) % 65521
    (s1, (p.2 + s1) % 65521)) (1, 0)
  s2 * 65536 + s1

/-- how long byte strings are printed: in full up to 2 KiB, else length, Adler-32, the first 512 and the last 64 bytes -/
def dataText (bs : Bytes) : String :=
  if bs.length ≤ 2048 then toHex bs
  else s!"{bs.length}:{adler32 bs}:{toHex (bs.take 512)}:{toHex (bs.drop (bs.length - 64))}"

def showEVal (e : Elem) : EVal → String
  | .num n =>
    match e with
    | .address => toHex (natBE 20 n)
    | .bool => if n = 0 then "false" else "true"
    | _ => toString n
  | .fixed bs => toHex bs

def showVal (t : AbiType) : AbiVal → String
  | .elem v => match t with
    | .elem e => showEVal e v
    | _ => "?"
  | .arr l =>
    let e := match t with
      | .sarray e _ => e
      | .darray e => e
      | _ => Elem.uint 256
    if l.isEmpty then "-" else String.intercalate "," (l.map (showEVal e))
  | .blob bs => toHex bs

def parseEVal (e : Elem) (s : String) : Option EVal :=
  match e with
  | .uint _ => s.toNat?.map EVal.num
  | .address => (ofHex s).map (fun b => EVal.num (beNat b))
  | .bool => if s == "true" then some (.num 1) else if s == "false" then some (.num 0) else none
  | .fixedBytes _ => (ofHex s).map EVal.fixed

def parseVal (t : AbiType) (s : String) : Option AbiVal :=
  match t with
  | .elem e => (parseEVal e s).map AbiVal.elem
  | .sarray e _ => if s == "-" then some (.arr []) else ((s.splitOn ",").mapM (parseEVal e)).map AbiVal.arr
  | .darray e => if s == "-" then some (.arr []) else ((s.splitOn ",").mapM (parseEVal e)).map AbiVal.arr
  | .bytes => (ofHex s).map AbiVal.blob
  | .string => (ofHex s).map AbiVal.blob

def parseVals : List AbiType → List String → Option (List AbiVal)
  | [], [] => some []
  | t :: ts, s :: ss => do
    let v ← parseVal t s
    let vs ← parseVals ts ss
    pure (v :: vs)
  | _, _ => none

end Dos.Abi

/-
C14 fairness: the collector check of the REGENERATED key-generation pipeline, evaluated by the kernel
in a file of its own (about 50 s on the 157-node `pdkg.Loop`), so that Lake can check it in parallel
with Props/C14Grouping.lean.  Used by Props/C14FairGrouping.lean.
-/
import DosModel.Model.PipeRun
import DosModel.Gen.PipeIR

namespace Dos.Pipe

theorem collectorsCheck_parts {p : Pipeline} {k : Nat} (h : collectorsCheck p k = true) :
    (handoffs p).length = k ∧ CollectorsOk p = true := by
  unfold collectorsCheck at h
  simp only [Bool.and_eq_true, beq_iff_eq] at h
  exact ⟨h.1, h.2⟩

/-- `pdkg.Loop` is handed three reply channels (the three `askMembers` of a session) and passes
    `CollectorOk` for each -/
theorem grouping_collectors_check : collectorsCheck Gen.Pipes.grouping 3 = true := by decide +kernel

end Dos.Pipe

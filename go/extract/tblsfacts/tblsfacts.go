// Package tblsfacts regenerates the facts the share/tbls models depend on from /repo's
// current working tree: the group orders and the bn256 base prime (decimal string literals),
// the evaluation-point rule `SetInt64(1 + int64(i))` at its four sites in share/poly.go, and
// the shape of the 2-byte index prefix in sign/tbls/tbls.go.
package tblsfacts

import (
	"fmt"
	"go/ast"
	"go/token"
	"math/big"
	"path/filepath"
	"strconv"
	"strings"

	"verifharness/extract/ex"
)

func init() {
	ex.Register(&ex.Extractor{Name: "TblsFacts", Run: run})
}

// string literal passed to the initialiser of package variable `name`
// (bigFromBase10("…") or new(big.Int).SetString("…", 10))
func bigVar(f *ast.File, name string) (*big.Int, error) {
	for _, d := range f.Decls {
		gd, ok := d.(*ast.GenDecl)
		if !ok || gd.Tok != token.VAR {
			continue
		}
		for _, s := range gd.Specs {
			vs := s.(*ast.ValueSpec)
			for i, n := range vs.Names {
				if n.Name != name || len(vs.Values) == 0 {
					continue
				}
				v := vs.Values[0]
				if i < len(vs.Values) {
					v = vs.Values[i]
				}
				var lit *ast.BasicLit
				ast.Inspect(v, func(x ast.Node) bool {
					if b, ok := x.(*ast.BasicLit); ok && b.Kind == token.STRING && lit == nil {
						lit = b
					}
					return true
				})
				if lit == nil {
					return nil, fmt.Errorf("%s: no string literal in initialiser", name)
				}
				str, _ := strconv.Unquote(lit.Value)
				r, ok := new(big.Int).SetString(str, 10)
				if !ok {
					return nil, fmt.Errorf("%s: %q is not a decimal number", name, str)
				}
				return r, nil
			}
		}
	}
	return nil, fmt.Errorf("variable %s not found", name)
}

// the constant k of the single call SetInt64(k + int64(<ident>)) inside fn
func evalOffset(fd *ast.FuncDecl) (string, error) {
	var found []string
	var bad error
	ast.Inspect(fd, func(x ast.Node) bool {
		c, ok := x.(*ast.CallExpr)
		if !ok {
			return true
		}
		sel, ok := c.Fun.(*ast.SelectorExpr)
		if !ok || sel.Sel.Name != "SetInt64" || len(c.Args) != 1 {
			return true
		}
		be, ok := c.Args[0].(*ast.BinaryExpr)
		if !ok || be.Op != token.ADD {
			bad = fmt.Errorf("%s: SetInt64 argument is not `k + int64(i)`", fd.Name.Name)
			return true
		}
		lit, ok1 := be.X.(*ast.BasicLit)
		conv, ok2 := be.Y.(*ast.CallExpr)
		if !ok1 || !ok2 || lit.Kind != token.INT {
			bad = fmt.Errorf("%s: SetInt64 argument is not `k + int64(i)`", fd.Name.Name)
			return true
		}
		if id, ok := conv.Fun.(*ast.Ident); !ok || id.Name != "int64" {
			bad = fmt.Errorf("%s: SetInt64 argument is not `k + int64(i)`", fd.Name.Name)
			return true
		}
		found = append(found, lit.Value)
		return true
	})
	if bad != nil {
		return "", bad
	}
	if len(found) != 1 {
		return "", fmt.Errorf("%s: %d SetInt64 calls, expected 1", fd.Name.Name, len(found))
	}
	return found[0], nil
}

func run(repo string) (string, error) {
	_, fc, err := ex.Parse(filepath.Join(repo, "group", "bn256", "constants.go"))
	if err != nil {
		return "", err
	}
	order, err := bigVar(fc, "Order")
	if err != nil {
		return "", err
	}
	p, err := bigVar(fc, "P")
	if err != nil {
		return "", err
	}
	_, fe, err := ex.Parse(filepath.Join(repo, "group", "edwards25519", "const.go"))
	if err != nil {
		return "", err
	}
	l, err := bigVar(fe, "primeOrder")
	if err != nil {
		return "", err
	}
	_, fp, err := ex.Parse(filepath.Join(repo, "share", "poly.go"))
	if err != nil {
		return "", err
	}
	var offs, notes []string
	for _, site := range [][2]string{{"PriPoly", "Eval"}, {"PubPoly", "Eval"}, {"", "xScalar"}, {"", "RecoverCommit"}} {
		fd := ex.FuncDecl(fp, site[0], site[1])
		if fd == nil {
			notes = append(notes, fmt.Sprintf("share/poly.go: %s.%s not found", site[0], site[1]))
			offs = append(offs, "999999")
			continue
		}
		o, err := evalOffset(fd)
		if err != nil {
			// the site no longer has the expected form (moved into a helper, another expression …): the fact
			// file must still compile – the driver is built from the model and the group orders only and the
			// model comparison has to run on a tree whose facts break – so the site gets a sentinel that
			// `c09_code_facts` rejects
			notes = append(notes, err.Error())
			o = "999999"
		}
		offs = append(offs, o)
	}
	// tbls: the index prefix is a uint16 read/written big-endian
	_, ft, err := ex.Parse(filepath.Join(repo, "sign", "tbls", "tbls.go"))
	if err != nil {
		return "", err
	}
	idxType, order16 := "", ""
	if fd := ex.FuncDecl(ft, "SigShare", "Index"); fd != nil {
		ast.Inspect(fd, func(x ast.Node) bool {
			switch v := x.(type) {
			case *ast.ValueSpec:
				if id, ok := v.Type.(*ast.Ident); ok && len(v.Names) == 1 && v.Names[0].Name == "index" {
					idxType = id.Name
				}
			case *ast.SelectorExpr:
				if id, ok := v.X.(*ast.Ident); ok && id.Name == "binary" && strings.HasSuffix(v.Sel.Name, "Endian") {
					order16 = v.Sel.Name
				}
			}
			return true
		})
	}
	if idxType == "" || order16 == "" {
		notes = append(notes, "sign/tbls/tbls.go: SigShare.Index: index type / byte order not found")
	}
	width := map[string]int{"uint8": 1, "uint16": 2, "uint32": 4, "uint64": 8}[idxType]
	s := ex.Header("TblsFacts", "group/bn256/constants.go, group/edwards25519/const.go, share/poly.go, sign/tbls/tbls.go")
	s += "namespace Dos.Gen\n"
	s += fmt.Sprintf("def bn256Order : Nat := %s\n", order)
	s += fmt.Sprintf("def bn256P : Nat := %s\n", p)
	s += fmt.Sprintf("def ed25519Order : Nat := %s\n", l)
	s += fmt.Sprintf("/-- `SetInt64(k + int64(i))` in PriPoly.Eval, PubPoly.Eval, xScalar, RecoverCommit -/\ndef shareEvalOffsets : List Nat := [%s]\n", strings.Join(offs, ", "))
	s += fmt.Sprintf("def tblsIndexBytes : Nat := %d\n", width)
	s += fmt.Sprintf("def tblsIndexBigEndian : Bool := %v\n", order16 == "BigEndian")
	for _, nt := range notes {
		s += "-- NOTE (sentinel 999999 / 0 above): " + strings.ReplaceAll(nt, "\n", " ") + "\n"
	}
	s += "end Dos.Gen\n"
	sh, err := shapes(repo)
	if err != nil {
		return "", err
	}
	return s + sh, nil
}

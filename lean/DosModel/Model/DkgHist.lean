/-
HISTORIES of key generations run with the SAME long-term keys (C05 round 4, "other sessions"): the
line-protocol interpreter of the `hist` case lines of go/internal/dkgnet/hist.go on the discrete-log
instance `Zr`.

`S` sessions of `n` members; every member has one `DistKeyGenerator` per session (`newGen` + `Deals()`),
driven through the pipeline stages `runDeals` / `runResps` / `genGroup` of `Model/DkgSession.lean` on
batches the case line spells out.  The adversary (Byzantine member `b` and the network) owns everything
the honest members sign or seal in ANY session – every recorded deal and response may be delivered
into every session at every position of a batch – plus the answers of ORACLE QUERIES: an adversarial
deal handed to a fresh generator of an honest member with the same long-term key (`oracleQuery`, i.e.
`ProcessDeal` in yet another run), which records the signed approval or complaint.  The sessions run
concurrently: all dealing, then every deal stage, then every response stage.
-/
import DosModel.Model.DkgSim
import DosModel.Model.DkgAdv

namespace Dos.DkgHist
open Dos Dos.Vss Dos.Dkg Dos.DkgSim

structure HMember where
  gen : Option (Gen S P)
  out : List (Nat × DkgDeal S P)          -- `Deals()`: (recipient, message)
  resps : Option (List (DkgResp S P))     -- the `Responses` message the deal stage emitted
  stage : String
  ks : Option (KeyShare S P)

structure HSession where
  ms : List HMember
  bdeal : List (Nat × DkgDeal S P)        -- what `b` dealt to member `i`

structure HWorld where
  n : Nat
  b : Nat
  ses : List HSession
  oracle : List (Option (DkgResp S P))

def thr (n : Nat) : Nat := n / 2 + 1
def L (n : Nat) : List P := pubs [] n

/-- member `k`'s generator in session `s`, after `Deals()` -/
def mkMember (n s k : Nat) : HMember :=
  match newGen g (longOf0 k) (L n) (polyOf (11 + 1000 * s) (thr n) k) with
  | .ok d =>
    match deals g d (ephsOf (9000 + 100 * s) n k) with
    | .ok (d1, ds) => ⟨some d1, ds, none, "d", none⟩
    | _ => ⟨none, [], none, "F:owndeal", none⟩
  | .error _ => ⟨none, [], none, "F:owndeal", none⟩

def lookupDeal (l : List (Nat × DkgDeal S P)) (i : Nat) : Option (DkgDeal S P) :=
  (l.find? (fun x => x.1 = i)).map (·.2)

def mkSession (n b s : Nat) (spec : String) : HSession :=
  let ms := (List.range n).map (mkMember n s)
  let vs : List String := if spec.isEmpty then [] else spec.splitOn ","
  let rc := (List.range n).filter (· ≠ b)
  let bd := (rc.zipIdx).filterMap (fun (i, q) =>
    let v := vs.getD q "g"
    if v = "g" then ((ms[b]?).bind (fun m => lookupDeal m.out i)).map (fun d => (i, d))
    else some (i, advDeal [] n b b i v))
  ⟨ms, bd⟩

/-- **the oracle**: the response honest member `m` gives, in a run of its own with the same long-term
key and member list, to the deal `D.<claim>.<sealer>.<m>.<variant>` (`Model/DkgAdv.lean` `oracleAnswer`) -/
def oracleQuery (n : Nat) (q : String) : Option (DkgResp S P) :=
  let f := q.splitOn ":"
  let a (k : Nat) : Nat := parseNat (f.getD k "")
  let m := a 0
  if m < n then
    oracleAnswer g (longOf0 m) (L n) (polyOf 7777 (thr n) m)
      (advDeal [] n (a 1) (a 2) m (String.intercalate ":" (f.drop 3)))
  else none

def refOr (f : List String) (k def_ : Nat) : Nat := if k < f.length then parseNat (f.getD k "") else def_

def resolveDeal (w : HWorld) (r : String) : Option (DkgDeal S P) :=
  let f := r.splitOn ":"
  let a (k : Nat) : Nat := parseNat (f.getD k "")
  match f.head? with
  | some "d" =>
    if f.length < 4 ∨ a 1 ≥ w.ses.length ∨ a 2 ≥ w.n then none else
    (((w.ses[a 1]?).bind (fun s => s.ms[a 2]?)).bind (fun m => lookupDeal m.out (a 3))).map
      (fun d => { d with index := refOr f 4 (a 2) })
  | some "B" =>
    if f.length < 3 ∨ a 1 ≥ w.ses.length then none else
    ((w.ses[a 1]?).bind (fun s => lookupDeal s.bdeal (a 2))).map (fun d => { d with index := refOr f 3 w.b })
  | some "D" =>
    if f.length < 5 ∨ a 2 ≥ w.n then none else
    some (advDeal [] w.n (a 1) (a 2) (a 3) (String.intercalate ":" (f.drop 4)))
  | _ => none

def resolveResp (w : HWorld) (r : String) : Option (DkgResp S P) :=
  let f := r.splitOn ":"
  let a (k : Nat) : Nat := parseNat (f.getD k "")
  let n := w.n
  match f.head? with
  | some "r" =>
    if f.length < 4 ∨ a 1 ≥ w.ses.length ∨ a 2 ≥ n then none else
    ((((w.ses[a 1]?).bind (fun s => s.ms[a 2]?)).bind (·.resps)).bind (fun rs => rs.find? (fun x => x.index = a 3))).map
      (fun x => { x with index := refOr f 4 (a 3) })
  | some "o" =>
    if f.length < 2 then none else
    ((w.oracle[a 1]?).join).map (fun x => { x with index := refOr f 2 x.index })
  | some "R" =>
    if f.length < 6 then none else
    let spec := f.getD 3 ""
    let parts := ((spec.drop 1).toString).splitOn "_"
    let p0 := parseNat (parts.getD 0 ""); let p1 := parseNat (parts.getD 1 "")
    let sid : Sid P :=
      if spec.startsWith "g" then
        match ((w.ses[p0]?).bind (fun s => s.ms[p1]?)).bind (·.gen) with
        | some d => if p1 < n then d.dealer.sid else .raw 0
        | none => .raw 0
      else if spec.startsWith "p" then .h (longOf0 p0 • g) (L n) (commit g (advPoly p0 p1 (thr n))) (thr n)
      else .raw 7
    let approve := f.getD 4 "" = "a"
    let signer := f.getD 5 ""
    let sig : RespSig S P :=
      if signer = "junk" then .junk 1
      else if signer = "none" then .junk 0
      else .sign (longOf0 (parseNat signer)) sid (a 2) approve 0
    some ⟨a 1, some { sid := sid, index := a 2, status := approve, sig := sig }⟩
  | some "RN" => some ⟨a 1, none⟩
  | _ => none

/-- an injection `<pos><+|=><ref>` of the script, for one (session, member, kind) -/
structure Inj where
  pos : Nat
  replace : Bool
  ref : String

def parseInjs (script key : String) : List Inj :=
  if script = "-" then [] else
  (script.splitOn ",").filterMap (fun e =>
    match e.splitOn "." with
    | s :: i :: k :: rest =>
      if s ++ "." ++ i ++ "." ++ k = key then
        let body := String.intercalate "." rest
        let ps := (body.takeWhile Char.isDigit).toString
        let tail := (body.drop ps.length).toString
        some ⟨parseNat ps, tail.startsWith "=", (tail.drop 1).toString⟩
      else none
    | _ => none)

/-- the batch a stage gets: the default batch with the injections placed -/
def assemble {M : Type} (def_ : List M) (injs : List Inj) (resolve : String → Option M) : List M :=
  (List.range (def_.length + 1)).flatMap (fun p =>
    let here := injs.filter (fun x => x.pos = p)
    let ins := here.filterMap (fun x => resolve x.ref)
    let keep := p < def_.length && !(here.any (·.replace))
    ins ++ (if keep then (def_[p]?).toList else []))

def updSes (w : HWorld) (s : Nat) (f : HSession → HSession) : HWorld := { w with ses := w.ses.modify s f }
def updMem (w : HWorld) (s i : Nat) (f : HMember → HMember) : HWorld :=
  updSes w s (fun x => { x with ms := x.ms.modify i f })

/-- `getAndProcessDeals` of member `i` in session `s` -/
def dealStage (script : String) (w : HWorld) (s i : Nat) : HWorld :=
  match (w.ses[s]?).bind (fun x => (x.ms[i]?).map (fun m => (x, m))) with
  | none => w
  | some (x, m) =>
    match m.gen with
    | none => w
    | some d =>
      let def_ := ((List.range w.n).filter (· ≠ i)).filterMap (fun j =>
        if j = w.b then lookupDeal x.bdeal i else (x.ms[j]?).bind (fun mj => lookupDeal mj.out i))
      let batch := assemble def_ (parseInjs script s!"{s}.{i}.d") (resolveDeal w)
      match runDeals g d batch [] with
      | (d1, none) => updMem w s i (fun m => { m with gen := some d1, stage := "F:noapproval" })
      | (d1, some rs) => updMem w s i (fun m => { m with gen := some d1, stage := "r", resps := some rs })

/-- `getAndProcessResponses` + `genGroup` of member `i` in session `s` -/
def respStage (script : String) (w : HWorld) (s i : Nat) : HWorld :=
  match (w.ses[s]?).bind (fun x => (x.ms[i]?).map (fun m => (x, m))) with
  | none => w
  | some (x, m) =>
    match m.gen with
    | none => w
    | some d =>
      if m.stage ≠ "r" then w else
      let def_ := ((List.range w.n).filter (· ≠ i)).flatMap (fun k => (((x.ms[k]?).bind (·.resps)).getD []))
      let batch := assemble def_ (parseInjs script s!"{s}.{i}.r") (resolveResp w)
      match runResps g d batch with
      | (d1, false) => updMem w s i (fun m => { m with gen := some d1, stage := "F:response" })
      | (d1, true) =>
        match genGroup d1 with
        | .ok ks => updMem w s i (fun m => { m with gen := some d1, stage := "D", ks := some ks })
        | .err e => updMem w s i (fun m => { m with gen := some d1, stage := "F:" ++ e.name })
        | .panic _ => updMem w s i (fun m => { m with gen := some d1, stage := "F:panic" })

/-- "hist <seed> <n> <b> <S> <bspec> <queries> <script>" → per session "st=… keys=…", joined by "|" -/
def runLine (w : List String) : String :=
  match w with
  | [_, _seed, n, b, ns, bspec, queries, script] =>
    let n := parseNat n; let b := parseNat b; let ns := parseNat ns
    let specs := bspec.splitOn ";"
    let ses := (List.range ns).map (fun s => mkSession n b s (specs.getD s ""))
    let oracle := if queries = "-" then [] else (queries.splitOn ";").map (oracleQuery n)
    let w0 : HWorld := { n := n, b := b, ses := ses, oracle := oracle }
    let idx := (List.range ns).flatMap (fun s => (List.range n).map (fun i => (s, i)))
    let w1 := idx.foldl (fun w x => dealStage script w x.1 x.2) w0
    let w2 := idx.foldl (fun w x => respStage script w x.1 x.2) w1
    String.intercalate "|" (w2.ses.map (fun x =>
      s!"st={String.intercalate "," (x.ms.map (·.stage))} keys={keyClasses (x.ms.map (·.ks))}"))
  | _ => "bad-op"

end Dos.DkgHist

/-
Model of `share/dkg/pedersen/dkg.go` (`DistKeyGenerator`) on top of the symbolic VSS model
`Model/VssSym.lean`.  The random choices of the code (polynomial coefficients, ephemeral
Diffie–Hellman secrets) are explicit arguments.  `map[uint32]*vss.Verifier` is a list of
optional verifiers indexed by the key (`ProcessDeal` only stores keys below
`len(participants)`).  Loops over that map only test membership or add up scalars / points,
so visiting the slots in index order gives the result of every order Go may pick.
-/
import DosModel.Model.VssSym

namespace Dos.Dkg
open Dos Dos.Vss

inductive Err where
  | notParticipant            -- own public key not in the list
  | badT                      -- NewDealer: invalid threshold
  | dealIndex                 -- "dist deal out of bounds index"
  | dealDup                   -- "already received dist deal from same index"
  | vss (e : Vss.Err)         -- error of the per-dealer verifier / the own dealer
  | respNil                   -- response message without a response (fix f11055d)
  | respNoDeal                -- "complaint received but no deal for it"
  | justNoDeal                -- "Justification received but no deal for it"
  | notCertified
  | coeffs                    -- share.PubPoly.Add: "different number of coefficients"
  deriving DecidableEq, Repr

def Err.name : Err → String
  | .notParticipant => "notparticipant" | .badT => "badt" | .dealIndex => "dealindex"
  | .dealDup => "dealdup" | .vss e => e.name | .respNil => "respnil" | .respNoDeal => "respnodeal"
  | .justNoDeal => "justnodeal" | .notCertified => "notcertified" | .coeffs => "coeffs"

inductive Site where
  | ownDeal      -- Deals(): "cannot process own deal" / "own deal gave a complaint"
  | nilDeal      -- DistKeyShare: v.Deal() == nil or a deal without share value is dereferenced
  deriving DecidableEq, Repr

inductive Out (α : Type) where
  | ok (v : α)
  | err (e : Err)
  | panic (s : Site)
  deriving Repr

/-- `vss.Dealer` (the fields the DKG uses) -/
structure Dealer (S P : Type) where
  long : S
  pub : P
  f : List S                -- secretPoly coefficients, `f[0]` = secret
  commits : List P
  vs : List P
  t : Nat
  sid : Sid P
  deals : List (Deal S P)
  agg : Agg S P
  deriving DecidableEq, Repr

/-- `dkg.Deal` message -/
structure DkgDeal (S P : Type) where
  index : Nat
  deal : Option (EncDeal S P)
  deriving DecidableEq, Repr

/-- `dkg.Response` message -/
structure DkgResp (S P : Type) where
  index : Nat                       -- the dealer the response is about (NOT covered by the signature)
  resp : Option (Response S P)
  deriving DecidableEq, Repr

/-- `dkg.Justification` -/
structure DkgJust (S P : Type) where
  index : Nat                       -- the dealer
  jidx : Nat                        -- vss.Justification.Index: the complainer
  deal : Deal S P
  deriving DecidableEq, Repr

/-- `DistKeyGenerator` -/
structure Gen (S P : Type) where
  index : Nat
  long : S
  pub : P
  participants : List P
  t : Nat
  dealer : Dealer S P
  verifiers : List (Option (Verifier S P))
  deriving DecidableEq, Repr

/-- `DistKeyShare` -/
structure KeyShare (S P : Type) where
  commits : List P
  shareI : Nat
  shareV : S
  priPoly : List S
  deriving DecidableEq, Repr

section
variable {S P : Type} [DecidableEq S] [DecidableEq P]
variable [Zero P] [Add P] [SMul S P] [IntCast S] [Mul S] [Add S] [Zero S]

/-- `vss.NewDealer` with the polynomial `f` the random stream produced (`len f = t`) -/
def newDealer (g : P) (long : S) (f : List S) (vs : List P) : Except Err (Dealer S P) :=
  let t := f.length
  if validT t vs.length = false then .error .badT
  else
    let pub := long • g
    let commits := commit g f
    let sid : Sid P := .h pub vs commits t
    .ok { long := long, pub := pub, f := f, commits := commits, vs := vs, t := t, sid := sid,
          deals := (List.range vs.length).map (fun i => honestDeal g long vs f i),
          agg := newAgg pub vs commits t sid }

/-- `initDistKeyGenerator` -/
def newGen (g : P) (long : S) (participants : List P) (f : List S) : Except Err (Gen S P) :=
  match findIndex (long • g) participants 0 with
  | none => .error .notParticipant
  | some idx =>
    match newDealer g long f participants with
    | .error e => .error e
    | .ok dl => .ok { index := idx, long := long, pub := long • g, participants := participants,
                      t := f.length, dealer := dl, verifiers := List.replicate participants.length none }

def getVerifier (d : Gen S P) (j : Nat) : Option (Verifier S P) := (d.verifiers[j]?).join

def setVerifier (d : Gen S P) (j : Nat) (v : Verifier S P) : Gen S P :=
  { d with verifiers := d.verifiers.set j (some v) }

/-- `DistKeyGenerator.ProcessDeal` -/
def processDeal (g : P) (d : Gen S P) (dd : DkgDeal S P) : Gen S P × Except Err (DkgResp S P) :=
  match d.participants[dd.index]? with
  | none => (d, .error .dealIndex)
  | some pub =>
    if (getVerifier d dd.index).isSome then (d, .error .dealDup)
    else match newVerifier g d.long pub d.participants with
      | .error e => (d, .error (.vss e))
      | .ok ver =>
        let d1 := setVerifier d dd.index ver
        match dd.deal with
        | none => (d1, .error (.vss .noDeal))
        | some e =>
          let (ver1, r) := processEncryptedDeal g ver e
          match r with
          | .error err => (setVerifier d dd.index ver1, .error (.vss err))
          | .ok resp =>
            let ver2 := ver1.unsafeSetResponse dd.index true
            (setVerifier d dd.index ver2, .ok { index := dd.index, resp := some resp })

/-- `vss.Dealer.ProcessResponse`: new dealer aggregator and, for a complaint, the justification's (index, deal) -/
def dealerProcessResponse (g : P) (dl : Dealer S P) (r : Response S P) :
    Dealer S P × Except Vss.Err (Option (Nat × Deal S P)) :=
  match verifyResponse g dl.agg r with
  | .error e => (dl, .error e)
  | .ok a' =>
    let dl' := { dl with agg := a' }
    if r.status = true then (dl', .ok none)
    else match dl.deals[r.index]? with
      | none => (dl', .ok none)          -- unreachable: verifyResponse checked the index
      | some deal => (dl', .ok (some (r.index, deal)))

/-- the tail of `ProcessResponse` for a response about the member's OWN deal (`resp.Index == d.index`),
after the own verifier (now `v1`, aggregator `a'`) accepted it: `d.dealer.ProcessResponse`, and for a
complaint `v.ProcessJustification(j)` on the own verifier.  The response object is shared with the
dealer's aggregator, so an accepted justification turns both stored copies into approvals. -/
def ownResponse (g : P) (d1 : Gen S P) (v1 : Verifier S P) (a' : Agg S P) (r : Response S P) :
    Gen S P × Except Err (Option (DkgJust S P)) :=
  match dealerProcessResponse g d1.dealer r with
  | (dl1, .error err) => ({ d1 with dealer := dl1 }, .error (.vss err))
  | (dl1, .ok none) => ({ d1 with dealer := dl1 }, .ok none)
  | (dl1, .ok (some (jidx, deal))) =>
    match verifyJustification g a' jidx deal with
    | (a1, some err) =>
      (setVerifier { d1 with dealer := dl1 } d1.index { v1 with agg := some a1 }, .error (.vss err))
    | (a1, none) =>
      let dl2 := { dl1 with agg := { dl1.agg with responses := approveStored dl1.agg.responses jidx } }
      ({ setVerifier { d1 with dealer := dl1 } d1.index { v1 with agg := some a1 } with dealer := dl2 },
        .ok (some { index := d1.index, jidx := jidx, deal := deal }))

/-- `DistKeyGenerator.ProcessResponse`: new state, error or the justification it would broadcast
(`v.ProcessResponse` = nil-aggregator check + `verifyResponse` is written out) -/
def processResponse (g : P) (d : Gen S P) (m : DkgResp S P) : Gen S P × Except Err (Option (DkgJust S P)) :=
  match m.resp with
  | none => (d, .error .respNil)
  | some r =>
    match getVerifier d m.index with
    | none => (d, .error .respNoDeal)
    | some v =>
      match v.agg with
      | none => (d, .error (.vss .noDealBeforeResp))
      | some a =>
        match verifyResponse g a r with
        | .error err => (d, .error (.vss err))
        | .ok a' =>
          let v1 : Verifier S P := { v with agg := some a' }
          let d1 := setVerifier d m.index v1
          if m.index ≠ d.index then (d1, .ok none)
          else ownResponse g d1 v1 a' r

/-- `DistKeyGenerator.ProcessJustification` -/
def processJustification (g : P) (d : Gen S P) (j : DkgJust S P) : Gen S P × Option Err :=
  match getVerifier d j.index with
  | none => (d, some .justNoDeal)
  | some v =>
    match v.agg with
    | none => (d, some (.vss .noDealBeforeResp))   -- Go: nil aggregator dereference; never reached by the pipeline
    | some a =>
      let (a1, e) := verifyJustification g a j.jidx j.deal
      (setVerifier d j.index { v with agg := some a1 }, e.map .vss)

/-- `Dealer.EncryptedDeals()`: one ephemeral secret per verifier -/
def encryptedDeals (g : P) (dl : Dealer S P) (ephs : List S) : List (Option (EncDeal S P)) :=
  (List.range dl.vs.length).map (fun i =>
    match dl.deals[i]?, ephs[i]? with
    | some deal, some eph => sealDeal g dl.long dl.vs i eph 0 (.deal deal)
    | _, _ => none)

/-- `DistKeyGenerator.Deals()`: processes the own deal (once), returns the deals for the others
as (recipient, message) pairs -/
def deals (g : P) (d : Gen S P) (ephs : List S) : Out (Gen S P × List (Nat × DkgDeal S P)) :=
  let eds := encryptedDeals g d.dealer ephs
  let others := (List.range d.participants.length).filterMap (fun i =>
    if i = d.index then none else some (i, ({ index := d.index, deal := (eds[i]?).join } : DkgDeal S P)))
  if (getVerifier d d.index).isSome then .ok (d, others)
  else
    let (d1, r) := processDeal g d { index := d.index, deal := (eds[d.index]?).join }
    match r with
    | .error _ => .panic .ownDeal
    | .ok resp =>
      match resp.resp with
      | some r => if r.status = true then .ok (d1, others) else .panic .ownDeal
      | none => .panic .ownDeal

/-- `qualIter` / `QUAL()` -/
def qual (d : Gen S P) : List Nat :=
  (List.range d.verifiers.length).filter (fun j =>
    match getVerifier d j with
    | some v => v.dealCertified
    | none => false)

/-- `Certified()` -/
def certified (d : Gen S P) : Bool := decide ((qual d).length ≥ d.participants.length)

/-- `PubPoly.Add` on commitment lists -/
def pubAdd (p q : List P) : Except Err (List P) :=
  if p.length ≠ q.length then .error .coeffs else .ok (List.zipWith (· + ·) p q)

/-- the body of `DistKeyShare`'s `qualIter` callback, folded over QUAL -/
def keyShareFold (d : Gen S P) : List Nat → S → Option (List P) → Out (S × Option (List P))
  | [], sh, pub => .ok (sh, pub)
  | j :: js, sh, pub =>
    match getVerifier d j with
    | none => .panic .nilDeal
    | some v =>
      match v.dealOut with
      | some (some deal) =>
        match deal.share with
        | some ⟨_, some val⟩ =>
          match pub with
          | none => keyShareFold d js (sh + val) (some deal.commits)
          | some p =>
            match pubAdd p deal.commits with
            | .error e => .err e
            | .ok p' => keyShareFold d js (sh + val) (some p')
        | _ => .panic .nilDeal
      | _ => .panic .nilDeal

/-- `DistKeyShare()` -/
def distKeyShare (d : Gen S P) : Out (KeyShare S P) :=
  if certified d = false then .err .notCertified
  else match keyShareFold d (qual d) 0 none with
    | .err e => .err e
    | .panic s => .panic s
    | .ok (_, none) => .panic .nilDeal            -- `pub.Info()` on a nil polynomial (no participants)
    | .ok (sh, some commits) =>
      .ok { commits := commits, shareI := d.index, shareV := sh, priPoly := d.dealer.f }

end

end Dos.Dkg

/-
C20 (round 4) — point compression: `extended.ToBytes` (and `projective.ToBytes`) of a good representation of the
curve point P is THE canonical encoding `encPt P` = 32-byte little-endian of y (fully reduced, < p) with bit 255 =
parity of x (fully reduced).
-/
import DosModel.Proofs.GeBase
import DosModel.Proofs.Ed25519FeBytes

set_option exponentiation.threshold 600

namespace Dos.Ge
open Dos Dos.Ed25519 Dos.FeProg Dos.FeOps Dos.GeProg Dos.Ed25519Prime Dos.Edwards Dos.Gen.Ed25519Ge

/-- canonical encoding of a curve point -/
def encPt (P : Pt) : Bytes := natLE 32 (P.y.val + 2 ^ 255 * (P.x.val % 2))

/-- the curve point a limb structure stands for (the identity if it stands for none) -/
noncomputable def absPt (e : Ext) : Pt :=
  open Classical in
  if h : OnCurve E25519.d (val e.X / val e.Z) (val e.Y / val e.Z) then ⟨val e.X / val e.Z, val e.Y / val e.Z, h⟩ else 0

theorem absPt_of_good {e : Ext} {P : Pt} (h : GoodExt e P) : absPt e = P := by
  unfold absPt
  have hc : OnCurve E25519.d (val e.X / val e.Z) (val e.Y / val e.Z) := onCurve_of h.hx h.hy
  rw [dif_pos hc]
  exact pt_eq hc h.hx h.hy

theorem encPt_length (P : Pt) : (encPt P).length = 32 := natLE_length _ _

/-- value of a limb vector modulo p, as the `ZMod.val` of its field element -/
theorem val_val (l : L10) : (val l).val = (feVal l % pI).toNat := by
  unfold val
  have h := ZMod.val_intCast (n := Dos.Ed.p) (feVal l)
  rw [pI_eq]
  omega

theorem val_lt (x : F) : x.val < 2 ^ 255 := by
  have := ZMod.val_lt x
  have hp : Dos.Ed.p < 2 ^ 255 := by decide
  omega

/-! ### the sign bit -/

theorem natLE_succ_append : ∀ (k n : Nat), natLE (k + 1) n = natLE k n ++ [UInt8.ofNat (n / 256 ^ k % 256)]
  | 0, n => by simp [natLE]
  | k + 1, n => by
    have ih := natLE_succ_append k (n / 256)
    show UInt8.ofNat (n % 256) :: natLE (k + 1) (n / 256) = (UInt8.ofNat (n % 256) :: natLE k (n / 256)) ++ _
    rw [ih, List.cons_append, Nat.div_div_eq_div_mul, pow_succ, Nat.mul_comm]

theorem natLE_mod (k : Nat) : ∀ (n m : Nat), n % 256 ^ k = m % 256 ^ k → natLE k n = natLE k m := by
  induction k with
  | zero => intro n m _; rfl
  | succ k ih =>
    intro n m h
    have h1 : n % 256 = m % 256 := by
      have := congrArg (· % 256) h
      simpa [pow_succ, Nat.mod_mul_left_mod] using this
    have h2 : n / 256 % 256 ^ k = m / 256 % 256 ^ k := by
      have e : ∀ x : Nat, x / 256 % 256 ^ k = x % 256 ^ (k + 1) / 256 := by
        intro x; rw [pow_succ, Nat.mul_comm, Nat.mod_mul_right_div_self]
      rw [e, e, h]
    show UInt8.ofNat (n % 256) :: natLE k (n / 256) = UInt8.ofNat (m % 256) :: natLE k (m / 256)
    rw [h1, ih _ _ h2]

theorem xor_sign (t b : Nat) (ht : t < 128) (hb : b ≤ 1) :
    UInt8.ofNat t ^^^ (UInt8.ofNat b <<< 7) = UInt8.ofNat (t + 128 * b) := by
  have key : ∀ t : Fin 128, ∀ b : Fin 2, UInt8.ofNat t.1 ^^^ (UInt8.ofNat b.1 <<< 7) = UInt8.ofNat (t.1 + 128 * b.1) := by
    decide
  exact key ⟨t, ht⟩ ⟨b, by omega⟩

theorem set_last {α : Type} (l : List α) (a b : α) : (l ++ [a]).set l.length b = l ++ [b] := by
  simp

/-- `s[31] ^= sign << 7` on the little-endian encoding of y < 2^255 sets bit 255 -/
theorem set_sign (y b : Nat) (hy : y < 2 ^ 255) (hb : b ≤ 1) :
    (natLE 32 y).set 31 (((natLE 32 y).getD 31 0) ^^^ (UInt8.ofNat b <<< 7)) = natLE 32 (y + 2 ^ 255 * b) := by
  have hl : (natLE 31 y).length = 31 := natLE_length _ _
  rw [natLE_succ_append 31 y, natLE_succ_append 31 (y + 2 ^ 255 * b)]
  have e1 : natLE 31 (y + 2 ^ 255 * b) = natLE 31 y := by
    apply natLE_mod
    have : (2 : Nat) ^ 255 = 256 ^ 31 * 128 := by norm_num
    rw [this, Nat.mul_assoc, Nat.add_mul_mod_self_left]
  have hq : y / 256 ^ 31 < 128 := by
    rw [Nat.div_lt_iff_lt_mul (by positivity)]
    have : (128 : Nat) * 256 ^ 31 = 2 ^ 255 := by norm_num
    omega
  have e2 : (y + 2 ^ 255 * b) / 256 ^ 31 % 256 = y / 256 ^ 31 + 128 * b := by
    have : (2 : Nat) ^ 255 * b = 256 ^ 31 * (128 * b) := by
      have : (2 : Nat) ^ 255 = 256 ^ 31 * 128 := by norm_num
      rw [this, Nat.mul_assoc]
    rw [this, Nat.add_mul_div_left _ _ (by positivity)]
    apply Nat.mod_eq_of_lt
    omega
  have e3 : y / 256 ^ 31 % 256 = y / 256 ^ 31 := Nat.mod_eq_of_lt (by omega)
  rw [e1, e2, e3]
  have g : (natLE 31 y ++ [UInt8.ofNat (y / 256 ^ 31)]).getD 31 0 = UInt8.ofNat (y / 256 ^ 31) := by
    simp [List.getD, hl]
  rw [g, xor_sign _ _ hq hb]
  have h := set_last (natLE 31 y) (UInt8.ofNat (y / 256 ^ 31)) (UInt8.ofNat (y / 256 ^ 31 + 128 * b))
  rw [hl] at h
  exact h

/-- the common tail of both `ToBytes`: bytes of y, sign of x -/
theorem finishBytes_spec {x y : L10} {vx vy : F} (hx : R 1 x vx) (hy : R 1 y vy) :
    finishBytes x y = natLE 32 (vy.val + 2 ^ 255 * (vx.val % 2)) := by
  unfold finishBytes
  simp only
  have sy := (feToBytes_spec y (Bounded.mono13 hy.1)).1
  have sx := (feIsNegative_spec x (Bounded.mono13 hx.1)).1
  have ey : (feVal y % pI).toNat = vy.val := by rw [← val_val, hy.2]
  have ex : (feVal x % pI).toNat = vx.val := by rw [← val_val, hx.2]
  rw [ey] at sy
  rw [ex] at sx
  rw [sy]
  have hneg : (feIsNegative x).1 = UInt8.ofNat (vx.val % 2) := by
    apply UInt8.toNat_inj.1
    rw [sx, UInt8.toNat_ofNat']
    omega
  rw [hneg]
  exact set_sign _ _ (val_lt vy) (by omega)

end Dos.Ge

namespace Dos.Ge
open Dos Dos.Ed25519 Dos.FeProg Dos.FeOps Dos.GeProg Dos.Ed25519Prime Dos.Edwards Dos.Gen.Ed25519Ge

theorem invF_eq (z : F) (hz : z ≠ 0) : invF z = z⁻¹ := pow_inv z hz

/-- **extended.ToBytes** (= point.MarshalBinary): the canonical encoding of the represented point -/
theorem extToBytes_spec {p : Ext} {P : Pt} (hp : GoodExt p P) : extToBytes p = encPt P := by
  have hrel := extRel hp
  rw [← flatten1 p.regs] at hrel
  obtain ⟨_, _, hget⟩ := call_refines extended_ToBytes [p.regs] 3 0 (Or.inl rfl) hrel
    (M1 := [some 2, some 1, some 1, some 1, some 1, some 1, some 1, some 1, some 1, some 1]) (by decide)
  generalize hX : runBody fieldAlg 0 (seqBases extended_ToBytes.objs 0) 0 extended_ToBytes.body _ = X1 at hget
  -- evaluated for an ARBITRARY algebra (so that the kernel does not unfold the power `invF`), then instantiated
  have g5 : ∀ A : FeAlg F, (runBody A 0 (seqBases extended_ToBytes.objs 0) 0 extended_ToBytes.body
      ([val p.X, val p.Y, val p.Z, val p.T] ++ List.replicate 3 0 ++ constsF)).getD 5 0
      = A.mul (val p.X) (A.invert (val p.Z)) := fun _ => rfl
  have g6 : ∀ A : FeAlg F, (runBody A 0 (seqBases extended_ToBytes.objs 0) 0 extended_ToBytes.body
      ([val p.X, val p.Y, val p.Z, val p.T] ++ List.replicate 3 0 ++ constsF)).getD 6 0
      = A.mul (val p.Y) (A.invert (val p.Z)) := fun _ => rfl
  have v5 : X1.getD 5 0 = val p.X * invF (val p.Z) := by rw [← hX]; exact g5 fieldAlg
  have v6 : X1.getD 6 0 = val p.Y * invF (val p.Z) := by rw [← hX]; exact g6 fieldAlg
  have r5 := hget 5 1 (by decide)
  have r6 := hget 6 1 (by decide)
  rw [v5, invF_eq _ hp.z_ne, ← div_eq_mul_inv, hp.hx] at r5
  rw [v6, invF_eq _ hp.z_ne, ← div_eq_mul_inv, hp.hy] at r6
  unfold extToBytes
  simp only
  have l5 : locOf extended_ToBytes extended_ToBytes_x = 5 := by decide
  have l6 : locOf extended_ToBytes extended_ToBytes_y = 6 := by decide
  rw [l5, l6]
  exact finishBytes_spec r5 r6

theorem projToBytes_spec {p : Proj} {P : Pt} (hp : GoodProj p P) : projToBytes p = encPt P := by
  have hrel := projRel hp
  rw [← flatten1 p.regs] at hrel
  obtain ⟨_, _, hget⟩ := call_refines projective_ToBytes [p.regs] 3 0 (Or.inl rfl) hrel
    (M1 := [some 2, some 1, some 1, some 1, some 1, some 1, some 1, some 1, some 1]) (by decide)
  generalize hX : runBody fieldAlg 0 (seqBases projective_ToBytes.objs 0) 0 projective_ToBytes.body _ = X1 at hget
  have g4 : ∀ A : FeAlg F, (runBody A 0 (seqBases projective_ToBytes.objs 0) 0 projective_ToBytes.body
      ([val p.X, val p.Y, val p.Z] ++ List.replicate 3 0 ++ constsF)).getD 4 0
      = A.mul (val p.X) (A.invert (val p.Z)) := fun _ => rfl
  have g5 : ∀ A : FeAlg F, (runBody A 0 (seqBases projective_ToBytes.objs 0) 0 projective_ToBytes.body
      ([val p.X, val p.Y, val p.Z] ++ List.replicate 3 0 ++ constsF)).getD 5 0
      = A.mul (val p.Y) (A.invert (val p.Z)) := fun _ => rfl
  have v4 : X1.getD 4 0 = val p.X * invF (val p.Z) := by rw [← hX]; exact g4 fieldAlg
  have v5 : X1.getD 5 0 = val p.Y * invF (val p.Z) := by rw [← hX]; exact g5 fieldAlg
  have r4 := hget 4 1 (by decide)
  have r5 := hget 5 1 (by decide)
  rw [v4, invF_eq _ hp.z_ne, ← div_eq_mul_inv, hp.hx] at r4
  rw [v5, invF_eq _ hp.z_ne, ← div_eq_mul_inv, hp.hy] at r5
  unfold projToBytes
  simp only
  have l4 : locOf projective_ToBytes projective_ToBytes_x = 4 := by decide
  have l5 : locOf projective_ToBytes projective_ToBytes_y = 5 := by decide
  rw [l4, l5]
  exact finishBytes_spec r4 r5

/-- the encoding determines the point -/
theorem encPt_inj {P Q : Pt} (h : encPt P = encPt Q) : P = Q := by
  unfold encPt at h
  have h1 := congrArg leNat h
  have bound : ∀ R : Pt, R.y.val + 2 ^ 255 * (R.x.val % 2) < 256 ^ 32 := by
    intro R
    have := val_lt R.y
    have e : (256 : Nat) ^ 32 = 2 ^ 255 * 2 := by norm_num
    have : R.x.val % 2 < 2 := Nat.mod_lt _ (by decide)
    omega
  rw [leNat_natLE_of_lt _ _ (bound P), leNat_natLE_of_lt _ _ (bound Q)] at h1
  have hy : P.y.val = Q.y.val := by
    have := val_lt P.y; have := val_lt Q.y
    omega
  have hs : P.x.val % 2 = Q.x.val % 2 := by
    have := val_lt P.y; have := val_lt Q.y
    omega
  have ey : P.y = Q.y := ZMod.val_injective _ hy
  -- x² is determined by y (the curve equation with 1 + d y² ≠ 0), and the parity picks the root
  have hv : ∀ R : Pt, (1 + E25519.d * R.y ^ 2) * R.x ^ 2 = R.y ^ 2 - 1 := by
    intro R
    have := R.on
    unfold OnCurve at this
    linear_combination -this
  have hvne : (1 + E25519.d * P.y ^ 2) ≠ 0 := by
    intro h0
    have hy0 : P.y ≠ 0 := by
      intro hz; rw [hz] at h0; simp at h0
    apply E25519.d_nonsq
    refine ⟨E25519.i / P.y, ?_⟩
    have hi := E25519.i_sq
    rw [div_mul_div_comm, eq_div_iff (mul_ne_zero hy0 hy0)]
    linear_combination h0 - hi
  have hxx : P.x ^ 2 = Q.x ^ 2 := by
    have h1 := hv P
    have h2 := hv Q
    rw [← ey] at h2
    exact mul_left_cancel₀ hvne (h1.trans h2.symm)
  have hx : P.x = Q.x := by
    rcases sq_eq_sq_iff_eq_or_eq_neg.1 hxx with h | h
    · exact h
    · -- P.x = −Q.x with equal parities forces both to be 0
      by_cases hq : Q.x = 0
      · rw [h, hq, neg_zero]
      · exfalso
        have hval : P.x.val = Dos.Ed.p - Q.x.val := by
          rw [h, ZMod.neg_val]; simp [hq]
        have hlt := ZMod.val_lt Q.x
        have hpos : 0 < Q.x.val := Nat.pos_of_ne_zero (fun hz => hq ((ZMod.val_eq_zero _).1 hz))
        have hodd : Dos.Ed.p % 2 = 1 := by decide
        omega
  exact Point.ext hx ey

end Dos.Ge

package c07

// The member list and the submitter (round 4).
//
//	subm <lastRand> <id;id;…>
//	    choseSubmitter on an EXPLICIT member list: ids in arbitrary (unsorted) order, with
//	    duplicates, 1 … 300 members (more than 255, more than one byte of index), ids of
//	    different lengths. The model prints the id it selects.
//	grp <me> <ops> <gid> <lastRand>
//	    (group ids decimal; the node keys its table by their hex text, as onchainLoop does)
//	    ops = G:<gid>:<id;id;…> | D:<gid>, comma separated: LogGrouping / group dissolve events as
//	    they reach the node. Every G goes through the REAL handleGrouping (membership test) and
//	    the REAL pdkg.Grouping (group table, LoadOrStore) of a node built around a real pdkg;
//	    D is a LogGroupDissolve event handed to the node's REAL onchainLoop (round 5: the node calls
//	    pdkg.GroupDissolve only when it holds a share – it never does in these cases, so the entry stays;
//	    histories with a share: grpd, groupk.go). Then the node's list for <gid> (pdkg.GetGroupIDs, what groupInfo
//	    hands to handleQuery) goes to the real choseSubmitter. Printed: "nogroup" or
//	    "n=<len> id <submitter>". The oracle recomputes it from the case line alone: the list of the
//	    first G for <gid> that names <me>, indexed by (lastRand mod 2^64) mod n.
//	    The block time of the chain double is 0, so the key generation started by Grouping is
//	    cancelled at once: only the bookkeeping is exercised (the key generation itself is C04).

import (
	"bytes"
	"fmt"
	"math/big"
	"strings"
	"sync"
	"sync/atomic"
	"time"

	"github.com/DOSNetwork/core/dosnode"
	"github.com/DOSNetwork/core/onchain"
	dkg "github.com/DOSNetwork/core/share/dkg/pedersen"

	"verifharness/internal/dkgnet"
	"verifharness/internal/doubles"
	"verifharness/internal/h"
)

func splitIDs(s string) [][]byte {
	if s == "-" {
		return nil
	}
	var out [][]byte
	for _, t := range strings.Split(s, ";") {
		out = append(out, exact(h.UnHex(t)))
	}
	return out
}

func joinIDs(ids [][]byte) string {
	if len(ids) == 0 {
		return "-"
	}
	var ts []string
	for _, id := range ids {
		ts = append(ts, h.Hex(id))
	}
	return strings.Join(ts, ";")
}

func copyIDs(ids [][]byte) [][]byte {
	out := make([][]byte, len(ids))
	for i, id := range ids {
		out[i] = exact(id)
	}
	return out
}

func sameIDs(a, b [][]byte) bool {
	if len(a) != len(b) {
		return false
	}
	for i := range a {
		if !bytes.Equal(a[i], b[i]) {
			return false
		}
	}
	return true
}

// wantSubmitter: the property's formula on the announced list, math/big only
func wantSubmitter(ids [][]byte, r *big.Int) []byte {
	low := new(big.Int).And(r, new(big.Int).Sub(two64, big.NewInt(1)))
	i := new(big.Int).Mod(low, big.NewInt(int64(len(ids)))).Int64()
	return ids[i]
}

func execSubm(w []string) (res h.Result) {
	r, ids := h.BigDec(w[1]), splitIDs(w[2])
	keepR, keepI := new(big.Int).Set(r), copyIDs(ids)
	res.Nontrivial = true
	res.Class = fmt.Sprintf("subm n%s %s", sizeClass(len(ids)), map[bool]string{true: ">=2^64", false: "<2^64"}[r.Cmp(two64) >= 0])
	e, o := det(func() ([]byte, string) { return stageSubmitter(r, ids) }, nil)
	res.Impl = e.tag
	if e.tag == "" {
		res.Impl = "id " + h.Hex(e.copy)
	}
	var o2 string
	if want := wantSubmitter(keepI, keepR); e.tag != "" || !bytes.Equal(e.copy, want) {
		o2 = fmt.Sprintf("submitter-index: chose %s; entry (lastRand mod 2^64) mod %d of the list as given is %s", res.Impl, len(keepI), h.Hex(want))
	}
	if r.Cmp(keepR) != 0 {
		o2 = "input-modified: lastSysRand was changed by choseSubmitter"
	}
	if !sameIDs(ids, keepI) {
		o2 = "input-modified: the member list was changed (reordered / overwritten) by choseSubmitter"
	}
	res.Oracle = first(o, o2)
	return
}

func sizeClass(n int) string {
	switch {
	case n == 1:
		return "=1"
	case n <= 21:
		return "<=21"
	case n <= 255:
		return "<=255"
	}
	return ">255"
}

// ---------------------------------------------------------------- grp

type gop struct {
	dissolve bool
	gid      string
	gidNum   *big.Int
	ids      [][]byte
}

// grpChain: the recording chain double with a block time that can be changed while the node runs:
// onchainLoop needs a positive one for its ticker, handleGrouping multiplies it into the deadline of
// the key generation (0 = cancelled at once: only the bookkeeping runs).
type grpChain struct {
	*doubles.Chain
	bt uint64
}

func (c *grpChain) GetBlockTime() uint64 { return atomic.LoadUint64(&c.bt) }

func parseGops(s string) []gop {
	if s == "-" {
		return nil
	}
	var out []gop
	for _, t := range strings.Split(s, ",") {
		f := strings.Split(t, ":")
		switch f[0] {
		case "D":
			out = append(out, gop{dissolve: true, gid: gidKey(f[1]), gidNum: h.BigDec(f[1])})
		case "G":
			out = append(out, gop{gid: gidKey(f[1]), ids: splitIDs(f[2])})
		default:
			panic("bad grp op")
		}
	}
	return out
}

// gidKey: the table key onchainLoop derives from the event: fmt.Sprintf("%x", content.GroupId)
func gidKey(dec string) string { return fmt.Sprintf("%x", h.BigDec(dec)) }

var quietOnce sync.Once

func execGrp(w []string) (res h.Result) {
	quietOnce.Do(dkgnet.Quiet) // the key-generation stages print progress with fmt.Println
	me, ops, gid, r := exact(h.UnHex(w[1])), parseGops(w[2]), gidKey(w[3]), h.BigDec(w[4])
	res.Nontrivial = true

	p := doubles.NewP2P(me, 4)
	chain := &grpChain{Chain: &doubles.Chain{Events: make(chan interface{})}, bt: 1}
	table := dkg.NewPDKG(p, suite)
	node := dosnode.VerifNewNode(me, p, chain, table, 4, quiet)
	defer node.VerifCancel()
	// a dissolve event goes through the REAL dispatch branch of onchainLoop
	// (`if d.isMember(groupID) { d.dkg.GroupDissolve(groupID) }`, review H #6)
	give := func(ev interface{}) bool {
		select {
		case chain.Events <- ev:
			return true
		case <-time.After(15 * time.Second):
			return false
		}
	}
	looping := false
	for _, op := range ops {
		looping = looping || op.dissolve
	}
	if looping {
		go node.VerifOnchainLoop()
		if !give(struct{}{}) { // taken: the loop has set up its ticker with the positive block time
			res.Impl, res.Oracle = "stuck event", "grp-stuck: onchainLoop did not take a chain event for 15 s"
			return
		}
	}
	atomic.StoreUint64(&chain.bt, 0)

	// the oracle's own book: group id → list of the first accepted announcement, from the case line.
	// No key generation completes in these cases, so the node never holds a share and a dissolve event
	// deletes nothing (the `grpd` cases have the histories with a share).
	want := map[string][][]byte{}
	var kept [][][]byte // the slices handed to the node, and their values at that time
	var keptCopy [][][]byte
	for _, op := range ops {
		if op.dissolve {
			if !give(&onchain.LogGroupDissolve{GroupId: new(big.Int).Set(op.gidNum)}) || !give(struct{}{}) {
				res.Impl, res.Oracle = "stuck event", "grp-stuck: onchainLoop did not take a chain event for 15 s"
				return
			}
			continue
		}
		handed := copyIDs(op.ids)
		kept, keptCopy = append(kept, handed), append(keptCopy, copyIDs(op.ids))
		node.VerifPipesHandleGrouping(handed, op.gid)
		member := false
		for _, id := range op.ids {
			if bytes.Equal(id, me) {
				member = true
			}
		}
		if _, have := want[op.gid]; member && !have {
			want[op.gid] = copyIDs(op.ids)
		}
	}
	got := table.GetGroupIDs(gid)
	wl := want[gid]
	res.Class = fmt.Sprintf("grp %d ops group %s", len(ops), map[bool]string{true: "known", false: "unknown"}[len(wl) > 0])
	var o []string
	if !sameIDs(got, wl) {
		o = append(o, fmt.Sprintf("member-list: the node's list for group %s is [%.200s] (%d ids), announced on chain was [%.200s] (%d ids)", gid, joinIDs(got), len(got), joinIDs(wl), len(wl)))
	}
	for i := range kept {
		if !sameIDs(kept[i], keptCopy[i]) {
			o = append(o, "input-modified: the member list of an announcement was changed by the node")
		}
	}
	if len(got) == 0 { // groupInfo: "No Group info", the event is ignored
		res.Impl = "nogroup"
	} else {
		sub, tag := stageSubmitter(r, got)
		if tag != "" {
			res.Impl = tag
		} else {
			res.Impl = fmt.Sprintf("n=%d id %s", len(got), h.Hex(sub))
		}
		if len(wl) > 0 {
			if ws := wantSubmitter(wl, r); tag != "" || !bytes.Equal(sub, ws) {
				o = append(o, fmt.Sprintf("submitter-index: chose %s; entry (lastRand mod 2^64) mod %d of the list announced on chain is %s", res.Impl, len(wl), h.Hex(ws)))
			}
		}
		// the table still holds the announced list after choseSubmitter used it
		if again := table.GetGroupIDs(gid); !sameIDs(again, wl) && len(o) == 0 {
			o = append(o, "member-list: the node's list changed when the submitter was chosen from it")
		}
	}
	res.Oracle = pick(o, "member-list", "submitter-index", "input-modified")
	return
}

// ---------------------------------------------------------------- generation

func randID(rng *h.Rng) []byte {
	id := rng.Bytes(20)
	switch rng.Intn(10) {
	case 0:
		id[0] = 0
	case 1:
		id[0] = 0xff
	case 2:
		id[19] = 0
	}
	return id
}

// idList: n ids in random (unsorted) order; dup > 0 repeats some of them
func idList(rng *h.Rng, n, dup int) [][]byte {
	ids := make([][]byte, n)
	for i := range ids {
		ids[i] = randID(rng)
	}
	for k := 0; k < dup && n > 1; k++ {
		ids[rng.Intn(n)] = ids[rng.Intn(n)]
	}
	return ids
}

func genGroup(tier string, rng *h.Rng, emit func(string)) {
	thorough := tier == "thorough"
	rs := rands(rng, false)
	special := []*big.Int{
		big.NewInt(0), big.NewInt(1),
		new(big.Int).Sub(new(big.Int).Lsh(big.NewInt(1), 63), big.NewInt(1)),
		new(big.Int).Lsh(big.NewInt(1), 63), // int64 overflow
		new(big.Int).Add(new(big.Int).Lsh(big.NewInt(1), 63), big.NewInt(12345)),
		new(big.Int).Sub(two64, big.NewInt(1)), new(big.Int).Set(two64), new(big.Int).Add(two64, big.NewInt(7)),
		new(big.Int).Sub(two256, big.NewInt(1)), new(big.Int).Set(two256), new(big.Int).Add(two256, big.NewInt(255)),
		new(big.Int).Lsh(big.NewInt(0xabcdef), 300),
	}
	pickR := func() *big.Int {
		if rng.Intn(3) == 0 {
			return special[rng.Intn(len(special))]
		}
		return rs[rng.Intn(len(rs))]
	}
	// explicit lists: every size 1..24, then up to 300 (> 255: the index needs more than a byte)
	sizes := []int{}
	for n := 1; n <= 24; n++ {
		sizes = append(sizes, n)
	}
	sizes = append(sizes, 31, 32, 33, 63, 64, 65, 127, 128, 129, 200, 254, 255, 256, 257, 300)
	reps := 2
	if thorough {
		reps = 8
	}
	for _, n := range sizes {
		for k := 0; k < reps; k++ {
			for _, r := range []*big.Int{pickR(), special[rng.Intn(len(special))]} {
				emit(fmt.Sprintf("subm %s %s", r, joinIDs(idList(rng, n, (k%2)*(1+rng.Intn(3))))))
			}
		}
	}
	// every index of a 300-member list is reachable: the last, the 256th, …
	big300 := idList(rng, 300, 0)
	for _, idx := range []int64{0, 1, 255, 256, 257, 299} {
		r := new(big.Int).Add(new(big.Int).Mul(big.NewInt(300), new(big.Int).SetUint64(rng.U64()>>10)), big.NewInt(idx))
		emit(fmt.Sprintf("subm %s %s", r, joinIDs(big300)))
		emit(fmt.Sprintf("subm %s %s", new(big.Int).Add(r, new(big.Int).Lsh(new(big.Int).SetBytes(rng.Bytes(24)), 64)), joinIDs(big300)))
	}
	// ids of unequal lengths (the stage does not look at them)
	emit(fmt.Sprintf("subm %s %s", pickR(), joinIDs([][]byte{{9}, {1, 2, 3}, rng.Bytes(32), {0}, rng.Bytes(20)})))

	// group bookkeeping histories
	ng := 120
	if thorough {
		ng = 1200
	}
	for i := 0; i < ng; i++ {
		me := randID(rng)
		gids := []string{"1", "163", new(big.Int).SetBytes(rng.Bytes(1 + rng.Intn(32))).String()}
		var ops []string
		nops := 1 + rng.Intn(6)
		for k := 0; k < nops; k++ {
			g := gids[rng.Intn(3)]
			if rng.Intn(5) == 0 {
				ops = append(ops, "D:"+g)
				continue
			}
			n := 1 + rng.Intn(9)
			if rng.Intn(12) == 0 {
				n = 30 + rng.Intn(40)
			}
			ids := idList(rng, n, rng.Intn(3)/2)
			switch rng.Intn(6) {
			case 0: // not a member
			case 1: // member twice
				ids[rng.Intn(n)] = me
				ids[rng.Intn(n)] = me
			default:
				ids[rng.Intn(n)] = me
			}
			if k > 0 && rng.Intn(6) == 0 { // the same members re-announced in another order
				perm := rng.Perm(len(ids))
				sh := make([][]byte, len(ids))
				for a, b := range perm {
					sh[a] = ids[b]
				}
				ids = sh
			}
			ops = append(ops, "G:"+g+":"+joinIDs(ids))
		}
		q := gids[rng.Intn(3)]
		if rng.Intn(6) > 0 { // mostly a group that was announced in this history
			q = strings.Split(ops[rng.Intn(len(ops))], ":")[1]
		}
		emit(fmt.Sprintf("grp %s %s %s %s", h.Hex(me), strings.Join(ops, ","), q, pickR()))
	}
}

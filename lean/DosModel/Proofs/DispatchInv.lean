import DosModel.Proofs.Dispatch

/-! System invariant of the request/reply model and its preservation by every event. -/
namespace Dos.Dispatch
open Dos

structure Core (s : Sys) : Prop where
  req    : ∀ i, RInv (s.reqs i)
  absent : ∀ i, s.n ≤ i → s.reqs i = {}
  bound  : ∀ i k, (s.reqs i).nonce = some k → k < s.conn.next
  uniq   : ∀ i j k, (s.reqs i).nonce = some k → (s.reqs j).nonce = some k → i = j

structure Inv (s : Sys) : Prop where
  core : Core s
  pend : ∀ k i, (k, i) ∈ s.conn.pending →
           k < s.conn.next ∧ (s.reqs i).nonce = some k ∧ (s.reqs i).rtype = .send ∧
           preTable (s.reqs i).stage = false ∧ (s.reqs i).onceT = false

theorem Core.lt_of_stage {s : Sys} (hc : Core s) {i : Nat} (h : (s.reqs i).stage ≠ .absent) : i < s.n := by
  apply Nat.lt_of_not_le; intro hle; rw [hc.absent i hle] at h; exact h rfl

theorem Core.lt_of_ctx {s : Sys} (hc : Core s) {i : Nat} (h : (s.reqs i).ctxDone = true) : i < s.n := by
  apply Nat.lt_of_not_le; intro hle; rw [hc.absent i hle] at h; simp at h

theorem Inv.init : Inv init := by
  refine ⟨⟨?_, ?_, ?_, ?_⟩, ?_⟩
  · intro i; exact RInv.default
  · intro i _; rfl
  · intro i k h; simp [Dispatch.init] at h
  · intro i j k h; simp [Dispatch.init] at h
  · intro k i h; simp [Dispatch.init] at h

theorem stage_change {r : Req} (hr : RInv r) (st : Stage)
    (hal : ∀ h, allowed r.stage r.rtype h = true → allowed st r.rtype h = true)
    (hp : preTable st = true → preTable r.stage = true) : RInv { r with stage := st } := by
  constructor
  · exact hr.count
  · exact hr.vals
  · exact hr.wctx
  · intro h hh
    have : r.once h = true := by cases h <;> exact hh
    exact hal h (hr.flags h this)
  · intro h; exact hr.nonce (hp h)

theorem ctx_change {r : Req} (hr : RInv r) : RInv { r with ctxDone := true } := by
  constructor
  · exact hr.count
  · exact hr.vals
  · intro _; rfl
  · intro h hh
    have : r.once h = true := by cases h <;> exact hh
    exact hr.flags h this
  · exact hr.nonce

theorem waiter_ctx {r : Req} (hr : RInv r) (hc : r.ctxDone = true) (hw : r.waiter = .waiting) :
    RInv { r with waiter := .ctxErr } := by
  constructor
  · exact hr.count
  · have := hr.vals; rw [hw] at this; exact this
  · intro _; exact hc
  · intro h hh
    have : r.once h = true := by cases h <;> exact hh
    exact hr.flags h this
  · exact hr.nonce

@[simp] theorem upd_reqs_same (s : Sys) (i : Nat) (f : Req → Req) : (s.upd i f).reqs i = f (s.reqs i) := by
  simp [Sys.upd]
theorem upd_reqs_other (s : Sys) (i j : Nat) (f : Req → Req) (h : j ≠ i) : (s.upd i f).reqs j = s.reqs j := by
  simp [Sys.upd, h]
@[simp] theorem upd_conn (s : Sys) (i : Nat) (f : Req → Req) : (s.upd i f).conn = s.conn := rfl
@[simp] theorem upd_n (s : Sys) (i : Nat) (f : Req → Req) : (s.upd i f).n = s.n := rfl
@[simp] theorem upd_feed (s : Sys) (i : Nat) (f : Req → Req) : (s.upd i f).feed = s.feed := rfl
@[simp] theorem upd_wire (s : Sys) (i : Nat) (f : Req → Req) : (s.upd i f).wire = s.wire := rfl

/-- frame lemma: an update of an existing request that keeps its nonce -/
theorem Core.upd {s : Sys} (hs : Core s) (i : Nat) (f : Req → Req)
    (h1 : RInv (f (s.reqs i)))
    (h2 : (f (s.reqs i)).nonce = (s.reqs i).nonce)
    (h5 : i < s.n) : Core (s.upd i f) := by
  have hnonce : ∀ j, ((s.upd i f).reqs j).nonce = (s.reqs j).nonce := by
    intro j; by_cases hj : j = i
    · subst hj; simpa using h2
    · rw [upd_reqs_other _ _ _ _ hj]
  constructor
  · intro j; by_cases hj : j = i
    · subst hj; simpa using h1
    · rw [upd_reqs_other _ _ _ _ hj]; exact hs.req j
  · intro j hj
    have hji : j ≠ i := by intro e; subst e; exact absurd h5 (Nat.not_lt.mpr hj)
    rw [upd_reqs_other _ _ _ _ hji]; exact hs.absent j hj
  · intro j k h; rw [hnonce] at h; exact hs.bound j k h
  · intro j j' k h h'; rw [hnonce] at h h'; exact hs.uniq j j' k h h'

/-- … and also its type, its side of the table boundary and the table copy's Once -/
theorem Inv.upd {s : Sys} (hs : Inv s) (i : Nat) (f : Req → Req)
    (h1 : RInv (f (s.reqs i)))
    (h2 : (f (s.reqs i)).nonce = (s.reqs i).nonce)
    (h3 : (f (s.reqs i)).rtype = (s.reqs i).rtype)
    (h4 : preTable (f (s.reqs i)).stage = preTable (s.reqs i).stage)
    (h6 : (f (s.reqs i)).onceT = (s.reqs i).onceT)
    (h5 : i < s.n) : Inv (s.upd i f) := by
  refine ⟨hs.core.upd i f h1 h2 h5, ?_⟩
  intro k j hkj
  have := hs.pend k j hkj
  by_cases hj : j = i
  · subst hj; simp only [upd_reqs_same, upd_conn, h2, h3, h4, h6]; exact this
  · rw [upd_reqs_other _ _ _ _ hj]; exact this

/-- completion through the dispatch table of a registered request -/
theorem Core.completeTable {s : Sys} (hs : Core s) (i : Nat) (v : Res) (w : Bool) (pre : Req → Req)
    (hpre : ∀ r, RInv r → RInv (pre r))
    (hpn : ∀ r, (pre r).nonce = r.nonce) (hpt : ∀ r, (pre r).rtype = r.rtype)
    (hps : ∀ r, (pre r).stage = r.stage)
    (ht : (s.reqs i).rtype = .send) (hst : preTable (s.reqs i).stage = false) :
    Core (s.upd i (fun r => (pre r).complete .table v w)) := by
  have hne : (s.reqs i).stage ≠ .absent := by
    intro e; rw [e] at hst; simp [preTable] at hst
  apply hs.upd i _ _ _ (hs.lt_of_stage hne)
  · apply complete_inv (hpre _ (hs.req i))
    rw [hps, hpt, ht]
    cases hh : (s.reqs i).stage <;> simp [hh, preTable] at hst <;> rfl
  · simp [hpn]

/-- `complete` is idempotent per holder (that is what the Once gives) -/
theorem complete_idem (r : Req) (h : Holder) (v : Res) (w : Bool) :
    (r.complete h v w).complete h v w = r.complete h v w := by
  have : (r.complete h v w).once h = true := by rw [complete_once]; simp
  unfold Req.complete at this ⊢
  simp only [this, if_true]

theorem failAll_reqs (win : List Nat) : ∀ (p : List (Nat × Nat)) (s : Sys) (j : Nat),
    (failAll win p s).reqs j =
      if (p.map Prod.snd).contains j then (s.reqs j).complete .table .errClosed (win.contains j)
      else s.reqs j := by
  intro p
  induction p with
  | nil => intro s j; simp [failAll]
  | cons e rest ih =>
    intro s j
    obtain ⟨k, i⟩ := e
    simp only [failAll, ih, List.map_cons, List.contains_cons]
    by_cases hj : j = i
    · subst hj
      simp only [upd_reqs_same, BEq.rfl, Bool.true_or, if_true]
      split
      · exact complete_idem _ _ _ _
      · rfl
    · rw [upd_reqs_other _ _ _ _ hj]
      have : (j == i) = false := by simpa using hj
      rw [this, Bool.false_or]

theorem failAll_frame (win : List Nat) : ∀ (p : List (Nat × Nat)) (s : Sys),
    (failAll win p s).conn = s.conn ∧ (failAll win p s).n = s.n ∧
    (failAll win p s).feed = s.feed ∧ (failAll win p s).wire = s.wire := by
  intro p
  induction p with
  | nil => intro s; exact ⟨rfl, rfl, rfl, rfl⟩
  | cons e rest ih =>
    intro s; obtain ⟨k, i⟩ := e
    simp only [failAll]
    have := ih (s.upd i (fun r => r.complete .table .errClosed (win.contains i)))
    exact this

theorem failAll_core (win : List Nat) : ∀ (p : List (Nat × Nat)) (s : Sys), Core s →
    (∀ k i, (k, i) ∈ p → (s.reqs i).rtype = .send ∧ preTable (s.reqs i).stage = false) →
    Core (failAll win p s) := by
  intro p
  induction p with
  | nil => intro s hs _; exact hs
  | cons e rest ih =>
    intro s hs hp
    obtain ⟨k, i⟩ := e
    have hi := hp k i (by simp)
    have hs1 := hs.completeTable i .errClosed (win.contains i) id (fun _ h => h) (fun _ => rfl)
      (fun _ => rfl) (fun _ => rfl) hi.1 hi.2
    simp only [id] at hs1
    simp only [failAll]
    apply ih _ hs1
    intro k' i' h'
    have := hp k' i' (by simp [h'])
    by_cases hj : i' = i
    · subst hj; simpa using this
    · rw [upd_reqs_other _ _ _ _ hj]; exact this

theorem lookup_mem {p : List (Nat × Nat)} {k i : Nat} (h : lookup p k = some i) : (k, i) ∈ p := by
  unfold lookup at h
  split at h
  · rename_i e he
    have hm := List.mem_of_find?_eq_some he
    have hk := List.find?_some he
    simp at hk h
    cases e; simp_all
  · simp at h

theorem mem_erase {p : List (Nat × Nat)} {k k' i : Nat} (h : (k', i) ∈ erase p k) : (k', i) ∈ p := by
  unfold erase at h
  exact (List.mem_filter.mp h).1

end Dos.Dispatch

/-
C10 — curve arithmetic, scalar multiplication and the pairing-check logic (layers 5, 6).
`Jac.add`, `Jac.double`, `Jac.mulLoop` are curvePoint/twistPoint `Add`, `Double`, `Mul` of
curve.go / twist.go transcribed statement by statement (Model/Bn256Curve.lean; run by the
driver over gfP and gfP2 and compared with the real code on every run, receiver state and
aliasing included). Here: over EVERY field K whose squaring operation squares (`hsq`).
Only theorems; lemmas in Proofs/Bn256Curve.lean, Proofs/Bn256CurveMul.lean.
-/
import DosModel.Proofs.Bn256Curve
import DosModel.Proofs.Bn256CurveMul
import DosModel.Proofs.Bn256Tower2
import DosModel.Proofs.Bn256CurveGroup

namespace Dos.Props.C10Curve
open Dos.Bn256 Dos.Bn256.Jac

/-- the squaring operation of the two instantiations is squaring: gfpMul(a,a) for gfP by definition,
gfP2.Square by `Fp2.square_eq` (over any commutative ring in place of gfP) -/
theorem twist_squaring_is_squaring {α : Type} [CommRing α] (a : Fp2 α) : Sq.sq a = a * a :=
  Fp2.square_eq a

section
variable {K : Type} [Field K] [Sq K] [DecidableEq K]

/-- **Double, closed form** (any representative, any receiver): X₃ = 9X⁴ − 8XY², Y₃ = 3X²(4XY² − X₃) − 8Y⁴,
Z₃ = 2YZ, and the receiver's `t` is left as it was -/
theorem double_closed_form (hsq : ∀ a : K, Sq.sq a = a * a) (c a : Jac K) :
    (double c a).x = 9 * a.x ^ 4 - 8 * a.x * a.y ^ 2 ∧
    (double c a).y = 3 * a.x ^ 2 * (4 * a.x * a.y ^ 2 - (9 * a.x ^ 4 - 8 * a.x * a.y ^ 2)) - 8 * a.y ^ 4 ∧
    (double c a).z = 2 * a.y * a.z ∧ (double c a).t = c.t := double_formulas hsq c a

/-- **Add, every branch**: identity on either side returns the other operand unchanged; otherwise the
code's two comparisons are H = x₂z₁² − x₁z₂² = 0 and N = y₂z₁³ − y₁z₂³ = 0; both ⇒ Double(a); else
x₃ = 4(N² − (x₁z₂² + x₂z₁²)H²), y₃ = 8N·x₁z₂²H² − 2N·x₃ − 8y₁z₂³H³, z₃ = 2z₁z₂H -/
theorem add_all_branches (hsq : ∀ a : K, Sq.sq a = a * a) (c a b : Jac K) :
    (a.z = 0 → add c a b = b) ∧
    (a.z ≠ 0 → b.z = 0 → add c a b = a) ∧
    (a.z ≠ 0 → b.z ≠ 0 → H a b = 0 → N a b = 0 → add c a b = double c a) ∧
    (a.z ≠ 0 → b.z ≠ 0 → H a b = 0 → N a b ≠ 0 → (add c a b).z = 0) ∧
    (a.z ≠ 0 → b.z ≠ 0 → ¬ (H a b = 0 ∧ N a b = 0) →
      add c a b = ⟨4 * (N a b ^ 2 - (a.x * b.z ^ 2 + b.x * a.z ^ 2) * H a b ^ 2),
        8 * N a b * (a.x * b.z ^ 2) * H a b ^ 2
          - 2 * N a b * (4 * (N a b ^ 2 - (a.x * b.z ^ 2 + b.x * a.z ^ 2) * H a b ^ 2))
          - 8 * a.y * b.z ^ 3 * H a b ^ 3,
        2 * a.z * b.z * H a b, c.t⟩) := by
  refine ⟨add_inf_left c a b, add_inf_right c a b, add_same hsq c a b, add_opposite hsq c a b, ?_⟩
  intro ha hb h
  rw [add_cases hsq c a b ha hb, if_neg h]

/-- H = 0 ∧ N = 0 says exactly "same affine point" (whatever the two Jacobian representatives) -/
theorem same_point_test (a b : Jac K) (ha : a.z ≠ 0) (hb : b.z ≠ 0) :
    (H a b = 0 ∧ N a b = 0) ↔ (ax a = ax b ∧ ay a = ay b) := same_affine_iff a b ha hb

/-- **add_affine**: the affine image (X/Z², Y/Z³) of the Jacobian result is the chord sum for
different x, and the tangent sum when the same point is given twice — for ALL representatives -/
theorem add_affine (hsq : ∀ a : K, Sq.sq a = a * a) (c a b : Jac K) (ha : a.z ≠ 0) (hb : b.z ≠ 0)
    (h2 : (2 : K) ≠ 0) :
    (H a b ≠ 0 →
      (add c a b).z ≠ 0 ∧
      ax (add c a b) = ((ay b - ay a) / (ax b - ax a)) ^ 2 - ax a - ax b ∧
      ay (add c a b) = ((ay b - ay a) / (ax b - ax a)) * (ax a - ax (add c a b)) - ay a) ∧
    (H a b = 0 → N a b = 0 → a.y ≠ 0 →
      (add c a b).z ≠ 0 ∧
      ax (add c a b) = (3 * ax a ^ 2 / (2 * ay a)) ^ 2 - 2 * ax a ∧
      ay (add c a b) = (3 * ax a ^ 2 / (2 * ay a)) * (ax a - ax (add c a b)) - ay a) :=
  ⟨fun hH => add_affine_chord hsq c a b ha hb hH h2,
   fun hH hN hy => add_affine_tangent hsq c a b ha hb hH hN hy h2⟩

theorem double_affine (hsq : ∀ a : K, Sq.sq a = a * a) (c a : Jac K) (ha : a.z ≠ 0) (h2 : (2 : K) ≠ 0) :
    (a.y ≠ 0 →
      (double c a).z ≠ 0 ∧
      ax (double c a) = (3 * ax a ^ 2 / (2 * ay a)) ^ 2 - 2 * ax a ∧
      ay (double c a) = (3 * ax a ^ 2 / (2 * ay a)) * (ax a - ax (double c a)) - ay a) ∧
    (a.y = 0 → (double c a).z = 0) :=
  ⟨fun hy => double_affine_tangent hsq c a ha hy h2, fun hy => double_order_two hsq c a hy⟩

end

/-! ### the code's addition IS the group law of the curve (Mathlib's `WeierstrassCurve.Affine.Point`) -/

section group
variable {K : Type} [Field K] [DecidableEq K] [Sq K]

/-- **group law, all points**: on y² = x³ + b over any field of characteristic ≠ 2, for valid triples
(identity, or finite with a nonsingular affine image), every receiver and every pair of Jacobian
representatives, `Add` returns a valid triple denoting the sum in Mathlib's elliptic-curve group — whichever
branch the code takes (identity, P+P → Double, P+(−P), general) — and `Double` denotes P + P -/
theorem add_is_group_addition (hsq : ∀ a : K, Sq.sq a = a * a) (h2 : (2 : K) ≠ 0) (bb : K) (c a b : Jac K)
    (ha : Valid bb a) (hb : Valid bb b) :
    Valid bb (add c a b) ∧ toPoint bb (add c a b) = toPoint bb a + toPoint bb b ∧
    Valid bb (double c a) ∧ toPoint bb (double c a) = toPoint bb a + toPoint bb a :=
  ⟨(add_point hsq h2 bb c a b ha hb).1, (add_point hsq h2 bb c a b ha hb).2,
   (double_point hsq h2 bb c a ha).1, (double_point hsq h2 bb c a ha).2⟩

/-- consequently G1 / G2 addition as computed obeys the group laws for ALL points: associativity,
commutativity, identity and inverse (inherited from Mathlib's `AddCommGroup W.Point`) -/
theorem group_laws (hsq : ∀ a : K, Sq.sq a = a * a) (h2 : (2 : K) ≠ 0) (bb : K)
    (c₁ c₂ c₃ c₄ a b d : Jac K) (ha : Valid bb a) (hb : Valid bb b) (hd : Valid bb d) :
    toPoint bb (add c₁ (add c₂ a b) d) = toPoint bb (add c₃ a (add c₄ b d)) ∧
    toPoint bb (add c₁ a b) = toPoint bb (add c₂ b a) ∧
    toPoint bb (add c₁ a infinity) = toPoint bb a ∧
    toPoint bb (add c₁ a (neg a a.t)) = 0 := by
  have hab := add_point hsq h2 bb c₂ a b ha hb
  have hbd := add_point hsq h2 bb c₄ b d hb hd
  have hinf : Valid bb (infinity : Jac K) := Or.inl rfl
  refine ⟨?_, ?_, ?_, ?_⟩
  · rw [(add_point hsq h2 bb c₁ _ d hab.1 hd).2, hab.2, (add_point hsq h2 bb c₃ a _ ha hbd.1).2, hbd.2,
      add_assoc]
  · rw [(add_point hsq h2 bb c₁ a b ha hb).2, (add_point hsq h2 bb c₂ b a hb ha).2, add_comm]
  · rw [(add_point hsq h2 bb c₁ a _ ha hinf).2, toPoint_inf bb (infinity : Jac K) rfl, add_zero]
  · have hneg := neg_point bb a ha
    rw [(add_point hsq h2 bb c₁ a _ ha hneg.1).2, hneg.2, add_neg_cancel]

/-- **scalar multiplication**: curvePoint.Mul and twistPoint.Mul return k • P in that group for EVERY k
(0, 1, r−1, r, r+1, 2^256−1, …), hence agree with the scalar reduced modulo any n with n • P = 0 -/
theorem mul_is_scalar_multiple (hsq : ∀ a : K, Sq.sq a = a * a) (h2 : (2 : K) ≠ 0) (bb : K) (a : Jac K)
    (ha : Valid bb a) (k n : Nat) (hn : n • toPoint bb a = 0) :
    toPoint bb (curveMul a k) = k • toPoint bb a ∧ toPoint bb (twistMul a k) = k • toPoint bb a ∧
    toPoint bb (curveMul a k) = toPoint bb (curveMul a (k % n)) ∧
    toPoint bb (twistMul a k) = toPoint bb (twistMul a (k % n)) := by
  have h1 := mul_point hsq h2 bb a ha k
  have h2' := mul_point hsq h2 bb a ha (k % n)
  have e : k • toPoint bb a = (k % n) • toPoint bb a := by
    conv_lhs => rw [← Nat.div_add_mod k n, add_nsmul, mul_nsmul, hn, nsmul_zero, zero_add]
  exact ⟨h1.1, h1.2, by rw [h1.1, h2'.1, e], by rw [h1.2, h2'.2, e]⟩

end group

/-- **mul_double_and_add**: with φ any map to a commutative additive monoid under which Double doubles and
Add adds on a class V of triples closed under both (the previous theorems: V = finite-or-identity triples of
the curve, φ = affine image in the group of the curve), the loop of curvePoint.Mul (accumulator SetInfinity)
and of twistPoint.Mul (accumulator zero value) returns a representative of k • φ(a) for EVERY scalar k —
0, 1, order−1, order, order+1, 2^256−1, any size -/
theorem mul_double_and_add {K G : Type} [Add K] [Sub K] [Neg K] [Mul K] [Zero K] [One K] [Sq K] [DecidableEq K]
    [AddCommMonoid G] (V : Jac K → Prop) (φ : Jac K → G)
    (hdbl : ∀ c a, V a → V (double c a) ∧ φ (double c a) = φ a + φ a)
    (hadd : ∀ c a b, V a → V b → V (add c a b) ∧ φ (add c a b) = φ a + φ b)
    (hinf : V infinity ∧ φ infinity = 0) (hzero : V zeroValue ∧ φ zeroValue = 0)
    (a : Jac K) (ha : V a) (k : Nat) :
    φ (curveMul a k) = k • φ a ∧ φ (twistMul a k) = k • φ a :=
  ⟨(mulLoop_smul V φ hdbl hadd a ha k infinity zeroValue hinf.1 hinf.2).2,
   (mulLoop_smul V φ hdbl hadd a ha k zeroValue zeroValue hzero.1 hzero.2).2⟩

/-- … and therefore agrees with the scalar reduced modulo any n that annihilates the point (n • φ(a) = 0:
the group order, by #G = r — an assumption about alt_bn128, see the manifest) -/
theorem mul_reduced_scalar {K G : Type} [Add K] [Sub K] [Neg K] [Mul K] [Zero K] [One K] [Sq K] [DecidableEq K]
    [AddCommMonoid G] (V : Jac K → Prop) (φ : Jac K → G)
    (hdbl : ∀ c a, V a → V (double c a) ∧ φ (double c a) = φ a + φ a)
    (hadd : ∀ c a b, V a → V b → V (add c a b) ∧ φ (add c a b) = φ a + φ b)
    (hinf : V infinity ∧ φ infinity = 0) (hzero : V zeroValue ∧ φ zeroValue = 0)
    (a : Jac K) (ha : V a) (k n : Nat) (hn : n • φ a = 0) :
    φ (curveMul a k) = φ (curveMul a (k % n)) ∧ φ (twistMul a k) = φ (twistMul a (k % n)) := by
  have h1 := mul_double_and_add V φ hdbl hadd hinf hzero a ha k
  have h2 := mul_double_and_add V φ hdbl hadd hinf hzero a ha (k % n)
  have e : k • φ a = (k % n) • φ a := by
    conv_lhs => rw [← Nat.div_add_mod k n, add_nsmul, mul_nsmul, hn, nsmul_zero, zero_add]
  exact ⟨by rw [h1.1, h2.1, e], by rw [h1.2, h2.2, e]⟩

/-- **pairingCheck_logic**: PairingCheck (skip a pair when either point is the identity, multiply the
Miller values, ONE final exponentiation, compare with one) is true exactly when the product of the
pairings e(pᵢ,qᵢ) — e = 1 on an identity, final exponentiation of the Miller value otherwise, which is
how `optimalAte` defines it — is one, for every list, whenever the final exponentiation is multiplicative -/
theorem pairingCheck_logic {P Q T : Type} [CommMonoid T] [DecidableEq T] (infP : P → Bool) (infQ : Q → Bool)
    (mil : Q → P → T) (fin : T →* T) (ps : List (P × Q)) :
    pairingCheckAbs infP infQ mil (· * ·) 1 fin (fun t => decide (t = 1)) ps = true ↔
      (ps.map fun pq => if infP pq.1 || infQ pq.2 then 1 else fin (mil pq.2 pq.1)).prod = 1 :=
  Dos.Bn256.pairingCheck_logic infP infQ mil fin ps

/-! non-vacuity -/
-- (1,2) + (1,2) on y² = x³ + 3 over ℚ, given as two different Jacobian representatives, through Add
example : add (⟨0, 0, 0, 0⟩ : Jac Rat) ⟨1, 2, 1, 1⟩ ⟨4, 16, 2, 4⟩ = double ⟨0, 0, 0, 0⟩ ⟨1, 2, 1, 1⟩ := by
  decide +kernel
example : ax (double (⟨0, 0, 0, 7⟩ : Jac Rat) ⟨1, 2, 1, 1⟩) = -23 / 16 ∧
    (double (⟨0, 0, 0, 7⟩ : Jac Rat) ⟨1, 2, 1, 1⟩).t = 7 := by
  constructor
  · simp only [ax, double, Sq.sq]; norm_num
  · rfl
-- P + (−P)
example : (add (⟨0, 0, 0, 0⟩ : Jac Rat) ⟨1, 2, 1, 1⟩ ⟨1, -2, 1, 1⟩).z = 0 := by decide +kernel
-- (1,2) with any z is a valid triple of y² = x³ + 3 over ℚ: the hypotheses of the group-law theorems hold
example : Valid (3 : Rat) ⟨4, 16, 2, 4⟩ := by
  right
  rw [WeierstrassCurve.Affine.nonsingular_iff, WeierstrassCurve.Affine.equation_iff]
  simp only [shortW, ax, ay]
  norm_num
-- the check logic on a concrete commutative monoid (ℕ under multiplication, fin = id)
example : pairingCheckAbs (fun (p : Nat) => p == 0) (fun (q : Nat) => q == 0) (fun q p => q * p) (· * ·) 1
    (MonoidHom.id Nat) (fun t => decide (t = 1)) [(0, 5), (1, 1), (7, 0)] = true := by decide

end Dos.Props.C10Curve

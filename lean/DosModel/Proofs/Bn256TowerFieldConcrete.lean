/-
C10 layer 4 — the field property of the tower transported to the IMPLEMENTED representation: on reduced
Montgomery values (`F6 = Fp6 GFp`, `F12 = Fp12 GFp`, the types the driver runs and compares with
gfp6.go / gfp12.go) `Invert` keeps everything reduced, commutes with Montgomery decoding, and returns the
inverse of EVERY non-zero element. Route as in Proofs/Bn256FinalExpConcrete.lean: naturality of the
transcribed methods along "forget reducedness" and "decode" (both injective), and the field theorems over
ZMod p of Proofs/Bn256TowerField{6,12}.lean.
-/
import DosModel.Proofs.Bn256TowerField12
import DosModel.Proofs.Bn256FinalExpConcrete

namespace Dos.Bn256
namespace TowerField

/-! ### gfP6 -/
abbrev val6 : Fp6 GFpR → F6 := Fp6.map valF
abbrev dec6R : Fp6 GFpR → Fp6 (ZMod p) := Fp6.map decR
/-- Montgomery decoding of a gfP6 value -/
def dec6 (a : F6) : Fp6 (ZMod p) := Fp6.map dec a

theorem val_lift6 (a : F6) (h : Red6 a) : val6 (lift6R a h) = a := rfl
theorem dec6_val (x : Fp6 GFpR) : dec6 (val6 x) = dec6R x := rfl
theorem red6_val (x : Fp6 GFpR) : Red6 (val6 x) :=
  ⟨⟨x.x.x.2, x.x.y.2⟩, ⟨x.y.x.2, x.y.y.2⟩, ⟨x.z.x.2, x.z.y.2⟩⟩

theorem dec6_inj (x y : F6) (hx : Red6 x) (hy : Red6 y) (h : dec6 x = dec6 y) : x = y := by
  have ex : x = val6 (lift6R x hx) := rfl
  have ey : y = val6 (lift6R y hy) := rfl
  rw [ex, ey] at h ⊢
  rw [dec6_val, dec6_val] at h
  rw [Fp6.map_inj decHom h]

theorem mul6_dec (x y : F6) (hx : Red6 x) (hy : Red6 y) :
    Red6 (Fp6.mul x y) ∧ dec6 (Fp6.mul x y) = dec6 x * dec6 y := by
  have ex : x = val6 (lift6R x hx) := rfl
  have ey : y = val6 (lift6R y hy) := rfl
  rw [ex, ey, ← Fp6.map_mul' valHom]
  refine ⟨red6_val _, ?_⟩
  rw [dec6_val, dec6_val, dec6_val]
  exact Fp6.map_mul' decHom _ _

theorem invert6_dec (x : F6) (hx : Red6 x) :
    Red6 (Fp6.invert x) ∧ dec6 (Fp6.invert x) = Fp6.invert (dec6 x) := by
  have ex : x = val6 (lift6R x hx) := rfl
  rw [ex, ← Fp6.map_invert valHom]
  refine ⟨red6_val _, ?_⟩
  rw [dec6_val, dec6_val]
  exact Fp6.map_invert decHom _

theorem one6_dec : Red6 (Fp6.one : F6) ∧ dec6 (Fp6.one : F6) = 1 := by
  have e : (Fp6.one : F6) = val6 (Fp6.one : Fp6 GFpR) := (Fp6.map_one' valHom).symm
  rw [e]
  exact ⟨red6_val _, by rw [dec6_val]; exact Fp6.map_one' decHom⟩

theorem zero6_dec : Red6 (Fp6.zero : F6) ∧ dec6 (Fp6.zero : F6) = 0 := by
  have e : (Fp6.zero : F6) = val6 (Fp6.zero : Fp6 GFpR) := (Fp6.map_zero' valHom).symm
  rw [e]
  exact ⟨red6_val _, by rw [dec6_val]; exact Fp6.map_zero' decHom⟩

/-- **gfP6.Invert, implemented**: on a reduced non-zero Montgomery value the result is reduced and is the inverse -/
theorem fp6_invert_concrete (x : F6) (hx : Red6 x) (h0 : x ≠ Fp6.zero) :
    Red6 (Fp6.invert x) ∧ Fp6.mul x (Fp6.invert x) = Fp6.one ∧ dec6 (Fp6.invert x) = (dec6 x)⁻¹ := by
  obtain ⟨ri, di⟩ := invert6_dec x hx
  obtain ⟨rm, dm⟩ := mul6_dec x _ hx ri
  have hne : dec6 x ≠ 0 := by
    intro h
    exact h0 (dec6_inj _ _ hx zero6_dec.1 (h.trans zero6_dec.2.symm))
  refine ⟨ri, ?_, di⟩
  apply dec6_inj _ _ rm one6_dec.1
  rw [dm, di, one6_dec.2]
  exact fp6_invert_all _ hne

/-! ### gfP12 -/
theorem invert12_dec (x : F12) (hx : Red12 x) :
    Red12 (Fp12.invert x) ∧ dec12 (Fp12.invert x) = Fp12.invert (dec12 x) := by
  have ex : x = val12 (lift12R x hx) := rfl
  rw [ex, ← Fp12.map_invert valHom]
  refine ⟨red12_val _, ?_⟩
  rw [dec12_val, dec12_val]
  exact Fp12.map_invert decHom _

theorem map12_zero {K L : Type} [Add K] [Sub K] [Neg K] [Mul K] [Zero K] [One K] [Inv K] [Sq K] [DecidableEq K]
    [Add L] [Sub L] [Neg L] [Mul L] [Zero L] [One L] [Inv L] [Sq L] [DecidableEq L] {f : K → L} (h : OpsHom f) :
    Fp12.map f (Fp12.zero : Fp12 K) = Fp12.zero := by
  simp only [Fp12.map, Fp12.zero, Fp6.map_zero' h]

theorem zero12_dec : Red12 (Fp12.zero : F12) ∧ dec12 (Fp12.zero : F12) = 0 := by
  have e : (Fp12.zero : F12) = val12 (Fp12.zero : Fp12 GFpR) := (map12_zero valHom).symm
  rw [e]
  exact ⟨red12_val _, by rw [dec12_val]; exact map12_zero decHom⟩

/-- **gfP12.Invert, implemented**: on a reduced non-zero Montgomery value the result is reduced and is the inverse -/
theorem fp12_invert_concrete (x : F12) (hx : Red12 x) (h0 : x ≠ Fp12.zero) :
    Red12 (Fp12.invert x) ∧ Fp12.mul x (Fp12.invert x) = Fp12.one ∧ dec12 (Fp12.invert x) = (dec12 x)⁻¹ := by
  obtain ⟨ri, di⟩ := invert12_dec x hx
  obtain ⟨rm, dm⟩ := mul_dec x _ hx ri
  have hne : dec12 x ≠ 0 := by
    intro h
    exact h0 (dec12_inj _ _ hx zero12_dec.1 (h.trans zero12_dec.2.symm))
  refine ⟨ri, ?_, di⟩
  apply dec12_inj _ _ rm one_dec.1
  rw [dm, di, one_dec.2]
  exact fp12_invert_all _ hne

end TowerField
end Dos.Bn256

/-
Big-endian byte strings ↔ numbers: `beNat ∘ natBE k = (· % 256^k)` and `natBE |bs| ∘ beNat = id`.
Core Lean only.
-/
import DosModel.Model.Util

namespace Dos.CodecBytes
open Dos

theorem natBE_length (k n : Nat) : (natBE k n).length = k := by
  induction k with
  | zero => rfl
  | succ k ih => simp [natBE, ih]

theorem foldl_shift (bs : Bytes) (acc : Nat) :
    bs.foldl (fun a (b : UInt8) => a * 256 + b.toNat) acc
      = acc * 256 ^ bs.length + bs.foldl (fun a (b : UInt8) => a * 256 + b.toNat) 0 := by
  induction bs generalizing acc with
  | nil => simp
  | cons b bs ih =>
    simp only [List.foldl_cons, List.length_cons]
    rw [ih (acc * 256 + b.toNat), ih (0 * 256 + b.toNat)]
    simp only [Nat.zero_mul, Nat.zero_add, Nat.pow_succ, Nat.add_mul]
    rw [Nat.mul_assoc acc 256, Nat.mul_comm 256 (256 ^ bs.length), Nat.add_assoc]

theorem beNat_nil : beNat [] = 0 := rfl

theorem beNat_cons (b : UInt8) (bs : Bytes) :
    beNat (b :: bs) = b.toNat * 256 ^ bs.length + beNat bs := by
  simp only [beNat, List.foldl_cons]
  rw [foldl_shift]; simp

theorem beNat_append (as bs : Bytes) :
    beNat (as ++ bs) = beNat as * 256 ^ bs.length + beNat bs := by
  simp only [beNat, List.foldl_append]
  rw [foldl_shift]

theorem beNat_lt (bs : Bytes) : beNat bs < 256 ^ bs.length := by
  induction bs with
  | nil => simp [beNat]
  | cons b bs ih =>
    rw [beNat_cons, List.length_cons, Nat.pow_succ]
    have hb : b.toNat < 256 := UInt8.toNat_lt b
    have : b.toNat * 256 ^ bs.length + 256 ^ bs.length ≤ 256 * 256 ^ bs.length := by
      have : (b.toNat + 1) * 256 ^ bs.length ≤ 256 * 256 ^ bs.length :=
        Nat.mul_le_mul_right _ (by omega)
      simpa [Nat.add_mul] using this
    rw [Nat.mul_comm (256 ^ bs.length) 256]
    omega

theorem beNat_natBE_mod (k n : Nat) : beNat (natBE k n) = n % 256 ^ k := by
  induction k with
  | zero => simp [natBE, beNat, Nat.mod_one]
  | succ k ih =>
    rw [natBE, beNat_cons, natBE_length, ih]
    have h1 : (UInt8.ofNat (n / 256 ^ k % 256)).toNat = n / 256 ^ k % 256 := by
      simp [UInt8.toNat_ofNat']
    rw [h1, Nat.pow_succ, Nat.mod_mul, Nat.mul_comm (256 ^ k), Nat.add_comm]

theorem beNat_natBE (k n : Nat) (h : n < 256 ^ k) : beNat (natBE k n) = n := by
  rw [beNat_natBE_mod, Nat.mod_eq_of_lt h]

theorem natBE_mod (k n : Nat) : natBE k (n % 256 ^ k) = natBE k n := by
  induction k generalizing n with
  | zero => rfl
  | succ k ih =>
    simp only [natBE]
    have h1 : n % 256 ^ (k + 1) / 256 ^ k % 256 = n / 256 ^ k % 256 := by
      rw [Nat.pow_succ, Nat.mod_mul_right_div_self, Nat.mod_mod]
    have h2 : natBE k (n % 256 ^ (k + 1)) = natBE k n := by
      rw [← ih (n % 256 ^ (k + 1)), ← ih n]
      congr 1
      exact Nat.mod_mod_of_dvd n ⟨256, Nat.pow_succ ..⟩
    rw [h1, h2]

theorem natBE_beNat (bs : Bytes) : natBE bs.length (beNat bs) = bs := by
  induction bs with
  | nil => rfl
  | cons b bs ih =>
    rw [List.length_cons, natBE, beNat_cons]
    have hv := beNat_lt bs
    have hpos : 0 < 256 ^ bs.length := Nat.pow_pos (by decide)
    have h1 : (b.toNat * 256 ^ bs.length + beNat bs) / 256 ^ bs.length = b.toNat := by
      rw [Nat.mul_comm, Nat.mul_add_div hpos, Nat.div_eq_of_lt hv, Nat.add_zero]
    have h2 : natBE bs.length (b.toNat * 256 ^ bs.length + beNat bs) = bs := by
      rw [← natBE_mod, Nat.mul_comm, Nat.mul_add_mod, Nat.mod_eq_of_lt hv, ih]
    have hb : b.toNat % 256 = b.toNat := Nat.mod_eq_of_lt (UInt8.toNat_lt b)
    rw [h1, h2, hb]
    simp

/-- two byte strings of the same length with the same value are equal -/
theorem beNat_inj (as bs : Bytes) (hl : as.length = bs.length) (h : beNat as = beNat bs) : as = bs := by
  rw [← natBE_beNat as, ← natBE_beNat bs, hl, h]

theorem natBE_inj (k a b : Nat) (ha : a < 256 ^ k) (hb : b < 256 ^ k) (h : natBE k a = natBE k b) :
    a = b := by
  rw [← beNat_natBE k a ha, ← beNat_natBE k b hb, h]

theorem natBE_zero (k : Nat) : natBE k 0 = List.replicate k 0 := by
  induction k with
  | zero => rfl
  | succ k ih => simp [natBE, ih, List.replicate_succ]

theorem beNat_replicate_zero (k : Nat) : beNat (List.replicate k 0) = 0 := by
  rw [← natBE_zero, beNat_natBE_mod]; simp

end Dos.CodecBytes

import DosModel.Proofs.ConnTableInv

/-! Where a reply outcome comes from, and that it is the caller's own. -/
set_option linter.unusedSimpArgs false
namespace Dos.ConnTable
open Dos

theorem lookupN_mem {p : List (Nonce × Nat)} {ν : Nonce} {i : Nat} (h : lookupN p ν = some i) : (ν, i) ∈ p := by
  unfold lookupN at h
  split at h
  · rename_i e he
    have hm := List.mem_of_find?_eq_some he
    have hp := List.find?_some he
    simp only [Option.some.injEq] at h
    have h1 : e.1 = ν := by simpa using hp
    have : e = (ν, i) := by rw [← h1, ← h]
    rw [← this]; exact hm
  · simp at h

/-- the ONLY way a call gets a reply: the oldest reply frame in flight on some connection reaches that
connection's dispatch, which finds the call registered under the frame's nonce -/
theorem step_got (cfg : Cfg) (s : Net) (e : Ev) (j m : Nat) (h : ((step cfg s e).reqs j).out = .got m) :
    (s.reqs j).out = .got m ∨
    ∃ c ν rest, e = .deliverReply c ∧ c < s.nconn ∧ (s.conns c).repQ = (ν, m) :: rest ∧ (s.conns c).clD = false ∧
      lookupN (s.conns c).pend ν = some j ∧ (s.reqs j).out = .waiting := by
  cases e <;> simp only [step] at h
  case request a b dial =>
    left
    by_cases hj : j = s.nreq
    · subst hj
      split at h
      · rw [hand_out, newReq_reqs, if_pos rfl] at h; simp at h
      · split at h
        · rw [failReq_reqs, if_pos rfl] at h; simp at h
        · split at h
          · rw [failReq_reqs, if_pos rfl] at h; simp at h
          · split at h
            · rw [retAtD_reqs, hand_out, openConn_reqs, newReq_reqs, if_pos rfl] at h; simp at h
            · rw [hand_out, openConn_reqs, newReq_reqs, if_pos rfl] at h; simp at h
    · split at h
      · rw [hand_out, newReq_reqs, if_neg hj] at h; exact h
      · split at h
        · rw [failReq_reqs, if_neg hj, newReq_reqs, if_neg hj] at h; exact h
        · split at h
          · rw [failReq_reqs, if_neg hj, newReq_reqs, if_neg hj] at h; exact h
          · split at h
            · rw [retAtD_reqs, hand_out, openConn_reqs, newReq_reqs, if_neg hj] at h; exact h
            · rw [hand_out, openConn_reqs, newReq_reqs, if_neg hj] at h; exact h
  case deliverReq c =>
    left
    split at h
    · split at h
      · exact h
      · split at h <;> exact h
    · exact h
  case appReply b k =>
    left
    split at h
    · exact h
    · split at h
      · exact h
      · split at h <;> exact h
  case deliverReply c =>
    split at h
    · rename_i hc
      split at h
      · left; exact h
      · rename_i ν m' rest hq
        split at h
        · left; exact h
        · rename_i hcl
          split at h
          · left; exact h
          · rename_i i hl
            split at h
            · rename_i hw
              simp only [setReq_reqs, setConn_reqs] at h
              split at h
              · rename_i hji; subst hji
                simp only [Outcome.got.injEq] at h; subst h
                right
                exact ⟨c, ν, rest, rfl, hc, hq, by simpa using hcl, hl, hw⟩
              · left; exact h
            · left; exact h
    · left; exact h
  case cut c => left; split at h <;> simpa using h
  case reject c atD => left; split at h <;> (try split at h) <;> (try split at h) <;> simpa using h
  case close c atD =>
    left
    split at h
    · split at h
      · split at h
        · exact h
        · simp only [retAtD_reqs, setConn_reqs] at h
          rcases failAll_out (s.conns c).pend s.reqs j with h' | ⟨_, h'⟩
          · rw [h'] at h; exact h
          · rw [h'] at h; simp at h
      · split at h <;> simpa using h
    · exact h
  case procRm n k => left; split at h <;> simpa using h
  case disconnect a b => left; simpa using h
  case expire i =>
    left
    split at h
    · simp only [setReq_reqs] at h
      split at h
      · simp at h
      · exact h
    · exact h
  case reset n =>
    left
    split at h
    · simp at h
    · exact h

/-- every reply a call holds names the call itself -/
def Own (s : Net) : Prop := ∀ j m, (s.reqs j).out = .got m → m = j

theorem step_own (cfg : Cfg) {s : Net} (hI : Inv s) (ho : Own s) (e : Ev) : Own (step cfg s e) := by
  intro j m h
  rcases step_got cfg s e j m h with h | ⟨c, ν, rest, _, _, hq, _, hl, _⟩
  · exact ho j m h
  · have h1 := hI.pend c ν j (lookupN_mem hl)
    have h2 := hI.repQ c ν m (by rw [hq]; exact List.mem_cons_self)
    exact hI.uniq m j ν h2 h1

theorem run_own (cfg : Cfg) (hnb : cfg.nonceBase = true) {s : Net} (hI : Inv s) (ho : Own s) (evs : List Ev) :
    Own (run cfg s evs) := by
  induction evs generalizing s with
  | nil => exact ho
  | cons e es ih => exact ih (step_inv cfg hnb hI e) (step_own cfg hI ho e)

end Dos.ConnTable

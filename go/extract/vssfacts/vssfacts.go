// Package vssfacts extracts the ordered statement skeleton of the functions that the hand models
// Model/VssSym.lean, Model/Dkg.lean and Model/DkgSession.lean transcribe (C08, C05, C04): every
// check (condition text), what it does (return of which values, continue, a status assignment),
// every call statement, in source order and with its nesting depth. Logging is left out.
// Props/C08.lean, C05.lean, C04.lean pin the lists (`c08_code_shape`, `c05_code_shape`,
// `c04_code_shape`): a change to any of these statements breaks the obligation until the model has
// been looked at again.
package vssfacts

import (
	"bytes"
	"fmt"
	"go/ast"
	"go/printer"
	"go/token"
	"path/filepath"
	"strings"

	"verifharness/extract/ex"
)

func init() { ex.Register(&ex.Extractor{Name: "VssFacts", Run: run}) }

type target struct {
	file, recv, fn, lean string
	sub                  string // when set: only the type switch whose header contains this text
}

var targets = []target{
	{"share/vss/pedersen/vss.go", "Verifier", "ProcessEncryptedDeal", "processEncryptedDeal", ""},
	{"share/vss/pedersen/vss.go", "Verifier", "decryptDeal", "decryptDeal", ""},
	{"share/vss/pedersen/vss.go", "aggregator", "VerifyDeal", "verifyDeal", ""},
	{"share/vss/pedersen/vss.go", "", "validT", "validT", ""},
	{"share/vss/pedersen/vss.go", "", "sessionID", "sessionID", ""},
	{"share/vss/pedersen/vss.go", "aggregator", "verifyResponse", "verifyResponse", ""},
	{"share/vss/pedersen/vss.go", "aggregator", "addResponse", "addResponse", ""},
	{"share/dkg/pedersen/dkg.go", "DistKeyGenerator", "ProcessDeal", "dkgProcessDeal", ""},
	{"share/dkg/pedersen/dkg.go", "DistKeyGenerator", "ProcessResponse", "dkgProcessResponse", ""},
	{"share/dkg/pedersen/dkg.go", "DistKeyGenerator", "DistKeyShare", "distKeyShare", ""},
	{"share/dkg/pedersen/pdkg_pipes.go", "", "exchangePub", "exchangePub", ""},
	{"share/dkg/pedersen/pdkg_pipes.go", "", "genDistKeyGenerator", "genDistKeyGenerator", ""},
	{"share/dkg/pedersen/pdkg_pipes.go", "", "getAndProcessDeals", "getAndProcessDeals", ""},
	{"share/dkg/pedersen/pdkg_pipes.go", "", "getAndProcessResponses", "getAndProcessResponses", ""},
	{"share/dkg/pedersen/pdkg_pipes.go", "", "askMembers", "askMembers", ""},
	{"share/dkg/pedersen/pdkg.go", "", "stampSender", "stampSender", ""},
	{"share/dkg/pedersen/pdkg.go", "", "handlePeerMsg", "handlePeerMsg", ""},
	{"share/dkg/pedersen/pdkg.go", "pdkg", "Loop", "loopPeerMsg", "msg.Msg.Message"},
	// C05 round 4 (other sessions): every response goes through the verifier of the slot it names; what a
	// response signature covers; the key a session's responses are signed with is drawn per Grouping call
	{"share/vss/pedersen/vss.go", "Verifier", "ProcessResponse", "verifierProcessResponse", ""},
	{"share/vss/pedersen/vss.go", "Response", "Hash", "responseHash", ""},
	{"share/dkg/pedersen/pdkg_pipes.go", "", "genPub", "genPub", ""},
	{"share/dkg/pedersen/pdkg.go", "pdkg", "Grouping", "grouping", ""},
	// round 5 (review C): certification (fix 5814a9f), justification path, QUAL
	{"share/vss/pedersen/vss.go", "Verifier", "DealCertified", "verifierDealCertified", ""},
	{"share/vss/pedersen/vss.go", "aggregator", "DealCertified", "aggDealCertified", ""},
	{"share/vss/pedersen/vss.go", "aggregator", "EnoughApprovals", "enoughApprovals", ""},
	{"share/vss/pedersen/vss.go", "Verifier", "Deal", "verifierDeal", ""},
	{"share/vss/pedersen/vss.go", "aggregator", "verifyJustification", "verifyJustification", ""},
	{"share/vss/pedersen/vss.go", "Verifier", "ProcessJustification", "verifierProcessJustification", ""},
	{"share/vss/pedersen/vss.go", "Verifier", "UnsafeSetResponseDKG", "unsafeSetResponseDKG", ""},
	{"share/vss/pedersen/vss.go", "", "newAggregator", "newAggregator", ""},
	{"share/dkg/pedersen/dkg.go", "DistKeyGenerator", "Certified", "dkgCertified", ""},
	{"share/dkg/pedersen/dkg.go", "DistKeyGenerator", "QUAL", "dkgQUAL", ""},
	{"share/dkg/pedersen/dkg.go", "DistKeyGenerator", "qualIter", "dkgQualIter", ""},
	{"share/dkg/pedersen/dkg.go", "DistKeyGenerator", "ProcessJustification", "dkgProcessJustification", ""},
	{"share/dkg/pedersen/dkg.go", "DistKeyGenerator", "Deals", "dkgDeals", ""},
	// the sealing side and the key derivation (C08: who can open a deal)
	{"share/vss/pedersen/dh.go", "", "dhExchange", "dhExchange", ""},
	{"share/vss/pedersen/dh.go", "", "newAEAD", "newAEAD", ""},
	{"share/vss/pedersen/dh.go", "", "context", "hkdfContext", ""},
	{"share/vss/pedersen/vss.go", "Dealer", "EncryptedDeal", "encryptedDeal", ""},
	{"share/vss/pedersen/vss.go", "", "NewDealer", "newDealer", ""},
	{"share/vss/pedersen/vss.go", "", "NewVerifier", "newVerifier", ""},
	{"share/vss/pedersen/vss.go", "", "findPub", "findPub", ""},
	// the whole of pdkg.Loop (watchdog / expire closures included), handleRequest, channel sizes (C04)
	{"share/dkg/pedersen/pdkg.go", "pdkg", "Loop", "loopWhole", ""},
	{"share/dkg/pedersen/pdkg.go", "", "handleRequest", "handleRequest", ""},
	{"share/dkg/pedersen/pdkg.go", "", "NewPDKG", "newPDKG", ""},
}

// structs lists the struct types whose field list (names and types, in order) is extracted: the state a
// DistKeyGenerator / aggregator keeps, i.e. what is keyed by what.
var structs = []struct{ file, name, lean string }{
	{"share/dkg/pedersen/dkg.go", "DistKeyGenerator", "distKeyGeneratorFields"},
	{"share/vss/pedersen/vss.go", "aggregator", "aggregatorFields"},
	{"share/vss/pedersen/vss.go", "Verifier", "verifierFields"},
}

type walker struct {
	fset  *token.FileSet
	lines []string
}

func (w *walker) src(n ast.Node) string {
	var b bytes.Buffer
	printer.Fprint(&b, w.fset, n)
	return strings.Join(strings.Fields(b.String()), " ")
}

func (w *walker) emit(depth int, s string) {
	w.lines = append(w.lines, fmt.Sprintf("%d| %s", depth, s))
}

func logging(t string) bool {
	for _, p := range []string{"fmt.Print", "logger.", "log.", "defer fmt.Print", "defer logger.", "p.logger.", "d.logger."} {
		if strings.HasPrefix(t, p) {
			return true
		}
	}
	return false
}

// exprLits walks the function literals inside a simple statement (goroutines, callbacks)
func (w *walker) lits(depth int, n ast.Node) {
	ast.Inspect(n, func(x ast.Node) bool {
		if fl, ok := x.(*ast.FuncLit); ok {
			w.emit(depth+1, "func"+w.src(fl.Type)[4:])
			w.block(depth+2, fl.Body.List)
			return false
		}
		return true
	})
}

// simple renders a statement with the bodies of function literals replaced by "{…}"
func (w *walker) simple(n ast.Node) string {
	t := w.src(n)
	// cut function literal bodies out of the text: they are emitted as nested lines
	var cut []string
	ast.Inspect(n, func(x ast.Node) bool {
		if fl, ok := x.(*ast.FuncLit); ok {
			cut = append(cut, w.src(fl.Body))
			return false
		}
		return true
	})
	for _, c := range cut {
		t = strings.Replace(t, c, "{…}", 1)
	}
	return t
}

func (w *walker) block(depth int, list []ast.Stmt) {
	for _, st := range list {
		w.stmt(depth, st)
	}
}

func (w *walker) stmt(depth int, st ast.Stmt) {
	switch s := st.(type) {
	case *ast.IfStmt:
		h := "if "
		if s.Init != nil {
			h += w.simple(s.Init) + "; "
		}
		w.emit(depth, h+w.src(s.Cond))
		if s.Init != nil {
			w.lits(depth, s.Init)
		}
		w.block(depth+1, s.Body.List)
		if s.Else != nil {
			w.emit(depth, "else")
			if b, ok := s.Else.(*ast.BlockStmt); ok {
				w.block(depth+1, b.List)
			} else {
				w.stmt(depth+1, s.Else)
			}
		}
	case *ast.ForStmt:
		h := "for"
		if s.Init != nil {
			h += " " + w.src(s.Init) + ";"
		}
		if s.Cond != nil {
			h += " " + w.src(s.Cond)
		}
		if s.Post != nil {
			h += "; " + w.src(s.Post)
		}
		w.emit(depth, h)
		w.block(depth+1, s.Body.List)
	case *ast.RangeStmt:
		h := "for "
		if s.Key != nil {
			h += w.src(s.Key)
			if s.Value != nil {
				h += ", " + w.src(s.Value)
			}
			h += " " + s.Tok.String() + " "
		}
		w.emit(depth, h+"range "+w.src(s.X))
		w.block(depth+1, s.Body.List)
	case *ast.SelectStmt:
		w.emit(depth, "select")
		w.block(depth+1, s.Body.List)
	case *ast.CommClause:
		if s.Comm == nil {
			w.emit(depth, "default:")
		} else {
			w.emit(depth, "case "+w.src(s.Comm)+":")
		}
		w.block(depth+1, s.Body)
	case *ast.SwitchStmt:
		h := "switch"
		if s.Init != nil {
			h += " " + w.src(s.Init) + ";"
		}
		if s.Tag != nil {
			h += " " + w.src(s.Tag)
		}
		w.emit(depth, h)
		w.block(depth+1, s.Body.List)
	case *ast.TypeSwitchStmt:
		w.emit(depth, "switch "+w.src(s.Assign))
		w.block(depth+1, s.Body.List)
	case *ast.CaseClause:
		if s.List == nil {
			w.emit(depth, "default:")
		} else {
			var es []string
			for _, e := range s.List {
				es = append(es, w.src(e))
			}
			w.emit(depth, "case "+strings.Join(es, ", ")+":")
		}
		w.block(depth+1, s.Body)
	case *ast.BlockStmt:
		w.block(depth, s.List)
	case *ast.LabeledStmt:
		w.emit(depth, s.Label.Name+":")
		w.stmt(depth, s.Stmt)
	default: // return, branch, assign, expr, go, defer, decl, send, incdec
		t := w.simple(st)
		if logging(t) {
			return
		}
		w.emit(depth, t)
		w.lits(depth, st)
	}
}

func run(repo string) (string, error) {
	s := ex.Header("VssFacts", "share/vss/pedersen/vss.go, share/dkg/pedersen/dkg.go, pdkg_pipes.go, pdkg.go (statement skeletons)")
	s += "namespace Dos.Gen.VssFacts\n"
	parsed := map[string]*ast.File{}
	fsets := map[string]*token.FileSet{}
	for _, t := range targets {
		if parsed[t.file] == nil {
			fset, f, err := ex.Parse(filepath.Join(repo, filepath.FromSlash(t.file)))
			if err != nil {
				return "", err
			}
			parsed[t.file], fsets[t.file] = f, fset
		}
		fd := ex.FuncDecl(parsed[t.file], t.recv, t.fn)
		if fd == nil || fd.Body == nil {
			return "", fmt.Errorf("function %s.%s not found in %s", t.recv, t.fn, t.file)
		}
		w := &walker{fset: fsets[t.file]}
		w.emit(0, "func "+t.fn+w.src(fd.Type)[4:])
		if t.sub == "" {
			w.block(1, fd.Body.List)
		} else {
			found := false
			ast.Inspect(fd.Body, func(n ast.Node) bool {
				if ts, ok := n.(*ast.TypeSwitchStmt); ok && !found && strings.Contains(w.src(ts.Assign), t.sub) {
					found = true
					w.stmt(1, ts)
					return false
				}
				return true
			})
			if !found {
				return "", fmt.Errorf("type switch on %s not found in %s of %s", t.sub, t.fn, t.file)
			}
		}
		s += fmt.Sprintf("def %s : List String := [\n", t.lean)
		for i, l := range w.lines {
			sep := ","
			if i == len(w.lines)-1 {
				sep = ""
			}
			s += "  " + ex.LeanStr(l) + sep + "\n"
		}
		s += "]\n"
	}
	for _, st := range structs {
		if parsed[st.file] == nil {
			fset, f, err := ex.Parse(filepath.Join(repo, filepath.FromSlash(st.file)))
			if err != nil {
				return "", err
			}
			parsed[st.file], fsets[st.file] = f, fset
		}
		w := &walker{fset: fsets[st.file]}
		var lines []string
		found := false
		for _, d := range parsed[st.file].Decls {
			gd, ok := d.(*ast.GenDecl)
			if !ok || gd.Tok != token.TYPE {
				continue
			}
			for _, sp := range gd.Specs {
				ts := sp.(*ast.TypeSpec)
				stt, ok := ts.Type.(*ast.StructType)
				if ts.Name.Name != st.name || !ok {
					continue
				}
				found = true
				for _, fl := range stt.Fields.List {
					if len(fl.Names) == 0 {
						lines = append(lines, "(embedded) "+w.src(fl.Type))
					}
					for _, nm := range fl.Names {
						lines = append(lines, nm.Name+" "+w.src(fl.Type))
					}
				}
			}
		}
		if !found {
			return "", fmt.Errorf("struct type %s not found in %s", st.name, st.file)
		}
		s += fmt.Sprintf("def %s : List String := [\n", st.lean)
		for i, l := range lines {
			sep := ","
			if i == len(lines)-1 {
				sep = ""
			}
			s += "  " + ex.LeanStr(l) + sep + "\n"
		}
		s += "]\n"
	}
	s += "end Dos.Gen.VssFacts\n"
	return s, nil
}

/-
C12 — line protocol of the driver: one case line → the model's outcome line.
Grammar in design/C12.md; mirrored by go/props/c12.
-/
import DosModel.Model.Handlers
import DosModel.Model.HandlersNode
import DosModel.Model.HandlersP2P
import DosModel.Model.HandlersChain
import DosModel.Model.HandlersInv
import DosModel.Model.HandlersDoc

namespace Dos.Handlers
open Dos

/-- outcomes of a sequence; when one of them is a panic the process is gone and the whole line is that panic -/
def showOuts (os : List Out) : String :=
  match os.find? Out.isPanic with
  | some p => p.show
  | none => String.intercalate ";" (os.map Out.show)

def parts (sep : String) (s : String) : List String := if s == "-" then [] else s.splitOn sep

def bool01 (s : String) : Option Bool := if s == "1" then some true else if s == "0" then some false else none

def natAfter (pre : String) (s : String) : Option Nat :=
  if s.startsWith pre then (s.drop pre.length).toNat? else none

def parseItem (s : String) : Option Item :=
  if s.startsWith "r" then
    match (s.drop 1).toString.splitOn "." with
    | [d, r] => do
      let d ← d.toNat?
      if r == "n" then pure (.resp d none) else pure (.resp d (some (← r.toNat?)))
    | _ => none
  else match natAfter "p" s with
    | some i => some (.pk i)
    | none => (natAfter "d" s).map .deal

def parseSessEv (s : String) : Option SessEv :=
  match s.splitOn ":" with
  | ["m", sid, it] => (parseItem it).map (.msg sid)
  | ["r", sid, num] => num.toInt?.map (.req sid)
  | ["e", sids] => some (.expire (parts "," sids))
  | _ => none

def parseElem (s : String) : Option Elem :=
  if s == "o" then some .other
  else match natAfter "g" s with           -- g<i>: key of member i announced by member i
    | some i => some (.good i true true)
    | none => match natAfter "f" s with     -- f<i>: announced by somebody else
      | some i => some (.good i false true)
      | none => (natAfter "k" s).map (fun i => .good i true false)   -- k<i>: no Publickey

def parseKey (s : String) : Option (Option KeyTag) :=
  if s == "nil" then some none
  else if s == "own" then some (some .own)
  else if s == "id" then some (some .identity)
  else if s == "bad" then some (some .garbage)
  else (natAfter "p" s).map (fun j => some (.peer j))

def parsePub (s : String) : Option PubMsg :=
  match s.splitOn ":" with
  | [i, k] => do
    let i ← i.toNat?
    let k ← parseKey k
    pure { idx := i, key := k }
  | _ => none

def parseShare (s : String) : Option (Option (Nat × Bool)) :=
  if s == "N" then some none
  else match (s.drop 1).toString.splitOn "V" with
    | [i, v] => if s.startsWith "I" then do
        let i ← i.toNat?
        let v ← bool01 v
        pure (some (i, v)) else none
    | _ => none

def parseEnc (s : String) : Option (Option Enc) :=
  if s == "nil" then some none
  else match s.splitOn "/" with
    | ["E", sg, dh, nl, "F"] => do
      pure (some { sigOK := ← bool01 sg, dhOK := ← bool01 dh, nonceLen := ← nl.toNat?, opened := .fail })
    | ["E", sg, dh, nl, "U"] => do
      pure (some { sigOK := ← bool01 sg, dhOK := ← bool01 dh, nonceLen := ← nl.toNat?, opened := .undecodable })
    | ["E", sg, dh, nl, "P", sh, t, sid, sok] => do
      let p : Plain := { share := ← parseShare sh, t := ← t.toNat?, sidOK := ← bool01 sid, shareOK := ← bool01 sok }
      pure (some { sigOK := ← bool01 sg, dhOK := ← bool01 dh, nonceLen := ← nl.toNat?, opened := .plain p })
    | _ => none

def parseResp (s : String) : Option (Option VResp) :=
  if s == "nil" then some none
  else match s.splitOn "/" with
    | ["R", sid, ri, sg, ap] => do
      pure (some { sidOK := ← bool01 sid, rindex := ← ri.toNat?, sigOK := ← bool01 sg, approve := ← bool01 ap })
    | _ => none

def parseDkgOp (s : String) : Option DkgOp :=
  match s.splitOn ":" with
  | ["d", i, e] => do pure (.deal { idx := ← i.toNat?, enc := ← parseEnc e })
  | ["r", i, r] => do pure (.resp { idx := ← i.toNat?, resp := ← parseResp r })
  | _ => none

def parseQEv (s : String) : Option QEv :=
  if s == "o" then some .other
  else match s.splitOn ":" with
    | ["s", h] => (ofHex h).map .sig
    | ["r", h] => (ofHex h).map .reg
    | _ => none

def optHex (s : String) : Option (Option Bytes) :=
  if s == "nil" then some none else (ofHex s).map some

def parseSign (s : String) : Option (Option Sign) :=
  if s == "nil" then some none
  else match s.splitOn "/" with
    | [a, b] => do pure (some { sig := ← optHex a, content := ← optHex b })
    | _ => none

def parsePair (s : String) : Option (Bytes × Bytes) :=
  match s.splitOn "/" with
  | [c, sg] => do pure (← ofHex c, ← ofHex sg)
  | _ => none

def parsePubTag (s : String) : Option PubTag :=
  -- inf0 / inf1: full-length encodings the decoder maps to the identity too (tag 0 + anything, tag 1 + zero coordinates)
  if s == "ok" then some .valid else if s == "inf" || s == "inf0" || s == "inf1" then some .infinity
  else if s == "bad" || s == "trunc" then some .bad else none

def parseIdTag (s : String) : Option IdTag :=
  if s == "other" then some .other else if s == "same" then some .same else if s == "empty" then some .empty else none

def parseAny (s : String) : Option (Option AnyTag) :=
  if s == "none" then some none
  else if s == "known" then some (some .known)
  else if s == "unk" then some (some .unknownType)
  else if s == "badval" then some (some .badValue)
  else match s.splitOn "." with
    | ["id", p, r] => do pure (some (.id (← parsePubTag p) (← parseIdTag r)))
    | _ => none

def parseFrame (s : String) : Option Frame :=
  if s == "U" then some .undecodable
  else match s.splitOn "/" with
    | ["K", a, sg, rp] => do pure (.pkg (← parseAny a) (← bool01 sg) (← bool01 rp))
    | _ => none

def parseWire (s : String) : Option Wire :=
  if s == "eof" then some .eof else if s == "big" then some .badSize else (parseFrame s).map .frame

def parseDispEv (s : String) : Option DispEv :=
  if s == "q" then some .send
  else match natAfter "c" s with
    | some k => some (.cancel k)
    | none => (natAfter "r" s).map .reply

def parseConnEv (s : String) : Option ConnEv :=
  if s == "L" then some .leave
  else if s.startsWith "f" then
    match (s.drop 1).toString.splitOn "." with
    | [x, a] => do
      let x ← x.toNat?
      let a ← a.toNat?
      pure (.dial x a (a != 1))       -- 1 is the node's own id: the handshake fails
    | _ => none
  else match natAfter "n" s with
    | some x => some (.dial x x false)
    | none => match natAfter "h" s with
      | some x => some (.hangup x)
      | none => match natAfter "o" s with
        | some x => some (.hangupOld x)
        | none => match natAfter "q" s with
          | some x => some (.req x)
          | none => (natAfter "x" s).map .disc

def parseBig (s : String) : Option BigF :=
  if s == "nil" then some none else s.toNat?.map some

def parseGroupRec (s : String) : Option GroupRec :=
  match s.splitOn ":" with
  | [g, n, sec] => do pure ⟨← parseBig g, ← n.toNat?, ← bool01 sec⟩
  | _ => none

/-- a directly injected payload / error value (op `chain`) -/
def parseChainEv (s : String) : Option ChainIn :=
  let body := (s.drop 1).toString
  let f := body.splitOn "/"
  if s == "O" then some (.direct .other)
  else if s == "E" then some (.errv .plain)
  else if s.startsWith "X" then body.toNat?.map (fun i => .errv (.onchain i))
  else if s.startsWith "G" then
    match f with
    | [g, ids] => do pure (.direct (.grouping (← parseBig g) (← (parts "." ids).mapM String.toNat?)))
    | _ => none
  else if s.startsWith "D" then (parseBig body).map (fun g => .direct (.dissolve g))
  else if s.startsWith "K" then (parseBig body).map (fun g => .direct (.keyAccepted g))
  else if s.startsWith "R" then
    match f with
    | [l, g] => do pure (.direct (.updateRandom (← parseBig l) (← parseBig g)))
    | _ => none
  else if s.startsWith "U" then
    match f with
    | [r, l, sd, g] => do pure (.direct (.userRandom (← parseBig r) (← parseBig l) (← parseBig sd) (← parseBig g)))
    | _ => none
  else if s.startsWith "Q" then
    match f with
    | [q, r, g] => do pure (.direct (.url (← parseBig q) (← parseBig r) (← parseBig g)))
    | _ => none
  else if s.startsWith "C" then
    match f with
    | [c, st, cd, rd] => do pure (.direct (.startCR (← parseBig c) (← parseBig st) (← parseBig cd) (← parseBig rd)))
    | _ => none
  else none

/-- a raw log (op `chainraw`): the same letters, numbers only; prefix `r:` = Removed, `d:` = re-delivery of the
same log (identity of the first occurrence of the same text); `N` an event nobody subscribed to; `J` junk -/
def parseRawEv (all : List String) (s : String) : Option ChainIn :=
  let removed := s.startsWith "r:"
  let t := if s.startsWith "r:" || s.startsWith "d:" then (s.drop 2).toString else s
  -- identity: position of the first occurrence of the log text (with or without prefix)
  let strip (x : String) : String := if x.startsWith "r:" || x.startsWith "d:" then (x.drop 2).toString else x
  let ident := (all.map strip).idxOf t
  if t == "J" then some .junk
  else if t == "N" then some (.log .unsubscribed removed ident)
  else if t == "E" then some (.errv .plain)
  else if t.startsWith "X" then some (.errv (.onchain 0))
  else match parseChainEv t with
    | some (.direct (.grouping (some g) ids)) => some (.log (.grouping g ids) removed ident)
    | some (.direct (.dissolve (some g))) => some (.log (.dissolve g) removed ident)
    | some (.direct (.keyAccepted (some g))) => some (.log (.keyAccepted g) removed ident)
    | some (.direct (.updateRandom (some l) (some g))) => some (.log (.updateRandom l g) removed ident)
    | some (.direct (.userRandom (some r) (some l) (some sd) (some g))) => some (.log (.userRandom r l sd g) removed ident)
    | some (.direct (.url (some q) (some r) (some g))) => some (.log (.url q r g) removed ident)
    | some (.direct (.startCR (some c) (some st) (some cd) (some rd))) => some (.log (.startCR c st cd rd) removed ident)
    | _ => none

def parseSerfEv (s : String) : Option SerfEv :=
  if s == "u" then some .other
  else match s.splitOn ":" with
    | ["m", ls] => (csvNat ls).map .members
    | _ => none

def step (cfg : Cfg) (line : String) : String :=
  let bad := "bad-op"
  match words line with
  | ["inv"] => if invDiff.isEmpty then "inventory ok" else "inventory " ++ String.intercalate " " invDiff
  | ["sess", evs] =>
    match (parts ";" evs).mapM parseSessEv with
    | some es => showOuts (sessRun cfg {} es).2
    | none => bad
  | ["xpub", n, self, bs] =>
    match n.toNat?, parseElem self, (parts "|" bs).mapM (fun b => (parts "," b).mapM parseElem) with
    | some n, some s, some bs => (exchangePub cfg n s bs).show
    | _, _, _ => bad
  | ["gdkg", n, pubs] =>
    match n.toNat?, (parts "," pubs).mapM parsePub with
    | some n, some ps => (genDkg cfg n ps).show
    | _, _ => bad
  | ["dkgs", n, me, ops] =>
    match n.toNat?, me.toNat?, (parts ";" ops).mapM parseDkgOp with
    | some n, some me, some os => showOuts (dkgRun cfg (DkgSt.init n me) os).2
    | _, _, _ => bad
  | ["stage", which, hv, el] =>
    match bool01 hv, parseElem el with
    | some h, some e =>
      let (g, c, s1, s2) :=
        if which == "deals" then (cfg.dealsDkgNil, cfg.dealsCast, "dkg.DistKeyGenerator.ProcessDeal|nilreceiver|called by dkg.getAndProcessDeals: inventory key dkg.getAndProcessDeals|deref|dkg.ProcessDeal(deal)", "dkg.getAndProcessDeals|typeassert|d.(*Deal)")
        else (cfg.respsDkgNil, cfg.respsCast, "dkg.DistKeyGenerator.ProcessResponse|nilreceiver|called by dkg.getAndProcessResponses: inventory key dkg.getAndProcessResponses|deref|dkg.ProcessResponse(resp)", "dkg.getAndProcessResponses|typeassert|r.(*Response)")
      -- the element is asserted first, then the generator is used
      if h then (stageCast c e s2).show
      else if g then Out.dropped.show
      else match stageCast c e s2 with
        | .ok _ => (stageEntry g h s1).show
        | o => o.show
    | _, _ => bad
  | ["dpk", l] => match l.toNat? with
    | some l => (decodePubKey cfg l).show
    | none => bad
  | ["tobig", l] => match l.toNat? with
    | some l => (toBigInt cfg l).show
    | none => bad
  | ["qloop", evs] =>
    match (parts ";" evs).mapM parseQEv with
    | some es => showOuts (qRun cfg {} es).2
    | none => bad
  | ["rsign", t, n, _seed, valid, signs] =>
    match t.toNat?, n.toNat?, (parts "," valid).mapM parsePair, (parts ";" signs).mapM parseSign with
    | some t, some n, some vs, some ss =>
      showOuts (rsRun cfg (fun c s => vs.any (fun p => p.1 == c && p.2 == s)) t n {} ss).2
    | _, _, _, _ => bad
  | ["subm", r, k] => match r.toNat?, k.toNat? with
    | some r, some k => (choseSubmitter cfg r k).show
    | _, _ => bad
  | ["b32", l] => match l.toNat? with
    | some l => (byte32 cfg l).show
    | none => bad
  | ["crseed", v] => match v.toInt? with
    | some v => (handleCRSeed cfg v).show
    | none => bad
  | ["dec", v, f] => match bool01 v, parseFrame f with
    | some v, some f => (decodeOut cfg v f).show
    | _, _ => bad
  | ["dpipe", f] => match parseFrame f with
    | some f => (decodePipe cfg f).show
    | none => bad
  | ["rid", w] => match parseWire w with
    | some w => (receiveID cfg w).show
    | none => bad
  | ["disp", evs] =>
    match (parts ";" evs).mapM parseDispEv with
    | some es => showOuts (dispRun cfg {} es).2
    | none => bad
  | ["conn", kind] =>
    -- member X = 2, the node itself = 1 (announcing it fails the handshake), another id = 3, none = 0
    let evs : Option (List ConnEv) :=
      if kind == "match" then some [.dial 2 2 true, .hangup 2, .req 2]
      else if kind == "other" then some [.dial 2 3 true, .hangup 2, .req 2]
      else if kind == "empty" then some [.dial 2 0 true, .hangup 2, .req 2]
      else if kind == "own" then some [.dial 2 1 false, .req 2]
      else if kind == "none" then some [.dial 2 2 false, .req 2]
      else if kind == "in2" || kind == "inclose" then some [.req 2]
      else none
    match evs with
    | some es =>
      let outs := (connRun cfg {} es).2
      match outs.find? Out.isPanic, outs.getLast? with
      | some p, _ => p.show
      | none, some (.err k) => "err " ++ k
      | none, some _ => "ok"
      | none, none => bad
    | none => bad
  | ["conns", evs] =>
    match (parts ";" evs).mapM parseConnEv with
    | some es =>
      let outs := (connRun cfg {} es).2
      match outs.find? Out.isPanic with
      | some p => p.show
      | none =>
        -- result of the last request to a real member, number of connections the scripted endpoint saw
        let lastReq := ((es.zip outs).filter (fun p => match p.1 with | .req _ => true | _ => false)).getLast?
        let r := match lastReq with
          | none => "-"
          | some (_, .err k) => "err " ++ k
          | some _ => "ok"
        s!"{r} dials={connDials es outs}"
    | none => bad
  | ["chain", groups, evs] =>
    -- the node's id is 1; the chain double has no endpoint table (any index is accepted)
    match (parts "," groups).mapM parseGroupRec, (parts ";" evs).mapM parseChainEv with
    | some gs, some es => showOuts (chainRun cfg 1 { groups := gs, nWs := 2 ^ 64 } es).2
    | _, _ => bad
  | ["chainraw", groups, evs] =>
    let ws := parts ";" evs
    match (parts "," groups).mapM parseGroupRec, ws.mapM (parseRawEv ws) with
    | some gs, some es => showOuts (chainRun cfg 1 { groups := gs, nWs := 1 } es).2
    | _, _ => bad
  | ["bootips", u, f, k] =>
    match bool01 u, bool01 f, k.toNat? with
    | some u, some f, some k => (getBootIps cfg u f k).show
    | _, _, _ => bad
  | ["deep", kind, d] =>
    match d.toNat? with
    | some d => (deepLine cfg kind d).getD bad
    | none => bad
  | ["mdisp", m] =>
    if m == "nil" then (messageDispatch cfg .nilMsg).show
    else if m == "sub" then (messageDispatch cfg .subscribed).show
    else if m == "unsub" then (messageDispatch cfg .unsubscribed).show else bad
  | ["listen", evs] =>
    match (parts ";" evs).mapM parseSerfEv with
    | some es => showOuts (es.map (listenStep cfg))
    | none => bad
  | ["serf", ls] => match csvNat ls with
    | some ls =>
      match listenMembers cfg ls 0, lookupNames cfg ls 0 with
      | .error o, _ => o.show
      | _, .error o => o.show
      | .ok a, .ok b => s!"ok {a} {b}"
    | none => bad
  | ["lookup", ls] => match csvNat ls with
    | some ls => (lookupOut cfg ls).show
    | none => bad
  | op :: _ => if op.startsWith "fz" then "nopanic" else bad
  | [] => bad

end Dos.Handlers

/-
Known-answer vectors at the block boundary (C06; see `KeccakKat.lean`): 136 bytes = exactly the rate (a
second block consisting of padding only), 137 bytes (one byte in the second block).  Kernel evaluation.
-/
import DosModel.Proofs.KeccakKat

namespace Dos.Keccak
open Dos

set_option maxRecDepth 100000 in
theorem kat_136 :
    toHex (keccak256 (katMsg 136)) = "7ce759f1ab7f9ce437719970c26b0a66ff11fe3e38e17df89cf5d29c7d7f807e" := by
  decide +kernel

set_option maxRecDepth 100000 in
theorem kat_137 :
    toHex (keccak256 (katMsg 137)) = "ac73d4fae68b8453f764007c1a20ce95994187861f0c3227a3a8e99a73a3b1db" := by
  decide +kernel

end Dos.Keccak

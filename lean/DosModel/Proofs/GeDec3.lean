/-
C20 (round 4) — point DECOMPRESSION, part 3: correctness of `Ge.extFromBytes`
(= `(*extendedGroupElement).FromBytes` of ge.go = point.UnmarshalBinary).

  `extFromBytes_some` : whatever is accepted is a good extended representation of a point ON THE CURVE whose y is the
                        encoded y (bit 255 cleared, mod p) and whose x has the encoded sign (unless x = 0)
  `extFromBytes_none` : `false` is returned (for 32 bytes) ONLY when no x with (x, y) on the curve exists
  `extFromBytes_len`  : (Proofs/GeDec.lean) other lengths are rejected
  `extFromBytes_enc`  : decode (encode P) = P for EVERY curve point
  `extFromBytes_noncanonical_accepted` : y ≥ p is accepted (the encoding of p + 1 decodes to the neutral element,
                        like the canonical encoding of 1)
-/
import DosModel.Proofs.GeDec2

set_option exponentiation.threshold 600

namespace Dos.Ge
open Dos Dos.Ed25519 Dos.FeProg Dos.FeOps Dos.GeProg Dos.Ed25519Prime Dos.Edwards Dos.Gen.Ed25519Ge

/-- v = d y² + 1 never vanishes (d y² = −1 would make d = (i / y)² a square) -/
theorem dec_v_ne (y : F) : E25519.d * y ^ 2 + 1 ≠ 0 := by
  intro h0
  have hy0 : y ≠ 0 := by
    intro hz; rw [hz] at h0; simp at h0
  apply E25519.d_nonsq
  refine ⟨E25519.i / y, ?_⟩
  have hi := E25519.i_sq
  rw [div_mul_div_comm, eq_div_iff (mul_ne_zero hy0 hy0)]
  linear_combination h0 - hi

/-- the curve equation solved for x² -/
theorem onCurve_iff (x y : F) : OnCurve E25519.d x y ↔ (E25519.d * y ^ 2 + 1) * x ^ 2 = y ^ 2 - 1 := by
  unfold OnCurve
  constructor <;> intro h <;> linear_combination -h

/-- **accepted ⇒ a curve point with the encoded y and sign**, as a good extended representation -/
theorem extFromBytes_some {s : Bytes} {e : Ext} (h : extFromBytes s = some e) :
    s.length = 32 ∧ ∃ P : Pt, GoodExt e P ∧ P.y = (((leNat s % 2 ^ 255 : ℕ) : ℕ) : F) ∧
      (P.x ≠ 0 → P.x.val % 2 = leNat s / 2 ^ 255) := by
  have hs : s.length = 32 := by
    by_contra hne
    rw [extFromBytes_len hne] at h
    cases h
  refine ⟨hs, ?_⟩
  obtain ⟨u, v, hu, hv, hacc, hrej⟩ := extFromBytes_char s hs
  by_cases hsq : v * (cand u v) ^ 2 = u ∨ v * (cand u v) ^ 2 = -u
  · obtain ⟨e', x', he, hx, hpar, rX, rY, rZ, rT⟩ := hacc hsq
    rw [h] at he
    cases Option.some.inj he
    have on : OnCurve E25519.d x' (((leNat s % 2 ^ 255 : ℕ) : ℕ) : F) := by
      rw [onCurve_iff, ← hu, ← hv]; exact hx
    refine ⟨⟨x', _, on⟩, ?_, rfl, hpar⟩
    exact
      { bX := rX.1, bY := rY.1, bZ := rZ.1, bT := rT.1
        z_ne := by rw [rZ.2]; exact one_ne_zero
        xy := by rw [rX.2, rY.2, rZ.2, rT.2, one_mul]
        hx := by rw [rX.2, rZ.2, div_one]
        hy := by rw [rY.2, rZ.2, div_one] }
  · rw [hrej hsq] at h
    cases h

/-- **rejected ⇒ no curve point has this y**: never a false rejection -/
theorem extFromBytes_none {s : Bytes} (hlen : s.length = 32) (h : extFromBytes s = none) :
    ¬ ∃ x : F, OnCurve E25519.d x (((leNat s % 2 ^ 255 : ℕ) : ℕ) : F) := by
  obtain ⟨u, v, hu, hv, hacc, hrej⟩ := extFromBytes_char s hlen
  rintro ⟨x, hx⟩
  have hv0 : v ≠ 0 := by rw [hv]; exact dec_v_ne _
  have hsq : v * (cand u v) ^ 2 = u ∨ v * (cand u v) ^ 2 = -u := by
    apply (exists_sqrt_iff u v hv0).1
    refine ⟨x, ?_⟩
    rw [onCurve_iff, ← hu, ← hv] at hx
    exact hx
  obtain ⟨e', _, he, _⟩ := hacc hsq
  rw [h] at he
  cases he

/-! ### decode ∘ encode -/

theorem encPt_leNat (P : Pt) : leNat (encPt P) = P.y.val + 2 ^ 255 * (P.x.val % 2) := by
  unfold encPt
  apply leNat_natLE_of_lt
  have := val_lt P.y
  have e : (256 : Nat) ^ 32 = 2 ^ 255 * 2 := by norm_num
  have : P.x.val % 2 < 2 := Nat.mod_lt _ (by decide)
  omega

theorem encPt_y (P : Pt) : leNat (encPt P) % 2 ^ 255 = P.y.val := by
  rw [encPt_leNat, Nat.add_mul_mod_self_left]
  exact Nat.mod_eq_of_lt (val_lt P.y)

theorem encPt_sign (P : Pt) : leNat (encPt P) / 2 ^ 255 = P.x.val % 2 := by
  rw [encPt_leNat, Nat.add_mul_div_left _ _ (by positivity), Nat.div_eq_of_lt (val_lt P.y), Nat.zero_add]

/-- **decode (encode P) = P** for every curve point -/
theorem extFromBytes_enc (P : Pt) : ∃ e, extFromBytes (encPt P) = some e ∧ GoodExt e P := by
  have hlen := encPt_length P
  have hy : (((leNat (encPt P) % 2 ^ 255 : ℕ) : ℕ) : F) = P.y := by
    rw [encPt_y]; exact ZMod.natCast_zmod_val P.y
  cases hd : extFromBytes (encPt P) with
  | none =>
    exfalso
    apply extFromBytes_none hlen hd
    exact ⟨P.x, by rw [hy]; exact P.on⟩
  | some e =>
    obtain ⟨_, Q, hg, hQy, hQs⟩ := extFromBytes_some hd
    rw [hy] at hQy
    rw [encPt_sign] at hQs
    refine ⟨e, rfl, ?_⟩
    suffices hQP : Q = P by rw [← hQP]; exact hg
    apply encPt_inj
    -- the same y, and the same parity of x (when Q.x = 0 also P.x = 0: x² is determined by y)
    have hpar : Q.x.val % 2 = P.x.val % 2 := by
      by_cases hq : Q.x = 0
      · have h1 := (onCurve_iff Q.x Q.y).1 Q.on
        have h2 := (onCurve_iff P.x P.y).1 P.on
        rw [hQy, hq] at h1
        have h3 : (E25519.d * P.y ^ 2 + 1) * P.x ^ 2 = 0 := by
          rw [h2, ← h1]; ring
        have hp : P.x = 0 := by
          rcases mul_eq_zero.1 h3 with h | h
          · exact absurd h (dec_v_ne _)
          · exact pow_eq_zero_iff (two_ne_zero) |>.1 h
        rw [hq, hp]
      · exact hQs hq
    unfold encPt
    rw [hQy, hpar]

/-! ### non-canonical encodings are accepted -/

/-- the 32-byte little-endian encoding of p + 1 (y ≥ p: not the encoding of any point) is accepted and decodes to the
neutral element (0, 1), exactly like the canonical encoding of 1 -/
theorem extFromBytes_noncanonical_accepted :
    (∀ P : Pt, encPt P ≠ natLE 32 (Dos.Ed.p + 1)) ∧
    (∃ e, extFromBytes (natLE 32 (Dos.Ed.p + 1)) = some e ∧ GoodExt e 0) ∧
    (∃ e, extFromBytes (natLE 32 1) = some e ∧ GoodExt e 0) := by
  have hlt : Dos.Ed.p + 1 < 256 ^ 32 := by decide
  have hle : leNat (natLE 32 (Dos.Ed.p + 1)) = Dos.Ed.p + 1 := leNat_natLE_of_lt _ _ hlt
  have hmod : (Dos.Ed.p + 1) % 2 ^ 255 = Dos.Ed.p + 1 := by decide
  have hdiv : (Dos.Ed.p + 1) / 2 ^ 255 = 0 := by decide
  have hlen : (natLE 32 (Dos.Ed.p + 1)).length = 32 := natLE_length _ _
  have hy : (((leNat (natLE 32 (Dos.Ed.p + 1)) % 2 ^ 255 : ℕ) : ℕ) : F) = 1 := by
    rw [hle, hmod]
    push_cast
    rw [ZMod.natCast_self, zero_add]
  refine ⟨?_, ?_, ?_⟩
  · intro P hP
    have h1 := congrArg leNat hP
    rw [hle, encPt_leNat] at h1
    have hyl := ZMod.val_lt P.y
    have h2 : P.x.val % 2 < 2 := Nat.mod_lt _ (by decide)
    have hp : Dos.Ed.p + 19 = 2 ^ 255 := by decide
    omega
  · cases hd : extFromBytes (natLE 32 (Dos.Ed.p + 1)) with
    | none =>
      exfalso
      apply extFromBytes_none hlen hd
      exact ⟨0, by rw [hy]; exact (0 : Pt).on⟩
    | some e =>
      obtain ⟨_, Q, hg, hQy, _⟩ := extFromBytes_some hd
      rw [hy] at hQy
      refine ⟨e, rfl, ?_⟩
      suffices hQ : Q = 0 by rw [← hQ]; exact hg
      have h1 := (onCurve_iff Q.x Q.y).1 Q.on
      rw [hQy] at h1
      have h3 : (E25519.d * 1 ^ 2 + 1) * Q.x ^ 2 = 0 := by rw [h1]; ring
      have hx : Q.x = 0 := by
        rcases mul_eq_zero.1 h3 with h | h
        · exact absurd h (dec_v_ne _)
        · exact pow_eq_zero_iff (two_ne_zero) |>.1 h
      exact Point.ext hx hQy
  · have h0 : encPt (0 : Pt) = natLE 32 1 := by
      unfold encPt
      have e1 : (0 : Pt).y.val = 1 := by
        show (1 : F).val = 1
        exact ZMod.val_one _
      have e0 : (0 : Pt).x.val = 0 := by
        show (0 : F).val = 0
        exact ZMod.val_zero
      rw [e1, e0, Nat.zero_mod, Nat.mul_zero, Nat.add_zero]
    rw [← h0]
    exact extFromBytes_enc 0

end Dos.Ge

/-
C10 round 5 (review F #4, #8) — GT as a group, and PairingCheck on slices of different lengths.

GT. point.go's pointGT stores ANY gfP12 value; `Add` = gfP12.Mul, `Neg` = gfP12.Conjugate, `Sub` = Mul by the
conjugate, `Mul` = gfP12.Exp. Conjugation is the inverse exactly on the UNITARY elements (a · conj a = 1), and the
scalar may be reduced modulo the group order exactly on elements of order dividing r. Round 4 stated both laws under
a hypothesis that was never discharged (example: 1). Here:
* `gt_generator_order`: the GT generator of constants.go (= the pairing of the generators, `consts_gt`) has
  gen^Order = 1 and gen · conj gen = 1 — kernel evaluation through the transcribed gfP12.Exp / Mul in Montgomery
  arithmetic on the regenerated literals;
* `gt_unitary_closed`: unitarity is preserved by Add, Neg, Sub, Mul (every exponent), both Frobenius maps, and
  holds for Null;
* `finalExponentiation_unitary`, `kyber_pair_unitary`: the EASY PART conj f · f⁻¹ of the final exponentiation
  already outputs a unitary element (ring reasoning, f ≠ 0), hence every value `Pair` returns is unitary, for all
  reduced input points whose Miller value is non-zero;
* `kyber_gt_group`: the unitary elements form a commutative group whose operations ARE the translated kyber-level
  functions (pointGT_add / neg / sub / mul / null); on elements of order dividing r, `Mul(scalar k, a)` = a^k for every
  INTEGER k with the scalar reduced as mod.Int reduces it;
* `kyber_gt_implemented`: the same on the implemented Montgomery representation (reduced values, decoding);
* non-vacuity: the pairing of the generators; NEGATIVE witnesses: the Miller value of the generators and the
  constant 2 are values a pointGT can hold on which a + (−a) ≠ Null (`gt_neg_not_inverse_outside_unitary`).
PairingCheck. `kyber_pairingCheck_lengths` states the three cases of the translated loop `for i := range a { … b[i] }`
explicitly instead of hiding them under List.zip: panic (index out of range) iff len(b) < len(a); for equal lengths
the product over ALL pairs; for len(a) < len(b) the surplus of b is silently ignored (witnesses).
Only theorems; lemmas in Proofs/Bn256GT.lean.
-/
import DosModel.Proofs.Bn256GT
import DosModel.Model.Bn256CheckSlices
import DosModel.Props.C10Kyber
import DosModel.Props.C10TowerField
import DosModel.Props.C10Consts

set_option linter.unusedSectionVars false
set_option linter.unusedSimpArgs false

namespace Dos.Props.C10GT
open Dos Dos.Bn256 Dos.Gen Dos.Gen.Bn256Code Dos.Props.C10Kyber

/-! ## the generator -/

set_option maxRecDepth 1000000 in
/-- **the GT generator has order dividing r and is unitary** (kernel evaluation, Montgomery arithmetic, regenerated
literals: 254 squarings and the multiplications of gfP12.Exp for the exponent `Order`) -/
theorem gt_generator_order :
    Fp12.exp gfP12Gen Gen.Bn256.Order = Fp12.one ∧
    Fp12.mul gfP12Gen (Fp12.conjugate gfP12Gen) = Fp12.one ∧
    Red12 gfP12Gen ∧ gfP12Gen ≠ Fp12.one ∧ gfP12Inf = Fp12.one := by
  unfold Red12 Red6 Red2
  decide +kernel

/-- the same after Montgomery decoding, in the field F_p¹²: dec(gen) is a unitary element of order exactly r
(r is prime, `C10.consts_primes`, and gen ≠ 1) -/
theorem gt_generator_unitary :
    Fp12.Unitary (dec12 gfP12Gen) ∧ dec12 gfP12Gen ^ Gen.Bn256.Order = 1 ∧ dec12 gfP12Gen ≠ 1 := by
  obtain ⟨ho, hu, hr, hne, _⟩ := gt_generator_order
  refine ⟨(unitary_dec_iff _ hr).mp hu, (exp_one_dec_iff _ hr _).mp ho, ?_⟩
  intro h
  exact hne (dec12_inj _ _ hr one_dec.1 (h.trans one_dec.2.symm))

/-! ## closure -/

/-- **unitarity is preserved by every GT operation of the library** (over every commutative ring; the Frobenius
maps over every field whose constants satisfy their six relations) -/
theorem gt_unitary_closed {R : Type} [CommRing R] (a b : Fp12 R) (ha : Fp12.Unitary a) (hb : Fp12.Unitary b)
    (s : Nat) :
    Fp12.Unitary (pointGT_add a b) ∧ Fp12.Unitary (pointGT_neg a) ∧ Fp12.Unitary (pointGT_sub a b) ∧
    Fp12.Unitary (pointGT_mul s a) ∧ Fp12.Unitary (pointGT_null (1 : Fp12 R)) := by
  rw [gen_pointGT_add_eq_model, gen_pointGT_neg_eq_model, gen_pointGT_sub_eq_model, gen_pointGT_mul_eq_model]
  exact ⟨Fp12.unitary_mul ha hb, Fp12.unitary_conj ha, Fp12.unitary_mul ha (Fp12.unitary_conj hb),
    Fp12.unitary_exp ha s, Fp12.unitary_one⟩

theorem gt_unitary_frobenius {K : Type} [Field K] (cs : FrobConsts K) (hg : cs.Good) (a : Fp12 K)
    (ha : Fp12.Unitary a) :
    Fp12.Unitary (Fp12.frobeniusG cs a) ∧ Fp12.Unitary (Fp12.frobeniusP2G cs a) :=
  ⟨Fp12.unitary_frobeniusG cs hg ha, Fp12.unitary_frobeniusP2G cs hg ha⟩

/-- non-vacuity: the decoded generator, with the code's constants -/
example : Fp12.Unitary (pointGT_add (dec12 gfP12Gen) (dec12 gfP12Gen)) ∧
    Fp12.Unitary (Fp12.frobeniusG frobConstsFp (dec12 gfP12Gen)) :=
  ⟨(gt_unitary_closed _ _ gt_generator_unitary.1 gt_generator_unitary.1 0).1,
   (gt_unitary_frobenius frobConstsFp frobConstsFp_good _ gt_generator_unitary.1).1⟩

/-! ## the final exponentiation and Pair -/

/-- **the final exponentiation outputs unitary elements**: generic — over every field, for every input that
gfP12.Invert inverts, already after the easy part conj f · f⁻¹ —, and implemented: for every reduced non-zero
gfP12 value the decoded result of optate.go's finalExponentiation is unitary, i.e. x · conj x = 1 in the
implementation's own arithmetic; 0 ↦ a non-unitary value -/
theorem finalExponentiation_unitary :
    (∀ {K : Type} [Field K] (cs : FrobConsts K), cs.Good → ∀ (u : Nat) (x : Fp12 K), x * Fp12.invert x = 1 →
      Fp12.Unitary (Fp12.conjugate x * Fp12.invert x) ∧ Fp12.Unitary (finalExponentiationG cs u x)) ∧
    (∀ x : F12, Red12 x → x ≠ Fp12.zero →
      Fp12.Unitary (dec12 (Bn256.finalExponentiation x)) ∧
      Fp12.mul (Bn256.finalExponentiation x) (Fp12.conjugate (Bn256.finalExponentiation x)) = Fp12.one) ∧
    ¬ Fp12.Unitary (0 : Fp12 (ZMod Bn256.p)) := by
  refine ⟨fun cs hg u x hx => ⟨Fp12.unitary_easy_part x hx, finalExp_unitary cs hg u x hx⟩, ?_,
    finalExp_zero_not_unitary⟩
  intro x hx h0
  obtain ⟨rf, df⟩ := finalExp_dec x hx
  have hne : dec12 x ≠ 0 := by
    intro h
    exact h0 (dec12_inj _ _ hx TowerField.zero12_dec.1 (h.trans TowerField.zero12_dec.2.symm))
  have hu : Fp12.Unitary (dec12 (Bn256.finalExponentiation x)) := by
    rw [df]
    exact finalExp_unitary frobConstsFp frobConstsFp_good uParam _ (TowerField.fp12_invert_all _ hne)
  exact ⟨hu, (unitary_dec_iff _ rf).mpr hu⟩

/-- non-vacuity: the Miller value of the generators is reduced and non-zero (its final exponentiation is the GT
generator, which is not zero) -/
example : Red12 (miller twistGen curveGen) :=
  C10Miller.miller_reduced _ _ (by unfold Jac.Reduced2; decide) (by unfold Jac.Reduced; decide)

/-- **Pair returns unitary elements**: for reduced input points — either one the identity, or the Miller value
non-zero — the value `Pair(p1, p2)` of the translated kyber-level function is reduced, its decoding is unitary,
and in the implementation's own arithmetic a + (−a) = a − a = Null -/
theorem kyber_pair_unitary (p1 : G1J) (p2 : G2J) (h1 : Jac.Reduced p1) (h2 : Jac.Reduced2 p2)
    (hm : (p2.isInfinity || p1.isInfinity) = true ∨ miller p2 p1 ≠ Fp12.zero) :
    Red12 (pointGT_pair frobConsts uParam p1 p2) ∧
    Fp12.Unitary (dec12 (pointGT_pair frobConsts uParam p1 p2)) ∧
    pointGT_add (pointGT_pair frobConsts uParam p1 p2) (pointGT_neg (pointGT_pair frobConsts uParam p1 p2)) =
      pointGT_null gfP12Inf ∧
    pointGT_sub (pointGT_pair frobConsts uParam p1 p2) (pointGT_pair frobConsts uParam p1 p2) =
      pointGT_null gfP12Inf := by
  have hred := (kyber_pair_reduced p1 p2 h1 h2).1
  have hu : Fp12.Unitary (dec12 (pointGT_pair frobConsts uParam p1 p2)) := by
    rw [(gen_pointGT_pair_eq_model_gfp p1 p2).2]
    by_cases hi : (p2.isInfinity || p1.isInfinity) = true
    · have : optimalAte p2 p1 = Fp12.one := by simp only [Dos.Bn256.optimalAte, hi, if_true]
      rw [this, one_dec.2]; exact Fp12.unitary_one
    · have : optimalAte p2 p1 = Bn256.finalExponentiation (miller p2 p1) := by
        simp only [Dos.Bn256.optimalAte, hi, Bool.false_eq_true, if_false]
      rw [this]
      exact (finalExponentiation_unitary.2.1 _ (C10Miller.miller_reduced p2 p1 h2 h1)
        (hm.resolve_left hi)).1
  have hone := (unitary_dec_iff _ hred).mpr hu
  have hinf : pointGT_null gfP12Inf = Fp12.one := by
    rw [gen_pointGT_null_eq_model]; exact gt_generator_order.2.2.2.2
  refine ⟨hred, hu, ?_, ?_⟩
  · rw [gen_pointGT_add_eq_model, gen_pointGT_neg_eq_model, hinf]; exact hone
  · rw [gen_pointGT_sub_eq_model, hinf]; exact hone

/-- **non-trivial instance: the pairing of the generators** e(G1, G2) — a value ≠ 1 — satisfies
a + (−a) = Null and a − a = Null through the translated functions (hypothesis discharged through the identity
`optimalAte twistGen curveGen = gfP12Gen`, `C10Consts.consts_gt`: the Miller value cannot be zero because its
final exponentiation, the generator, is unitary) -/
theorem kyber_pair_generators_inverse :
    pointGT_pair frobConsts uParam curveGen twistGen = gfP12Gen ∧ gfP12Gen ≠ pointGT_null gfP12Inf ∧
    pointGT_add gfP12Gen (pointGT_neg gfP12Gen) = pointGT_null gfP12Inf ∧
    pointGT_sub gfP12Gen gfP12Gen = pointGT_null gfP12Inf := by
  obtain ⟨_, hu, _, hne, hinf⟩ := gt_generator_order
  have hnull : pointGT_null gfP12Inf = Fp12.one := by rw [gen_pointGT_null_eq_model]; exact hinf
  refine ⟨?_, ?_, ?_, ?_⟩
  · rw [(gen_pointGT_pair_eq_model_gfp curveGen twistGen).2]; exact C10Consts.consts_gt.2
  · rw [hnull]; exact hne
  · rw [gen_pointGT_add_eq_model, gen_pointGT_neg_eq_model, hnull]; exact hu
  · rw [gen_pointGT_sub_eq_model, hnull]; exact hu

/-! ## the group -/

/-- **GT, kyber level, as a group**: the unitary elements of gfP12 (over every commutative ring) form a
commutative group in which the product is `Add`, the inverse is `Neg`, the quotient is `Sub`, the n-th power is
`Mul(n, ·)` for every n, the unit is `Null`; and for an element of order dividing n (n = r for the subgroup the
library works in), `Mul` by the scalar's big.Int `V = k mod n` (`modIntV`, the behaviour of mod.Int) is the k-th
power for every INTEGER k, and `Mul(s, ·) = Mul(s mod n, ·)` — group laws (associativity, commutativity, identity,
inverse) are those of the `CommGroup` instance, whose data are the translated functions -/
theorem kyber_gt_group {R : Type} [CommRing R] (a b : Fp12.UnitaryGT R) (s n : Nat) (k : Int) :
    (a * b).1 = pointGT_add a.1 b.1 ∧ (a⁻¹).1 = pointGT_neg a.1 ∧ (a / b).1 = pointGT_sub a.1 b.1 ∧
    (a ^ s).1 = pointGT_mul s a.1 ∧ (1 : Fp12.UnitaryGT R).1 = pointGT_null (1 : Fp12 R) ∧
    pointGT_add a.1 (pointGT_neg a.1) = pointGT_null (1 : Fp12 R) ∧
    pointGT_sub a.1 a.1 = pointGT_null (1 : Fp12 R) ∧
    (0 < n → a ^ n = 1 →
      pointGT_mul (modIntV k n) a.1 = (a ^ k).1 ∧ pointGT_mul s a.1 = pointGT_mul (s % n) a.1) := by
  rw [gen_pointGT_add_eq_model, gen_pointGT_neg_eq_model, gen_pointGT_sub_eq_model, gen_pointGT_mul_eq_model,
    gen_pointGT_null_eq_model]
  refine ⟨rfl, rfl, Fp12.UnitaryGT.val_div a b, ?_, rfl, a.2, a.2, ?_⟩
  · rw [Fp12.UnitaryGT.val_pow]; exact (Fp12.exp_eq_pow a.1 s).symm
  · intro hn h
    have h' := (Fp12.UnitaryGT.pow_eq_one_iff a n).mp h
    constructor
    · show Fp12.exp a.1 (modIntV k n) = _
      rw [Fp12.exp_eq_pow, ← Fp12.UnitaryGT.val_pow, Fp12.UnitaryGT.modIntV_pow a n hn h k]
    · show Fp12.exp a.1 s = Fp12.exp a.1 (s % n)
      rw [Fp12.exp_eq_pow, Fp12.exp_eq_pow]; exact Fp12.unitary_pow_mod n h' s

/-- non-vacuity, non-trivial: the decoded GT generator (an element ≠ 1 of order r): −1 and r + 1 as scalars -/
example : pointGT_mul (modIntV (-1) Gen.Bn256.Order) (dec12 gfP12Gen) = Fp12.conjugate (dec12 gfP12Gen) ∧
    pointGT_mul (Gen.Bn256.Order + 1) (dec12 gfP12Gen) = pointGT_mul 1 (dec12 gfP12Gen) := by
  obtain ⟨hu, ho, _⟩ := gt_generator_unitary
  let g : Fp12.UnitaryGT (ZMod Bn256.p) := ⟨dec12 gfP12Gen, hu⟩
  have hg : g ^ Gen.Bn256.Order = 1 := (Fp12.UnitaryGT.pow_eq_one_iff g _).mpr ho
  have h := (kyber_gt_group g g (Gen.Bn256.Order + 1) Gen.Bn256.Order (-1)).2.2.2.2.2.2.2 (by decide) hg
  refine ⟨?_, ?_⟩
  · have h1 := h.1
    rw [zpow_neg, zpow_one] at h1
    exact h1
  · have h2 := h.2
    rw [show (Gen.Bn256.Order + 1) % Gen.Bn256.Order = 1 by decide] at h2
    exact h2

/-- **GT as implemented** (Montgomery limbs): on reduced values the translated Add / Neg / Sub / Mul return reduced
values that decode to product, conjugate, product by the conjugate, power in F_p¹²; if the decoded operand is
unitary, a + (−a) and a − a ARE the identity `Null()` limb for limb; if it has order dividing r, the scalar may be
reduced modulo r -/
theorem kyber_gt_implemented (a b : F12) (ha : Red12 a) (hb : Red12 b) (s : Nat) :
    (Red12 (pointGT_add a b) ∧ dec12 (pointGT_add a b) = dec12 a * dec12 b) ∧
    (Red12 (pointGT_neg a) ∧ dec12 (pointGT_neg a) = Fp12.conjugate (dec12 a)) ∧
    (Red12 (pointGT_sub a b) ∧ dec12 (pointGT_sub a b) = dec12 a * Fp12.conjugate (dec12 b)) ∧
    (Red12 (pointGT_mul s a) ∧ dec12 (pointGT_mul s a) = dec12 a ^ s) ∧
    (Fp12.Unitary (dec12 a) →
      pointGT_add a (pointGT_neg a) = pointGT_null gfP12Inf ∧ pointGT_sub a a = pointGT_null gfP12Inf) ∧
    (dec12 a ^ Gen.Bn256.Order = 1 → pointGT_mul s a = pointGT_mul (s % Gen.Bn256.Order) a) := by
  rw [gen_pointGT_add_eq_model, gen_pointGT_neg_eq_model, gen_pointGT_sub_eq_model, gen_pointGT_mul_eq_model,
    gen_pointGT_null_eq_model]
  obtain ⟨rc, dc⟩ := conj_dec b hb
  obtain ⟨rs, ds⟩ := mul_dec a _ ha rc
  refine ⟨mul_dec a b ha hb, conj_dec a ha, ⟨rs, by rw [ds, dc]⟩, exp_dec a ha s, ?_, ?_⟩
  · intro hu
    have h := (unitary_dec_iff a ha).mpr hu
    rw [gt_generator_order.2.2.2.2]
    exact ⟨h, h⟩
  · intro ho
    show Fp12.exp a s = Fp12.exp a (s % Gen.Bn256.Order)
    apply dec12_inj _ _ (exp_dec a ha _).1 (exp_dec a ha _).1
    rw [(exp_dec a ha _).2, (exp_dec a ha _).2]
    exact Fp12.unitary_pow_mod _ ho s

/-- round 4's `C10Kyber.kyber_gt_laws` had q = 1 as its only instance; its hypothesis qⁿ = 1 is now discharged for the
decoded GT generator with n = r -/
example : pointGT_mul (Gen.Bn256.Order + 2) (dec12 gfP12Gen) = pointGT_mul ((Gen.Bn256.Order + 2) % Gen.Bn256.Order)
    (dec12 gfP12Gen) :=
  (kyber_gt_laws 1 1 (dec12 gfP12Gen) _ _ gt_generator_unitary.2.1).2.2.1

example : pointGT_mul (Gen.Bn256.Order + 5) gfP12Gen = pointGT_mul ((Gen.Bn256.Order + 5) % Gen.Bn256.Order) gfP12Gen :=
  (kyber_gt_implemented gfP12Gen gfP12Gen gt_generator_order.2.2.1 gt_generator_order.2.2.1 _).2.2.2.2.2
    gt_generator_unitary.2.1

/-! ## outside the unitary elements the laws FAIL (values a pointGT can hold) -/

/-- the full statement one might read into "GT obeys the group laws": for EVERY value of the type -/
def C10_gt_inverse_full : Prop :=
  ∀ a : F12, Red12 a → pointGT_add a (pointGT_neg a) = pointGT_null gfP12Inf

set_option maxRecDepth 1000000 in
/-- **negative witnesses**: (1) the Miller value of the generators — what the exported `Miller` returns before
`Finalize` — is a reduced gfP12 value m with m + (−m) ≠ Null; (2) the Montgomery encoding of the constant 2 — a value
`pointGT.UnmarshalBinary` accepts, it has no membership test — likewise; (3) over ℤ: 2 + (−2) = 4. So the group
laws hold on the unitary elements (`kyber_gt_group`), not on every value of the type: `C10_gt_inverse_full` is
false. -/
theorem gt_neg_not_inverse_outside_unitary :
    pointGT_add (miller twistGen curveGen) (pointGT_neg (miller twistGen curveGen)) ≠ pointGT_null gfP12Inf ∧
    pointGT_add (Fp12.mul gfP12Inf (Fp12.add gfP12Inf gfP12Inf)) (pointGT_neg (Fp12.mul gfP12Inf (Fp12.add gfP12Inf gfP12Inf)))
      ≠ pointGT_null gfP12Inf ∧
    Red12 (Fp12.mul gfP12Inf (Fp12.add gfP12Inf gfP12Inf)) ∧
    ¬ C10_gt_inverse_full := by
  have h12 : pointGT_add (miller twistGen curveGen) (pointGT_neg (miller twistGen curveGen)) ≠ pointGT_null gfP12Inf ∧
      pointGT_add (Fp12.mul gfP12Inf (Fp12.add gfP12Inf gfP12Inf))
        (pointGT_neg (Fp12.mul gfP12Inf (Fp12.add gfP12Inf gfP12Inf))) ≠ pointGT_null gfP12Inf ∧
      Red12 (Fp12.mul gfP12Inf (Fp12.add gfP12Inf gfP12Inf)) := by
    rw [gen_pointGT_add_eq_model, gen_pointGT_neg_eq_model, gen_pointGT_null_eq_model]
    unfold Red12 Red6 Red2
    decide +kernel
  refine ⟨h12.1, h12.2.1, h12.2.2, fun h => h12.2.1 (h _ h12.2.2)⟩

example : pointGT_add (⟨0, ⟨0, 0, ⟨0, 2⟩⟩⟩ : Fp12 Int) (pointGT_neg ⟨0, ⟨0, 0, ⟨0, 2⟩⟩⟩) = ⟨0, ⟨0, 0, ⟨0, 4⟩⟩⟩ := by
  decide

/-! ## PairingCheck: the two slices may differ in length (review F #8) -/

/-- **PairingCheck and the lengths of its two slices** (translated loop `for i := range a { … b[i] … }`), for
reduced input points:
* `len(b) < len(a)`: Go panics (index out of range) — value `none`; and only then;
* `len(a) = len(b)`: no element of either slice is dropped (`unzip (zip a b) = (a, b)`) and the result is true
  exactly when the product over ALL pairs (a[i], b[i]) of the decoded pairing values is one;
* `len(a) < len(b)`: the surplus b[len(a)..] is silently ignored: same result as on `b.take (len a)`.
The only caller in /repo (sign/bls Verify) passes two slices of length 2. -/
theorem kyber_pairingCheck_lengths (a : List G1J) (b : List G2J) (ha : ∀ x ∈ a, Jac.Reduced x)
    (hb : ∀ y ∈ b, Jac.Reduced2 y) :
    (pointGT_pairingCheck frobConsts uParam a b = none ↔ b.length < a.length) ∧
    (a.length = b.length →
      (List.zip a b).unzip = (a, b) ∧
      (pointGT_pairingCheck frobConsts uParam a b = some true ↔
        ((List.zip a b).map fun pq => dec12 (optimalAte pq.2 pq.1)).prod = 1) ∧
      (pointGT_pairingCheck frobConsts uParam a b = some false ↔
        ((List.zip a b).map fun pq => dec12 (optimalAte pq.2 pq.1)).prod ≠ 1)) ∧
    (a.length < b.length →
      pointGT_pairingCheck frobConsts uParam a b = pointGT_pairingCheck frobConsts uParam a (b.take a.length)) := by
  obtain ⟨hnone, hsome⟩ := kyber_pairingCheck a b ha hb
  refine ⟨hnone, ?_, ?_⟩
  · intro hlen
    have hiff := hsome (le_of_eq hlen)
    refine ⟨List.unzip_zip hlen, hiff, ?_⟩
    rw [gen_pointGT_pairingCheck_eq_model] at hiff ⊢
    have h : ¬ b.length < a.length := by omega
    simp only [h, if_false, Option.some.injEq] at hiff ⊢
    rw [Ne, ← hiff]
    cases pairingCheck (List.zip a b) <;> simp
  · intro hlt
    rw [gen_pointGT_pairingCheck_eq_model, gen_pointGT_pairingCheck_eq_model]
    have h1 : ¬ b.length < a.length := by omega
    have h2 : ¬ (b.take a.length).length < a.length := by rw [List.length_take]; omega
    simp only [h1, h2, if_false, zip_take_left]

/-- **the explicit model of the length mismatch** (`Model/Bn256CheckSlices.lean`: outcome `panicIndex len(b) len(b)` /
`value` of the first len(a) pairs — the function the driver runs against the real code on `checkl` cases) is the
translated PairingCheck, for ALL lists (no reducedness needed: both sides are the same computation) -/
theorem kyber_pairingCheck_outcome (a : List G1J) (b : List G2J) :
    pointGT_pairingCheck frobConsts uParam a b = (pairingCheckSlices a b).toOption ∧
    (b.length < a.length → pairingCheckSlices a b = .panicIndex b.length b.length) ∧
    (a.length ≤ b.length → pairingCheckSlices a b = .value (pairingCheck (List.zip a (b.take a.length)))) := by
  rw [gen_pointGT_pairingCheck_eq_model]
  unfold pairingCheckSlices
  by_cases h : b.length < a.length
  · simp only [h, if_true, CheckOutcome.toOption]
    exact ⟨trivial, fun _ => trivial, fun h' => absurd h (by omega)⟩
  · simp only [h, if_false, CheckOutcome.toOption, zip_take_left]
    exact ⟨trivial, fun h' => h'.elim, fun _ => trivial⟩

example : pairingCheckSlices [curveGen, curveGen] [twistGen] = .panicIndex 1 1 := by
  unfold pairingCheckSlices; rfl

/-- **witnesses**: `PairingCheck([G1, G1], [G2])` panics; `PairingCheck([G1], [G2, −G2])` ignores −G2 and answers
false (the value of the single pair (G1, G2), whose pairing is the generator ≠ 1) -/
theorem kyber_pairingCheck_length_witnesses :
    pointGT_pairingCheck frobConsts uParam [curveGen, curveGen] [twistGen] = none ∧
    pointGT_pairingCheck frobConsts uParam [curveGen] [twistGen, twistNeg twistGen] =
      pointGT_pairingCheck frobConsts uParam [curveGen] [twistGen] ∧
    pointGT_pairingCheck frobConsts uParam [curveGen] [twistGen] = some false := by
  have rg : Jac.Reduced curveGen := by unfold Jac.Reduced; decide
  have rt : Jac.Reduced2 twistGen := by unfold Jac.Reduced2; decide
  have rn : Jac.Reduced2 (twistNeg twistGen) := by unfold Jac.Reduced2; decide
  have ha1 : ∀ x ∈ [curveGen], Jac.Reduced x := by intro x hx; simp at hx; subst hx; exact rg
  have ha2 : ∀ x ∈ [curveGen, curveGen], Jac.Reduced x := by intro x hx; simp at hx; subst hx; exact rg
  have hb1 : ∀ y ∈ [twistGen], Jac.Reduced2 y := by intro y hy; simp at hy; subst hy; exact rt
  have hb2 : ∀ y ∈ [twistGen, twistNeg twistGen], Jac.Reduced2 y := by
    intro y hy; simp at hy; rcases hy with h | h <;> subst h <;> assumption
  refine ⟨(kyber_pairingCheck_lengths _ _ ha2 hb1).1.mpr (by decide),
    (kyber_pairingCheck_lengths _ _ ha1 hb2).2.2 (by decide), ?_⟩
  apply ((kyber_pairingCheck_lengths _ _ ha1 hb1).2.1 rfl).2.2.mpr
  simp only [List.zip_cons_cons, List.zip_nil_right, List.map_cons, List.map_nil, List.prod_cons, List.prod_nil,
    mul_one]
  rw [C10Consts.consts_gt.2]
  exact gt_generator_unitary.2.2

end Dos.Props.C10GT

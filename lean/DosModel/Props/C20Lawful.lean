/-
C20 (round 4) — COMPOSITION.  The Schnorr / EdDSA-interoperability theorems of Props/C20.lean and Props/C20Compose.lean
took `Lawful g` ("the point code implements a commutative group with ℓ•B = 0 and encodings that decode back") as a
HYPOTHESIS about group/edwards25519.  Here it is a THEOREM about the translated code (`code_point_layer_lawful`), and
the Schnorr theorems are restated for `codeGrp` — the group record made of point.Add (ptAdd), point.Mul (geScalarMult),
the constant baseext, point.MarshalBinary (extToBytes) and point.UnmarshalBinary (extFromBytes) — WITHOUT any
hypothesis on the group.  What is left as assumption is not code: SHA-512 (an arbitrary function `H` here) and, for the
alteration clause, the hash events named in `single_alteration_cases`.

Scope note: `codeGrp.smul n` is the code (`geScalarMult` on the 32 little-endian bytes of n) for n < 2^255 — the
documented precondition `a[31] <= 127` of geScalarMult/geScalarMultBase; every scalar the theorems below feed it is
below ℓ < 2^253 or is the caller's x, k (kyber scalars are reduced).  `Mul(s, nil)` uses geScalarMultBase, which equals
geScalarMult on the base point (`mul_base_eq`, with the whole table of const.go checked by the kernel).
-/
import DosModel.Props.C20Compose
import DosModel.Proofs.GeCodeFacts
import DosModel.Proofs.GeScalarMultBase
import DosModel.Proofs.GeNatTableFull

set_option exponentiation.threshold 600

namespace Dos.Props.C20Lawful
open Dos Dos.Ed25519 Dos.Schnorr Dos.Ge Dos.FeProg

/-- **the hypothesis `Lawful` of the Schnorr theorems, proved for the translated point code** -/
theorem code_point_layer_lawful : Lawful codeGrp := codeGrp_is_lawful

/-- the group operations of the record ARE the translated code on any good representations, not only the chosen ones -/
theorem code_ops_representation_independent {p q : Ext} {P Q : Pt} (hp : GoodExt p P) (hq : GoodExt q Q)
    (a : Bytes) (hlen : a.length = 32) (h31 : (a.getD 31 0).toNat ≤ 127) :
    absPt (ptAdd p q) = P + Q ∧ absPt (geScalarMult a p) = leNat a • P ∧ extToBytes p = encPt P
    ∧ (∃ e, extFromBytes (encPt P) = some e ∧ GoodExt e P) :=
  ⟨absPt_of_good (ptAdd_spec hp hq), absPt_of_good (geScalarMult_spec a hlen h31 hp), extToBytes_spec hp,
    extFromBytes_enc P⟩

/-- the base point has order EXACTLY ℓ (ℓ•B = 0 kernel-evaluated with verified arithmetic, ℓ prime, B ≠ 0) -/
theorem code_base_order : ∀ n : ℕ, n • codeGrp.base = 0 ↔ ell ∣ n := by
  intro n
  rw [codeGrp_base]
  exact smul_base_eq_zero_iff n

example : (2 * ell) • codeGrp.base = 0 := (code_base_order _).2 ⟨2, by ring⟩

/-- **completeness + interoperability**: a signature made by `Sign` with the translated code is accepted by the
repaired `Verify` and by the RFC 8032 verifier — no hypothesis on the group -/
theorem sign_verifies_code (H : Bytes → Bytes) (x k : ℕ) (msg : Bytes) :
    verify codeGrp H (codeGrp.smul x codeGrp.base) msg (sign codeGrp H x k msg) = .ok ()
    ∧ verifyStd codeGrp H (codeGrp.enc (codeGrp.smul x codeGrp.base)) msg (sign codeGrp H x k msg) = true :=
  Props.C20.sign_verifies codeGrp_is_lawful H x k msg

/-- **soundness**: `Verify` accepts exactly the 64-byte strings whose R part decodes to a curve point, whose S part is
canonical, and that satisfy S•B = R + h•A in the curve group -/
theorem verify_sound_code (H : Bytes → Bytes) (A : Pt) (msg sig : Bytes) :
    verify codeGrp H A msg sig = .ok () ↔
      sig.length = 64 ∧ ∃ R, codeGrp.dec (sig.take 32) = some R ∧ leNat (sig.drop 32) < ell ∧
        leNat (sig.drop 32) • codeGrp.base = R + challenge codeGrp H A R msg • A :=
  Props.C20.verify_sound codeGrp_is_lawful H A msg sig

/-- **non-malleability in S** and rejection of an altered S, wrong lengths — no order hypothesis -/
theorem verify_nonmalleable_S_code (H : Bytes → Bytes) (A : Pt) (msg sig sig' : Bytes)
    (h1 : verify codeGrp H A msg sig = .ok ()) (h2 : verify codeGrp H A msg sig' = .ok ())
    (hR : sig.take 32 = sig'.take 32) : sig = sig' :=
  Props.C20Compose.verify_nonmalleable_S_composed codeGrp_is_lawful codeGrp_base_ne_zero H A msg sig sig' h1 h2 hR

theorem altered_S_rejected_code (H : Bytes → Bytes) (A : Pt) (msg sig sig' : Bytes)
    (h1 : verify codeGrp H A msg sig = .ok ()) (hR : sig.take 32 = sig'.take 32) (hne : sig' ≠ sig) :
    verify codeGrp H A msg sig' ≠ .ok () :=
  Props.C20Compose.altered_S_rejected_composed codeGrp_is_lawful codeGrp_base_ne_zero H A msg sig sig' h1 hR hne

/-- finding F5 on the translated code: the pre-repair `Verify` accepted R‖S+ℓ, the repaired one answers `noncanonical` -/
theorem malleability_witness_and_repair_code (H : Bytes → Bytes) (x k : ℕ) (msg : Bytes) :
    let sig := sign codeGrp H x k msg
    let sig' := sig.take 32 ++ natLE 32 (leNat (sig.drop 32) + ell)
    sig' ≠ sig
    ∧ verifyPre codeGrp H (codeGrp.smul x codeGrp.base) msg sig' = .ok ()
    ∧ verify codeGrp H (codeGrp.smul x codeGrp.base) msg sig' = .error .noncanonical :=
  Props.C20.malleability_witness_and_repair codeGrp_is_lawful H x k msg

/-- an altered message accepted with the same signature under a key x•B, ℓ ∤ x, is a challenge collision modulo ℓ -/
theorem altered_message_needs_collision_code (H : Bytes → Bytes) (x : ℕ) (hx : ¬ ell ∣ x) (msg msg' sig : Bytes)
    (h1 : verify codeGrp H (codeGrp.smul x codeGrp.base) msg sig = .ok ())
    (h2 : verify codeGrp H (codeGrp.smul x codeGrp.base) msg' sig = .ok ()) :
    ∃ R, codeGrp.dec (sig.take 32) = some R ∧
      challenge codeGrp H (codeGrp.smul x codeGrp.base) R msg = challenge codeGrp H (codeGrp.smul x codeGrp.base) R msg' :=
  Props.C20Compose.altered_message_needs_collision_composed codeGrp_is_lawful codeGrp_base_ne_zero H x hx msg msg' sig h1 h2

/-- point encodings round-trip on the code: MarshalBinary then UnmarshalBinary gives back the point, and whatever
UnmarshalBinary accepts is a point of the curve with the encoded y (an error is returned only when no x exists) -/
theorem point_encoding_roundtrip (P : Pt) (s : Bytes) :
    codeGrp.dec (codeGrp.enc P) = some P ∧ (codeGrp.enc P).length = 32
    ∧ (s.length = 32 → extFromBytes s = none →
        ¬ ∃ x : Ed25519Prime.F, Edwards.OnCurve E25519.d x (((leNat s % 2 ^ 255 : ℕ) : ℕ) : Ed25519Prime.F)) :=
  ⟨codeGrp_is_lawful.dec_enc P, codeGrp_is_lawful.enc_len P, fun hl hn => extFromBytes_none hl hn⟩

/-- `P.Mul(s, nil)` (geScalarMultBase with the table of const.go) is `P.Mul(s, Base)` -/
theorem mul_base_eq (a : Bytes) (hlen : a.length = 32) (h31 : (a.getD 31 0).toNat ≤ 127) :
    absPt (geScalarMultBase a) = leNat a • basePt ∧ absPt (geScalarMult a baseExt) = leNat a • basePt :=
  ⟨absPt_of_good (geScalarMultBase_spec (fun i j hi hj => baseTable_ok i j hi hj) a hlen h31),
    absPt_of_good (geScalarMult_spec a hlen h31 baseExt_good)⟩

end Dos.Props.C20Lawful

package c14

import (
	"fmt"
	"strings"

	"verifharness/internal/h"
)

var fanins = []string{"dosnode.mergeErrors", "dosnode.fanIn", "utils.MergeErrors", "onchain.merge", "onchain.mergeError", "p2p.merge", "dkg.mergeErrors"}

// decisions of recoverSign's loop body resolved to the path that recovers and reports
const recoverOK = "pick=if_sign_==_nil:1;if_own_==_nil:0;if_len(signShares)_>=_nbThreshold:0;if_err_!=_nil:1;if_t_<_0:1"

func faninLine(f, in0, in1, cons, ctl string, reps int) string {
	out := f + ".out"
	if f == "dosnode.fanIn" {
		out = "dosnode.fanIn.multiplexedStream"
	}
	c := "-"
	if cons != "-" {
		c = out + ":" + cons
	}
	return fmt.Sprintf("sc p=helper.%s keep=%s feed=env.in#0:%s;env.in#1:%s cons=%s ctl=%s obs=%s reps=%d", f, f, in0, in1, c, ctl, out, reps)
}

func dispatchLine(sub, sign, peers, cons, ctl string, self int, pre bool, reps int) string {
	return dispatchLineShare(sub, sign, peers, cons, ctl, self, 1, pre, reps)
}

// share = 1: genSign delivers a share; share = 0: it delivers nil (the node could not compute the
// content; /repo 7f58072: dispatchSign then finishes instead of registering for the peers' shares)
func dispatchLineShare(sub, sign, peers, cons, ctl string, self, share int, pre bool, reps int) string {
	l := fmt.Sprintf("sc p=query.sys keep=dosnode.dispatchSign,dosnode.queryLoop feed=dosnode.choseSubmitter.outs#1:%s;dosnode.genSign.out:%s;p2p.SubscribeMsg.dosnode.queryLoop:%s cons=dosnode.dispatchSign.out:%s ctl=%s pick=if_r_!=_0:%d;if_!ok_||_sign_==_nil:%d obs=dosnode.dispatchSign.out reps=%d",
		sub, sign, peers, cons, ctl, self, share, reps)
	if pre {
		l += " pre=1"
	}
	return l
}

// gen: the lines are generated first (all randomness from rng, in a fixed order), handed to the worker
// pool, and then emitted in the same order
func gen(tier string, rng *h.Rng, emitOut func(string)) {
	var lines []string
	genLines(tier, rng, func(l string) { lines = append(lines, l) })
	prefetch(lines)
	for _, l := range lines {
		emitOut(l)
	}
}

func genLines(tier string, rng *h.Rng, emit func(string)) {
	progs := []string{"c", "sc", "ssc", "sssc", "ssssc", "s", "-"}
	conss := []string{"all", "ctx", "-", "n1"}
	ctls := []string{"f0,f1,r", "f0,f1,x,r", "x,f0,f1,r", "f0,x,f1,r", "f0,f1,x"}
	// directed: an error in flight when the deadline fires (every fan-in), more errors than the
	// buffer holds, cancellation before / between / after the inputs
	for _, f := range fanins {
		emit(faninLine(f, "sc", "c", "all", "f0,f1,r", 3))
		emit(faninLine(f, "sssc", "c", "-", "f0,f1,x,r", 4))
		emit(faninLine(f, "sc", "sc", "ctx", "f0,f1,x,r", 5))
		emit(faninLine(f, "ssssc", "sc", "-", "f0,f1,x,r", 4))
		emit(faninLine(f, "c", "c", "-", "x,f0,f1,r", 3))
	}
	n := 3
	if tier == "thorough" {
		n = 14
	}
	for _, f := range fanins {
		for i := 0; i < n; i++ {
			emit(faninLine(f, progs[rng.Intn(len(progs))], progs[rng.Intn(len(progs))], conss[rng.Intn(len(conss))], ctls[rng.Intn(len(ctls))], 4))
		}
	}
	// the counter-run's shape on the real fan-ins: upstream and caller never stop, the deadline fires at
	// a random instant of the streaming (spin.go)
	ns := 2
	if tier == "thorough" {
		ns = 6
	}
	for _, f := range fanins {
		for i := 0; i < ns; i++ {
			emit(fmt.Sprintf("spin p=helper.%s at=%d reps=12", f, 50+rng.Intn(4000)))
		}
	}
	for _, p := range []string{"query.sys", "query.user", "query.url", "grouping"} {
		emit("collect p=" + p)
	}
	// dispatchSign + queryLoop: submitter / member, share buffered before the registration,
	// context already expired when the stage starts (F15), expiring at each quiet point
	emit(dispatchLine("sc", "sc", "s", "ctx", "f2,f0,f1,go,r", 1, false, 4))
	emit(dispatchLine("sc", "sc", "-", "ctx", "f0,f1,go,r", 0, false, 4))
	emit(dispatchLine("sc", "sc", "s", "ctx", "f2,f0,f1,x,go,r", 1, false, 60))
	emit(dispatchLine("sc", "sc", "s", "ctx", "f2,f0,f1,go,x,r", 1, false, 30))
	emit(dispatchLine("c", "sc", "-", "ctx", "f0,f1,go,r", 1, false, 4))
	emit(dispatchLine("sc", "c", "-", "ctx", "f0,f1,go,x,r", 1, false, 30))
	// no own share (nil from genSign): the reply channel is closed, never registered (7f58072)
	emit(dispatchLineShare("sc", "sc", "s", "ctx", "f2,f0,f1,go,r", 1, 0, false, 4))
	emit(dispatchLineShare("sc", "s", "ss", "all", "f0,f1,go,f2,x,r", 1, 0, false, 8))
	// single stages of the query pipeline, cancellation at every quiet point
	stageLines := []string{
		"sc p=query.sys keep=dosnode.choseSubmitter feed=- cons=dosnode.choseSubmitter.outs#0:all;dosnode.choseSubmitter.outs#1:all;dosnode.choseSubmitter.errc:all ctl=%s obs=dosnode.choseSubmitter.outs#0;dosnode.choseSubmitter.outs#1;dosnode.choseSubmitter.errc reps=3",
		"sc p=query.sys keep=dosnode.choseSubmitter feed=- cons=dosnode.choseSubmitter.errc:ctx ctl=%s obs=dosnode.choseSubmitter.outs#0;dosnode.choseSubmitter.outs#1;dosnode.choseSubmitter.errc reps=3",
		"sc p=query.sys keep=dosnode.genSysRandom feed=dosnode.choseSubmitter.outs#0:sc cons=dosnode.genSysRandom.out:ctx ctl=%s obs=dosnode.genSysRandom.out reps=4",
		"sc p=query.sys keep=dosnode.genSysRandom feed=dosnode.choseSubmitter.outs#0:c cons=- ctl=%s obs=dosnode.genSysRandom.out reps=4",
		"sc p=query.sys keep=dosnode.genSysRandom feed=dosnode.choseSubmitter.outs#0:sc cons=- ctl=%s obs=dosnode.genSysRandom.out reps=4",
		"sc p=query.sys keep=dosnode.reportQueryResult feed=dosnode.recoverSign.out:sc cons=dosnode.reportQueryResult.errc:ctx ctl=%s pick=if_err_!=_nil:1 obs=dosnode.reportQueryResult.errc reps=4",
		"sc p=query.sys keep=dosnode.reportQueryResult feed=dosnode.recoverSign.out:sc cons=- ctl=%s pick=if_err_!=_nil:0 obs=dosnode.reportQueryResult.errc reps=4",
		"sc p=query.sys keep=dosnode.reportQueryResult feed=dosnode.recoverSign.out:c cons=dosnode.reportQueryResult.errc:all ctl=%s obs=dosnode.reportQueryResult.errc reps=4",
		"sc p=query.sys keep=dosnode.recoverSign feed=dosnode.dispatchSign.out:ssc cons=dosnode.recoverSign.errc:n1 ctl=%s pick=if_sign_==_nil:0 obs=dosnode.recoverSign.out;dosnode.recoverSign.errc reps=4",
		// the success path (valid shares, the first one completes the threshold) and the drain loop after it
		// (/repo 3a1c0bc): late shares are taken until the input closes or the context ends; the fed channel is
		// observed (closed = the feeder got rid of all its shares)
		"sc p=query.sys keep=dosnode.recoverSign feed=dosnode.dispatchSign.out:sssc cons=dosnode.recoverSign.out:all;dosnode.recoverSign.errc:all ctl=%s " + recoverOK + " obs=dosnode.dispatchSign.out;dosnode.recoverSign.out;dosnode.recoverSign.errc reps=4",
		"sc p=query.sys keep=dosnode.recoverSign feed=dosnode.dispatchSign.out:sss cons=dosnode.recoverSign.errc:all ctl=%s " + recoverOK + " obs=dosnode.dispatchSign.out;dosnode.recoverSign.out;dosnode.recoverSign.errc reps=4",
		"sc p=query.url keep=dosnode.genQueryResult feed=dosnode.choseSubmitter.outs#0:sc cons=- ctl=%s pick=if_err_!=_nil:0 obs=dosnode.genQueryResult.out;dosnode.genQueryResult.errc reps=3",
		// exchangePub: each exit (cast failure, foreign key, complete set, incomplete set then input closed)
		"sc p=grouping keep=dkg.exchangePub feed=dkg.fanOut.ch#1:sc;dkg.askMembers.out#0:sc cons=dkg.exchangePub.errc:ctx;dkg.exchangePub.out:ctx ctl=%s pick=range_(data):0;if_!ok:0 obs=dkg.exchangePub.out;dkg.exchangePub.errc reps=3",
		"sc p=grouping keep=dkg.exchangePub feed=dkg.fanOut.ch#1:sc;dkg.askMembers.out#0:sc cons=- ctl=%s pick=range_(data):0;if_!ok:1;if_pubkey_==_nil:0 obs=dkg.exchangePub.out;dkg.exchangePub.errc reps=3",
		"sc p=grouping keep=dkg.exchangePub feed=dkg.fanOut.ch#1:sc;dkg.askMembers.out#0:sc cons=dkg.exchangePub.out:n1 ctl=%s pick=range_(data):1;if_len(partPubs)_==_len(groupIds):0 obs=dkg.exchangePub.out;dkg.exchangePub.errc reps=3",
		"sc p=grouping keep=dkg.exchangePub feed=dkg.fanOut.ch#1:sc;dkg.askMembers.out#0:sc cons=dkg.exchangePub.out:all ctl=%s pick=range_(data):1;if_len(partPubs)_==_len(groupIds):1 obs=dkg.exchangePub.out;dkg.exchangePub.errc reps=3",
		"sc p=grouping keep=dkg.sendToMembers#0,dkg.sendToMembers.go1#0 feed=dkg.fanOut.ch#0:sc cons=dkg.sendToMembers.errc:all ctl=%s pick=if_err_!=_nil:1 obs=dkg.sendToMembers.errc reps=3",
		"sc p=grouping keep=dkg.genPub feed=- cons=dkg.genPub.errc:ctx;dkg.genPub.out:ctx ctl=%s pick=if_index_==_-1:0 obs=dkg.genPub.out;dkg.genPub.secrc;dkg.genPub.errc reps=3",
	}
	sctl := []string{"go,f0,x,r", "go,x,f0,r", "x,go,f0,r", "f0,go,x,r", "go,f0,r"}
	for _, l := range stageLines {
		n := 2
		if tier == "thorough" {
			n = len(sctl)
		}
		for i := 0; i < n; i++ {
			c := sctl[rng.Intn(len(sctl))]
			if tier == "thorough" {
				c = sctl[i]
			}
			if strings.Contains(l, "feed=dkg.fanOut.ch#1:sc;dkg.askMembers") {
				c = strings.Replace(c, "f0", "f0,f1", 1) // two inputs: both feeders are started
			}
			if !strings.Contains(l, "feed=dosnode") && !strings.Contains(l, "feed=dkg") {
				c = strings.ReplaceAll(strings.ReplaceAll(c, "f0,", ""), ",f0", "")
			}
			emit(fmt.Sprintf(l, c))
		}
	}
	// full pipelines through their real entry points
	emit("full p=grouping n=3 fault=none cancel=never reps=1")
	emit("full p=grouping mode=dup bt=0 peers=2 reps=2")
	emit("full p=grouping mode=dup bt=0 peers=3 reps=1")
	emit("full p=query.sys role=submitter bt=1 peers=1 reps=2")
	emit("full p=query.sys role=member bt=1 peers=0 reps=2")
	emit("full p=query.sys role=submitter bt=0 peers=1 reps=10")
	emit("full p=query.user role=submitter bt=1 peers=2 reps=2")
	emit("full p=query.user role=member bt=0 peers=1 reps=6")
	// stage failures at pipeline level (review G 2/3/5): the peer refuses or is silent (p.Request fails /
	// blocks), the chain call fails, the document server answers, answers late (the context ends while the
	// fetch is in flight), refuses, the selector does not compile
	emit("full p=query.url role=member bt=1 peers=0 url=ok reps=1")
	emit("full p=query.url role=member bt=1 peers=0 url=refuse reps=1")
	emit("full p=query.url role=member bt=1 peers=0 url=badsel reps=1")
	emit("full p=query.url role=member bt=0 peers=0 url=slow reps=2")
	emit("full p=query.url role=submitter bt=0 peers=1 url=slow reps=1")
	emit("full p=query.sys role=member bt=1 peers=0 req=fail reps=2")
	emit("full p=query.sys role=member bt=0 peers=0 req=block reps=1")
	emit("full p=query.user role=member bt=0 peers=0 req=fail reps=1")
	emit("full p=query.user role=submitter bt=1 peers=2 chain=fail reps=1")
	emit("full p=query.sys role=submitter bt=1 peers=1 chain=fail reps=1")
	// a member that refuses connections while the session stays live for 6 s (the senders' retry loops
	// make a dozen attempts)
	emit("full p=grouping n=3 fault=silent:2 cancel=never live=6000 reps=1")
	faults := []string{"none", "silent:2", "silent:0", "dropdeal:1", "dropresp:2", "loseack:0"}
	// every fault once with a cancellation point (directed: not left to the draws below)
	for i, f := range faults[1:] {
		emit(fmt.Sprintf("full p=grouping n=3 fault=%s cancel=ev%d reps=1", f, 6+5*i))
	}
	// invalid deal / invalid response at pipeline level (a member whose deals / responses are damaged in
	// transit), a group of five, a group of four with a damaged response and a cancellation point
	emit("full p=grouping n=3 fault=baddeal:1 cancel=never reps=1")
	emit("full p=grouping n=3 fault=badresp:2 cancel=never reps=1")
	emit("full p=grouping n=5 fault=none cancel=never reps=1")
	emit("full p=grouping n=4 fault=badresp:1 cancel=ev25 reps=1")
	if tier == "thorough" {
		all := append(append([]string{}, faults...), "baddeal:0", "baddeal:2", "badresp:0", "badresp:1")
		for _, f := range all[1:] {
			for ev := 1; ev <= 30; ev += 2 {
				emit(fmt.Sprintf("full p=grouping n=3 fault=%s cancel=ev%d reps=1", f, ev))
			}
		}
		emit("full p=grouping n=5 fault=silent:3 cancel=ev20 reps=1")
		emit("full p=grouping n=5 fault=baddeal:4 cancel=never reps=1")
		emit("full p=grouping n=4 fault=dropresp:1 cancel=ev18 reps=1")
	}
	k := 4
	if tier == "thorough" {
		k = 16
	}
	for i := 0; i < k; i++ {
		emit(fmt.Sprintf("full p=grouping n=3 fault=%s cancel=ev%d reps=1", faults[rng.Intn(len(faults))], 1+rng.Intn(30)))
	}
	if tier == "thorough" {
		for ev := 1; ev <= 24; ev++ {
			emit(fmt.Sprintf("full p=grouping n=3 fault=none cancel=ev%d reps=1", ev))
		}
		for _, f := range faults[1:] {
			emit(fmt.Sprintf("full p=grouping n=3 fault=%s cancel=never reps=1", f))
		}
	}
	dctl := []string{"f2,f0,f1,go,r", "f0,f1,go,f2,r", "f0,go,x,f1,r", "f2,f0,go,f1,x,r", "f0,f1,x,go,f2,r", "go,f0,x,f1,f2,r"}
	m := 4
	if tier == "thorough" {
		m = 16
	}
	for i := 0; i < m; i++ {
		ctl := dctl[rng.Intn(len(dctl))]
		reps := 8
		if strings.Contains(ctl, "x") {
			reps = 40
		}
		emit(dispatchLineShare([]string{"sc", "c", "s"}[rng.Intn(3)], []string{"sc", "c", "s"}[rng.Intn(3)], []string{"-", "s", "ss"}[rng.Intn(3)],
			[]string{"ctx", "all", "n1"}[rng.Intn(3)], ctl, rng.Intn(2), []int{1, 1, 0}[rng.Intn(3)], false, reps))
	}
}

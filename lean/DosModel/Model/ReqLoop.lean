/-
Model of `onchain/eth_set.go` `handleReq` (the serialised request loop that walks the
RPC endpoints) and of the argument marshalling of the state-changing calls
(`share/vss/pedersen/vss.go` `Signature.ToBigInt`, `share/dkg/pedersen/pdkg.go`
`decodePubKey`, `eth_set.go` `DataReturn` / `RegisterGroupPubKey`).

`handleReq` is

    for idx, ctx = range e.ctxes {
      select {
      case <-req.opCtx.Done(): return                 -- no reply at all
      case <-ctx.Done():       continue
      default:
        tx, err = req.f(ctx)
        if err != nil {
          if contains "transaction failed" || contains "insufficient funds …" { break L }
          if contains "failed to retrieve account nonce" || contains "use of closed network connection" {
            if errors.As(err, &oError) { e.cancels[oError.Idx]() } }
          continue }
        break L } }
    if tx == nil && err == nil { err = "no live endpoint" }      -- the F8 repair (fix: commit)
    reply {idx, tx, err}

The behaviour of one endpoint during one request is its `Outcome`.
-/
import DosModel.Model.Util

namespace Dos.ReqLoop
open Dos

/-- what happens when the loop reaches one endpoint -/
inductive Outcome where
  | accept        -- `f` returned a transaction, no error
  | closedConn    -- error text contains "use of closed network connection"
  | nonceErr      -- error text contains "failed to retrieve account nonce" (the first RPC of a send: also what a dead connection yields)
  | revert        -- error text contains "transaction failed"
  | insufficient  -- error text contains "insufficient funds for gas * price + value"
  | otherErr      -- any other error
  | ctxDone       -- the endpoint's context is already cancelled: skipped, `f` not called
  | opDone        -- the caller's operation context is found done at this endpoint: `handleReq` returns without replying
  deriving DecidableEq, Repr, Inhabited

inductive ErrKind where
  | closedConn | nonceErr | revert | insufficient | otherErr
  | noEndpoint    -- repaired code only: nothing was attempted
  deriving DecidableEq, Repr

/-- the error `f` returns for an outcome (`none` for the outcomes in which `f` is not called or succeeds) -/
def Outcome.err : Outcome → Option ErrKind
  | .closedConn => some .closedConn
  | .nonceErr => some .nonceErr
  | .revert => some .revert
  | .insufficient => some .insufficient
  | .otherErr => some .otherErr
  | _ => none

structure Reply where
  idx : Nat                -- `response.idx`
  accepted : Bool          -- `response.tx != nil`
  err : Option ErrKind     -- `response.err`
  deriving DecidableEq, Repr

structure Result where
  contacted : List Nat     -- endpoints on which `f` was invoked, in order
  cancelled : List Nat     -- endpoints whose cancel function was invoked by the loop
  reply : Option Reply     -- `none`: returned without replying (operation context done)
  deriving DecidableEq, Repr

/-- loop state between iterations: `idx`, `err` are the Go variables of the same name -/
structure St where
  contacted : List Nat := []
  cancelled : List Nat := []
  idx : Nat := 0
  err : Option ErrKind := none
  deriving Repr

/-- what the code after the loop does. `fixed = false` is the code before the F8 repair. -/
def finish (fixed : Bool) (s : St) (accepted : Bool) : Result :=
  let err := if fixed && !accepted && s.err.isNone then some ErrKind.noEndpoint else s.err
  { contacted := s.contacted, cancelled := s.cancelled,
    reply := some { idx := s.idx, accepted := accepted, err := err } }

/-- the loop, endpoint `i` first -/
def loop (fixed : Bool) : Nat → List Outcome → St → Result
  | _, [], s => finish fixed s false
  | i, o :: os, s =>
    match o with
    | .opDone => { contacted := s.contacted, cancelled := s.cancelled, reply := none }
    | .ctxDone => loop fixed (i + 1) os { s with idx := i }
    | .accept => finish fixed { s with contacted := s.contacted ++ [i], idx := i, err := none } true
    | .revert => finish fixed { s with contacted := s.contacted ++ [i], idx := i, err := some .revert } false
    | .insufficient => finish fixed { s with contacted := s.contacted ++ [i], idx := i, err := some .insufficient } false
    | .closedConn => loop fixed (i + 1) os
        { contacted := s.contacted ++ [i], cancelled := s.cancelled ++ [i], idx := i, err := some .closedConn }
    | .nonceErr => loop fixed (i + 1) os
        { contacted := s.contacted ++ [i], cancelled := s.cancelled ++ [i], idx := i, err := some .nonceErr }
    | .otherErr => loop fixed (i + 1) os
        { s with contacted := s.contacted ++ [i], idx := i, err := some .otherErr }

/-- `handleReq` on endpoints with the given outcomes -/
def handleReq (fixed : Bool) (os : List Outcome) : Result := loop fixed 0 os {}

/-- the code as it is in /repo now (F8 repaired) -/
def run (os : List Outcome) : Result := handleReq true os

/-! ### what the endpoint did vs what `f` reports (round 5, review E #2)

`Outcome` is what `req.f` RETURNS at an endpoint.  Whether the endpoint TOOK the transaction (processed
`eth_sendRawTransaction` and accepted it) is a different fact: they differ exactly when the connection fails after the
send was processed and before the reply arrived — `f` reports a transport error (class `otherErr`: the loop goes on to
the next endpoint, which signs and sends the call AGAIN with ITS pending nonce), the endpoint has the transaction. -/

/-- one endpoint during one request: what `f` reports, and whether the endpoint took the transaction -/
structure EpRun where
  outcome : Outcome
  took : Bool
  deriving DecidableEq, Repr

/-- the endpoint accepted the transaction, the reply was lost: `f` returns a transport error -/
def acceptedReplyLost : EpRun := ⟨.otherErr, true⟩

/-- which (report, fact) pairs can occur: an accept was taken; an endpoint that refused (revert, insufficient funds),
was never reached (nonce lookup failed, connection closed before the write, context done) took nothing; after any
other error the transaction may or may not have been taken -/
def EpRun.possible (e : EpRun) : Bool :=
  match e.outcome with
  | .accept => e.took
  | .otherErr => true
  | _ => !e.took

/-- the endpoints that took a transaction of this ONE request, in order -/
def takenBy (fixed : Bool) (eps : List EpRun) : List Nat :=
  (handleReq fixed (eps.map (·.outcome))).contacted.filter (fun i => match eps[i]? with | some e => e.took | none => false)

/-! ### the adaptor around it: `isConnecting(true)` pre-check, persistent endpoint contexts -/

inductive CallErr where
  | notConnecting            -- every endpoint context is done: refused before the queue
  | opCtx                    -- no reply: the caller sees its own context error
  | req (k : ErrKind)
  deriving DecidableEq, Repr

structure CallResult where
  contacted : List Nat
  err : Option CallErr
  deriving DecidableEq, Repr

/-- overlay the endpoints already cancelled by earlier requests -/
def overlay (dead : List Nat) (os : List Outcome) : List Outcome :=
  (List.range os.length).zipWith (fun i o => if dead.contains i then Outcome.ctxDone else o) os

/-- one `UpdateRandomness`/`DataReturn`/… call: returns the result and the new set of cancelled endpoints -/
def call (fixed : Bool) (dead : List Nat) (os : List Outcome) : CallResult × List Nat :=
  if (List.range os.length).all (fun i => dead.contains i) then
    ({ contacted := [], err := some .notConnecting }, dead)
  else
    let r := handleReq fixed (overlay dead os)
    let err := match r.reply with
      | none => some CallErr.opCtx
      | some rep => rep.err.map CallErr.req
    ({ contacted := r.contacted, err := err }, dead ++ r.cancelled)

def callSeq (fixed : Bool) : List Nat → List (List Outcome) → List CallResult
  | _, [] => []
  | dead, os :: rest =>
    let (r, dead') := call fixed dead os
    r :: callSeq fixed dead' rest

/-! ### configuration: gas settings, chain id, and what a reconnect does with them

The adaptor keeps the gas settings twice: in its own fields (`e.gasLimit`, `e.gasPrice`, set by
`NewEthAdaptor` and by `SetGasLimit` / `SetGasPrice`) and in the `TransactOpts` of every live session (set by
`Connect` FROM the fields — `auth.GasLimit = e.gasLimit; if e.gasPrice != 0 { auth.GasPrice = e.gasPrice }` —
and by the two setters).  Transactions are signed with the session copy; `Connect` (after `DisconnectAll`,
or at start) rebuilds every session from the fields, the chain id and the key.  Gas price 0 = no fixed price:
the endpoint's suggestion is used for every transaction. -/

structure Config where
  gasLimit : Nat
  gasPrice : Nat     -- 0: endpoint-suggested
  chainId : Nat
  deriving DecidableEq, Repr

structure Adaptor where
  field : Config          -- e.gasLimit, e.gasPrice, e.chainID
  session : Config        -- TransactOpts of the live sessions (and the signer's chain id)
  dead : List Nat         -- endpoints cancelled since the last Connect
  deriving DecidableEq, Repr

/-- `Uint64()` of the setter arguments -/
def u64 (v : Nat) : Nat := v % 2 ^ 64

/-- `NewEthAdaptor` + `Connect` -/
def Adaptor.start (c : Config) : Adaptor := { field := c, session := c, dead := [] }

/-- `SetGasPrice(v)`: `e.gasPrice = v.Uint64()`; every session: `GasPrice = nil` if `v = 0`, else `v` -/
def Adaptor.setGasPrice (a : Adaptor) (v : Nat) : Adaptor :=
  { a with field := { a.field with gasPrice := u64 v }, session := { a.session with gasPrice := v } }

/-- `SetGasLimit(v)`: `e.gasLimit = v.Uint64()`; every session: `GasLimit = v.Uint64()` -/
def Adaptor.setGasLimit (a : Adaptor) (v : Nat) : Adaptor :=
  { a with field := { a.field with gasLimit := u64 v }, session := { a.session with gasLimit := u64 v } }

/-- `DisconnectAll` + `Connect`: fresh endpoint contexts, every session rebuilt from the fields -/
def Adaptor.reconnect (a : Adaptor) : Adaptor := { a with session := a.field, dead := [] }

inductive Op where
  | setGasPrice (v : Nat)
  | setGasLimit (v : Nat)
  | reconnect
  | send (os : List Outcome)      -- one state-changing call; the endpoints behave as `os`
  deriving Repr

/-- what one sent transaction carries -/
structure TxCfg where
  endpoint : Nat
  gas : Nat
  price : Nat          -- 0: the endpoint's suggestion was used
  chainId : Nat
  deriving DecidableEq, Repr

/-- run a history; for every `send`: the call's result and the settings of the transaction signed for every
contacted endpoint -/
def Adaptor.exec (fixed : Bool) : Adaptor → List Op → List (CallResult × List TxCfg)
  | _, [] => []
  | a, .setGasPrice v :: ops => (a.setGasPrice v).exec fixed ops
  | a, .setGasLimit v :: ops => (a.setGasLimit v).exec fixed ops
  | a, .reconnect :: ops => a.reconnect.exec fixed ops
  | a, .send os :: ops =>
    let (r, dead') := call fixed a.dead os
    let txs := r.contacted.map (fun i =>
      { endpoint := i, gas := a.session.gasLimit, price := a.session.gasPrice, chainId := a.session.chainId : TxCfg })
    (r, txs) :: ({ a with dead := dead' } : Adaptor).exec fixed ops

/-- the adaptor after a history -/
def Adaptor.after (fixed : Bool) : Adaptor → List Op → Adaptor
  | a, [] => a
  | a, .setGasPrice v :: ops => (a.setGasPrice v).after fixed ops
  | a, .setGasLimit v :: ops => (a.setGasLimit v).after fixed ops
  | a, .reconnect :: ops => a.reconnect.after fixed ops
  | a, .send os :: ops => ({ a with dead := (call fixed a.dead os).2 } : Adaptor).after fixed ops

/-- the configuration the operator has set: the initial one with the setters applied in order (reconnects and
calls do not change it) -/
def intended : Config → List Op → Config
  | c, [] => c
  | c, .setGasPrice v :: ops => intended { c with gasPrice := v } ops
  | c, .setGasLimit v :: ops => intended { c with gasLimit := u64 v } ops
  | c, _ :: ops => intended c ops

/-! ### argument marshalling -/

/-- `Signature.ToBigInt`: `if len(sig) < 32 { return 0, 0 }; x.SetBytes(sig[0:32]); y.SetBytes(sig[32:])`
(the guard is the repair of /repo commit 6bcc55e; before it a short signature was a slice-bounds panic). -/
def toBigInt (sig : Bytes) : Nat × Nat :=
  if sig.length < 32 then (0, 0) else (beNat (sig.take 32), beNat (sig.drop 32))

/-- `decodePubKey` on the marshalled G2 point `0x01 ‖ x.i ‖ x.r ‖ y.i ‖ y.r` (129 bytes):
`pubKeyMar[32*i+1 : 32*i+33]` for `i = 0..3`. `none` = the error the code returns for anything shorter than
129 bytes (the 1-byte encoding of the point at infinity) since /repo ae5b22f — before it, a slice bounds panic. -/
def decodePubKey (mar : Bytes) : Option (List Nat) :=
  if mar.length < 129 then none
  else some ((List.range 4).map (fun i => beNat ((mar.drop (32 * i + 1)).take 32)))

/-- the marshalled form of an affine G2 point with coordinates `x = xi·i + xr`, `y = yi·i + yr` -/
def marshalG2 (xi xr yi yr : Nat) : Bytes :=
  [1] ++ natBE 32 xi ++ natBE 32 xr ++ natBE 32 yi ++ natBE 32 yr

/-- `DataReturn`: `requestId = SetBytes(sign.RequestId)`, `trafficType = uint8(sign.Index)` -/
def requestId (rid : Bytes) : Nat := beNat rid
def trafficType (index : Nat) : Nat := index % 256

/-- the 32-byte ABI word of a `uint256` argument (go-ethereum packs `v mod 2^256`) -/
def abiWord (v : Nat) : Bytes := natBE 32 v

/-! ### commit-reveal glue (`dosnode/dos_chain_handler.go` `handleCR`)

`handleCR` draws a secret, commits `keccak256(math.U256Bytes(sec))` and later reveals `sec`; the contract
checks the revealed `uint256` against the commitment by hashing its 32-byte ABI word. -/

/-- `math.U256Bytes(v)`: the 32-byte big-endian word of `v mod 2^256` -/
def u256Bytes (v : Nat) : Bytes := natBE 32 v

/-- the commitment `handleCR` hands to `Commit` for secret `sec` (`hash` = legacy Keccak-256) -/
def crCommitment (hash : Bytes → Bytes) (sec : Nat) : Bytes := hash (u256Bytes sec)

/-! ### driver -/

def parseOutcome : String → Option Outcome
  | "acc" => some .accept | "closed" => some .closedConn | "nonce" => some .nonceErr
  | "revert" => some .revert | "funds" => some .insufficient | "other" => some .otherErr
  | "done" => some .ctxDone | "op" => some .opDone
  | _ => none

def parseOutcomes (s : String) : Option (List Outcome) :=
  if s == "-" then some [] else (s.splitOn ",").mapM parseOutcome

def errName : ErrKind → String
  | .closedConn => "closed" | .nonceErr => "nonce" | .revert => "revert"
  | .insufficient => "funds" | .otherErr => "other" | .noEndpoint => "noendpoint"

def natsCsv (l : List Nat) : String :=
  if l.isEmpty then "-" else String.intercalate "," (l.map toString)

def showResult (r : Result) : String :=
  let rep := match r.reply with
    | none => "none"
    | some p => s!"{p.idx}:{if p.accepted then "tx" else "notx"}:{match p.err with | none => "nil" | some e => errName e}"
  s!"called={natsCsv r.contacted} cancelled={natsCsv r.cancelled} reply={rep}"

def callErrName : Option CallErr → String
  | none => "nil"
  | some .notConnecting => "notconn"
  | some .opCtx => "opctx"
  | some (.req k) => errName k

end Dos.ReqLoop

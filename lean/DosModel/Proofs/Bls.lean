/-
Helper lemmas for C06: `PairingCheck` computes the product of the pairings (skipping identity
pairs is harmless because e(O, ·) = e(·, O) = 1), for ANY operations that implement a bilinear map.

The operations act on representation types `P1 P2 PT` (Jacobian/affine points, Miller-loop values)
that need not be groups themselves and may contain junk values; `IsPairing` therefore speaks about
*valid* representations (`V1 V2 VT`) and their denotations `ι1 : P1 → A1`, `ι2 : P2 → A2` in additive
commutative groups, `fe : PT → T` in a commutative group.  The fully abstract reading is
`V = fun _ => True`, `ι = id`.
-/
import Mathlib.Algebra.Group.Basic
import Mathlib.Algebra.Group.TypeTags.Basic
import Mathlib.Algebra.Group.Int.Defs
import DosModel.Model.Bls

namespace Dos.Bls
open Dos Dos.Codec

variable {P1 P2 PT A1 A2 T : Type}

/-- The operations `PairingCheck` calls implement, on valid representations, a bilinear map
`e : A1 × A2 → T`.  `fe` = "final exponentiation" read as a map from Miller-loop values to the
target group; `miller` is only constrained on valid non-identity arguments (the code never calls it
on an identity). -/
structure IsPairing [AddCommGroup A1] [AddCommGroup A2] [CommGroup T]
    (o : PairingOps P1 P2 PT) (V1 : P1 → Prop) (V2 : P2 → Prop) (VT : PT → Prop)
    (ι1 : P1 → A1) (ι2 : P2 → A2) (e : A1 → A2 → T) (fe : PT → T) : Prop where
  inf1 : ∀ a, V1 a → (o.isInf1 a = true ↔ ι1 a = 0)
  inf2 : ∀ b, V2 b → (o.isInf2 b = true ↔ ι2 b = 0)
  one_valid : VT o.one
  fe_one : fe o.one = 1
  mul_valid : ∀ x y, VT x → VT y → VT (o.mul x y)
  fe_mul : ∀ x y, VT x → VT y → fe (o.mul x y) = fe x * fe y
  miller_valid : ∀ a b, V1 a → V2 b → VT (o.miller b a)
  fe_miller : ∀ a b, V1 a → V2 b → ι1 a ≠ 0 → ι2 b ≠ 0 → fe (o.miller b a) = e (ι1 a) (ι2 b)
  final : ∀ x, VT x → (o.finalIsOne x = true ↔ fe x = 1)
  add_left : ∀ a a' b, e (a + a') b = e a b * e a' b
  add_right : ∀ a b b', e a (b + b') = e a b * e a b'

section
variable [AddCommGroup A1] [AddCommGroup A2] [CommGroup T]
variable {o : PairingOps P1 P2 PT} {V1 : P1 → Prop} {V2 : P2 → Prop} {VT : PT → Prop}
variable {ι1 : P1 → A1} {ι2 : P2 → A2} {e : A1 → A2 → T} {fe : PT → T}

theorem IsPairing.zero_left (h : IsPairing o V1 V2 VT ι1 ι2 e fe) (b : A2) : e 0 b = 1 := by
  have := h.add_left 0 0 b
  rw [add_zero] at this
  exact (mul_eq_left.mp this.symm)

theorem IsPairing.zero_right (h : IsPairing o V1 V2 VT ι1 ι2 e fe) (a : A1) : e a 0 = 1 := by
  have := h.add_right a 0 0
  rw [add_zero] at this
  exact (mul_eq_left.mp this.symm)

theorem IsPairing.neg_left (h : IsPairing o V1 V2 VT ι1 ι2 e fe) (a : A1) (b : A2) :
    e (-a) b = (e a b)⁻¹ := by
  have := h.add_left a (-a) b
  rw [add_neg_cancel, h.zero_left] at this
  exact (eq_inv_of_mul_eq_one_right this.symm)

theorem IsPairing.nsmul_left (h : IsPairing o V1 V2 VT ι1 ι2 e fe) (n : Nat) (a : A1) (b : A2) :
    e (n • a) b = e a b ^ n := by
  induction n with
  | zero => simp [h.zero_left]
  | succ n ih => rw [succ_nsmul, h.add_left, ih, pow_succ]

theorem IsPairing.nsmul_right (h : IsPairing o V1 V2 VT ι1 ι2 e fe) (n : Nat) (a : A1) (b : A2) :
    e a (n • b) = e a b ^ n := by
  induction n with
  | zero => simp [h.zero_right]
  | succ n ih => rw [succ_nsmul, h.add_right, ih, pow_succ]

/-- the product ∏ e(aᵢ, bᵢ) over the pairs `PairingCheck` is given -/
def pairProd (e : A1 → A2 → T) (ι1 : P1 → A1) (ι2 : P2 → A2) : List P1 → List P2 → T
  | a :: as, b :: bs => e (ι1 a) (ι2 b) * pairProd e ι1 ι2 as bs
  | _, _ => 1

theorem pairingAcc_spec (h : IsPairing o V1 V2 VT ι1 ι2 e fe) :
    ∀ (as : List P1) (bs : List P2) (acc : PT), as.length ≤ bs.length →
      (∀ a ∈ as, V1 a) → (∀ b ∈ bs, V2 b) → VT acc →
      ∃ acc', pairingAcc o as bs acc = some acc' ∧ VT acc' ∧
        fe acc' = fe acc * pairProd e ι1 ι2 as bs := by
  intro as
  induction as with
  | nil => intro bs acc _ _ _ hacc; exact ⟨acc, rfl, hacc, by simp [pairProd]⟩
  | cons a as ih =>
    intro bs acc hl hA hB hacc
    cases bs with
    | nil => simp at hl
    | cons b bs =>
      have hl' : as.length ≤ bs.length := by simpa using hl
      have ha : V1 a := hA a (by simp)
      have hb : V2 b := hB b (by simp)
      have hA' : ∀ x ∈ as, V1 x := fun x hx => hA x (by simp [hx])
      have hB' : ∀ x ∈ bs, V2 x := fun x hx => hB x (by simp [hx])
      by_cases hi : (o.isInf1 a || o.isInf2 b) = true
      · obtain ⟨acc', h1, hv, h2⟩ := ih bs acc hl' hA' hB' hacc
        refine ⟨acc', by simp only [pairingAcc, hi, if_true]; exact h1, hv, ?_⟩
        have he : e (ι1 a) (ι2 b) = 1 := by
          rcases Bool.or_eq_true _ _ |>.mp hi with h1 | h1
          · rw [(h.inf1 a ha).mp h1]; exact h.zero_left _
          · rw [(h.inf2 b hb).mp h1]; exact h.zero_right _
        rw [h2, pairProd, he, one_mul]
      · have hmv : VT (o.mul acc (o.miller b a)) := h.mul_valid _ _ hacc (h.miller_valid a b ha hb)
        obtain ⟨acc', h1, hv, h2⟩ := ih bs (o.mul acc (o.miller b a)) hl' hA' hB' hmv
        refine ⟨acc', by simp only [pairingAcc, hi]; exact h1, hv, ?_⟩
        have hi' : o.isInf1 a = false ∧ o.isInf2 b = false := by
          simpa [Bool.or_eq_false_iff] using hi
        have ha0 : ι1 a ≠ 0 := fun h0 => by
          have := (h.inf1 a ha).mpr h0; rw [hi'.1] at this; cases this
        have hb0 : ι2 b ≠ 0 := fun h0 => by
          have := (h.inf2 b hb).mpr h0; rw [hi'.2] at this; cases this
        rw [h2, h.fe_mul _ _ hacc (h.miller_valid a b ha hb), h.fe_miller a b ha hb ha0 hb0, pairProd,
          mul_assoc]

omit [AddCommGroup A1] [AddCommGroup A2] [CommGroup T] in
theorem pairingAcc_short (o : PairingOps P1 P2 PT) :
    ∀ (as : List P1) (bs : List P2) (acc : PT), bs.length < as.length → pairingAcc o as bs acc = none := by
  intro as
  induction as with
  | nil => intro bs acc hl; simp at hl
  | cons a as ih =>
    intro bs acc hl
    cases bs with
    | nil => rfl
    | cons b bs =>
      have hl' : bs.length < as.length := by simpa using hl
      simp only [pairingAcc]
      split <;> exact ih _ _ hl'

theorem pairingCheck_spec (h : IsPairing o V1 V2 VT ι1 ι2 e fe) (as : List P1) (bs : List P2)
    (hl : as.length ≤ bs.length) (hA : ∀ a ∈ as, V1 a) (hB : ∀ b ∈ bs, V2 b) :
    ∃ b, pairingCheck o as bs = .ok b ∧ (b = true ↔ pairProd e ι1 ι2 as bs = 1) := by
  obtain ⟨acc', h1, hv, h2⟩ := pairingAcc_spec h as bs o.one hl hA hB h.one_valid
  refine ⟨o.finalIsOne acc', by simp [pairingCheck, h1], ?_⟩
  rw [h.final _ hv, h2, h.fe_one, one_mul]

end

/-! ### a small instance (P1 = P2 = ℤ, e(a,b) = a·b in (ℤ,+)) used for executable examples of
`pairingCheck` / `verify`; its toy `marshal1`/`unmarshal1` round-trip only on 0..255 -/

def intOps : BlsOps Int Int Int where
  isInf1 := fun a => a == 0
  isInf2 := fun b => b == 0
  miller := fun b a => a * b
  one := 0
  mul := fun x y => x + y
  finalIsOne := fun x => x == 0
  hashScalar := fun m => m.length + 1
  baseMul1 := fun k => (k : Int)
  mul1 := fun k a => (k : Int) * a
  neg1 := fun a => -a
  base2 := 1
  unmarshal1 := fun b => match b with
    | [] => .err .short
    | x :: _ => .ok (x.toNat : Int)
  marshal1 := fun a => [UInt8.ofNat a.toNat]

theorem intOps_isPairing :
    IsPairing (T := Multiplicative Int) intOps.toPairingOps (fun _ => True) (fun _ => True) (fun _ => True)
      id id (fun a b => Multiplicative.ofAdd (a * b)) (fun x => Multiplicative.ofAdd x) where
  inf1 := by intro a _; simp [intOps]
  inf2 := by intro b _; simp [intOps]
  one_valid := trivial
  fe_one := rfl
  mul_valid := by intros; trivial
  fe_mul := by intro x y _ _; rfl
  miller_valid := by intros; trivial
  fe_miller := by intro a b _ _ _ _; rfl
  final := by
    intro x _
    simp only [intOps, beq_iff_eq]
    exact ⟨fun h => by rw [h]; rfl, fun h => by simpa using congrArg Multiplicative.toAdd h⟩
  add_left := by intro a a' b; show Multiplicative.ofAdd _ = Multiplicative.ofAdd (_ + _); rw [Int.add_mul]; rfl
  add_right := by intro a b b'; show Multiplicative.ofAdd _ = Multiplicative.ofAdd (_ + _); rw [Int.mul_add]; rfl

end Dos.Bls

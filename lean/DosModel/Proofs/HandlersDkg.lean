/-
C12 — helper lemmas, part 2: key generation (exchangePub, genDistKeyGenerator with the
pigeonhole argument, ProcessDeal / ProcessResponse, the session layer of pdkg.Loop).
-/
import DosModel.Proofs.Handlers

namespace Dos.Handlers

/-! exchangePub -/
theorem xpubBatch_err (n : Nat) (b : List Elem) : ∀ k o, xpubBatch Cfg.all n b k = .error o → o.isPanic = false ∧ ∀ i, o ≠ .ok i := by
  induction b with
  | nil => intro k o h; simp [xpubBatch] at h
  | cons e r ih =>
    intro k o h
    cases e with
    | other => simp [xpubBatch] at h; cases h; exact ⟨rfl, fun i hh => by cases hh⟩
    | good idx sender hasKey =>
      simp only [xpubBatch, all_xpubIdx, Bool.true_and] at h
      split at h
      · cases h; exact ⟨rfl, fun i hh => by cases hh⟩
      · next hg =>
        simp only [Bool.or_eq_true, Bool.not_eq_true', decide_eq_true_eq, not_or] at hg
        have h1 : hasKey = true := by cases hasKey <;> simp_all
        have h2 : ¬ idx ≥ n := hg.2
        simp only [h1, Bool.not_true, Bool.false_eq_true, if_false, h2] at h
        split at h
        · cases h; exact ⟨rfl, fun i hh => by cases hh⟩
        · exact ih _ _ h

theorem xpubBatch_total (n : Nat) (b : List Elem) (k : Nat) (o : Out) (h : xpubBatch Cfg.all n b k = .error o) : o.isPanic = false :=
  (xpubBatch_err n b k o h).1

theorem xpubLoop_total (n : Nat) (bs : List (List Elem)) : ∀ k, (xpubLoop Cfg.all n bs k).isPanic = false := by
  induction bs with
  | nil => intro k; rfl
  | cons b r ih =>
    intro k
    simp only [xpubLoop]
    cases h : xpubBatch Cfg.all n b k with
    | error o => exact xpubBatch_total n b k o h
    | ok k' =>
      simp only
      split
      · rfl
      · exact ih k'

theorem exchangePub_total (n : Nat) (self : Elem) (bs : List (List Elem)) : (exchangePub Cfg.all n self bs).isPanic = false := by
  cases self with
  | other => simp [exchangePub]
  | good i sd hk => exact xpubLoop_total n bs 1

/-- what exchangePub hands on has exactly `n` keys -/
theorem xpubLoop_count (n : Nat) (bs : List (List Elem)) : ∀ k i, xpubLoop Cfg.all n bs k = .ok i → i = toString n := by
  induction bs with
  | nil => intro k i h; simp [xpubLoop] at h
  | cons b r ih =>
    intro k i h
    simp only [xpubLoop] at h
    cases hb : xpubBatch Cfg.all n b k with
    | error o =>
      rw [hb] at h; simp only at h
      exact absurd h ((xpubBatch_err n b k o hb).2 i)
    | ok k' =>
      rw [hb] at h; simp only at h
      split at h
      · next e => cases h; rw [e]
      · exact ih k' i h

def filled (sl : Slots) : Nat := sl.countP Option.isSome

theorem setSlot_length (sl : Slots) : ∀ i k, (setSlot sl i k).length = sl.length := by
  induction sl with
  | nil => intro i k; rfl
  | cons x r ih => intro i k; cases i <;> simp [setSlot, ih]

theorem getSlot_lt (sl : Slots) : ∀ i, i < sl.length → getSlot sl i ≠ none := by
  induction sl with
  | nil => intro i h; simp at h
  | cons x r ih => intro i h; cases i with
    | zero => simp [getSlot]
    | succ j => simp [getSlot]; exact ih j (by simpa using h)

theorem filled_setSlot (sl : Slots) : ∀ i k, getSlot sl i = some none → filled (setSlot sl i k) = filled sl + 1 := by
  induction sl with
  | nil => intro i k h; simp [getSlot] at h
  | cons x r ih =>
    intro i k h
    cases i with
    | zero =>
      simp [getSlot] at h; subst h
      simp [setSlot, filled]
    | succ j =>
      simp [getSlot] at h
      have := ih j k h
      simp [setSlot, filled, List.countP_cons] at this ⊢
      omega

/-- the loop never panics with the guard on, and every accepted key fills one empty slot -/
theorem gdkgLoop_spec (pubs : List PubMsg) : ∀ sl,
    (∀ o, gdkgLoop Cfg.all pubs sl = .error o → o.isPanic = false) ∧
    (∀ sl', gdkgLoop Cfg.all pubs sl = .ok sl' → sl'.length = sl.length ∧ filled sl' = filled sl + pubs.length) := by
  induction pubs with
  | nil => intro sl; simp [gdkgLoop]
  | cons p ps ih =>
    intro sl
    unfold gdkgLoop
    by_cases hg : (p.key.isNone || decide (p.idx ≥ sl.length)) = true
    · simp [hg]
    · simp only [all_gdkgGuard, Bool.true_and, hg]
      have hidx : p.idx < sl.length := by
        simp at hg; omega
      cases hs : getSlot sl p.idx with
      | none => exact absurd hs (getSlot_lt sl p.idx hidx)
      | some x =>
        cases x with
        | some k => simp
        | none =>
          cases hk : p.key with
          | none => simp [hk] at hg
          | some k =>
            cases k with
            | garbage => simp
            | own =>
              simp only
              by_cases hc : sl.contains (some KeyTag.own) = true
              · simp only [hc, if_true]
                exact ⟨fun o h => by cases h; rfl, fun sl' h => by cases h⟩
              simp only [hc, Bool.false_eq_true, if_false]
              have := ih (setSlot sl p.idx .own)
              refine ⟨this.1, fun sl' h => ?_⟩
              have h2 := this.2 sl' h
              rw [setSlot_length, filled_setSlot sl p.idx _ hs] at h2
              simp; omega
            | peer j =>
              simp only
              by_cases hc : sl.contains (some (.peer j)) = true
              · simp only [hc, if_true]
                exact ⟨fun o h => by cases h; rfl, fun sl' h => by cases h⟩
              simp only [hc, Bool.false_eq_true, if_false]
              have := ih (setSlot sl p.idx (.peer j))
              refine ⟨this.1, fun sl' h => ?_⟩
              have h2 := this.2 sl' h
              rw [setSlot_length, filled_setSlot sl p.idx _ hs] at h2
              simp; omega
            | identity =>
              simp only
              by_cases hc : sl.contains (some KeyTag.identity) = true
              · simp only [hc, if_true]
                exact ⟨fun o h => by cases h; rfl, fun sl' h => by cases h⟩
              simp only [hc, Bool.false_eq_true, if_false]
              have := ih (setSlot sl p.idx .identity)
              refine ⟨this.1, fun sl' h => ?_⟩
              have h2 := this.2 sl' h
              rw [setSlot_length, filled_setSlot sl p.idx _ hs] at h2
              simp; omega

theorem findOwn_full (sl : Slots) (h : ∀ x ∈ sl, x.isSome = true) : ∀ o, findOwn sl ≠ .error o := by
  induction sl with
  | nil => intro o; simp [findOwn]
  | cons x r ih =>
    intro o
    cases x with
    | none => have := h none (by simp); simp at this
    | some k =>
      have ih' := ih (fun y hy => h y (by simp [hy])) o
      cases k <;> simp [findOwn] <;> exact ih'

theorem newDkg_full (sl : Slots) (h : ∀ x ∈ sl, x.isSome = true) : (newDkg sl).isPanic = false := by
  unfold newDkg
  cases hf : findOwn sl with
  | error o => exact absurd hf (findOwn_full sl h o)
  | ok b =>
    cases b with
    | false => rfl
    | true =>
      simp only
      split
      · rfl
      · have : sl.any Option.isNone = false := by
          rw [List.any_eq_false]; intro x hx; have hh := h x hx; cases x <;> simp at hh ⊢
        simp [this]

/-- **genDistKeyGenerator never panics on the `n` keys exchangePub hands over**, whatever their
indices and key fields: an index ≥ n or a missing key is an error, and `n` accepted keys with distinct
indices below `n` leave no participant slot empty (pigeonhole), so `NewDistKeyGenerator` /
`vss.NewDealer` never call a method of a nil point. -/
theorem genDkg_total (n : Nat) (pubs : List PubMsg) (hlen : pubs.length = n) : (genDkg Cfg.all n pubs).isPanic = false := by
  unfold genDkg
  have sp := gdkgLoop_spec pubs (List.replicate n none)
  cases h : gdkgLoop Cfg.all pubs (List.replicate n none) with
  | error o => exact sp.1 o h
  | ok sl =>
    have ⟨hl, hf⟩ := sp.2 sl h
    have h0 : filled (List.replicate n (none : Option KeyTag)) = 0 := by
      simp [filled, List.countP_replicate]
    simp only
    apply newDkg_full
    have : filled sl = sl.length := by rw [hf, h0, hl, hlen]; simp
    exact (List.countP_eq_length.mp this)

theorem decryptDeal_total (e : Option Enc) (o : Out) (h : decryptDeal Cfg.all e = .error o) : o.isPanic = false := by
  unfold decryptDeal at h
  split at h
  · simp at h; cases h; rfl
  · split at h
    · cases h; rfl
    · split at h
      · cases h; rfl
      · split at h
        · simp at h; cases h; rfl
        · cases h

theorem verifyDeal_total (n : Nat) (p : Plain) (i : Nat) (v : Bool) (o : Out) (h : verifyDeal Cfg.all n p i v = .error o) : o.isPanic = false := by
  unfold verifyDeal at h
  cases v <;> simp at h
  all_goals (repeat (split at h <;> try cases h))

theorem processEncryptedDeal_total (n me : Nat) (e : Option Enc) (o : Out) (h : processEncryptedDeal Cfg.all n me e = .error o) : o.isPanic = false := by
  unfold processEncryptedDeal at h
  split at h
  · next o' hd => cases h; exact decryptDeal_total e _ hd
  · cases h; rfl
  · cases h; rfl
  · split at h
    · simp at h; cases h; rfl
    · split at h
      · cases h; rfl
      · split at h
        · cases h; rfl
        · exact verifyDeal_total _ _ _ _ _ h

/-- when `ProcessEncryptedDeal` answers (approval or complaint), the aggregator it created stores a
deal whose share has a value -/
theorem processEncryptedDeal_stores (n me : Nat) (e : Option Enc) (b : Bool)
    (h : processEncryptedDeal Cfg.all n me e = .ok b) : storedDeal Cfg.all e = some true := by
  unfold processEncryptedDeal at h
  split at h
  · cases h
  · cases h
  · cases h
  · next p hd =>
    unfold decryptDeal at hd
    cases e with
    | none => simp at hd
    | some enc =>
      simp only at hd
      split at hd; · cases hd
      split at hd; · cases hd
      split at hd
      · split at hd <;> cases hd
      · injection hd with hd'
        split at h
        · simp at h
        · next i v hs =>
          cases v with
          | false => simp at h
          | true => simp [storedDeal, hd', hs]

theorem processDeal_total (st : DkgSt) (m : DealMsg) : (processDeal Cfg.all st m).2.isPanic = false := by
  unfold processDeal
  split
  · simp
  · split
    · rfl
    · simp only
      cases h : processEncryptedDeal Cfg.all st.n st.me m.enc with
      | error o => exact processEncryptedDeal_total _ _ _ _ h
      | ok b => cases b <;> rfl

theorem verifyResponse_total (n : Nat) (rec : List Nat) (r : VResp) (o : Out) (h : verifyResponse Cfg.all n rec r = .error o) : o.isPanic = false := by
  unfold verifyResponse at h
  split at h
  · cases h; rfl
  · split at h
    · simp at h; cases h; rfl
    · split at h
      · cases h; rfl
      · split at h
        · cases h; rfl
        · cases h

theorem processResponse_total (st : DkgSt) (m : RespMsg) : (processResponse Cfg.all st m).2.isPanic = false := by
  unfold processResponse
  simp only [all_respNil, all_respVerOk, all_aggNil, Bool.true_and]
  cases hr : m.resp with
  | none => simp
  | some r =>
    simp only [Option.isNone_some, Bool.false_eq_true, if_false]
    cases hv : vlookup m.idx st.vers with
    | none => simp
    | some v =>
      cases v with
      | noAgg => simp
      | agg rec dl =>
        simp only
        cases h1 : verifyResponse Cfg.all st.n rec r with
        | error o => exact verifyResponse_total _ _ _ _ h1
        | ok rec' =>
          simp only
          split
          · rfl
          · cases h2 : verifyResponse Cfg.all st.n st.dealerResps r with
            | error o => exact verifyResponse_total _ _ _ _ h2
            | ok d => simp only; split <;> rfl

/-! every aggregator the generator holds stores a deal whose share has a value: what `DistKeyShare` relies on -/

def GoodVers (vers : List (Nat × VerSt)) : Prop :=
  ∀ e ∈ vers, ∀ r d, e.2 = .agg r d → d = some true

theorem vlookup_mem (k : Nat) (m : List (Nat × VerSt)) (v : VerSt) (h : vlookup k m = some v) : (k, v) ∈ m := by
  induction m with
  | nil => simp [vlookup] at h
  | cons x r ih =>
    obtain ⟨k', v'⟩ := x
    simp only [vlookup] at h
    split at h
    · next e => cases h; subst e; simp
    · exact List.mem_cons_of_mem _ (ih h)

theorem goodVers_vset (k : Nat) (v : VerSt) (m : List (Nat × VerSt)) (hm : GoodVers m)
    (hv : ∀ r d, v = .agg r d → d = some true) : GoodVers (vset k v m) := by
  intro e he r d hed
  simp only [vset, List.mem_cons, List.mem_filter] at he
  rcases he with he | he
  · subst he; exact hv r d hed
  · exact hm e he.1 r d hed

theorem processDeal_good (st : DkgSt) (m : DealMsg) (hg : GoodVers st.vers) : GoodVers (processDeal Cfg.all st m).1.vers := by
  unfold processDeal
  split
  · exact hg
  · split
    · exact hg
    · simp only
      cases h : processEncryptedDeal Cfg.all st.n st.me m.enc with
      | error o => exact goodVers_vset _ _ _ hg (by intro r d hh; cases hh)
      | ok b =>
        refine goodVers_vset _ _ _ hg ?_
        intro r d hh
        cases hh
        exact processEncryptedDeal_stores _ _ _ _ h

theorem processResponse_good (st : DkgSt) (m : RespMsg) (hg : GoodVers st.vers) : GoodVers (processResponse Cfg.all st m).1.vers := by
  unfold processResponse
  simp only [all_respNil, all_respVerOk, all_aggNil, Bool.true_and]
  cases hr : m.resp with
  | none => simpa using hg
  | some r =>
    simp only [Option.isNone_some, Bool.false_eq_true, if_false]
    cases hv : vlookup m.idx st.vers with
    | none => simpa using hg
    | some v =>
      cases v with
      | noAgg => simpa using hg
      | agg rec dl =>
        have hdl : dl = some true := hg _ (vlookup_mem _ _ _ hv) rec dl rfl
        simp only
        cases h1 : verifyResponse Cfg.all st.n rec r with
        | error o => exact hg
        | ok rec' =>
          have g1 : GoodVers (vset m.idx (.agg rec' dl) st.vers) :=
            goodVers_vset _ _ _ hg (by intro r d hh; cases hh; exact hdl)
          simp only
          split
          · exact g1
          · cases h2 : verifyResponse Cfg.all st.n st.dealerResps r with
            | error o => exact g1
            | ok d => exact g1

theorem dkgRun_good (ops : List DkgOp) : ∀ st, GoodVers st.vers → GoodVers (dkgRun Cfg.all st ops).1.vers := by
  induction ops with
  | nil => intro st h; simpa [dkgRun] using h
  | cons op r ih =>
    intro st h
    simp only [dkgRun]
    apply ih
    cases op with
    | deal m => exact processDeal_good st m h
    | resp m => exact processResponse_good st m h

theorem distKeyShare_good (st : DkgSt) (hg : GoodVers st.vers) : (distKeyShare st).isPanic = false := by
  unfold distKeyShare
  have h1 : st.vers.any (fun e => e.2.noDeal) = false := by
    rw [List.any_eq_false]
    intro e he
    cases hv : e.2 with
    | noAgg => simp [VerSt.noDeal]
    | agg r d => have := hg e he r d hv; subst this; simp [VerSt.noDeal]
  have h2 : st.vers.any (fun e => e.2.noValue) = false := by
    rw [List.any_eq_false]
    intro e he
    cases hv : e.2 with
    | noAgg => simp [VerSt.noValue]
    | agg r d => have := hg e he r d hv; subst this; simp [VerSt.noValue]
  simp [h1, h2]

theorem goodVers_init (n me : Nat) : GoodVers (DkgSt.init n me).vers := by
  intro e he r d hh
  simp [DkgSt.init] at he
  subst he
  cases hh; rfl

theorem dkgRun_total (ops : List DkgOp) : ∀ st, ∀ o ∈ (dkgRun Cfg.all st ops).2, o.isPanic = false := by
  induction ops with
  | nil => intro st o h; simp [dkgRun] at h
  | cons op r ih =>
    intro st o h
    simp only [dkgRun] at h
    rcases List.mem_cons.mp h with h | h
    · subst h
      cases op with
      | deal m => exact processDeal_total st m
      | resp m => exact processResponse_total st m
    · exact ih _ o h

/-- keeps serving: whatever happened before, an honest deal from a member that has no verifier yet is approved -/
theorem honest_deal_served (st : DkgSt) (idx t : Nat) (hidx : idx < st.n) (hnew : vlookup idx st.vers = none)
    (ht : validT t st.n = true) (hme : st.me < st.n) :
    (processDeal Cfg.all st (honestDeal idx st.me t)).2 = .ok "approval" := by
  have h1 : ¬ (idx ≥ st.n) := by omega
  have h2 : ¬ (st.me ≥ st.n) := by omega
  simp [honestDeal, processDeal, h1, hnew, processEncryptedDeal, decryptDeal, verifyDeal, ht, h2]

def chans (s : Sess) : List Nat := s.req.map (fun e => e.2.chan)

structure SessInv (s : Sess) : Prop where
  lt : ∀ c ∈ chans s, c < s.next
  open_ : ∀ c ∈ chans s, c ∉ s.closed
  nodup : (chans s).Nodup
  closedLt : ∀ c ∈ s.closed, c < s.next
  alive : s.alive = true

theorem aerase_sublist {β : Type} (k : String) (m : List (String × β)) : (aerase k m).Sublist m := by
  induction m with
  | nil => exact List.Sublist.slnil
  | cons e r ih =>
    obtain ⟨k', v⟩ := e
    simp only [aerase]
    split
    · exact List.Sublist.cons _ ih
    · exact List.Sublist.cons_cons _ ih

theorem aerase_key {β : Type} (k : String) (m : List (String × β)) : ∀ e ∈ aerase k m, e.1 ≠ k := by
  induction m with
  | nil => intro e h; simp [aerase] at h
  | cons x r ih =>
    obtain ⟨k', v⟩ := x
    intro e h
    simp only [aerase] at h
    split at h
    · exact ih e h
    · next hne =>
      rcases List.mem_cons.mp h with h | h
      · subst h; exact hne
      · exact ih e h

theorem alookup_mem {β : Type} (k : String) (m : List (String × β)) (v : β) (h : alookup k m = some v) : (k, v) ∈ m := by
  induction m with
  | nil => simp [alookup] at h
  | cons x r ih =>
    obtain ⟨k', v'⟩ := x
    simp only [alookup] at h
    split at h
    · next e => cases h; subst e; simp
    · exact List.mem_cons_of_mem _ (ih h)

theorem nodup_map_inj {α β : Type} (f : α → β) (l : List α) (h : (l.map f).Nodup) :
    ∀ a ∈ l, ∀ b ∈ l, f a = f b → a = b := by
  induction l with
  | nil => intro a ha; simp at ha
  | cons x r ih =>
    simp only [List.map_cons, List.nodup_cons] at h
    intro a ha b hb e
    rcases List.mem_cons.mp ha with h1 | h1 <;> rcases List.mem_cons.mp hb with h2 | h2
    · rw [h1, h2]
    · subst h1; exact absurd (e ▸ List.mem_map_of_mem (f := f) h2) h.1
    · subst h2; exact absurd (e ▸ List.mem_map_of_mem (f := f) h1) h.1
    · exact ih h.2 a h1 b h2 e

/-- closing the reply channel of the request found under `sid` and deleting the entry keeps the invariant -/
theorem fire_inv (s : Sess) (sid : String) (r : Req) (k : Nat) (site : String) (inv : SessInv s)
    (hr : (sid, r) ∈ s.req) :
    SessInv (fire s sid r k site).1 ∧ (fire s sid r k site).2.isPanic = false := by
  have hc : r.chan ∈ chans s := List.mem_map.mpr ⟨(sid, r), hr, rfl⟩
  have hopen := inv.open_ _ hc
  simp only [fire, hopen, if_false]
  refine ⟨?_, rfl⟩
  have sub : (chans { s with buf := aerase sid s.buf, req := aerase sid s.req, closed := r.chan :: s.closed }).Sublist (chans s) := by
    simp only [chans]; exact (aerase_sublist sid s.req).map _
  constructor
  · intro c h; exact inv.lt c (sub.subset h)
  · intro c h
    simp only [List.mem_cons, not_or]
    refine ⟨?_, inv.open_ c (sub.subset h)⟩
    -- c belongs to an entry with another key, r to the entry with key sid: different entries, so different channels
    simp only [chans, List.mem_map] at h
    obtain ⟨e, he, hce⟩ := h
    have hne : e.1 ≠ sid := aerase_key sid s.req e he
    have hem : e ∈ s.req := (aerase_sublist sid s.req).subset he
    intro heq
    have := nodup_map_inj (fun e : String × Req => e.2.chan) s.req inv.nodup e hem (sid, r) hr (by simp [hce, heq])
    rw [this] at hne; exact hne rfl
  · exact inv.nodup.sublist sub
  · intro c h
    rcases List.mem_cons.mp h with h | h
    · subst h; exact inv.lt _ hc
    · exact inv.closedLt c h
  · exact inv.alive

theorem handlePeerMsg_inv (s : Sess) (sid : String) (it : Item) (inv : SessInv s) :
    SessInv (handlePeerMsg Cfg.all s sid it).1 ∧ (handlePeerMsg Cfg.all s sid it).2.isPanic = false := by
  unfold handlePeerMsg
  have hd : respDeref Cfg.all ((alookup sid s.buf).getD []) it = false := by
    cases it <;> simp [respDeref]
    next d r => cases r <;> simp
  simp only [hd, Bool.false_eq_true, if_false]
  split
  · exact ⟨inv, rfl⟩
  · have inv1 : SessInv { s with buf := ainsert sid ((alookup sid s.buf).getD [] ++ [it]) s.buf } :=
      ⟨inv.lt, inv.open_, inv.nodup, inv.closedLt, inv.alive⟩
    cases hl : alookup sid s.req with
    | none =>
      -- the zero-value request is never selected: the buffer has at least one element after the append
      have : ¬ (((((alookup sid s.buf).getD [] ++ [it]).length : Nat) : Int) = 0) := by
        simp; omega
      simp only [this, if_false]
      exact ⟨inv1, rfl⟩
    | some r =>
      simp only [all_peerClean, fireC_all]
      split
      · exact fire_inv _ sid r _ _ inv1 (alookup_mem sid s.req r hl)
      · exact ⟨inv1, rfl⟩

theorem handleRequest_inv (s : Sess) (sid : String) (num : Int) (inv : SessInv s) :
    SessInv (handleRequest Cfg.all s sid num).1 ∧ (handleRequest Cfg.all s sid num).2.isPanic = false := by
  unfold handleRequest
  have sub : ((aerase sid s.req).map (fun e => e.2.chan)).Sublist (chans s) := (aerase_sublist sid s.req).map _
  have inv1 : SessInv { s with req := ainsert sid { num := num, chan := s.next } s.req, next := s.next + 1 } := by
    constructor
    · intro c h
      simp only [chans, ainsert, List.map_cons, List.mem_cons] at h
      rcases h with h | h
      · subst h; simp
      · have := inv.lt c (sub.subset h); simp; omega
    · intro c h
      simp only [chans, ainsert, List.map_cons, List.mem_cons] at h
      rcases h with h | h
      · subst h; intro hc; exact absurd (inv.closedLt _ hc) (by simp)
      · exact inv.open_ c (sub.subset h)
    · simp only [chans, ainsert, List.map_cons, List.nodup_cons]
      refine ⟨fun h => absurd (inv.lt _ (sub.subset h)) (by simp), inv.nodup.sublist sub⟩
    · intro c h; have := inv.closedLt c h; simp; omega
    · exact inv.alive
  simp only [all_reqClean, fireC_all]
  split
  · exact fire_inv _ sid _ _ _ inv1 (by simp [ainsert])
  · exact ⟨inv1, rfl⟩

/-- the expiry sweep closes only channels of registrations that are in the map, whose channel is
open by the invariant: never a double close, whatever ids are reported done and in whatever order -/
theorem expire_inv (done : List String) : ∀ (s : Sess) (k : Nat), SessInv s →
    SessInv (expire Cfg.all s done k).1 ∧ (expire Cfg.all s done k).2.isPanic = false := by
  induction done with
  | nil => intro s k inv; exact ⟨inv, rfl⟩
  | cons sid rest ih =>
    intro s k inv
    simp only [expire, all_expClean, fireC_all]
    cases hl : alookup sid s.req with
    | none => exact ih s k inv
    | some r =>
      have hf := fire_inv s sid r 0 "dkg.pdkg.Loop|close|close(req.reply)" inv (alookup_mem sid s.req r hl)
      simp only
      cases ho : (fire s sid r 0 "dkg.pdkg.Loop|close|close(req.reply)") with
      | mk s1 o =>
        rw [ho] at hf
        cases o with
        | panic site => simp at hf
        | ok i => exact ih s1 (k + 1) hf.1
        | err e => exact ih s1 (k + 1) hf.1
        | dropped => exact ih s1 (k + 1) hf.1

theorem sessRun_inv (evs : List SessEv) : ∀ s, SessInv s →
    SessInv (sessRun Cfg.all s evs).1 ∧ ∀ o ∈ (sessRun Cfg.all s evs).2, o.isPanic = false := by
  induction evs with
  | nil => intro s inv; exact ⟨inv, by simp [sessRun]⟩
  | cons e r ih =>
    intro s inv
    simp only [sessRun]
    have st : SessInv (sessStep Cfg.all s e).1 ∧ (sessStep Cfg.all s e).2.isPanic = false := by
      cases e with
      | msg sid it => simp only [sessStep, inv.alive, if_true]; exact handlePeerMsg_inv s sid it inv
      | req sid num => simp only [sessStep, inv.alive, if_true]; exact handleRequest_inv s sid num inv
      | expire done => simp only [sessStep, inv.alive, if_true]; exact expire_inv done s 0 inv
    have := ih _ st.1
    refine ⟨this.1, ?_⟩
    intro o h
    rcases List.mem_cons.mp h with h | h
    · subst h; exact st.2
    · exact this.2 o h

theorem sessInit_inv : SessInv {} := ⟨by simp [chans], by simp [chans], by simp [chans], by simp, rfl⟩

end Dos.Handlers

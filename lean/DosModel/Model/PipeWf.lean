/-
C14 — decidable well-formedness of a pipeline IR.  Core Lean only.

All rules are *edge-local checks of labelings* of the goroutine CFGs.  The labelings are
computed here (by a bounded closure iteration), but no theorem depends on how they were
computed: the soundness proofs in `Proofs/Pipe*.lean` use only the edge-local checks.

  W0  indices in range
  W1  close discipline of a channel, one of
        N (never)   nobody closes `c`
        A (owner)   one goroutine does every send and close of `c`; nothing on `c` after a close
        B (fan-in)  one closer that passes `wgWait w` before `close c`; every sender still owes
                    its `wgDone w` when it sends (needs W5 for `w`)
        C (hand-off) exactly one goroutine at a time holds the right to operate on `c`; the right
                    moves with a message on a hand-off channel; a close gives it up
  W2  every blocking operation of a pipeline goroutine sits in a select with the context
      alternative (or a timer alternative), except a lone receive on a channel with W3
  W3  a lone receive / range: the channel's closer is a static pipeline goroutine of smaller
      rank that closes it on every path to its exit; `wgWait w`: every goroutine owing a
      `wgDone w` is static, of smaller rank
  W4  from every node of a pipeline goroutine there is a way to the exit that only uses edges which
      are enabled after cancellation (certified by a distance labeling)
  W5  `wgDone w` is reached exactly once on every path of every goroutine that owes it, and the
      initial counter equals the number of goroutines that owe it
  W6  every channel somebody sends on has a receiver
  W7  every channel of the pipeline instance is closed in the end: a static pipeline goroutine
      closes it on every path to its exit, or its creator closes it or hands it to the collector
      on every path
-/
import DosModel.Model.PipeSem

namespace Dos.Pipe

/-! ### labelings -/

def mark (m : List Bool) (i : Nat) : Bool := match m[i]? with | some b => b | none => false

def Node.succs (nd : Node) : List Pc := nd.edges.map (·.2)

/-- worklist closure: mark everything reachable from `work` under `step` (fuel bounds the pops) -/
def closeUnder (step : Nat → List Nat) : Nat → List Nat → List Bool → List Bool
  | 0, _, seen => seen
  | _ + 1, [], seen => seen
  | fuel + 1, x :: work, seen =>
    if mark seen x then closeUnder step fuel work seen
    else closeUnder step fuel (step x ++ work) (seen.set x true)

def iter {α : Type} (f : α → α) : Nat → α → α
  | 0, a => a
  | n + 1, a => iter f n (f a)

def edgeCount (nodes : List Node) : Nat := nodes.foldl (fun n nd => n + nd.succs.length) 0

def indicesWhere (nodes : List Node) (f : Node → Bool) : List Nat :=
  nodes.zipIdx.filterMap fun x => if f x.1 then some x.2 else none

/-- predecessors of node `j` whose outgoing paths are not `cut` -/
def predsOf (nodes : List Node) (cut : Node → Bool) (j : Nat) : List Nat :=
  nodes.zipIdx.filterMap fun x => if !cut x.1 && x.1.succs.contains j then some x.2 else none

/-- nodes from which a seed node can be reached (paths do not continue through `cut` nodes) -/
def backClosure (nodes : List Node) (cut : Node → Bool) (seed : Node → Bool) : List Bool :=
  closeUnder (predsOf nodes cut) (nodes.length + edgeCount nodes + 1) (indicesWhere nodes seed)
    (nodes.map (fun _ => false))

/-- nodes reachable from node 0 along paths that do not continue through `cut` nodes -/
def fwdClosure (nodes : List Node) (cut : Node → Bool) : List Bool :=
  closeUnder (fun i => match nodes[i]? with
      | some nd => if cut nd then [] else nd.succs
      | none => [])
    (nodes.length + edgeCount nodes + 1) [0] (nodes.map (fun _ => false))

/-! ### node classification -/

def Node.closes (c : Ch) : Node → Bool
  | .close c' _ => c' == c
  | _ => false

def Alt.sendsOn (c : Ch) : Alt → Bool
  | .send c' _ => c' == c
  | _ => false

def Alt.recvsOn (c : Ch) : Alt → Bool
  | .recv c' _ _ => c' == c
  | _ => false

def Node.sendsOn (c : Ch) : Node → Bool
  | .sel alts => alts.any (Alt.sendsOn c)
  | _ => false

def Node.recvsOn (c : Ch) : Node → Bool
  | .sel alts => alts.any (Alt.recvsOn c)
  | _ => false

def Node.opsOn (c : Ch) (nd : Node) : Bool := nd.closes c || nd.sendsOn c

def Node.isDone (w : Nat) : Node → Bool
  | .wgDone w' _ => w' == w
  | _ => false

def Node.isWait (w : Nat) : Node → Bool
  | .wgWait w' _ => w' == w
  | _ => false

def Node.isExit : Node → Bool
  | .exit => true
  | _ => false

def Goroutine.hasOps (gr : Goroutine) (c : Ch) : Bool := gr.nodes.any (Node.opsOn c)
def Goroutine.hasClose (gr : Goroutine) (c : Ch) : Bool := gr.nodes.any (Node.closes c)
def Goroutine.hasSend (gr : Goroutine) (c : Ch) : Bool := gr.nodes.any (Node.sendsOn c)
def Goroutine.hasRecv (gr : Goroutine) (c : Ch) : Bool := gr.nodes.any (Node.recvsOn c)

/-- indices of the goroutines satisfying `f` -/
def Pipeline.gsWhere (p : Pipeline) (f : Goroutine → Bool) : List Gi :=
  p.gs.zipIdx.filterMap fun x => if f x.1 then some x.2 else none

/-! ### W0 -/

def Lab.inRange (p : Pipeline) : Lab → Bool
  | .tau | .tick | .dflt => true
  | .recvOk c | .recvCl c | .send c | .close c => decide (c < p.chans.length)
  | .ctx k | .cancel k => decide (k < p.nctx)
  | .wgDone w | .wgWait w => decide (w < p.wgs.length)
  | .spawn g => match p.gs[g]? with
    | some gr => !gr.static
    | none => false

def W0 (p : Pipeline) : Bool :=
  p.gs.all fun gr =>
    decide (0 < gr.nodes.length) &&
    gr.nodes.all fun nd => nd.edges.all fun e => e.1.inRange p && decide (e.2 < gr.nodes.length)

/-! ### labelings used by the rules, with their edge-local checks -/

/-- `m` is closed backwards along edges and contains the seeds -/
def backClosedOk (nodes : List Node) (seed : Node → Bool) (m : List Bool) : Bool :=
  nodes.zipIdx.all fun x =>
    (!seed x.1 || mark m x.2) && x.1.succs.all (fun j => !mark m j || mark m x.2)

/-- may still send on / close `c` -/
def mayOp (gr : Goroutine) (c : Ch) : List Bool := backClosure gr.nodes (fun _ => false) (Node.opsOn c)

/-- labeling check for "nothing on `c` after a close of `c`" inside one goroutine -/
def closeOnceOk (gr : Goroutine) (c : Ch) : Bool :=
  let m := mayOp gr c
  backClosedOk gr.nodes (Node.opsOn c) m &&
  gr.nodes.all fun nd => match nd with
    | .close c' n => c' != c || !mark m n
    | _ => true

/-- owes a `wgDone w` (can still reach one) -/
def owes (gr : Goroutine) (w : Nat) : List Bool := backClosure gr.nodes (fun _ => false) (Node.isDone w)

/-- W5 for one goroutine and one wait group: along every edge the debt is conserved -/
def owesOk (gr : Goroutine) (w : Nat) : Bool :=
  let m := owes gr w
  gr.nodes.zipIdx.all fun x =>
    (!x.1.isExit || !mark m x.2) &&
    (if x.1.isDone w then mark m x.2 && x.1.succs.all (fun j => !mark m j)
     else x.1.succs.all (fun j => mark m j == mark m x.2))

def owesAtEntry (gr : Goroutine) (w : Nat) : Bool := mark (owes gr w) 0

/-- W5 for a wait group: conservation in every goroutine and the right initial counter -/
def W5w (p : Pipeline) (w : Nat) : Bool :=
  p.gs.all (fun gr => owesOk gr w) &&
  (match p.wgs[w]? with
   | some x => x.init == (p.gs.filter (fun gr => owesAtEntry gr w)).length
   | none => false)

/-- reachable from the entry without having completed a `wgWait w` -/
def notWaited (gr : Goroutine) (w : Nat) : List Bool := fwdClosure gr.nodes (Node.isWait w)

def fwdClosedOk (nodes : List Node) (cut : Node → Bool) (m : List Bool) : Bool :=
  mark m 0 && nodes.zipIdx.all fun x =>
    !mark m x.2 || cut x.1 || x.1.succs.all (mark m)

/-- reachable from the entry without having closed `c` -/
def notClosedYet (gr : Goroutine) (c : Ch) : List Bool := fwdClosure gr.nodes (Node.closes c)

/-- `gr` closes `c` on every path to its exit -/
def closesOnAllPaths (gr : Goroutine) (c : Ch) : Bool :=
  let m := notClosedYet gr c
  fwdClosedOk gr.nodes (Node.closes c) m &&
  gr.nodes.zipIdx.all fun x => !x.1.isExit || !mark m x.2

/-! ### W1 disciplines -/

/-- A: a single goroutine owns every send and close of `c` -/
def discA (p : Pipeline) (c : Ch) : Bool :=
  match p.gsWhere (fun gr => gr.hasOps c) with
  | [] => true
  | [h] => match p.gs[h]? with
    | some gr => closeOnceOk gr c
    | none => false
  | _ => false

/-- B: fan-in.  Returns the wait group it is based on. -/
def discBw (p : Pipeline) (c : Ch) (w : Nat) : Bool :=
  match p.gsWhere (fun gr => gr.hasClose c) with
  | [h] => match p.gs[h]? with
    | some gr =>
      !gr.hasSend c && closeOnceOk gr c &&
      -- the closer has waited for `w` before it closes
      (let m := notWaited gr w
       fwdClosedOk gr.nodes (Node.isWait w) m &&
       gr.nodes.zipIdx.all fun x => !x.1.closes c || !mark m x.2) &&
      -- every sender still owes its `wgDone w` when it sends
      p.gs.all (fun gs => !gs.hasSend c || (let m := owes gs w
        gs.nodes.zipIdx.all fun x => !x.1.sendsOn c || mark m x.2)) &&
      W5w p w
    | none => false
  | _ => false

def discB (p : Pipeline) (c : Ch) : Bool :=
  (List.range p.wgs.length).any (discBw p c)

/-- N: nobody ever closes `c` (then nothing on `c` can panic) -/
def discN (p : Pipeline) (c : Ch) : Bool := p.gs.all (fun gr => !gr.hasClose c)

/-! #### C: hand-off.  The right to operate on `c` is a token: the creator `g` holds it, a send on
the hand-off channel `r` passes it to the collector `d`, a close destroys it. -/

def Alt.handsOff (r : Ch) : Alt → Bool
  | .send r' _ => r' == r
  | _ => false

def Node.handsOff (r : Ch) : Node → Bool
  | .sel alts => alts.any (Alt.handsOff r)
  | _ => false

/-- creator side: may still use or hand off `c` -/
def ownG (gr : Goroutine) (c r : Ch) : List Bool :=
  backClosure gr.nodes (fun _ => false) (fun nd => nd.opsOn c || nd.handsOff r)

def ownGOk (gr : Goroutine) (c r : Ch) : Bool :=
  let m := ownG gr c r
  backClosedOk gr.nodes (fun nd => nd.opsOn c || nd.handsOff r) m &&
  gr.nodes.all fun nd => match nd with
    | .close c' n => c' != c || !mark m n
    | .sel alts => alts.all fun a => match a with
      | .send r' n => r' != r || !mark m n
      | _ => true
    | _ => true

/-- collector side: holds the token from a receive on `r` until it closes `c` -/
def ownD (gr : Goroutine) (c r : Ch) : List Bool :=
  closeUnder (fun i => match gr.nodes[i]? with
      | some nd => if nd.closes c then [] else nd.succs
      | none => [])
    (gr.nodes.length + edgeCount gr.nodes + 1)
    (gr.nodes.flatMap fun nd => nd.edges.filterMap fun e => if e.1 == Lab.recvOk r then some e.2 else none)
    (gr.nodes.map (fun _ => false))

def ownDOk (gr : Goroutine) (c r : Ch) : Bool :=
  let m := ownD gr c r
  !mark m 0 &&
  gr.nodes.zipIdx.all fun x =>
    (!x.1.opsOn c || mark m x.2) &&
    x.1.edges.all fun e =>
      !mark m e.2 || (mark m x.2 && !x.1.closes c) || e.1 == Lab.recvOk r

def discCr (p : Pipeline) (c r : Ch) : Bool :=
  c != r &&
  match p.gsWhere (fun gr => gr.hasSend r), p.gsWhere (fun gr => gr.hasRecv r) with
  | [g], [d] =>
    g != d &&
    (p.gsWhere (fun gr => gr.hasOps c)).all (fun x => x == g || x == d) &&
    (match p.gs[g]?, p.gs[d]? with
     | some gg, some gd => !gg.hasRecv r && !gd.hasSend r && !gg.hasClose r && !gd.hasClose r &&
         ownGOk gg c r && ownDOk gd c r
     | _, _ => false) &&
    p.gs.all (fun gr => !gr.hasClose r)
  | _, _ => false

def discC (p : Pipeline) (c : Ch) : Bool :=
  (List.range p.chans.length).any (discCr p c)

/-- W1 for one channel -/
def W1c (p : Pipeline) (c : Ch) : Bool := discN p c || discA p c || discB p c || discC p c

/-! ### liveness rules -/

def Alt.isGuard : Alt → Bool
  | .ctx k _ => k == 0
  | .tick _ => true
  | _ => false

def rankOf (p : Pipeline) (g : Gi) : Nat := match p.rank[g]? with | some r => r | none => 0

/-- W3 for a lone receive of `g` on `c` -/
def rangeOk (p : Pipeline) (g : Gi) (c : Ch) : Bool :=
  match p.gsWhere (fun gr => gr.hasClose c) with
  | [h] => match p.gs[h]? with
    | some gr => gr.static && !gr.daemon && decide (rankOf p h < rankOf p g) && closesOnAllPaths gr c
    | none => false
  | _ => false

/-- W3 for `wgWait w` of `g` -/
def waitOk (p : Pipeline) (g : Gi) (w : Nat) : Bool :=
  W5w p w &&
  p.gs.zipIdx.all fun x =>
    !owesAtEntry x.1 w || (x.1.static && !x.1.daemon && decide (rankOf p x.2 < rankOf p g))

/-- W2/W3 for one node of pipeline goroutine `g` -/
def nodeLive (p : Pipeline) (g : Gi) : Node → Bool
  | .sel alts =>
    alts.any Alt.isGuard ||
    (match alts with
     | [.recv c _ _] => rangeOk p g c
     | _ => false)
  | .wgWait w _ => waitOk p g w
  | _ => true

/-! ### W4: a way out after cancellation

An *escape edge* of a node is an edge that is enabled once context 0 is done and the goroutines
of smaller rank have exited, whatever the rest of the system does: the context alternative of
a select; else a timer alternative; the closed branch of a lone receive with W3; the single
edge of close / wgDone / wgWait / spawn / cancel; any edge of an internal choice. -/

def Alt.isCtx0 : Alt → Bool
  | .ctx k _ => k == 0
  | _ => false

def Alt.isTick : Alt → Bool
  | .tick _ => true
  | _ => false

def escEdges (p : Pipeline) (g : Gi) : Node → List (Lab × Pc)
  | .sel alts =>
    if alts.any Alt.isCtx0 then (alts.filter Alt.isCtx0).flatMap Alt.edges
    else if alts.any Alt.isTick then (alts.filter Alt.isTick).flatMap Alt.edges
    else match alts with
      | [.recv c _ b] => if rangeOk p g c then [(.recvCl c, b)] else []
      | _ => []
  | nd => nd.edges

/-- breadth-first layers backwards over escape edges: `dist[i]` = length of the shortest escape
    path from node `i` to a target, `nodes.length + 1` if there is none -/
def distLayers (esc : Node → List (Lab × Pc)) (nodes : List Node) :
    Nat → Nat → List Nat → List Nat → List Nat
  | 0, _, _, dist => dist
  | fuel + 1, d, frontier, dist =>
    if frontier.isEmpty then dist else
    let next := nodes.zipIdx.filterMap fun x =>
      if (dist[x.2]?.getD 0) > nodes.length && (esc x.1).any (fun e => frontier.contains e.2)
      then some x.2 else none
    distLayers esc nodes fuel (d + 1) next (next.foldl (fun acc i => acc.set i (d + 1)) dist)

def distTo (esc : Node → List (Lab × Pc)) (nodes : List Node) (target : Node → Bool) : List Nat :=
  let t := indicesWhere nodes target
  let inf := nodes.length + 1
  distLayers esc nodes nodes.length 0 t
    (nodes.zipIdx.map fun x => if t.contains x.2 then 0 else inf)

def distAt (d : List Nat) (i : Nat) : Nat := match d[i]? with | some x => x | none => 0

/-- every node in `scope` that is not a target has an escape edge to a strictly closer node -/
def distOk (esc : Node → List (Lab × Pc)) (nodes : List Node) (target : Node → Bool)
    (scope : Nat → Bool) (d : List Nat) : Bool :=
  nodes.zipIdx.all fun x =>
    !scope x.2 || target x.1 || (esc x.1).any (fun e => decide (distAt d e.2 < distAt d x.2))

/-- W4 for one pipeline goroutine -/
def W4g (p : Pipeline) (g : Gi) (gr : Goroutine) : Bool :=
  distOk (escEdges p g) gr.nodes Node.isExit (fun _ => true)
    (distTo (escEdges p g) gr.nodes Node.isExit)

/-- W2 + W3 + W4 for one pipeline goroutine -/
def liveG (p : Pipeline) (g : Gi) (gr : Goroutine) : Bool :=
  gr.nodes.all (nodeLive p g) && W4g p g gr

/-- the liveness half of well-formedness: indices in range, every pipeline goroutine live -/
def LiveOk (p : Pipeline) : Bool :=
  W0 p && p.gs.zipIdx.all fun x => x.1.daemon || liveG p x.2 x.1

/-- the safety half: every channel passes W1, every wait group passes W5 -/
def SafeOk (p : Pipeline) : Bool :=
  (List.range p.chans.length).all (W1c p) && (List.range p.wgs.length).all (W5w p)

/-- the collector `d`, while it holds the right to operate on `c` (received on `r`), can always
    get to `close c` by escape edges alone (its own timer, the request's context): it does not
    depend on further input from the peers -/
def collectorCloses (p : Pipeline) (d : Gi) (gd : Goroutine) (c r : Ch) : Bool :=
  let own := ownD gd c r
  -- the collector's own return (shutdown of the node: its context, not the pipeline's) is not in scope
  distOk (escEdges p d) gd.nodes (fun nd => nd.closes c || nd.isExit) (mark own)
    (distTo (escEdges p d) gd.nodes (Node.closes c))

/-! ### W7: every channel of the pipeline instance is closed in the end -/

/-- reachable from the entry without having closed `c` or handed it off on `r` -/
def unresolved (gr : Goroutine) (c r : Ch) : List Bool :=
  closeUnder (fun i => match gr.nodes[i]? with
      | some nd => if nd.closes c then [] else
          nd.edges.filterMap fun e => if e.1 == Lab.send r then none else some e.2
      | none => [])
    (gr.nodes.length + edgeCount gr.nodes + 1) [0] (gr.nodes.map (fun _ => false))

def resolvesOk (gr : Goroutine) (c r : Ch) : Bool :=
  let m := unresolved gr c r
  mark m 0 &&
  (gr.nodes.zipIdx.all fun x =>
    !mark m x.2 || x.1.closes c || x.1.edges.all (fun e => e.1 == Lab.send r || mark m e.2)) &&
  gr.nodes.zipIdx.all fun x => !x.1.isExit || !mark m x.2

/-- `c` is closed by a static pipeline goroutine on every path, or handed to the collector -/
def W7c (p : Pipeline) (c : Ch) : Bool :=
  match p.chans[c]? with
  | none => false
  | some ch =>
    ch.env ||
    p.gs.any (fun gr => gr.static && !gr.daemon && gr.hasClose c && closesOnAllPaths gr c) ||
    (List.range p.chans.length).any fun r =>
      discCr p c r &&
      match p.gsWhere (fun gr => gr.hasSend r), p.gsWhere (fun gr => gr.hasRecv r) with
      | [g], [d] => match p.gs[g]?, p.gs[d]? with
        | some gg, some gd => gg.static && !gg.daemon && resolvesOk gg c r && collectorCloses p d gd c r
        | _, _ => false
      | _, _ => false

/-! ### violations (what the per-pipeline theorems compare with the recorded findings) -/

structure Violation where
  rule : Nat          -- 1..6 = W1..W6, 0 = W0
  g : String          -- goroutine key (function), "" if not applicable
  c : String          -- channel / wait-group key, "" if not applicable
  deriving DecidableEq, Repr, Inhabited

def Pipeline.gkey (p : Pipeline) (g : Gi) : String := p.gname g
def Pipeline.ckey (p : Pipeline) (c : Ch) : String := p.cname c

def dedup (l : List Violation) : List Violation :=
  l.foldl (fun acc v => if acc.contains v then acc else acc ++ [v]) []

/-- goroutines blamed for a W1 failure on `c`: everybody who closes it, or, when there is
    exactly one closer, that closer -/
def w1Violations (p : Pipeline) : List Violation :=
  (List.range p.chans.length).flatMap fun c =>
    if W1c p c then [] else
    -- a fan-in whose only defect is W5 is reported under W5
    if (List.range p.wgs.length).any (fun w => !W5w p w) &&
       (p.gsWhere (fun gr => gr.hasClose c)).length ≤ 1 &&
       (p.gsWhere (fun gr => gr.hasSend c && !gr.hasClose c)).length ≥ 1 then [] else
    (p.gsWhere (fun gr => gr.hasOps c)).map fun g => { rule := 1, g := p.gkey g, c := p.ckey c }

def w23Violations (p : Pipeline) : List Violation :=
  p.gs.zipIdx.flatMap fun x =>
    if x.1.daemon then [] else
    x.1.nodes.flatMap fun nd =>
      if nodeLive p x.2 nd then [] else
      match nd with
      | .sel alts =>
        let vs := alts.flatMap fun a => match a with
          | .send c _ => [{ rule := 2, g := x.1.name, c := p.ckey c : Violation }]
          | .recv c _ _ => [{ rule := (if alts.length == 1 then 3 else 2), g := x.1.name, c := p.ckey c }]
          | _ => []
        -- a select that waits on nothing the pipeline controls (no channel, foreign context only)
        if vs.isEmpty then [{ rule := 2, g := x.1.name, c := "" }] else vs
      | .wgWait w _ => if W5w p w then [{ rule := 3, g := x.1.name, c := p.wname w }] else []
      | _ => []

def w5Violations (p : Pipeline) : List Violation :=
  (List.range p.wgs.length).flatMap fun w =>
    (p.gs.flatMap fun gr => if owesOk gr w then [] else [{ rule := 5, g := gr.name, c := "" }]) ++
    (match p.wgs[w]? with
     | some x => if x.init == (p.gs.filter (fun gr => owesAtEntry gr w)).length then []
                 else [{ rule := 5, g := "", c := x.name }]
     | none => [])

def w6Violations (p : Pipeline) : List Violation :=
  (List.range p.chans.length).flatMap fun c =>
    if p.gs.any (fun gr => gr.hasSend c) && !p.gs.any (fun gr => gr.hasRecv c)
    then [{ rule := 6, g := "", c := p.ckey c }] else []

def w4Violations (p : Pipeline) : List Violation :=
  p.gs.zipIdx.flatMap fun x =>
    if x.1.daemon || W4g p x.2 x.1 then [] else [{ rule := 4, g := x.1.name, c := "" }]

/-- blamed for an unclosed channel: the collector that does not close what it was handed; else the
    goroutines that close it somewhere; else its senders -/
def w7Violations (p : Pipeline) : List Violation :=
  (List.range p.chans.length).flatMap fun c =>
    if W7c p c then [] else
    let collectors := (List.range p.chans.length).flatMap fun r =>
      if discCr p c r then
        match p.gsWhere (fun gr => gr.hasSend r), p.gsWhere (fun gr => gr.hasRecv r) with
        | [g], [d] => match p.gs[g]?, p.gs[d]? with
          | some gg, some gd => if resolvesOk gg c r && !collectorCloses p d gd c r then [d] else []
          | _, _ => []
        | _, _ => []
      else []
    if !collectors.isEmpty then collectors.map fun d => { rule := 7, g := p.gkey d, c := p.ckey c } else
    let closers := p.gsWhere (fun gr => gr.hasClose c && !gr.daemon)
    let blamed := if closers.isEmpty then p.gsWhere (fun gr => gr.hasSend c && !gr.daemon) else closers
    if blamed.isEmpty then [{ rule := 7, g := "", c := p.ckey c }]
    else blamed.map fun g => { rule := 7, g := p.gkey g, c := p.ckey c }

def w0Violations (p : Pipeline) : List Violation :=
  if W0 p then [] else [{ rule := 0, g := "", c := "" }]

/-- everything the rules reject, one entry per (rule, goroutine function, channel) -/
def violations (p : Pipeline) : List Violation :=
  dedup (w0Violations p ++ w1Violations p ++ w23Violations p ++ w4Violations p ++ w5Violations p ++
    w6Violations p ++ w7Violations p)

def subsetOf (a b : List Violation) : Bool := a.all (fun v => b.contains v)

def Violation.show (v : Violation) : String := "W" ++ toString v.rule ++ ":" ++ v.g ++ ":" ++ v.c

end Dos.Pipe

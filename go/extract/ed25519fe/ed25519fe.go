// Package ed25519fe (C20, round 4): syntax-directed go/ast translation of the ref10 FIELD
// code group/edwards25519/fe.go into Lean (Gen/Ed25519Fe.lean).
//
//   - the straight-line limb routines feMul, feSquare, feSquare2, feFromBytes, feToBytes:
//     one Go statement = one `⟨dst, rhs⟩` of Dos.IntervalProg.Prog (DATA, for the verified
//     interval interpreter) AND one `let` of a Lean function (for `ring`); the two are proved
//     equal in Proofs/Ed25519FeTie.lean.  Nothing is simplified or pattern-matched.
//     Types: fe.go mixes int32 and int64.  A tiny type inference (parameters `*fieldElement`
//     have int32 elements, `int64(e)`, `int32(e)`, `load3/load4` return int64, declared
//     `var carry [n]intNN`, `:=` takes the type of its right-hand side, untyped constants
//     adapt) decides, for every `+ - * <<` and unary `-`, whether it is an int32 operation;
//     those are wrapped in `n32` (narrowing to int32, Model/FeProg.lean).  `>> & |` of
//     int32 values cannot leave int32 and are not wrapped.  An operation whose typed
//     operands disagree is an extraction error.
//     Phases: init = statements before the first assignment to carry[…]; blocks = the
//     following statements cut at blank/comment lines, over the ten limbs and carry[…]
//     (a block that reads a carry it has not written is an extraction error); out = the
//     trailing stores `P[i] = int32(e)` / `P[i] = byte(e)` to the first parameter P.
//     Before the stores no element of a pointer parameter is assigned (feToBytes: its only
//     fieldElement parameter h is the limb vector itself), so overlapping arguments
//     cannot change the result.
//   - the element-wise loops feZero, feOne, feAdd, feSub, feCopy, feNeg (`for i := range …`):
//     the loop body as one expression over a[i], b[i]; feCMove: its three statements as Lean
//     functions on Int (`and32`, `xor32` of Model/FeProg.lean).
//   - feInvert, fePow22523: the list of feSquare/feMul calls with the `for` loops.
//   - load3/load4: their statements, pinned to the hand model of Model/Ed25519Scalar.lean.
//
// Anything outside this grammar is an extraction error: the Gen file then does not compile.
package ed25519fe

import (
	"fmt"
	"go/ast"
	"go/token"
	"path/filepath"
	"strconv"
	"strings"

	"verifharness/extract/ex"
)

func init() {
	ex.Register(&ex.Extractor{Name: "Ed25519Fe", Run: run})
}

type val struct {
	data string // Expr syntax
	fn   string // Lean Int term
	typ  string // "i32", "i64", "const"
}

type tr struct {
	fset    *token.FileSet
	name    string
	ptypes  map[string]string // parameter → "fe" | "bytes" | "i32"
	vars    map[string]int    // current numbering (data)
	types   map[string]string // variable → i32 | i64
	raws    [][3]int
	rawOK   bool
	readLog []string // variables read (for the carry check)
	err     error
}

func (t *tr) fail(n ast.Node, f string, a ...interface{}) val {
	if t.err == nil {
		t.err = fmt.Errorf("%s: %s: %s", t.name, t.fset.Position(n.Pos()), fmt.Sprintf(f, a...))
	}
	return val{"UNTRANSLATABLE", "UNTRANSLATABLE", "const"}
}

func litNat(e ast.Expr) (uint64, bool) {
	if p, ok := e.(*ast.ParenExpr); ok {
		return litNat(p.X)
	}
	b, ok := e.(*ast.BasicLit)
	if !ok || b.Kind != token.INT {
		return 0, false
	}
	n, err := strconv.ParseUint(b.Value, 0, 64)
	return n, err == nil
}

// name of a variable: ident, carry[k], or P[k] for a fieldElement parameter P → "P_k"
func (t *tr) lname(e ast.Expr) (string, bool) {
	switch x := e.(type) {
	case *ast.ParenExpr:
		return t.lname(x.X)
	case *ast.Ident:
		return x.Name, true
	case *ast.IndexExpr:
		id, ok := x.X.(*ast.Ident)
		if !ok {
			return "", false
		}
		n, ok := litNat(x.Index)
		if !ok {
			return "", false
		}
		if id.Name == "carry" {
			return "carry" + strconv.FormatUint(n, 10), true
		}
		if t.ptypes[id.Name] == "fe" {
			return id.Name + "_" + strconv.FormatUint(n, 10), true
		}
	}
	return "", false
}

func (t *tr) varRef(n ast.Node, name string) val {
	i, ok := t.vars[name]
	if !ok {
		return t.fail(n, "variable %s is not defined here", name)
	}
	t.readLog = append(t.readLog, name)
	return val{fmt.Sprintf("(.v %d)", i), name, t.types[name]}
}

func join(a, b string) (string, bool) {
	if a == "const" {
		return b, true
	}
	if b == "const" || a == b {
		return a, true
	}
	return "", false
}

func wrap32(v val) val {
	if v.typ == "i32" {
		return val{"(n32 " + v.data + ")", "(n32v " + v.fn + ")", "i32"}
	}
	return v
}

func (t *tr) expr(e ast.Expr) val {
	switch x := e.(type) {
	case *ast.ParenExpr:
		return t.expr(x.X)
	case *ast.BasicLit:
		if n, ok := litNat(x); ok {
			return val{fmt.Sprintf("(.c %d)", n), fmt.Sprintf("(%d : Int)", n), "const"}
		}
		return t.fail(e, "literal %s", x.Value)
	case *ast.Ident, *ast.IndexExpr:
		if n, ok := t.lname(e); ok {
			return t.varRef(e, n)
		}
		return t.fail(e, "operand")
	case *ast.UnaryExpr:
		if x.Op != token.SUB {
			return t.fail(e, "unary %s", x.Op)
		}
		a := t.expr(x.X)
		return wrap32(val{"(.sub (.c 0) " + a.data + ")", "((0 : Int) - " + a.fn + ")", a.typ})
	case *ast.BinaryExpr:
		switch x.Op {
		case token.SHR, token.SHL:
			n, ok := litNat(x.Y)
			if !ok {
				return t.fail(e, "shift by a non-literal")
			}
			a := t.expr(x.X)
			if x.Op == token.SHR {
				return val{fmt.Sprintf("(.shr %s %d)", a.data, n), fmt.Sprintf("(shrI %s %d)", a.fn, n), a.typ}
			}
			return wrap32(val{fmt.Sprintf("(.shl %s %d)", a.data, n), fmt.Sprintf("(shl %s %d)", a.fn, n), a.typ})
		}
		a, b := t.expr(x.X), t.expr(x.Y)
		ty, ok := join(a.typ, b.typ)
		if !ok {
			return t.fail(e, "operands of %s have types %s and %s", x.Op, a.typ, b.typ)
		}
		switch x.Op {
		case token.ADD:
			return wrap32(val{"(.add " + a.data + " " + b.data + ")", "(" + a.fn + " + " + b.fn + ")", ty})
		case token.SUB:
			return wrap32(val{"(.sub " + a.data + " " + b.data + ")", "(" + a.fn + " - " + b.fn + ")", ty})
		case token.MUL:
			return wrap32(val{"(.mul " + a.data + " " + b.data + ")", "(" + a.fn + " * " + b.fn + ")", ty})
		case token.AND:
			return val{"(.band " + a.data + " " + b.data + ")", "(band " + a.fn + " " + b.fn + ")", ty}
		case token.OR:
			return val{"(.bor " + a.data + " " + b.data + ")", "(bor " + a.fn + " " + b.fn + ")", ty}
		}
		return t.fail(e, "operator %s", x.Op)
	case *ast.CallExpr:
		fn, ok := x.Fun.(*ast.Ident)
		if !ok || len(x.Args) != 1 {
			return t.fail(e, "call")
		}
		switch fn.Name {
		case "int64":
			a := t.expr(x.Args[0])
			if a.typ == "const" {
				return val{a.data, a.fn, "i64"}
			}
			if a.typ != "i32" && a.typ != "i64" {
				return t.fail(e, "int64 of %s", a.typ)
			}
			return val{a.data, a.fn, "i64"} // sign extension: same value
		case "int32":
			a := t.expr(x.Args[0])
			return val{"(n32 " + a.data + ")", "(n32v " + a.fn + ")", "i32"}
		case "load3", "load4":
			if !t.rawOK {
				return t.fail(e, "load outside the definitions")
			}
			sle, ok := x.Args[0].(*ast.SliceExpr)
			if !ok || sle.High != nil || sle.Max != nil {
				return t.fail(e, "load argument")
			}
			arr, ok := sle.X.(*ast.Ident)
			if !ok || t.ptypes[arr.Name] != "bytes" {
				return t.fail(e, "load from a non-parameter")
			}
			off := uint64(0)
			if sle.Low != nil {
				if off, ok = litNat(sle.Low); !ok {
					return t.fail(e, "slice offset")
				}
			}
			kind := 3
			if fn.Name == "load4" {
				kind = 4
			}
			// raw loads are the inputs of the routine, in order of occurrence
			t.raws = append(t.raws, [3]int{kind, 0, int(off)})
			k := len(t.raws) - 1
			return val{fmt.Sprintf("(.v %d)", k), fmt.Sprintf("(x.getD %d 0)", k), "i64"}
		}
		return t.fail(e, "call of %s", fn.Name)
	}
	return t.fail(e, "expression %T", e)
}

type stmt struct {
	as    *ast.AssignStmt
	lhs   string
	store int // ≥ 0: P[store] = conv(e)
	line  int
}

func progLit(sts []string) string {
	if len(sts) == 0 {
		return "[]"
	}
	return "[" + strings.Join(sts, ",\n   ") + "]"
}

func trimParen(s string) string {
	return strings.TrimSuffix(strings.TrimPrefix(s, "("), ")")
}

// one assignment in the current environment: (data statement, function let)
func (t *tr) assign(s *stmt, define bool) (string, string) {
	as := s.as
	t.readLog = nil
	rhs := t.expr(as.Rhs[0])
	name := s.lhs
	if define {
		if _, dup := t.vars[name]; dup {
			t.fail(as, "%s defined twice", name)
		}
		if rhs.typ == "const" {
			t.fail(as, "untyped definition of %s", name)
		}
		t.vars[name] = len(t.vars)
		t.types[name] = rhs.typ
	}
	dst, ok := t.vars[name]
	if !ok {
		t.fail(as, "assignment to undefined %s", name)
		return "", ""
	}
	lt := t.types[name]
	cur := val{fmt.Sprintf("(.v %d)", dst), name, lt}
	var v val
	switch as.Tok {
	case token.DEFINE, token.ASSIGN:
		v = rhs
	case token.ADD_ASSIGN, token.SUB_ASSIGN:
		ty, ok := join(lt, rhs.typ)
		if !ok {
			t.fail(as, "%s %s: types %s and %s", name, as.Tok, lt, rhs.typ)
		}
		if as.Tok == token.ADD_ASSIGN {
			v = wrap32(val{"(.add " + cur.data + " " + rhs.data + ")", "(" + cur.fn + " + " + rhs.fn + ")", ty})
		} else {
			v = wrap32(val{"(.sub " + cur.data + " " + rhs.data + ")", "(" + cur.fn + " - " + rhs.fn + ")", ty})
		}
	default:
		t.fail(as, "assignment operator %s", as.Tok)
	}
	if v.typ != "const" && v.typ != lt {
		t.fail(as, "%s has type %s, assigned %s", name, lt, v.typ)
	}
	return fmt.Sprintf("⟨%d, %s⟩", dst, trimParen(v.data)), fmt.Sprintf("  let %s := %s\n", name, v.fn)
}

var limbNames = []string{"h0", "h1", "h2", "h3", "h4", "h5", "h6", "h7", "h8", "h9"}

func l10(names []string) string { return "⟨" + strings.Join(names, ", ") + "⟩" }

func translate(fset *token.FileSet, fd *ast.FuncDecl) (string, error) {
	name := fd.Name.Name
	t := &tr{fset: fset, name: name, ptypes: map[string]string{}, vars: map[string]int{}, types: map[string]string{}}
	var params []string
	for _, fl := range fd.Type.Params.List {
		ty := ""
		switch x := fl.Type.(type) {
		case *ast.StarExpr:
			if id, ok := x.X.(*ast.Ident); ok && id.Name == "fieldElement" {
				ty = "fe"
			} else if at, ok := x.X.(*ast.ArrayType); ok {
				if id, ok := at.Elt.(*ast.Ident); ok && id.Name == "byte" {
					ty = "bytes"
				}
			}
		case *ast.ArrayType:
			if id, ok := x.Elt.(*ast.Ident); ok && id.Name == "byte" && x.Len == nil {
				ty = "bytes"
			}
		}
		if ty == "" {
			return "", fmt.Errorf("%s: parameter type", name)
		}
		for _, n := range fl.Names {
			params = append(params, n.Name)
			t.ptypes[n.Name] = ty
		}
	}
	outP := params[0]
	// inputs: the limbs of every fieldElement parameter other than the output parameter, in parameter order
	var feIn []string
	for _, p := range params {
		if t.ptypes[p] == "fe" && p != outP {
			feIn = append(feIn, p)
		}
	}
	nCarry, carryTy := -1, ""
	var sts []*stmt
	for _, s := range fd.Body.List {
		as, ok := s.(*ast.AssignStmt)
		if !ok {
			if ds, ok := s.(*ast.DeclStmt); ok {
				if gd, ok := ds.Decl.(*ast.GenDecl); ok && gd.Tok == token.VAR && len(gd.Specs) == 1 {
					vs := gd.Specs[0].(*ast.ValueSpec)
					if at, ok := vs.Type.(*ast.ArrayType); ok && len(vs.Names) == 1 && vs.Names[0].Name == "carry" && len(vs.Values) == 0 {
						if n, ok := litNat(at.Len); ok {
							if id, ok := at.Elt.(*ast.Ident); ok && (id.Name == "int64" || id.Name == "int32") {
								nCarry, carryTy = int(n), "i"+id.Name[3:]
								continue
							}
						}
					}
				}
			}
			return "", fmt.Errorf("%s: %s: statement %T", name, fset.Position(s.Pos()), s)
		}
		if len(as.Lhs) != 1 || len(as.Rhs) != 1 {
			return "", fmt.Errorf("%s: %s: multi-assignment", name, fset.Position(s.Pos()))
		}
		rs := &stmt{as: as, store: -1, line: fset.Position(s.Pos()).Line}
		if ix, ok := as.Lhs[0].(*ast.IndexExpr); ok {
			if id, ok := ix.X.(*ast.Ident); ok && id.Name == outP && as.Tok == token.ASSIGN {
				n, ok := litNat(ix.Index)
				if !ok {
					return "", fmt.Errorf("%s: line %d: store index", name, rs.line)
				}
				rs.store = int(n)
				sts = append(sts, rs)
				continue
			}
		}
		n, ok := t.lname(as.Lhs[0])
		if !ok {
			return "", fmt.Errorf("%s: line %d: assignment target", name, rs.line)
		}
		rs.lhs = n
		sts = append(sts, rs)
	}
	if nCarry < 0 {
		return "", fmt.Errorf("%s: `var carry [n]intNN` not found", name)
	}

	// ---- init: inputs, then every statement before the first assignment to carry[…]
	var inNames []string
	for _, p := range feIn {
		for k := 0; k < 10; k++ {
			n := fmt.Sprintf("%s_%d", p, k)
			t.vars[n] = len(t.vars)
			t.types[n] = "i32"
			inNames = append(inNames, n)
		}
	}
	// raw loads (feFromBytes) are numbered first: count them
	nRaw := 0
	if len(feIn) == 0 {
		for _, rs := range sts {
			ast.Inspect(rs.as.Rhs[0], func(n ast.Node) bool {
				if c, ok := n.(*ast.CallExpr); ok {
					if id, ok := c.Fun.(*ast.Ident); ok && (id.Name == "load3" || id.Name == "load4") {
						nRaw++
					}
				}
				return true
			})
		}
		for k := 0; k < nRaw; k++ {
			n := fmt.Sprintf("raw%d", k)
			t.vars[n] = len(t.vars)
			t.types[n] = "i64"
			inNames = append(inNames, n)
		}
	}
	nIn := len(t.vars)
	t.rawOK = true
	i := 0
	var initData []string
	var initFn strings.Builder
	for i < len(sts) && sts[i].store < 0 && !strings.HasPrefix(sts[i].lhs, "carry") {
		rs := sts[i]
		for _, p := range params { // no parameter element is assigned, except the limb vector of feToBytes
			if strings.HasPrefix(rs.lhs, p+"_") && !(name == "feToBytes" && p == feIn[0]) {
				return "", fmt.Errorf("%s: line %d: assignment to an element of parameter %s", name, rs.line, p)
			}
		}
		d, f := t.assign(rs, rs.as.Tok == token.DEFINE)
		if t.err != nil {
			return "", t.err
		}
		initData = append(initData, d)
		initFn.WriteString(f)
		i++
	}
	t.rawOK = false
	if len(t.raws) != nRaw {
		return "", fmt.Errorf("%s: raw load count mismatch", name)
	}
	nLoc := len(t.vars) - nIn
	// the ten limbs
	var limbVars []string
	if _, ok := t.vars["h0"]; ok {
		limbVars = limbNames
	} else {
		for k := 0; k < 10; k++ {
			limbVars = append(limbVars, fmt.Sprintf("%s_%d", feIn[0], k))
		}
	}
	var limbIdx []string
	limbTy := ""
	for _, l := range limbVars {
		idx, ok := t.vars[l]
		if !ok {
			return "", fmt.Errorf("%s: limb %s is not defined before the carry phase", name, l)
		}
		limbIdx = append(limbIdx, strconv.Itoa(idx))
		if limbTy != "" && limbTy != t.types[l] {
			return "", fmt.Errorf("%s: limbs of different types", name)
		}
		limbTy = t.types[l]
	}
	if limbTy != carryTy {
		return "", fmt.Errorf("%s: limbs are %s, carries %s", name, limbTy, carryTy)
	}

	// ---- blocks
	t.vars = map[string]int{}
	t.types = map[string]string{}
	for k, l := range limbVars {
		t.vars[l] = k
		t.types[l] = limbTy
	}
	for k := 0; k < nCarry; k++ {
		t.vars["carry"+strconv.Itoa(k)] = 10 + k
		t.types["carry"+strconv.Itoa(k)] = carryTy
	}
	var blocksData [][]string
	var blocksFn []string
	var blockLines [][2]int
	prevLine := -1
	written := map[string]bool{}
	for i < len(sts) && sts[i].store < 0 {
		rs := sts[i]
		if rs.as.Tok == token.DEFINE {
			return "", fmt.Errorf("%s: line %d: definition in the carry phase", name, rs.line)
		}
		if _, ok := t.vars[rs.lhs]; !ok {
			return "", fmt.Errorf("%s: line %d: assignment to %s in the carry phase", name, rs.line, rs.lhs)
		}
		if len(blocksData) == 0 || rs.line > prevLine+1 {
			blocksData = append(blocksData, nil)
			blocksFn = append(blocksFn, "")
			blockLines = append(blockLines, [2]int{rs.line, rs.line})
			written = map[string]bool{}
		}
		d, f := t.assign(rs, false)
		if t.err != nil {
			return "", t.err
		}
		for _, r := range t.readLog {
			if strings.HasPrefix(r, "carry") && !written[r] {
				return "", fmt.Errorf("%s: line %d: %s is read before it is written in its block", name, rs.line, r)
			}
		}
		if rs.as.Tok != token.ASSIGN && strings.HasPrefix(rs.lhs, "carry") && !written[rs.lhs] {
			return "", fmt.Errorf("%s: line %d: %s is read before it is written in its block", name, rs.line, rs.lhs)
		}
		written[rs.lhs] = true
		k := len(blocksData) - 1
		blocksData[k] = append(blocksData[k], d)
		blocksFn[k] += f
		blockLines[k][1] = rs.line
		prevLine = rs.line
		i++
	}

	// ---- stores
	t.vars = map[string]int{}
	t.types = map[string]string{}
	for k, l := range limbVars {
		t.vars[l] = k
		t.types[l] = limbTy
	}
	var outData, outFn []string
	conv := ""
	for i < len(sts) {
		rs := sts[i]
		if rs.store != len(outData) {
			return "", fmt.Errorf("%s: line %d: stores are not P[0], P[1], … in order", name, rs.line)
		}
		call, ok := rs.as.Rhs[0].(*ast.CallExpr)
		if !ok || len(call.Args) != 1 {
			return "", fmt.Errorf("%s: line %d: store of an unconverted value", name, rs.line)
		}
		id, ok := call.Fun.(*ast.Ident)
		if !ok || (id.Name != "int32" && id.Name != "byte") || (conv != "" && conv != id.Name) {
			return "", fmt.Errorf("%s: line %d: store conversion", name, rs.line)
		}
		conv = id.Name
		var v val
		if conv == "int32" {
			v = t.expr(rs.as.Rhs[0])
		} else {
			v = t.expr(call.Args[0])
		}
		if t.err != nil {
			return "", t.err
		}
		outData = append(outData, trimParen(v.data))
		outFn = append(outFn, v.fn)
		i++
	}
	want := 10
	if conv == "byte" {
		want = 32
	}
	if len(outData) != want {
		return "", fmt.Errorf("%s: %d stores, expected %d", name, len(outData), want)
	}

	// ---- emit
	var b strings.Builder
	var raws []string
	for _, r := range t.raws {
		raws = append(raws, fmt.Sprintf("(%d, %d, %d)", r[0], r[1], r[2]))
	}
	fmt.Fprintf(&b, "/-! ### %s -/\n\n", name)
	fmt.Fprintf(&b, "/-- %s: statements before the carry phase; environment = %d inputs (%s) ++ %d defined variables -/\n", name, nIn, strings.Join(inNames, " "), nLoc)
	fmt.Fprintf(&b, "def %s_pinit : Prog :=\n  %s\n", name, progLit(initData))
	var bnames, fnames []string
	for k, blk := range blocksData {
		bn := fmt.Sprintf("%s_p%d", name, k+1)
		bnames = append(bnames, bn)
		fmt.Fprintf(&b, "/-- %s lines %d–%d -/\ndef %s : Prog :=\n  %s\n", name, blockLines[k][0], blockLines[k][1], bn, progLit(blk))
	}
	fmt.Fprintf(&b, "def %s_pout : List Expr :=\n  [%s]\n", name, strings.Join(outData, ",\n   "))
	fmt.Fprintf(&b, "def %s_prog : FeProg :=\n  { nIn := %d, raw := [%s], nLoc := %d, init := %s_pinit, limbs := [%s], nCarry := %d,\n    blocks := [%s], out := %s_pout }\n\n",
		name, nIn, strings.Join(raws, ", "), nLoc, name, strings.Join(limbIdx, ", "), nCarry, strings.Join(bnames, ", "), name)
	// functions
	fmt.Fprintf(&b, "def %s_init (x : List Int) : L10 :=\n", name)
	for k, n := range inNames {
		if !strings.HasPrefix(n, "raw") {
			fmt.Fprintf(&b, "  let %s := x.getD %d 0\n", n, k)
		}
	}
	b.WriteString(initFn.String())
	fmt.Fprintf(&b, "  %s\n", l10(limbVars))
	for k := range blocksData {
		fn := fmt.Sprintf("%s_b%d", name, k+1)
		fnames = append(fnames, fn)
		fmt.Fprintf(&b, "/-- %s lines %d–%d -/\ndef %s (st : L10) : L10 :=\n", name, blockLines[k][0], blockLines[k][1], fn)
		for j, l := range limbVars {
			fmt.Fprintf(&b, "  let %s := st.h%d\n", l, j)
		}
		b.WriteString(blocksFn[k])
		fmt.Fprintf(&b, "  %s\n", l10(limbVars))
	}
	fmt.Fprintf(&b, "def %s_blocks : List (L10 → L10) :=\n  [%s]\n", name, strings.Join(fnames, ", "))
	fmt.Fprintf(&b, "def %s_out (st : L10) : List Int :=\n", name)
	for j, l := range limbVars {
		fmt.Fprintf(&b, "  let %s := st.h%d\n", l, j)
	}
	fmt.Fprintf(&b, "  [%s]\n\n", strings.Join(outFn, ",\n   "))
	return b.String(), t.err
}

// ---- element-wise loops -------------------------------------------------------------

// for i := range X { X[i] = e }   with e over P[i]
func loopBody(fset *token.FileSet, name string, params []string, s ast.Stmt) (dst string, data, fn string, err error) {
	rs, ok := s.(*ast.RangeStmt)
	if !ok || rs.Tok != token.DEFINE || rs.Value != nil || len(rs.Body.List) != 1 {
		return "", "", "", fmt.Errorf("%s: %s: not a one-statement range loop", name, fset.Position(s.Pos()))
	}
	iv, ok := rs.Key.(*ast.Ident)
	if !ok {
		return "", "", "", fmt.Errorf("%s: loop variable", name)
	}
	as, ok := rs.Body.List[0].(*ast.AssignStmt)
	if !ok || as.Tok != token.ASSIGN || len(as.Lhs) != 1 {
		return "", "", "", fmt.Errorf("%s: loop body", name)
	}
	elem := func(e ast.Expr) (string, bool) {
		ix, ok := e.(*ast.IndexExpr)
		if !ok {
			return "", false
		}
		a, ok1 := ix.X.(*ast.Ident)
		i, ok2 := ix.Index.(*ast.Ident)
		if !ok1 || !ok2 || i.Name != iv.Name {
			return "", false
		}
		return a.Name, true
	}
	dst, ok = elem(as.Lhs[0])
	if !ok {
		return "", "", "", fmt.Errorf("%s: loop target", name)
	}
	if rx, ok := rs.X.(*ast.Ident); !ok || rx.Name != dst {
		return "", "", "", fmt.Errorf("%s: the loop does not range over its target", name)
	}
	pos := map[string]int{}
	k := 0
	for _, p := range params {
		if p != params[0] {
			pos[p] = k
			k++
		}
	}
	var tr func(e ast.Expr) (string, string, error)
	tr = func(e ast.Expr) (string, string, error) {
		switch x := e.(type) {
		case *ast.ParenExpr:
			return tr(x.X)
		case *ast.BasicLit:
			if n, ok := litNat(x); ok {
				return fmt.Sprintf("(.c %d)", n), fmt.Sprintf("(%d : Int)", n), nil
			}
		case *ast.IndexExpr:
			if a, ok := elem(x); ok {
				if j, ok := pos[a]; ok {
					return fmt.Sprintf("(.v %d)", j), fmt.Sprintf("x%d", j), nil
				}
			}
		case *ast.UnaryExpr:
			if x.Op == token.SUB {
				d, f, err := tr(x.X)
				return "(n32 (.sub (.c 0) " + d + "))", "(n32v ((0 : Int) - " + f + "))", err
			}
		case *ast.BinaryExpr:
			d1, f1, e1 := tr(x.X)
			d2, f2, e2 := tr(x.Y)
			if e1 != nil {
				return "", "", e1
			}
			if e2 != nil {
				return "", "", e2
			}
			switch x.Op {
			case token.ADD:
				return "(n32 (.add " + d1 + " " + d2 + "))", "(n32v (" + f1 + " + " + f2 + "))", nil
			case token.SUB:
				return "(n32 (.sub " + d1 + " " + d2 + "))", "(n32v (" + f1 + " - " + f2 + "))", nil
			}
		}
		return "", "", fmt.Errorf("%s: %s: loop expression", name, fset.Position(e.Pos()))
	}
	data, fn, err = tr(as.Rhs[0])
	return dst, data, fn, err
}

func paramNames(fd *ast.FuncDecl) []string {
	var ps []string
	for _, fl := range fd.Type.Params.List {
		for _, n := range fl.Names {
			ps = append(ps, n.Name)
		}
	}
	return ps
}

func translateMap(fset *token.FileSet, fd *ast.FuncDecl) (string, error) {
	name := fd.Name.Name
	ps := paramNames(fd)
	var b strings.Builder
	switch name {
	case "feOne": // feZero(fe); fe[0] = 1
		if len(fd.Body.List) != 2 {
			return "", fmt.Errorf("feOne: body")
		}
		es, ok := fd.Body.List[0].(*ast.ExprStmt)
		if !ok {
			return "", fmt.Errorf("feOne: first statement")
		}
		c, ok := es.X.(*ast.CallExpr)
		if !ok || len(c.Args) != 1 {
			return "", fmt.Errorf("feOne: first statement")
		}
		if id, ok := c.Fun.(*ast.Ident); !ok || id.Name != "feZero" {
			return "", fmt.Errorf("feOne: does not start with feZero")
		}
		if a, ok := c.Args[0].(*ast.Ident); !ok || a.Name != ps[0] {
			return "", fmt.Errorf("feOne: feZero argument")
		}
		as, ok := fd.Body.List[1].(*ast.AssignStmt)
		if !ok || as.Tok != token.ASSIGN {
			return "", fmt.Errorf("feOne: second statement")
		}
		ix, ok := as.Lhs[0].(*ast.IndexExpr)
		if !ok {
			return "", fmt.Errorf("feOne: second statement")
		}
		k, ok1 := litNat(ix.Index)
		v, ok2 := litNat(as.Rhs[0])
		if a, ok := ix.X.(*ast.Ident); !ok || a.Name != ps[0] || !ok1 || !ok2 {
			return "", fmt.Errorf("feOne: second statement")
		}
		fmt.Fprintf(&b, "/-- feOne: feZero, then fe[%d] = %d -/\ndef feOne_set : Nat × Int := (%d, %d)\n\n", k, v, k, v)
		return b.String(), nil
	}
	if len(fd.Body.List) != 1 {
		return "", fmt.Errorf("%s: body is not one loop", name)
	}
	dst, data, fn, err := loopBody(fset, name, ps, fd.Body.List[0])
	if err != nil {
		return "", err
	}
	if dst != ps[0] {
		return "", fmt.Errorf("%s: the loop does not write the first parameter", name)
	}
	fmt.Fprintf(&b, "/-- %s: the loop body `%s[i] = …` over (%s)[i] -/\n", name, dst, strings.Join(ps[1:], ", "))
	fmt.Fprintf(&b, "def %s_map : FeMap := { arity := %d, body := %s }\n", name, len(ps)-1, trimParen(data))
	fmt.Fprintf(&b, "def %s_elem (x0 x1 : Int) : Int := %s\n\n", name, fn)
	return b.String(), nil
}

// feCMove: x[i] = b & (f[i] ^ g[i]) ; f[i] ^= x[i], after b = -b — as a Lean function on Int
func translateCMove(fset *token.FileSet, fd *ast.FuncDecl) (string, error) {
	ps := paramNames(fd)
	if len(ps) != 3 || len(fd.Body.List) != 4 {
		return "", fmt.Errorf("feCMove: shape")
	}
	f, g, bb := ps[0], ps[1], ps[2]
	var tr func(e ast.Expr, iv string) (string, error)
	tr = func(e ast.Expr, iv string) (string, error) {
		switch x := e.(type) {
		case *ast.ParenExpr:
			return tr(x.X, iv)
		case *ast.Ident:
			if x.Name == bb {
				return "b", nil
			}
		case *ast.UnaryExpr:
			if x.Op == token.SUB {
				s, err := tr(x.X, iv)
				return "(-" + s + ")", err
			}
		case *ast.IndexExpr:
			a, ok1 := x.X.(*ast.Ident)
			i, ok2 := x.Index.(*ast.Ident)
			if ok1 && ok2 && i.Name == iv {
				switch a.Name {
				case f:
					return "f", nil
				case g:
					return "g", nil
				case "x":
					return "x", nil
				}
			}
		case *ast.BinaryExpr:
			l, e1 := tr(x.X, iv)
			r, e2 := tr(x.Y, iv)
			if e1 != nil {
				return "", e1
			}
			if e2 != nil {
				return "", e2
			}
			switch x.Op {
			case token.AND:
				return "(and32 " + l + " " + r + ")", nil
			case token.XOR:
				return "(xor32 " + l + " " + r + ")", nil
			}
		}
		return "", fmt.Errorf("feCMove: %s: expression", fset.Position(e.Pos()))
	}
	// var x fieldElement
	if _, ok := fd.Body.List[0].(*ast.DeclStmt); !ok {
		return "", fmt.Errorf("feCMove: first statement")
	}
	as, ok := fd.Body.List[1].(*ast.AssignStmt)
	if !ok || as.Tok != token.ASSIGN {
		return "", fmt.Errorf("feCMove: second statement")
	}
	if id, ok := as.Lhs[0].(*ast.Ident); !ok || id.Name != bb {
		return "", fmt.Errorf("feCMove: second statement")
	}
	s1, err := tr(as.Rhs[0], "")
	if err != nil {
		return "", err
	}
	loop := func(s ast.Stmt, target string) (string, token.Token, error) {
		rs, ok := s.(*ast.RangeStmt)
		if !ok || rs.Value != nil || len(rs.Body.List) != 1 {
			return "", 0, fmt.Errorf("feCMove: loop")
		}
		iv := rs.Key.(*ast.Ident).Name
		as, ok := rs.Body.List[0].(*ast.AssignStmt)
		if !ok {
			return "", 0, fmt.Errorf("feCMove: loop body")
		}
		ix, ok := as.Lhs[0].(*ast.IndexExpr)
		if !ok {
			return "", 0, fmt.Errorf("feCMove: loop target")
		}
		if a, ok := ix.X.(*ast.Ident); !ok || a.Name != target {
			return "", 0, fmt.Errorf("feCMove: loop target")
		}
		if i, ok := ix.Index.(*ast.Ident); !ok || i.Name != iv {
			return "", 0, fmt.Errorf("feCMove: loop index")
		}
		r, err := tr(as.Rhs[0], iv)
		return r, as.Tok, err
	}
	s2, tok2, err := loop(fd.Body.List[2], "x")
	if err != nil || tok2 != token.ASSIGN {
		return "", fmt.Errorf("feCMove: first loop: %v", err)
	}
	s3, tok3, err := loop(fd.Body.List[3], f)
	if err != nil || tok3 != token.XOR_ASSIGN {
		return "", fmt.Errorf("feCMove: second loop: %v", err)
	}
	var b strings.Builder
	fmt.Fprintf(&b, "/-- feCMove on one limb: `b = -b`; `x[i] = …`; `f[i] ^= …` (`and32`, `xor32`: Go's & and ^ on int32, Model/FeProg.lean) -/\n")
	fmt.Fprintf(&b, "def feCMove_elem (f g b : Int) : Int :=\n  let b := %s\n  let x := %s\n  let f := xor32 f %s\n  f\n\n", s1, s2, s3)
	return b.String(), nil
}

// ---- chains ----------------------------------------------------------------------------

func translateChain(fset *token.FileSet, fd *ast.FuncDecl) (string, error) {
	name := fd.Name.Name
	ps := paramNames(fd)
	regs := map[string]int{ps[0]: 0, ps[1]: 1}
	var regNames = []string{ps[0], ps[1]}
	var ops []string
	arg := func(e ast.Expr) (int, error) {
		if u, ok := e.(*ast.UnaryExpr); ok && u.Op == token.AND {
			e = u.X
		}
		id, ok := e.(*ast.Ident)
		if !ok {
			return 0, fmt.Errorf("%s: %s: argument", name, fset.Position(e.Pos()))
		}
		r, ok := regs[id.Name]
		if !ok {
			return 0, fmt.Errorf("%s: unknown register %s", name, id.Name)
		}
		return r, nil
	}
	call := func(s ast.Stmt) (string, []int, error) {
		es, ok := s.(*ast.ExprStmt)
		if !ok {
			return "", nil, fmt.Errorf("%s: %s: statement %T", name, fset.Position(s.Pos()), s)
		}
		c, ok := es.X.(*ast.CallExpr)
		if !ok {
			return "", nil, fmt.Errorf("%s: statement", name)
		}
		id, ok := c.Fun.(*ast.Ident)
		if !ok {
			return "", nil, fmt.Errorf("%s: call", name)
		}
		var as []int
		for _, a := range c.Args {
			r, err := arg(a)
			if err != nil {
				return "", nil, err
			}
			as = append(as, r)
		}
		return id.Name, as, nil
	}
	for _, s := range fd.Body.List {
		switch x := s.(type) {
		case *ast.DeclStmt:
			gd := x.Decl.(*ast.GenDecl)
			for _, sp := range gd.Specs {
				vs := sp.(*ast.ValueSpec)
				id, _ := vs.Type.(*ast.Ident)
				if id != nil && id.Name == "fieldElement" {
					for _, n := range vs.Names {
						regs[n.Name] = len(regNames)
						regNames = append(regNames, n.Name)
					}
				} else if id == nil || id.Name != "int" {
					return "", fmt.Errorf("%s: declaration", name)
				}
			}
		case *ast.ExprStmt:
			f, as, err := call(s)
			if err != nil {
				return "", err
			}
			switch {
			case f == "feSquare" && len(as) == 2:
				ops = append(ops, fmt.Sprintf(".sq %d %d", as[0], as[1]))
			case f == "feMul" && len(as) == 3:
				ops = append(ops, fmt.Sprintf(".mul %d %d %d", as[0], as[1], as[2]))
			default:
				return "", fmt.Errorf("%s: call of %s", name, f)
			}
		case *ast.ForStmt: // for i = lo; i < hi; i++ { feSquare(&t, &t) }
			init, ok1 := x.Init.(*ast.AssignStmt)
			cond, ok2 := x.Cond.(*ast.BinaryExpr)
			post, ok3 := x.Post.(*ast.IncDecStmt)
			if !ok1 || !ok2 || !ok3 || init.Tok != token.ASSIGN || cond.Op != token.LSS || post.Tok != token.INC || len(x.Body.List) != 1 {
				return "", fmt.Errorf("%s: %s: loop shape", name, fset.Position(s.Pos()))
			}
			iv, ok := init.Lhs[0].(*ast.Ident)
			c1, ok4 := cond.X.(*ast.Ident)
			p1, ok5 := post.X.(*ast.Ident)
			if !ok || !ok4 || !ok5 || c1.Name != iv.Name || p1.Name != iv.Name {
				return "", fmt.Errorf("%s: loop variable", name)
			}
			lo, oka := litNat(init.Rhs[0])
			hi, okb := litNat(cond.Y)
			if !oka || !okb {
				return "", fmt.Errorf("%s: loop bounds", name)
			}
			f, as, err := call(x.Body.List[0])
			if err != nil {
				return "", err
			}
			if f != "feSquare" || len(as) != 2 {
				return "", fmt.Errorf("%s: loop body is not feSquare", name)
			}
			n := uint64(0)
			if hi > lo {
				n = hi - lo
			}
			ops = append(ops, fmt.Sprintf(".sqLoop %d %d %d", n, as[0], as[1]))
		default:
			return "", fmt.Errorf("%s: %s: statement %T", name, fset.Position(s.Pos()), s)
		}
	}
	var b strings.Builder
	fmt.Fprintf(&b, "/-- %s: registers %s -/\n", name, strings.Join(regNames, ", "))
	fmt.Fprintf(&b, "def %s_nregs : Nat := %d\n", name, len(regNames))
	fmt.Fprintf(&b, "def %s_chain : List ChainOp :=\n  [%s]\n\n", name, strings.Join(ops, ",\n   "))
	return b.String(), nil
}

// load3/load4: `r := int64(in[0])`, `r |= int64(in[k]) << 8k`, `return r`
func translateLoad(fset *token.FileSet, fd *ast.FuncDecl) (string, error) {
	name := fd.Name.Name
	var shifts []string
	for k, s := range fd.Body.List {
		if k == len(fd.Body.List)-1 {
			if _, ok := s.(*ast.ReturnStmt); !ok {
				return "", fmt.Errorf("%s: last statement", name)
			}
			break
		}
		as, ok := s.(*ast.AssignStmt)
		if !ok || (k == 0) != (as.Tok == token.DEFINE) || (k > 0 && as.Tok != token.OR_ASSIGN) {
			return "", fmt.Errorf("%s: statement %d", name, k)
		}
		e := as.Rhs[0]
		sh := uint64(0)
		if be, ok := e.(*ast.BinaryExpr); ok && be.Op == token.SHL {
			n, ok := litNat(be.Y)
			if !ok {
				return "", fmt.Errorf("%s: shift", name)
			}
			sh, e = n, be.X
		}
		c, ok := e.(*ast.CallExpr)
		if !ok || len(c.Args) != 1 {
			return "", fmt.Errorf("%s: operand", name)
		}
		if id, ok := c.Fun.(*ast.Ident); !ok || id.Name != "int64" {
			return "", fmt.Errorf("%s: conversion", name)
		}
		ix, ok := c.Args[0].(*ast.IndexExpr)
		if !ok {
			return "", fmt.Errorf("%s: index", name)
		}
		n, ok := litNat(ix.Index)
		if !ok || int(n) != k {
			return "", fmt.Errorf("%s: byte %d expected", name, k)
		}
		shifts = append(shifts, strconv.FormatUint(sh, 10))
	}
	return fmt.Sprintf("/-- %s: byte k is OR-ed in shifted left by the k-th entry -/\ndef %s_shifts : List Nat := [%s]\n\n", name, name, strings.Join(shifts, ", ")), nil
}

func run(repo string) (string, error) {
	dir := filepath.Join(repo, "group", "edwards25519")
	fset, f, err := ex.Parse(filepath.Join(dir, "fe.go"))
	if err != nil {
		return "", err
	}
	s := ex.Header("Ed25519Fe", "group/edwards25519/fe.go")
	s += "import DosModel.Model.FeProg\nset_option linter.unusedVariables false\nnamespace Dos.Gen.Ed25519Fe\nopen Dos Dos.Ed25519 Dos.IntervalProg Dos.FeProg\n\n"
	get := func(fn string) (*ast.FuncDecl, error) {
		fd := ex.FuncDecl(f, "", fn)
		if fd == nil {
			return nil, fmt.Errorf("fe.go: func %s not found", fn)
		}
		return fd, nil
	}
	type step struct {
		names []string
		f     func(*token.FileSet, *ast.FuncDecl) (string, error)
	}
	steps := []step{
		{[]string{"load3", "load4"}, translateLoad},
		{[]string{"feZero", "feOne", "feAdd", "feSub", "feCopy", "feNeg"}, translateMap},
		{[]string{"feCMove"}, translateCMove},
		{[]string{"feMul", "feSquare", "feSquare2", "feFromBytes", "feToBytes"}, translate},
		{[]string{"feInvert", "fePow22523"}, translateChain},
	}
	for _, st := range steps {
		for _, fn := range st.names {
			fd, err := get(fn)
			if err != nil {
				return "", err
			}
			body, err := st.f(fset, fd)
			if err != nil {
				return "", err
			}
			s += body
		}
	}
	// feIsNegative / feIsNonZero are small byte routines over feToBytes: pinned as source text
	for _, fn := range []string{"feIsNegative", "feIsNonZero"} {
		fd, err := get(fn)
		if err != nil {
			return "", err
		}
		var lines []string
		for _, st := range fd.Body.List {
			lines = append(lines, ex.LeanStr(nodeText(fset, st)))
		}
		s += fmt.Sprintf("/-- %s: its statements, as source text -/\ndef %s_src : List String :=\n  [%s]\n\n", fn, fn, strings.Join(lines, ",\n   "))
	}
	s += "end Dos.Gen.Ed25519Fe\n"
	return s, nil
}

func nodeText(fset *token.FileSet, n ast.Node) string {
	var parts []string
	ast.Inspect(n, func(m ast.Node) bool {
		switch x := m.(type) {
		case *ast.Ident:
			parts = append(parts, x.Name)
		case *ast.BasicLit:
			parts = append(parts, x.Value)
		case *ast.BinaryExpr:
			parts = append(parts, x.Op.String())
		case *ast.UnaryExpr:
			parts = append(parts, "u"+x.Op.String())
		case *ast.AssignStmt:
			parts = append(parts, x.Tok.String())
		case *ast.RangeStmt:
			parts = append(parts, "range")
		case *ast.ReturnStmt:
			parts = append(parts, "return")
		case *ast.CallExpr:
			parts = append(parts, "call")
		case *ast.IndexExpr:
			parts = append(parts, "index")
		}
		return true
	})
	return strings.Join(parts, " ")
}

package c12

import (
	"bytes"
	"crypto/aes"
	"crypto/cipher"
	"encoding/binary"
	"fmt"
	"strings"

	"github.com/DOSNetwork/core/p2p"
	"github.com/DOSNetwork/core/share"
	dkg "github.com/DOSNetwork/core/share/dkg/pedersen"
	vss "github.com/DOSNetwork/core/share/vss/pedersen"
	"github.com/DOSNetwork/core/sign/tbls"
	"github.com/dedis/kyber"
	"github.com/dedis/protobuf"
	"github.com/golang/protobuf/proto"
	"github.com/golang/protobuf/ptypes"

	"verifharness/internal/h"
)

func pick(r *h.Rng, xs ...string) string { return xs[r.Intn(len(xs))] }

// mutate: bit flips, truncation, extension, splice of a valid encoding
func mutate(r *h.Rng, b []byte) []byte {
	c := append([]byte(nil), b...)
	switch r.Intn(6) {
	case 0:
		if len(c) > 0 {
			c[r.Intn(len(c))] ^= 1 << uint(r.Intn(8))
		}
	case 1:
		if len(c) > 0 {
			c = c[:r.Intn(len(c))]
		}
	case 2:
		c = append(c, r.Bytes(1+r.Intn(8))...)
	case 3:
		if len(c) > 2 {
			i := r.Intn(len(c) - 1)
			c = append(c[:i], c[i+1+r.Intn(len(c)-i-1):]...)
		}
	case 4:
		if len(c) > 0 {
			i := r.Intn(len(c))
			c[i] = []byte{0, 0xff, 0x80, 0x7f, 1}[r.Intn(5)]
		}
	case 5:
		if len(c) > 4 {
			i, j := r.Intn(len(c)), r.Intn(len(c))
			c[i], c[j] = c[j], c[i]
		}
	}
	return c
}

func join(xs []string, sep string) string {
	if len(xs) == 0 {
		return "-"
	}
	return strings.Join(xs, sep)
}

func gen(tier string, rng *h.Rng, emit0 func(string)) {
	thorough := tier == "thorough"
	seen := map[string]bool{}
	emit := func(l string) {
		if !seen[l] {
			seen[l] = true
			emit0(l)
		}
	}
	hon := func(l string) { honest[l] = true; emit(l) }
	scale := func(q, t int) int {
		if thorough {
			return t
		}
		return q
	}

	emit("inv")

	// ---- session layer ------------------------------------------------------
	hon("sess r:a:2;m:a:p1;m:a:p2")
	hon("sess m:a:d1;m:a:d2;r:a:2")
	for _, l := range []string{
		"sess m:a:p1;m:a:p1;m:a:p1", "sess r:a:0", "sess r:a:0;m:a:p1", "sess m:a:p1;r:a:0;m:a:p2", "sess r:a:-1;m:a:p1",
		"sess m:a:r1.2;m:a:r1.2;m:a:r1.3;m:a:r2.1;m:a:r2.3;r:a:4", "sess r:a:4;m:a:r1.2;m:a:r1.n;m:a:r1.n;m:a:r1.2;m:a:r2.n", "sess r:a:1;r:a:1;m:a:p1;m:a:p2",
		"sess m:a:r1.n;m:a:r1.2;m:a:r1.n;r:a:3", "sess m:a:r4294967295.4294967295;m:a:r4294967295.4294967295;m:a:r0.n",
		"sess r:a:2;m:b:p1;m:b:p2;m:a:p1;r:b:2;m:a:p2", "sess m:a:p4294967295;m:a:d4294967295;r:a:2", "sess r:a:1;m:a:p1;m:a:p1;r:a:1;m:a:p1",
		"sess r:a:9223372036854775807;m:a:p1",
	} {
		emit(l)
	}
	// session ids of every length (the id is a field of every key-generation message: "long" of the quantifier).
	// A group id is 32 bytes in the node; 64 / 65 / 256 / 257 / 70000 are the lengths a length test would pick
	for _, n := range []int{31, 32, 33, 64, 65, 255, 256, 257, 4096, 70000} {
		sid := strings.Repeat("s", n)
		emit("sess r:" + sid + ":2;m:" + sid + ":p1;m:" + sid + ":p2")
		emit("sess m:" + sid + ":d1;m:" + sid + ":r1.2;m:" + sid + ":r1.n;r:" + sid + ":3")
	}
	for i := 0; i < scale(60, 600); i++ {
		var evs []string
		for k := 1 + rng.Intn(12); k > 0; k-- {
			sid := pick(rng, "a", "a", "b", "")
			switch rng.Intn(5) {
			case 0:
				evs = append(evs, fmt.Sprintf("r:%s:%d", sid, rng.Intn(5)-1))
			case 1:
				evs = append(evs, fmt.Sprintf("m:%s:d%d", sid, rng.Intn(3)))
			case 2:
				evs = append(evs, fmt.Sprintf("m:%s:r%d.%s", sid, rng.Intn(3), pick(rng, "0", "1", "2", "n")))
			default:
				evs = append(evs, fmt.Sprintf("m:%s:p%d", sid, rng.Intn(4)))
			}
		}
		emit("sess " + strings.Join(evs, ";"))
	}

	// ---- exchangePub --------------------------------------------------------
	hon("xpub 3 g0 g1,g2")
	for _, n := range []int{2, 3, 5} {
		var peers []string
		for i := 1; i < n; i++ {
			peers = append(peers, fmt.Sprintf("g%d", i))
		}
		emit(fmt.Sprintf("xpub %d g0 %s", n, join(peers, ",")))
		emit(fmt.Sprintf("xpub %d o %s", n, join(peers, ",")))
		emit(fmt.Sprintf("xpub %d g0 -", n))
		emit(fmt.Sprintf("xpub %d g0 %s", n, join(append(append([]string{}, peers...), "g9"), ",")))
		emit(fmt.Sprintf("xpub %d g0 %s|%s", n, join(peers[:len(peers)/2], ","), join(peers[len(peers)/2:], ",")))
		for i := range peers {
			for _, bad := range []string{fmt.Sprintf("f%d", i+1), fmt.Sprintf("k%d", i+1), fmt.Sprintf("g%d", n), fmt.Sprintf("g%d", n+5), "g4294967295", "k4294967295", fmt.Sprintf("f%d", n)} {
				m := append([]string{}, peers...)
				m[i] = bad
				emit(fmt.Sprintf("xpub %d g0 %s", n, join(m, ",")))
			}
			m := append([]string{}, peers...)
			m[i] = "o"
			emit(fmt.Sprintf("xpub %d g0 %s", n, join(m, ",")))
			if len(peers) > 1 {
				emit(fmt.Sprintf("xpub %d g0 %s|%s", n, join(m[:i+1], ","), join(m[i+1:], ",")))
			}
		}
	}

	// ---- genDistKeyGenerator ------------------------------------------------
	hon("gdkg 3 0:own,1:p1,2:p2")
	for _, n := range []int{2, 3, 5} {
		for me := 0; me < n; me += 1 + n/2 {
			base := make([]string, n)
			for i := range base {
				base[i] = fmt.Sprintf("%d:p%d", i, i)
			}
			base[me] = fmt.Sprintf("%d:own", me)
			emit(fmt.Sprintf("gdkg %d %s", n, join(base, ",")))
			var muts [][]string
			for i := 0; i < n; i++ {
				for _, k := range []string{"nil", "id", "bad", "own", fmt.Sprintf("p%d", (i+1)%n)} {
					m := append([]string{}, base...)
					m[i] = fmt.Sprintf("%d:%s", i, k)
					muts = append(muts, m)
				}
				for _, idx := range []int{n, n + 1, 1 << 20, 4294967295, (i + 1) % n} {
					m := append([]string{}, base...)
					m[i] = fmt.Sprintf("%d:%s", idx, strings.SplitN(base[i], ":", 2)[1])
					muts = append(muts, m)
					m2 := append([]string{}, m...)
					m2[i] = fmt.Sprintf("%d:nil", idx)
					muts = append(muts, m2)
				}
			}
			for _, m := range muts {
				emit(fmt.Sprintf("gdkg %d %s", n, join(m, ",")))
			}
			// pairs
			for k := 0; k < scale(20, 300); k++ {
				a, b := muts[rng.Intn(len(muts))], muts[rng.Intn(len(muts))]
				m := append([]string{}, base...)
				for i := range m {
					if a[i] != base[i] {
						m[i] = a[i]
					}
					if b[i] != base[i] && rng.Bool() {
						m[i] = b[i]
					}
				}
				p := rng.Perm(n)
				q := make([]string, n)
				for i := range p {
					q[i] = m[p[i]]
				}
				emit(fmt.Sprintf("gdkg %d %s", n, join(q, ",")))
			}
		}
	}

	// ---- ProcessDeal / ProcessResponse -------------------------------------
	hon("dkgs 3 0 d:1:E/1/1/12/P/I0V1/2/1/1;r:1:R/1/2/1/1")
	for _, nm := range [][2]int{{3, 0}, {4, 1}} {
		n, me := nm[0], nm[1]
		t := n/2 + 1
		dealer, other := (me+1)%n, (me+2)%n
		good := fmt.Sprintf("E/1/1/12/P/I%dV1/%d/1/1", me, t)
		encs := []string{"nil", "E/0/1/12/P/I%dV1/%d/1/1", "E/1/0/12/P/I%dV1/%d/1/1", "E/0/0/0/F",
			"E/1/1/0/P/I%dV1/%d/1/1", "E/1/1/11/P/I%dV1/%d/1/1", "E/1/1/13/P/I%dV1/%d/1/1", "E/1/1/24/P/I%dV1/%d/1/1",
			"E/1/1/12/F", "E/1/1/12/U", "E/1/1/11/F", "E/1/0/7/U"}
		for i, e := range encs {
			if strings.Contains(e, "%d") {
				encs[i] = fmt.Sprintf(e, me, t)
			}
		}
		for _, sh := range []string{"N", fmt.Sprintf("I%dV0", me), fmt.Sprintf("I%dV1", other), fmt.Sprintf("I%dV0", other), "I999V1", "I4294967295V0"} {
			encs = append(encs, fmt.Sprintf("E/1/1/12/P/%s/%d/1/1", sh, t))
		}
		for _, tt := range []int{0, 1, n + 1, 65535} {
			encs = append(encs, fmt.Sprintf("E/1/1/12/P/I%dV1/%d/1/1", me, tt), fmt.Sprintf("E/1/1/12/P/I%dV0/%d/1/1", me, tt), fmt.Sprintf("E/1/1/12/P/N/%d/0/0", tt))
		}
		encs = append(encs, fmt.Sprintf("E/1/1/12/P/I%dV1/%d/0/1", me, t), fmt.Sprintf("E/1/1/12/P/I%dV1/%d/1/0", me, t), fmt.Sprintf("E/1/1/12/P/I%dV0/%d/0/0", me, t))
		resps := []string{"nil", fmt.Sprintf("R/1/%d/1/1", other), fmt.Sprintf("R/0/%d/1/1", other), fmt.Sprintf("R/1/%d/0/1", other),
			fmt.Sprintf("R/1/%d/1/0", other), fmt.Sprintf("R/1/%d/1/1", n), "R/1/4294967295/1/1", fmt.Sprintf("R/1/%d/1/1", me), fmt.Sprintf("R/1/%d/1/1", dealer), fmt.Sprintf("R/0/%d/0/0", n+7)}
		// every deal variant alone, then followed by each response variant about the same dealer
		for _, e := range encs {
			emit(fmt.Sprintf("dkgs %d %d d:%d:%s", n, me, dealer, e))
			emit(fmt.Sprintf("dkgs %d %d d:%d:%s;r:%d:nil;r:%d:%s;d:%d:%s", n, me, dealer, e, dealer, dealer, resps[1], dealer, good))
		}
		for _, idx := range []int{n, n + 1, 4294967295, me} {
			emit(fmt.Sprintf("dkgs %d %d d:%d:%s;d:%d:nil", n, me, idx, good, idx))
		}
		for _, r := range resps {
			emit(fmt.Sprintf("dkgs %d %d r:%d:%s", n, me, dealer, r))                                          // no deal yet
			emit(fmt.Sprintf("dkgs %d %d d:%d:nil;r:%d:%s", n, me, dealer, dealer, r))                         // failed deal: verifier without aggregator
			emit(fmt.Sprintf("dkgs %d %d d:%d:%s;r:%d:%s;r:%d:%s", n, me, dealer, good, dealer, r, dealer, r)) // after a good deal, twice
			emit(fmt.Sprintf("dkgs %d %d r:%d:%s;r:%d:%s", n, me, me, r, me, r))                               // about our own deal
			emit(fmt.Sprintf("dkgs %d %d r:%d:%s", n, me, n+3, r))
		}
		for k := 0; k < scale(30, 500); k++ {
			var ops []string
			for j := 1 + rng.Intn(5); j > 0; j-- {
				idx := []int{dealer, other, me, n, dealer}[rng.Intn(5)]
				if rng.Intn(2) == 0 {
					e := encs[rng.Intn(len(encs))]
					if rng.Intn(3) == 0 {
						e = good
					}
					ops = append(ops, fmt.Sprintf("d:%d:%s", idx, e))
				} else {
					ops = append(ops, fmt.Sprintf("r:%d:%s", idx, resps[rng.Intn(len(resps))]))
				}
			}
			emit(fmt.Sprintf("dkgs %d %d %s", n, me, strings.Join(ops, ";")))
		}
	}
	for _, which := range []string{"deals", "resps"} {
		for _, hv := range []string{"0", "1"} {
			for _, el := range []string{"g1", "o"} {
				emit(fmt.Sprintf("stage %s %s %s", which, hv, el))
			}
		}
	}
	for _, l := range []int{1, 129} {
		emit(fmt.Sprintf("dpk %d", l))
	}
	for _, l := range []int{0, 1, 2, 31, 32, 33, 63, 64, 66, 200} {
		emit(fmt.Sprintf("tobig %d", l))
	}

	// ---- queryLoop ----------------------------------------------------------
	hon("qloop r:0a;s:0a")
	for _, l := range []string{"qloop s:-", "qloop s:-;s:-;r:-;s:-", "qloop o;s:00;o", "qloop s:0a;s:0a;s:0b;r:0a;r:0b;s:0a", "qloop r:0a;r:0a;s:0a",
		"qloop r:-;s:-;s:0a", "qloop s:" + strings.Repeat("ab", 300) + ";r:" + strings.Repeat("ab", 300),
		"qloop s:" + strings.Repeat("cd", 33) + ";r:" + strings.Repeat("cd", 33) + ";s:" + strings.Repeat("cd", 33), "qloop r:" + strings.Repeat("ef", 70000) + ";s:" + strings.Repeat("ef", 70000)} {
		emit(l)
	}
	for i := 0; i < scale(25, 300); i++ {
		var evs []string
		for k := 1 + rng.Intn(8); k > 0; k-- {
			rid := pick(rng, "-", "-", "0a", "0b", "00")
			evs = append(evs, pick(rng, "s:"+rid, "s:"+rid, "r:"+rid, "o"))
		}
		emit("qloop " + strings.Join(evs, ";"))
	}

	// ---- recoverSign --------------------------------------------------------
	genRsign(rng, emit, hon, scale(1, 6))

	// ---- submitter / byte32 / commit-reveal seed ------------------------------
	for _, r := range []string{"0", "1", "7", "18446744073709551615", "18446744073709551616", "115792089237316195423570985008687907853269984665640564039457584007913129639935"} {
		for _, k := range []int{0, 1, 2, 3, 7} {
			emit(fmt.Sprintf("subm %s %d", r, k))
		}
	}
	for _, l := range []int{0, 1, 31, 32, 33, 64} {
		emit(fmt.Sprintf("b32 %d", l))
	}
	for _, v := range []string{"-5", "-1", "0", "1", "2", "21888242871839275222246405745257275088548364400416034343698204186575808495617"} {
		emit("crseed " + v)
	}

	// ---- the chain-event half ----------------------------------------------------
	genChain(rng, emit, hon, thorough)

	// ---- transport ------------------------------------------------------------
	hon("rid K/id.ok.other/0/0")
	hon("dec 1 K/known/1/0")
	hon("dpipe K/known/1/0")
	anys := []string{"none", "known", "unk", "badval"}
	for _, p := range []string{"ok", "inf", "inf0", "inf1", "trunc", "bad"} {
		for _, r := range []string{"other", "same", "empty"} {
			anys = append(anys, "id."+p+"."+r)
		}
	}
	var frames []string
	frames = append(frames, "U")
	for _, a := range anys {
		for _, sg := range []string{"0", "1"} {
			for _, rp := range []string{"0", "1"} {
				frames = append(frames, fmt.Sprintf("K/%s/%s/%s", a, sg, rp))
			}
		}
	}
	for _, f := range frames {
		emit("dec 0 " + f)
		emit("dec 1 " + f)
		emit("dpipe " + f)
		emit("rid " + f)
	}
	emit("rid eof")
	emit("rid big")
	// reply packets against the table of pending requests: duplicate reply, nonce never issued, reply
	// before any request, reply after the requester gave up, out-of-order replies
	hon("disp q;r0")
	for _, l := range []string{"disp r0", "disp r3735928559", "disp q;r0;r0", "disp q;r1", "disp q;q;r1;r0;r1;r0", "disp q;c0;r0;r0",
		"disp r18446744073709551615;q;r18446744073709551615;r0", "disp q;q;q;c1;r2;r1;r0;r3", "disp q;r0;q;r0;r1"} {
		emit(l)
	}
	for i := 0; i < scale(20, 300); i++ {
		var evs []string
		sent := 0
		for k := 1 + rng.Intn(8); k > 0; k-- {
			switch rng.Intn(5) {
			case 0, 1:
				evs = append(evs, "q")
				sent++
			case 2:
				evs = append(evs, fmt.Sprintf("c%d", rng.Intn(sent+1)))
			default:
				evs = append(evs, fmt.Sprintf("r%d", []int{rng.Intn(sent + 2), rng.Intn(sent + 2), 7, 4294967296}[rng.Intn(4)]))
			}
		}
		emit("disp " + strings.Join(evs, ";"))
	}
	// the connection tables of a real node: the dialled endpoint announces the dialled id / another id /
	// the node's own id / none / hangs up during the handshake; duplicate inbound connection; inbound
	// hang-up during the handshake; then a round trip to that member must succeed
	hon("conn match")
	for _, kk := range []string{"other", "own", "empty", "none", "in2", "inclose"} {
		emit("conn " + kk)
	}
	// histories on the outbound table: DisConnectTo of a connected / never connected / already removed id,
	// the peer hanging up AFTER DisConnectTo (the id is reported a second time), the end of an old connection
	// taking the entry of a newer one, double hang-ups, Leave; each ends with a round trip to a real member
	hon("conns q2")
	for _, l := range []string{"conns f2.2;x2;h2;q2", "conns x7;q2", "conns f2.2;x2;x2;h2;x2;q2", "conns f2.2;x2;f2.2;o2;h2;q2;q3",
		"conns f2.3;x2;x3;q2", "conns n2;x2;h2;q2", "conns q2;x2;q3;q2", "conns f2.2;h2;x2;q2;L", "conns f3.3;q2;L;x3;h3"} {
		emit(l)
	}
	for i := 0; i < scale(6, 80); i++ {
		// scripted connections to members 2 and 3, closed in any order, DisConnectTo of 2, 3 and an unknown id;
		// a real member is only asked once no scripted connection dialled for it is open (that endpoint never replies)
		open := map[int]int{}
		var evs []string
		for k := 2 + rng.Intn(6); k > 0; k-- {
			x := 2 + rng.Intn(2)
			switch rng.Intn(7) {
			case 0, 1:
				evs = append(evs, fmt.Sprintf("f%d.%d", x, []int{x, x, x, 0, 1, 5}[rng.Intn(6)]))
				open[x]++ // an upper bound: a refused connection is closed by the node
			case 2:
				evs = append(evs, fmt.Sprintf("x%d", []int{x, x, 7}[rng.Intn(3)]))
			case 3:
				evs = append(evs, fmt.Sprintf("h%d", x))
				if open[x] > 0 {
					open[x]--
				}
			case 4:
				evs = append(evs, fmt.Sprintf("o%d", x))
				if open[x] > 0 {
					open[x]--
				}
			case 5:
				evs = append(evs, fmt.Sprintf("n%d", x))
			default:
				evs = append(evs, fmt.Sprintf("x%d", x), fmt.Sprintf("h%d", x))
				if open[x] > 0 {
					open[x]--
				}
			}
		}
		for x := 2; x <= 3; x++ {
			for ; open[x] > 0; open[x]-- {
				evs = append(evs, fmt.Sprintf("%s%d", pick(rng, "h", "o"), x))
			}
		}
		evs = append(evs, fmt.Sprintf("q%d", 2+rng.Intn(2)))
		emit("conns " + strings.Join(evs, ";"))
	}
	for _, m := range []string{"nil", "sub", "unsub"} {
		emit("mdisp " + m)
	}
	hon("listen m:24")
	for _, l := range []string{"listen m:0", "listen m:19", "listen m:20", "listen m:21,3,40", "listen u", "listen u;m:1;u;m:25,25", "listen m:-;m:19,20"} {
		emit(l)
	}
	for i := 0; i < scale(15, 200); i++ {
		var evs []string
		for k := 1 + rng.Intn(5); k > 0; k-- {
			if rng.Intn(4) == 0 {
				evs = append(evs, "u")
				continue
			}
			var ls []string
			for j := rng.Intn(4); j >= 0; j-- {
				ls = append(ls, pick(rng, "0", "1", "19", "20", "21", "24", "64"))
			}
			evs = append(evs, "m:"+strings.Join(ls, ","))
		}
		emit("listen " + strings.Join(evs, ";"))
	}

	// a live gossip session: members with names of every length class join this node
	for _, l := range []string{"24", "3", "19,20,21", "1,25,40,2"} {
		emit("serf " + l)
	}
	for i := 0; i < scale(2, 30); i++ {
		var ls []string
		for j := 1 + rng.Intn(4); j > 0; j-- {
			ls = append(ls, pick(rng, "1", "2", "5", "19", "20", "21", "24", "30", "64"))
		}
		emit("serf " + strings.Join(ls, ","))
	}

	// ---- arbitrary bytes (oracle only) ---------------------------------------
	genFuzz(rng, emit, thorough)
}

// ---------------------------------------------------------------- chain events

const maxU256 = "115792089237316195423570985008687907853269984665640564039457584007913129639935"

func genChain(rng *h.Rng, emit, hon func(string), thorough bool) {
	k := func(q, t int) int {
		if thorough {
			return t
		}
		return q
	}
	nums := []string{"0", "1", "7", "18446744073709551615", "18446744073709551616", "21888242871839275222246405745257275088548364400416034343698204186575808495617", maxU256}
	num := func() string { return nums[rng.Intn(len(nums))] }
	// payloads through the real onchainLoop (chain double)
	hon("chain 5:3:1 Q9/7/5")
	for _, l := range []string{
		// member / member without ids / key generation unfinished / unknown group, every request kind, key accepted, dissolve (twice)
		"chain 5:3:1,6:0:1,8:3:0 R7/5;R7/6;R7/8;R7/9;U1/2/3/5;Q1/2/5;K5;K9;D5;D5;Q1/2/5",
		// grouping: members, repeated, without this node, empty list, this node alone, duplicate ids, an id the node already has keys
		// for; then a request and a dissolve for the group whose key generation has just started (real pdkg: no share yet)
		"chain 5:3:1 G7/1.2.3;G7/1.2.3;G8/2.3;G9/-;G10/1;G11/1.1.2.2;G5/1.2;R3/7;K7;D7",
		// magnitudes 0 … 2^256-1 in every integer field; a zero seed before a commit-reveal
		"chain 5:3:1 Q0/0/5;Q" + maxU256 + "/" + maxU256 + "/5;U" + maxU256 + "/0/" + maxU256 + "/5;R0/5;C1/0/0/0;C1/" + maxU256 + "/18446744073709551616/18446744073709551617;R0/9;C1/99/0/0",
		// error values on the error channel, values without a case
		"chain - E;X0;X7;X4294967295;O;E",
		"chain " + maxU256 + ":1:1 Q1/" + maxU256 + "/" + maxU256 + ";D" + maxU256 + ";G" + maxU256 + "/1",
	} {
		emit(l)
	}
	{ // a NodeId list of 400 members
		ids := []string{"1"}
		for i := 2; i <= 400; i++ {
			ids = append(ids, fmt.Sprint(i))
		}
		emit("chain - G12/" + strings.Join(ids, ".") + ";K12")
	}
	// nil *big.Int fields, one at a time (model comparison only: not deliverable by the chain side)
	for _, l := range []string{"chain 5:3:1 Qnil/7/5", "chain 5:3:1 Q9/nil/5", "chain 5:3:1 Unil/2/3/5", "chain 5:3:1 U1/nil/3/5", "chain 5:3:1 U1/2/nil/5", "chain 5:3:1 Rnil/5",
		"chain 5:3:1 Rnil/9;C1/1/1/1", "chain 5:3:1 C1/nil/1/1", "chain 5:3:1 C1/1/nil/1", "chain 5:3:1 C1/1/1/nil", "chain 5:3:1 Gnil/1.2;Gnil/1;Dnil;Knil;Q9/7/nil;Cnil/1/1/1", "chain nil:3:1 Q9/7/nil;Dnil;Knil"} {
		emit(l)
	}
	randEv := func(raw bool) string {
		gid := pick(rng, "5", "5", "6", "8", "9", "12")
		switch rng.Intn(9) {
		case 0:
			var ids []string
			for j := rng.Intn(5); j > 0; j-- {
				ids = append(ids, pick(rng, "1", "1", "2", "3"))
			}
			return "G" + pick(rng, "12", "13", "5") + "/" + join(ids, ".")
		case 1:
			return "D" + gid
		case 2:
			return "K" + gid
		case 3:
			return "R" + num() + "/" + gid
		case 4:
			return "U" + num() + "/" + num() + "/" + num() + "/" + gid
		case 5:
			return "C" + num() + "/" + num() + "/" + num() + "/" + num()
		case 6:
			if raw {
				return pick(rng, "N", "J", "E")
			}
			return pick(rng, "O", "E", "X0", "X3")
		}
		return "Q" + num() + "/" + num() + "/" + gid
	}
	for i := 0; i < k(6, 150); i++ {
		var evs []string
		for j := 2 + rng.Intn(7); j > 0; j-- {
			evs = append(evs, randEv(false))
		}
		emit("chain 5:3:1,6:0:1,8:2:0 " + strings.Join(evs, ";"))
	}
	// contract logs through the real adaptor (binding, ABI decoder, table entries, merge, firstEvent) into the real loop
	hon("chainraw 5:3:1 Q9/7/5")
	for _, l := range []string{
		"chainraw 5:3:1 Q9/7/5;d:Q9/7/5;r:Q8/7/5;Q8/7/5;N;J",
		"chainraw 5:3:1,6:0:1 R0/5;R" + maxU256 + "/6;U0/" + maxU256 + "/0/5;K5;D5;K5",
		"chainraw - G7/1.2.3;d:G7/1.2.3;G8/2.3;G9/-;G10/1;G7/1.2;R3/7;C1/0/0/0;C2/" + maxU256 + "/" + maxU256 + "/" + maxU256,
		"chainraw 5:3:1 E;Q1/1/5;X",
	} {
		emit(l)
	}
	for i := 0; i < k(3, 80); i++ {
		var evs []string
		for j := 2 + rng.Intn(6); j > 0; j-- {
			e := randEv(true)
			if len(evs) > 0 && rng.Intn(5) == 0 {
				e = "d:" + strings.TrimPrefix(strings.TrimPrefix(evs[rng.Intn(len(evs))], "r:"), "d:")
			} else if rng.Intn(6) == 0 && e[0] != 'J' && e[0] != 'E' {
				e = "r:" + e
			}
			if strings.HasSuffix(e, ":J") || strings.HasSuffix(e, ":E") || strings.HasSuffix(e, ":N") {
				e = e[2:]
			}
			evs = append(evs, e)
		}
		emit("chainraw 5:3:1,6:0:1 " + strings.Join(evs, ";"))
	}
	// the bootstrap document
	hon("bootips 1 1 3")
	for _, l := range []string{"bootips 0 1 3", "bootips 0 0 0", "bootips 1 0 3", "bootips 1 1 0", "bootips 1 1 2000"} {
		emit(l)
	}
}

// ---------------------------------------------------------------- recoverSign cases

func genRsign(rng *h.Rng, emit, hon func(string), rounds int) {
	for round := 0; round < rounds; round++ {
		for _, tn := range [][2]int{{2, 3}, {3, 5}} {
			t, n := tn[0], tn[1]
			seed := fmt.Sprintf("s%d", rng.Intn(1000))
			pri, pub := groupOf(seed, t)
			content := append([]byte("content-of-the-request-"), rng.Bytes(8)...)
			short := []byte("tiny")
			other := append([]byte("another-content-of-the-request-"), rng.Bytes(4)...)
			sh := func(i int, c []byte) []byte {
				b, err := tbls.Sign(suite, pri.Eval(i), c)
				if err != nil {
					panic(err)
				}
				return b
			}
			var good [][]byte
			for i := 0; i < n; i++ {
				good = append(good, sh(i, content))
			}
			type sg struct{ s, c string } // hex or "nil"
			mk := func(s, c []byte) sg { return sg{h.Hex(s), h.Hex(c)} }
			line := func(signs []sg) string {
				// validity table over the distinct (content, share) pairs of the line, by the real bls.Verify
				var valid, parts []string
				seenP := map[string]bool{}
				var cs, ss []string
				for _, x := range signs {
					if x.s == "" {
						parts = append(parts, "nil")
						continue
					}
					parts = append(parts, x.s+"/"+x.c)
					if x.c != "nil" {
						cs = append(cs, x.c)
					}
					if x.s != "nil" {
						ss = append(ss, x.s)
					}
				}
				for _, c := range cs {
					for _, s := range ss {
						if !seenP[c+"/"+s] {
							seenP[c+"/"+s] = true
							if validPair(pub, optBytes(c), optBytes(s)) {
								valid = append(valid, c+"/"+s)
							}
						}
					}
				}
				return fmt.Sprintf("rsign %d %d %s %s %s", t, n, seed, join(valid, ","), join(parts, ";"))
			}
			var honestSigns []sg
			for i := 0; i < t; i++ {
				honestSigns = append(honestSigns, mk(good[i], content))
			}
			hon(line(honestSigns))
			// one bad share inserted at every position of an otherwise sufficient honest stream
			bads := []sg{{"", ""}, {"nil", h.Hex(content)}, {h.Hex(good[0]), "nil"}, {"nil", "nil"},
				mk([]byte{}, content), mk([]byte{0}, content), mk([]byte{0, 1}, content), mk(good[0][:31], content), mk(good[0][:40], content),
				mk(good[0][:65], content), mk(append(append([]byte{}, good[0]...), 0), content), mk(append(append([]byte{}, good[1]...), 7, 7), content),
				mk(flip(good[0]), content), mk(append([]byte{0xff, 0xff}, good[0][2:]...), content), mk(sh(n, content), content), mk(sh(n+3, content), content),
				mk(good[0], other), mk(good[1], short), mk(sh(0, short), short), mk(good[0], []byte{}), mk(rng.Bytes(66), content), mk(good[0], content)}
			for _, b := range bads {
				for pos := 0; pos <= t; pos++ {
					if round > 0 && rng.Intn(3) > 0 {
						continue
					}
					var signs []sg
					for i := 0; i < n; i++ {
						if i == pos {
							signs = append(signs, b)
						}
						signs = append(signs, mk(good[i], content))
					}
					emit(line(signs))
				}
			}
			// the share that completes the threshold carries junk (the node logs sign.ToBigInt() of it)
			for _, junk := range [][]byte{{0, 5}, good[t-1][:20], {}, {9}} {
				var signs []sg
				for i := 0; i < t-1; i++ {
					signs = append(signs, mk(good[i], content))
				}
				signs = append(signs, mk(good[t-1], other)) // valid share, other content: recovery fails on it
				signs = append(signs, mk(junk, content))    // junk with the right content: recovery succeeds now
				emit(line(signs))
			}
			// t valid shares over a content shorter than the 20-byte address suffix
			var sh2 []sg
			for i := 0; i < t; i++ {
				sh2 = append(sh2, mk(sh(i, short), short))
			}
			emit(line(sh2))
			emit(line(append(sh2, honestSigns...)))
			// pairs
			for k := 0; k < 10; k++ {
				var signs []sg
				for i := 0; i < n; i++ {
					if rng.Intn(3) == 0 {
						signs = append(signs, bads[rng.Intn(len(bads))])
					}
					if rng.Intn(4) > 0 {
						signs = append(signs, mk(good[i], content))
					}
					if rng.Intn(3) == 0 {
						signs = append(signs, bads[rng.Intn(len(bads))])
					}
				}
				if len(signs) > 0 {
					emit(line(signs))
				}
			}
		}
	}
}

// ---------------------------------------------------------------- fuzz streams

func genFuzz(rng *h.Rng, emit func(string), thorough bool) {
	k := func(q, t int) int {
		if thorough {
			return t
		}
		return q
	}
	// valid encodings to mutate
	var pkgs [][]byte
	for _, spec := range []string{"K/known/1/0", "K/id.ok.other/1/0", "K/none/1/1", "K/unk/0/0", "K/id.inf.same/1/1"} {
		pkgs = append(pkgs, buildFrame(spec, true))
	}
	for i := 0; i < k(150, 3000); i++ {
		b := pkgs[rng.Intn(len(pkgs))]
		for j := rng.Intn(3); j >= 0; j-- {
			b = mutate(rng, b)
		}
		emit("fzraw " + h.Hex(b))
		if i%3 == 0 {
			emit("fzrid " + h.Hex(b))
		}
		if i%5 == 0 {
			emit("fzpipe " + h.Hex(b))
		}
	}
	for i := 0; i < k(60, 1500); i++ {
		emit("fzraw " + h.Hex(rng.Bytes(rng.Intn(40))))
	}
	emit("fzpipe -")
	for i := 0; i < k(30, 400); i++ {
		var hd [4]byte
		binary.BigEndian.PutUint32(hd[:], uint32(rng.Intn(70)))
		if rng.Intn(6) == 0 {
			binary.BigEndian.PutUint32(hd[:], uint32(rng.U64()))
		}
		emit("fzstream " + h.Hex(append(hd[:], mutate(rng, pkgs[rng.Intn(len(pkgs))])...)))
	}
	// post-handshake byte streams through the whole client pipeline (frames are AES-GCM boxes)
	{
		key, nonce := bytes.Repeat([]byte{7}, 32), bytes.Repeat([]byte{9}, 12)
		block, _ := aes.NewCipher(key)
		gcm, _ := cipher.NewGCM(block)
		box := func(b []byte) []byte { return framed(gcm.Seal(nil, nonce, b, nil)) }
		emit("fzconn -")
		for i := 0; i < k(40, 800); i++ {
			var s []byte
			for j := rng.Intn(3); j >= 0; j-- {
				p := pkgs[rng.Intn(len(pkgs))]
				switch rng.Intn(4) {
				case 0:
					s = append(s, box(p)...) // a well-formed box
				case 1:
					s = append(s, box(mutate(rng, p))...) // a box around a damaged package
				case 2:
					s = append(s, mutate(rng, box(p))...) // a damaged box
				default:
					s = append(s, framed(rng.Bytes(rng.Intn(40)))...)
				}
			}
			emit("fzconn " + h.Hex(s))
		}
	}
	// sealed deal plaintexts (dedis/protobuf decoder behind the AEAD)
	w := newWorld(3, 0)
	poly := share.NewPriPoly(suite, 2, scalarOf("fz", 1), rngStream{rng}) // coefficients from the harness PRNG: ops.txt is a function of VERIF_SEED
	_, commits := poly.Commit(suite.Point().Base()).Info()
	sid, _ := vss.VerifSessionID(suite, w.pubs[1], w.pubs, commits, 2)
	goodDeal, err := protobuf.Encode(&vss.Deal{SessionID: sid, SecShare: poly.Eval(0), T: 2, Commitments: commits})
	if err != nil {
		panic(err)
	}
	noShare, _ := protobuf.Encode(&vss.Deal{SessionID: sid, T: 2, Commitments: commits})
	noV, _ := protobuf.Encode(&vss.Deal{SessionID: sid, SecShare: &share.PriShare{I: 0}, T: 2, Commitments: commits})
	noCommits, _ := protobuf.Encode(&vss.Deal{SessionID: sid, SecShare: poly.Eval(0), T: 2})
	emit("fzseal 3 0 1 " + h.Hex(goodDeal))
	emit("fzseal 3 0 1 " + h.Hex(noShare))
	emit("fzseal 3 0 1 " + h.Hex(noV))
	emit("fzseal 3 0 1 " + h.Hex(noCommits))
	emit("fzseal 3 0 1 -")
	for i := 0; i < k(120, 3000); i++ {
		b := [][]byte{goodDeal, noShare, noV, noCommits}[rng.Intn(4)]
		for j := rng.Intn(3); j >= 0; j-- {
			b = mutate(rng, b)
		}
		emit("fzseal 3 0 1 " + h.Hex(b))
	}
	for i := 0; i < k(30, 600); i++ {
		emit("fzseal 3 0 1 " + h.Hex(rng.Bytes(rng.Intn(60))))
	}
	// wire encodings of the key-generation and share messages
	var msgs [][]byte
	// the shape of a sealed deal with bytes from the harness PRNG (a real seal draws its ephemeral key from the
	// repository's random stream, which made ops.txt differ from run to run; this stream only feeds the wire decoder)
	enc := &vss.EncryptedDeal{DHKey: mustBin(pubOf(scalarOf("fzdh", 1))), Signature: rng.Bytes(64), Nonce: make([]byte, 12), Cipher: rng.Bytes(96)}
	for _, m := range []proto.Message{
		&dkg.Deal{SessionId: "s", Index: 1, Deal: enc}, &dkg.Deal{SessionId: "s", Index: 1},
		&dkg.Responses{SessionId: "s", Response: []*dkg.Response{{Index: 1, Response: &vss.Response{SessionID: sid, Index: 2, Status: true, Signature: []byte("x")}}, {Index: 2}}},
		&dkg.PublicKey{SessionId: "s", Index: 1, Publickey: &vss.PublicKey{Binary: mustBin(w.pubs[1])}}, &dkg.PublicKey{Index: 7},
		&vss.Signature{Index: 1, RequestId: []byte("r"), Content: []byte("c"), Signature: []byte{1, 2, 3}},
	} {
		b, err := proto.Marshal(m)
		if err != nil {
			panic(err)
		}
		msgs = append(msgs, b)
		emit("fzmsg " + h.Hex(b))
	}
	for i := 0; i < k(100, 2500); i++ {
		b := msgs[rng.Intn(len(msgs))]
		for j := rng.Intn(3); j >= 0; j-- {
			b = mutate(rng, b)
		}
		emit("fzmsg " + h.Hex(b))
	}
	// arbitrary share sets
	for i := 0; i < k(20, 300); i++ {
		t, n := 2, 3
		seed := fmt.Sprintf("f%d", rng.Intn(100))
		pri, _ := groupOf(seed, t)
		content := []byte("content-of-the-request-fuzz")
		var ss []string
		for j := 0; j < 2+rng.Intn(4); j++ {
			b, _ := tbls.Sign(suite, pri.Eval(rng.Intn(n+1)), content)
			if rng.Intn(2) == 0 {
				b = mutate(rng, b)
			}
			if rng.Intn(8) == 0 {
				b = rng.Bytes(rng.Intn(5))
			}
			ss = append(ss, h.Hex(b))
		}
		emit(fmt.Sprintf("fzshares %d %d %s %s %s", t, n, seed, h.Hex(content), strings.Join(ss, ";")))
	}
	genParse(rng, emit, k(250, 6000))
	// an adversarial message injected at every point of an otherwise honest 3-member session
	{
		n := 3
		var sched []string
		for i := 0; i < n; i++ {
			sched = append(sched, fmt.Sprintf("s%d", i))
		}
		for _, kind := range []string{"p", "d", "r"} {
			for j := 0; j < n; j++ {
				for i := 0; i < n; i++ {
					if i != j {
						sched = append(sched, fmt.Sprintf("%s%d.%d", kind, j, i))
					}
				}
			}
		}
		advs := []string{"D.1.1.0.nil", "D.1.1.0.junk", "D.1.1.0.nilshare", "D.1.1.0.nilv", "D.7.1.0.good", "D.1.1.2.good", "RN.1", "RN.0", "RN.9",
			"R.1.2.cur1.a.junk", "R.1.9.cur1.c.none", "R.0.1.cur0.c.1", "R.1.2.raw.a.2", "D.0.1.0.nil"}
		total := len(advs) * (len(sched) + 1)
		want := k(16, total)
		for a, adv := range advs {
			for pos := 0; pos <= len(sched); pos++ {
				if want < total && rng.Intn(total) >= want {
					continue
				}
				ev := append(append(append([]string{}, sched[:pos]...), "x1.0"), sched[pos:]...)
				emit(fmt.Sprintf("fzsim %d %d X1=%s %s", 1000+a, n, adv, strings.Join(ev, ",")))
			}
		}
	}
	// the real pdkg.Loop kept running past its once-a-minute expiry sweep (63 s: thorough tier only)
	if thorough {
		emit("fzloop")
	}
	// nesting depth of a fetched document (14409e8): at the bound, one above, ordinary depths, flat documents
	// whose strings / comments are full of brackets and tags, brackets closed inside strings only, and the
	// depths a document below dataFetch's 16 MiB can reach (maxDocumentSize/2 JSON, /7 XML)
	honest["deep json 3"], honest["deep xml 3"] = true, true
	emit("deep json 3")
	emit("deep xml 3")
	for _, k := range []string{"json", "jsonobj", "jsonmix", "xml", "xmldesc"} {
		for _, d := range []int{1, 64, 999, 1000, 1001, 2000} {
			if k == "jsonmix" {
				d /= 2 // two levels per repetition
			}
			if k == "xmldesc" && d >= 999 {
				d-- // the text node is one level more
			}
			emit(fmt.Sprintf("deep %s %d", k, d))
		}
	}
	emit("deep jsondesc 900")
	emit("deep jsonstr 100000")
	emit("deep xmlwide 100000")
	emit("deep jsonmix 501")
	emit("deep json 800000")
	emit("deep json 8388608")
	emit("deep jsonobj 1500000")
	emit("deep jsonmix 700000")
	emit("deep xml 2396745")
	for i := 0; i < 6; i++ {
		emit(fmt.Sprintf("deep %s %d", pick(rng, "json", "jsonobj", "jsonmix", "xml", "xmldesc"), 1+rng.Intn(pickInt(rng, 50, 1500, 3000, 3000000))))
	}
	// a peer connects (either direction), completes the handshake and hangs up: nothing may keep running (6be4efc)
	emit("fzspin f2.2;h2;S")
	emit("fzspin i7;S")
	emit("fzspin i7;i8;f2.2;q3;h2;S;q2")
	// oversized documents
	emit("fzfetch 1")
	emit("fzfetch 48")
	if thorough {
		emit("fzfetch 8")
		emit("fzfetch 200")
	}
}

var _ = ptypes.MarshalAny
var _ kyber.Point
var _ = p2p.NoDiscover

func pickInt(r *h.Rng, xs ...int) int { return xs[r.Intn(len(xs))] }

// rngStream: a cipher.Stream over the harness PRNG (for the repository's Pick(stream) calls at generation time)
type rngStream struct{ r *h.Rng }

func (s rngStream) XORKeyStream(dst, src []byte) {
	k := s.r.Bytes(len(src))
	for i := range src {
		dst[i] = src[i] ^ k[i]
	}
}

/-
C20 (round 2) — the 64-byte load of scReduce: its 24 load expressions (23 masked 21-bit limbs and
`load4(s[60:]) >> 3`) cut a 64-byte string into limbs with the same little-endian value.  Two halves
(limbs 0 … 11 = bits 0 … 251, limbs 12 … 23 = bits 252 … 511), each by `omega` over the bytes it reads.
-/
import DosModel.Proofs.Ed25519RangesTie
import DosModel.Proofs.Ed25519Bytes
import Mathlib.Tactic.LinearCombination

set_option exponentiation.threshold 600

namespace Dos.Ed25519
open Dos Dos.Gen.Ed25519Sc List

def lowPart (l : List Int) : Int := value12 (l.getD 0 0) (l.getD 1 0) (l.getD 2 0) (l.getD 3 0) (l.getD 4 0) (l.getD 5 0) (l.getD 6 0) (l.getD 7 0) (l.getD 8 0) (l.getD 9 0) (l.getD 10 0) (l.getD 11 0)
def highPart (l : List Int) : Int := value12 (l.getD 12 0) (l.getD 13 0) (l.getD 14 0) (l.getD 15 0) (l.getD 16 0) (l.getD 17 0) (l.getD 18 0) (l.getD 19 0) (l.getD 20 0) (l.getD 21 0) (l.getD 22 0) (l.getD 23 0)

theorem value_low_high (l : List Int) : value (toL24 l) = lowPart l + 2 ^ 252 * highPart l := by
  simp only [value, toL24, lowPart, highPart, value12]
  ring

set_option maxHeartbeats 4000000 in
theorem scReduce_load_low (x0 x1 x2 x3 x4 x5 x6 x7 x8 x9 x10 x11 x12 x13 x14 x15 x16 x17 x18 x19 x20 x21 x22 x23 x24 x25 x26 x27 x28 x29 x30 x31 x32 x33 x34 x35 x36 x37 x38 x39 x40 x41 x42 x43 x44 x45 x46 x47 x48 x49 x50 x51 x52 x53 x54 x55 x56 x57 x58 x59 x60 x61 x62 x63 : UInt8) :
    lowPart (scReduce_load shrI [x0, x1, x2, x3, x4, x5, x6, x7, x8, x9, x10, x11, x12, x13, x14, x15, x16, x17, x18, x19, x20, x21, x22, x23, x24, x25, x26, x27, x28, x29, x30, x31, x32, x33, x34, x35, x36, x37, x38, x39, x40, x41, x42, x43, x44, x45, x46, x47, x48, x49, x50, x51, x52, x53, x54, x55, x56, x57, x58, x59, x60, x61, x62, x63])
      = (x0.toNat : Int) * 256 ^ 0 + (x1.toNat : Int) * 256 ^ 1 + (x2.toNat : Int) * 256 ^ 2 + (x3.toNat : Int) * 256 ^ 3 + (x4.toNat : Int) * 256 ^ 4 + (x5.toNat : Int) * 256 ^ 5 + (x6.toNat : Int) * 256 ^ 6 + (x7.toNat : Int) * 256 ^ 7 + (x8.toNat : Int) * 256 ^ 8 + (x9.toNat : Int) * 256 ^ 9 + (x10.toNat : Int) * 256 ^ 10 + (x11.toNat : Int) * 256 ^ 11 + (x12.toNat : Int) * 256 ^ 12 + (x13.toNat : Int) * 256 ^ 13 + (x14.toNat : Int) * 256 ^ 14 + (x15.toNat : Int) * 256 ^ 15 + (x16.toNat : Int) * 256 ^ 16 + (x17.toNat : Int) * 256 ^ 17 + (x18.toNat : Int) * 256 ^ 18 + (x19.toNat : Int) * 256 ^ 19 + (x20.toNat : Int) * 256 ^ 20 + (x21.toNat : Int) * 256 ^ 21 + (x22.toNat : Int) * 256 ^ 22 + (x23.toNat : Int) * 256 ^ 23 + (x24.toNat : Int) * 256 ^ 24 + (x25.toNat : Int) * 256 ^ 25 + (x26.toNat : Int) * 256 ^ 26 + (x27.toNat : Int) * 256 ^ 27 + (x28.toNat : Int) * 256 ^ 28 + (x29.toNat : Int) * 256 ^ 29 + (x30.toNat : Int) * 256 ^ 30 + ((x31.toNat : Int) % 16) * 2 ^ 248 := by
  have h0 := x0.toNat_lt
  have h1 := x1.toNat_lt
  have h2 := x2.toNat_lt
  have h3 := x3.toNat_lt
  have h4 := x4.toNat_lt
  have h5 := x5.toNat_lt
  have h6 := x6.toNat_lt
  have h7 := x7.toNat_lt
  have h8 := x8.toNat_lt
  have h9 := x9.toNat_lt
  have h10 := x10.toNat_lt
  have h11 := x11.toNat_lt
  have h12 := x12.toNat_lt
  have h13 := x13.toNat_lt
  have h14 := x14.toNat_lt
  have h15 := x15.toNat_lt
  have h16 := x16.toNat_lt
  have h17 := x17.toNat_lt
  have h18 := x18.toNat_lt
  have h19 := x19.toNat_lt
  have h20 := x20.toNat_lt
  have h21 := x21.toNat_lt
  have h22 := x22.toNat_lt
  have h23 := x23.toNat_lt
  have h24 := x24.toNat_lt
  have h25 := x25.toNat_lt
  have h26 := x26.toNat_lt
  have h27 := x27.toNat_lt
  have h28 := x28.toNat_lt
  have h29 := x29.toNat_lt
  have h30 := x30.toNat_lt
  have h31 := x31.toNat_lt
  simp only [lowPart, scReduce_load, List.getD_cons_zero, List.getD_cons_succ, sl, List.drop_succ_cons, List.drop_zero,
    load3, load4, value12, shrI, Int.shiftRight_eq_div_pow, Int.ofNat_eq_natCast]
  simp (disch := omega) only [band_mask21]
  push_cast
  omega

set_option maxHeartbeats 4000000 in
theorem scReduce_load_high (x0 x1 x2 x3 x4 x5 x6 x7 x8 x9 x10 x11 x12 x13 x14 x15 x16 x17 x18 x19 x20 x21 x22 x23 x24 x25 x26 x27 x28 x29 x30 x31 x32 x33 x34 x35 x36 x37 x38 x39 x40 x41 x42 x43 x44 x45 x46 x47 x48 x49 x50 x51 x52 x53 x54 x55 x56 x57 x58 x59 x60 x61 x62 x63 : UInt8) :
    highPart (scReduce_load shrI [x0, x1, x2, x3, x4, x5, x6, x7, x8, x9, x10, x11, x12, x13, x14, x15, x16, x17, x18, x19, x20, x21, x22, x23, x24, x25, x26, x27, x28, x29, x30, x31, x32, x33, x34, x35, x36, x37, x38, x39, x40, x41, x42, x43, x44, x45, x46, x47, x48, x49, x50, x51, x52, x53, x54, x55, x56, x57, x58, x59, x60, x61, x62, x63])
      = (x31.toNat : Int) / 16 + (x32.toNat : Int) * (16 * 256 ^ 0) + (x33.toNat : Int) * (16 * 256 ^ 1) + (x34.toNat : Int) * (16 * 256 ^ 2) + (x35.toNat : Int) * (16 * 256 ^ 3) + (x36.toNat : Int) * (16 * 256 ^ 4) + (x37.toNat : Int) * (16 * 256 ^ 5) + (x38.toNat : Int) * (16 * 256 ^ 6) + (x39.toNat : Int) * (16 * 256 ^ 7) + (x40.toNat : Int) * (16 * 256 ^ 8) + (x41.toNat : Int) * (16 * 256 ^ 9) + (x42.toNat : Int) * (16 * 256 ^ 10) + (x43.toNat : Int) * (16 * 256 ^ 11) + (x44.toNat : Int) * (16 * 256 ^ 12) + (x45.toNat : Int) * (16 * 256 ^ 13) + (x46.toNat : Int) * (16 * 256 ^ 14) + (x47.toNat : Int) * (16 * 256 ^ 15) + (x48.toNat : Int) * (16 * 256 ^ 16) + (x49.toNat : Int) * (16 * 256 ^ 17) + (x50.toNat : Int) * (16 * 256 ^ 18) + (x51.toNat : Int) * (16 * 256 ^ 19) + (x52.toNat : Int) * (16 * 256 ^ 20) + (x53.toNat : Int) * (16 * 256 ^ 21) + (x54.toNat : Int) * (16 * 256 ^ 22) + (x55.toNat : Int) * (16 * 256 ^ 23) + (x56.toNat : Int) * (16 * 256 ^ 24) + (x57.toNat : Int) * (16 * 256 ^ 25) + (x58.toNat : Int) * (16 * 256 ^ 26) + (x59.toNat : Int) * (16 * 256 ^ 27) + (x60.toNat : Int) * (16 * 256 ^ 28) + (x61.toNat : Int) * (16 * 256 ^ 29) + (x62.toNat : Int) * (16 * 256 ^ 30) + (x63.toNat : Int) * (16 * 256 ^ 31) := by
  have h31 := x31.toNat_lt
  have h32 := x32.toNat_lt
  have h33 := x33.toNat_lt
  have h34 := x34.toNat_lt
  have h35 := x35.toNat_lt
  have h36 := x36.toNat_lt
  have h37 := x37.toNat_lt
  have h38 := x38.toNat_lt
  have h39 := x39.toNat_lt
  have h40 := x40.toNat_lt
  have h41 := x41.toNat_lt
  have h42 := x42.toNat_lt
  have h43 := x43.toNat_lt
  have h44 := x44.toNat_lt
  have h45 := x45.toNat_lt
  have h46 := x46.toNat_lt
  have h47 := x47.toNat_lt
  have h48 := x48.toNat_lt
  have h49 := x49.toNat_lt
  have h50 := x50.toNat_lt
  have h51 := x51.toNat_lt
  have h52 := x52.toNat_lt
  have h53 := x53.toNat_lt
  have h54 := x54.toNat_lt
  have h55 := x55.toNat_lt
  have h56 := x56.toNat_lt
  have h57 := x57.toNat_lt
  have h58 := x58.toNat_lt
  have h59 := x59.toNat_lt
  have h60 := x60.toNat_lt
  have h61 := x61.toNat_lt
  have h62 := x62.toNat_lt
  have h63 := x63.toNat_lt
  simp only [highPart, scReduce_load, List.getD_cons_zero, List.getD_cons_succ, sl, List.drop_succ_cons, List.drop_zero,
    load3, load4, value12, shrI, Int.shiftRight_eq_div_pow, Int.ofNat_eq_natCast]
  simp (disch := omega) only [band_mask21]
  push_cast
  omega

theorem bytes64 (a : Bytes) (h : a.length = 64) :
    ∃ x0 x1 x2 x3 x4 x5 x6 x7 x8 x9 x10 x11 x12 x13 x14 x15 x16 x17 x18 x19 x20 x21 x22 x23 x24 x25 x26 x27 x28 x29 x30 x31 x32 x33 x34 x35 x36 x37 x38 x39 x40 x41 x42 x43 x44 x45 x46 x47 x48 x49 x50 x51 x52 x53 x54 x55 x56 x57 x58 x59 x60 x61 x62 x63 : UInt8, a = [x0, x1, x2, x3, x4, x5, x6, x7, x8, x9, x10, x11, x12, x13, x14, x15, x16, x17, x18, x19, x20, x21, x22, x23, x24, x25, x26, x27, x28, x29, x30, x31, x32, x33, x34, x35, x36, x37, x38, x39, x40, x41, x42, x43, x44, x45, x46, x47, x48, x49, x50, x51, x52, x53, x54, x55, x56, x57, x58, x59, x60, x61, x62, x63] := by
  rcases a with _ | ⟨x0, a⟩
  · simp at h
  rcases a with _ | ⟨x1, a⟩
  · simp at h
  rcases a with _ | ⟨x2, a⟩
  · simp at h
  rcases a with _ | ⟨x3, a⟩
  · simp at h
  rcases a with _ | ⟨x4, a⟩
  · simp at h
  rcases a with _ | ⟨x5, a⟩
  · simp at h
  rcases a with _ | ⟨x6, a⟩
  · simp at h
  rcases a with _ | ⟨x7, a⟩
  · simp at h
  rcases a with _ | ⟨x8, a⟩
  · simp at h
  rcases a with _ | ⟨x9, a⟩
  · simp at h
  rcases a with _ | ⟨x10, a⟩
  · simp at h
  rcases a with _ | ⟨x11, a⟩
  · simp at h
  rcases a with _ | ⟨x12, a⟩
  · simp at h
  rcases a with _ | ⟨x13, a⟩
  · simp at h
  rcases a with _ | ⟨x14, a⟩
  · simp at h
  rcases a with _ | ⟨x15, a⟩
  · simp at h
  rcases a with _ | ⟨x16, a⟩
  · simp at h
  rcases a with _ | ⟨x17, a⟩
  · simp at h
  rcases a with _ | ⟨x18, a⟩
  · simp at h
  rcases a with _ | ⟨x19, a⟩
  · simp at h
  rcases a with _ | ⟨x20, a⟩
  · simp at h
  rcases a with _ | ⟨x21, a⟩
  · simp at h
  rcases a with _ | ⟨x22, a⟩
  · simp at h
  rcases a with _ | ⟨x23, a⟩
  · simp at h
  rcases a with _ | ⟨x24, a⟩
  · simp at h
  rcases a with _ | ⟨x25, a⟩
  · simp at h
  rcases a with _ | ⟨x26, a⟩
  · simp at h
  rcases a with _ | ⟨x27, a⟩
  · simp at h
  rcases a with _ | ⟨x28, a⟩
  · simp at h
  rcases a with _ | ⟨x29, a⟩
  · simp at h
  rcases a with _ | ⟨x30, a⟩
  · simp at h
  rcases a with _ | ⟨x31, a⟩
  · simp at h
  rcases a with _ | ⟨x32, a⟩
  · simp at h
  rcases a with _ | ⟨x33, a⟩
  · simp at h
  rcases a with _ | ⟨x34, a⟩
  · simp at h
  rcases a with _ | ⟨x35, a⟩
  · simp at h
  rcases a with _ | ⟨x36, a⟩
  · simp at h
  rcases a with _ | ⟨x37, a⟩
  · simp at h
  rcases a with _ | ⟨x38, a⟩
  · simp at h
  rcases a with _ | ⟨x39, a⟩
  · simp at h
  rcases a with _ | ⟨x40, a⟩
  · simp at h
  rcases a with _ | ⟨x41, a⟩
  · simp at h
  rcases a with _ | ⟨x42, a⟩
  · simp at h
  rcases a with _ | ⟨x43, a⟩
  · simp at h
  rcases a with _ | ⟨x44, a⟩
  · simp at h
  rcases a with _ | ⟨x45, a⟩
  · simp at h
  rcases a with _ | ⟨x46, a⟩
  · simp at h
  rcases a with _ | ⟨x47, a⟩
  · simp at h
  rcases a with _ | ⟨x48, a⟩
  · simp at h
  rcases a with _ | ⟨x49, a⟩
  · simp at h
  rcases a with _ | ⟨x50, a⟩
  · simp at h
  rcases a with _ | ⟨x51, a⟩
  · simp at h
  rcases a with _ | ⟨x52, a⟩
  · simp at h
  rcases a with _ | ⟨x53, a⟩
  · simp at h
  rcases a with _ | ⟨x54, a⟩
  · simp at h
  rcases a with _ | ⟨x55, a⟩
  · simp at h
  rcases a with _ | ⟨x56, a⟩
  · simp at h
  rcases a with _ | ⟨x57, a⟩
  · simp at h
  rcases a with _ | ⟨x58, a⟩
  · simp at h
  rcases a with _ | ⟨x59, a⟩
  · simp at h
  rcases a with _ | ⟨x60, a⟩
  · simp at h
  rcases a with _ | ⟨x61, a⟩
  · simp at h
  rcases a with _ | ⟨x62, a⟩
  · simp at h
  rcases a with _ | ⟨x63, a⟩
  · simp at h
  cases a with
  | nil => exact ⟨x0, x1, x2, x3, x4, x5, x6, x7, x8, x9, x10, x11, x12, x13, x14, x15, x16, x17, x18, x19, x20, x21, x22, x23, x24, x25, x26, x27, x28, x29, x30, x31, x32, x33, x34, x35, x36, x37, x38, x39, x40, x41, x42, x43, x44, x45, x46, x47, x48, x49, x50, x51, x52, x53, x54, x55, x56, x57, x58, x59, x60, x61, x62, x63, rfl⟩
  | cons y ys => simp at h

theorem scReduce_load_value_explicit (x0 x1 x2 x3 x4 x5 x6 x7 x8 x9 x10 x11 x12 x13 x14 x15 x16 x17 x18 x19 x20 x21 x22 x23 x24 x25 x26 x27 x28 x29 x30 x31 x32 x33 x34 x35 x36 x37 x38 x39 x40 x41 x42 x43 x44 x45 x46 x47 x48 x49 x50 x51 x52 x53 x54 x55 x56 x57 x58 x59 x60 x61 x62 x63 : UInt8) :
    value (toL24 (scReduce_load shrI [x0, x1, x2, x3, x4, x5, x6, x7, x8, x9, x10, x11, x12, x13, x14, x15, x16, x17, x18, x19, x20, x21, x22, x23, x24, x25, x26, x27, x28, x29, x30, x31, x32, x33, x34, x35, x36, x37, x38, x39, x40, x41, x42, x43, x44, x45, x46, x47, x48, x49, x50, x51, x52, x53, x54, x55, x56, x57, x58, x59, x60, x61, x62, x63])) = (leNat [x0, x1, x2, x3, x4, x5, x6, x7, x8, x9, x10, x11, x12, x13, x14, x15, x16, x17, x18, x19, x20, x21, x22, x23, x24, x25, x26, x27, x28, x29, x30, x31, x32, x33, x34, x35, x36, x37, x38, x39, x40, x41, x42, x43, x44, x45, x46, x47, x48, x49, x50, x51, x52, x53, x54, x55, x56, x57, x58, x59, x60, x61, x62, x63] : Int) := by
  rw [value_low_high, scReduce_load_low, scReduce_load_high]
  have h31 := Int.emod_add_mul_ediv (x31.toNat : Int) 16
  simp only [leNat]
  push_cast
  linear_combination (2 ^ 248 : Int) * h31

/-- **64-byte load**: the 24 limbs loaded by scReduce have the little-endian value of the input -/
theorem scReduce_load_value (s : Bytes) (h : s.length = 64) : value (toL24 (scReduce_load shrI s)) = (leNat s : Int) := by
  obtain ⟨x0, x1, x2, x3, x4, x5, x6, x7, x8, x9, x10, x11, x12, x13, x14, x15, x16, x17, x18, x19, x20, x21, x22, x23, x24, x25, x26, x27, x28, x29, x30, x31, x32, x33, x34, x35, x36, x37, x38, x39, x40, x41, x42, x43, x44, x45, x46, x47, x48, x49, x50, x51, x52, x53, x54, x55, x56, x57, x58, x59, x60, x61, x62, x63, rfl⟩ := bytes64 s h
  exact scReduce_load_value_explicit _ _ _ _ _ _ _ _ _ _ _ _ _ _ _ _ _ _ _ _ _ _ _ _ _ _ _ _ _ _ _ _ _ _ _ _ _ _ _ _ _ _ _ _ _ _ _ _ _ _ _ _ _ _ _ _ _ _ _ _ _ _ _ _

end Dos.Ed25519

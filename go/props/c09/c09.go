// Package c09: secret-sharing algebra (share/poly.go) through the exported API on both
// the bn256 suite (production; points in G2) and the Ed25519 suite, against
//   - the Lean model driver (scalars as numbers, points as discrete logs), and
//   - an independent math/big reference (polynomial arithmetic modulo the group order) plus
//     the secret/polynomial the harness itself dealt.
package c09

import (
	"fmt"
	"math/big"
	"strconv"
	"strings"

	"github.com/DOSNetwork/core/share"
	"github.com/DOSNetwork/core/suites"
	"github.com/dedis/kyber"

	"verifharness/internal/h"
)

func init() {
	h.Register(&h.Prop{
		ID: "C09",
		Rule: "cases: rt = deal a polynomial, pick shares by a selector list (subset/permutation/multiset with nil, nil-value and out-of-range entries), " +
			"RecoverSecret+RecoverPriPoly+RecoverCommit (each called twice on the same objects, marshalled inputs compared before/after) +Check on the picks; EVERY subset of every 1<=t<=n<=8 on both groups (exhaustive space of the flag), sampled permutations with repeated indices and n up to 64; " +
			"primitive ops eval/shares/priadd/priequal/primul/commit/pubeval/pubadd/pubequal/check/recsecret/recpoly/reccommit on equal and different lengths, cross-group, " +
			"Equal on pairs differing in >= 2 positions in a correlated way (permutations of one coefficient list, swapped first/last, the same XOR mask / opposite additive delta on two or on all coefficients), " +
			"hist = a history of rt calls in ONE process (2..9 recoveries, n in 11..160, t in 2..7, index sequences in arrival order incl. pairs whose decimal digits concatenate identically, same and other group / polynomial in between), verdict after each call; " +
			"secrets 0,1,q-1,random; non-trivial = every case except a plain in-order full-set recovery; distinct = distinct case line",
		Gen:        gen,
		Exec:       exec,
		Exhaustive: func(tier string) bool { return true },
	})
}

// ---------------------------------------------------------------------------------------------
// groups

type grp struct {
	tag       string
	g         kyber.Group
	q         *big.Int
	le        bool // scalar MarshalBinary is little-endian
	divPanics bool
	pcache    map[string]kyber.Point
}

var groups map[string]*grp

func getGrp(tag string) *grp {
	if groups == nil {
		q1, _ := new(big.Int).SetString("21888242871839275222246405745257275088548364400416034343698204186575808495617", 10)
		q2, _ := new(big.Int).SetString("7237005577332262213973186563042994240857116359379907606001950938285454250989", 10)
		groups = map[string]*grp{
			"g2": {tag: "g2", g: suites.MustFind("bn256"), q: q1, divPanics: true, pcache: map[string]kyber.Point{}},
			"ed": {tag: "ed", g: suites.MustFind("ed25519"), q: q2, le: true, pcache: map[string]kyber.Point{}},
		}
	}
	g := groups[tag]
	if g == nil {
		panic("bad group tag " + tag)
	}
	return g
}

func rev(b []byte) []byte {
	r := make([]byte, len(b))
	for i := range b {
		r[len(b)-1-i] = b[i]
	}
	return r
}

// scalar of the group from a number (reduced by the harness, not by the library)
func (g *grp) sc(v *big.Int) kyber.Scalar {
	b := new(big.Int).Mod(v, g.q).Bytes()
	if g.le {
		b = rev(b)
	}
	return g.g.Scalar().SetBytes(b)
}

// number of a scalar, read from its canonical encoding
func (g *grp) num(s kyber.Scalar) *big.Int {
	b, err := s.MarshalBinary()
	if err != nil {
		panic(err)
	}
	if g.le {
		b = rev(b)
	}
	return new(big.Int).SetBytes(b)
}

// the point d·B (B = standard base of the group's Point())
func (g *grp) pt(d *big.Int) kyber.Point {
	k := d.String()
	if p, ok := g.pcache[k]; ok {
		return p.Clone()
	}
	p := g.g.Point().Mul(g.sc(d), nil)
	if len(g.pcache) < 4096 {
		g.pcache[k] = p.Clone()
	}
	return p
}

// dlog canonicalisation: the implementation's point is printed as the discrete log the
// math/big reference expects if (and only if) it IS that multiple of the base; otherwise as hex.
func (g *grp) dlog(p kyber.Point, cand *big.Int) string {
	if p == nil {
		return "nilpoint"
	}
	if cand != nil && p.Equal(g.pt(cand)) {
		return cand.String()
	}
	b, _ := p.MarshalBinary()
	return "pt:" + h.Hex(b)
}

// ---------------------------------------------------------------------------------------------
// math/big reference

func modq(v, q *big.Int) *big.Int { return new(big.Int).Mod(v, q) }

func refEval(c []*big.Int, x, q *big.Int) *big.Int {
	v := new(big.Int)
	for j := len(c) - 1; j >= 0; j-- {
		v.Mul(v, x)
		v.Add(v, c[j])
		v.Mod(v, q)
	}
	return v
}

func xOfIdx(i int64, q *big.Int) *big.Int {
	return modq(big.NewInt(0).Add(big.NewInt(i), big.NewInt(1)), q)
}

// inverse modulo the prime q; ok=false for 0
func refInv(a, q *big.Int) (*big.Int, bool) {
	a = modq(a, q)
	if a.Sign() == 0 {
		return new(big.Int), false
	}
	return new(big.Int).Exp(a, new(big.Int).Sub(q, big.NewInt(2)), q), true
}

// Lagrange interpolation at 0 of the points (xs[k], ys[k]); exact=false if two xs coincide
// (then the term uses 0 for the missing inverse: only used to canonicalise what the ed25519
// code computes outside the property's precondition, never for a verdict).
func refLagrange0(xs, ys []*big.Int, q *big.Int) (*big.Int, bool) {
	acc := new(big.Int)
	exact := true
	for i := range xs {
		num, den := big.NewInt(1), big.NewInt(1)
		for j := range xs {
			if i == j {
				continue
			}
			num.Mul(num, xs[j]).Mod(num, q)
			den.Mul(den, new(big.Int).Sub(xs[j], xs[i])).Mod(den, q)
		}
		inv, ok := refInv(den, q)
		if !ok {
			exact = false
		}
		t := new(big.Int).Mul(num, inv)
		t.Mul(t, ys[i])
		acc.Add(acc, t).Mod(acc, q)
	}
	return acc, exact
}

func refPolyMul(a, b []*big.Int, q *big.Int) []*big.Int {
	if len(a) == 0 || len(b) == 0 {
		n := len(a) + len(b) - 1
		if n < 0 {
			n = 0
		}
		r := make([]*big.Int, n)
		for i := range r {
			r[i] = new(big.Int)
		}
		return r
	}
	r := make([]*big.Int, len(a)+len(b)-1)
	for i := range r {
		r[i] = new(big.Int)
	}
	for i := range a {
		for j := range b {
			r[i+j].Add(r[i+j], new(big.Int).Mul(a[i], b[j])).Mod(r[i+j], q)
		}
	}
	return r
}

// full interpolation polynomial through (xs, ys), padded to len(xs) coefficients
func refInterpolate(xs, ys []*big.Int, q *big.Int) ([]*big.Int, bool) {
	n := len(xs)
	acc := make([]*big.Int, n)
	for i := range acc {
		acc[i] = new(big.Int)
	}
	exact := true
	for j := range xs {
		basis := []*big.Int{big.NewInt(1)}
		sc := modq(ys[j], q)
		for m := range xs {
			if m == j {
				continue
			}
			basis = refPolyMul(basis, []*big.Int{modq(new(big.Int).Neg(xs[m]), q), big.NewInt(1)}, q)
			inv, ok := refInv(new(big.Int).Sub(xs[j], xs[m]), q)
			if !ok {
				exact = false
			}
			sc.Mul(sc, inv).Mod(sc, q)
		}
		for i := range basis {
			acc[i].Add(acc[i], new(big.Int).Mul(basis[i], sc)).Mod(acc[i], q)
		}
	}
	return acc, exact
}

// ---------------------------------------------------------------------------------------------
// parsing / printing

func parseCSV(s string) []*big.Int {
	if s == "-" {
		return nil
	}
	var r []*big.Int
	for _, w := range strings.Split(s, ",") {
		r = append(r, h.BigDec(w))
	}
	return r
}
func csvBig(v []*big.Int) string {
	if len(v) == 0 {
		return "-"
	}
	s := make([]string, len(v))
	for i, x := range v {
		s[i] = x.String()
	}
	return strings.Join(s, ",")
}

type poly struct {
	g *grp
	c []*big.Int
}

func parsePoly(s string) poly {
	k := strings.Index(s, ":")
	if k < 0 {
		panic("bad poly literal " + s)
	}
	g := getGrp(s[:k])
	c := parseCSV(s[k+1:])
	for i := range c {
		c[i] = modq(c[i], g.q)
	}
	return poly{g, c}
}
func (p poly) pri() *share.PriPoly {
	cs := make([]kyber.Scalar, len(p.c))
	for i, v := range p.c {
		cs[i] = p.g.sc(v)
	}
	return share.CoefficientsToPriPoly(p.g.g, cs)
}
func (p poly) pub(beta *big.Int) *share.PubPoly {
	cs := make([]kyber.Point, len(p.c))
	for i, v := range p.c {
		cs[i] = p.g.pt(v)
	}
	return share.NewPubPoly(p.g.g, p.g.pt(beta), cs)
}

type shr struct {
	isNil bool
	i     int64
	vnil  bool
	v     *big.Int
}

func parseShares(s string) []shr {
	if s == "-" {
		return nil
	}
	var r []shr
	for _, w := range strings.Split(s, ";") {
		if w == "nil" {
			r = append(r, shr{isNil: true})
			continue
		}
		k := strings.LastIndex(w, ":")
		i, err := strconv.ParseInt(w[:k], 10, 64)
		if err != nil {
			panic("bad share " + w)
		}
		if w[k+1:] == "nil" {
			r = append(r, shr{i: i, vnil: true})
		} else {
			r = append(r, shr{i: i, v: h.BigDec(w[k+1:])})
		}
	}
	return r
}

// catch maps a Go panic of the code under test to the model's panic sites
func catch(f func() string) (out string) {
	defer func() {
		if e := recover(); e != nil {
			s := fmt.Sprint(e)
			switch {
			case strings.Contains(s, "nil pointer dereference"):
				out = "panic div0"
			case strings.Contains(s, "index out of range"):
				out = "panic index"
			case strings.Contains(s, "makeslice"):
				out = "panic neglen"
			default:
				out = "panic other:" + h.OneLine(s)
			}
		}
	}()
	return f()
}

func errKind(err error) string {
	s := err.Error()
	switch {
	case strings.Contains(s, "non-matching groups"):
		return "groups"
	case strings.Contains(s, "different number of coefficients"):
		return "coeffs"
	case strings.Contains(s, "not enough"):
		return "few"
	}
	return "other:" + h.OneLine(s)
}

func eqList(a, b []*big.Int) bool {
	if len(a) != len(b) {
		return false
	}
	for i := range a {
		if a[i].Cmp(b[i]) != 0 {
			return false
		}
	}
	return true
}

func (g *grp) coeffsOf(p *share.PriPoly) []*big.Int {
	var r []*big.Int
	for _, c := range p.Coefficients() {
		r = append(r, g.num(c))
	}
	return r
}

// usable entries as poly.go defines them, in slice order
func usable(sh []shr, n int) (idx []int64, val []*big.Int) {
	for _, s := range sh {
		if s.isNil || s.vnil || s.i < 0 || int64(n) <= s.i {
			continue
		}
		idx = append(idx, s.i)
		val = append(val, s.v)
	}
	return
}

// one share per index (poly.go since 2d8b40a): the first usable entry of every index, in slice order
func dedupFirst(idx []int64, val []*big.Int) (didx []int64, dval []*big.Int) {
	seen := map[int64]bool{}
	for k, i := range idx {
		if seen[i] {
			continue
		}
		seen[i] = true
		didx, dval = append(didx, i), append(dval, val[k])
	}
	return
}
func distinct(idx []int64) bool {
	seen := map[int64]bool{}
	for _, i := range idx {
		if seen[i] {
			return false
		}
		seen[i] = true
	}
	return true
}
func xsOf(idx []int64, q *big.Int) []*big.Int {
	r := make([]*big.Int, len(idx))
	for k, i := range idx {
		r[k] = xOfIdx(i, q)
	}
	return r
}

func priShares(g *grp, sh []shr) []*share.PriShare {
	r := make([]*share.PriShare, len(sh))
	for k, s := range sh {
		switch {
		case s.isNil:
			r[k] = nil
		case s.vnil:
			r[k] = &share.PriShare{I: int(s.i), V: nil}
		default:
			r[k] = &share.PriShare{I: int(s.i), V: g.sc(s.v)}
		}
	}
	return r
}
func pubShares(g *grp, sh []shr) []*share.PubShare {
	r := make([]*share.PubShare, len(sh))
	for k, s := range sh {
		switch {
		case s.isNil:
			r[k] = nil
		case s.vnil:
			r[k] = &share.PubShare{I: int(s.i), V: nil}
		default:
			r[k] = &share.PubShare{I: int(s.i), V: g.pt(s.v)}
		}
	}
	return r
}

// snapshots of the caller-owned inputs (review B #6: a recovery that overwrites the shares it was
// handed returns the same value and is invisible unless the inputs are looked at again)
func snapPri(g *grp, sh []*share.PriShare) string {
	var b strings.Builder
	for _, s := range sh {
		switch {
		case s == nil:
			b.WriteString("nil;")
		case s.V == nil:
			fmt.Fprintf(&b, "%d:nil;", s.I)
		default:
			fmt.Fprintf(&b, "%d:%s;", s.I, g.num(s.V))
		}
	}
	return b.String()
}
func snapPub(sh []*share.PubShare) string {
	var b strings.Builder
	for _, s := range sh {
		switch {
		case s == nil:
			b.WriteString("nil;")
		case s.V == nil:
			fmt.Fprintf(&b, "%d:nil;", s.I)
		default:
			m, _ := s.V.MarshalBinary()
			fmt.Fprintf(&b, "%d:%x;", s.I, m)
		}
	}
	return b.String()
}

// twice runs a recovery two times on the SAME objects: the second answer must be the first
func twice(name string, f func() string) (out, oracle string) {
	out = catch(f)
	if again := catch(f); again != out {
		oracle = fmt.Sprintf("second-call-differs: %s answered %q, then %q on the same objects", name, out, again)
	}
	return
}

// ---------------------------------------------------------------------------------------------
// the three recoveries with their verdicts: one share per index (first occurrence), fewer than t
// distinct usable indices = error, never a panic

func doRecSecret(g *grp, sh []shr, t, n int) (impl, oracle string) {
	idx, val := dedupFirst(usable(sh, n))
	first, fval := idx, val
	if t > 0 && len(first) > t {
		first, fval = idx[:t], val[:t]
	}
	in := priShares(g, sh)
	before := snapPri(g, in)
	impl, mut := twice("RecoverSecret", func() string {
		s, err := share.RecoverSecret(g.g, in, t, n)
		if err != nil {
			return "err " + errKind(err)
		}
		return "ok " + g.num(s).String()
	})
	if mut == "" && snapPri(g, in) != before {
		mut = "input-mutated: RecoverSecret changed the caller's shares"
	}
	defer func() {
		if oracle == "" {
			oracle = mut
		}
	}()
	switch {
	case strings.HasPrefix(impl, "panic"):
		oracle = fmt.Sprintf("recsecret-panics: %q", impl)
	case len(idx) < t:
		if impl != "err few" {
			oracle = fmt.Sprintf("recsecret-too-few-accepted: %d distinct usable < t=%d gave %q", len(idx), t, impl)
		}
	default:
		want, _ := refLagrange0(xsOf(first, g.q), fval, g.q)
		if impl != "ok "+want.String() {
			oracle = fmt.Sprintf("recsecret-wrong: want ok %s got %q", want, impl)
		}
	}
	return
}

func doRecPoly(g *grp, sh []shr, t, n int) (impl, oracle string) {
	idx, val := dedupFirst(usable(sh, n))
	first, fval := idx, val
	if t > 0 && len(first) > t {
		first, fval = idx[:t], val[:t]
	}
	in := priShares(g, sh)
	before := snapPri(g, in)
	impl, mut := twice("RecoverPriPoly", func() string {
		p, err := share.RecoverPriPoly(g.g, in, t, n)
		if err != nil {
			return "err " + errKind(err)
		}
		if p == nil {
			return "ok -"
		}
		return "ok " + csvBig(g.coeffsOf(p))
	})
	if mut == "" && snapPri(g, in) != before {
		mut = "input-mutated: RecoverPriPoly changed the caller's shares"
	}
	defer func() {
		if oracle == "" {
			oracle = mut
		}
	}()
	switch {
	case strings.HasPrefix(impl, "panic"):
		oracle = fmt.Sprintf("recpoly-panics: %q", impl)
	case len(first) != t:
		if impl != "err few" {
			oracle = fmt.Sprintf("recpoly-too-few-accepted: %d distinct usable, t=%d gave %q", len(idx), t, impl)
		}
	case t > 0:
		want, _ := refInterpolate(xsOf(first, g.q), fval, g.q)
		if impl != "ok "+csvBig(want) {
			oracle = fmt.Sprintf("recpoly-wrong: want ok %s got %q", csvBig(want), impl)
		}
	}
	return
}

func doRecCommit(g *grp, sh []shr, t, n int) (impl, oracle string) {
	idx, val := dedupFirst(usable(sh, n))
	cand, _ := refLagrange0(xsOf(idx, g.q), val, g.q)
	in := pubShares(g, sh)
	before := snapPub(in)
	impl, mut := twice("RecoverCommit", func() string {
		p, err := share.RecoverCommit(g.g, in, t, n)
		if err != nil {
			return "err " + errKind(err)
		}
		return "ok " + g.dlog(p, cand)
	})
	if mut == "" && snapPub(in) != before {
		mut = "input-mutated: RecoverCommit changed the caller's public shares"
	}
	defer func() {
		if oracle == "" {
			oracle = mut
		}
	}()
	switch {
	case strings.HasPrefix(impl, "panic"):
		oracle = fmt.Sprintf("reccommit-panics: %q", impl)
	case len(idx) < t:
		if impl != "err few" {
			oracle = fmt.Sprintf("reccommit-too-few-accepted: %d distinct usable < t=%d gave %q", len(idx), t, impl)
		}
	default:
		if impl != "ok "+cand.String() {
			oracle = fmt.Sprintf("reccommit-wrong: want ok %s got %q", cand, impl)
		}
	}
	return
}

// ---------------------------------------------------------------------------------------------

func boolStr(b bool) string {
	if b {
		return "true"
	}
	return "false"
}

func exec(line string) (res h.Result) {
	w := strings.Fields(line)
	res.Class = w[0]
	res.Nontrivial = true
	switch w[0] {
	case "eval":
		p, i := parsePoly(w[1]), int64(h.Atoi(w[2]))
		v := p.g.num(p.pri().Eval(int(i)).V)
		res.Impl = "ok " + v.String()
		want := refEval(p.c, xOfIdx(i, p.g.q), p.g.q)
		switch {
		case i < 0:
			// outside the API (Shares, xScalar, RecoverCommit and tbls only use indices >= 0; index -1 IS
			// the point zero – Props/C09 eval_at_minus_one_is_secret): model comparison only, no verdict
			res.Class = "eval-negative-index"
		case want.Cmp(v) != 0 && len(p.c) > 0 && v.Cmp(p.c[0]) == 0:
			res.Oracle = fmt.Sprintf("share-evaluated-at-zero: Eval(%d) returned f(0)", i)
		case want.Cmp(v) != 0:
			res.Oracle = fmt.Sprintf("eval-wrong: want %s got %s", want, v)
		}
	case "shares":
		p, n := parsePoly(w[1]), h.Atoi(w[2])
		var parts []string
		for k, s := range p.pri().Shares(n) {
			v := p.g.num(s.V)
			parts = append(parts, fmt.Sprintf("%d:%s", s.I, v))
			if s.I != k {
				res.Oracle = fmt.Sprintf("shares-index: entry %d has index %d", k, s.I)
			}
			x := xOfIdx(int64(k), p.g.q)
			// the library's value is the polynomial's value at ZERO (the secret) although f(k+1) is not
			if want := refEval(p.c, x, p.g.q); len(p.c) > 0 && v.Cmp(p.c[0]) == 0 && want.Cmp(v) != 0 {
				res.Oracle = fmt.Sprintf("share-evaluated-at-zero: index %d carries f(0)", k)
			}
			if want := refEval(p.c, x, p.g.q); want.Cmp(v) != 0 && res.Oracle == "" {
				res.Oracle = fmt.Sprintf("shares-wrong: index %d want %s got %s", k, want, v)
			}
		}
		if len(parts) == 0 {
			res.Impl = "ok -"
		} else {
			res.Impl = "ok " + strings.Join(parts, ";")
		}
	case "priadd":
		p, r := parsePoly(w[1]), parsePoly(w[2])
		s, err := p.pri().Add(r.pri())
		switch {
		case err != nil:
			res.Impl = "err " + errKind(err)
			if p.g == r.g && len(p.c) == len(r.c) {
				res.Oracle = "priadd-rejected: " + res.Impl
			}
		default:
			got := p.g.coeffsOf(s)
			res.Impl = "ok " + csvBig(got)
			if p.g != r.g || len(p.c) != len(r.c) {
				res.Oracle = "priadd-mismatch-accepted"
			} else {
				for i := range p.c {
					if modq(new(big.Int).Add(p.c[i], r.c[i]), p.g.q).Cmp(got[i]) != 0 {
						res.Oracle = fmt.Sprintf("priadd-wrong: coefficient %d", i)
					}
				}
				// homomorphism: (p+q)(x) = p(x)+q(x) at a share index
				x := xOfIdx(3, p.g.q)
				l := p.g.num(s.Eval(3).V)
				rr := modq(new(big.Int).Add(refEval(p.c, x, p.g.q), refEval(r.c, x, p.g.q)), p.g.q)
				if l.Cmp(rr) != 0 {
					res.Oracle = "priadd-eval-not-additive"
				}
			}
		}
		res.Class = "priadd-" + strings.Fields(res.Impl)[0]
	case "priequal":
		p, r := parsePoly(w[1]), parsePoly(w[2])
		got := p.pri().Equal(r.pri())
		res.Impl = boolStr(got)
		want := p.g == r.g && eqList(p.c, r.c)
		if got != want {
			res.Oracle = fmt.Sprintf("priequal-wrong: want %v got %v", want, got)
		}
		res.Class = "priequal-" + res.Impl
	case "primul":
		p, r := parsePoly(w[1]), parsePoly(w[2])
		res.Impl = catch(func() string {
			m := p.pri().Mul(r.pri())
			got := p.g.coeffsOf(m)
			if want := refPolyMul(p.c, r.c, p.g.q); !eqList(want, got) {
				res.Oracle = fmt.Sprintf("primul-wrong: want %s got %s", csvBig(want), csvBig(got))
			}
			return "ok " + csvBig(got)
		})
	case "commit":
		p, beta := parsePoly(w[1]), h.BigDec(w[2])
		pp := p.pri().Commit(p.g.pt(beta))
		_, cs := pp.Info()
		var parts []string
		for i, c := range cs {
			want := modq(new(big.Int).Mul(p.c[i], beta), p.g.q)
			d := p.g.dlog(c, want)
			parts = append(parts, d)
			if d != want.String() {
				res.Oracle = fmt.Sprintf("commit-wrong: coefficient %d", i)
			}
		}
		if len(parts) != len(p.c) {
			res.Oracle = "commit-length"
		}
		if len(parts) == 0 {
			res.Impl = "ok -"
		} else {
			res.Impl = "ok " + strings.Join(parts, ",")
		}
	case "pubeval":
		p, i := parsePoly(w[1]), int64(h.Atoi(w[2]))
		want := refEval(p.c, xOfIdx(i, p.g.q), p.g.q)
		s := p.pub(big.NewInt(1)).Eval(int(i))
		d := p.g.dlog(s.V, want)
		res.Impl = "ok " + d
		if d != want.String() || s.I != int(i) {
			res.Oracle = fmt.Sprintf("pubeval-wrong: want dlog %s", want)
		}
	case "pubshares":
		p, n := parsePoly(w[1]), h.Atoi(w[2])
		var parts []string
		for k, s := range p.pub(big.NewInt(1)).Shares(n) {
			want := refEval(p.c, xOfIdx(int64(k), p.g.q), p.g.q)
			d := p.g.dlog(s.V, want)
			parts = append(parts, fmt.Sprintf("%d:%s", s.I, d))
			if d != want.String() || s.I != k {
				res.Oracle = fmt.Sprintf("pubshares-wrong: entry %d", k)
			}
		}
		if len(parts) == 0 {
			res.Impl = "ok -"
		} else {
			res.Impl = "ok " + strings.Join(parts, ";")
		}
	case "pubadd":
		p, r := parsePoly(w[1]), parsePoly(w[2])
		s, err := p.pub(big.NewInt(1)).Add(r.pub(big.NewInt(1)))
		switch {
		case err != nil:
			res.Impl = "err " + errKind(err)
			if p.g == r.g && len(p.c) == len(r.c) {
				res.Oracle = "pubadd-rejected: " + res.Impl
			}
		default:
			if p.g != r.g || len(p.c) != len(r.c) {
				res.Oracle = "pubadd-mismatch-accepted"
				res.Impl = "ok ?"
				break
			}
			_, cs := s.Info()
			var parts []string
			for i, c := range cs {
				want := modq(new(big.Int).Add(p.c[i], r.c[i]), p.g.q)
				d := p.g.dlog(c, want)
				parts = append(parts, d)
				if d != want.String() {
					res.Oracle = fmt.Sprintf("pubadd-wrong: coefficient %d", i)
				}
			}
			if len(parts) == 0 {
				res.Impl = "ok -"
			} else {
				res.Impl = "ok " + strings.Join(parts, ",")
			}
		}
		res.Class = "pubadd-" + strings.Fields(res.Impl)[0]
	case "pubaddb": // pubaddb <p> <betaP> <r> <betaR>: PubPoly.Add of commitments under DIFFERENT bases: the sum keeps the receiver's base
		p, bp, r, br := parsePoly(w[1]), h.BigDec(w[2]), parsePoly(w[3]), h.BigDec(w[4])
		sum, err := p.pub(bp).Add(r.pub(br))
		if err != nil {
			res.Impl = "err " + errKind(err)
			if p.g == r.g && len(p.c) == len(r.c) {
				res.Oracle = "pubadd-rejected: " + res.Impl
			}
		} else {
			base, cs := sum.Info()
			parts := []string{"base=" + p.g.dlog(base, modq(bp, p.g.q))}
			if p.g != r.g || len(p.c) != len(r.c) {
				res.Oracle = "pubadd-mismatch-accepted"
			}
			for i, c := range cs {
				if i >= len(r.c) {
					break
				}
				want := modq(new(big.Int).Add(p.c[i], r.c[i]), p.g.q)
				d := p.g.dlog(c, want)
				parts = append(parts, d)
				if d != want.String() {
					res.Oracle = fmt.Sprintf("pubadd-wrong: coefficient %d", i)
				}
			}
			if parts[0] != "base="+modq(bp, p.g.q).String() && res.Oracle == "" {
				res.Oracle = "pubadd-base: the sum does not carry the receiver's base"
			}
			res.Impl = "ok " + strings.Join(parts, ",")
		}
		res.Class = "pubaddb-" + strings.Fields(res.Impl)[0]
	case "coeffs": // coeffs <p>: Coefficients(), Threshold(), Secret() of a private polynomial
		p := parsePoly(w[1])
		pp := p.pri()
		res.Impl = catch(func() string {
			sec := "-"
			if len(p.c) > 0 {
				sec = p.g.num(pp.Secret()).String()
			}
			return fmt.Sprintf("ok %s t=%d secret=%s", csvBig(p.g.coeffsOf(pp)), pp.Threshold(), sec)
		})
		want := "-"
		if len(p.c) > 0 {
			want = p.c[0].String()
		}
		if res.Impl != fmt.Sprintf("ok %s t=%d secret=%s", csvBig(p.c), len(p.c), want) {
			res.Oracle = "coeffs-wrong: " + res.Impl
		}
	case "pubequal":
		p, r := parsePoly(w[1]), parsePoly(w[2])
		want := p.g == r.g && eqList(p.c, r.c)
		res.Impl = catch(func() string { return boolStr(p.pub(big.NewInt(1)).Equal(r.pub(big.NewInt(1)))) })
		if res.Impl != boolStr(want) {
			switch {
			case strings.HasPrefix(res.Impl, "panic") && len(r.c) < len(p.c):
				res.Oracle = "pubequal-shorter-argument-panics: " + res.Impl
			case res.Impl == "true" && len(r.c) > len(p.c):
				res.Oracle = "pubequal-prefix-true: a proper prefix compares equal"
			default:
				res.Oracle = fmt.Sprintf("pubequal-wrong: want %v got %s", want, res.Impl)
			}
		}
		res.Class = "pubequal-" + strings.Fields(res.Impl)[0]
	case "check":
		p, beta, i, v := parsePoly(w[1]), h.BigDec(w[2]), int64(h.Atoi(w[3])), h.BigDec(w[4])
		got := p.pub(beta).Check(&share.PriShare{I: int(i), V: p.g.sc(v)})
		res.Impl = boolStr(got)
		want := refEval(p.c, xOfIdx(i, p.g.q), p.g.q).Cmp(modq(new(big.Int).Mul(v, beta), p.g.q)) == 0
		if got != want {
			res.Oracle = fmt.Sprintf("check-wrong: want %v got %v", want, got)
		}
		res.Class = "check-" + res.Impl
	case "tors": // tors <pubpoly> <beta> <i> <v> <kind>: as check, but the first commitment carries a small-order component
		p, beta, i, v, kind := parsePoly(w[1]), h.BigDec(w[2]), int64(h.Atoi(w[3])), h.BigDec(w[4]), h.Atoi(w[5])
		T := p.g.g.Point()
		if err := T.UnmarshalBinary(h.UnHex(smallOrder[kind%len(smallOrder)])); err != nil {
			panic("small-order point does not decode: " + err.Error())
		}
		cs := make([]kyber.Point, len(p.c))
		for j, c := range p.c {
			cs[j] = p.g.pt(c)
		}
		cs[0] = p.g.g.Point().Add(cs[0], T)
		pub := share.NewPubPoly(p.g.g, p.g.pt(beta), cs)
		got := pub.Check(&share.PriShare{I: int(i), V: p.g.sc(v)})
		res.Impl = boolStr(got)
		// Eval(i) = f(i+1)·B + T lies outside <B> (T has order 2, 4 or 8, the base has odd prime order):
		// it equals v·beta·B for NO scalar v, so no share value may be accepted
		if got {
			res.Oracle = fmt.Sprintf("tors-share-accepted: Check accepted a share against a commitment with a small-order component (kind %d)", kind)
		}
		if T.Equal(p.g.g.Point().Null()) || !p.g.g.Point().Mul(p.g.sc(big.NewInt(8)), T).Equal(p.g.g.Point().Null()) {
			res.Oracle = "tors-bad-case: the offered point is not a non-trivial small-order point"
		}
		res.Class = "tors-" + res.Impl
	case "recsecret":
		g, t, n, sh := getGrp(w[1]), h.Atoi(w[2]), h.Atoi(w[3]), parseShares(w[4])
		res.Impl, res.Oracle = doRecSecret(g, sh, t, n)
		res.Class = "recsecret-" + strings.Fields(res.Impl)[0]
	case "recpoly":
		g, t, n, sh := getGrp(w[1]), h.Atoi(w[2]), h.Atoi(w[3]), parseShares(w[4])
		res.Impl, res.Oracle = doRecPoly(g, sh, t, n)
		res.Class = "recpoly-" + strings.Fields(res.Impl)[0]
	case "reccommit":
		g, t, n, sh := getGrp(w[1]), h.Atoi(w[2]), h.Atoi(w[3]), parseShares(w[4])
		res.Impl, res.Oracle = doRecCommit(g, sh, t, n)
		res.Class = "reccommit-" + strings.Fields(res.Impl)[0]
	case "rt":
		res = execRT(w)
	case "hist":
		res = execHist(w)
	default:
		panic("bad case line")
	}
	return
}

// encodings of Ed25519 points of order 2, 4, 4, 8 (the torsion subgroup the cofactor 8 leaves)
var smallOrder = []string{
	"ecffffffffffffffffffffffffffffffffffffffffffffffffffffffffffff7f",
	"0000000000000000000000000000000000000000000000000000000000000000",
	"0000000000000000000000000000000000000000000000000000000000000080",
	"26e8958fc2b227b045c3f489f2ef98f0d5dfac05d3c63339b13802886d53fc05",
}

var (
	rtMemoKey  string
	rtMemoPub  *share.PubPoly
	rtMemoEval map[int]*share.PubShare
	rtMemoChk  map[int][2]bool
)

// rt <poly> <beta> <n> <selectors>: the property end to end on shares the LIBRARY dealt.
func execRT(w []string) (res h.Result) {
	p, beta, n := parsePoly(w[1]), h.BigDec(w[2]), h.Atoi(w[3])
	g, t := p.g, len(p.c)
	pri := p.pri()
	dealt := pri.Shares(n)
	// the exhaustive stream asks for the same (polynomial, base) under every subset: the library's
	// Commit / Eval / Check answers for it are computed once per process and reused
	ck := w[1] + "/" + w[2]
	if rtMemoKey != ck {
		rtMemoKey, rtMemoPub = ck, pri.Commit(g.pt(beta))
		rtMemoEval, rtMemoChk = map[int]*share.PubShare{}, map[int][2]bool{}
	}
	pub := rtMemoPub
	pubEval := func(i int) *share.PubShare {
		if e, ok := rtMemoEval[i]; ok {
			return &share.PubShare{I: e.I, V: e.V.Clone()}
		}
		e := pub.Eval(i)
		rtMemoEval[i] = &share.PubShare{I: e.I, V: e.V.Clone()}
		return e
	}
	var sels []string
	if w[4] != "-" {
		sels = strings.Split(w[4], ",")
	}
	var chosen []*share.PriShare
	var pubs []*share.PubShare
	var sh []shr // the same picks for the verdict (values from the reference evaluation)
	chk := ""
	var orc []string
	plain := true
	for k, s := range sels {
		switch {
		case s == "nil":
			chosen, pubs, sh = append(chosen, nil), append(pubs, nil), append(sh, shr{isNil: true})
			chk += "-"
			plain = false
		case strings.HasSuffix(s, ":nil"):
			i := h.Atoi(strings.TrimSuffix(s, ":nil"))
			chosen = append(chosen, &share.PriShare{I: i, V: nil})
			pubs = append(pubs, &share.PubShare{I: i, V: nil})
			sh = append(sh, shr{i: int64(i), vnil: true})
			chk += "-"
			plain = false
		case strings.HasPrefix(s, "x"):
			i := h.Atoi(s[1:])
			chosen = append(chosen, &share.PriShare{I: i, V: g.sc(big.NewInt(1))})
			pubs = append(pubs, &share.PubShare{I: i, V: pubEval(i).V})
			sh = append(sh, shr{i: int64(i), v: big.NewInt(1)})
			if pub.Check(chosen[len(chosen)-1]) {
				chk += "1"
			} else {
				chk += "0"
			}
			plain = false
		default:
			i := h.Atoi(s)
			if i != k {
				plain = false
			}
			chosen = append(chosen, dealt[i])
			pubs = append(pubs, pubEval(i))
			sh = append(sh, shr{i: int64(i), v: refEval(p.c, xOfIdx(int64(i), g.q), g.q)})
			cr, ok := rtMemoChk[i]
			if !ok {
				// exactly the true value checks; a neighbouring value must not
				bad := &share.PriShare{I: i, V: g.g.Scalar().Add(dealt[i].V, g.sc(big.NewInt(1)))}
				cr = [2]bool{pub.Check(dealt[i]), pub.Check(bad)}
				rtMemoChk[i] = cr
			}
			if cr[0] {
				chk += "1"
			} else {
				chk += "0"
				orc = append(orc, fmt.Sprintf("rt-true-share-rejected: index %d", i))
			}
			if cr[1] {
				orc = append(orc, fmt.Sprintf("rt-wrong-share-accepted: index %d", i))
			}
		}
	}
	if len(sels) != n {
		plain = false
	}
	allIdx, allVal := usable(sh, n)
	idx, _ := dedupFirst(allIdx, allVal) // the DISTINCT usable indices: what the property counts
	secret := p.c[0]

	// every recovery runs TWICE on the same caller-owned objects; the marshalled inputs are compared
	// before and after (a recovery must not write into the shares it is handed)
	priBefore, pubBefore := snapPri(g, chosen), snapPub(pubs)
	sec, m1 := twice("RecoverSecret", func() string {
		s, err := share.RecoverSecret(g.g, chosen, t, n)
		if err != nil {
			return "err " + errKind(err)
		}
		return "ok " + g.num(s).String()
	})
	pol, m2 := twice("RecoverPriPoly", func() string {
		q, err := share.RecoverPriPoly(g.g, chosen, t, n)
		if err != nil {
			return "err " + errKind(err)
		}
		return "ok " + csvBig(g.coeffsOf(q))
	})
	// candidate dlog for canonicalisation: the dealt secret times beta
	cand := modq(new(big.Int).Mul(secret, beta), g.q)
	com, m3 := twice("RecoverCommit", func() string {
		c, err := share.RecoverCommit(g.g, pubs, t, n)
		if err != nil {
			return "err " + errKind(err)
		}
		return "ok " + g.dlog(c, cand)
	})
	for _, m := range []string{m1, m2, m3} {
		if m != "" {
			orc = append(orc, "rt-"+m)
		}
	}
	if snapPri(g, chosen) != priBefore {
		orc = append(orc, "rt-input-mutated: the caller's private shares changed during the recoveries")
	}
	if snapPub(pubs) != pubBefore {
		orc = append(orc, "rt-input-mutated: the caller's public shares changed during RecoverCommit")
	}
	if chk == "" {
		chk = "-"
	}
	res.Impl = fmt.Sprintf("sec=%s poly=%s com=%s chk=%s", sec, pol, com, chk)

	// verdicts from what the harness dealt (no reference arithmetic needed): every usable pick is a
	// true share, so >= t DISTINCT usable indices (any order, any repetition, any junk) must give the
	// secret / the polynomial / the commitment, fewer an error, and nothing may ever panic
	for _, o := range []struct{ name, out string }{{"RecoverSecret", sec}, {"RecoverPriPoly", pol}, {"RecoverCommit", com}} {
		if strings.HasPrefix(o.out, "panic") {
			orc = append(orc, fmt.Sprintf("rt-panics: %s gave %q", o.name, o.out))
		}
	}
	if len(idx) < t {
		if sec != "err few" {
			orc = append(orc, fmt.Sprintf("rt-too-few-accepted: RecoverSecret with %d < t=%d distinct usable gave %q", len(idx), t, sec))
		}
		if pol != "err few" {
			orc = append(orc, fmt.Sprintf("rt-too-few-accepted: RecoverPriPoly gave %q", pol))
		}
		if com != "err few" {
			orc = append(orc, fmt.Sprintf("rt-too-few-accepted: RecoverCommit gave %q", com))
		}
	} else {
		if sec != "ok "+secret.String() {
			orc = append(orc, fmt.Sprintf("rt-secret-not-recovered: want ok %s got %q", secret, sec))
		}
		if pol != "ok "+csvBig(p.c) {
			orc = append(orc, fmt.Sprintf("rt-poly-not-recovered: got %q", pol))
		}
		if com != "ok "+modq(new(big.Int).Mul(secret, beta), g.q).String() {
			orc = append(orc, fmt.Sprintf("rt-commit-not-recovered: got %q", com))
		}
	}
	if len(orc) > 0 {
		res.Oracle = orc[0]
	}
	res.Nontrivial = !plain
	switch {
	case len(idx) < t:
		res.Class = "rt-few"
	case !distinct(allIdx):
		res.Class = fmt.Sprintf("rt-dup-%s", g.tag)
	default:
		res.Class = fmt.Sprintf("rt-ok-%s-t%d", g.tag, t)
	}
	return
}

// hist <call>|<call>|…  with call = <poly>~<beta>~<n>~<selectors> (the arguments of an rt case):
// a HISTORY of recoveries inside one process. Every call is a complete rt case (RecoverSecret,
// RecoverPriPoly, RecoverCommit twice each, Check) with its own verdict, evaluated right after the
// call: a recovery is a function of its arguments only, so call k of a history must answer what it
// answers alone – whatever index sequences, groups and thresholds the earlier calls used (a memo
// table keyed ambiguously, a pooled scratch scalar, a cached denominator show up here and only here).
func execHist(w []string) (res h.Result) {
	calls := strings.Split(w[1], "|")
	var outs []string
	for k, c := range calls {
		f := strings.Split(c, "~")
		if len(f) != 4 {
			panic("bad case line: hist call is not poly~beta~n~selectors")
		}
		r := execRT([]string{"rt", f[0], f[1], f[2], f[3]})
		outs = append(outs, r.Impl)
		if r.Oracle != "" && res.Oracle == "" {
			sig, detail := r.Oracle, ""
			if j := strings.Index(r.Oracle, ":"); j >= 0 {
				sig, detail = r.Oracle[:j], r.Oracle[j+1:]
			}
			res.Oracle = fmt.Sprintf("%s: call %d of %d of a history (%s over %s):%s", sig, k+1, len(calls), f[0][:2], f[3], detail)
		}
	}
	res.Impl = strings.Join(outs, " | ")
	res.Class = fmt.Sprintf("hist-%d", len(calls))
	res.Nontrivial = true
	return
}

// digit-colliding index lists: a list A of t distinct indices < n and a DIFFERENT list B of t distinct
// indices < n whose decimal digits concatenate to the same string ((1,12) / (11,2), (1,2,13) / (12,1,3))
func collidingLists(rng *h.Rng, t, n int) (a, b []int, ok bool) {
	for try := 0; try < 200; try++ {
		a = rng.Perm(n)[:t]
		str := ""
		for _, i := range a {
			str += strconv.Itoa(i)
		}
		var all [][]int
		var rec func(pos int, cur []int)
		rec = func(pos int, cur []int) {
			if len(all) > 64 {
				return
			}
			if len(cur) == t {
				if pos == len(str) {
					all = append(all, append([]int{}, cur...))
				}
				return
			}
			for l := 1; l <= 3 && pos+l <= len(str); l++ {
				tok := str[pos : pos+l]
				if l > 1 && tok[0] == '0' {
					break
				}
				v, _ := strconv.Atoi(tok)
				dup := v >= n
				for _, c := range cur {
					dup = dup || c == v
				}
				if !dup {
					rec(pos+l, append(cur, v))
				}
			}
		}
		rec(0, nil)
		var others [][]int
		for _, c := range all {
			same := true
			for k := range c {
				same = same && c[k] == a[k]
			}
			if !same {
				others = append(others, c)
			}
		}
		if len(others) > 0 {
			return a, others[rng.Intn(len(others))], true
		}
	}
	return nil, nil, false
}

// one history line: recoveries over colliding and random index sequences, n > 10, same and other groups
func history(rng *h.Rng, gs []*grp, k int) string {
	g := gs[k%2]
	o := gs[(k+1)%2]
	n := 11 + rng.Intn(30)
	if k%5 == 4 {
		n = 101 + rng.Intn(60) // three-digit indices
	}
	t := 2 + rng.Intn(3)
	if k%7 == 6 {
		t = 5 + rng.Intn(3)
	}
	c := randPoly(g, rng, t, rng.Intn(8))
	beta := big.NewInt(1)
	if rng.Intn(2) == 0 {
		beta = rng.Big(g.q)
	}
	call := func(g *grp, c []*big.Int, beta *big.Int, n int, sel []int) string {
		return fmt.Sprintf("%s~%s~%d~%s", polyLit(g, c), beta, n, joinInts(sel))
	}
	var calls []string
	a, b, ok := collidingLists(rng, t, n)
	if !ok {
		a, b = rng.Perm(n)[:t], rng.Perm(n)[:t]
	}
	switch k % 4 {
	case 0: // A then B, same polynomial
		calls = []string{call(g, c, beta, n, a), call(g, c, beta, n, b)}
	case 1: // B then A, with a call on the other group and one on another polynomial of this group in between
		c2 := randPoly(g, rng, t, rng.Intn(8))
		co := randPoly(o, rng, t, rng.Intn(8))
		calls = []string{call(g, c, beta, n, b), call(o, co, big.NewInt(1), n, a), call(g, c2, beta, n, b), call(g, c, beta, n, a)}
	case 2: // A, A again, B, and B extended by further shares (another length)
		ext := append(append([]int{}, b...), rng.Perm(n)[:2]...)
		calls = []string{call(g, c, beta, n, a), call(g, c, beta, n, a), call(g, c, beta, n, b), call(g, c, beta, n, ext)}
	case 3: // a longer random history: 5..8 calls, random subsets in arrival order, two polynomials
		c2 := randPoly(g, rng, t, rng.Intn(8))
		calls = []string{call(g, c, beta, n, a)}
		for j := 4 + rng.Intn(4); j > 0; j-- {
			cc := c
			if rng.Bool() {
				cc = c2
			}
			sel := rng.Perm(n)[:t+rng.Intn(2)]
			if j%3 == 0 {
				sel = b
			}
			calls = append(calls, call(g, cc, beta, n, sel))
		}
	}
	return "hist " + strings.Join(calls, "|")
}

// ---------------------------------------------------------------------------------------------
// generation

func randPoly(g *grp, rng *h.Rng, t int, secretKind int) []*big.Int {
	c := make([]*big.Int, t)
	for i := range c {
		c[i] = rng.Big(g.q)
	}
	if t > 0 {
		switch secretKind % 4 {
		case 0:
			c[0] = big.NewInt(0)
		case 1:
			c[0] = big.NewInt(1)
		case 2:
			c[0] = new(big.Int).Sub(g.q, big.NewInt(1))
		}
	}
	return c
}

func polyLit(g *grp, c []*big.Int) string { return g.tag + ":" + csvBig(c) }

func joinInts(v []int) string {
	if len(v) == 0 {
		return "-"
	}
	s := make([]string, len(v))
	for i, x := range v {
		s[i] = strconv.Itoa(x)
	}
	return strings.Join(s, ",")
}

func sharesLit(sh []shr) string {
	if len(sh) == 0 {
		return "-"
	}
	var parts []string
	for _, s := range sh {
		switch {
		case s.isNil:
			parts = append(parts, "nil")
		case s.vnil:
			parts = append(parts, fmt.Sprintf("%d:nil", s.i))
		default:
			parts = append(parts, fmt.Sprintf("%d:%s", s.i, s.v))
		}
	}
	return strings.Join(parts, ";")
}

func gen(tier string, rng *h.Rng, emit func(string)) {
	thorough := tier == "thorough"
	gs := []*grp{getGrp("g2"), getGrp("ed")}

	// 1. EXHAUSTIVE: every subset of every 1 <= t <= n <= 8, both groups
	maxN := 8
	kind := 0
	for _, g := range gs {
		for n := 1; n <= maxN; n++ {
			for t := 1; t <= n; t++ {
				c := randPoly(g, rng, t, kind)
				kind++
				beta := big.NewInt(1)
				if kind%3 == 0 {
					beta = rng.Big(g.q)
				}
				for mask := 0; mask < 1<<uint(n); mask++ {
					var sel []int
					for i := 0; i < n; i++ {
						if mask>>uint(i)&1 == 1 {
							sel = append(sel, i)
						}
					}
					emit(fmt.Sprintf("rt %s %s %d %s", polyLit(g, c), beta, n, joinInts(sel)))
				}
			}
		}
	}

	// 2. sampled permutations / multisets / junk entries, n up to 64
	nperm := 400
	if thorough {
		nperm = 6000
	}
	for k := 0; k < nperm; k++ {
		g := gs[k%2]
		n := 1 + rng.Intn(10)
		if k%7 == 0 {
			n = 9 + rng.Intn(56)
		}
		t := 1 + rng.Intn(n)
		if n > 16 && g.tag == "g2" && !thorough {
			t = 1 + rng.Intn(12)
		}
		c := randPoly(g, rng, t, rng.Intn(8))
		perm := rng.Perm(n)
		take := rng.Intn(n + 1)
		switch rng.Intn(4) {
		case 0:
			take = n
		case 1:
			take = t
		case 2:
			if t > 1 {
				take = t - 1
			}
		}
		var sel []string
		for _, i := range perm[:take] {
			sel = append(sel, strconv.Itoa(i))
			switch rng.Intn(9) {
			case 0:
				sel = append(sel, "nil")
			case 1:
				sel = append(sel, fmt.Sprintf("%d:nil", rng.Intn(n)))
			case 2:
				sel = append(sel, fmt.Sprintf("x%d", n+rng.Intn(5)))
			case 3:
				sel = append(sel, fmt.Sprintf("x%d", -1-rng.Intn(3)))
			}
		}
		if k%3 == 0 && take > 0 { // repeated indices anywhere (front, middle, back): one share per index counts
			for r := 1 + rng.Intn(3); r > 0; r-- {
				sel = append(sel, strconv.Itoa(perm[rng.Intn(take)]))
				j := rng.Intn(len(sel))
				if r == 1 && rng.Bool() {
					j = rng.Intn(1 + len(sel)/4) // among the first entries
				}
				sel[j], sel[len(sel)-1] = sel[len(sel)-1], sel[j]
			}
		}
		s := "-"
		if len(sel) > 0 {
			s = strings.Join(sel, ",")
		}
		beta := big.NewInt(1)
		if rng.Intn(3) == 0 {
			beta = rng.Big(g.q)
		}
		emit(fmt.Sprintf("rt %s %s %d %s", polyLit(g, c), beta, n, s))
	}

	// 2b. HISTORIES: several recoveries in one process over different index sequences (n > 10, arrival
	// order, index lists whose decimal digits concatenate identically, same and other groups)
	nhist := 80
	if thorough {
		nhist = 1200
	}
	for k := 0; k < nhist; k++ {
		emit(history(rng, gs, k))
	}

	// 3. primitives
	nprim := 60
	if thorough {
		nprim = 600
	}
	for k := 0; k < nprim; k++ {
		g := gs[k%2]
		o := gs[(k+1)%2]
		t := rng.Intn(7)
		c := randPoly(g, rng, t, rng.Intn(8))
		for _, i := range []int{-1, 0, 1, 2, 7, 63, 65535, 1 << 30} {
			emit(fmt.Sprintf("eval %s %d", polyLit(g, c), i))
		}
		emit(fmt.Sprintf("shares %s %d", polyLit(g, c), rng.Intn(12)))
		emit(fmt.Sprintf("pubshares %s %d", polyLit(g, c), rng.Intn(6)))
		// equal / different length, prefix relations, one coefficient changed, cross-group
		d := randPoly(g, rng, t, rng.Intn(8))
		longer := append(append([]*big.Int{}, c...), rng.Big(g.q))
		zext := append(append([]*big.Int{}, c...), big.NewInt(0))
		var shorter []*big.Int
		if t > 0 {
			shorter = c[:t-1]
		}
		changed := append([]*big.Int{}, c...)
		if t > 0 {
			j := rng.Intn(t)
			changed[j] = modq(new(big.Int).Add(changed[j], big.NewInt(1)), g.q)
		}
		others := [][]*big.Int{c, d, longer, zext, shorter, changed}
		for _, x := range others {
			emit(fmt.Sprintf("priequal %s %s", polyLit(g, c), polyLit(g, x)))
			emit(fmt.Sprintf("pubequal %s %s", polyLit(g, c), polyLit(g, x)))
			emit(fmt.Sprintf("priadd %s %s", polyLit(g, c), polyLit(g, x)))
			emit(fmt.Sprintf("pubadd %s %s", polyLit(g, c), polyLit(g, x)))
		}
		small := []*big.Int{big.NewInt(int64(rng.Intn(5))), big.NewInt(int64(rng.Intn(5)))}
		emit(fmt.Sprintf("priequal %s %s", polyLit(g, small), polyLit(o, small)))
		emit(fmt.Sprintf("pubequal %s %s", polyLit(g, small), polyLit(o, small)))
		emit(fmt.Sprintf("priadd %s %s", polyLit(g, small), polyLit(o, small)))
		emit(fmt.Sprintf("pubadd %s %s", polyLit(g, small), polyLit(o, small)))
		emit(fmt.Sprintf("pubaddb %s %s %s %s", polyLit(g, c), rng.Big(g.q), polyLit(g, d), rng.Big(g.q)))
		emit(fmt.Sprintf("pubaddb %s 1 %s %s", polyLit(g, c), polyLit(g, longer), rng.Big(g.q)))
		emit(fmt.Sprintf("coeffs %s", polyLit(g, c)))
		emit(fmt.Sprintf("primul %s %s", polyLit(g, c), polyLit(g, d[:rng.Intn(t+1)])))
		emit(fmt.Sprintf("primul %s %s", polyLit(g, c), polyLit(g, []*big.Int{rng.Big(g.q), big.NewInt(1)})))
		beta := rng.Big(g.q)
		emit(fmt.Sprintf("commit %s %s", polyLit(g, c), beta))
		emit(fmt.Sprintf("commit %s 1", polyLit(g, c)))
		i := rng.Intn(9)
		emit(fmt.Sprintf("pubeval %s %d", polyLit(g, c), i))
		// check: the true value, a neighbour, the value for another index, zero
		pubc := make([]*big.Int, len(c))
		for j := range c {
			pubc[j] = modq(new(big.Int).Mul(c[j], beta), g.q)
		}
		v := refEval(c, xOfIdx(int64(i), g.q), g.q)
		emit(fmt.Sprintf("check %s %s %d %s", polyLit(g, pubc), beta, i, v))
		emit(fmt.Sprintf("check %s %s %d %s", polyLit(g, pubc), beta, i, modq(new(big.Int).Add(v, big.NewInt(1)), g.q)))
		emit(fmt.Sprintf("check %s %s %d %s", polyLit(g, pubc), beta, i+1, v))
		emit(fmt.Sprintf("check %s %s %d 0", polyLit(g, pubc), beta, i))
		// Ed25519 only (cofactor 8): the same commitment polynomial with a small-order component added to
		// its first commitment; no share value may check against it (review B #4)
		if g.tag == "ed" && len(c) > 0 {
			emit(fmt.Sprintf("tors %s %s %d %s %d", polyLit(g, pubc), beta, i, v, k))
			emit(fmt.Sprintf("tors %s %s %d %s %d", polyLit(g, pubc), beta, i, modq(new(big.Int).Add(v, big.NewInt(1)), g.q), k+1))
		}
	}
	// 3b. Equal on pairs that differ in >= 2 positions in a CORRELATED way (seed C09g-1: differences folded
	// with XOR instead of OR cancel each other): permutations of one coefficient list, swapped first/last,
	// two coefficients changed by the same XOR mask, by the same additive delta with opposite sign, all
	// coefficients changed by one mask; PriPoly.Equal and PubPoly.Equal, both groups
	ncorr := 40
	if thorough {
		ncorr = 400
	}
	for k := 0; k < ncorr; k++ {
		g := gs[k%2]
		t := 2 + rng.Intn(5)
		c := randPoly(g, rng, t, rng.Intn(8))
		if k%5 == 0 { // small coefficients: 5+9x vs 9+5x
			for j := range c {
				c[j] = big.NewInt(int64(1 + rng.Intn(12)))
			}
		}
		cp := func() []*big.Int { return append([]*big.Int{}, c...) }
		var vars [][]*big.Int
		i, j := rng.Intn(t), rng.Intn(t)
		for j == i {
			j = rng.Intn(t)
		}
		v := cp() // two coefficients swapped
		v[i], v[j] = v[j], v[i]
		vars = append(vars, v)
		v = cp() // first and last swapped
		v[0], v[t-1] = v[t-1], v[0]
		vars = append(vars, v)
		v = cp() // reversed
		for a, b := 0, t-1; a < b; a, b = a+1, b-1 {
			v[a], v[b] = v[b], v[a]
		}
		vars = append(vars, v)
		v = make([]*big.Int, t) // a random permutation
		for a, b := range rng.Perm(t) {
			v[a] = c[b]
		}
		vars = append(vars, v)
		for _, mask := range []*big.Int{big.NewInt(1), big.NewInt(1 << 20), new(big.Int).Lsh(big.NewInt(1), uint(rng.Intn(250))), rng.Big(new(big.Int).Lsh(big.NewInt(1), 200))} {
			v = cp() // two coefficients changed by the same XOR mask
			v[i], v[j] = modq(new(big.Int).Xor(v[i], mask), g.q), modq(new(big.Int).Xor(v[j], mask), g.q)
			vars = append(vars, v)
			v = cp() // every coefficient changed by that mask
			for a := range v {
				v[a] = modq(new(big.Int).Xor(v[a], mask), g.q)
			}
			vars = append(vars, v)
			v = cp() // +delta on one, -delta on another
			v[i], v[j] = modq(new(big.Int).Add(v[i], mask), g.q), modq(new(big.Int).Sub(v[j], mask), g.q)
			vars = append(vars, v)
		}
		for _, x := range vars {
			emit(fmt.Sprintf("priequal %s %s", polyLit(g, c), polyLit(g, x)))
			emit(fmt.Sprintf("pubequal %s %s", polyLit(g, c), polyLit(g, x)))
		}
	}
	emit("primul g2:- g2:-")
	emit("primul ed:- ed:-")
	emit("primul g2:- g2:1,2")

	// 4. recoveries on arbitrary share lists (values need not come from a polynomial of degree < t)
	nrec := 150
	if thorough {
		nrec = 3000
	}
	for k := 0; k < nrec; k++ {
		g := gs[k%2]
		n := 1 + rng.Intn(9)
		t := rng.Intn(n + 2)
		m := rng.Intn(n + 3)
		var sh []shr
		perm := rng.Perm(n)
		for j := 0; j < m; j++ {
			switch rng.Intn(10) {
			case 0:
				sh = append(sh, shr{isNil: true})
			case 1:
				sh = append(sh, shr{i: int64(rng.Intn(n)), vnil: true})
			case 2:
				sh = append(sh, shr{i: int64(n + rng.Intn(3)), v: rng.Big(g.q)})
			case 3:
				sh = append(sh, shr{i: int64(-1 - rng.Intn(2)), v: rng.Big(g.q)})
			case 4:
				if k%2 == 0 { // repeated index (possibly with another value: the first occurrence counts)
					sh = append(sh, shr{i: int64(rng.Intn(n)), v: rng.Big(g.q)})
					break
				}
				fallthrough
			default:
				sh = append(sh, shr{i: int64(perm[j%n]), v: rng.Big(g.q)})
				if j >= n {
					sh[len(sh)-1].isNil = true
				}
			}
		}
		emit(fmt.Sprintf("recsecret %s %d %d %s", g.tag, t, n, sharesLit(sh)))
		emit(fmt.Sprintf("recpoly %s %d %d %s", g.tag, t, n, sharesLit(sh)))
		emit(fmt.Sprintf("reccommit %s %d %d %s", g.tag, t, n, sharesLit(sh)))
	}
}

/-
C10 layer 4/6 — the Frobenius maps of gfp6.go / gfp12.go and `finalExponentiation` of optate.go,
transcribed over ANY base type, with the seven ξ-power constants of constants.go as a parameter
(`FrobConsts`). Model/Bn256CPairing.lean instantiates them at the Montgomery gfP with the
regenerated constants; Proofs/Bn256FinalExp.lean proves over every field that, whenever the
constants satisfy their defining relations, every map here is multiplicative.
-/
import DosModel.Model.Bn256Tower

namespace Dos.Bn256

/-- the constants of constants.go used by the Frobenius maps -/
structure FrobConsts (α : Type) where
  xiToPMinus1Over6 : Fp2 α
  xiToPMinus1Over3 : Fp2 α
  xiToPMinus1Over2 : Fp2 α
  xiTo2PMinus2Over3 : Fp2 α
  xiToPSquaredMinus1Over3 : α
  xiTo2PSquaredMinus2Over3 : α
  xiToPSquaredMinus1Over6 : α

section
variable {α : Type} [Add α] [Sub α] [Neg α] [Mul α] [Zero α] [One α] [Inv α]

def Fp6.frobeniusG (cs : FrobConsts α) (a : Fp6 α) : Fp6 α :=
  let ex := a.x.conjugate
  let ey := a.y.conjugate
  let ez := a.z.conjugate
  ⟨ex.mul cs.xiTo2PMinus2Over3, ey.mul cs.xiToPMinus1Over3, ez⟩

def Fp6.frobeniusP2G (cs : FrobConsts α) (a : Fp6 α) : Fp6 α :=
  ⟨a.x.mulScalar cs.xiTo2PSquaredMinus2Over3, a.y.mulScalar cs.xiToPSquaredMinus1Over3, a.z⟩

def Fp6.frobeniusP4G (cs : FrobConsts α) (a : Fp6 α) : Fp6 α :=
  ⟨a.x.mulScalar cs.xiToPSquaredMinus1Over3, a.y.mulScalar cs.xiTo2PSquaredMinus2Over3, a.z⟩

def Fp12.frobeniusG (cs : FrobConsts α) (a : Fp12 α) : Fp12 α :=
  let ex := Fp6.frobeniusG cs a.x
  let ey := Fp6.frobeniusG cs a.y
  ⟨ex.mulScalar cs.xiToPMinus1Over6, ey⟩

def Fp12.frobeniusP2G (cs : FrobConsts α) (a : Fp12 α) : Fp12 α :=
  let ex := Fp6.frobeniusP2G cs a.x
  let ex := ex.mulGFP cs.xiToPSquaredMinus1Over6
  ⟨ex, Fp6.frobeniusP2G cs a.y⟩

def Fp12.frobeniusP4G (cs : FrobConsts α) (a : Fp12 α) : Fp12 α :=
  let ex := Fp6.frobeniusP4G cs a.x
  let ex := ex.mulGFP cs.xiToPSquaredMinus1Over3
  ⟨ex, Fp6.frobeniusP4G cs a.y⟩

/-- finalExponentiation (optate.go), `u` the BN parameter -/
def finalExponentiationG (cs : FrobConsts α) (u : Nat) (inp : Fp12 α) : Fp12 α :=
  let t1 : Fp12 α := ⟨inp.x.neg, inp.y⟩
  let inv := inp.invert
  let t1 := t1.mul inv
  let t2 := Fp12.frobeniusP2G cs t1
  let t1 := t1.mul t2
  let fp := Fp12.frobeniusG cs t1
  let fp2 := Fp12.frobeniusP2G cs t1
  let fp3 := Fp12.frobeniusG cs fp2
  let fu := t1.exp u
  let fu2 := fu.exp u
  let fu3 := fu2.exp u
  let y3 := Fp12.frobeniusG cs fu
  let fu2p := Fp12.frobeniusG cs fu2
  let fu3p := Fp12.frobeniusG cs fu3
  let y2 := Fp12.frobeniusP2G cs fu2
  let y0 := (fp.mul fp2).mul fp3
  let y1 := t1.conjugate
  let y5 := fu2.conjugate
  let y3 := y3.conjugate
  let y4 := fu.mul fu2p
  let y4 := y4.conjugate
  let y6 := fu3.mul fu3p
  let y6 := y6.conjugate
  let t0 := y6.square
  let t0 := (t0.mul y4).mul y5
  let t1 := (y3.mul y5).mul t0
  let t0 := t0.mul y2
  let t1 := ((t1.square).mul t0).square
  let t0 := t1.mul y1
  let t1 := t1.mul y0
  let t0 := (t0.square).mul t1
  t0

end
end Dos.Bn256

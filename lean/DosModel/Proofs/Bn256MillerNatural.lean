/-
C10 — naturality of the TRANSLATED Miller loop (`Gen/Bn256Code.lean`, optate.go's `miller` unrolled over the
64 NAF digits, polymorphic in the base type): the generated function and every generated callee are built from
`+ − neg · 0 1 ⁻¹` and the two equality tests of MakeAffine only, so they commute with `map f` for every
injective `f` preserving those operations (`OpsHom`, Proofs/Bn256Natural.lean). Instantiated at
"forget that the value is reduced" (GFpR → GFp) and "decode" (GFpR → ZMod p) this gives: the implemented Miller
loop returns REDUCED gfP12 values on reduced inputs, and decoding commutes with it (Props/C10Miller.lean).

The proof goes THROUGH the generated code: the callees are rewritten to the hand models with the polymorphic ties
of Props/C10Code.lean (to reuse the tower lemmas of Proofs/Bn256NaturalTower.lean), the unrolled body of `miller`
is traversed by `simp only` with the callee lemmas. Nothing here re-transcribes optate.go.
-/
import DosModel.Props.C10Code

set_option linter.unusedSectionVars false
set_option linter.unusedSimpArgs false

namespace Dos.Bn256.MillerNat
open Dos.Bn256 Dos.Gen Dos.Props.C10Code

section
variable {K L : Type}
variable [Add K] [Sub K] [Neg K] [Mul K] [Zero K] [One K] [Inv K] [Sq K] [DecidableEq K]
variable [Add L] [Sub L] [Neg L] [Mul L] [Zero L] [One L] [Inv L] [Sq L] [DecidableEq L]
variable {f : K → L}

/-! ### constructors and projections under `map` (all by `rfl`; stated so that `simp only` never has to unfold
`Fp2.map / Fp6.map / Fp12.map / Jac.map` on a variable) -/
theorem fp2_map_mk (a b : K) : Fp2.map f (⟨a, b⟩ : Fp2 K) = ⟨f a, f b⟩ := rfl
theorem fp6_map_mk (a b c : Fp2 K) : Fp6.map f (⟨a, b, c⟩ : Fp6 K) = ⟨Fp2.map f a, Fp2.map f b, Fp2.map f c⟩ := rfl
theorem fp12_map_mk (a b : Fp6 K) : Fp12.map f (⟨a, b⟩ : Fp12 K) = ⟨Fp6.map f a, Fp6.map f b⟩ := rfl
theorem fp12_map_x (a : Fp12 K) : (Fp12.map f a).x = Fp6.map f a.x := rfl
theorem fp12_map_y (a : Fp12 K) : (Fp12.map f a).y = Fp6.map f a.y := rfl
theorem jac_map_mk {A B : Type} (g : A → B) (a b c d : A) : Jac.map g (⟨a, b, c, d⟩ : Jac A) = ⟨g a, g b, g c, g d⟩ := rfl
theorem jac_map_x {A B : Type} (g : A → B) (a : Jac A) : (Jac.map g a).x = g a.x := rfl
theorem jac_map_y {A B : Type} (g : A → B) (a : Jac A) : (Jac.map g a).y = g a.y := rfl
theorem jac_map_z {A B : Type} (g : A → B) (a : Jac A) : (Jac.map g a).z = g a.z := rfl
theorem jac_map_t {A B : Type} (g : A → B) (a : Jac A) : (Jac.map g a).t = g a.t := rfl

/-! ### gfp2.go, gfp12.go: the generated methods `miller` calls directly -/
theorem map_gfP2_square (h : OpsHom f) (a : Fp2 K) :
    Fp2.map f (Bn256Code.gfP2_square a) = Bn256Code.gfP2_square (Fp2.map f a) := by
  simp only [gen_gfP2_square_eq_model]; exact Fp2.map_square h a
theorem map_gfP2_conjugate (h : OpsHom f) (a : Fp2 K) :
    Fp2.map f (Bn256Code.gfP2_conjugate a) = Bn256Code.gfP2_conjugate (Fp2.map f a) := by
  simp only [gen_gfP2_conjugate_eq_model]; exact Fp2.map_conjugate h a
theorem map_gfP2_mul (h : OpsHom f) (a b : Fp2 K) :
    Fp2.map f (Bn256Code.gfP2_mul a b) = Bn256Code.gfP2_mul (Fp2.map f a) (Fp2.map f b) := by
  simp only [gen_gfP2_mul_eq_model]; exact Fp2.map_mul' h a b
theorem map_gfP2_mulScalar (h : OpsHom f) (a : Fp2 K) (c : K) :
    Fp2.map f (Bn256Code.gfP2_mulScalar a c) = Bn256Code.gfP2_mulScalar (Fp2.map f a) (f c) := by
  simp only [gen_gfP2_mulScalar_eq_model]; exact Fp2.map_mulScalar h a c
theorem map_gfP2_set (a : Fp2 K) : Fp2.map f (Bn256Code.gfP2_set a) = Bn256Code.gfP2_set (Fp2.map f a) := rfl
theorem map_gfP2_setOne (h : OpsHom f) : Fp2.map f (Bn256Code.gfP2_setOne : Fp2 K) = Bn256Code.gfP2_setOne := by
  simp only [gen_gfP2_setOne_eq_model]; exact Fp2.map_one' h
theorem map_gfP12_setOne (h : OpsHom f) : Fp12.map f (Bn256Code.gfP12_setOne : Fp12 K) = Bn256Code.gfP12_setOne := by
  simp only [gen_gfP12_setOne_eq_model]; exact Fp12.map_one' h
theorem map_gfP12_square (h : OpsHom f) (a : Fp12 K) :
    Fp12.map f (Bn256Code.gfP12_square a) = Bn256Code.gfP12_square (Fp12.map f a) := by
  simp only [gen_gfP12_square_eq_model]; exact Fp12.map_square h a

/-! ### curve.go / twist.go: Set, MakeAffine (two equality tests: `f` is injective), Neg -/
theorem map_curvePoint_set (a : Jac K) :
    Jac.map f (Bn256Code.curvePoint_set a) = Bn256Code.curvePoint_set (Jac.map f a) := rfl
theorem map_twistPoint_set (a : Jac (Fp2 K)) :
    Jac.map (Fp2.map f) (Bn256Code.twistPoint_set a) = Bn256Code.twistPoint_set (Jac.map (Fp2.map f) a) := rfl

/-- curvePoint.MakeAffine (squares with `zInv * zInv`: no `Sq` involved) -/
theorem map_curvePoint_makeAffine (h : OpsHom f) (c : Jac K) :
    Jac.map f (Bn256Code.curvePoint_makeAffine c) = Bn256Code.curvePoint_makeAffine (Jac.map f c) := by
  unfold Bn256Code.curvePoint_makeAffine
  have e1 : (Jac.map f c).z = 1 ↔ c.z = 1 := h.eq_one_iff c.z
  have e0 : (Jac.map f c).z = 0 ↔ c.z = 0 := h.eq_zero_iff c.z
  by_cases h1 : c.z = 1
  · rw [if_pos h1, if_pos (e1.mpr h1)]
  · rw [if_neg h1, if_neg (mt e1.mp h1)]
    by_cases h0 : c.z = 0
    · rw [if_pos h0, if_pos (e0.mpr h0)]
      simp only [Jac.map, h.map_zero, h.map_one]
    · rw [if_neg h0, if_neg (mt e0.mp h0)]
      simp only [Jac.map, h.map_mul, h.map_inv, h.map_one]

/-- the hand model's MakeAffine over any coordinate type -/
theorem map_makeAffine (h : OpsHom f) (c : Jac K) :
    Jac.map f (Jac.makeAffine c) = Jac.makeAffine (Jac.map f c) := by
  unfold Jac.makeAffine
  have e1 : (Jac.map f c).z = 1 ↔ c.z = 1 := h.eq_one_iff c.z
  have e0 : (Jac.map f c).z = 0 ↔ c.z = 0 := h.eq_zero_iff c.z
  by_cases h1 : c.z = 1
  · rw [if_pos h1, if_pos (e1.mpr h1)]
  · rw [if_neg h1, if_neg (mt e1.mp h1)]
    by_cases h0 : c.z = 0
    · rw [if_pos h0, if_pos (e0.mpr h0)]
      simp only [Jac.map, h.map_zero, h.map_one]
    · rw [if_neg h0, if_neg (mt e0.mp h0)]
      simp only [Jac.map, h.map_mul, h.map_inv, h.map_sq, h.map_one]

/-- twistPoint.MakeAffine: through the tie to `Jac.makeAffine` over gfP2 and `Fp2.mapHom` -/
theorem map_twistPoint_makeAffine (h : OpsHom f) (c : Jac (Fp2 K)) :
    Jac.map (Fp2.map f) (Bn256Code.twistPoint_makeAffine c) =
      Bn256Code.twistPoint_makeAffine (Jac.map (Fp2.map f) c) := by
  simp only [gen_twistPoint_makeAffine_eq_model]
  exact map_makeAffine (Fp2.mapHom h) c

theorem map_twistPoint_neg (h : OpsHom f) (a : Jac (Fp2 K)) :
    Jac.map (Fp2.map f) (Bn256Code.twistPoint_neg a) = Bn256Code.twistPoint_neg (Jac.map (Fp2.map f) a) := by
  simp only [gen_twistPoint_neg_eq_model]
  exact Jac.map_neg (Fp2.mapHom h) a a.t

/-! ### optate.go: the line functions (4-tuples) and mulLine -/

/-- `map` on the result tuple (a, b, c, rOut) of a line function -/
def lineMap (f : K → L) (t : Fp2 K × Fp2 K × Fp2 K × Jac (Fp2 K)) : Fp2 L × Fp2 L × Fp2 L × Jac (Fp2 L) :=
  (Fp2.map f t.1, Fp2.map f t.2.1, Fp2.map f t.2.2.1, Jac.map (Fp2.map f) t.2.2.2)

theorem map_lineFunctionAdd (h : OpsHom f) (r p : Jac (Fp2 K)) (q : Jac K) (r2 : Fp2 K) :
    lineMap f (Bn256Code.lineFunctionAdd r p q r2) =
      Bn256Code.lineFunctionAdd (Jac.map (Fp2.map f) r) (Jac.map (Fp2.map f) p) (Jac.map f q) (Fp2.map f r2) := by
  simp only [lineMap, Bn256Code.lineFunctionAdd, gen_gfP2_mul_eq_model, gen_gfP2_add_eq_model,
    gen_gfP2_sub_eq_model, gen_gfP2_square_eq_model, gen_gfP2_neg_eq_model, gen_gfP2_mulScalar_eq_model,
    jac_map_mk, jac_map_x, jac_map_y, jac_map_z, jac_map_t,
    Fp2.map_add' h, Fp2.map_sub' h, Fp2.map_neg' h, Fp2.map_mul' h, Fp2.map_square h, Fp2.map_mulScalar h]

theorem map_lineFunctionDouble (h : OpsHom f) (r : Jac (Fp2 K)) (q : Jac K) :
    lineMap f (Bn256Code.lineFunctionDouble r q) =
      Bn256Code.lineFunctionDouble (Jac.map (Fp2.map f) r) (Jac.map f q) := by
  simp only [lineMap, Bn256Code.lineFunctionDouble, gen_gfP2_mul_eq_model, gen_gfP2_add_eq_model,
    gen_gfP2_sub_eq_model, gen_gfP2_square_eq_model, gen_gfP2_neg_eq_model, gen_gfP2_mulScalar_eq_model,
    jac_map_mk, jac_map_x, jac_map_y, jac_map_z, jac_map_t,
    Fp2.map_add' h, Fp2.map_sub' h, Fp2.map_neg' h, Fp2.map_mul' h, Fp2.map_square h, Fp2.map_mulScalar h]

/-! one lemma per projection, in the direction `simp` pushes `map` inward -/
theorem map_lineFunctionAdd_a (h : OpsHom f) (r p : Jac (Fp2 K)) (q : Jac K) (r2 : Fp2 K) :
    Fp2.map f (Bn256Code.lineFunctionAdd r p q r2).1 =
      (Bn256Code.lineFunctionAdd (Jac.map (Fp2.map f) r) (Jac.map (Fp2.map f) p) (Jac.map f q) (Fp2.map f r2)).1 :=
  congrArg (·.1) (map_lineFunctionAdd h r p q r2)
theorem map_lineFunctionAdd_b (h : OpsHom f) (r p : Jac (Fp2 K)) (q : Jac K) (r2 : Fp2 K) :
    Fp2.map f (Bn256Code.lineFunctionAdd r p q r2).2.1 =
      (Bn256Code.lineFunctionAdd (Jac.map (Fp2.map f) r) (Jac.map (Fp2.map f) p) (Jac.map f q) (Fp2.map f r2)).2.1 :=
  congrArg (·.2.1) (map_lineFunctionAdd h r p q r2)
theorem map_lineFunctionAdd_c (h : OpsHom f) (r p : Jac (Fp2 K)) (q : Jac K) (r2 : Fp2 K) :
    Fp2.map f (Bn256Code.lineFunctionAdd r p q r2).2.2.1 =
      (Bn256Code.lineFunctionAdd (Jac.map (Fp2.map f) r) (Jac.map (Fp2.map f) p) (Jac.map f q) (Fp2.map f r2)).2.2.1 :=
  congrArg (·.2.2.1) (map_lineFunctionAdd h r p q r2)
theorem map_lineFunctionAdd_r (h : OpsHom f) (r p : Jac (Fp2 K)) (q : Jac K) (r2 : Fp2 K) :
    Jac.map (Fp2.map f) (Bn256Code.lineFunctionAdd r p q r2).2.2.2 =
      (Bn256Code.lineFunctionAdd (Jac.map (Fp2.map f) r) (Jac.map (Fp2.map f) p) (Jac.map f q) (Fp2.map f r2)).2.2.2 :=
  congrArg (·.2.2.2) (map_lineFunctionAdd h r p q r2)

theorem map_lineFunctionDouble_a (h : OpsHom f) (r : Jac (Fp2 K)) (q : Jac K) :
    Fp2.map f (Bn256Code.lineFunctionDouble r q).1 =
      (Bn256Code.lineFunctionDouble (Jac.map (Fp2.map f) r) (Jac.map f q)).1 :=
  congrArg (·.1) (map_lineFunctionDouble h r q)
theorem map_lineFunctionDouble_b (h : OpsHom f) (r : Jac (Fp2 K)) (q : Jac K) :
    Fp2.map f (Bn256Code.lineFunctionDouble r q).2.1 =
      (Bn256Code.lineFunctionDouble (Jac.map (Fp2.map f) r) (Jac.map f q)).2.1 :=
  congrArg (·.2.1) (map_lineFunctionDouble h r q)
theorem map_lineFunctionDouble_c (h : OpsHom f) (r : Jac (Fp2 K)) (q : Jac K) :
    Fp2.map f (Bn256Code.lineFunctionDouble r q).2.2.1 =
      (Bn256Code.lineFunctionDouble (Jac.map (Fp2.map f) r) (Jac.map f q)).2.2.1 :=
  congrArg (·.2.2.1) (map_lineFunctionDouble h r q)
theorem map_lineFunctionDouble_r (h : OpsHom f) (r : Jac (Fp2 K)) (q : Jac K) :
    Jac.map (Fp2.map f) (Bn256Code.lineFunctionDouble r q).2.2.2 =
      (Bn256Code.lineFunctionDouble (Jac.map (Fp2.map f) r) (Jac.map f q)).2.2.2 :=
  congrArg (·.2.2.2) (map_lineFunctionDouble h r q)

theorem map_mulLine (h : OpsHom f) (ret : Fp12 K) (a b c : Fp2 K) :
    Fp12.map f (Bn256Code.mulLine ret a b c) =
      Bn256Code.mulLine (Fp12.map f ret) (Fp2.map f a) (Fp2.map f b) (Fp2.map f c) := by
  simp only [Bn256Code.mulLine, gen_gfP6_mul_eq_model, gen_gfP6_add_eq_model, gen_gfP6_sub_eq_model,
    gen_gfP6_mulTau_eq_model, gen_gfP6_mulScalar_eq_model, gen_gfP6_set_eq_model, gen_gfP2_set_eq_model,
    gen_gfP2_add_eq_model, fp12_map_mk, fp12_map_x, fp12_map_y, fp6_map_mk, fp2_map_mk, h.map_zero,
    Fp6.map_add' h, Fp6.map_sub' h, Fp6.map_mul' h, Fp6.map_mulTau h, Fp6.map_mulScalar h, Fp2.map_add' h]

/-! ### projections in the direction that pushes `map` towards the arguments of `miller` -/
theorem fp2_map_jac_x (a : Jac (Fp2 K)) : Fp2.map f a.x = (Jac.map (Fp2.map f) a).x := rfl
theorem fp2_map_jac_y (a : Jac (Fp2 K)) : Fp2.map f a.y = (Jac.map (Fp2.map f) a).y := rfl
theorem frobConsts_map_1 (cs : FrobConsts K) : (cs.map f).xiToPMinus1Over3 = Fp2.map f cs.xiToPMinus1Over3 := rfl
theorem frobConsts_map_2 (cs : FrobConsts K) : (cs.map f).xiToPMinus1Over2 = Fp2.map f cs.xiToPMinus1Over2 := rfl
theorem frobConsts_map_3 (cs : FrobConsts K) :
    (cs.map f).xiToPSquaredMinus1Over3 = f cs.xiToPSquaredMinus1Over3 := rfl

set_option maxRecDepth 100000 in
/-- **the translated Miller loop is natural**: `Bn256Code.miller` (the 265 lets of the unrolled loop, as generated)
commutes with every operation-preserving injective map of the base type -/
theorem map_miller (h : OpsHom f) (cs : FrobConsts K) (q : Jac (Fp2 K)) (p : Jac K) :
    Fp12.map f (Bn256Code.miller cs q p) =
      Bn256Code.miller (cs.map f) (Jac.map (Fp2.map f) q) (Jac.map f p) := by
  simp only [Bn256Code.miller, map_mulLine h, map_gfP12_square h, map_gfP12_setOne h,
    map_lineFunctionAdd_a h, map_lineFunctionAdd_b h, map_lineFunctionAdd_c h, map_lineFunctionAdd_r h,
    map_lineFunctionDouble_a h, map_lineFunctionDouble_b h, map_lineFunctionDouble_c h, map_lineFunctionDouble_r h,
    map_twistPoint_neg h, map_twistPoint_makeAffine h, map_curvePoint_makeAffine h, map_twistPoint_set,
    map_curvePoint_set, map_gfP2_square h, map_gfP2_conjugate h, map_gfP2_mul h, map_gfP2_mulScalar h,
    map_gfP2_set, map_gfP2_setOne h, jac_map_mk, fp2_map_jac_x, fp2_map_jac_y,
    frobConsts_map_1, frobConsts_map_2, frobConsts_map_3]

end

/-! ### the two instances: GFpR → GFp (forget reducedness) and GFpR → ZMod p (Montgomery decoding) -/

/-- the implemented Miller loop on the values of reduced operands is the value of the SAME generated function run
on the subtype of reduced values (whose operations carry the proof of reducedness) -/
theorem miller_val (q : Jac (Fp2 GFpR)) (p : Jac GFpR) :
    @Bn256Code.miller GFp _ _ _ _ _ _ _ _ frobConsts (Jac.map val2 q) (Jac.map valF p) =
      val12 (Bn256Code.miller frobConstsR q p) := by
  rw [← frobConstsR_val]
  exact (map_miller valHom frobConstsR q p).symm

/-- decoding the generated Miller loop over reduced values = the generated Miller loop over ZMod p -/
theorem miller_decR (q : Jac (Fp2 GFpR)) (p : Jac GFpR) :
    dec12R (Bn256Code.miller frobConstsR q p) =
      Bn256Code.miller frobConstsFp (Jac.map dec2 q) (Jac.map decR p) := by
  unfold frobConstsFp
  exact map_miller decHom frobConstsR q p

/-- **the translated Miller loop at the Montgomery gfP, on reduced points**: the result is a reduced gfP12 value
and its decoding is the translated Miller loop evaluated over the field ZMod p on the decoded points -/
theorem miller_code_concrete (q : G2J) (p : G1J) (hq : Jac.Reduced2 q) (hp : Jac.Reduced p) :
    Red12 (@Bn256Code.miller GFp _ _ _ _ _ _ _ _ frobConsts q p) ∧
    dec12 (@Bn256Code.miller GFp _ _ _ _ _ _ _ _ frobConsts q p) =
      Bn256Code.miller frobConstsFp (Jac.decJ2 q) (Jac.decJ p) := by
  have e := miller_val (Jac.lift2 q hq) (Jac.lift p hp)
  rw [Jac.val_lift2, Jac.val_lift] at e
  rw [e]
  refine ⟨red12_val _, ?_⟩
  rw [dec12_val, miller_decR, Jac.dec_lift2, Jac.dec_lift]

/-- the same for the hand model `Dos.Bn256.miller` (the function the driver runs), through the tie
`gen_miller_eq_model` -/
theorem miller_concrete (q : G2J) (p : G1J) (hq : Jac.Reduced2 q) (hp : Jac.Reduced p) :
    Red12 (Dos.Bn256.miller q p) ∧
    dec12 (Dos.Bn256.miller q p) = Bn256Code.miller frobConstsFp (Jac.decJ2 q) (Jac.decJ p) := by
  rw [← gen_miller_eq_model]
  exact miller_code_concrete q p hq hp

/-- the identity tests of `optimalAte` see the same thing before and after decoding -/
theorem decJ2_isInfinity (q : G2J) (hq : Jac.Reduced2 q) : (Jac.decJ2 q).isInfinity = q.isInfinity := by
  have e1 := Jac.map_isInfinity (Fp2.mapHom decHom) (Jac.lift2 q hq)
  have e2 := Jac.map_isInfinity (Fp2.mapHom valHom) (Jac.lift2 q hq)
  rw [Jac.dec_lift2] at e1
  rw [Jac.val_lift2] at e2
  rw [e1, e2]

theorem decJ_isInfinity (p : G1J) (hp : Jac.Reduced p) : (Jac.decJ p).isInfinity = p.isInfinity := by
  have e1 := Jac.map_isInfinity decHom (Jac.lift p hp)
  have e2 := Jac.map_isInfinity valHom (Jac.lift p hp)
  rw [Jac.dec_lift] at e1
  rw [Jac.val_lift] at e2
  rw [e1, e2]

/-- **the implemented pairing on reduced points** is reduced and decodes to the translated `optimalAte`
evaluated over ZMod p at the decoded constants -/
theorem optimalAte_concrete (q : G2J) (p : G1J) (hq : Jac.Reduced2 q) (hp : Jac.Reduced p) :
    Red12 (Dos.Bn256.optimalAte q p) ∧
    dec12 (Dos.Bn256.optimalAte q p) = Bn256Code.optimalAte frobConstsFp uParam (Jac.decJ2 q) (Jac.decJ p) := by
  obtain ⟨rm, dm⟩ := miller_concrete q p hq hp
  obtain ⟨rf, df⟩ := finalExp_dec _ rm
  obtain ⟨r1, d1⟩ := one_dec
  simp only [Bn256Code.optimalAte, gen_finalExponentiation_eq_model, gen_twistPoint_isInfinity_eq_model,
    gen_curvePoint_isInfinity_eq_model, gen_gfP12_setOne_eq_model, Dos.Bn256.optimalAte,
    decJ2_isInfinity q hq, decJ_isInfinity p hp]
  by_cases hi : (q.isInfinity || p.isInfinity) = true
  · simp only [hi, if_true]
    exact ⟨r1, d1⟩
  · simp only [hi, Bool.false_eq_true, if_false]
    exact ⟨rf, by rw [df, dm]⟩

end Dos.Bn256.MillerNat

package c05

import (
	"fmt"
	"strings"

	"verifharness/internal/dkgnet"
	"verifharness/internal/h"
)

// netadv lines (language: dkgnet.RunNetAdvLine): the adversarial family through the REAL pdkg.Loop / Grouping of the
// honest members over the in-memory network (round 5, review C finding 5). The network double sets msg.Sender, Loop
// stamps it on PublicKey messages and exchangePub compares it: none of that is done by the harness. Only deviations
// whose outcome does not depend on a race between two senders for one de-duplication slot are used (the seat's own
// deals and Responses messages, and forged keys sent BEFORE anybody starts).

func execNetAdv(w []string) (res h.Result) {
	impl, r := dkgnet.RunNetAdvLine(w[:7])
	res.Impl = impl
	res.Nontrivial = true
	nfin := 0
	for _, o := range r.Outs {
		if o.Finished {
			nfin++
		}
	}
	res.Class = fmt.Sprintf("netadv-n%d-byz%d-honestfin%d", r.N, len(r.Byz), nfin)
	if o := dkgnet.JointOracle(r.Members, r.Outs, r.T, nil, nil, h.NewRng(1)); o != "" {
		res.Oracle = "net-" + o
	}
	if res.Oracle == "" && len(r.ForeignAccepted) > 0 {
		res.Oracle = "net-accepted-foreign-key: " + r.ForeignAccepted[0]
	}
	return
}

type netScript struct {
	early []string            // "<b>|<spec>|<to>"
	deal  map[[2]int]string   // (b, i) -> D spec
	resp  map[[2]int][]string // (b, i) -> specs of b's Responses message for i
}

func netLine(seed uint64, n int, byz []int, order []int, sc netScript) string {
	isByz := map[int]bool{}
	for _, b := range byz {
		isByz[b] = true
	}
	var defs, out []string
	cnt := map[string]int{}
	x := func(b int, kind byte, spec string, to int) {
		key := fmt.Sprintf("%d%c", b, kind)
		id := fmt.Sprintf("%s%d", key, cnt[key])
		cnt[key]++
		defs = append(defs, fmt.Sprintf("X%s=%s", id, spec))
		out = append(out, fmt.Sprintf("x%s.%d", id, to))
	}
	for _, e := range sc.early {
		p := strings.SplitN(e, "|", 3)
		x(h.Atoi(p[0]), 'k', p[1], h.Atoi(p[2]))
	}
	for _, e := range canonical(n) {
		p := strings.Split(e[1:], ".")
		switch e[0] {
		case 'd':
			b, i := h.Atoi(p[0]), h.Atoi(p[1])
			if spec, ok := sc.deal[[2]int{b, i}]; ok && isByz[b] {
				x(b, 'd', spec, i)
				continue
			}
		case 'r':
			b, i := h.Atoi(p[0]), h.Atoi(p[1])
			if specs, ok := sc.resp[[2]int{b, i}]; ok && isByz[b] {
				for _, sp := range specs {
					x(b, 'r', sp, i)
				}
				continue
			}
		}
		out = append(out, e)
	}
	d := "-"
	if len(defs) > 0 {
		d = strings.Join(defs, ";")
	}
	var bs, os []string
	for _, b := range byz {
		bs = append(bs, fmt.Sprint(b))
	}
	for _, o := range order {
		os = append(os, fmt.Sprint(o))
	}
	return fmt.Sprintf("netadv %d %d %s %s %s %s", seed, n, strings.Join(bs, "."), strings.Join(os, "."), d, strings.Join(out, ","))
}

func genNetAdv(tier string, rng *h.Rng, emit func(string)) {
	thorough := tier == "thorough"
	seed := func() uint64 { return rng.U64() >> 1 }
	honestOf := func(n int, byz []int) []int {
		var hon []int
		for k := 0; k < n; k++ {
			isb := false
			for _, b := range byz {
				isb = isb || b == k
			}
			if !isb {
				hon = append(hon, k)
			}
		}
		return hon
	}
	shuffled := func(hon []int) []int {
		var o []int
		for _, q := range rng.Perm(len(hon)) {
			o = append(o, hon[q])
		}
		return o
	}
	// the seat's Responses message for i with the response about dealer js replaced
	respMsg := func(n, b, js int, forged []string) []string {
		var out []string
		for j := 0; j < n; j++ {
			if j == b {
				continue
			}
			if j == js {
				out = append(out, forged...)
			} else {
				out = append(out, fmt.Sprintf("GR.%d.%d.%d", b, j, j))
			}
		}
		return out
	}
	type one struct {
		name string
		mk   func(n int, byz, hon []int) netScript
	}
	dealTo := func(variant string, all bool) func(n int, byz, hon []int) netScript {
		return func(n int, byz, hon []int) netScript {
			b := byz[0]
			sc := netScript{deal: map[[2]int]string{}}
			for q, i := range hon {
				v := "good7"
				if q == 0 || all {
					v = libVariant(variant, n, i)
				}
				sc.deal[[2]int{b, i}] = fmt.Sprintf("D.%d.%d.%d.%s", b, b, i, v)
			}
			return sc
		}
	}
	respTo := func(spec func(n, b, js int) []string) func(n int, byz, hon []int) netScript {
		return func(n int, byz, hon []int) netScript {
			b := byz[len(byz)-1]
			js := hon[len(hon)-1]
			sc := netScript{resp: map[[2]int][]string{}}
			for _, i := range hon {
				sc.resp[[2]int{b, i}] = respMsg(n, b, js, spec(n, b, js))
			}
			return sc
		}
	}
	forged := func(pre string) func(n int, byz, hon []int) netScript {
		return func(n int, byz, hon []int) netScript {
			var sc netScript
			for q, i := range hon {
				b := byz[q%len(byz)]
				j := hon[(q+1)%len(hon)]
				spec := fmt.Sprintf("K.%d.%d.x%d", j, b, i)
				switch pre {
				case "claimed":
					spec += fmt.Sprintf(".%d", j)
				case "victim":
					spec += fmt.Sprintf(".%d", i)
				case "garbage":
					spec += ".g"
				case "bkey":
					spec = fmt.Sprintf("K.%d.%d.%d.%d", j, b, b, j)
				}
				sc.early = append(sc.early, fmt.Sprintf("%d|%s|%d", b, spec, i))
			}
			return sc
		}
	}
	cases := []one{
		{"none", func(int, []int, []int) netScript { return netScript{} }},
		{"all-good7", dealTo("good7", true)},
		{"bad", dealTo("bad7", false)},
		{"forged-key-claimed", forged("claimed")},
		{"r-complaint", respTo(func(n, b, js int) []string { return []string{fmt.Sprintf("R.%d.%d.cur%d.c.%d", js, b, js, b)} })},
		{"r-badsig", respTo(func(n, b, js int) []string { return []string{fmt.Sprintf("R.%d.%d.cur%d.a.junk", js, b, js)} })},
	}
	more := []one{
		{"other-poly", dealTo("good8", false)},
		{"Tc1", dealTo("Tc1p6", false)},
		{"idxP32", dealTo("idxP32p7", false)},
		{"junk", dealTo("junk", false)},
		{"nilshare", dealTo("nilshare7", false)},
		{"all-bad", dealTo("bad7", true)},
		{"forged-key-plain", forged("")},
		{"forged-key-victim", forged("victim")},
		{"forged-key-garbage", forged("garbage")},
		{"forged-key-bkey", forged("bkey")},
		{"r-missing", respTo(func(n, b, js int) []string { return []string{fmt.Sprintf("RN.%d", js)} })},
		{"r-rawsid", respTo(func(n, b, js int) []string { return []string{fmt.Sprintf("R.%d.%d.raw.a.%d", js, b, b)} })},
		{"r-nosig", respTo(func(n, b, js int) []string { return []string{fmt.Sprintf("R.%d.%d.cur%d.a.none", js, b, js)} })},
		{"r-oob", respTo(func(n, b, js int) []string { return []string{fmt.Sprintf("R.%d.%d.cur%d.a.%d", js, n+2, js, b)} })},
	}
	groups := []struct {
		n   int
		byz []int
	}{{3, []int{2}}, {5, []int{3, 4}}}
	if thorough {
		groups = append(groups, struct {
			n   int
			byz []int
		}{4, []int{0}}, struct {
			n   int
			byz []int
		}{5, []int{0, 2}})
	}
	for _, g := range groups {
		hon := honestOf(g.n, g.byz)
		list := cases
		if thorough {
			list = append(append([]one{}, cases...), more...)
		}
		for q, c := range list {
			if !thorough && g.n == 5 && q%2 == 1 && c.name != "forged-key-claimed" {
				continue // quick: every other case for n = 5
			}
			emit(netLine(seed(), g.n, g.byz, shuffled(hon), c.mk(g.n, g.byz, hon)))
		}
		if len(g.byz) == 2 {
			// the two seats deviate together: seat a deals a bad share to the first honest member, seat b complains
			// about the last honest dealer; and: both deal consistent polynomials of their own
			a := dealTo("bad7", false)(g.n, g.byz, hon)
			b := respTo(func(n, bb, js int) []string { return []string{fmt.Sprintf("R.%d.%d.cur%d.c.%d", js, bb, js, bb)} })(g.n, g.byz, hon)
			a.resp = b.resp
			emit(netLine(seed(), g.n, g.byz, shuffled(hon), a))
			both := netScript{deal: map[[2]int]string{}}
			for _, s := range g.byz {
				for i := 0; i < g.n; i++ {
					if i != s { // the other seat too: its approval must fit the polynomial the honest members hold
						both.deal[[2]int{s, i}] = fmt.Sprintf("D.%d.%d.%d.good%d", s, s, i, 7+s)
					}
				}
			}
			emit(netLine(seed(), g.n, g.byz, shuffled(hon), both))
		}
	}
}

/-
C10 layer 2 — Montgomery reduction (`redc`, the number-level model of what gfpMul stores)
is correct for EVERY T below R·p, for any modulus p and any np with np·p ≡ −1 (mod R):
one conditional subtraction suffices, the result is below p and redc(T)·R ≡ T (mod p).
Outside the precondition (both operands arbitrary 256-bit values) the result is still
congruent but only known to be below R. Consequences for add/sub/neg on reduced inputs.
-/
import Mathlib.Data.Nat.ModEq
import Mathlib.Tactic.Ring
import DosModel.Model.Mont

namespace Dos.Mont

theorem R_pos : 0 < R := by decide

/-- R divides T + m·p: the quotient in `redcU` is exact -/
theorem redcU_mul_R (p np T : Nat) (hnp : (np * p + 1) % R = 0) :
    redcU p np T * R = T + (T % R * np % R) * p := by
  unfold redcU
  apply Nat.div_mul_cancel
  apply (Nat.modEq_zero_iff_dvd).mp
  have h1 : (T % R * np % R) * p ≡ (T % R * np) * p [MOD R] := (Nat.mod_modEq _ _).mul_right p
  have h2 : T ≡ T % R [MOD R] := (Nat.mod_modEq T R).symm
  have h3 : T % R + T % R * np * p = T % R * (np * p + 1) := by ring
  have h4 : T % R * (np * p + 1) ≡ 0 [MOD R] :=
    (Nat.modEq_zero_iff_dvd).mpr (Dvd.dvd.mul_left (Nat.dvd_of_mod_eq_zero hnp) _)
  calc T + (T % R * np % R) * p ≡ T % R + (T % R * np) * p [MOD R] := h2.add h1
    _ = T % R * (np * p + 1) := h3
    _ ≡ 0 [MOD R] := h4

/-- **one subtraction suffices**: below the precondition T < R·p the quotient is below 2p -/
theorem one_subtraction_suffices (p np T : Nat) (hnp : (np * p + 1) % R = 0) (hT : T < R * p) :
    redcU p np T < 2 * p := by
  have h := redcU_mul_R p np T hnp
  have hm : T % R * np % R < R := Nat.mod_lt _ R_pos
  have hlt : redcU p np T * R < (2 * p) * R := by
    rw [h]
    have : (T % R * np % R) * p ≤ R * p := Nat.mul_le_mul_right p (Nat.le_of_lt hm)
    have hp : 0 < p := Nat.pos_of_ne_zero (by rintro rfl; simp at hT)
    have : (T % R * np % R) * p < R * p := Nat.mul_lt_mul_of_pos_right hm hp
    calc T + (T % R * np % R) * p < R * p + R * p := Nat.add_lt_add hT this
      _ = (2 * p) * R := by ring
  exact Nat.lt_of_mul_lt_mul_right hlt

theorem redcU_modEq (p np T : Nat) (hnp : (np * p + 1) % R = 0) :
    redcU p np T * R ≡ T [MOD p] := by
  rw [redcU_mul_R p np T hnp]
  have : (T % R * np % R) * p ≡ 0 [MOD p] := (Nat.modEq_zero_iff_dvd).mpr (Dvd.intro_left _ rfl)
  simpa using (Nat.ModEq.refl T).add this

/-- **redc_correct**: for ALL T < R·p -/
theorem redc_correct (p np T : Nat) (hnp : (np * p + 1) % R = 0) (hT : T < R * p) :
    redc p np T < p ∧ redc p np T * R ≡ T [MOD p] := by
  have h2 := one_subtraction_suffices p np T hnp hT
  have hm := redcU_modEq p np T hnp
  unfold redc
  simp only
  split
  · rename_i hge
    refine ⟨by omega, ?_⟩
    have e : (redcU p np T - p) * R + p * R = redcU p np T * R := by
      rw [← Nat.add_mul, Nat.sub_add_cancel hge]
    have : (redcU p np T - p) * R + p * R ≡ (redcU p np T - p) * R [MOD p] := by
      have z : p * R ≡ 0 [MOD p] := (Nat.modEq_zero_iff_dvd).mpr (Dvd.intro _ rfl)
      simpa using (Nat.ModEq.refl ((redcU p np T - p) * R)).add z
    exact this.symm.trans (by rw [e]; exact hm)
  · rename_i hlt
    exact ⟨by omega, hm⟩

/-- outside the precondition (any T < R²): still congruent, but only known to fit four words -/
theorem redc_unreduced (p np T : Nat) (hnp : (np * p + 1) % R = 0) (hp : 0 < p) (hpR : p < R)
    (hT : T < R * R) : redc p np T < R ∧ redc p np T * R ≡ T [MOD p] := by
  have h := redcU_mul_R p np T hnp
  have hm : T % R * np % R < R := Nat.mod_lt _ R_pos
  have hmod := redcU_modEq p np T hnp
  have hu : redcU p np T < R + p := by
    have : redcU p np T * R < (R + p) * R := by
      rw [h]
      have : (T % R * np % R) * p < R * p := Nat.mul_lt_mul_of_pos_right hm hp
      calc T + (T % R * np % R) * p < R * R + R * p := Nat.add_lt_add hT this
        _ = (R + p) * R := by ring
    exact Nat.lt_of_mul_lt_mul_right this
  unfold redc
  simp only
  split
  · rename_i hge
    refine ⟨by omega, ?_⟩
    have e : (redcU p np T - p) * R + p * R = redcU p np T * R := by
      rw [← Nat.add_mul, Nat.sub_add_cancel hge]
    have : (redcU p np T - p) * R + p * R ≡ (redcU p np T - p) * R [MOD p] := by
      have z : p * R ≡ 0 [MOD p] := (Nat.modEq_zero_iff_dvd).mpr (Dvd.intro _ rfl)
      simpa using (Nat.ModEq.refl ((redcU p np T - p) * R)).add z
    exact this.symm.trans (by rw [e]; exact hmod)
  · rename_i hlt
    exact ⟨by omega, hmod⟩

/-- what gfpMul stores, inside the precondition a·b < R·p (both reduced, or one operand an
ARBITRARY 256-bit value and the other reduced — Montgomery encoding of unreduced input) -/
theorem mulM_correct (p np a b : Nat) (hnp : (np * p + 1) % R = 0) (hpR : p < R)
    (hab : a * b < R * p) : mulM p np a b < p ∧ mulM p np a b * R ≡ a * b [MOD p] := by
  obtain ⟨h1, h2⟩ := redc_correct p np (a * b) hnp hab
  have : mulM p np a b = redc p np (a * b) := by
    unfold mulM; exact Nat.mod_eq_of_lt (by omega)
  rw [this]; exact ⟨h1, h2⟩

/-- `mul_unreduced_both`: any two 256-bit operands -/
theorem mulM_unreduced (p np a b : Nat) (hnp : (np * p + 1) % R = 0) (hp : 0 < p) (hpR : p < R)
    (ha : a < R) (hb : b < R) : mulM p np a b < R ∧ mulM p np a b * R ≡ a * b [MOD p] := by
  have hT : a * b < R * R := Nat.mul_lt_mul'' ha hb
  obtain ⟨h1, h2⟩ := redc_unreduced p np (a * b) hnp hp hpR hT
  have : mulM p np a b = redc p np (a * b) := by unfold mulM; exact Nat.mod_eq_of_lt h1
  rw [this]; exact ⟨h1, h2⟩

/-- Montgomery multiplication is multiplication on decoded values: with R·Rinv ≡ 1 (mod p) -/
theorem mulM_decode (p np rinv a b : Nat) (hnp : (np * p + 1) % R = 0) (hpR : p < R)
    (hr : R * rinv ≡ 1 [MOD p]) (hab : a * b < R * p) :
    mulM p np a b * rinv ≡ (a * rinv) * (b * rinv) [MOD p] := by
  obtain ⟨_, h2⟩ := mulM_correct p np a b hnp hpR hab
  have e1 : mulM p np a b * rinv ≡ mulM p np a b * rinv * (R * rinv) [MOD p] := by
    simpa using (Nat.ModEq.refl (mulM p np a b * rinv)).mul hr.symm
  have e2 : mulM p np a b * rinv * (R * rinv) = (mulM p np a b * R) * (rinv * rinv) := by ring
  have e3 : (mulM p np a b * R) * (rinv * rinv) ≡ (a * b) * (rinv * rinv) [MOD p] := h2.mul_right _
  have e4 : (a * b) * (rinv * rinv) = (a * rinv) * (b * rinv) := by ring
  exact e1.trans (e2 ▸ e3) |>.trans (by rw [e4])

/-! ### add / sub / neg on reduced operands are the field operations -/

theorem addM_correct (p a b : Nat) (hpR : p < R) (ha : a < p) (hb : b < p) :
    addM p a b = (a + b) % p := by
  unfold addM
  split
  · rename_i h
    have h1 : a + b - p < p := by omega
    rw [Nat.mod_eq_of_lt (by omega)]
    have : (a + b) % p = (a + b - p) % p := by
      conv_lhs => rw [← Nat.sub_add_cancel h]
      exact Nat.add_mod_right _ _
    rw [this, Nat.mod_eq_of_lt h1]
  · rename_i h
    rw [Nat.mod_eq_of_lt (by omega), Nat.mod_eq_of_lt (by omega)]

theorem subM_correct (p a b : Nat) (hpR : p < R) (ha : a < p) (hb : b < p) :
    subM p a b = (a + (p - b)) % p := by
  unfold subM
  split
  · rename_i h
    have : a + (p - b) = (a - b) + p := by omega
    rw [this, Nat.add_mod_right, Nat.mod_eq_of_lt (by omega)]
  · rename_i h
    have e : a + R - b + p = (a + (p - b)) + R := by omega
    rw [e, Nat.add_mod_right, Nat.mod_eq_of_lt (by omega), Nat.mod_eq_of_lt (by omega)]

theorem negM_correct (p a : Nat) (hpR : p < R) (ha : a < p) :
    negM p a = (p - a) % p := by
  unfold negM
  have e : (p + R - a) % R = p - a := by
    have : p + R - a = (p - a) + R := by omega
    rw [this, Nat.add_mod_right, Nat.mod_eq_of_lt (by omega)]
  simp only [e]
  split
  · rename_i h
    have : a = 0 := by omega
    subst this; simp
  · rename_i h
    rw [Nat.mod_eq_of_lt (by omega)]

end Dos.Mont

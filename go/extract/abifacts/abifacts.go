// Package abifacts: what the abigen bindings and the adaptor's call sites say about the ABI layer, as Lean data.
//
//   - from onchain/dosproxy/DOSProxy.go and onchain/commitreveal/CommitReveal.go: the ABI JSON embedded in
//     `…MetaData = &bind.MetaData{ABI: "…"}` (parsed here): every method (name, inputs, outputs, mutability) and
//     every event (name, anonymous, inputs with type and indexed flag); every Transactor / Session method that
//     sends a transaction: Go name, parameters with Go types, the ABI method name and the arguments it passes
//     to `contract.Transact` (Session: to the Transactor method), and the 4-byte id quoted in its doc comment;
//     the 32-byte event id quoted in the doc comment of every Watch method;
//   - from onchain/eth_set.go: every call of a session method on `proxies[…]` / `crs[…]` / `e.proxies[…]` with the
//     adaptor method it occurs in and its argument expressions, in order;
//   - from onchain/eth_proxy.go Connect: the statements that obtain the contract addresses and build the bindings.
//
// go/ast + encoding/json only.
package abifacts

import (
	"bytes"
	"encoding/json"
	"fmt"
	"go/ast"
	"go/printer"
	"go/token"
	"path/filepath"
	"regexp"
	"strconv"
	"strings"

	"verifharness/extract/ex"
)

func init() { ex.Register(&ex.Extractor{Name: "AbiFacts", Run: run}) }

func src(fset *token.FileSet, n ast.Node) string {
	var b bytes.Buffer
	printer.Fprint(&b, fset, n)
	return strings.Join(strings.Fields(b.String()), " ")
}

type jArg struct {
	Name    string `json:"name"`
	Type    string `json:"type"`
	Indexed bool   `json:"indexed"`
}
type jItem struct {
	Type            string `json:"type"`
	Name            string `json:"name"`
	Anonymous       bool   `json:"anonymous"`
	Inputs          []jArg `json:"inputs"`
	Outputs         []jArg `json:"outputs"`
	StateMutability string `json:"stateMutability"`
}

func strList(l []string) string {
	var p []string
	for _, s := range l {
		p = append(p, ex.LeanStr(s))
	}
	return "[" + strings.Join(p, ", ") + "]"
}

func inputs(l []jArg) string {
	var p []string
	for _, a := range l {
		p = append(p, fmt.Sprintf("⟨%s, %s, %v⟩", ex.LeanStr(a.Name), ex.LeanStr(a.Type), a.Indexed))
	}
	return "[" + strings.Join(p, ", ") + "]"
}

func pairs(l [][2]string) string {
	var p []string
	for _, a := range l {
		p = append(p, fmt.Sprintf("(%s, %s)", ex.LeanStr(a[0]), ex.LeanStr(a[1])))
	}
	return "[" + strings.Join(p, ", ") + "]"
}

func recvName(fd *ast.FuncDecl) string {
	if fd.Recv == nil || len(fd.Recv.List) == 0 {
		return ""
	}
	t := fd.Recv.List[0].Type
	if s, ok := t.(*ast.StarExpr); ok {
		t = s.X
	}
	if id, ok := t.(*ast.Ident); ok {
		return id.Name
	}
	return ""
}

var idRe = regexp.MustCompile(`0x([0-9a-fA-F]+)`)

func docID(fd *ast.FuncDecl) string {
	if fd.Doc == nil {
		return ""
	}
	for _, c := range fd.Doc.List {
		if strings.Contains(c.Text, "binding the contract") {
			if m := idRe.FindStringSubmatch(c.Text); m != nil {
				return strings.ToLower(m[1])
			}
		}
	}
	return ""
}

type binding struct {
	lean     []string // BMethod literals: transactors
	sessions []string
	evIDs    []string
	methods  []string
	events   []string
}

func bindingFacts(repo, pkg, file, typ string) (*binding, error) {
	path := filepath.Join(repo, "onchain", pkg, file)
	fset, f, err := ex.Parse(path)
	if err != nil {
		return nil, err
	}
	b := &binding{}
	// the embedded ABI
	abiJSON := ""
	ast.Inspect(f, func(n ast.Node) bool {
		kv, ok := n.(*ast.KeyValueExpr)
		if !ok {
			return true
		}
		if k, ok := kv.Key.(*ast.Ident); ok && k.Name == "ABI" {
			if bl, ok := kv.Value.(*ast.BasicLit); ok && bl.Kind == token.STRING && abiJSON == "" {
				if s, err := strconv.Unquote(bl.Value); err == nil {
					abiJSON = s
				}
			}
		}
		return true
	})
	if abiJSON == "" {
		return nil, fmt.Errorf("%s: no MetaData{ABI: \"…\"} literal", path)
	}
	var items []jItem
	if err := json.Unmarshal([]byte(abiJSON), &items); err != nil {
		return nil, fmt.Errorf("%s: embedded ABI does not parse: %v", path, err)
	}
	for _, it := range items {
		switch it.Type {
		case "function":
			var outs []string
			for _, o := range it.Outputs {
				outs = append(outs, o.Type)
			}
			b.methods = append(b.methods, fmt.Sprintf("  { contract := %s, name := %s, inputs := %s, outputs := %s, mutability := %s }",
				ex.LeanStr(pkg), ex.LeanStr(it.Name), inputs(it.Inputs), strList(outs), ex.LeanStr(it.StateMutability)))
		case "event":
			b.events = append(b.events, fmt.Sprintf("  { contract := %s, name := %s, anonymous := %v, inputs := %s }",
				ex.LeanStr(pkg), ex.LeanStr(it.Name), it.Anonymous, inputs(it.Inputs)))
		}
	}
	// transactor / session methods that send, Watch methods
	for _, d := range f.Decls {
		fd, ok := d.(*ast.FuncDecl)
		if !ok || fd.Body == nil {
			continue
		}
		r := recvName(fd)
		switch {
		case r == typ+"Transactor" || r == typ+"Session":
			if len(fd.Body.List) != 1 {
				continue
			}
			ret, ok := fd.Body.List[0].(*ast.ReturnStmt)
			if !ok || len(ret.Results) != 1 {
				continue
			}
			call, ok := ret.Results[0].(*ast.CallExpr)
			if !ok {
				continue
			}
			sel, ok := call.Fun.(*ast.SelectorExpr)
			if !ok {
				continue
			}
			var params [][2]string
			for _, p := range fd.Type.Params.List {
				t := src(fset, p.Type)
				for _, n := range p.Names {
					params = append(params, [2]string{n.Name, t})
				}
			}
			if r == typ+"Transactor" {
				if sel.Sel.Name != "Transact" || len(call.Args) < 2 {
					continue
				}
				name, err := strconv.Unquote(src(fset, call.Args[1]))
				if err != nil {
					name = src(fset, call.Args[1])
				}
				var passed []string
				for _, a := range call.Args[2:] {
					passed = append(passed, src(fset, a))
				}
				b.lean = append(b.lean, fmt.Sprintf("  { contract := %s, goName := %s, params := %s, target := %s, first := %s, passed := %s, docId := %s }",
					ex.LeanStr(pkg), ex.LeanStr(fd.Name.Name), pairs(params), ex.LeanStr(name), ex.LeanStr(src(fset, call.Args[0])), strList(passed), ex.LeanStr(docID(fd))))
			} else {
				// only the wrappers that hand over the session's TransactOpts
				if len(call.Args) < 1 || !strings.Contains(src(fset, call.Args[0]), "TransactOpts") {
					continue
				}
				var passed []string
				for _, a := range call.Args[1:] {
					passed = append(passed, src(fset, a))
				}
				b.sessions = append(b.sessions, fmt.Sprintf("  { contract := %s, goName := %s, params := %s, target := %s, first := %s, passed := %s, docId := %s }",
					ex.LeanStr(pkg), ex.LeanStr(fd.Name.Name), pairs(params), ex.LeanStr(src(fset, sel)), ex.LeanStr(src(fset, call.Args[0])), strList(passed), ex.LeanStr(docID(fd))))
			}
		case r == typ+"Filterer" && strings.HasPrefix(fd.Name.Name, "Watch"):
			b.evIDs = append(b.evIDs, fmt.Sprintf("  (%s, %s, %s)", ex.LeanStr(pkg), ex.LeanStr(strings.TrimPrefix(fd.Name.Name, "Watch")), ex.LeanStr(docID(fd))))
		}
	}
	return b, nil
}

func run(repo string) (string, error) {
	px, err := bindingFacts(repo, "dosproxy", "DOSProxy.go", "Dosproxy")
	if err != nil {
		return "", err
	}
	cr, err := bindingFacts(repo, "commitreveal", "CommitReveal.go", "Commitreveal")
	if err != nil {
		return "", err
	}
	// call sites in eth_set.go
	setPath := filepath.Join(repo, "onchain", "eth_set.go")
	fset, f, err := ex.Parse(setPath)
	if err != nil {
		return "", err
	}
	var sites []string
	for _, d := range f.Decls {
		fd, ok := d.(*ast.FuncDecl)
		if !ok || fd.Body == nil {
			continue
		}
		ast.Inspect(fd.Body, func(n ast.Node) bool {
			call, ok := n.(*ast.CallExpr)
			if !ok {
				return true
			}
			sel, ok := call.Fun.(*ast.SelectorExpr)
			if !ok {
				return true
			}
			ix, ok := sel.X.(*ast.IndexExpr)
			if !ok {
				return true
			}
			coll := src(fset, ix.X)
			switch coll {
			case "proxies", "crs", "e.proxies", "e.crs", "e.wsProxies", "e.wsCrs":
			default:
				return true
			}
			var args []string
			for _, a := range call.Args {
				args = append(args, src(fset, a))
			}
			sites = append(sites, fmt.Sprintf("  { adaptorMethod := %s, coll := %s, index := %s, goMethod := %s, args := %s }",
				ex.LeanStr(fd.Name.Name), ex.LeanStr(coll), ex.LeanStr(src(fset, ix.Index)), ex.LeanStr(sel.Sel.Name), strList(args)))
			return true
		})
	}
	if len(sites) == 0 {
		return "", fmt.Errorf("%s: no session call sites found", setPath)
	}
	// Connect: where the contract addresses come from and how the bindings are built
	pfset, pf, err := ex.Parse(filepath.Join(repo, "onchain", "eth_proxy.go"))
	if err != nil {
		return "", err
	}
	var conn []string
	if fd := ex.FuncDecl(pf, "ethAdaptor", "Connect"); fd != nil {
		ast.Inspect(fd.Body, func(n ast.Node) bool {
			as, ok := n.(*ast.AssignStmt)
			if !ok {
				return true
			}
			s := src(pfset, as)
			for _, k := range []string{"NewDosbridge(", "GetProxyAddress(", "GetCommitRevealAddress(", "NewDosproxy(", "NewCommitreveal("} {
				if strings.Contains(s, k) {
					conn = append(conn, s)
					break
				}
			}
			return true
		})
	}
	if len(conn) == 0 {
		return "", fmt.Errorf("eth_proxy.go: Connect builds no binding")
	}

	var b strings.Builder
	b.WriteString(ex.Header("AbiFacts", "onchain/dosproxy/DOSProxy.go, onchain/commitreveal/CommitReveal.go, onchain/eth_set.go, onchain/eth_proxy.go"))
	b.WriteString(`namespace Dos.Gen.AbiFacts

/-- one ABI input as the embedded ABI JSON declares it -/
structure AInput where
  name : String
  ty : String
  indexed : Bool
  deriving DecidableEq, Repr

structure AMethod where
  contract : String
  name : String
  inputs : List AInput
  outputs : List String
  mutability : String
  deriving DecidableEq, Repr

structure AEvent where
  contract : String
  name : String
  anonymous : Bool
  inputs : List AInput
  deriving DecidableEq, Repr

/-- a one-line forwarding method of the binding: Transactor (` + "`contract.Transact(opts, \"name\", args…)`" + `) or Session
(` + "`Contract.Name(&TransactOpts, args…)`" + `) -/
structure BMethod where
  contract : String
  goName : String
  params : List (String × String)   -- parameter name, Go type (the Transactor's leading ` + "`opts`" + ` included)
  target : String                    -- ABI method name (Transactor) / the method forwarded to (Session)
  first : String                     -- first argument of the forwarded call
  passed : List String               -- the remaining arguments, in order
  docId : String                     -- hex id quoted in the doc comment
  deriving DecidableEq, Repr

structure CallSite where
  adaptorMethod : String
  coll : String
  index : String
  goMethod : String
  args : List String
  deriving DecidableEq, Repr

`)
	b.WriteString("def methods : List AMethod := [\n" + strings.Join(append(px.methods, cr.methods...), ",\n") + "\n]\n\n")
	b.WriteString("def events : List AEvent := [\n" + strings.Join(append(px.events, cr.events...), ",\n") + "\n]\n\n")
	b.WriteString("def transactors : List BMethod := [\n" + strings.Join(append(px.lean, cr.lean...), ",\n") + "\n]\n\n")
	b.WriteString("def sessions : List BMethod := [\n" + strings.Join(append(px.sessions, cr.sessions...), ",\n") + "\n]\n\n")
	b.WriteString("/-- contract, event, the id quoted in the doc comment of its Watch method -/\ndef eventDocIds : List (String × String × String) := [\n" + strings.Join(append(px.evIDs, cr.evIDs...), ",\n") + "\n]\n\n")
	b.WriteString("/-- every session-method call of onchain/eth_set.go -/\ndef callSites : List CallSite := [\n" + strings.Join(sites, ",\n") + "\n]\n\n")
	b.WriteString("/-- Connect: where the contract addresses come from, how the bindings are built (rpc endpoints, then websocket) -/\ndef connectBindings : List String := " + strList(conn) + "\n\n")
	b.WriteString("end Dos.Gen.AbiFacts\n")
	return b.String(), nil
}

/-
C15 — length-prefixed framing is transparent to stream fragmentation and bounded.
Property theorems only; helper lemmas are in `Proofs/Framing.lean`.
`L` is the frame-size limit; `c15_limit_is_1MiB` pins the limit the code uses
(regenerated from p2p/client.go on every run) to the 1 MiB of the property.
-/
import DosModel.Proofs.Framing
import DosModel.Proofs.FramingInterleave
import DosModel.Proofs.FramingEof
import DosModel.Gen.P2PConsts
import DosModel.Gen.P2PFraming

namespace Dos.Props.C15
open Dos Dos.Framing

/-- regenerated fact: the code's limit is 1 MiB and its header is 4 bytes -/
theorem c15_limit_is_1MiB : Gen.msgSizeLimit = 2 ^ 20 ∧ Gen.p2pHeaderSize = Framing.headerSize := by
  decide

/-- regenerated fact: the COMPLETE bodies of `readFrom` / `writeTo` (every top-level statement
printed in full by go/printer, nested blocks included, comments dropped) are the text that
`Model/Framing.lean` transcribes, and neither function touches a package-level variable (a reader's
state is its own: the hypothesis of `interleaving_independent`). Any edit of a statement of either
function breaks this theorem and must be re-modelled. -/
theorem c15_code_shape :
    Gen.P2PFraming.readFrom = [
      "sig func(conn net.Conn) (buffer []byte, err error)",
      "0 header := make([]byte, headerSize)",
      "1 bytesRead, totalBytesRead := 0, 0",
      "2 for totalBytesRead < headerSize && err == nil { if bytesRead, err = conn.Read(header[totalBytesRead:]); err != nil { err = errors.Errorf(\"conn read header: %w\", err) return } totalBytesRead += bytesRead }",
      "3 size := binary.BigEndian.Uint32(header)",
      "4 header = nil",
      "5 if size > msgSizeLimit || size <= 0 { err = errors.Errorf(\"SizeLimit %d size %d: %w\", msgSizeLimit, size, ErrMsgOverSize) return }",
      "6 buffer = make([]byte, size)",
      "7 contentBytesRead, totalContentBytesRead := 0, 0",
      "8 for totalContentBytesRead < int(size) && err == nil { if contentBytesRead, err = conn.Read(buffer[totalContentBytesRead:]); err != nil { err = errors.Errorf(\"conn read content: %w\", err) return } totalContentBytesRead += contentBytesRead }",
      "9 return"] ∧
    Gen.P2PFraming.writeTo = [
      "sig func(bytes []byte, conn net.Conn) (err error)",
      "0 prefix := make([]byte, headerSize)",
      "1 bytesWrite, totalBytesWrtie := 0, 0",
      "2 size := len(bytes)",
      "3 if size > msgSizeLimit { err = errors.Errorf(\"SizeLimit %d size %d: %w\", msgSizeLimit, size, ErrMsgOverSize) return }",
      "4 binary.BigEndian.PutUint32(prefix, uint32(size))",
      "5 bytes = append(prefix, bytes...)",
      "6 for totalBytesWrtie < len(bytes) && err == nil { if bytesWrite, err = conn.Write(bytes[totalBytesWrtie:]); err != nil { err = errors.Errorf(\"conn write: %w\", err) return } totalBytesWrtie += bytesWrite }",
      "7 return"] ∧
    Gen.P2PFraming.packageLevelVarsUsed = [] :=
  ⟨rfl, rfl, rfl⟩

/-- **1. round trip under every chunking, no bleed.**  For every limit `L < 2^32`, payload of
1..L bytes, every trailing data `rest` and EVERY way `cs` of cutting the byte stream
`header ++ payload ++ rest` into read chunks (including empty reads), one `readFrom`
returns exactly the payload, leaves exactly `rest` on the connection and never
asks for more than `max 4 |payload|` bytes. -/
theorem roundtrip_any_chunking (L : Nat) (hL : L < 2 ^ 32) (p rest : Bytes)
    (hp1 : 1 ≤ p.length) (hpL : p.length ≤ L) (cs : List Bytes)
    (hcs : cs.flatten = natBE 4 p.length ++ p ++ rest) :
    (readFrame L cs).out = .ok p ∧ (readFrame L cs).rest.flatten = rest
      ∧ (readFrame L cs).req = max 4 p.length := by
  have hlen : (natBE 4 p.length).length = 4 := natBE_length 4 _
  obtain ⟨cs1, h1, h1r⟩ := readN_spec cs 4 (by rw [hcs]; simp [hlen])
  have htake : cs.flatten.take 4 = natBE 4 p.length := by
    rw [hcs, List.append_assoc, List.take_append_of_le_length (by omega)]
    exact List.take_of_length_le (by omega)
  have hdrop : cs1.flatten = p ++ rest := by
    rw [h1r, hcs, List.append_assoc, List.drop_append_of_le_length (by omega)]
    rw [List.drop_of_length_le (by omega)]; rfl
  have hsz : beNat (natBE 4 p.length) = p.length := beNat_natBE4 _ (by omega)
  obtain ⟨cs2, h2, h2r⟩ := readN_spec cs1 p.length (by rw [hdrop]; simp)
  have hp : cs1.flatten.take p.length = p := by rw [hdrop]; simp
  have hr : cs2.flatten = rest := by rw [h2r, hdrop]; simp
  have hnot : ¬ (p.length > L ∨ p.length = 0) := by omega
  have e : readFrame L cs = { out := .ok p, rest := cs2, req := max 4 p.length } := by
    simp only [readFrame, headerSize, h1, htake, hsz, hnot, if_false, h2, hp]
  rw [e]; exact ⟨rfl, hr, rfl⟩

/-- the wire bytes of `k` frames followed by `rest` -/
def wire : List Bytes → Bytes → Bytes
  | [], rest => rest
  | p :: ps, rest => natBE 4 p.length ++ p ++ wire ps rest

/-- **2. consecutive frames never bleed.**  Reading `k` frames from ANY chunking of `k`
concatenated frames returns the `k` payloads in order and leaves `rest`. -/
theorem frames_sequence (L : Nat) (hL : L < 2 ^ 32) (ps : List Bytes) (rest : Bytes)
    (hps : ∀ p ∈ ps, 1 ≤ p.length ∧ p.length ≤ L) :
    ∀ cs : List Bytes, cs.flatten = wire ps rest →
      (readFrames L ps.length cs).1 = ps.map .ok ∧ (readFrames L ps.length cs).2.flatten = rest := by
  induction ps with
  | nil => intro cs h; simpa [readFrames, wire] using h
  | cons p ps ih =>
    intro cs h
    have hp := hps p (by simp)
    obtain ⟨ho, hr, _⟩ := roundtrip_any_chunking L hL p (wire ps rest) hp.1 hp.2 cs (by simpa [wire] using h)
    have ih' := ih (fun q hq => hps q (by simp [hq])) (readFrame L cs).rest hr
    simp only [List.length_cons, readFrames, ho, List.map_cons]
    exact ⟨by rw [ih'.1], ih'.2⟩

/-- **3. zero / oversize header is rejected before any payload-sized allocation or read**,
whatever follows on the connection and however it is chunked. -/
theorem oversize_rejected_early (L : Nat) (cs : List Bytes) (hdr tail : Bytes)
    (hh : hdr.length = 4) (hcs : cs.flatten = hdr ++ tail)
    (hbad : beNat hdr = 0 ∨ beNat hdr > L) :
    (readFrame L cs).out = .error .size ∧ (readFrame L cs).req = 4 := by
  obtain ⟨cs1, h1, _⟩ := readN_spec cs 4 (by rw [hcs]; simp [hh])
  have htake : cs.flatten.take 4 = hdr := by
    rw [hcs, List.take_append_of_le_length (by omega)]; exact List.take_of_length_le (by omega)
  have hc : beNat hdr > L ∨ beNat hdr = 0 := by omega
  simp [readFrame, headerSize, h1, htake, hc]

/-- **4a. a stream that ends inside the header is an error**, never a payload. -/
theorem truncated_header_errors (L : Nat) (cs : List Bytes) (h : cs.flatten.length < 4) :
    (readFrame L cs).out = .error .header := by
  simp [readFrame, headerSize, readN_none cs 4 h]

/-- **4b. a stream that ends inside the payload is an error**, never a short or padded payload. -/
theorem truncated_body_errors (L : Nat) (cs : List Bytes) (hdr body : Bytes)
    (hh : hdr.length = 4) (hcs : cs.flatten = hdr ++ body) (hshort : body.length < beNat hdr) :
    ∃ e, (readFrame L cs).out = .error e := by
  obtain ⟨cs1, h1, h1r⟩ := readN_spec cs 4 (by rw [hcs]; simp [hh])
  have htake : cs.flatten.take 4 = hdr := by
    rw [hcs, List.take_append_of_le_length (by omega)]; exact List.take_of_length_le (by omega)
  have hdrop : cs1.flatten = body := by
    rw [h1r, hcs, List.drop_append_of_le_length (by omega), List.drop_of_length_le (by omega)]; rfl
  by_cases hc : beNat hdr > L ∨ beNat hdr = 0
  · exact ⟨.size, by simp [readFrame, headerSize, h1, htake, hc]⟩
  · refine ⟨.body, ?_⟩
    have hn := readN_none cs1 (beNat hdr) (by rw [hdrop]; exact hshort)
    simp [readFrame, headerSize, h1, htake, hc, hn]

/-- **4c. whatever is returned as a payload has exactly the announced length** (so it is
neither short nor padded), for every stream and chunking. -/
theorem ok_has_announced_length (L : Nat) (cs : List Bytes) (b : Bytes)
    (h : (readFrame L cs).out = .ok b) :
    b.length = beNat (cs.flatten.take 4) ∧ 1 ≤ b.length ∧ b.length ≤ L
      ∧ b = (cs.flatten.drop 4).take b.length := by
  by_cases h4 : 4 ≤ cs.flatten.length
  · obtain ⟨cs1, h1, h1r⟩ := readN_spec cs 4 h4
    by_cases hc : beNat (cs.flatten.take 4) > L ∨ beNat (cs.flatten.take 4) = 0
    · simp [readFrame, headerSize, h1, hc] at h
    · by_cases hb : beNat (cs.flatten.take 4) ≤ cs1.flatten.length
      · obtain ⟨cs2, h2, _⟩ := readN_spec cs1 _ hb
        simp only [readFrame, headerSize, h1, hc, if_false, h2] at h
        injection h with h; subst h
        have : (cs1.flatten.take (beNat (cs.flatten.take 4))).length = beNat (cs.flatten.take 4) := by
          rw [List.length_take]; exact Nat.min_eq_left hb
        refine ⟨this, by omega, by omega, ?_⟩
        rw [this, h1r]
      · have hn := readN_none cs1 (beNat (cs.flatten.take 4)) (by omega)
        simp [readFrame, headerSize, h1, hc, hn] at h
  · have hn := readN_none cs 4 (by omega)
    simp [readFrame, headerSize, hn] at h

/-- **5. the writer** refuses more than `L` bytes and otherwise emits header ++ payload,
which (by 1) reads back under every chunking. -/
theorem write_limit (L : Nat) (p : Bytes) :
    (p.length > L → writeFrame L p = none) ∧
    (p.length ≤ L → writeFrame L p = some (natBE 4 p.length ++ p)) := by
  constructor <;> intro h <;> simp [writeFrame, h] <;> omega

theorem write_read_roundtrip (L : Nat) (hL : L < 2 ^ 32) (p : Bytes) (hp1 : 1 ≤ p.length)
    (hpL : p.length ≤ L) (s : Bytes) (hw : writeFrame L p = some s)
    (cs : List Bytes) (hcs : cs.flatten = s) : (readFrame L cs).out = .ok p := by
  have := (write_limit L p).2 hpL
  rw [this] at hw; injection hw with hw
  exact (roundtrip_any_chunking L hL p [] hp1 hpL cs (by simp [hcs, ← hw])).1

/-- **5b. partial writes.**  However many bytes the transport accepts per `Write` call
(`ks`, any pattern), the pieces `writeTo` hands to it concatenate to header ++ payload. -/
theorem write_any_partial (L : Nat) (p : Bytes) (hpL : p.length ≤ L) (ks : List Nat) :
    ∃ pieces, writeFrameTo L p ks = some pieces ∧ pieces.flatten = natBE 4 p.length ++ p := by
  refine ⟨_, ?_, writeLoop_flatten _ _ ks (Nat.le_refl _)⟩
  simp [writeFrameTo, (write_limit L p).2 hpL]

/-- **6. end to end, "however the transport fragments or coalesces the byte stream".**
Frames written with ANY partial-write pattern and then re-cut by the transport into ANY
read chunking `cs` of the same bytes (followed by `rest`) read back identically. -/
theorem end_to_end (L : Nat) (hL : L < 2 ^ 32) (p rest : Bytes) (hp1 : 1 ≤ p.length)
    (hpL : p.length ≤ L) (ks : List Nat) (pieces : List Bytes)
    (hw : writeFrameTo L p ks = some pieces) (cs : List Bytes)
    (hcs : cs.flatten = pieces.flatten ++ rest) :
    (readFrame L cs).out = .ok p ∧ (readFrame L cs).rest.flatten = rest := by
  obtain ⟨pieces', h1, h2⟩ := write_any_partial L p hpL ks
  rw [h1] at hw; injection hw with hw; subst hw
  have := roundtrip_any_chunking L hL p rest hp1 hpL cs (by rw [hcs, h2])
  exact ⟨this.1, this.2.1⟩

/-- **7a. the step machine (one `conn.Read` per step) is `readFrom`.**  Run long enough, the
machine that cuts `readFrom` at its `Read` calls ends with exactly `readFrame`'s result. -/
theorem machine_is_readFrame (L : Nat) (cs : List Bytes) :
    ∃ k0, ∀ k, k0 ≤ k → readerResult (iterReader L k (initReader cs)) = some (readFrame L cs) :=
  Framing.machine_is_readFrame L cs

/-- **7b. concurrent connections do not disturb one another.**  Two readers on two connections,
their `Read` calls interleaved by ANY schedule `sch` that is eventually long enough for both
(`pre` arbitrary, then enough turns for each in any arrangement `tail`), end exactly where each
would end alone: with `readFrame` of its own connection. -/
theorem interleaving_independent (L : Nat) (ca cb : List Bytes) :
    ∃ ka kb, ∀ sch : List Bool, ka ≤ countTrue sch → kb ≤ countFalse sch →
      readerResult (runInter L sch (initReader ca, initReader cb)).1 = some (readFrame L ca) ∧
      readerResult (runInter L sch (initReader ca, initReader cb)).2 = some (readFrame L cb) := by
  obtain ⟨ka, ha⟩ := Framing.machine_is_readFrame L ca
  obtain ⟨kb, hb⟩ := Framing.machine_is_readFrame L cb
  refine ⟨ka, kb, fun sch h1 h2 => ?_⟩
  rw [runInter_split]
  exact ⟨ha _ h1, hb _ h2⟩

/-! ### a transport whose last `Read` returns bytes AND the error (`n > 0, io.EOF`)

`readFrameE` is `readFrom` over such a transport (allowed by the `io.Reader` contract; Go's TCP
connections report the error in a separate `Read`). The code drops the bytes of a failing `Read`. -/

/-- **8a. bytes that arrive together with the error never become a short or padded payload.**
Whatever `readFrom` accepts on such a transport it would have accepted, with the same rest, had the
error come in a separate `Read`; so by 4c the payload has exactly the announced length and is exactly
the announced bytes of the stream. -/
theorem eofdata_ok_is_plain_ok (L : Nat) (cs : List Bytes) (b : Bytes)
    (h : (readFrameE L cs).out = .ok b) :
    (readFrame L cs).out = .ok b ∧ (readFrame L cs).rest = (readFrameE L cs).rest
      ∧ b.length = beNat (cs.flatten.take 4) ∧ b = (cs.flatten.drop 4).take b.length := by
  have e := readFrameE_ok_imp L cs b h
  have h' : (readFrame L cs).out = .ok b := by rw [e]; exact h
  have := ok_has_announced_length L cs b h'
  exact ⟨h', by rw [e], this.1, this.2.2.2⟩

/-- **8b. a stream that ends inside the payload is an error on such a transport too** — in
particular when the truncated tail arrives in the very `Read` that reports the end of the stream. -/
theorem eofdata_truncated_errors (L : Nat) (cs : List Bytes) (hdr body : Bytes)
    (hh : hdr.length = 4) (hcs : cs.flatten = hdr ++ body) (hshort : body.length < beNat hdr) :
    ∃ e, (readFrameE L cs).out = .error e := by
  cases hr : (readFrameE L cs).out with
  | error e => exact ⟨e, rfl⟩
  | ok b =>
    obtain ⟨e, he⟩ := truncated_body_errors L cs hdr body hh hcs hshort
    rw [(eofdata_ok_is_plain_ok L cs b hr).1] at he
    cases he

/-- **8c. round trip and no bleed when more data follows the frame** (every frame but the last one
before the stream ends), under every chunking. -/
theorem eofdata_roundtrip_when_more_follows (L : Nat) (hL : L < 2 ^ 32) (p rest : Bytes)
    (hp1 : 1 ≤ p.length) (hpL : p.length ≤ L) (hrest : rest ≠ []) (cs : List Bytes)
    (hcs : cs.flatten = natBE 4 p.length ++ p ++ rest) :
    (readFrameE L cs).out = .ok p ∧ (readFrameE L cs).rest.flatten = rest := by
  have hlen : (natBE 4 p.length).length = 4 := natBE_length 4 _
  have htake : cs.flatten.take 4 = natBE 4 p.length := by
    rw [hcs, List.append_assoc, List.take_append_of_le_length (by omega)]
    exact List.take_of_length_le (by omega)
  have hsz : beNat (natBE 4 p.length) = p.length := beNat_natBE4 _ (by omega)
  have hr : 0 < rest.length := List.length_pos_iff.mpr hrest
  have e := readFrameE_eq_of_more L cs (by
    rw [htake, hsz, hcs]; simp only [List.length_append, hlen]; omega)
  rw [e]
  have := roundtrip_any_chunking L hL p rest hp1 hpL cs hcs
  exact ⟨this.1, this.2.1⟩

/-- **8d. (the code as it is) the last frame before the end of such a stream is rejected**: its last
byte arrives with the error and is dropped. Not a short or padded payload, but not a round trip
either; Go's TCP connections never pair data with the error, so the p2p layer does not meet this. -/
theorem eofdata_last_frame_rejected (L : Nat) (hL : L < 2 ^ 32) (p : Bytes)
    (hp1 : 1 ≤ p.length) (cs : List Bytes) (hcs : cs.flatten = natBE 4 p.length ++ p) (hpL : p.length ≤ L) :
    ∃ e, (readFrameE L cs).out = .error e := by
  have hlen : (natBE 4 p.length).length = 4 := natBE_length 4 _
  have htake : cs.flatten.take 4 = natBE 4 p.length := by
    rw [hcs, List.take_append_of_le_length (by omega)]
    exact List.take_of_length_le (by omega)
  have hsz : beNat (natBE 4 p.length) = p.length := beNat_natBE4 _ (by omega)
  exact readFrameE_last_frame L cs (by rw [hcs]; simp only [List.length_append, hlen]; omega)
    (by rw [htake, hsz, hcs]; simp only [List.length_append, hlen]; omega)

/-- the statement of the property at the code's own limit -/
theorem c15_at_code_limit (p rest : Bytes) (hp1 : 1 ≤ p.length) (hpL : p.length ≤ 2 ^ 20)
    (cs : List Bytes) (hcs : cs.flatten = natBE 4 p.length ++ p ++ rest) :
    (readFrame Gen.msgSizeLimit cs).out = .ok p ∧ (readFrame Gen.msgSizeLimit cs).rest.flatten = rest := by
  have h := c15_limit_is_1MiB.1
  have := roundtrip_any_chunking Gen.msgSizeLimit (by rw [h]; decide) p rest hp1 (by rw [h]; exact hpL) cs hcs
  exact ⟨this.1, this.2.1⟩

/-! non-vacuity: concrete instances of the hypotheses -/
example : (readFrame 1048576 [[0, 0], [0, 2, 7], [9, 5], [6]]).out = .ok [7, 9] ∧
    (readFrame 1048576 [[0, 0], [0, 2, 7], [9, 5], [6]]).rest.flatten = [5, 6] := ⟨rfl, rfl⟩
/-- the interleaving a b b a … of the seeded shared-header-buffer change: both readers still get their own frame -/
example : (readerResult (runInter 1048576 [true, false, false, true, true, false, true, false, true, false]
      (initReader [[0, 0], [0, 2, 7, 9]], initReader [[0, 0, 0, 1], [5]])).1).map (·.out) = some (.ok [7, 9]) ∧
    (readerResult (runInter 1048576 [true, false, false, true, true, false, true, false, true, false]
      (initReader [[0, 0], [0, 2, 7, 9]], initReader [[0, 0, 0, 1], [5]])).2).map (·.out) = some (.ok [5]) := ⟨rfl, rfl⟩
example : writeFrameTo 1048576 [7, 9] [1, 3] = some [[0], [0, 0, 2], [7, 9]] := rfl
example : (readFrame 1048576 [[0, 0, 0], [0, 1, 1]]).out = .error .size := rfl
example : (readFrame 1048576 [[0, 0, 0, 3], [1, 1]]).out = .error .body := rfl
/-- data-with-error transport: the truncated tail [1, 1] arrives with the EOF and is NOT padded to 3 bytes -/
example : (readFrameE 1048576 [[0, 0, 0, 3], [1, 1]]).out = .error .body := rfl
example : (readFrameE 1048576 [[0, 0], [0, 2, 7], [9, 5], [6]]).out = .ok [7, 9] ∧
    (readFrameE 1048576 [[0, 0], [0, 2, 7], [9, 5], [6]]).rest.flatten = [5, 6] := ⟨rfl, rfl⟩
example : (readFrameE 1048576 [[0, 0, 0, 2, 7], [9]]).out = .error .body := rfl

end Dos.Props.C15

// Package reqloop: the shape of onchain/eth_set.go that Model/ReqLoop.lean hard-codes, as Lean data.
//
//   - handleReq: the labelled range loop, the select cases and what each does, the call of req.f, the error
//     texts matched and the branch statement that follows each match (`break L` / `break` / `continue`), the
//     cancel call, the guard after the loop, the reply literal, and a pre-order skeleton of all its control
//     statements;
//   - every request closure `f := func(ctx) (tx, err) {…}` of the adaptor's methods: the statements that
//     prepare the arguments, the binding call, and the token (`=` or `:=`) of every assignment whose left
//     side mentions the named results tx / err.
//
// go/ast only.
package reqloop

import (
	"bytes"
	"fmt"
	"go/ast"
	"go/printer"
	"go/token"
	"path/filepath"
	"strings"

	"verifharness/extract/ex"
)

func init() { ex.Register(&ex.Extractor{Name: "ReqLoopFacts", Run: run}) }

func src(fset *token.FileSet, n ast.Node) string {
	var b bytes.Buffer
	printer.Fprint(&b, fset, n)
	return strings.Join(strings.Fields(b.String()), " ")
}

func branchText(b *ast.BranchStmt) string {
	s := b.Tok.String()
	if b.Label != nil {
		s += " " + b.Label.Name
	}
	return s
}

// containsLits: string literals passed to strings.Contains(err.Error(), lit) inside e
func containsLits(e ast.Expr) []string {
	var out []string
	ast.Inspect(e, func(n ast.Node) bool {
		if call, ok := n.(*ast.CallExpr); ok {
			if sel, ok := call.Fun.(*ast.SelectorExpr); ok && sel.Sel.Name == "Contains" && len(call.Args) == 2 {
				if bl, ok := call.Args[1].(*ast.BasicLit); ok {
					out = append(out, strings.Trim(bl.Value, "\""))
				}
			}
		}
		return true
	})
	return out
}

// lastBranch: the last statement of a block if it is a branch / return, else "(falls through)"
func lastStmt(fset *token.FileSet, b *ast.BlockStmt) string {
	if len(b.List) == 0 {
		return "(empty)"
	}
	switch s := b.List[len(b.List)-1].(type) {
	case *ast.BranchStmt:
		return branchText(s)
	case *ast.ReturnStmt:
		return src(fset, s)
	}
	return "(falls through)"
}

func skeleton(fset *token.FileSet, body *ast.BlockStmt) []string {
	var out []string
	var walk func(n ast.Node, d int)
	emit := func(d int, s string) { out = append(out, fmt.Sprintf("%d %s", d, s)) }
	walkList := func(l []ast.Stmt, d int) {
		for _, s := range l {
			walk(s, d)
		}
	}
	walk = func(n ast.Node, d int) {
		switch s := n.(type) {
		case *ast.LabeledStmt:
			emit(d, "label "+s.Label.Name)
			walk(s.Stmt, d)
		case *ast.RangeStmt:
			emit(d, fmt.Sprintf("for %s, %s %s range %s", src(fset, s.Key), src(fset, s.Value), s.Tok, src(fset, s.X)))
			walkList(s.Body.List, d+1)
		case *ast.ForStmt:
			hd := "for"
			if s.Init != nil || s.Cond != nil || s.Post != nil {
				part := func(n ast.Node) string {
					if n == nil || n == ast.Node((*ast.ExprStmt)(nil)) {
						return ""
					}
					return src(fset, n)
				}
				var i, c, p string
				if s.Init != nil {
					i = part(s.Init)
				}
				if s.Cond != nil {
					c = part(s.Cond)
				}
				if s.Post != nil {
					p = part(s.Post)
				}
				hd = "for " + i + "; " + c + "; " + p
			}
			emit(d, hd)
			walkList(s.Body.List, d+1)
		case *ast.SelectStmt:
			emit(d, "select")
			for _, c := range s.Body.List {
				cc := c.(*ast.CommClause)
				if cc.Comm == nil {
					emit(d+1, "default")
				} else {
					emit(d+1, "case "+src(fset, cc.Comm))
				}
				walkList(cc.Body, d+2)
			}
		case *ast.IfStmt:
			h := "if " + src(fset, s.Cond)
			if s.Init != nil {
				h = "if " + src(fset, s.Init) + "; " + src(fset, s.Cond)
			}
			emit(d, h)
			walkList(s.Body.List, d+1)
			if s.Else != nil {
				emit(d, "else")
				if b, ok := s.Else.(*ast.BlockStmt); ok {
					walkList(b.List, d+1)
				} else {
					walk(s.Else, d+1)
				}
			}
		case *ast.BranchStmt:
			emit(d, branchText(s))
		case *ast.ReturnStmt:
			emit(d, src(fset, s))
		case *ast.AssignStmt:
			emit(d, src(fset, s))
		case *ast.ExprStmt:
			emit(d, src(fset, s))
		case *ast.DeclStmt:
			emit(d, src(fset, s))
		case *ast.GoStmt:
			emit(d, "go func")
		case *ast.BlockStmt:
			walkList(s.List, d)
		default:
			emit(d, fmt.Sprintf("%T", n))
		}
	}
	walkList(body.List, 0)
	return out
}

type closure struct {
	method  string
	prep    []string    // statements of the method before `f :=` that are neither the connection check nor the context set-up
	results string      // the closure's result list
	call    string      // right-hand side of the assignment to tx, err that calls the binding
	assigns [][2]string // (lhs, token) of every assignment in the closure whose lhs mentions tx or err
	last    string      // last statement of the closure
}

func mentions(e ast.Expr, names ...string) bool {
	found := false
	ast.Inspect(e, func(n ast.Node) bool {
		if id, ok := n.(*ast.Ident); ok {
			for _, nm := range names {
				if id.Name == nm {
					found = true
				}
			}
		}
		return true
	})
	return found
}

func run(repo string) (string, error) {
	fset, f, err := ex.Parse(filepath.Join(repo, "onchain", "eth_set.go"))
	if err != nil {
		return "", err
	}
	hr := ex.FuncDecl(f, "ethAdaptor", "handleReq")
	if hr == nil {
		return "", fmt.Errorf("handleReq not found in onchain/eth_set.go")
	}
	// the labelled loop
	label, rangeHdr := "(none)", "(none)"
	var sel *ast.SelectStmt
	var loopIdx = -1
	for i, st := range hr.Body.List {
		if ls, ok := st.(*ast.LabeledStmt); ok {
			if rs, ok := ls.Stmt.(*ast.RangeStmt); ok {
				label = ls.Label.Name
				loopIdx = i
				rangeHdr = fmt.Sprintf("for %s, %s %s range %s", src(fset, rs.Key), src(fset, rs.Value), rs.Tok, src(fset, rs.X))
				if len(rs.Body.List) == 1 {
					sel, _ = rs.Body.List[0].(*ast.SelectStmt)
				}
			}
		}
	}
	if sel == nil {
		return "", fmt.Errorf("handleReq: labelled range loop whose body is one select not found")
	}
	var cases [][2]string // comm, what the clause does (last statement)
	callAssign := "(none)"
	type match struct {
		lits        []string
		inner, last string
	}
	var matches []match // matched texts, action inside (e.g. the cancel call), statement that ends the branch
	afterErrIf, afterErrBlock := "(none)", "(none)"
	for _, c := range sel.Body.List {
		cc := c.(*ast.CommClause)
		comm := "default"
		if cc.Comm != nil {
			comm = src(fset, cc.Comm)
		}
		last := "(falls through)"
		if len(cc.Body) > 0 {
			last = lastStmt(fset, &ast.BlockStmt{List: cc.Body})
		}
		cases = append(cases, [2]string{comm, last})
		if cc.Comm != nil {
			continue
		}
		for i, st := range cc.Body {
			switch s := st.(type) {
			case *ast.AssignStmt:
				if callAssign == "(none)" {
					callAssign = src(fset, s)
				}
			case *ast.IfStmt:
				if src(fset, s.Cond) != "err != nil" {
					continue
				}
				for _, in := range s.Body.List {
					if is, ok := in.(*ast.IfStmt); ok {
						lits := containsLits(is.Cond)
						var inner []string
						for _, x := range is.Body.List {
							if _, isBr := x.(*ast.BranchStmt); !isBr {
								inner = append(inner, src(fset, x))
							}
						}
						matches = append(matches, match{lits, strings.Join(inner, "; "), lastStmt(fset, is.Body)})
					}
				}
				afterErrBlock = lastStmt(fset, s.Body)
				if i+1 < len(cc.Body) {
					if b, ok := cc.Body[i+1].(*ast.BranchStmt); ok {
						afterErrIf = branchText(b)
					}
				}
			}
		}
	}
	// after the loop
	guard, guardBody, reply := "(none)", "(none)", "(none)"
	for _, st := range hr.Body.List[loopIdx+1:] {
		switch s := st.(type) {
		case *ast.IfStmt:
			if guard == "(none)" {
				guard = src(fset, s.Cond)
				var parts []string
				for _, x := range s.Body.List {
					t := src(fset, x)
					if as, ok := x.(*ast.AssignStmt); ok && len(as.Rhs) == 1 {
						if call, ok := as.Rhs[0].(*ast.CallExpr); ok {
							t = src(fset, as.Lhs[0]) + " " + as.Tok.String() + " " + src(fset, call.Fun) + "(…)"
						}
					}
					parts = append(parts, t)
				}
				guardBody = strings.Join(parts, "; ")
			}
		case *ast.AssignStmt:
			if len(s.Lhs) == 1 && src(fset, s.Lhs[0]) == "resp" {
				reply = src(fset, s.Rhs[0])
			}
		}
	}

	// the request closures
	var cls []closure
	for _, d := range f.Decls {
		fd, ok := d.(*ast.FuncDecl)
		if !ok || fd.Recv == nil || fd.Body == nil {
			continue
		}
		for _, st := range fd.Body.List {
			as, ok := st.(*ast.AssignStmt)
			if !ok || len(as.Lhs) != 1 || src(fset, as.Lhs[0]) != "f" || len(as.Rhs) != 1 {
				continue
			}
			fl, ok := as.Rhs[0].(*ast.FuncLit)
			if !ok {
				continue
			}
			var rs []string
			if fl.Type.Results != nil {
				for _, fld := range fl.Type.Results.List {
					var ns []string
					for _, n := range fld.Names {
						ns = append(ns, n.Name)
					}
					rs = append(rs, strings.TrimSpace(strings.Join(ns, ", ")+" "+src(fset, fld.Type)))
				}
			}
			c := closure{method: fd.Name.Name, results: "(" + strings.Join(rs, ", ") + ")", last: lastStmt(fset, fl.Body), call: "(none)"}
			for _, p := range fd.Body.List {
				if p == st {
					break
				}
				t := src(fset, p)
				if strings.HasPrefix(t, "if !e.isConnecting") || strings.HasPrefix(t, "opCtx, opCancel :=") || strings.HasPrefix(t, "defer opCancel()") {
					continue
				}
				c.prep = append(c.prep, t)
			}
			ast.Inspect(fl.Body, func(n ast.Node) bool {
				a, ok := n.(*ast.AssignStmt)
				if !ok {
					return true
				}
				lhsMentions := false
				var l []string
				for _, x := range a.Lhs {
					l = append(l, src(fset, x))
					if mentions(x, "tx", "err") {
						lhsMentions = true
					}
				}
				if lhsMentions {
					c.assigns = append(c.assigns, [2]string{strings.Join(l, ", "), a.Tok.String()})
					if len(a.Lhs) == 2 && len(a.Rhs) == 1 && c.call == "(none)" {
						c.call = src(fset, a.Rhs[0])
					}
				}
				return true
			})
			cls = append(cls, c)
		}
	}
	if len(cls) == 0 {
		return "", fmt.Errorf("no request closures found in onchain/eth_set.go")
	}

	strList := func(l []string) string {
		var q []string
		for _, s := range l {
			q = append(q, ex.LeanStr(s))
		}
		return "[" + strings.Join(q, ", ") + "]"
	}
	var b strings.Builder
	b.WriteString(ex.Header("ReqLoopFacts", "onchain/eth_set.go"))
	b.WriteString("namespace Dos.Gen.ReqLoopFacts\n\n")
	fmt.Fprintf(&b, "/-- label of the endpoint loop of handleReq and its header -/\ndef loopLabel : String := %s\ndef rangeHeader : String := %s\n\n", ex.LeanStr(label), ex.LeanStr(rangeHdr))
	b.WriteString("/-- the select of the loop body: communication, statement that ends the clause -/\ndef selectCases : List (String × String) := [")
	for i, c := range cases {
		if i > 0 {
			b.WriteString(", ")
		}
		fmt.Fprintf(&b, "(%s, %s)", ex.LeanStr(c[0]), ex.LeanStr(c[1]))
	}
	b.WriteString("]\n\n")
	fmt.Fprintf(&b, "/-- the call of the request closure in the default clause -/\ndef callAssign : String := %s\n\n", ex.LeanStr(callAssign))
	b.WriteString("/-- inside `if err != nil`: error texts matched, statements of the branch other than its final branch statement, final statement -/\ndef errorMatches : List (List String × String × String) := [")
	for i, m := range matches {
		if i > 0 {
			b.WriteString(",\n  ")
		}
		fmt.Fprintf(&b, "(%s, %s, %s)", strList(m.lits), ex.LeanStr(m.inner), ex.LeanStr(m.last))
	}
	b.WriteString("]\n\n")
	fmt.Fprintf(&b, "/-- last statement of the `if err != nil` block; the statement after that block (success) -/\ndef afterErrorBlock : String := %s\ndef afterSuccess : String := %s\n\n", ex.LeanStr(afterErrBlock), ex.LeanStr(afterErrIf))
	fmt.Fprintf(&b, "/-- after the loop: the guard, what it does, the reply -/\ndef guardCond : String := %s\ndef guardBody : String := %s\ndef replyLiteral : String := %s\n\n", ex.LeanStr(guard), ex.LeanStr(guardBody), ex.LeanStr(reply))
	fmt.Fprintf(&b, "/-- pre-order skeleton of every control statement of handleReq (depth, text) -/\ndef skeleton : List String := [\n")
	sk := skeleton(fset, hr.Body)
	for i, s := range sk {
		sep := ","
		if i == len(sk)-1 {
			sep = ""
		}
		fmt.Fprintf(&b, "  %s%s\n", ex.LeanStr(s), sep)
	}
	b.WriteString("]\n\n")
	// the configuration setters and what Connect rebuilds the transactors from
	for _, nm := range []string{"SetGasLimit", "SetGasPrice"} {
		fd := ex.FuncDecl(f, "ethAdaptor", nm)
		if fd == nil {
			return "", fmt.Errorf("%s not found in onchain/eth_set.go", nm)
		}
		fmt.Fprintf(&b, "/-- pre-order skeleton of %s -/\ndef skeleton%s : List String := %s\n\n", nm, nm, strList(skeleton(fset, fd.Body)))
	}
	fsP, fP, err := ex.Parse(filepath.Join(repo, "onchain", "eth_proxy.go"))
	if err != nil {
		return "", err
	}
	var auth []string
	if fd := ex.FuncDecl(fP, "ethAdaptor", "Connect"); fd != nil {
		for _, l := range skeleton(fsP, fd.Body) {
			if strings.Contains(l, "auth") || strings.Contains(l, "e.gasPrice") || strings.Contains(l, "e.gasLimit") {
				auth = append(auth, l)
			}
		}
	}
	fmt.Fprintf(&b, "/-- every statement of Connect (eth_proxy.go) that mentions the transactor `auth` or the gas fields, in order (rpc endpoints first, then websocket) -/\ndef connectAuth : List String := %s\n\n", strList(auth))
	var transactor []string
	for _, l := range auth {
		t := l[strings.Index(l, " ")+1:]
		if !strings.HasPrefix(t, "e.") {
			transactor = append(transactor, t)
		}
	}
	fmt.Fprintf(&b, "/-- of those, the statements that build the transactor (depth stripped) -/\ndef connectTransactor : List String := %s\n\n", strList(transactor))
	var newAd []string
	if fd := ex.FuncDecl(fP, "", "NewEthAdaptor"); fd != nil {
		for _, l := range skeleton(fsP, fd.Body) {
			if strings.Contains(l, "adaptor.gas") || strings.Contains(l, "adaptor.chainID") || strings.Contains(l, "adaptor.key") || strings.Contains(l, "chainID") {
				newAd = append(newAd, l)
			}
		}
	}
	fmt.Fprintf(&b, "/-- where NewEthAdaptor stores the configuration -/\ndef newAdaptorConfig : List String := %s\n\n", strList(newAd))
	// the commit-reveal glue of the node: how handleCR builds the arguments of Commit and Reveal
	fsD, fD, err := ex.Parse(filepath.Join(repo, "dosnode", "dos_chain_handler.go"))
	if err != nil {
		return "", err
	}
	hcr := ex.FuncDecl(fD, "DosNode", "handleCR")
	if hcr == nil {
		return "", fmt.Errorf("handleCR not found in dosnode/dos_chain_handler.go")
	}
	var crArgs []string
	for _, l := range skeleton(fsD, hcr.Body) {
		t := l[strings.Index(l, " ")+1:]
		if strings.HasPrefix(t, "if ") {
			// conditions that call Commit / Reveal
			if strings.Contains(t, "d.chain.Commit(") || strings.Contains(t, "d.chain.Reveal(") {
				crArgs = append(crArgs, t)
			}
			continue
		}
		for _, k := range []string{"sec", "hash", "h :=", "h.", "b :=", "cid"} {
			if strings.Contains(t, k) && !strings.Contains(t, "logger") {
				crArgs = append(crArgs, t)
				break
			}
		}
	}
	fmt.Fprintf(&b, "/-- dosnode handleCR: every statement that computes the secret, the commitment, the cid, and the two calls, in order -/\ndef handleCRArgs : List String := %s\n\n", strList(crArgs))
	// the group-key glue of the node (review E #4): from the finished key generation to RegisterGroupPubKey
	fsG, fG, err := ex.Parse(filepath.Join(repo, "share", "dkg", "pedersen", "pdkg_pipes.go"))
	if err != nil {
		return "", err
	}
	gg := ex.FuncDecl(fG, "", "genGroup")
	if gg == nil {
		return "", fmt.Errorf("genGroup not found in share/dkg/pedersen/pdkg_pipes.go")
	}
	// the body of the (single) goroutine a stage function starts
	goBody := func(body *ast.BlockStmt) *ast.BlockStmt {
		var found *ast.BlockStmt
		n := 0
		ast.Inspect(body, func(x ast.Node) bool {
			if g, ok := x.(*ast.GoStmt); ok {
				if fl, ok := g.Call.Fun.(*ast.FuncLit); ok {
					n++
					if found == nil {
						found = fl.Body
					}
				}
				return false
			}
			return true
		})
		if n != 1 {
			return &ast.BlockStmt{}
		}
		return found
	}
	var glue []string
	for _, l := range append(skeleton(fsG, gg.Body), skeleton(fsG, goBody(gg.Body))...) {
		t := l[strings.Index(l, " ")+1:]
		for _, k := range []string{"pubKey", "pubPoly", "groupId", "dataReturn", "secShare", "out <-", "out ="} {
			if strings.Contains(t, k) {
				glue = append(glue, t)
				break
			}
		}
	}
	fmt.Fprintf(&b, "/-- share/dkg/pedersen genGroup: every statement that mentions the share, the public polynomial, the group key, its coordinates, the group id, the value sent on out — in order -/\ndef genGroupKeyGlue : List String := %s\n\n", strList(glue))
	// decodePubKey (pdkg.go): the complete statement skeleton — how the four coordinates are cut out of the encoding
	fsK, fK, err := ex.Parse(filepath.Join(repo, "share", "dkg", "pedersen", "pdkg.go"))
	if err != nil {
		return "", err
	}
	dpk := ex.FuncDecl(fK, "", "decodePubKey")
	if dpk == nil {
		return "", fmt.Errorf("decodePubKey not found in share/dkg/pedersen/pdkg.go")
	}
	fmt.Fprintf(&b, "/-- share/dkg/pedersen decodePubKey: signature and complete statement skeleton (depth statement) -/\ndef decodePubKeyBody : List String := %s\n\n",
		strList(append([]string{src(fsK, dpk.Type)}, skeleton(fsK, dpk.Body)...)))
	fsS, fS, err := ex.Parse(filepath.Join(repo, "dosnode", "dos_stages.go"))
	if err != nil {
		return "", err
	}
	for _, fn := range []string{"registerGroup", "reportQueryResult"} {
		fd := ex.FuncDecl(fS, "", fn)
		if fd == nil {
			return "", fmt.Errorf("%s not found in dosnode/dos_stages.go", fn)
		}
		fmt.Fprintf(&b, "/-- dosnode %s: the complete statement skeleton (depth statement) -/\ndef %sBody : List String := %s\n\n", fn, fn, strList(append(skeleton(fsS, fd.Body), skeleton(fsS, goBody(fd.Body))...)))
	}
	b.WriteString("structure Closure where\n  method : String\n  prep : List String\n  results : String\n  call : String\n  assigns : List (String × String)\n  last : String\n  deriving DecidableEq, Repr\n\n")
	b.WriteString("/-- the request closures `f := func(ctx) (tx, err) {…}` of the adaptor's methods -/\ndef closures : List Closure := [\n")
	for i, c := range cls {
		sep := ","
		if i == len(cls)-1 {
			sep = ""
		}
		var as []string
		for _, a := range c.assigns {
			as = append(as, fmt.Sprintf("(%s, %s)", ex.LeanStr(a[0]), ex.LeanStr(a[1])))
		}
		fmt.Fprintf(&b, "  { method := %s,\n    prep := %s,\n    results := %s, call := %s,\n    assigns := [%s], last := %s }%s\n",
			ex.LeanStr(c.method), strList(c.prep), ex.LeanStr(c.results), ex.LeanStr(c.call), strings.Join(as, ", "), ex.LeanStr(c.last), sep)
	}
	b.WriteString("]\n\nend Dos.Gen.ReqLoopFacts\n")
	return b.String(), nil
}

#!/bin/sh
# Offline setup after a fresh restore: build the Go tools against /repo (hooks on)
# and the Lean project (models, proofs, drivers). Nothing is fetched. Every step is
# best-effort per property: each check rebuilds what it needs itself, so one
# component that does not build can only affect its own property.
cd "$(dirname "$0")"
export GOFLAGS=-mod=mod GOPROXY=off GOSUMDB=off GOTOOLCHAIN=local
mkdir -p bin work replays evidence
( cd go && { [ -f go.sum ] || cp /repo/go.sum go.sum; }; sh genreg.sh
  go build -o ../bin/extract ./cmd/extract || echo "WARN: extract does not build"
  for d in cmd/corr-*/; do go build -tags verif -o ../bin/$(basename $d) ./$d || echo "WARN: $d does not build"; done )
./bin/extract /repo lean || echo "WARN: some extractor failed"
cd lean
for m in ../meta/C*.json; do
  id=$(basename $m .json)
  mods=$(python3 -c "import json,sys; m=json.load(open('$m')); print(' '.join(m.get('props_modules',['DosModel.Props.$id'])))")
  drv=drv_$(echo $id | tr 'A-Z' 'a-z')
  flock .verif.lock lake build $mods $drv 2>&1 | tail -2 || echo "WARN: $id lean build failed"
done
echo setup done

package pipeir

import "go/ast"

// timerSrc classifies a timer constructor call: its name, and whether the call sits inside a loop of
// the function being interpreted (a timer created once before the loop keeps its expiry across
// iterations; `time.After(d)` inside the loop is re-armed by every iteration).
func (t *tr) timerSrc(name string, ce *ast.CallExpr) string {
	where := "outside-loop"
	if fr := t.fr(); fr != nil && fr.fn != nil && fr.fn.body != nil {
		ast.Inspect(fr.fn.body, func(n ast.Node) bool {
			switch x := n.(type) {
			case *ast.ForStmt:
				if x.Body.Pos() <= ce.Pos() && ce.End() <= x.Body.End() {
					where = "inside-loop"
				}
			case *ast.RangeStmt:
				if x.Body.Pos() <= ce.Pos() && ce.End() <= x.Body.End() {
					where = "inside-loop"
				}
			}
			return true
		})
	}
	// a timer that is Reset somewhere in the function is re-armed, wherever it was created
	if name == "NewTimer" {
		if fr := t.fr(); fr != nil && fr.fn != nil && fr.fn.body != nil {
			reset := false
			ast.Inspect(fr.fn.body, func(n ast.Node) bool {
				if c, ok := n.(*ast.CallExpr); ok {
					if se, ok := c.Fun.(*ast.SelectorExpr); ok && se.Sel.Name == "Reset" {
						reset = true
					}
				}
				return true
			})
			if reset {
				name += "+Reset"
			}
		}
	}
	return name + "@" + where
}

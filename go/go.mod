module verifharness

go 1.13

require (
	github.com/DOSNetwork/core v0.0.0
	github.com/dedis/kyber v0.0.0-20181211160045-59837fd0c24b
	github.com/dedis/protobuf v1.0.3
	github.com/ethereum/go-ethereum v1.10.9
	github.com/golang/protobuf v1.4.3
	github.com/hashicorp/serf v0.8.3
	golang.org/x/crypto v0.0.0-20210322153248-0c34fe9e7dc2
	google.golang.org/protobuf v1.23.0
)

replace github.com/DOSNetwork/core => /repo

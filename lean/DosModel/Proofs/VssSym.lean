/-
Lemmas about `Model/VssSym.lean` at an arbitrary field `F` and `F`-module `G`:
the Horner evaluations are linear, `verifyDeal` accepts exactly the consistent deals,
and what `decryptDeal` returns `ok` on.
-/
import DosModel.Model.VssSym
import Mathlib.Algebra.Module.Basic
import Mathlib.Algebra.Field.Basic
import Mathlib.Algebra.NoZeroSMulDivisors.Basic
import Mathlib.Tactic.Ring
import Mathlib.Tactic.Abel

set_option linter.unusedSectionVars false

namespace Dos.Vss

variable {F G : Type} [Field F] [AddCommGroup G] [Module F G] [DecidableEq F] [DecidableEq G]

/-! ### Horner evaluation -/

theorem pubEval_nil (i : Int) : pubEval (S := F) ([] : List G) i = 0 := rfl

theorem pubEval_cons (c : G) (cs : List G) (i : Int) :
    pubEval (S := F) (c :: cs) i = (xOf i : F) • pubEval (S := F) cs i + c := rfl

theorem priEval_nil (i : Int) : priEval ([] : List F) i = 0 := rfl

theorem priEval_cons (c : F) (cs : List F) (i : Int) :
    priEval (c :: cs) i = priEval cs i * xOf i + c := rfl

/-- C09.4 for this model: evaluating the commitments of `f` gives the commitment of `f(i+1)` -/
theorem pubEval_commit (g : G) (f : List F) (i : Int) :
    pubEval (S := F) (commit g f) i = priEval f i • g := by
  induction f with
  | nil => simp [commit, pubEval_nil, priEval_nil]
  | cons c cs ih =>
    have : commit g (c :: cs) = c • g :: commit g cs := rfl
    rw [this, pubEval_cons, priEval_cons, ih, add_smul, mul_smul, smul_comm]

/-- scalar multiplication of a non-zero point is injective (a module over a field is torsion free) -/
theorem smul_base_inj {g : G} (hg : g ≠ 0) {a b : F} (h : a • g = b • g) : a = b := by
  have h0 : (a - b) • g = 0 := by rw [sub_smul, h, sub_self]
  rcases smul_eq_zero.mp h0 with h1 | h1
  · exact sub_eq_zero.mp h1
  · exact absurd h1 hg

/-- the share check against honest commitments accepts exactly the polynomial's value -/
theorem check_commit_iff {g : G} (hg : g ≠ 0) (f : List F) (i : Int) (val : F) :
    val • g = pubEval (S := F) (commit g f) i ↔ val = priEval f i := by
  rw [pubEval_commit]
  exact ⟨smul_base_inj hg, fun h => by rw [h]⟩

/-! ### `verifyDeal` -/

/-- the deal is consistent for an aggregator of (dealer, vs): valid threshold, session id = the
identifier of what the deal carries, a share with a value whose index is in range and which lies
on the committed polynomial -/
def Consistent (g : G) (dealer : G) (vs : List G) (d : Deal F G) : Prop :=
  ∃ (i : Int) (val : F), d.share = some ⟨i, some val⟩ ∧ validT d.t vs.length = true ∧
    Sid.h dealer vs d.commits d.t = d.sid ∧ 0 ≤ i ∧ i < (vs.length : Int) ∧
    val • g = pubEval (S := F) d.commits i

/-- On an aggregator that has not stored a deal yet, `VerifyDeal(d, true)` succeeds iff the deal is
consistent. -/
theorem verifyDeal_fresh_ok_iff (g : G) (a : Agg F G) (d : Deal F G) (ha : a.deal = none) :
    (verifyDeal g a d true).2 = none ↔ Consistent g a.dealer a.vs d := by
  unfold Consistent
  rcases hsh : d.share with _ | ⟨i, v⟩
  · simp [verifyDeal, hsh]
  · rcases v with _ | val
    · simp [verifyDeal, hsh]
    · have key : (verifyDeal g a d true).2 = none ↔
          (validT d.t a.vs.length = true ∧ Sid.h a.dealer a.vs d.commits d.t = d.sid ∧
            0 ≤ i ∧ i < (a.vs.length : Int) ∧ val • g = pubEval (S := F) d.commits i) := by
        simp only [verifyDeal, hsh, ha, Option.isSome_none, Option.isNone_none, Bool.false_eq_true,
          false_and, if_false, if_true, ne_eq, not_true_eq_false]
        by_cases hT : validT d.t a.vs.length = true
        · by_cases hs : Sid.h a.dealer a.vs d.commits d.t = d.sid
          · by_cases hb : i < 0 ∨ i ≥ (a.vs.length : Int)
            · have : ¬ (0 ≤ i ∧ i < (a.vs.length : Int) ∧ val • g = pubEval (S := F) d.commits i) := by
                rintro ⟨h1, h2, _⟩; rcases hb with hb | hb <;> omega
              simp [hT, hs, hb, this]
            · by_cases hc : val • g = pubEval (S := F) d.commits i
              · have h1 : 0 ≤ i := by omega
                have h2 : i < (a.vs.length : Int) := by omega
                simp [hT, hs, hb, hc, h1, h2]
              · simp [hT, hs, hb, hc]
          · simp [hT, hs]
        · simp [hT]
      rw [key]
      constructor
      · rintro ⟨h1, h2, h3, h4, h5⟩
        exact ⟨i, val, rfl, h1, h2, h3, h4, h5⟩
      · rintro ⟨i', val', he, h1, h2, h3, h4, h5⟩
        injection he with he; injection he with hi hv; injection hv with hv
        subst hi; subst hv
        exact ⟨h1, h2, h3, h4, h5⟩

/-! ### `decryptDeal` -/

theorem verifyDhSig_true_iff (g pub : G) (msg : DhBytes G) (s : DhSig F G) :
    verifyDhSig g pub msg s = true ↔ ∃ sk rnd, s = .sign sk msg rnd ∧ sk • g = pub := by
  cases s with
  | junk id => simp [verifyDhSig]
  | sign sk m rnd =>
    simp only [verifyDhSig, Bool.and_eq_true, decide_eq_true_eq]
    constructor
    · rintro ⟨h1, h2⟩; exact ⟨sk, rnd, by rw [h2], h1⟩
    · rintro ⟨sk', rnd', h, h1⟩
      injection h with a b c; subst a; subst b
      exact ⟨h1, rfl⟩

/-- everything `decryptDeal` returns `ok` on: the DH bytes carry a signature of the expected dealer,
they decode, the nonce has the AEAD's size and the ciphertext is a sealing of `d` under exactly the
key derived from the verifier's long-term secret, the decoded point and the verifier's own context,
with that context as associated data. -/
theorem decryptDeal_ok_iff (g : G) (v : Verifier F G) (e : EncDeal F G) (d : Deal F G) :
    decryptDeal g v e = .ok d ↔
      (∃ sk rnd, e.sig = .sign sk e.dh rnd ∧ sk • g = v.dealer) ∧
      ∃ X, e.dh.parse = some X ∧ e.nonce.length = nonceSize ∧
        e.cipher = .seal ⟨v.long • X, v.ctx⟩ e.nonce v.ctx (.deal d) := by
  unfold decryptDeal
  by_cases hs : verifyDhSig g v.dealer e.dh e.sig = true
  · have hs' := (verifyDhSig_true_iff g v.dealer e.dh e.sig).1 hs
    simp only [hs, Bool.true_eq_false, if_false]
    rcases hp : e.dh.parse with _ | X
    · simp
    · by_cases hn : e.nonce.length = nonceSize
      · simp only [hn, ne_eq, not_true_eq_false, if_false]
        rcases hc : e.cipher with ⟨k, n, ad, pt⟩ | id
        · by_cases hk : k = ⟨v.long • X, v.ctx⟩ ∧ n = e.nonce ∧ ad = v.ctx
          · obtain ⟨h1, h2, h3⟩ := hk
            subst h1; subst h2; subst h3
            cases pt with
            | deal d' =>
              simp only [and_self, if_true]
              constructor
              · intro h; injection h with h; subst h
                exact ⟨hs', X, rfl, trivial, rfl⟩
              · rintro ⟨_, X', hX, _, h⟩
                injection hX with hX; subst hX
                injection h with _ _ _ h; injection h with h; rw [h]
            | junk id =>
              simp only [and_self, if_true]
              constructor
              · intro h; cases h
              · rintro ⟨_, X', hX, _, h⟩
                injection h with _ _ _ h; cases h
          · simp only [hk, if_false]
            constructor
            · intro h; cases h
            · rintro ⟨_, X', hX, _, h⟩
              injection hX with hX; subst hX
              injection h with h1 h2 h3 h4
              exact absurd ⟨h1, h2, h3⟩ hk
        · simp
      · simp [hn]
  · have hs2 : verifyDhSig g v.dealer e.dh e.sig = false := by simpa using hs
    simp only [hs2, if_true]
    constructor
    · intro h; cases h
    · rintro ⟨h, _⟩
      exact absurd ((verifyDhSig_true_iff g v.dealer e.dh e.sig).2 h) hs

/-- `VerifyDeal` never touches the member list, the dealer, the responses or the flag -/
theorem verifyDeal_frame (g : G) (a : Agg F G) (d : Deal F G) (incl : Bool) :
    (verifyDeal g a d incl).1.vs = a.vs ∧ (verifyDeal g a d incl).1.dealer = a.dealer ∧
    (verifyDeal g a d incl).1.responses = a.responses ∧ (verifyDeal g a d incl).1.badDealer = a.badDealer ∧
    (verifyDeal g a d incl).1.t = a.t := by
  unfold verifyDeal
  rcases d.share with _ | ⟨i, v⟩
  · simp
  · rcases v with _ | val
    · simp
    · dsimp only
      split
      · simp
      · by_cases h : a.deal.isNone = true <;> simp only [h, if_true, if_false, Bool.false_eq_true] <;>
          (repeat' split) <;> simp

/-- on a fresh aggregator `VerifyDeal(d, true)` is never "already processed" -/
theorem verifyDeal_fresh_not_already (g : G) (a : Agg F G) (d : Deal F G) (ha : a.deal = none) :
    (verifyDeal g a d true).2 ≠ some .already := by
  unfold verifyDeal
  rcases d.share with _ | ⟨i, v⟩
  · simp
  · rcases v with _ | val
    · simp
    · simp only [ha, Option.isSome_none, Bool.false_eq_true, false_and, if_false, Option.isNone_none, if_true]
      (repeat' split) <;> simp

/-- What `ProcessEncryptedDeal` does with an opened deal on a verifier that has not seen one:
missing share, missing share value and foreign index are errors; otherwise a signed response for the
verifier's own index is returned whose session id is the identifier of the commitments the deal
carries and whose status is approval exactly when the deal is consistent. -/
theorem process_fresh (g : G) (v : Verifier F G) (e : EncDeal F G) (rnd : Nat) (d : Deal F G)
    (hv : v.agg = none) (hidx : v.index < v.vs.length) (hd : decryptDeal g v e = .ok d) :
    (d.share = none → processEncryptedDeal g v e rnd = (v, .error .noShare)) ∧
    (∀ sh, d.share = some sh → sh.v = none → processEncryptedDeal g v e rnd = (v, .error .noShare)) ∧
    (∀ sh, d.share = some sh → sh.v ≠ none → sh.i ≠ (v.index : Int) →
      processEncryptedDeal g v e rnd = (v, .error .index)) ∧
    (∀ sh, d.share = some sh → sh.v ≠ none → sh.i = (v.index : Int) →
      ∃ v' r, processEncryptedDeal g v e rnd = (v', .ok r) ∧ r.index = v.index ∧
        r.sid = Sid.h v.dealer v.vs d.commits d.t ∧
        r.sig = .sign v.long r.sid v.index r.status rnd ∧
        (r.status = true ↔ Consistent g v.dealer v.vs d)) := by
  refine ⟨?_, ?_, ?_, ?_⟩
  · intro h; simp [processEncryptedDeal, hd, h]
  · intro sh h hn; simp [processEncryptedDeal, hd, h, hn]
  · intro sh h hn hne
    have : sh.v.isNone = false := by cases hsv : sh.v <;> simp_all
    simp [processEncryptedDeal, hd, h, this, hne]
  · intro sh h hn heq
    have hsn : sh.v.isNone = false := by cases hsv : sh.v <;> simp_all
    have hfr := verifyDeal_frame g (newAgg (S := F) v.dealer v.vs d.commits d.t d.sid) d true
    have hna := verifyDeal_fresh_not_already g (newAgg (S := F) v.dealer v.vs d.commits d.t d.sid) d rfl
    have hiff := verifyDeal_fresh_ok_iff g (newAgg (S := F) v.dealer v.vs d.commits d.t d.sid) d rfl
    obtain ⟨hvs, _, hresp, _, _⟩ := hfr
    simp only [processEncryptedDeal, hd, h, hsn, Bool.false_eq_true, if_false, heq, ne_eq, not_true_eq_false, hv]
    generalize hvd : verifyDeal g (newAgg (S := F) v.dealer v.vs d.commits d.t d.sid) d true = res at *
    obtain ⟨a1, verr⟩ := res
    simp only at hvs hresp hna hiff
    simp only [hna, if_false]
    have h1 : ¬ (v.index ≥ a1.vs.length) := by rw [hvs]; simp [newAgg]; exact hidx
    have h2 : hasResponse a1 v.index = false := by
      simp [hasResponse, getResponse, hresp, newAgg, hidx]
    simp only [addResponse, h1, if_false, h2, Bool.false_eq_true]
    refine ⟨_, _, rfl, rfl, rfl, rfl, ?_⟩
    have hiff' : verr = none ↔ Consistent g v.dealer v.vs d := hiff
    rw [← hiff']
    simp [Option.isNone_iff_eq_none]

/-- the verifier built for this dealer and list, holding the key `L[i]`, opens the dealer's deal for `i` -/
theorem decrypt_addressee (g : G) (dlong eph : F) (L : List G) (i rnd : Nat) (d0 : Deal F G)
    (e0 : EncDeal F G) (h0 : sealDeal g dlong L i eph rnd (.deal d0) = some e0)
    (v : Verifier F G) (hdl : v.dealer = dlong • g) (hl : v.vs = L) (hk : L[i]? = some (v.long • g)) :
    decryptDeal g v e0 = .ok d0 := by
  unfold sealDeal at h0
  simp only [hk, Option.some.injEq] at h0
  subst h0
  refine (decryptDeal_ok_iff g v _ d0).2 ⟨⟨dlong, rnd, rfl, hdl.symm⟩, eph • g, rfl, by simp [nonceSize], ?_⟩
  simp [Verifier.ctx, hdl, hl, smul_comm v.long eph g]

/-- a failed decryption leaves the verifier untouched (no aggregator, no deal, no response) -/
theorem process_decrypt_error (g : G) (v : Verifier F G) (e : EncDeal F G) (rnd : Nat) (err : Err)
    (h : decryptDeal g v e = .error err) : processEncryptedDeal g v e rnd = (v, .error err) := by
  simp [processEncryptedDeal, h]

end Dos.Vss

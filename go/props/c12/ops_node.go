package c12

import (
	"context"
	"fmt"
	"math/big"
	"strings"
	"sync"
	"time"

	"github.com/DOSNetwork/core/dosnode"
	"github.com/DOSNetwork/core/onchain"
	"github.com/DOSNetwork/core/share"
	dkg "github.com/DOSNetwork/core/share/dkg/pedersen"
	vss "github.com/DOSNetwork/core/share/vss/pedersen"
	"github.com/DOSNetwork/core/sign/bls"
	"github.com/DOSNetwork/core/sign/tbls"
	"github.com/dedis/kyber"

	"verifharness/internal/doubles"
	"verifharness/internal/h"
)

// ---------------------------------------------------------------- qloop

func opQloop(evs string) (string, string) {
	setup()
	p := doubles.NewP2P([]byte("me"), 0) // unbuffered: a send completes when the loop took the message
	node := dosnode.VerifNewNode([]byte("me"), p, nil, nil, 0, doubles.NewLogger())
	done := make(chan struct{})
	go func() { node.VerifQueryLoop(); close(done) }()
	defer node.VerifCancel()
	var mu sync.Mutex
	delivered := 0
	drain := func(c chan *vss.Signature) {
		for range c {
			mu.Lock()
			delivered++
			mu.Unlock()
		}
	}
	rawCount := func() int { mu.Lock(); defer mu.Unlock(); return delivered }
	// the drainers count a share a moment after the loop's send completed: read until stable
	count := func() int {
		c := rawCount()
		for i := 0; i < 3; i++ {
			time.Sleep(300 * time.Microsecond)
			if d := rawCount(); d != c {
				c, i = d, -1
			}
		}
		return c
	}
	send := func(m p2pMsg) bool { return p.DeliverTimeout([]byte("peer"), m, stepWait) }
	barrier := func() bool { return send(&vss.PublicKey{}) } // another type: ignored; taken only after the previous event is done
	var outs []string
	for _, ev := range splitList(evs, ";") {
		before := count()
		switch {
		case ev == "o":
			if !send(&dkg.PublicKey{}) {
				return "hang", "hang-qloop: loop does not take messages"
			}
			outs = append(outs, "dropped")
		case strings.HasPrefix(ev, "s:"):
			if !send(&vss.Signature{RequestId: h.UnHex(ev[2:]), Signature: []byte{1}, Content: []byte{2}}) || !barrier() {
				return "hang", "hang-qloop: loop does not take messages"
			}
			if count() > before {
				outs = append(outs, "ok deliver")
			} else {
				outs = append(outs, "ok buf")
			}
		case strings.HasPrefix(ev, "r:"):
			c := make(chan *vss.Signature)
			go drain(c)
			node.VerifRegisterChan(context.Background(), string(h.UnHex(ev[2:])), 1, c)
			if !barrier() {
				return "hang", "hang-qloop: loop does not take messages"
			}
			outs = append(outs, fmt.Sprintf("ok flush %d", count()-before))
		default:
			panic("bad qloop event " + ev)
		}
	}
	// still serving: a fresh request id is registered and its share delivered
	oracle := ""
	c := make(chan *vss.Signature)
	go drain(c)
	before := count()
	node.VerifRegisterChan(context.Background(), "zz-after", 1, c)
	if !send(&vss.Signature{RequestId: []byte("zz-after")}) || !barrier() || count() != before+1 {
		oracle = "not-serving-qloop: a share for a freshly registered request was not delivered"
	}
	return strings.Join(outs, ";"), oracle
}

// ---------------------------------------------------------------- rsign

// group key material derived from the seed in the line
func groupOf(seed string, t int) (*share.PriPoly, *share.PubPoly) {
	coeffs := make([]kyber.Scalar, t)
	for i := range coeffs {
		coeffs[i] = scalarOf("grp-"+seed, i)
	}
	pri := share.CoefficientsToPriPoly(suite.G2(), coeffs)
	return pri, pri.Commit(suite.G2().Point().Base())
}

func optBytes(s string) []byte {
	if s == "nil" {
		return nil
	}
	b := h.UnHex(s)
	if b == nil {
		b = []byte{}
	}
	return b
}

func rsErrKind(e error) string {
	s := e.Error()
	switch {
	case strings.Contains(s, "Detected nil pointer"):
		return "nil"
	case strings.Contains(s, "EOF"):
		return "eof"
	case strings.Contains(s, "not enough good public shares"):
		return "few"
	case strings.Contains(s, "length of content less than 0"):
		return "short"
	case strings.Contains(s, "another content or request type"):
		return "mismatch"
	}
	return "other:" + h.OneLine(s)
}

func opRsign(ts, ns, seed, signs string) (string, string) {
	setup()
	t, n := atoi(ts), atoi(ns)
	pt := t
	if pt < 1 {
		pt = 1
	}
	_, pub := groupOf(seed, pt)
	ctx, cancel := context.WithCancel(context.Background())
	defer cancel()
	signc := make(chan *vss.Signature)
	out, errc := dosnode.VerifRecoverSign(ctx, signc, suite, pub, t, n, doubles.NewLogger())
	list := splitList(signs, ";")
	res := make([]string, len(list))
	for i := range res {
		res[i] = "dropped"
	}
	curIdx := -1
	closed := false
	note := func(s string) {
		if curIdx >= 0 && (res[curIdx] == "dropped" || res[curIdx] == "ok wait") {
			res[curIdx] = s
		}
	}
	to := time.After(3 * stepWait)
	// feed sign i; what arrives on errc/out before sign i+1 is taken belongs to sign i
	for i := 0; i <= len(list) && !closed; i++ {
		var msg *vss.Signature
		last := i == len(list)
		if !last && list[i] != "nil" {
			f := strings.Split(list[i], "/")
			msg = &vss.Signature{Index: 1, RequestId: []byte("r"), Signature: optBytes(f[0]), Content: optBytes(f[1])}
		}
		sendc := signc
		if last {
			sendc = nil
			close(signc)
		}
	wait:
		for {
			if out == nil && errc == nil {
				closed = true
				break wait
			}
			select {
			case sendc <- msg:
				curIdx = i
				res[i] = "ok wait"
				// 3a1c0bc: after its single report the stage closes errc and out and THEN keeps taking
				// (and dropping) late shares until the context ends (drainSigns). A share accepted
				// after out was closed was taken by that drain, not by the collecting loop: both
				// closes happen before the drain's first receive, so this read is deterministic.
				if out != nil {
					select {
					case o, ok := <-out:
						if !ok {
							out = nil
						} else if o != nil {
							note("ok done")
						}
					default:
					}
				}
				if out == nil {
					res[i] = "dropped"
					curIdx = -1
				}
				break wait
			case e, ok := <-errc:
				if !ok {
					errc = nil
					if out == nil {
						closed = true
						break wait
					}
					continue
				}
				note("err " + rsErrKind(e))
			case o, ok := <-out:
				if !ok {
					out = nil
					if errc == nil {
						closed = true
						break wait
					}
					continue
				}
				if o != nil {
					note("ok done")
				}
			case <-to:
				return "hang", "hang-rsign: recoverSign neither takes a share nor ends"
			}
		}
	}
	return strings.Join(res, ";"), ""
}

// validPairs: which (content, share) pairs verify — computed with the real bls.Verify at generation time
func validPair(pub *share.PubPoly, content, sg []byte) bool {
	if len(sg) < 2 {
		return false
	}
	i, err := tbls.SigShare(sg).Index()
	if err != nil {
		return false
	}
	return bls.Verify(suite, pub.Eval(i).V, content, sg[2:]) == nil
}

// ---------------------------------------------------------------- subm, b32, crseed

type dkgDouble struct {
	dkg.PDKGInterface
	ids [][]byte
}

func (d *dkgDouble) GetGroupIDs(string) [][]byte { return d.ids }
func (d *dkgDouble) GetGroupPublicPoly(string) *share.PubPoly {
	_, pub := groupOf("gi", 2)
	return pub
}
func (d *dkgDouble) GetShareSecurity(string) *share.PriShare {
	return &share.PriShare{I: 0, V: scalarOf("gi", 9)}
}

func opSubm(rs, ks string) (string, string) {
	setup()
	r, ok := new(big.Int).SetString(rs, 10)
	if !ok {
		panic("bad rand")
	}
	k := atoi(ks)
	ids := make([][]byte, k)
	for i := range ids {
		ids[i] = []byte{byte(i), byte(i >> 8)}
	}
	node := dosnode.VerifNewNode([]byte("me"), doubles.NewP2P([]byte("me"), 0), nil, &dkgDouble{ids: ids}, 0, doubles.NewLogger())
	// what onchainLoop does for an event of a group the node belongs to: groupInfo, then handleQuery → choseSubmitter
	if _, err := node.VerifPGroupInfo("g"); err != nil {
		return "err nogroup", ""
	}
	ctx, cancel := context.WithCancel(context.Background())
	defer cancel()
	outs, errc := dosnode.VerifChoseSubmitter(ctx, nil, nil, r, ids, 2, doubles.NewLogger())
	var got []byte
	select {
	case got = <-outs[0]:
	case <-time.After(stepWait):
		return "hang", "hang-subm: choseSubmitter did not answer"
	}
	for range errc {
	}
	for i, id := range ids {
		if string(id) == string(got) {
			return fmt.Sprintf("ok %d", i), ""
		}
	}
	return "ok ?", "not-serving-subm: submitter is not a member id"
}

func opB32(l string) (string, string) {
	if dosnode.VerifPByte32(make([]byte, atoi(l))) == nil {
		return "ok nil", ""
	}
	return "ok ptr", ""
}

type crChain struct {
	onchain.ProxyAdapter
	mu               sync.Mutex
	commits, reveals int
}

func (c *crChain) CurrentBlock() (uint64, error) { return 100, nil }
func (c *crChain) GetBlockTime() uint64          { return 0 }
func (c *crChain) Commit(cid *big.Int, commitment [32]byte) error {
	c.mu.Lock()
	c.commits++
	c.mu.Unlock()
	return nil
}
func (c *crChain) Reveal(cid *big.Int, secret *big.Int) error {
	c.mu.Lock()
	c.reveals++
	c.mu.Unlock()
	return nil
}

func opCrseed(v string) (string, string) {
	setup()
	seed, ok := new(big.Int).SetString(v, 10)
	if !ok {
		panic("bad seed")
	}
	ch := &crChain{}
	node := dosnode.VerifNewNode([]byte("me"), doubles.NewP2P([]byte("me"), 0), ch, nil, 0, doubles.NewLogger())
	cr := &onchain.LogStartCommitReveal{Cid: big.NewInt(1), StartBlock: big.NewInt(99), CommitDuration: big.NewInt(0), RevealDuration: big.NewInt(0), RevealThreshold: big.NewInt(1)}
	fin := make(chan struct{})
	go func() { node.VerifPHandleCR(cr, seed); close(fin) }()
	select {
	case <-fin:
	case <-time.After(stepWait):
		return "hang", "hang-crseed: handleCR did not return"
	}
	if ch.commits != 1 || ch.reveals != 1 {
		return "ok", fmt.Sprintf("not-serving-crseed: %d commits, %d reveals", ch.commits, ch.reveals)
	}
	return "ok", ""
}

/-
C07 — the signed oracle message is a fixed function of the request, same for all.

Theorems about `Dos.Content` over unbounded `Nat` values and arbitrary byte
strings.  Sizes and the submitter / threshold expressions are regenerated from
the source on every run (`Gen/DosnodeConsts.lean`, extractor
go/extract/dosnodeconsts) and pinned here.  `dataParse` (ajson, xmlquery) is an
external function: its determinism is NOT proved, it is tested by the
correspondence run (8 sequential + 8 concurrent evaluations per case, and the
`cq` cases: G goroutines released on a barrier, rich selector grammar).
Round 4 (sections 6–9 below): the evaluation of a URL query as a machine and ANY
interleaving of k evaluations = k one-shot results; the whole path content →
share → recovery → report for the three request kinds; the group table and the
submitter on the list as announced; the regenerated statement skeletons these
models transcribe are pinned in Props/C07Flow.lean.
"Every member computes the identical string" is, for the model, the fact that
these are functions of the request fields only (no state, no member identity);
for the code it is what the tie checks.
-/
import DosModel.Proofs.Content
import DosModel.Proofs.Eval
import DosModel.Proofs.ContentPath
import DosModel.Gen.DosnodeConsts
import DosModel.Gen.ChainHandlerFacts
import DosModel.Gen.DosnodeFlow

namespace Dos.Props.C07
open Dos Dos.Content

/-- **0. regenerated facts.**  `randNumberSize = 32`, `addrLen = 20`; `genSysRandom` pads to
`randNumberSize`; `recoverSign` strips `addrLen` bytes; the submitter expression in
`choseSubmitter` and the thresholds at the call sites in `handleQuery` are the model's. -/
theorem c07_constants : Gen.randNumberSize = 32 ∧ Gen.addrLen = 20 ∧ Gen.padSize = 32 ∧ Gen.stripLen = 20 := by
  decide

theorem c07_submitter_expr (r n : Nat) (hn : n ≠ 0) : submitterIdx r n = some (Gen.submitterExpr r n) := by
  simp [submitterIdx, hn, Gen.submitterExpr]

theorem c07_threshold_expr (n : Nat) :
    Gen.thresholdDispatch n = threshold n ∧ Gen.thresholdRecover n = threshold n ∧ Gen.participantsRecover n = n := by
  simp [Gen.thresholdDispatch, Gen.thresholdRecover, Gen.participantsRecover, threshold]

/-- **0b. which event field reaches which content stage** (regenerated, go/extract/chainhandler):
the `handleQuery` call of each event type, `handleQuery`'s parameter order, and the arguments each
stage gets.  So: system randomness signs `padOrTrim(LastRandomness.Bytes(), 32) ‖ submitter`, user
randomness `RequestId.Bytes() ‖ LastSystemRandomness.Bytes() ‖ UserSeed.Bytes() ‖ submitter`, URL
`dataParse(fetch(DataSource), Selector) ‖ submitter`; the submitter is chosen from
`LastRandomness` / `LastSystemRandomness` / `Randomness` and the group's member list. -/
theorem c07_event_fields :
    Gen.ChainHandlerFacts.queryCalls = [
      "*onchain.LogUpdateRandom => d.handleQuery(ids, pub, sec, groupID, content.LastRandomness, content.LastRandomness, nil, \"\", \"\", uint32(onchain.TrafficSystemRandom))",
      "*onchain.LogRequestUserRandom => d.handleQuery(ids, pub, sec, groupID, content.RequestId, content.LastSystemRandomness, content.UserSeed, \"\", \"\", uint32(onchain.TrafficUserRandom))",
      "*onchain.LogUrl => d.handleQuery(ids, pub, sec, groupID, content.QueryId, content.Randomness, nil, content.DataSource, content.Selector, uint32(onchain.TrafficUserQuery))"]
    ∧ Gen.ChainHandlerFacts.handleQueryParams = [
      "ids",
      "pubPoly",
      "sec",
      "groupID",
      "requestID",
      "lastRand",
      "useSeed",
      "url",
      "selector",
      "pType"]
    ∧ Gen.ChainHandlerFacts.handleQueryStages = [
      "queryCtx, cancel := context.WithTimeout(context.Background(), time.Duration(60*d.chain.GetBlockTime())*time.Second)",
      "submitterc, errc := choseSubmitter(queryCtxWithValue, d.p, d.chain, lastRand, ids, 2, d.logger)",
      "case onchain.TrafficSystemRandom: contentc = genSysRandom(queryCtxWithValue, submitterc[0], lastRand.Bytes(), d.logger)",
      "case onchain.TrafficUserRandom: contentc = genUserRandom(queryCtxWithValue, submitterc[0], requestID.Bytes(), lastRand.Bytes(), useSeed.Bytes(), d.logger)",
      "case onchain.TrafficUserQuery: contentc, errc = genQueryResult(queryCtxWithValue, submitterc[0], url, selector, d.logger)",
      "signc, errc := genSign(queryCtxWithValue, contentc, sec, d.suite, sign, d.logger)",
      "signAllc := dispatchSign(queryCtxWithValue, submitterc[1], signc, d.reqSignc, d.p, requestID.Bytes(), (len(ids)/2 + 1), d.logger)",
      "recoveredSignc, errc := recoverSign(queryCtxWithValue, signAllc, d.suite, pubPoly, (len(ids)/2 + 1), len(ids), d.logger)",
      "errcList = append(errcList, reportQueryResult(queryCtxWithValue, d.chain, pType, recoveredSignc))"] :=
  ⟨rfl, rfl, rfl⟩

/-- **1. length.**  The system-randomness message is 32 + |address| bytes, 52 for a 20-byte address,
for every last randomness (0, small, above 2^256). -/
theorem sys_len (r : Nat) (a : Bytes) (ha : a.length = 20) : (sysContent Gen.padSize r a).length = 52 := by
  simp [sysContent, sysContentRaw, padOrTrim_length, ha, c07_constants.2.2.1]

/-- **2a. exactly the 32-byte big-endian last randomness followed by the address** – whatever
the number of leading zero bytes of `r` (0 … 32, `r = 0` included).  `natBE 32 r` is the 32-byte
big-endian encoding of `r` for `r < 2^256` (`beNat_natBE`: its value is `r mod 2^256`, which is
also what the code does with a longer value: it keeps the low 32 bytes). -/
theorem sys_exact (r : Nat) (a : Bytes) :
    sysContent Gen.padSize r a = natBE 32 r ++ a ∧ beNat (natBE 32 r) = r % 2 ^ 256 := by
  refine ⟨?_, by rw [beNat_natBE]; norm_num⟩
  have h32 : Gen.padSize = 32 := c07_constants.2.2.1
  simp only [sysContent, sysContentRaw, h32]
  rw [padOrTrim_eq_natBE, beNat_natBytes]

/-- **2b. prefix round trip**: reading the first 32 bytes back as a big-endian number gives `r`
(`r < 2^256`), and in general `r mod 2^256` (the code keeps the LOW 32 bytes of a longer value). -/
theorem sys_prefix_roundtrip (r : Nat) (a : Bytes) :
    beNat ((sysContent Gen.padSize r a).take 32) = r % 2 ^ 256
      ∧ (r < 2 ^ 256 → beNat ((sysContent Gen.padSize r a).take 32) = r)
      ∧ (sysContent Gen.padSize r a).drop 32 = a := by
  have h32 : Gen.padSize = 32 := c07_constants.2.2.1
  have hl : (padOrTrim (natBytes r) 32).length = 32 := padOrTrim_length _ _
  have ht : (sysContent Gen.padSize r a).take 32 = padOrTrim (natBytes r) 32 := by
    simp only [sysContent, sysContentRaw, h32]
    rw [List.take_append_of_le_length (by omega), List.take_of_length_le (by omega)]
  have hv : beNat (padOrTrim (natBytes r) 32) = r % 2 ^ 256 := by
    rw [padOrTrim_value, beNat_natBytes]; norm_num
  refine ⟨by rw [ht, hv], fun hr => by rw [ht, hv, Nat.mod_eq_of_lt hr], ?_⟩
  simp only [sysContent, sysContentRaw, h32]
  rw [List.drop_append_of_le_length (by omega), List.drop_of_length_le (by omega)]; rfl

/-- **2c. leading zero bytes of the INPUT do not matter**: any zero-padded encoding of the same
number gives the same signed message (the stage is a function of the number). -/
theorem sys_leading_zeros (k : Nat) (bs a : Bytes) :
    sysContentRaw 32 (List.replicate k 0 ++ bs) a = sysContentRaw 32 bs a := by
  simp only [sysContentRaw]
  rw [padOrTrim_eq_natBE, padOrTrim_eq_natBE, beNat_replicate_zero]

/-- **2d. distinct last randomness (< 2^256) or distinct submitter ⇒ distinct signed message** -/
theorem sys_injective (r r' : Nat) (a a' : Bytes) (hr : r < 2 ^ 256) (hr' : r' < 2 ^ 256)
    (h : sysContent Gen.padSize r a = sysContent Gen.padSize r' a') : r = r' ∧ a = a' := by
  have h1 := (sys_prefix_roundtrip r a).2.1 hr
  have h2 := (sys_prefix_roundtrip r' a').2.1 hr'
  have d1 := (sys_prefix_roundtrip r a).2.2
  have d2 := (sys_prefix_roundtrip r' a').2.2
  rw [h] at h1 d1
  exact ⟨by rw [← h1, h2], by rw [← d1, d2]⟩

/-- **3a. user randomness / URL query: result bytes followed by the submitter address.** -/
theorem user_is_result_then_addr (q r s : Nat) (a : Bytes) :
    userContent q r s a = (natBytes q ++ natBytes r ++ natBytes s) ++ a := by
  simp [userContent, userContentRaw]

theorem query_is_result_then_addr (parsed a : Bytes) : queryContent parsed a = parsed ++ a := rfl

/-- **3b. strip/append inverse**: what is reported is exactly the signed string without its
trailing 20 bytes – `strip (x ++ a) = x` for a 20-byte `a`, and `strip c ++ (last 20 bytes) = c`
for every `c` of at least 20 bytes; a shorter string is reported as an error and skipped
(since /repo 419bec9; the pinned commit panicked in `make([]byte, t)`, `t < 0`). -/
theorem strip_append (x a : Bytes) (ha : a.length = 20) : stripResult Gen.stripLen (x ++ a) = .ok x := by
  have h20 : Gen.stripLen = 20 := c07_constants.2.2.2
  simp [stripResult, h20, ha]

theorem append_strip (c : Bytes) (hc : 20 ≤ c.length) :
    ∃ x, stripResult Gen.stripLen c = .ok x ∧ x ++ c.drop (c.length - 20) = c ∧ x.length = c.length - 20 := by
  have h20 : Gen.stripLen = 20 := c07_constants.2.2.2
  refine ⟨c.take (c.length - 20), ?_, List.take_append_drop _ _, ?_⟩
  · simp [stripResult, h20]; omega
  · simp

theorem strip_short_skipped (c : Bytes) (hc : c.length < 20) :
    stripResult Gen.stripLen c = .tooShort := by
  have h20 : Gen.stripLen = 20 := c07_constants.2.2.2
  simp [stripResult, h20, hc]

/-- the three kinds of signed message all report `content minus address` -/
theorem reported_result (r q s : Nat) (parsed a : Bytes) (ha : a.length = 20) :
    stripResult Gen.stripLen (sysContent Gen.padSize r a) = .ok (padOrTrim (natBytes r) 32)
    ∧ stripResult Gen.stripLen (userContent q r s a) = .ok (natBytes q ++ natBytes r ++ natBytes s)
    ∧ stripResult Gen.stripLen (queryContent parsed a) = .ok parsed := by
  have h32 : Gen.padSize = 32 := c07_constants.2.2.1
  refine ⟨?_, ?_, ?_⟩
  · simp only [sysContent, sysContentRaw, h32]; exact strip_append _ a ha
  · rw [user_is_result_then_addr]; exact strip_append _ a ha
  · exact strip_append _ a ha

/-- **4. submitter.**  For a non-empty member list the index is in range, so a member is chosen;
it depends only on the low 64 bits of the last randomness; and it is the same for every order-
preserving view of the list (the index is a function of `(r, n)` only). -/
theorem submitter_in_range (r n : Nat) (hn : 0 < n) : ∃ i, submitterIdx r n = some i ∧ i < n := by
  refine ⟨r % 2 ^ 64 % n, ?_, Nat.mod_lt _ hn⟩
  simp [submitterIdx]; omega

theorem submitter_is_member (ids : List Bytes) (r : Nat) (hn : 0 < ids.length) :
    ∃ id, submitter ids r = some id ∧ id ∈ ids := by
  obtain ⟨i, hi, hlt⟩ := submitter_in_range r ids.length hn
  refine ⟨ids[i], ?_, List.getElem_mem hlt⟩
  simp [submitter, hi, hlt]

theorem submitter_low64 (r r' n : Nat) (h : r % 2 ^ 64 = r' % 2 ^ 64) : submitterIdx r n = submitterIdx r' n := by
  unfold submitterIdx; rw [h]

theorem submitter_ignores_high_bits (r hi n : Nat) : submitterIdx (r + hi * 2 ^ 64) n = submitterIdx r n :=
  submitter_low64 _ _ _ (by simp)

/-- **5. threshold**: `n/2+1` is a strict majority and at most `n` (for `n ≥ 1`). -/
theorem threshold_majority (n : Nat) (hn : 1 ≤ n) : n < 2 * threshold n ∧ threshold n ≤ n := by
  unfold threshold; omega

/-! ### 6. repeated and concurrent evaluation (Model/Eval.lean)

`Engines` are the external selector engines (ajson, xmlquery): arbitrary FUNCTIONS of
(document, selector) – that the real ones are functions (deterministic, no state kept between or
shared by evaluations) is what the `cq` cases test and what `c07_no_package_state` /
`c07_parse_shape` (Props/C07Flow.lean) exclude for the code around them. -/

/-- **6a. the dispatch of `dataParse`**: empty selector → the document itself; first byte `$` →
the nesting guard (/repo 14409e8: deeper than 1000 levels of arrays / objects ⇒ error, at every
member alike), then the JSON engine; `/` → the XML engine, its nodes joined with a line feed after
each; any other selector → an empty result (not an error). -/
theorem parse_dispatch (E : Eval.Engines) (doc rest : Bytes) (c : UInt8) :
    Eval.dataParse E doc [] = .ok doc
    ∧ Eval.dataParse E doc (0x24 :: rest) =
        (if Eval.jsonDepthExceeds doc Gen.DosnodeFlow.maxDocumentDepth then .err else E.json doc (0x24 :: rest))
    ∧ (∀ ns, E.xml doc (0x2f :: rest) = .nodes ns → Eval.dataParse E doc (0x2f :: rest) = .ok (Eval.xmlJoin ns))
    ∧ (E.xml doc (0x2f :: rest) = .err → Eval.dataParse E doc (0x2f :: rest) = .err)
    ∧ (c ≠ 0x24 → c ≠ 0x2f → Eval.dataParse E doc (c :: rest) = .ok []) := by
  refine ⟨rfl, by simp only [Eval.dataParse, Eval.jsonBranch, if_true]; rfl, ?_, ?_, ?_⟩
  · intro ns h; simp [Eval.dataParse, h]
  · intro h; simp [Eval.dataParse, h]
  · intro h1 h2; simp [Eval.dataParse, h1, h2]

example : Eval.dataParse ⟨fun _ _ => .err, fun _ _ => .nodes [[1], [2, 3]]⟩ [9] [0x2f, 0x61] = .ok [1, 10, 2, 3, 10] := by decide
example : Eval.dataParse ⟨fun _ _ => .err, fun _ _ => .err⟩ [9, 9] [0x5b] = .ok [] := by decide

/-- **6a′. the nesting guard** (`jsonDepthExceeds`, transcribed from the source): `d` opening brackets
exceed the bound exactly when `d > max` – for every `d` and `max`, whatever follows them up to the
point where the bound is passed; brackets inside a string do not count.  (Boundary of the code:
1000 levels pass, 1001 are refused.) -/
theorem depth_guard_brackets (d max : Nat) (tail : Bytes) (hd : max < d) :
    Eval.jsonDepthExceeds (List.replicate d 0x5b ++ tail) max = true := by
  unfold Eval.jsonDepthExceeds
  rw [List.foldl_append]
  have hover : ∀ (l : Bytes) (s : Eval.JScan), s.over = true → (l.foldl (Eval.jsonScanStep max) s).over = true := by
    intro l
    induction l with
    | nil => intro s h; exact h
    | cons c l ih => intro s h; simp only [List.foldl_cons]; apply ih; simp [Eval.jsonScanStep, h]
  have hrep : ∀ (k : Nat) (s : Eval.JScan),
      (s.over = true ∨ (s.inString = false ∧ max < s.depth + k ∧ s.depth ≤ max)) →
      ((List.replicate k (0x5b : UInt8)).foldl (Eval.jsonScanStep max) s).over = true := by
    intro k
    induction k with
    | zero =>
      intro s h
      rcases h with h | ⟨_, h1, h2⟩
      · simpa using h
      · omega
    | succ k ih =>
      intro s h
      simp only [List.replicate_succ, List.foldl_cons]
      rcases h with ho | ⟨hs, h1, h2⟩
      · exact hover _ _ (by simp [Eval.jsonScanStep, ho])
      · by_cases ho : s.over = true
        · exact hover _ _ (by simp [Eval.jsonScanStep, ho])
        · have ho' : s.over = false := by simpa using ho
          by_cases hm : max < s.depth + 1
          · exact hover _ _ (by simp [Eval.jsonScanStep, ho', hs, hm])
          · have hst : Eval.jsonScanStep max s 0x5b = { s with depth := s.depth + 1 } := by
              simp [Eval.jsonScanStep, ho', hs, hm]
            rw [hst]
            apply ih
            right
            refine ⟨hs, ?_, ?_⟩ <;> simp only <;> omega
  exact hover _ _ (hrep d _ (Or.inr ⟨rfl, by simpa using hd, Nat.zero_le _⟩))

example : Eval.jsonDepthExceeds (List.replicate 3 0x5b ++ [0x31] ++ List.replicate 3 0x5d) 3 = false
    ∧ Eval.jsonDepthExceeds (List.replicate 4 0x5b ++ [0x31] ++ List.replicate 4 0x5d) 3 = true
    ∧ Eval.jsonDepthExceeds ([0x7b, 0x22] ++ List.replicate 9 0x5b ++ [0x22, 0x7d]) 3 = false := by decide

/-- **6a″. what `dataParse` does with the engines' results** (task 3b: only `JSONPath` / `Find` and
the serialisation of ONE selected value / node remain parameters, `Eval.Engines2`).  JSON: the result is
`[` + the encodings of the selected values IN THE ORDER OF THE ENGINE'S RESULT separated by `,` + `]`;
the first value that does not unpack makes the whole evaluation an error; nothing selected gives `[]`
(not an error, not an empty string).  All theorems of this file hold for `E.toEngines`. -/
theorem json_assembly (E : Eval.Engines2) (doc rest : Bytes) :
    Eval.dataParse E.toEngines doc (0x24 :: rest) =
      (if Eval.jsonDepthExceeds doc Gen.DosnodeFlow.maxDocumentDepth then .err
       else match E.jsonNodes doc (0x24 :: rest) with
        | .nodes vs =>
          (match Eval.unpackAll vs with
            | some l => .ok ([0x5b] ++ Eval.jsonJoin l ++ [0x5d])
            | none => .err)
        | .err => .err
        | .panic => .panic) := by
  rw [(parse_dispatch E.toEngines doc rest 0).2.1]
  by_cases hg : Eval.jsonDepthExceeds doc Gen.DosnodeFlow.maxDocumentDepth = true
  · simp [hg]
  · simp only [hg, Eval.Engines2.toEngines]
    cases E.jsonNodes doc (0x24 :: rest) <;> rfl

example : Eval.dataParse (Eval.Engines2.toEngines ⟨fun _ _ => .nodes [some [0x31], some [0x22, 0x61, 0x22]], fun _ _ => .err⟩) [0x7b] [0x24]
    = .ok [0x5b, 0x31, 0x2c, 0x22, 0x61, 0x22, 0x5d] := by decide

/-- every selected value unpacks ⇒ the array lists exactly them, in order; an empty selection is `[]` -/
theorem json_order_and_empty (vs : List Bytes) :
    Eval.jsonAssemble (.nodes (vs.map some)) = .ok ([0x5b] ++ Eval.jsonJoin vs ++ [0x5d])
    ∧ Eval.jsonAssemble (.nodes []) = .ok [0x5b, 0x5d] := by
  have h : ∀ l : List Bytes, Eval.unpackAll (l.map some) = some l := by
    intro l
    induction l with
    | nil => rfl
    | cons v l ih => simp [Eval.unpackAll, ih]
  exact ⟨by simp [Eval.jsonAssemble, h], rfl⟩

example : Eval.jsonAssemble (.nodes [some [0x31], none, some [0x32]]) = .err := by decide

/-- the matches are laid out one after the other: joining two non-empty selections is joining each
and putting one comma between them (JSON), concatenating the two outputs (XPath, each node followed
by its line feed) -/
theorem assembly_concatenates (a b : List Bytes) (ha : a ≠ []) (hb : b ≠ []) :
    Eval.jsonJoin (a ++ b) = Eval.jsonJoin a ++ [0x2c] ++ Eval.jsonJoin b
    ∧ Eval.xmlJoin (a ++ b) = Eval.xmlJoin a ++ Eval.xmlJoin b := by
  constructor
  · induction a with
    | nil => exact absurd rfl ha
    | cons v a ih =>
      cases a with
      | nil =>
        cases b with
        | nil => exact absurd rfl hb
        | cons w b => simp [Eval.jsonJoin]
      | cons w a =>
        have := ih (by simp)
        simp only [List.cons_append] at this ⊢
        simp only [Eval.jsonJoin, this, List.append_assoc]
  · clear ha hb
    induction a with
    | nil => simp [Eval.xmlJoin]
    | cons v a ih => simp [Eval.xmlJoin, ih, List.append_assoc]

example : Eval.jsonJoin ([[1], [2]] ++ [[3]]) = [1, 0x2c, 2, 0x2c, 3] ∧ Eval.xmlJoin ([[1]] ++ [[2]]) = [1, 10, 2, 10] := by decide

/-- **6b. one evaluation, cut at its statements, is the one-shot function**: run for `turns` steps
or longer, the machine of `genQueryResult` ends with exactly `queryResult` – the parsed result
followed by the submitter address, or no content when the selector fails. -/
theorem eval_machine_is_function (E : Eval.Engines) (r : Eval.Req) (k : Nat) (hk : Eval.turns E r ≤ k) :
    Eval.result (Eval.iter E k (Eval.init r)) = some (Eval.queryResult E r) :=
  Eval.machine_is_queryResult E r k hk

example : Eval.result (Eval.iter ⟨fun _ _ => .err, fun _ _ => .nodes [[1], [2]]⟩ 5 (Eval.init ⟨[7], [0x2f], [0xAA]⟩))
    = some (some [1, 10, 2, 10, 0xAA]) := by decide

/-- **6c. any interleaving of k evaluations = k independent results.**  `rs` are the requests in
flight on one node (the same request several times, different selectors on one document, one
selector on different documents – anything), `sch` ANY schedule of their steps (who runs when; no
fairness assumed beyond each evaluation getting its `turns`; indices outside the list are idle
turns).  Then the results are, position by position, the one-shot results `queryResult E rs[i]`:
no evaluation sees another. -/
theorem eval_interleaving_pointwise (E : Eval.Engines) (rs : List Eval.Req) (sch : List Nat)
    (hfair : ∀ i (h : i < rs.length), Eval.turns E rs[i] ≤ sch.count i) :
    (Eval.runSched E sch (rs.map Eval.init)).map Eval.result = rs.map (fun r => some (Eval.queryResult E r)) := by
  apply List.ext_getElem?
  intro i
  rw [List.getElem?_map, Eval.runSched_getElem?, List.getElem?_map, List.getElem?_map]
  by_cases h : i < rs.length
  · rw [List.getElem?_eq_getElem h]
    simp only [Option.map_some]
    rw [Eval.machine_is_queryResult E rs[i] _ (hfair i h)]
  · rw [List.getElem?_eq_none (by omega)]; rfl

example : (Eval.runSched ⟨fun _ _ => .ok [5], fun _ _ => .nodes [[1], [2]]⟩ [1, 0, 1, 1, 0, 7, 1, 1, 0]
    [Eval.init ⟨[], [0x24], [0xAA]⟩, Eval.init ⟨[], [0x2f], [0xBB]⟩]).map Eval.result
      = [some (some [5, 0xAA]), some (some [1, 10, 2, 10, 0xBB])] := by decide

/-- **6d. a history of evaluations is pointwise the one-shot result, and repeating a request
repeats its result**: whatever was evaluated before or is evaluated at the same time, two
evaluations of the same (document, selector, submitter) – on one node or on two – give the same
signed content. -/
theorem eval_history_pointwise (E : Eval.Engines) (rs : List Eval.Req) (i j : Nat) (hi : i < rs.length)
    (hj : j < rs.length) (hsame : rs[i] = rs[j]) :
    (Eval.runHistory E rs)[i]? = some (Eval.queryResult E rs[i])
    ∧ (Eval.runHistory E rs)[i]? = (Eval.runHistory E rs)[j]?
    ∧ ∀ (rs' : List Eval.Req) (sch sch' : List Nat) (i' : Nat) (hi' : i' < rs'.length), rs'[i'] = rs[i] →
        Eval.turns E rs[i] ≤ sch.count i → Eval.turns E rs[i] ≤ sch'.count i' →
        ((Eval.runSched E sch (rs.map Eval.init))[i]?).map Eval.result
          = ((Eval.runSched E sch' (rs'.map Eval.init))[i']?).map Eval.result := by
  refine ⟨by simp [Eval.runHistory, hi], by simp [Eval.runHistory, hi, hj, hsame], ?_⟩
  intro rs' sch sch' i' hi' he h1 h2
  rw [Eval.runSched_getElem?, Eval.runSched_getElem?, List.getElem?_map, List.getElem?_map,
    List.getElem?_eq_getElem hi, List.getElem?_eq_getElem hi']
  simp only [Option.map_some]
  rw [Eval.machine_is_queryResult E rs[i] _ h1, he, Eval.machine_is_queryResult E rs[i] _ h2]

example : Eval.runHistory ⟨fun d _ => .ok d, fun _ _ => .err⟩ [⟨[1], [0x24], [9]⟩, ⟨[2], [0x2f], [9]⟩, ⟨[1], [0x24], [9]⟩]
    = [some [1, 9], none, some [1, 9]] := by decide

/-! ### 6e (round 5, review H #4). the clause "extracting a result with a JSON-path or XPath selector is deterministic" – PARTIAL

In `Eval.Engines` the two third-party engines are Lean FUNCTIONS, i.e. their determinism is built into
the type: theorems 6a–6d say what `dataParse` / `genQueryResult` add AROUND the engines (dispatch,
node loop, append; no state between evaluations), not that ajson / xmlquery are deterministic.  Stated
honestly: engines as RELATIONS (an evaluation may depend on anything), `dataParse` over them, and the
clause as functionality of that relation.  Proved: the clause holds iff it holds for the engines
(`_partial`), and unconditionally on the branches that do not reach an engine.  NOT proved: that the
real ajson.JSONPath + Unpack + json.Marshal and xmlquery.Parse + Find + OutputXML are functional –
tested only (query / cq cases: sequential, concurrent, other inputs in between; regenerated facts: no
package-level state in dosnode, engines called directly). -/

/-- the engines as a program has them: relations between (document, selector) and a result -/
structure EnginesRel where
  json : Bytes → Bytes → Eval.Parsed → Prop
  xml : Bytes → Bytes → Eval.XmlOut → Prop

/-- each engine returns one result per (document, selector) -/
def EnginesRel.functional (R : EnginesRel) : Prop :=
  (∀ d s p q, R.json d s p → R.json d s q → p = q) ∧ (∀ d s x y, R.xml d s x → R.xml d s y → x = y)

/-- `dataParse` over relational engines (the dispatch and the node loop of `Eval.dataParse`) -/
def parsesRel (R : EnginesRel) (doc sel : Bytes) (out : Eval.Parsed) : Prop :=
  match sel with
  | [] => out = .ok doc
  | c :: _ =>
    if c = 0x24 then
      (if Eval.jsonDepthExceeds doc Eval.maxDocumentDepth then out = .err else R.json doc sel out)
    else if c = 0x2f then
      ∃ x, R.xml doc sel x ∧ out = (match x with
        | .nodes ns => .ok (Eval.xmlJoin ns)
        | .err => .err
        | .panic => .panic)
    else out = .ok []

/-- **the full clause** for engines `R`: two evaluations of the same (document, selector) – at any
member, at any time, concurrently or not – give the same result.  For `R` = the real engines this is
what C07 says; it is NOT proved (no model of ajson / xmlquery / encoding/json). -/
def C07_extraction_deterministic_full (R : EnginesRel) : Prop :=
  ∀ doc sel p q, parsesRel R doc sel p → parsesRel R doc sel q → p = q

/-- **partial**: everything `dataParse` does around the engines preserves determinism – the clause
holds as soon as the engines themselves are functional (missing: that the real engines are). -/
theorem extraction_deterministic_partial (R : EnginesRel) (h : R.functional) :
    C07_extraction_deterministic_full R := by
  intro doc sel p q hp hq
  unfold parsesRel at hp hq
  cases sel with
  | nil => simp only at hp hq; rw [hp, hq]
  | cons c rest =>
    simp only at hp hq
    by_cases h1 : c = 0x24
    · simp only [h1, if_true] at hp hq
      by_cases hg : Eval.jsonDepthExceeds doc Eval.maxDocumentDepth = true
      · simp only [hg, if_true] at hp hq; rw [hp, hq]
      · simp only [hg] at hp hq; exact h.1 _ _ _ _ hp hq
    · simp only [h1, if_false] at hp hq
      by_cases h2 : c = 0x2f
      · simp only [h2, if_true] at hp hq
        obtain ⟨x, hx, rfl⟩ := hp
        obtain ⟨y, hy, rfl⟩ := hq
        rw [h.2 _ _ _ _ hx hy]
      · simp only [h2, if_false] at hp hq; rw [hp, hq]

example : C07_extraction_deterministic_full ⟨fun d _ p => p = .ok d, fun _ _ x => x = .nodes [[1], [2]]⟩ :=
  extraction_deterministic_partial _ ⟨fun _ _ _ _ hp hq => by rw [hp, hq], fun _ _ _ _ hx hy => by rw [hx, hy]⟩

/-- on the branches that reach no engine (empty selector: the document itself; a selector that is
neither JSONPath nor XPath: the empty result) the clause holds for ANY engines -/
theorem extraction_deterministic_without_engines (R : EnginesRel) (doc sel : Bytes)
    (hs : sel = [] ∨ ∃ c rest, sel = c :: rest ∧ c ≠ 0x24 ∧ c ≠ 0x2f) (p q : Eval.Parsed)
    (hp : parsesRel R doc sel p) (hq : parsesRel R doc sel q) : p = q := by
  unfold parsesRel at hp hq
  rcases hs with rfl | ⟨c, rest, rfl, h1, h2⟩
  · simp only at hp hq; rw [hp, hq]
  · simp only [h1, h2, if_false] at hp hq; rw [hp, hq]

example : parsesRel ⟨fun _ _ _ => True, fun _ _ _ => True⟩ [7] [0x5b] (.ok []) := by simp [parsesRel]

/-- the functional model of section 6 is the relational one with functional engines -/
theorem parsesRel_of_engines (E : Eval.Engines) (doc sel : Bytes) :
    parsesRel ⟨fun d s p => p = E.json d s, fun d s x => x = E.xml d s⟩ doc sel (Eval.dataParse E doc sel) := by
  unfold parsesRel Eval.dataParse
  cases sel with
  | nil => rfl
  | cons c rest =>
    simp only
    by_cases h1 : c = 0x24
    · simp only [h1, if_true, Eval.jsonBranch]
      by_cases hg : Eval.jsonDepthExceeds doc Eval.maxDocumentDepth = true <;> simp [hg]
    · by_cases h2 : c = 0x2f
      · simp only [h2, if_true]
        exact ⟨_, rfl, by cases E.xml doc (0x2f :: rest) <;> rfl⟩
      · simp [h1, h2]

example : parsesRel ⟨fun d s p => p = (⟨fun d _ => .ok d, fun _ _ => .err⟩ : Eval.Engines).json d s, fun _ _ x => x = .err⟩ [1] [0x24] (.ok [1]) := by
  have : Eval.jsonDepthExceeds [1] Eval.maxDocumentDepth = false := by decide
  simp [parsesRel, this]

/-! ### 7. from the content to the chain: genSign → dispatchSign → recoverSign → reportQueryResult

`Query.handleQuery` (Model/Query.lean, shared with C01) is the pipeline of one node over abstract
threshold-BLS operations; `fc` is whatever reaches the recovery stage from the peers, in any order. -/

/-- **7. the result submitted is exactly the signed string without its trailing 20 bytes, for
all three request kinds, whatever the peers send.**  If the member computed its content `c0` (the
string it signed), then every report it makes carries `result` with `result ++ own address = c0`,
`result` is what the strip of `recoverSign` yields on `c0`, and it is: the 32-byte big-endian last
randomness (system randomness), `requestId ‖ lastRand ‖ seed` as minimal big-endian numbers (user
randomness), the parsed document (URL query). -/
theorem path_reported_is_signed_minus_address (C : Query.Crypto) (mb : Query.Member) (r : Query.Request)
    (fc : List (Option Query.Msg)) (c0 : Bytes)
    (hc0 : Query.contentFor Gen.padSize r mb.me = some c0) (hlen : mb.me.length = 20) :
    ∀ rep ∈ (Query.handleQuery C Gen.padSize Gen.stripLen mb r fc).reports,
      rep.result ++ mb.me = c0 ∧ stripResult Gen.stripLen c0 = .ok rep.result ∧
      (match r.kind with
        | .sys => rep.result = natBE 32 r.last
        | .user => rep.result = natBytes r.rid ++ natBytes r.last ++ natBytes r.seed
        | .url => r.parsed = some rep.result) := by
  intro rep hrep
  have h20 : Gen.stripLen = 20 := c07_constants.2.2.2
  have h32 : Gen.padSize = 32 := c07_constants.2.2.1
  obtain ⟨hal, hres⟩ := Query.report_is_strip C Gen.padSize Gen.stripLen mb r fc c0 hc0 rep hrep
  obtain ⟨d, hd⟩ := Query.contentFor_shape hc0
  have hcat : rep.result ++ mb.me = c0 := by
    rw [hres, hd, h20]; simp [hlen]
  refine ⟨hcat, by rw [← hcat]; exact strip_append _ _ hlen, ?_⟩
  rw [h32] at hc0
  unfold Query.contentFor at hc0
  cases hk : r.kind with
  | sys =>
    simp only [hk, Option.some.injEq] at hc0
    simp only []
    have : sysContent 32 r.last mb.me = natBE 32 r.last ++ mb.me := by
      simp only [sysContent, sysContentRaw]; rw [padOrTrim_eq_natBE, beNat_natBytes]
    rw [this, ← hcat] at hc0
    exact (List.append_cancel_right hc0).symm
  | user =>
    simp only [hk, Option.some.injEq] at hc0
    simp only []
    rw [user_is_result_then_addr, ← hcat] at hc0
    exact (List.append_cancel_right hc0).symm
  | url =>
    simp only [hk] at hc0
    simp only []
    cases hp : r.parsed with
    | none => simp [hp] at hc0
    | some p =>
      simp only [hp, Option.map_some, Option.some.injEq, queryContent] at hc0
      rw [← hcat] at hc0
      rw [List.append_cancel_right hc0]

example : (Query.handleQuery ⟨fun _ _ => .ok [9], fun _ _ => true⟩ 32 20 ⟨[List.replicate 20 7], List.replicate 20 7, fun c => c⟩
    ⟨.sys, 5, 5, 0, none⟩ []).reports.map (fun r => (r.result.length, r.result ++ List.replicate 20 7 == sysContent 32 5 (List.replicate 20 7)))
    = [(32, true)] := by decide

/-- **7b. every member signs the identical string**: the content a member signs (and sends to the
submitter, or keeps when it is the submitter) depends on the member only through the member list:
two members holding the list as announced, handling the same event fields and (for a URL query) the
same parse result, choose the same submitter and sign the same bytes – also when either of them
evaluates the request again. -/
theorem members_sign_identical (p : Nat) (mb1 mb2 : Query.Member) (r1 r2 : Query.Request)
    (hids : mb1.ids = mb2.ids) (hk : r1.kind = r2.kind) (hq : r1.rid = r2.rid) (hl : r1.last = r2.last)
    (hs : r1.seed = r2.seed) (hp : r1.parsed = r2.parsed) :
    submitter mb1.ids r1.last = submitter mb2.ids r2.last
    ∧ (submitter mb1.ids r1.last).bind (Query.contentFor p r1) = (submitter mb2.ids r2.last).bind (Query.contentFor p r2) := by
  have hc : Query.contentFor p r1 = Query.contentFor p r2 := by
    funext a; unfold Query.contentFor; rw [hk, hq, hl, hs, hp]
  rw [hids, hl, hc]; exact ⟨rfl, rfl⟩

example : (submitter [[1], [2], [3]] 7).bind (Query.contentFor 32 ⟨.user, 1, 7, 2, none⟩) = some [1, 7, 2, 2] := by decide

/-! ### 7c–7f (round 5). per-member failure of the content stage; the group; the document bound

The requester controls the data source: it may answer the members differently, cut a transfer, send
an over-long body.  `ContentPath.groupRun` lets every member run `Query.handleQuery` on ITS OWN fetch
result (`parsedAt i`, arbitrary: any set of members may fail); the non-submitters' shares, then
arbitrary further messages (`extra`), reach the submitter's recovery stage. -/

/-- **7c. a member whose content stage failed is silent** (since /repo 7f58072): a URL query whose
fetch or selector evaluation failed AT THIS MEMBER – submitter or not, whatever the peers send –
produces no report, no registration for the peers' shares, and no share (the one message handed to
`p.Request` is nil and never reaches the wire). -/
theorem failed_member_is_silent (C : Query.Crypto) (mb : Query.Member) (r : Query.Request)
    (fc : List (Option Query.Msg)) (hk : r.kind = .url) (hp : r.parsed = none) :
    (Query.handleQuery C Gen.padSize Gen.stripLen mb r fc).reports = [] ∧
    (Query.handleQuery C Gen.padSize Gen.stripLen mb r fc).registered = false ∧
    ∀ x ∈ (Query.handleQuery C Gen.padSize Gen.stripLen mb r fc).sent, x.2 = none := by
  have h0 : ∀ sub, Query.contentFor Gen.padSize r sub = none := by
    intro sub; simp [Query.contentFor, hk, hp]
  obtain ⟨h1, h2⟩ := Query.silent_without_content C Gen.padSize Gen.stripLen mb r fc (fun s _ => h0 s)
  refine ⟨h1, h2, ?_⟩
  intro x hx
  cases hs : submitter mb.ids r.last with
  | none => unfold Query.handleQuery at hx; simp [hs] at hx
  | some sub =>
    by_cases hme : mb.me ≠ sub
    · rw [(Query.nonsubmitter_out C _ _ mb r fc sub hs hme).2.2, h0 sub] at hx
      simp at hx; subst hx; rfl
    · unfold Query.handleQuery at hx
      simp [hs, hme, h0 sub] at hx

example : (Query.handleQuery ⟨fun _ _ => .ok [9], fun _ _ => true⟩ 32 20 ⟨[[1], [2], [3]], [1], fun c => c⟩
    ⟨.url, 5, 0, 0, none⟩ [some ⟨2, [5], some [7], some [8]⟩, some ⟨2, [5], some [7], some [8]⟩]).reports = [] := by decide

/-- **7d. whatever is reported in a group is exactly the content function of the request.**  For
every member list, every per-member outcome of fetch and parse (`parsedAt`: any members may fail,
members may be served different documents), every order of the peers' shares and every further
message reaching the submitter's stage: a report is made by the member whose id is the submitter's,
that member computed a content `c0` itself, and `result ‖ submitter = c0`, where `result` is the
32-byte last randomness / `requestId ‖ lastRand ‖ seed` / the parse result of the document THE
REPORTING MEMBER was served. -/
theorem group_reports_content_function (C : Query.Crypto) (ids : List Bytes) (signOf : Nat → Bytes → Bytes)
    (f : ContentPath.Fields) (parsedAt : Nat → Option Bytes) (order : List Nat)
    (extra : List (Option Query.Msg)) (o : ContentPath.GroupOut)
    (ho : ContentPath.groupRun C Gen.padSize Gen.stripLen ids signOf f parsedAt order extra = some o)
    (hlen : ∀ id ∈ ids, id.length = 20) :
    ∀ i rep, (i, rep) ∈ o.reports →
      submitter ids f.last = some (ids.getD i []) ∧
      ∃ c0, Query.contentFor Gen.padSize (ContentPath.requestAt f parsedAt i) (ids.getD i []) = some c0 ∧
        rep.result ++ ids.getD i [] = c0 ∧
        (match f.kind with
          | .sys => rep.result = natBE 32 f.last
          | .user => rep.result = natBytes f.rid ++ natBytes f.last ++ natBytes f.seed
          | .url => parsedAt i = some rep.result) := by
  intro i rep h
  obtain ⟨fc, hfc⟩ := ContentPath.groupRun_reports C _ _ ids signOf f parsedAt order extra o ho i rep h
  obtain ⟨hsub, c0, hc0⟩ := Query.reporter_is_submitter C _ _ _ _ fc rep hfc
  simp only [ContentPath.requestAt] at hsub
  have hmem : ids.getD i [] ∈ ids := by
    unfold submitter at hsub
    cases hi : submitterIdx f.last ids.length with
    | none => simp [hi] at hsub
    | some k => simp only [hi] at hsub; exact List.mem_of_getElem? hsub
  have := path_reported_is_signed_minus_address C _ _ fc c0 hc0 (hlen _ hmem) rep hfc
  exact ⟨hsub, c0, hc0, this.1, this.2.2⟩

example : (ContentPath.groupRun (Query.symCrypto [[7, 1], [8, 1]] 2 3) 32 1 [[1], [2], [3]]
    (fun i c => [1, UInt8.ofNat i, if c = [7, 1] then 0 else 1]) ⟨.url, 5, 0, 0⟩
    (fun i => if i = 1 then none else some [7]) [2, 1, 0] []).map (fun o => (o.sent, o.nils, o.reports.map (·.2.result)))
    = some ([2], [1], [[7]]) := by decide

/-- **7e. members that are served alike sign alike**: the content a member signs is a function of the
event fields, the member list and the transfer result at that member only – not of the member's
identity, its key share, or anything else. -/
theorem members_served_alike_sign_identical (E : Eval.Engines) (m : Nat)
    (f : ContentPath.Fields) (tr : Nat → Option Bytes) (sel : Bytes) (i j : Nat) (h : tr i = tr j) (sub : Bytes) :
    Query.contentFor Gen.padSize (ContentPath.requestAt f (fun k => ContentPath.memberParsed E m (tr k) sel) i) sub =
    Query.contentFor Gen.padSize (ContentPath.requestAt f (fun k => ContentPath.memberParsed E m (tr k) sel) j) sub := by
  simp only [ContentPath.requestAt, h]

example : ContentPath.memberParsed ⟨fun d _ => .ok d, fun _ _ => .err⟩ 3 (some [1, 2, 3]) [0x24] = some [1, 2, 3]
    ∧ ContentPath.memberParsed ⟨fun d _ => .ok d, fun _ _ => .err⟩ 3 (some [1, 2, 3, 4]) [0x24] = none := by decide

/-- **7f. the document bound** (`dataFetch`, fix 2c0c671; the constant is regenerated): a transfer
error gives no document; a complete body of at most 16 MiB is handed on byte for byte; a longer one
is refused, and nothing of it is handed on. -/
theorem fetch_bound (tr : Option Bytes) :
    ContentPath.dataFetch Gen.DosnodeFlow.maxDocumentSize tr =
      match tr with
      | none => none
      | some body => if body.length ≤ 16 * 2 ^ 20 then some body else none := by
  have hm : Gen.DosnodeFlow.maxDocumentSize = 16 * 2 ^ 20 := by decide
  cases tr with
  | none => rfl
  | some body =>
    simp only [ContentPath.dataFetch, hm]
    split <;> split <;> first | rfl | omega

example : ContentPath.dataFetch 4 (some [1, 2, 3, 4]) = some [1, 2, 3, 4] ∧ ContentPath.dataFetch 4 (some [1, 2, 3, 4, 5]) = none := by decide

/-- what is handed on IS the body served, and it respects the bound – for every bound and transfer -/
theorem fetch_hands_on_the_body (m : Nat) (tr : Option Bytes) (d : Bytes)
    (h : ContentPath.dataFetch m tr = some d) : tr = some d ∧ d.length ≤ m :=
  ContentPath.dataFetch_some h

example : ContentPath.dataFetch 10 (some [5, 6]) = some [5, 6] := by decide

/-- the `fetch` lines of the correspondence run print lengths: they are the lengths of this function -/
theorem fetch_length_line (m : Nat) (body : Bytes) :
    (ContentPath.dataFetch m (some body)).map List.length = ContentPath.fetchLen m body.length :=
  ContentPath.dataFetch_len m body

example : ContentPath.fetchLen 16777216 16777216 = some 16777216 ∧ ContentPath.fetchLen 16777216 16777217 = none := by decide

/-- nothing is signed for an over-long document or a failed transfer; otherwise the stage is the
one-shot evaluation of section 6 on the body served -/
theorem stage_signs_within_bound_only (E : Eval.Engines) (tr : Option Bytes) (sel addr : Bytes) :
    ContentPath.stageQuery E Gen.DosnodeFlow.maxDocumentSize tr sel addr =
      match tr with
      | none => none
      | some body => if body.length ≤ 16 * 2 ^ 20 then Eval.queryResult E ⟨body, sel, addr⟩ else none := by
  unfold ContentPath.stageQuery
  rw [fetch_bound]
  cases tr with
  | none => rfl
  | some body =>
    simp only []
    by_cases hb : body.length ≤ 16 * 2 ^ 20
    · rw [if_pos hb, if_pos hb]
    · rw [if_neg hb, if_neg hb]

example : ContentPath.stageQuery ⟨fun _ _ => .err, fun _ _ => .err⟩ 2 (some [1, 2]) [] [9] = some [1, 2, 9]
    ∧ ContentPath.stageQuery ⟨fun _ _ => .err, fun _ _ => .err⟩ 2 (some [1, 2, 3]) [] [9] = none := by decide

/-! ### 8. the submitter: all magnitudes, all group sizes, the list as announced -/

/-- **8a. every magnitude, every group size.**  For any last randomness `r` (below 2^63, between
2^63 and 2^64 where a signed conversion would go negative, above 2^64, above 2^256) and any list of
`n ≥ 1` members – also more than 255 or 65535 – the member chosen is entry
`(r mod 2^64) mod n` of the list AS GIVEN; the conversion `uint64(len(ids))` changes nothing for
any length a Go slice can have. -/
theorem submitter_all_magnitudes (ids : List Bytes) (r : Nat) (hn : 0 < ids.length) :
    ∃ h : r % 2 ^ 64 % ids.length < ids.length,
      submitter ids r = some ids[r % 2 ^ 64 % ids.length]
      ∧ Gen.submitterExpr r ids.length = r % 2 ^ 64 % ids.length
      ∧ (ids.length < 2 ^ 63 → r % 2 ^ 64 % (ids.length % 2 ^ 64) = r % 2 ^ 64 % ids.length) := by
  have hlt := Nat.mod_lt (r % 2 ^ 64) hn
  refine ⟨hlt, ?_, by simp [Gen.submitterExpr], ?_⟩
  · have : ids.length ≠ 0 := by omega
    simp [submitter, submitterIdx, this]
  · intro h; rw [Nat.mod_eq_of_lt (show ids.length < 2 ^ 64 by omega)]

example : submitter ((List.range 300).map (fun i => [UInt8.ofNat (i / 256), UInt8.ofNat i])) (2 ^ 256 + 2 ^ 63 + 291)
    = some [1, 43] := by decide +kernel
example : submitterIdx (2 ^ 63) 7 = some 1 ∧ submitterIdx (2 ^ 64 - 1) 300 = some 15 := by decide

/-- **8b. the order matters and is the announced one**: the index is computed from `(r, n)` only,
so two lists that differ (a sorted copy, a de-duplicated copy, another permutation) give different
submitters as soon as they differ at that index; conversely a node that keeps the announced list
gets entry `(r mod 2^64) mod n` of the announcement. -/
theorem submitter_depends_on_order (ids ids' : List Bytes) (r : Nat) (hlen : ids.length = ids'.length)
    (hn : 0 < ids.length) (hdiff : ids[r % 2 ^ 64 % ids.length]? ≠ ids'[r % 2 ^ 64 % ids.length]?) :
    submitter ids r ≠ submitter ids' r := by
  have h0 : ids.length ≠ 0 := by omega
  have h0' : ids'.length ≠ 0 := by omega
  simp only [submitter, submitterIdx, h0, if_false, ← hlen]
  exact hdiff

example : submitter [[2], [1], [3]] 0 = some [2] ∧ submitter [[1], [2], [3]] 0 = some [1] := by decide

/-- **8c. the group table keeps the list as announced.**  After ANY sequence of LogGrouping /
dissolve events, whatever list a node holds for group `gid` is the `NodeId` list of a LogGrouping
event for `gid` that names the node – element for element, in the announced order, nothing
removed, nothing re-sorted. -/
theorem member_list_as_announced (me : Bytes) (ops : List Eval.Op) (gid : Nat) (l : List Bytes)
    (h : Eval.Book.ids (Eval.Book.run me ops) gid = some l) :
    Eval.Op.grouping gid l ∈ ops ∧ me ∈ l := by
  rcases Eval.run_ids_announced me ops [] gid l h with h0 | h1
  · simp [Eval.Book.ids] at h0
  · exact h1

example : Eval.Book.ids (Eval.Book.run [7] [.grouping 1 [[9], [7], [9]], .grouping 1 [[7], [9]], .dissolve 2]) 1
    = some [[9], [7], [9]] := by decide

/-- **8d. every member computes the identical submitter.**  If the chain announced group `gid`
once in the history two nodes saw (each possibly with other events before, between and after, in
its own order), then whatever the two nodes hold for `gid` is that one list, and for every last
randomness they choose the same submitter: entry `(r mod 2^64) mod n` of the announced list. -/
theorem members_agree_on_submitter (me1 me2 : Bytes) (ops1 ops2 : List Eval.Op) (gid r : Nat)
    (announced l1 l2 : List Bytes)
    (huniq1 : ∀ l, Eval.Op.grouping gid l ∈ ops1 → l = announced)
    (huniq2 : ∀ l, Eval.Op.grouping gid l ∈ ops2 → l = announced)
    (h1 : Eval.Book.ids (Eval.Book.run me1 ops1) gid = some l1)
    (h2 : Eval.Book.ids (Eval.Book.run me2 ops2) gid = some l2) :
    l1 = announced ∧ l2 = announced
    ∧ Eval.Book.submitterOf (Eval.Book.run me1 ops1) gid r = Eval.Book.submitterOf (Eval.Book.run me2 ops2) gid r
    ∧ Eval.Book.submitterOf (Eval.Book.run me1 ops1) gid r = submitter announced r := by
  have e1 := huniq1 l1 (member_list_as_announced me1 ops1 gid l1 h1).1
  have e2 := huniq2 l2 (member_list_as_announced me2 ops2 gid l2 h2).1
  subst e1
  refine ⟨rfl, e2, ?_, ?_⟩
  · simp [Eval.Book.submitterOf, h1, h2, e2]
  · simp [Eval.Book.submitterOf, h1]

example : Eval.Book.submitterOf (Eval.Book.run [7] [.grouping 5 [[9], [7], [8]]]) 5 (2 ^ 64 + 2)
    = some [8] ∧ Eval.Book.submitterOf (Eval.Book.run [8] [.dissolve 5, .grouping 5 [[9], [7], [8]], .grouping 6 [[8]]]) 5 (2 ^ 64 + 2) = some [8] := by decide

/-! ### 8e–8h (round 5, review H #6). the NODE around the table: a dissolve is acted on only with a share

8c / 8d are about `pdkg`'s table (`Book`, where a dissolve always deletes).  The node calls
`GroupDissolve` only when it holds a share for the group (`NodeSt`), so an entry whose key
generation never completed SURVIVES a dissolve, and the re-announced id is then refused ("dkg:
duplicate share public key").  What C07 needs still holds, under the assumption the code really
needs: every announcement of the group id that reaches the node carries the same list (on chain a
group id is a fresh hash; "announced once between dissolves" is NOT enough – witness 8g). -/

/-- **8e. the list as announced, at the node**: after ANY sequence of LogGrouping events, key
generations completing and LogGroupDissolve events (acted on or not), whatever list the node holds
for `gid` is the `NodeId` list of a LogGrouping event for `gid` naming the node, element for element. -/
theorem node_member_list_as_announced (me : Bytes) (ops : List Eval.NodeOp) (gid : Nat) (l : List Bytes)
    (h : Eval.Book.ids (Eval.NodeSt.run me ops).book gid = some l) :
    Eval.NodeOp.grouping gid l ∈ ops ∧ me ∈ l := by
  rcases Eval.nodeRun_ids_announced me ops Eval.NodeSt.init gid l h with h0 | h1
  · simp [Eval.NodeSt.init, Eval.Book.ids] at h0
  · exact h1

example : Eval.Book.ids (Eval.NodeSt.run [7] [.grouping 1 [[9], [7]], .certified 1, .dissolve 1, .grouping 1 [[7], [9]]]).book 1
    = some [[7], [9]] := by decide

/-- **8f. every member that handles a request computes the identical submitter.**  A node handles a
request event of `gid` only when it holds a share (`isMember`); if every announcement of `gid` that
reached either node carries the list `announced`, then two nodes that both handle the request choose
the same submitter: entry `(r mod 2^64) mod n` of the announced list – whatever dissolve events were
or were not acted on in between, in whatever order the nodes saw their events. -/
theorem node_members_agree_on_submitter (me1 me2 : Bytes) (ops1 ops2 : List Eval.NodeOp) (gid r : Nat)
    (announced : List Bytes) (s1 s2 : Bytes)
    (huniq1 : ∀ l, Eval.NodeOp.grouping gid l ∈ ops1 → l = announced)
    (huniq2 : ∀ l, Eval.NodeOp.grouping gid l ∈ ops2 → l = announced)
    (h1 : Eval.NodeSt.submitterOf (Eval.NodeSt.run me1 ops1) gid r = some s1)
    (h2 : Eval.NodeSt.submitterOf (Eval.NodeSt.run me2 ops2) gid r = some s2) :
    s1 = s2 ∧ submitter announced r = some s1
    ∧ Eval.NodeOp.certified gid ∈ ops1 ∧ Eval.NodeOp.certified gid ∈ ops2 := by
  have key : ∀ (me : Bytes) (ops : List Eval.NodeOp) (s : Bytes),
      (∀ l, Eval.NodeOp.grouping gid l ∈ ops → l = announced) →
      Eval.NodeSt.submitterOf (Eval.NodeSt.run me ops) gid r = some s →
      submitter announced r = some s ∧ Eval.NodeOp.certified gid ∈ ops := by
    intro me ops s hu h
    unfold Eval.NodeSt.submitterOf at h
    by_cases hm : gid ∈ (Eval.NodeSt.run me ops).shares
    · simp only [hm, if_true, Eval.Book.submitterOf] at h
      cases hb : Eval.Book.ids (Eval.NodeSt.run me ops).book gid with
      | none => simp [hb] at h
      | some l =>
        simp only [hb] at h
        have := hu l (node_member_list_as_announced me ops gid l hb).1
        subst this
        refine ⟨h, ?_⟩
        rcases Eval.nodeRun_share_certified me ops Eval.NodeSt.init gid hm with h0 | hc
        · simp [Eval.NodeSt.init] at h0
        · exact hc
    · simp [hm] at h
  obtain ⟨a1, c1⟩ := key me1 ops1 s1 huniq1 h1
  obtain ⟨a2, c2⟩ := key me2 ops2 s2 huniq2 h2
  exact ⟨by rw [a1] at a2; exact Option.some.inj a2, a1, c1, c2⟩

example : Eval.NodeSt.submitterOf (Eval.NodeSt.run [7] [.grouping 5 [[9], [7], [8]], .certified 5]) 5 (2 ^ 64 + 2) = some [8]
    ∧ Eval.NodeSt.submitterOf (Eval.NodeSt.run [8] [.dissolve 5, .grouping 5 [[9], [7], [8]], .grouping 6 [[8]], .certified 5]) 5 (2 ^ 64 + 2) = some [8] := by decide

/-- **8g. the stale entry** (witness; real handleGrouping + pdkg + onchainLoop: `grpd noshare` cases):
announced, key generation not completed, dissolve, re-announced in another order – the node still
holds the FIRST list, where `pdkg`'s own table (dissolve always deletes) would hold the second; but
it holds no share, so it handles no request of the group: nothing is signed with the stale list. -/
theorem stale_entry_witness :
    Eval.Book.ids (Eval.NodeSt.run [7] [.grouping 1 [[7], [8]], .dissolve 1, .grouping 1 [[8], [7]]]).book 1 = some [[7], [8]]
    ∧ Eval.Book.ids (Eval.Book.run [7] [.grouping 1 [[7], [8]], .dissolve 1, .grouping 1 [[8], [7]]]) 1 = some [[8], [7]]
    ∧ ∀ r, Eval.NodeSt.submitterOf (Eval.NodeSt.run [7] [.grouping 1 [[7], [8]], .dissolve 1, .grouping 1 [[8], [7]]]) 1 r = none := by
  refine ⟨by decide, by decide, ?_⟩
  intro r
  have : (Eval.NodeSt.run [7] [.grouping 1 [[7], [8]], .dissolve 1, .grouping 1 [[8], [7]]]).shares = [] := by decide
  simp [Eval.NodeSt.submitterOf, this]

example : (Eval.NodeSt.run [7] [.grouping 1 [[7], [8]], .dissolve 1]).book = [(1, [[7], [8]])] := by decide

/-- **8h. an entry without a share is permanent** (the liveness issue behind 8g, for every history):
while the key generation of `gid` is not certified, no announcement and no dissolve event changes the
list the node holds for `gid`, and the node never handles a request of `gid`. -/
theorem entry_without_share_is_permanent (me : Bytes) (before after : List Eval.NodeOp) (gid : Nat) (l0 : List Bytes)
    (h0 : Eval.Book.ids (Eval.NodeSt.run me before).book gid = some l0)
    (hs : gid ∉ (Eval.NodeSt.run me before).shares) (hc : Eval.NodeOp.certified gid ∉ after) :
    Eval.Book.ids (Eval.NodeSt.run me (before ++ after)).book gid = some l0
    ∧ ∀ r, Eval.NodeSt.submitterOf (Eval.NodeSt.run me (before ++ after)) gid r = none := by
  have := Eval.entry_without_share_stays me after (Eval.NodeSt.run me before) gid l0 h0 hs hc
  unfold Eval.NodeSt.run at this ⊢
  rw [List.foldl_append]
  exact ⟨this.1, fun r => by simp [Eval.NodeSt.submitterOf, this.2]⟩

example : Eval.Book.ids (Eval.NodeSt.run [7] ([.grouping 1 [[7], [8]]] ++ [.dissolve 1, .grouping 1 [[8], [7]], .certified 2])).book 1
    = some [[7], [8]] := by decide

/-! ### non-vacuity -/
example : sysContent 32 0 [0xAA] = List.replicate 32 0 ++ [0xAA] := by decide
example : sysContent 32 258 [7] = List.replicate 30 0 ++ [1, 2, 7] := by decide
example : (sysContent 32 (2 ^ 256 + 5) []).length = 32 ∧ beNat (sysContent 32 (2 ^ 256 + 5) []) = 5 := by decide
example : padOrTrim [1, 2, 3] 2 = [2, 3] := by decide
example : stripResult 20 (List.replicate 25 1) = .ok (List.replicate 5 1) := by decide
example : stripResult 20 [1, 2] = .tooShort := by decide
example : submitterIdx (2 ^ 64 + 5) 3 = some 2 ∧ submitterIdx 5 3 = some 2 := by decide
example : userContent 0 256 1 [9] = [1, 0, 1, 9] := by decide

end Dos.Props.C07

// Package pipeir is extractor E4: it translates the goroutine bodies of the pipeline
// code of /repo (go/parser + go/ast only) into the pipeline IR of
// lean/DosModel/Model/PipeIR.lean and writes lean/DosModel/Gen/PipeIR.lean.
//
// It is a small abstract interpreter: pipeline constructors (handleQuery, Grouping,
// mergeErrors, ...) are executed symbolically over abstract values (channels, contexts,
// wait groups, closures, lists of those), every `go` statement yields one goroutine whose
// body is translated to a control-flow graph of channel / wait-group / context operations.
// Data is abstracted away: a condition on data is a non-deterministic branch. Two things
// are tracked path-sensitively because the close discipline depends on them: the `ok` of
// a receive, and whether the collector maps keyed by the request / session id
// (queryLoop, pdkg.Loop) hold an entry for the one request under analysis.
package pipeir

import (
	"fmt"
	"go/ast"
	"sort"
	"strings"
)

// AV is an abstract value.
type AV interface{}

type (
	avUnknown struct{}              // data we do not track
	avZero    struct{}              // zero value of a struct read from an empty map
	avNil     struct{}              // nil
	avBool    struct{ b bool }      // known boolean
	avInt     struct{ n int }       // known small integer
	avConst   struct{ s string }    // named constant (compared by name)
	avChan    struct{ id int }      // channel
	avTick    struct{ src string }  // timer channel (src: how the timer came about)
	avTicker  struct{ src string }  // *time.Ticker / *time.Timer
	avCtx     struct{ k int }       // context; k < 0: context.Background()
	avCancel  struct{ k int }       // cancel function of context k
	avWg      struct{ id int }      // *sync.WaitGroup
	avMap     struct{ id int }      // collector map keyed by request id
	avOpaque  struct{ s string }    // external object (p2p, chain, logger, ...)
	avEmpty   struct{}              // empty slice
	avList    struct{ l []AV }      // slice with statically known elements
	avPkg     struct{ path string } // imported package
	avTuple   struct{ l []AV }      // multiple results
	avMapElem struct{ id int }      // the (data) element of a collector map: unknown data, but we know which map
)

type avStruct struct {
	typ    string
	fields map[string]*cell
}

type avFunc struct {
	name string // pkg.func[.closure]
	pkg  *pkgInfo
	file *ast.File
	typ  *ast.FuncType
	body *ast.BlockStmt
	env  *env // defining environment (nil for top-level)
	recv AV   // bound receiver for method values
	rcvN string
}

type cell struct{ v AV }

type env struct {
	vars   map[string]*cell
	parent *env
}

func newEnv(parent *env) *env { return &env{vars: map[string]*cell{}, parent: parent} }

func (e *env) lookup(n string) *cell {
	for x := e; x != nil; x = x.parent {
		if c, ok := x.vars[n]; ok {
			return c
		}
	}
	return nil
}
func (e *env) define(n string, v AV) {
	if n == "_" {
		return
	}
	e.vars[n] = &cell{v}
}
func (e *env) assign(n string, v AV) {
	if n == "_" {
		return
	}
	if c := e.lookup(n); c != nil {
		c.v = v
		return
	}
	e.vars[n] = &cell{v}
}

func isUnknown(v AV) bool {
	if _, ok := v.(avMapElem); ok {
		return true
	}
	_, ok := v.(avUnknown)
	return ok || v == nil
}

// key gives a canonical string for structural comparison of abstract values.
func key(v AV) string {
	switch x := v.(type) {
	case nil:
		return "?"
	case avUnknown:
		return "?"
	case avMapElem:
		return "?"
	case avZero:
		return "zero"
	case avNil:
		return "nil"
	case avBool:
		return fmt.Sprint("b", x.b)
	case avInt:
		return fmt.Sprint("i", x.n)
	case avConst:
		return "c" + x.s
	case avChan:
		return fmt.Sprint("ch", x.id)
	case avTick:
		return "tick"
	case avTicker:
		return "ticker"
	case avCtx:
		return fmt.Sprint("ctx", x.k)
	case avCancel:
		return fmt.Sprint("cancel", x.k)
	case avWg:
		return fmt.Sprint("wg", x.id)
	case avMap:
		return fmt.Sprint("map", x.id)
	case avOpaque:
		return "o" + x.s
	case avEmpty:
		return "empty"
	case avList:
		var s []string
		for _, e := range x.l {
			s = append(s, key(e))
		}
		return "[" + strings.Join(s, ",") + "]"
	case avTuple:
		var s []string
		for _, e := range x.l {
			s = append(s, key(e))
		}
		return "(" + strings.Join(s, ",") + ")"
	case *avStruct:
		var ks []string
		for k := range x.fields {
			ks = append(ks, k)
		}
		sort.Strings(ks)
		var s []string
		for _, k := range ks {
			s = append(s, k+":"+key(x.fields[k].v))
		}
		return x.typ + "{" + strings.Join(s, ",") + "}"
	case *avFunc:
		return "func " + x.name
	case avPkg:
		return "pkg " + x.path
	}
	return fmt.Sprintf("%T", v)
}

// join of two abstract values: equal or unknown
func join(a, b AV) AV {
	if a == nil {
		return b
	}
	if b == nil {
		return a
	}
	if key(a) == key(b) {
		return a
	}
	return avUnknown{}
}

/-
Composition helper: the concrete G1 of the C02/C03 driver (`Model/TblsG1.lean`: affine points over
`Nat` with `% p`, chord/tangent `add`, `neg`, the 64-byte codec) mapped into Mathlib's elliptic-curve
group `E(F_p) : y² = x³ + 3` through the generic affine layer `Proofs/ComposeCurve.lean`.
`p = Gen.bn256P` (regenerated from /repo) is prime by `Proofs/Primes.lean`.
-/
import DosModel.Model.TblsG1
import DosModel.Proofs.ComposePrimes
import DosModel.Proofs.ComposeCurve
import Mathlib.FieldTheory.Finite.Basic
import DosModel.Proofs.CodecBytes

set_option linter.unusedSimpArgs false

namespace Dos.Compose.TG1
open Dos Dos.G1 Dos.Compose.Curve

instance fact_p : Fact (Nat.Prime G1.p) := ⟨Dos.Compose.bn256P_prime⟩

abbrev Fp := ZMod G1.p

theorem p_pos : 0 < G1.p := by decide

theorem cast_fadd (a b : Nat) : ((G1.fadd a b : Nat) : Fp) = (a : Fp) + b := by
  simp [G1.fadd, ZMod.natCast_mod]

theorem cast_fmul (a b : Nat) : ((G1.fmul a b : Nat) : Fp) = (a : Fp) * b := by
  simp [G1.fmul, ZMod.natCast_mod]

/-- `fsub` is subtraction when the subtrahend is at most `p` (all callers pass reduced values) -/
theorem cast_fsub (a b : Nat) (hb : b ≤ G1.p) : ((G1.fsub a b : Nat) : Fp) = (a : Fp) - b := by
  simp only [G1.fsub, ZMod.natCast_mod, Nat.cast_add, Nat.cast_sub hb, ZMod.natCast_self]
  ring

theorem cast_finv (a : Nat) : ((G1.finv a : Nat) : Fp) = (a : Fp)⁻¹ := by
  unfold G1.finv
  rw [Zq.powMod_eq, ZMod.natCast_mod, Nat.cast_pow, ZMod.natCast_mod]
  by_cases h0 : (a : Fp) = 0
  · rw [h0, inv_zero]; exact zero_pow (by decide)
  · have h1 : (a : Fp) ^ (G1.p - 1) = 1 := ZMod.pow_card_sub_one_eq_one h0
    have h2 : (a : Fp) ^ (G1.p - 2) * a = 1 := by
      rw [← pow_succ]
      have : G1.p - 2 + 1 = G1.p - 1 := by decide
      rw [this]; exact h1
    exact eq_inv_of_mul_eq_one_left h2

theorem fadd_lt (a b : Nat) : G1.fadd a b < G1.p := Nat.mod_lt _ p_pos
theorem fsub_lt (a b : Nat) : G1.fsub a b < G1.p := Nat.mod_lt _ p_pos
theorem fmul_lt (a b : Nat) : G1.fmul a b < G1.p := Nat.mod_lt _ p_pos

theorem cast_eq_iff {a b : Nat} (ha : a < G1.p) (hb : b < G1.p) : (a : Fp) = b ↔ a = b := by
  rw [ZMod.natCast_eq_natCast_iff', Nat.mod_eq_of_lt ha, Nat.mod_eq_of_lt hb]

theorem cast_eq_zero_iff {a : Nat} (ha : a < G1.p) : (a : Fp) = 0 ↔ a = 0 := by
  have := cast_eq_iff ha p_pos
  simpa using this

theorem two_ne_zero_Fp : (2 : Fp) ≠ 0 := by
  intro h
  have : ((2 : Nat) : Fp) = 0 := by exact_mod_cast h
  rw [ZMod.natCast_eq_zero_iff] at this
  exact absurd (Nat.le_of_dvd (by decide) this) (by decide)

theorem three_ne_zero_Fp : (3 : Fp) ≠ 0 := by
  intro h
  have : ((3 : Nat) : Fp) = 0 := by exact_mod_cast h
  rw [ZMod.natCast_eq_zero_iff] at this
  exact absurd (Nat.le_of_dvd (by decide) this) (by decide)

theorem good3 : Good (3 : Fp) := ⟨two_ne_zero_Fp, three_ne_zero_Fp, three_ne_zero_Fp⟩

/-- a valid element of the driver's G1: infinity, or reduced coordinates on the curve -/
def Valid : Pt → Prop
  | .inf => True
  | .aff x y => x < G1.p ∧ y < G1.p ∧ G1.onCurve x y = true

def cT : Pt → APt Fp
  | .inf => .inf
  | .aff x y => .aff (x : Fp) (y : Fp)

theorem onCurve_iff (x y : Nat) : G1.onCurve x y = true ↔ (y : Fp) ^ 2 = (x : Fp) ^ 3 + 3 := by
  simp only [G1.onCurve, beq_iff_eq]
  constructor
  · intro h
    have := congrArg (fun n : Nat => (n : Fp)) h
    simp only [cast_fadd, cast_fmul] at this
    push_cast at this
    linear_combination this
  · intro h
    apply (cast_eq_iff (fmul_lt _ _) (fadd_lt _ _)).1
    simp only [cast_fadd, cast_fmul]
    push_cast
    linear_combination h

theorem cT_onCurve {P : Pt} (h : Valid P) : (cT P).OnCurve (3 : Fp) := by
  cases P with
  | inf => trivial
  | aff x y => exact (onCurve_iff x y).1 h.2.2

theorem cT_inj {P Q : Pt} (hP : Valid P) (hQ : Valid Q) (h : cT P = cT Q) : P = Q := by
  cases P with
  | inf => cases Q with
    | inf => rfl
    | aff x y => simp [cT] at h
  | aff x y => cases Q with
    | inf => simp [cT] at h
    | aff x' y' =>
      simp only [cT, APt.aff.injEq] at h
      rw [(cast_eq_iff hP.1 hQ.1).1 h.1, (cast_eq_iff hP.2.1 hQ.2.1).1 h.2]

theorem cT_neg (P : Pt) (hP : Valid P) : cT (G1.neg P) = aneg (cT P) := by
  cases P with
  | inf => rfl
  | aff x y =>
    simp only [G1.neg, cT, aneg, cast_fsub 0 y (Nat.le_of_lt hP.2.1)]
    simp

theorem cT_add (P Q : Pt) (hP : Valid P) (hQ : Valid Q) : cT (G1.add P Q) = aadd (cT P) (cT Q) := by
  cases P with
  | inf => cases Q <;> rfl
  | aff x1 y1 =>
    cases Q with
    | inf => rfl
    | aff x2 y2 =>
      obtain ⟨hx1, hy1, _⟩ := hP
      obtain ⟨hx2, hy2, _⟩ := hQ
      by_cases hx : x1 = x2
      · subst hx
        by_cases hy : y1 = y2
        · subst hy
          by_cases h0 : y1 = 0
          · subst h0
            simp [G1.add, cT, aadd, adbl]
          · have h0' : (y1 : Fp) ≠ 0 := fun h => h0 ((cast_eq_zero_iff hy1).1 h)
            simp only [G1.add, if_true, true_and, h0, ne_eq, not_false_eq_true, cT, aadd, adbl, h0', if_false]
            have e1 : ((G1.fmul 2 y1 : Nat) : Fp) = 2 * y1 := by rw [cast_fmul]; norm_cast
            congr 1
            · rw [cast_fsub _ _ (Nat.le_of_lt hx1), cast_fsub _ _ (Nat.le_of_lt hx1)]
              simp only [cast_fmul, cast_finv, div_eq_mul_inv]
              push_cast; ring
            · rw [cast_fsub _ _ (Nat.le_of_lt hy1), cast_fmul, cast_fsub _ _ (Nat.le_of_lt (fsub_lt _ _)),
                cast_fsub _ _ (Nat.le_of_lt hx1), cast_fsub _ _ (Nat.le_of_lt hx1)]
              simp only [cast_fmul, cast_finv, div_eq_mul_inv]
              push_cast; ring
        · have hy' : (y1 : Fp) ≠ y2 := fun h => hy ((cast_eq_iff hy1 hy2).1 h)
          simp [G1.add, hy, cT, aadd, hy']
      · have hx' : (x1 : Fp) ≠ x2 := fun h => hx ((cast_eq_iff hx1 hx2).1 h)
        simp only [G1.add, hx, if_false, cT, aadd, hx']
        congr 1
        · rw [cast_fsub _ _ (Nat.le_of_lt hx2), cast_fsub _ _ (Nat.le_of_lt hx1)]
          simp only [cast_fmul, cast_finv, cast_fsub _ _ (Nat.le_of_lt hy1),
            cast_fsub _ _ (Nat.le_of_lt hx1), div_eq_mul_inv]
          ring
        · rw [cast_fsub _ _ (Nat.le_of_lt hy1), cast_fmul, cast_fsub _ _ (Nat.le_of_lt (fsub_lt _ _)),
            cast_fsub _ _ (Nat.le_of_lt hx2), cast_fsub _ _ (Nat.le_of_lt hx1)]
          simp only [cast_fmul, cast_finv, cast_fsub _ _ (Nat.le_of_lt hy1),
            cast_fsub _ _ (Nat.le_of_lt hx1), div_eq_mul_inv]
          ring

def Reduced : Pt → Prop
  | .inf => True
  | .aff x y => x < G1.p ∧ y < G1.p

/-- results of `add` have reduced coordinates -/
theorem add_reduced (P Q : Pt) (hP : Valid P) (hQ : Valid Q) : Reduced (G1.add P Q) := by
  cases P with
  | inf => cases Q with
    | inf => trivial
    | aff x y => exact ⟨hQ.1, hQ.2.1⟩
  | aff x1 y1 =>
    cases Q with
    | inf => exact ⟨hP.1, hP.2.1⟩
    | aff x2 y2 =>
      simp only [G1.add]
      split_ifs
      · exact ⟨fsub_lt _ _, fsub_lt _ _⟩
      · trivial
      · exact ⟨fsub_lt _ _, fsub_lt _ _⟩

/-- **closure + homomorphism** for the driver's addition -/
theorem valid_add (P Q : Pt) (hP : Valid P) (hQ : Valid Q) :
    Valid (G1.add P Q) ∧ toPoint 3 (cT (G1.add P Q)) = toPoint 3 (cT P) + toPoint 3 (cT Q) := by
  obtain ⟨hc, hp⟩ := aadd_spec good3 _ _ (cT_onCurve hP) (cT_onCurve hQ)
  rw [← cT_add P Q hP hQ] at hc hp
  refine ⟨?_, hp⟩
  have hr := add_reduced P Q hP hQ
  cases h : G1.add P Q with
  | inf => trivial
  | aff x y =>
    rw [h] at hr hc
    exact ⟨hr.1, hr.2, (onCurve_iff x y).2 hc⟩

theorem valid_neg (P : Pt) (hP : Valid P) :
    Valid (G1.neg P) ∧ toPoint 3 (cT (G1.neg P)) = -toPoint 3 (cT P) := by
  obtain ⟨hc, hp⟩ := aneg_spec good3 _ (cT_onCurve hP)
  rw [← cT_neg P hP] at hc hp
  refine ⟨?_, hp⟩
  cases P with
  | inf => trivial
  | aff x y => exact ⟨hP.1, fsub_lt _ _, (onCurve_iff _ _).2 hc⟩

/-- what `UnmarshalBinary` accepts is a valid element -/
theorem decode_valid (b : Bytes) (P : Pt) (h : G1.decode b = some P) : Valid P := by
  unfold G1.decode at h
  split at h
  · cases h
  · simp only at h
    split at h
    · cases h
    · rename_i hlt
      split at h
      · cases h; trivial
      · split at h
        · rename_i hc
          cases h
          exact ⟨by omega, by omega, hc⟩
        · cases h

theorem p_lt_256_32 : G1.p < 256 ^ 32 := by decide

/-- the codec reads back what it writes, for every valid element -/
theorem decode_encode (P : Pt) (hP : Valid P) : G1.decode (G1.encode P) = some P := by
  cases P with
  | inf =>
    have h0 : beNat (List.replicate 32 (0 : UInt8)) = 0 := CodecBytes.beNat_replicate_zero 32
    have e1 : (List.replicate 64 (0 : UInt8)).take 32 = List.replicate 32 0 := by decide
    have e2 : ((List.replicate 64 (0 : UInt8)).drop 32).take 32 = List.replicate 32 0 := by decide
    simp only [G1.encode, G1.decode, List.length_replicate, e1, e2, h0]
    simp [Nat.ne_of_gt p_pos]
  | aff x y =>
    obtain ⟨hx, hy, hc⟩ := hP
    have hlen : (natBE 32 x ++ natBE 32 y).length = 64 := by
      rw [List.length_append, CodecBytes.natBE_length, CodecBytes.natBE_length]
    have e1 : (natBE 32 x ++ natBE 32 y).take 32 = natBE 32 x := by
      rw [List.take_left' (CodecBytes.natBE_length 32 x)]
    have e2 : ((natBE 32 x ++ natBE 32 y).drop 32).take 32 = natBE 32 y := by
      rw [List.drop_left' (CodecBytes.natBE_length 32 x), List.take_of_length_le (by rw [CodecBytes.natBE_length])]
    have bx : beNat (natBE 32 x) = x := CodecBytes.beNat_natBE 32 x (Nat.lt_trans hx p_lt_256_32)
    have by' : beNat (natBE 32 y) = y := CodecBytes.beNat_natBE 32 y (Nat.lt_trans hy p_lt_256_32)
    have hne : ¬ (x = 0 ∧ y = 0) := by
      rintro ⟨rfl, rfl⟩
      revert hc; decide
    simp only [G1.encode, G1.decode, hlen, e1, e2, bx, by']
    simp [Nat.not_le.2 hx, Nat.not_le.2 hy, hne, hc]

end Dos.Compose.TG1

import DosModel.Model.Dispatch
import DosModel.Model.ConnTableCfg
import DosModel.Model.ConnTableDrv
import DosModel.Gen.P2PFlow
def c17Step (line : String) : String :=
  match Dos.words line with
  | ["hist", peers, steps] => Dos.ConnTable.stepHist Dos.ConnTable.Cfg.code peers steps
  | _ => Dos.Dispatch.driverStep (Dos.Gen.handshakeDeadline && Dos.Gen.mergeErrorsReleases) Dos.Gen.dialBounded
      (Dos.Gen.decodeVerifiesFirst || Dos.Gen.decodePipeVerifiesAgain) line
def main : IO Unit := Dos.lineLoop c17Step

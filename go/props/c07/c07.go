// Package c07: what a member signs. The real content stages of
// dosnode/dos_stages.go (genSysRandom, genUserRandom, genQueryResult with
// dataFetch from a local HTTP server and dataParse, choseSubmitter, padOrTrim,
// and the strip inside recoverSign) are run on generated requests; every case
// is evaluated 8× sequentially and from 8 goroutines sharing the inputs.
//
// Case lines (numbers decimal, bytes hex, "-" = empty):
//
//	pad <bytes> <size>
//	sys <lastRand> <addr>              genSysRandom(lastRand.Bytes())
//	sysraw <bytes> <addr>              genSysRandom(raw bytes, e.g. with leading zero bytes)
//	user <reqId> <lastRand> <seed> <addr>
//	userraw <b1> <b2> <b3> <addr>
//	submitter <lastRand> <n>
//	strip <content>                    recoverSign on a 1-of-1 group: what is reported for a signed content
//	query <kind> <parsed|err|panic> <addr> <doc> <selector>
//	                                   parsed = what dataParse returned when the case was generated
//	                                   (the model takes the parse result as an input: ajson/xmlquery are not modelled)
//	threshold <n>                      (model side only: compared with the regenerated expression by a theorem)
//	cq … (conc.go), subm … / grp … (group.go), path … (path.go): round 4
//	pm … (members.go), fetch … (fetch.go): round 5
package c07

import (
	"bytes"
	"context"
	"encoding/hex"
	"encoding/json"
	"fmt"
	"math/big"
	"net/http"
	"net/http/httptest"
	"os"
	"strconv"
	"strings"
	"sync"
	"time"

	"github.com/DOSNetwork/core/dosnode"
	"github.com/DOSNetwork/core/log"
	"github.com/DOSNetwork/core/share"
	vss "github.com/DOSNetwork/core/share/vss/pedersen"
	"github.com/DOSNetwork/core/sign/tbls"
	"github.com/DOSNetwork/core/suites"

	"verifharness/internal/doubles"
	"verifharness/internal/h"
)

func init() {
	log.Init([]byte{0xc0, 0x7})
	h.Register(&h.Prop{
		ID: "C07",
		Rule: "cases: sys/sysraw (lastRand 0, <2^64, >2^64, every count 0..32 of leading zero bytes, 2^256-1, >2^256), user, submitter (n 1..21 and 3..7 for every residue), pad (lengths 0..40 x sizes), " +
			"strip (real recoverSign on a 1-of-1 group), query (grammar-generated JSON/XML documents and JSONPath/XPath selectors through a local HTTP server, plus a malformed stream); " +
			"each evaluated 8x sequentially and by 8 goroutines sharing the inputs; " +
			"cq (round 4): XPath selectors from the engine's feature set (axes, positional/comparison predicates, every string function with node-set and literal arguments, count/sum/position/last, not/and/or, unions, attributes, text()) and JSONPath (filters, slices, recursive descent, wildcards, scripts) over generated feeds of 3..400 items: one sequential reference, then G=2..16 goroutines released on a barrier x N=4..16 evaluations through dataParse and genQueryResult (same selector / two selectors on one document / one selector on two documents / JSON and XML together), every result compared with the reference after all finished; " +
			"subm (explicit unsorted member lists with duplicates, 1..300 members), grp (LogGrouping / dissolve histories through the real handleGrouping and pdkg group table, then choseSubmitter), path (content stage -> genSign -> recoverSign -> reportQueryResult for the three kinds); " +
			"round 5: pm (n = 1..7 real DosNodes with queryLoop, real choseSubmitter -> content stage -> genSign -> dispatchSign -> recoverSign -> reportQueryResult, the data source serving members differently: other document / selector error / cut connection / cut body / over-long body at the submitter only, at one non-submitter, at n-t and n-t+1 members), fetch (dataFetch at 16 MiB - 1, 16 MiB, 16 MiB + 1, cut transfers), depth (JSON arrays / objects / brackets inside a string and XML elements nested 1, 2, 999, 1000, 1001, 1002, 5000 deep through dataParse), grpk (member list of every member after a COMPLETED key generation of 3..4 real pdkg), grpd (announce / key generation completed or not / LogGroupDissolve through the real onchainLoop / re-announce in another order / request event, on 3..4 real DosNodes around real pdkg), evs (event sequences through the real onchainLoop -> groupInfo -> handleQuery of one member of a 1..300 member group, request events directly followed by commit-reveal / other events; event objects compared with the emitted values afterwards); " +
			"non-trivial = anything but a 32-byte lastRand without leading zero / an empty selector; distinct = distinct case line",
		Gen:  gen,
		Exec: exec,
	})
}

var (
	quiet  = doubles.NewLogger()
	suite  = suites.MustFind("bn256")
	two64  = new(big.Int).Lsh(big.NewInt(1), 64)
	two256 = new(big.Int).Lsh(big.NewInt(1), 256)
)

// ---------------------------------------------------------------- real code, one evaluation

// The stage functions return the LIVE slice the real code handed out (not a copy) and a tag
// ("" = a value): the caller keeps it and looks at it again after later evaluations.
func stageSys(last, addr []byte) ([]byte, string) {
	sc := make(chan []byte, 1)
	sc <- addr
	close(sc)
	v, ok := <-dosnode.VerifGenSysRandom(context.Background(), sc, last, quiet)
	if !ok {
		return nil, "closed"
	}
	return v, ""
}

func stageUser(q, r, s, addr []byte) ([]byte, string) {
	sc := make(chan []byte, 1)
	sc <- addr
	close(sc)
	v, ok := <-dosnode.VerifGenUserRandom(context.Background(), sc, q, r, s, quiet)
	if !ok {
		return nil, "closed"
	}
	return v, ""
}

func mkIDs(n int) [][]byte {
	ids := make([][]byte, n)
	for i := range ids {
		id := make([]byte, 20)
		id[0], id[1], id[19] = 0xd0, byte(i>>8), byte(i)
		ids[i] = id
	}
	return ids
}

func stageSubmitter(r *big.Int, ids [][]byte) ([]byte, string) {
	outs, errc := dosnode.VerifChoseSubmitter(context.Background(), nil, nil, r, ids, 2, quiet)
	a, b := <-outs[0], <-outs[1]
	for range errc {
	}
	if !bytes.Equal(a, b) {
		return nil, "outs-differ"
	}
	return a, ""
}

func idxOf(ids [][]byte, a []byte) string {
	for i, id := range ids {
		if bytes.Equal(id, a) {
			return "idx " + strconv.Itoa(i)
		}
	}
	return "not-a-member"
}

var (
	srvOnce sync.Once
	srv     *httptest.Server
	docs    sync.Map
	docSeq  int64
	docMu   sync.Mutex
)

func docURL(doc []byte) string {
	srvOnce.Do(func() {
		srv = httptest.NewServer(http.HandlerFunc(func(w http.ResponseWriter, r *http.Request) {
			if v, ok := docs.Load(r.URL.Path); ok {
				w.Write(v.([]byte))
				return
			}
			if specialPath(w, r) { // members.go: cut connection, cut body, over-long body
				return
			}
			w.WriteHeader(404)
		}))
	})
	docMu.Lock()
	docSeq++
	k := "/d" + strconv.FormatInt(docSeq, 10)
	docMu.Unlock()
	docs.Store(k, doc)
	return srv.URL + k
}

func parseLive(doc []byte, sel string) (v []byte, tag string) {
	defer func() {
		if e := recover(); e != nil {
			v, tag = nil, "panic"
		}
	}()
	v, err := dosnode.VerifDataParse(doc, sel)
	if err != nil {
		return nil, "err"
	}
	return v, ""
}

func parseOnce(doc []byte, sel string) string {
	v, tag := parseLive(doc, sel)
	if tag != "" {
		return tag
	}
	return h.Hex(v)
}

// stageQuery: the real genQueryResult (HTTP fetch + dataParse + append submitter)
func stageQuery(url, sel string, addr []byte) ([]byte, string) {
	sc := make(chan []byte, 1)
	sc <- addr
	close(sc)
	out, errc := dosnode.VerifGenQueryResult(context.Background(), sc, url, sel, quiet)
	var res []byte
	tag := "closed"
	for out != nil || errc != nil {
		select {
		case v, ok := <-out:
			if !ok {
				out = nil
			} else {
				res, tag = v, ""
			}
		case e, ok := <-errc:
			if !ok {
				errc = nil
			} else if e != nil {
				res, tag = nil, "err parse"
			}
		}
	}
	return res, tag
}

type group1 struct {
	pub *share.PubPoly
	sec *share.PriShare
}

var (
	g1Once sync.Once
	g1     group1
)

func oneOfOne() group1 {
	g1Once.Do(func() {
		pri := share.NewPriPoly(suite.G2(), 1, nil, suite.RandomStream())
		g1 = group1{pub: pri.Commit(suite.G2().Point().Base()), sec: pri.Shares(1)[0]}
	})
	return g1
}

// stageStrip: what recoverSign reports for a content signed by the whole (1-of-1) group
func stageStrip(content []byte) string {
	g := oneOfOne()
	sig, err := tbls.Sign(suite, g.sec, content)
	if err != nil {
		return "err sign"
	}
	ctx, cancel := context.WithCancel(context.Background())
	defer cancel()
	in := make(chan *vss.Signature, 1)
	in <- &vss.Signature{Index: 1, RequestId: []byte{1}, Content: content, Signature: sig}
	close(in) // nothing else will come: a skipped share makes the stage return without output
	out, errc := dosnode.VerifRecoverSign(ctx, in, suite, g.pub, 1, 1, quiet)
	go func() {
		for range errc {
		}
	}()
	select {
	case v, ok := <-out:
		if !ok {
			return "skipped"
		}
		return "ok " + h.Hex(v.Content)
	case <-time.After(10 * time.Second):
		return "timeout"
	}
}

// ---------------------------------------------------------------- determinism wrapper

type evaluation struct {
	live []byte // the slice the real code returned, still referenced
	copy []byte // its value when it was returned
	tag  string
}

func keep(live []byte, tag string) evaluation {
	return evaluation{live: live, copy: append([]byte(nil), live...), tag: tag}
}

// det evaluates f 8 times in sequence and then from 8 goroutines, with evaluations of OTHER
// inputs (disturb) in between and in flight at the same time. Every returned slice is kept alive
// and compared with the copy taken when it was returned only after all evaluations have finished:
// a result that aliases storage reused by a later evaluation (a pooled buffer, a shared backing
// array) is seen to change. Returns the first result and a description of any difference.
func det(f func() ([]byte, string), disturb func()) (evaluation, string) {
	return detN(f, disturb, 8, 8)
}

// detN: nseq sequential and nconc concurrent evaluations (det: 8 + 8)
func detN(f func() ([]byte, string), disturb func(), nseq, nconc int) (evaluation, string) {
	var rs []evaluation
	for i := 0; i < nseq; i++ {
		rs = append(rs, keep(f()))
		if disturb != nil {
			disturb()
		}
	}
	var wg sync.WaitGroup
	conc := make([]evaluation, nconc)
	for i := range conc {
		wg.Add(1)
		go func(i int) { defer wg.Done(); conc[i] = keep(f()) }(i)
		if disturb != nil && i%2 == 0 {
			wg.Add(1)
			go func() { defer wg.Done(); disturb() }()
		}
	}
	wg.Wait()
	rs = append(rs, conc...)
	if disturb != nil {
		disturb()
	}
	first := rs[0]
	for i, r := range rs {
		how := "sequential"
		if i >= nseq {
			how = "concurrent"
		}
		if r.tag != first.tag || !bytes.Equal(r.copy, first.copy) {
			return first, fmt.Sprintf("nondeterministic: %s evaluation %d gave %s %.80s, the first gave %s %.80s", how, i, r.tag, h.Hex(r.copy), first.tag, h.Hex(first.copy))
		}
		if !bytes.Equal(r.live, r.copy) {
			return first, fmt.Sprintf("result-aliased: the value returned by %s evaluation %d changed while later evaluations ran (returned %.80s, now %.80s)", how, i, h.Hex(r.copy), h.Hex(r.live))
		}
	}
	return first, ""
}

func (e evaluation) String() string {
	if e.tag != "" {
		return e.tag
	}
	return h.Hex(e.copy)
}

// other inputs evaluated in between (different lengths, both selector languages)
var (
	otherDocs = [][2]string{
		{`<root><item id="9">a much longer text node than usual, to move the buffer</item><item>z</item><q>1</q></root>`, "//item"},
		{`<r><q>7</q></r>`, "/r/q"},
		{`{"a":[1,2,3,{"b":"cccccccccccccccccccccccccccccccc"}],"k":"v"}`, "$..b"},
		{`<r><a>1</a><a>22</a><a>333</a><a>4444</a></r>`, "//a/text()"},
	}
	otherURLs  []string
	otherOnce  sync.Once
	otherAddr  = bytes.Repeat([]byte{0x5a}, 20)
	disturbSeq uint32
	disturbMu  sync.Mutex
)

func disturbQuery() {
	otherOnce.Do(func() {
		for _, d := range otherDocs {
			otherURLs = append(otherURLs, docURL([]byte(d[0])))
		}
	})
	disturbMu.Lock()
	disturbSeq++
	k := int(disturbSeq) % len(otherDocs)
	disturbMu.Unlock()
	parseLive([]byte(otherDocs[k][0]), otherDocs[k][1])
	stageQuery(otherURLs[k], otherDocs[k][1], otherAddr)
}

func disturbStages() {
	disturbMu.Lock()
	disturbSeq++
	k := int(disturbSeq)
	disturbMu.Unlock()
	b := bytes.Repeat([]byte{byte(k)}, 1+k%45)
	dosnode.VerifPadOrTrim(b, 32)
	stageSys(b, otherAddr)
	stageUser(b, b[:len(b)/2], b, otherAddr)
}

func exact(b []byte) []byte { // capacity == length, as big.Int.Bytes() returns it
	c := make([]byte, len(b))
	copy(c, b)
	return c[:len(c):len(c)]
}

func unchanged(name string, now, before []byte) string {
	if !bytes.Equal(now, before) {
		return "input-modified: " + name + " was changed by the evaluation"
	}
	return ""
}

func first(ss ...string) string {
	for _, s := range ss {
		if s != "" {
			return s
		}
	}
	return ""
}

// minimal big-endian bytes of v computed without big.Int.Bytes (via the hex text)
func minBytes(v *big.Int) []byte {
	if v.Sign() == 0 {
		return nil
	}
	t := v.Text(16)
	if len(t)%2 == 1 {
		t = "0" + t
	}
	b, _ := hex.DecodeString(t)
	return b
}

// ---------------------------------------------------------------- exec

func exec(line string) (res h.Result) {
	w := strings.Fields(line)
	res.Class = w[0]
	res.Nontrivial = true
	switch w[0] {
	case "pad":
		bb, size := exact(h.UnHex(w[1])), h.Atoi(w[2])
		keep := exact(bb)
		e, o := det(func() ([]byte, string) { return dosnode.VerifPadOrTrim(bb, size), "" }, disturbStages)
		res.Impl = e.String()
		out := e.copy
		var o2 string
		if len(out) != size {
			o2 = fmt.Sprintf("pad-length: padOrTrim returned %d bytes for size %d", len(out), size)
		} else if new(big.Int).SetBytes(out).Cmp(new(big.Int).Mod(new(big.Int).SetBytes(keep), new(big.Int).Lsh(big.NewInt(1), uint(8*size)))) != 0 {
			o2 = "pad-value: the big-endian value is not preserved modulo 2^(8*size)"
		}
		res.Oracle = first(o, unchanged("bb", bb, keep), o2)
		res.Class = fmt.Sprintf("pad len%s size", cmpClass(len(keep), size))
	case "sys", "sysraw":
		var last []byte
		var r *big.Int
		if w[0] == "sys" {
			r = h.BigDec(w[1])
			last = r.Bytes()
		} else {
			last = exact(h.UnHex(w[1]))
			r = new(big.Int).SetBytes(last)
		}
		addr := exact(h.UnHex(w[2]))
		keepL, keepA := exact(last), exact(addr)
		e, o := det(func() ([]byte, string) { return stageSys(last, addr) }, disturbStages)
		res.Impl = e.String()
		out := e.copy
		var o2 string
		switch {
		case len(out) != 32+len(keepA):
			o2 = fmt.Sprintf("sys-length: signed message has %d bytes, expected 32+%d", len(out), len(keepA))
		case !bytes.Equal(out[32:], keepA):
			o2 = "sys-suffix: the signed message does not end with the submitter address"
		case new(big.Int).SetBytes(out[:32]).Cmp(new(big.Int).Mod(r, two256)) != 0:
			o2 = "sys-prefix: the first 32 bytes are not the big-endian last randomness"
		}
		res.Oracle = first(o, unchanged("lastSysRand", last, keepL), unchanged("submitter", addr, keepA), o2)
		res.Class = w[0] + " len" + cmpClass(len(keepL), 32) + "32"
		res.Nontrivial = len(keepL) != 32 || keepL[0] == 0
	case "user", "userraw":
		var q, r, s []byte
		if w[0] == "user" {
			q, r, s = h.BigDec(w[1]).Bytes(), h.BigDec(w[2]).Bytes(), h.BigDec(w[3]).Bytes()
		} else {
			q, r, s = exact(h.UnHex(w[1])), exact(h.UnHex(w[2])), exact(h.UnHex(w[3]))
		}
		addr := exact(h.UnHex(w[4]))
		kq, kr, ks, ka := exact(q), exact(r), exact(s), exact(addr)
		e, o := det(func() ([]byte, string) { return stageUser(q, r, s, addr) }, disturbStages)
		res.Impl = e.String()
		var want []byte
		if w[0] == "user" {
			want = append(append(append(append(want, minBytes(h.BigDec(w[1]))...), minBytes(h.BigDec(w[2]))...), minBytes(h.BigDec(w[3]))...), ka...)
		} else {
			want = append(append(append(append(want, kq...), kr...), ks...), ka...)
		}
		var o2 string
		if e.tag != "" || !bytes.Equal(e.copy, want) {
			o2 = "user-content: signed message is not requestId || lastRand || seed || submitter"
		}
		res.Oracle = first(o, unchanged("requestId", q, kq), unchanged("lastSysRand", r, kr), unchanged("userSeed", s, ks), unchanged("submitter", addr, ka), o2)
	case "submitter":
		r, n := h.BigDec(w[1]), h.Atoi(w[2])
		ids := mkIDs(n)
		keep := new(big.Int).Set(r)
		e, o := det(func() ([]byte, string) { return stageSubmitter(r, ids) }, nil)
		res.Impl = e.tag
		if e.tag == "" {
			res.Impl = idxOf(ids, e.copy)
		}
		want := new(big.Int).Mod(new(big.Int).And(keep, new(big.Int).Sub(two64, big.NewInt(1))), big.NewInt(int64(n)))
		var o2 string
		if res.Impl != "idx "+want.String() {
			o2 = fmt.Sprintf("submitter-index: chose %s, the low 64 bits of the last randomness mod %d are %s", res.Impl, n, want)
		}
		if r.Cmp(keep) != 0 {
			o2 = "input-modified: lastSysRand was changed by choseSubmitter"
		}
		res.Oracle = first(o, o2)
		res.Class = "submitter " + map[bool]string{true: ">=2^64", false: "<2^64"}[keep.Cmp(two64) >= 0]
	case "strip":
		c := exact(h.UnHex(w[1]))
		keep := exact(c)
		res.Impl = stageStrip(c)
		var o2 string
		if len(keep) >= 20 && res.Impl != "ok "+h.Hex(keep[:len(keep)-20]) {
			o2 = "strip: the reported result is not the signed message without its last 20 bytes"
		}
		if len(keep) < 20 && res.Impl != "skipped" {
			o2 = "strip-short: a signed message shorter than an address produced " + res.Impl
		}
		res.Oracle = first(unchanged("content", c, keep), o2)
	case "query":
		kind, parsed, addr, doc, sel := w[1], w[2], exact(h.UnHex(w[3])), exact(h.UnHex(w[4])), string(h.UnHex(w[5]))
		keepD, keepA := exact(doc), exact(addr)
		ge, o := det(func() ([]byte, string) { return parseLive(doc, sel) }, disturbQuery)
		got := ge.String()
		var o2 string
		if got != parsed {
			o2 = fmt.Sprintf("nondeterministic: dataParse gives %.60s now, gave %.60s when the case was generated", got, parsed)
		}
		if strings.HasPrefix(sel, "$") && ge.tag == "" && o2 == "" {
			o2 = jsonArrayShape(ge.copy)
		}
		res.Class = "query " + kind + " " + map[bool]string{true: "value", false: parsed}[parsed != "err" && parsed != "panic"]
		res.Nontrivial = sel != ""
		switch got {
		case "panic":
			res.Impl = "panic parse"
		default:
			url := docURL(doc)
			// through the stage (an HTTP fetch per evaluation): 4 + 4 evaluations – the 8 + 8 above are on
			// dataParse itself, and the cq cases run genQueryResult from up to 16 goroutines at once. (Cost:
			// the query cases were 3/4 of the run time and the part most sensitive to machine load.)
			se, o3 := detN(func() ([]byte, string) { return stageQuery(url, sel, addr) }, disturbQuery, 4, 4)
			res.Impl = se.String()
			o = first(o, o3)
			if got != "err" {
				want := append(exact(ge.copy), keepA...)
				if (se.tag != "" || !bytes.Equal(se.copy, want)) && o2 == "" {
					o2 = "query-content: signed message is not the selected result followed by the submitter address"
				}
			} else if res.Impl != "err parse" && o2 == "" {
				o2 = "query-content: dataParse fails but the stage produced " + res.Impl
			}
		}
		res.Oracle = first(o, unchanged("document", doc, keepD), unchanged("submitter", addr, keepA), o2)
	case "cq":
		return execCQ(w)
	case "subm":
		return execSubm(w)
	case "grp":
		return execGrp(w)
	case "path":
		return execPath(w)
	case "pm":
		return execPM(w)
	case "grpk":
		return execGrpK(w)
	case "depth":
		return execDepth(w)
	case "grpd":
		return execGrpD(w)
	case "evs":
		return execEvs(w)
	case "fetch":
		return execFetch(w)
	case "threshold":
		n := h.Atoi(w[1])
		res.Impl = strconv.Itoa(n/2 + 1)
		res.Nontrivial = false
	default:
		panic("bad case line")
	}
	return
}

// jsonArrayShape: the result of a `$` selector is json.Marshal of the LIST of selected values: one
// JSON array, its elements separated by single commas, nothing around it (encoding/json of the standard
// library decodes it; the elements re-joined give the result back byte for byte). The driver cuts the
// recorded result at the same commas and re-assembles it with the model's jsonAssemble.
func jsonArrayShape(b []byte) string {
	var els []json.RawMessage
	if err := json.Unmarshal(b, &els); err != nil || els == nil {
		return fmt.Sprintf("json-assembly: the result of a JSONPath selector is not a JSON array: %.80s", b)
	}
	parts := make([][]byte, len(els))
	for i, e := range els {
		parts[i] = e
	}
	if again := append(append([]byte("["), bytes.Join(parts, []byte(","))...), ']'); !bytes.Equal(again, b) {
		return fmt.Sprintf("json-assembly: the result is not '[' + the selected values separated by ',' + ']': %.80s", b)
	}
	return ""
}

func cmpClass(a, b int) string {
	switch {
	case a < b:
		return "<"
	case a > b:
		return ">"
	}
	return "="
}

// ---------------------------------------------------------------- generation

func randAddr(rng *h.Rng) []byte {
	a := rng.Bytes(20)
	switch rng.Intn(8) {
	case 0:
		a[0] = 0
	case 1:
		a[19] = 0
	case 2:
		for i := range a {
			a[i] = 0xff
		}
	}
	return a
}

// interesting last-randomness values
func rands(rng *h.Rng, thorough bool) []*big.Int {
	var out []*big.Int
	add := func(v *big.Int) { out = append(out, v) }
	add(big.NewInt(0))
	add(big.NewInt(1))
	add(big.NewInt(255))
	add(big.NewInt(256))
	add(new(big.Int).Sub(two64, big.NewInt(1)))
	add(new(big.Int).Set(two64))
	add(new(big.Int).Add(two64, big.NewInt(1)))
	add(new(big.Int).Sub(two256, big.NewInt(1)))
	add(new(big.Int).Set(two256))
	add(new(big.Int).Add(two256, big.NewInt(12345)))
	add(new(big.Int).Lsh(big.NewInt(0xabcdef), 300))
	// every number of leading zero bytes 1..31 (value has exactly 32-k significant bytes), top byte small and large
	for k := 0; k <= 32; k++ {
		for _, top := range []byte{1, 0x7f, 0x80, 0xff} {
			b := rng.Bytes(32 - k)
			if len(b) > 0 {
				b[0] = top
			}
			add(new(big.Int).SetBytes(b))
		}
	}
	nr := 3000
	if thorough {
		nr = 30000
	}
	for i := 0; i < nr; i++ {
		b := rng.Bytes(1 + rng.Intn(40))
		add(new(big.Int).SetBytes(b))
	}
	return out
}

func gen(tier string, rng *h.Rng, emit func(string)) {
	if only := os.Getenv("C07_ONLY"); only != "" { // development aid: C07_ONLY=pm,fetch generates only these kinds of lines
		all := emit
		emit = func(l string) {
			for _, k := range strings.Split(only, ",") {
				if strings.HasPrefix(l, k+" ") {
					all(l)
				}
			}
		}
	}
	thorough := tier == "thorough"
	rs := rands(rng, thorough)
	// padOrTrim
	for l := 0; l <= 40; l++ {
		for _, size := range []int{0, 1, 20, 31, 32, 33} {
			b := rng.Bytes(l)
			if l > 0 && rng.Intn(3) == 0 {
				b[0] = 0
			}
			emit(fmt.Sprintf("pad %s %d", h.Hex(b), size))
		}
	}
	// system randomness
	for _, r := range rs {
		emit(fmt.Sprintf("sys %s %s", r, h.Hex(randAddr(rng))))
	}
	for k := 0; k <= 40; k++ { // raw encodings with k leading zero bytes in front of a 1..32 byte value
		for _, l := range []int{0, 1, 31, 32, 33} {
			b := append(make([]byte, k), rng.Bytes(l)...)
			emit(fmt.Sprintf("sysraw %s %s", h.Hex(b), h.Hex(randAddr(rng))))
		}
	}
	for _, al := range []int{0, 1, 19, 21, 32} { // the stage does not check the address length
		emit(fmt.Sprintf("sys %s %s", rs[rng.Intn(len(rs))], h.Hex(rng.Bytes(al))))
	}
	// user randomness
	for i, r := range rs {
		q := rs[rng.Intn(len(rs))]
		s := rs[rng.Intn(len(rs))]
		if i%7 == 0 {
			s = big.NewInt(0)
		}
		emit(fmt.Sprintf("user %s %s %s %s", q, r, s, h.Hex(randAddr(rng))))
	}
	for i := 0; i < 40; i++ {
		emit(fmt.Sprintf("userraw %s %s %s %s", h.Hex(rng.Bytes(rng.Intn(34))), h.Hex(rng.Bytes(rng.Intn(34))), h.Hex(rng.Bytes(rng.Intn(34))), h.Hex(randAddr(rng))))
	}
	// submitter: every residue for n = 3..7, wide n, values above 2^64 whose high bits differ
	for n := 3; n <= 7; n++ {
		for res := 0; res < n; res++ {
			lo := new(big.Int).SetUint64(rng.U64())
			lo.Sub(lo, new(big.Int).Mod(lo, big.NewInt(int64(n))))
			lo.Add(lo, big.NewInt(int64(res)))
			if lo.Cmp(two64) >= 0 {
				lo.Sub(lo, big.NewInt(int64(n)))
			}
			emit(fmt.Sprintf("submitter %s %d", lo, n))
			hi := new(big.Int).Lsh(new(big.Int).SetBytes(rng.Bytes(1+rng.Intn(24))), 64)
			emit(fmt.Sprintf("submitter %s %d", new(big.Int).Add(hi, lo), n))
		}
	}
	for _, r := range rs {
		emit(fmt.Sprintf("submitter %s %d", r, 1+rng.Intn(21)))
	}
	for n := 1; n <= 21; n++ {
		emit(fmt.Sprintf("threshold %d", n))
	}
	// strip (real pairing work: keep it small)
	ns := 40
	if thorough {
		ns = 400
	}
	for i := 0; i < ns; i++ {
		l := 20 + rng.Intn(60)
		switch i {
		case 0:
			l = 20
		case 1:
			l = 21
		case 2:
			l = 52
		case 3:
			l = 4096
		}
		emit("strip " + h.Hex(rng.Bytes(l)))
	}
	for _, l := range []int{0, 1, 19} {
		emit("strip " + h.Hex(rng.Bytes(l)))
	}
	// url queries
	nq := 4000
	if thorough {
		nq = 60000
	}
	for i := 0; i < nq; i++ {
		var kind string
		var doc []byte
		var sel string
		switch {
		case i%10 < 5:
			kind = "json"
			doc = []byte(genJSON(rng, 0))
			sel = genJSONPath(rng)
		case i%10 < 9:
			kind = "xml"
			doc = []byte(genXML(rng))
			sel = genXPath(rng)
		default:
			kind = "raw"
			doc = rng.Bytes(rng.Intn(200))
			sel = ""
		}
		if i%23 == 0 { // malformed stream
			kind += "-malformed"
			switch rng.Intn(4) {
			case 0:
				if len(doc) > 2 {
					doc = doc[:len(doc)/2]
				}
			case 1:
				sel += "["
			case 2:
				sel = "$..[?(@.a >"
			case 3:
				doc = append(doc, rng.Bytes(5)...)
			}
		}
		emit(fmt.Sprintf("query %s %s %s %s %s", kind, parseOnce(doc, sel), h.Hex(randAddr(rng)), h.Hex(doc), h.Hex([]byte(sel))))
	}
	// round 4: concurrent evaluation with the rich selector grammar (conc.go)
	genCQ(tier, rng, emit)
	// round 4: explicit member lists and the group table (group.go)
	genGroup(tier, rng, emit)
	// round 4: content stage -> genSign -> recoverSign -> reportQueryResult (path.go)
	genPath(tier, rng, emit)
	// round 5: the same path in a group of n members with per-member failures of the content stage (members.go)
	genPM(tier, rng, emit)
	// round 5: the document bound of dataFetch at its boundary (fetch.go)
	genFetch(tier, rng, emit)
	// round 5: the member list after a COMPLETED key generation (groupk.go)
	genGrpK(tier, rng, emit)
	genGrpD(tier, rng, emit)
	// round 5: the nesting bound of dataParse at 1000 / 1001 levels (depth.go)
	genDepth(tier, rng, emit)
	// round 5: event sequences through the real onchainLoop of one member (events.go)
	genEvs(tier, rng, emit)
}

// ---- grammars

var keyPool = []string{"a", "b", "c", "id", "name", "price", "items", "data", "x", "y", "z", "k1", "k2", "k10", "Z", "_", "ä", "key with space"}

func genKey(rng *h.Rng) string {
	if rng.Intn(6) == 0 {
		return "r" + strconv.Itoa(rng.Intn(1000))
	}
	return keyPool[rng.Intn(len(keyPool))]
}

func genString(rng *h.Rng) string {
	pool := []string{"", "x", "hello", "a\\\"b", "line\\nbreak", "\\u00e9", "Ünï", "0", "true", "<tag>", "a,b", "  spaced  ", "\\\\", "日本"}
	return `"` + pool[rng.Intn(len(pool))] + `"`
}

func genNumber(rng *h.Rng) string {
	switch rng.Intn(8) {
	case 0:
		return "0"
	case 1:
		return "-1"
	case 2:
		return strconv.Itoa(rng.Intn(1000))
	case 3:
		return fmt.Sprintf("%d.%d", rng.Intn(100), rng.Intn(1000))
	case 4:
		return fmt.Sprintf("%de%d", 1+rng.Intn(9), rng.Intn(20))
	case 5:
		return "12345678901234567890"
	case 6:
		return "1.0"
	}
	return fmt.Sprintf("-%d.5E-%d", rng.Intn(50), rng.Intn(5))
}

func genJSON(rng *h.Rng, depth int) string {
	k := rng.Intn(10)
	if depth >= 4 && k < 4 {
		k += 4
	}
	switch {
	case k < 2 || depth == 0 && k < 6: // object (always at the top)
		n := rng.Intn(6)
		if rng.Intn(8) == 0 {
			n = 10 + rng.Intn(40) // many keys
		}
		var parts []string
		used := map[string]bool{}
		for i := 0; i < n; i++ {
			key := genKey(rng)
			if used[key] {
				continue
			}
			used[key] = true
			parts = append(parts, fmt.Sprintf("%q:%s", key, genJSON(rng, depth+1)))
		}
		return "{" + strings.Join(parts, sep(rng)) + "}"
	case k < 4: // array, often of similar objects
		n := rng.Intn(6)
		var parts []string
		same := rng.Intn(2) == 0
		for i := 0; i < n; i++ {
			if same {
				parts = append(parts, fmt.Sprintf(`{"id":%d,"name":%s,"price":%s}`, i, genString(rng), genNumber(rng)))
			} else {
				parts = append(parts, genJSON(rng, depth+1))
			}
		}
		return "[" + strings.Join(parts, sep(rng)) + "]"
	case k < 6:
		return genString(rng)
	case k < 8:
		return genNumber(rng)
	case k == 8:
		return []string{"true", "false"}[rng.Intn(2)]
	}
	return "null"
}

func sep(rng *h.Rng) string { return []string{",", ", ", " ,\n "}[rng.Intn(3)] }

func genJSONPath(rng *h.Rng) string {
	k := func() string { return keyPool[rng.Intn(12)] }
	switch rng.Intn(16) {
	case 0:
		return "$"
	case 1:
		return "$." + k()
	case 2:
		return "$." + k() + "." + k()
	case 3:
		return "$.." + k()
	case 4:
		return "$.*"
	case 5:
		return "$..*"
	case 6:
		return "$." + k() + "[0]"
	case 7:
		return "$." + k() + "[*]." + k()
	case 8:
		return "$." + k() + "[-1:]"
	case 9:
		return "$." + k() + "[0:2]"
	case 10:
		return "$['" + k() + "','" + k() + "']"
	case 11:
		return "$.." + k() + "[?(@.price > 10)]"
	case 12:
		return "$.." + "[?(@.id == 1)].name"
	case 13:
		return "$." + k() + ".length()"
	case 14:
		return "$.." + k() + "[(@.length-1)]"
	}
	return ""
}

func genXML(rng *h.Rng) string {
	var b strings.Builder
	if rng.Intn(2) == 0 {
		b.WriteString(`<?xml version="1.0" encoding="UTF-8"?>`)
	}
	tags := []string{"item", "name", "price", "entry", "a", "b", "data"}
	var el func(depth int)
	el = func(depth int) {
		t := tags[rng.Intn(len(tags))]
		b.WriteString("<" + t)
		if rng.Intn(2) == 0 {
			fmt.Fprintf(&b, ` id="%d"`, rng.Intn(5))
		}
		if rng.Intn(4) == 0 {
			fmt.Fprintf(&b, ` lang="%s"`, []string{"en", "de", "x&amp;y"}[rng.Intn(3)])
		}
		b.WriteString(">")
		n := rng.Intn(5)
		if depth >= 3 {
			n = 0
		}
		if n == 0 {
			b.WriteString([]string{"", "text", "1.5", "a &lt; b", "  ", "Ünï", "<![CDATA[x<y]]>"}[rng.Intn(7)])
		}
		for i := 0; i < n; i++ {
			el(depth + 1)
			if rng.Intn(3) == 0 {
				b.WriteString("\n  ")
			}
		}
		b.WriteString("</" + t + ">")
	}
	b.WriteString("<root>")
	n := 1 + rng.Intn(6)
	for i := 0; i < n; i++ {
		el(1)
	}
	b.WriteString("</root>")
	return b.String()
}

func genXPath(rng *h.Rng) string {
	tags := []string{"item", "name", "price", "entry", "a", "b", "data"}
	t := func() string { return tags[rng.Intn(len(tags))] }
	switch rng.Intn(14) {
	case 0:
		return "/root"
	case 1:
		return "/root/" + t()
	case 2:
		return "//" + t()
	case 3:
		return "/root/" + t() + "[2]"
	case 4:
		return "//" + t() + "[@id='" + strconv.Itoa(rng.Intn(5)) + "']"
	case 5:
		return "/root/*"
	case 6:
		return "//" + t() + "/text()"
	case 7:
		return "//" + t() + "/@id"
	case 8:
		return "/root/" + t() + "[last()]"
	case 9:
		return "//" + t() + "/" + t()
	case 10:
		return "//*[@lang]"
	case 11:
		return "/root/" + t() + "[position()<3]"
	case 12:
		return "//" + t() + "[" + t() + "]"
	}
	return "/nothing/here"
}

/-
C11 — group element and scalar encodings round-trip and reject malformed input.

Property theorems only (helper lemmas: `Proofs/CodecBytes.lean`, `Proofs/Codec.lean`,
`Proofs/CodecChar.lean`).  The model is `Model/Codec.lean` (byte level, as `group/bn256/point.go`
and `kyber/group/mod.Int` are after the three repairs of this round) over `Model/Bn256.lean`.

"Element" = a value of the model types with `G1.valid` / `G2.valid` / `gtValid` / `< r`:
  G1: identity, or affine (x, y) with x, y < p on y² = x³ + 3            (every such point is in G1)
      — and every element reachable by scalar multiplication / addition / negation is one: `g1_reachable_roundtrip`
  G2: identity, or affine over Fp2 with coordinates < p, on the twist, and r•P = O
      (that the model's G2 operations preserve this needs the group law of the twist: C10's subject, not proved here)
  GT: twelve coordinates < p (point.go performs no membership test for GT — modelled as it is)
  scalar: a number < r
All statements are for EVERY element / EVERY byte string (no bound).
-/
import DosModel.Proofs.CodecChar
import DosModel.Proofs.Bn256ConcRedc
import DosModel.Proofs.Bn256ConcCurve
import DosModel.Gen.CodecFacts

namespace Dos.Props.C11
open Dos Dos.Bn256 Dos.Codec Dos.CodecBytes

/-! ## 0. regenerated facts: the constants and the shape of the code the model assumes -/

/-- sizes (`ElementSize`, `MarshalSize`), field prime and group order of the code = the model's -/
theorem gen_sizes_and_moduli :
    Gen.Codec.pointG1_ElementSize = 32 ∧ Gen.Codec.pointG1_MarshalSize = 64 ∧
    Gen.Codec.pointG2_ElementSize = 32 ∧ Gen.Codec.pointG2_MarshalSize = 129 ∧
    Gen.Codec.pointGT_ElementSize = 32 ∧ Gen.Codec.pointGT_MarshalSize = 384 ∧
    Gen.Codec.constP = p ∧ Gen.Codec.constOrder = r ∧ Gen.Codec.limbs_p2 = p ∧
    2 ^ 253 ≤ r ∧ r < 2 ^ 254 ∧ (254 + 7) / 8 = 32 ∧ p < 2 ^ 256 := by decide

/-- the coordinates are written and read in the order the model uses (x before y; for Fp2 the
`.x` = imaginary part first; for G1/G2 as (field of the point)@(byte offset) pairs extracted structurally
from `MarshalBinary`/`UnmarshalBinary`, independent of the names of local variables), each read coordinate is checked to be canonical, G1/G2 test curve
membership, G2's `IsOnCurve` multiplies by `Order`, the length checks are strict `<`,
`gfP.Unmarshal` overwrites its destination, `Equal` compares encodings, and G2's `UnmarshalFrom`
reads the tag byte separately -/
theorem gen_code_shape :
    Gen.Codec.pointG1_marshalLayout = ["x@0", "y@32"] ∧
    Gen.Codec.pointG1_unmarshalLayout = ["x@0", "y@32"] ∧
    Gen.Codec.pointG1_unmarshalOrder = ["p.g.x", "p.g.y"] ∧
    Gen.Codec.pointG1_montEncodeOrder = ["p.g.x", "p.g.y"] ∧
    Gen.Codec.pointG2_marshalLayout = ["x.x@1", "x.y@33", "y.x@65", "y.y@97"] ∧
    Gen.Codec.pointG2_unmarshalLayout = Gen.Codec.pointG2_marshalLayout ∧
    Gen.Codec.pointG2_unmarshalOrder = ["p.g.x.x", "p.g.x.y", "p.g.y.x", "p.g.y.y"] ∧
    Gen.Codec.pointG2_montEncodeOrder = Gen.Codec.pointG2_unmarshalOrder ∧
    Gen.Codec.pointGT_marshalOrder = ["p.g.x.x.x", "p.g.x.x.y", "p.g.x.y.x", "p.g.x.y.y", "p.g.x.z.x",
      "p.g.x.z.y", "p.g.y.x.x", "p.g.y.x.y", "p.g.y.y.x", "p.g.y.y.y", "p.g.y.z.x", "p.g.y.z.y"] ∧
    Gen.Codec.pointGT_unmarshalOrder = Gen.Codec.pointGT_marshalOrder ∧
    Gen.Codec.pointGT_montEncodeOrder = Gen.Codec.pointGT_marshalOrder ∧
    Gen.Codec.pointG1_isCanonicalCalls = 2 ∧ Gen.Codec.pointG2_isCanonicalCalls = 4 ∧
    Gen.Codec.pointGT_isCanonicalCalls = 1 ∧ Gen.Codec.gfpIsCanonicalComparesWithP2 = true ∧
    Gen.Codec.pointG1_isOnCurveCalls = 1 ∧ Gen.Codec.pointG2_isOnCurveCalls = 1 ∧
    Gen.Codec.twistIsOnCurveMulOrder = true ∧
    Gen.Codec.pointG1_lenCheckOp = "<" ∧ Gen.Codec.pointG2_lenCheckOp = "<" ∧
    Gen.Codec.pointGT_lenCheckOp = "<" ∧
    Gen.Codec.gfpUnmarshalOverwrites = true ∧
    Gen.Codec.pointG1_equalComparesEncodings = true ∧ Gen.Codec.pointG2_equalComparesEncodings = true ∧
    Gen.Codec.pointGT_equalComparesEncodings = true ∧
    Gen.Codec.pointG2_unmarshalFromReadFulls = 2 := by decide

/-- curve constants of the code = the model's: `curveB = 3`, G1 generator (1, 2), and `twistB`,
`twistGen` (kept in Montgomery form in twist.go) decode to the model's `twistB`, `g2gen` -/
theorem gen_curve_constants :
    Gen.Codec.curveB = curveB ∧ g1gen = .aff Gen.Codec.curveGenX Gen.Codec.curveGenY ∧
    Gen.Codec.curveGenZ = 1 ∧
    twistB = ⟨montDecode Gen.Codec.twistB_x_mont, montDecode Gen.Codec.twistB_y_mont⟩ ∧
    g2gen = .aff ⟨montDecode Gen.Codec.twistGen_x_x_mont, montDecode Gen.Codec.twistGen_x_y_mont⟩
                 ⟨montDecode Gen.Codec.twistGen_y_x_mont, montDecode Gen.Codec.twistGen_y_y_mont⟩ ∧
    Gen.Codec.limbs_np = np ∧ Gen.Codec.limbs_r2 = r2 ∧ Gen.Codec.limbs_rN1 = rInv ∧
    (np * p + 1) % R = 0 ∧ r2 = R * R % p ∧ rInv * R % p = 1 := by decide

/-! ## 1. encode-then-decode is the identity -/

/-- **G1 round trip**, also with arbitrary trailing bytes (`UnmarshalBinary` ignores them) -/
theorem g1_roundtrip (P : G1) (hv : G1.valid P = true) (tail : Bytes) :
    unmarshalG1 (marshalG1 P ++ tail) = .ok P :=
  unmarshalG1_marshalG1 P hv tail

example : unmarshalG1 (marshalG1 g1gen ++ [7]) = .ok g1gen := g1_roundtrip g1gen (by decide) [7]
example : unmarshalG1 (marshalG1 .inf) = .ok .inf := by simpa using g1_roundtrip .inf rfl []

/-- **every G1 element reachable from the generator by scalar multiplication, addition and
negation (identity included) is a valid element** — so all G1 theorems of this file apply to it —
and survives encode-then-decode.  No assumption: p is prime by a kernel-checked Pratt certificate
(`Proofs/Primes.lean`), `finv` is the field inverse by Fermat, the chord/tangent formulas of the
model stay on y² = x³ + 3 (`Proofs/Bn256ConcCurve.lean`). -/
theorem g1_reachable_roundtrip (P : G1) (h : G1.Reachable P) (tail : Bytes) :
    G1.valid P = true ∧ unmarshalG1 (marshalG1 P ++ tail) = .ok P ∧ (marshalG1 P).length = 64 :=
  ⟨reachable_valid h, unmarshalG1_marshalG1 P (reachable_valid h) tail, marshalG1_length P⟩

example : G1.Reachable (G1.add (G1.smul 12345 g1gen) (G1.neg (G1.smul (r - 1) g1gen))) :=
  .add (.smul _ .base) (.neg (.smul _ .base))

/-- **G2 round trip** (identity: the one byte 0x00) -/
theorem g2_roundtrip (P : G2) (hv : G2.valid P = true) (tail : Bytes) :
    unmarshalG2 (marshalG2 P ++ tail) = .ok P :=
  unmarshalG2_marshalG2 P hv tail

example : unmarshalG2 (marshalG2 .inf ++ [1, 2, 3]) = .ok .inf := g2_roundtrip .inf rfl [1, 2, 3]

/-- **GT round trip** for every 12-tuple of coordinates below p -/
theorem gt_roundtrip (g : GT) (hl : g.length = 12) (hc : ∀ c ∈ g, c < p) (tail : Bytes) :
    unmarshalGT (marshalGT g ++ tail) = .ok g :=
  unmarshalGT_marshalGT g ⟨hl, hc⟩ tail

example : unmarshalGT (marshalGT [1, 2, 3, 4, 5, 6, 7, 8, 9, 10, 11, p - 1]) =
    .ok [1, 2, 3, 4, 5, 6, 7, 8, 9, 10, 11, p - 1] := by
  simpa using gt_roundtrip [1, 2, 3, 4, 5, 6, 7, 8, 9, 10, 11, p - 1] rfl (by decide) []

/-- **scalar round trip**: every s < r encodes (no panic) to 32 bytes that decode to s -/
theorem scalar_roundtrip (s : Nat) (hs : s < r) :
    ∃ enc, marshalScalar s = .ok enc ∧ enc.length = 32 ∧ unmarshalScalar enc = .ok s :=
  unmarshalScalar_marshalScalar s hs

example : ∃ enc, marshalScalar (r - 1) = .ok enc ∧ enc.length = 32 ∧ unmarshalScalar enc = .ok (r - 1) :=
  scalar_roundtrip (r - 1) (by decide)

/-- **stream API round trip, no bleed**: `MarshalTo` then `UnmarshalFrom` returns the element and
consumes exactly what was written, whatever follows on the stream (G1) -/
theorem g1_stream_roundtrip (P : G1) (hv : G1.valid P = true) (tail : Bytes) :
    unmarshalFrom 64 unmarshalG1 (marshalG1 P ++ tail) = ((marshalG1 P).length, .ok P) := by
  have hl := marshalG1_length P
  have h1 : ¬ (marshalG1 P ++ tail).length < 64 := by simp [hl]
  have h2 : (marshalG1 P ++ tail).take 64 = marshalG1 P := by
    rw [List.take_append_of_le_length (by omega), List.take_of_length_le (by omega)]
  have := unmarshalG1_marshalG1 P hv []
  simp only [List.append_nil] at this
  simp only [unmarshalFrom, h1, if_false, h2, this, hl]

example : unmarshalFrom 64 unmarshalG1 (marshalG1 g1gen ++ [9, 9]) = (64, .ok g1gen) :=
  g1_stream_roundtrip g1gen (by decide) [9, 9]

/-- the same for G2, **including the one-byte identity** (repaired by /repo 14330d6) -/
theorem g2_stream_roundtrip (P : G2) (hv : G2.valid P = true) (tail : Bytes) :
    unmarshalFromG2 (marshalG2 P ++ tail) = ((marshalG2 P).length, .ok P) := by
  cases P with
  | inf => simp [marshalG2, unmarshalFromG2, unmarshalG2]
  | aff x y =>
    have hl := marshalG2_length_aff x y
    have hrt := unmarshalG2_marshalG2 (.aff x y) hv []
    simp only [List.append_nil] at hrt
    rw [marshalG2_aff] at *
    simp only [List.length_cons] at hl
    have hbody : ((g2Coords (G2.aff x y)).map be32).flatten.length = 128 := by omega
    have h2 : (((g2Coords (G2.aff x y)).map be32).flatten ++ tail).take 128
        = ((g2Coords (G2.aff x y)).map be32).flatten := by
      rw [List.take_append_of_le_length (by omega), List.take_of_length_le (by omega)]
    have h3 : ¬ (((g2Coords (G2.aff x y)).map be32).flatten ++ tail).length < 128 := by
      simp [hbody]
    simp only [List.cons_append, unmarshalFromG2, h3, if_false, h2, hrt, List.length_cons, hbody]
    simp

example : unmarshalFromG2 (marshalG2 .inf ++ [5, 6]) = (1, .ok .inf) := g2_stream_roundtrip .inf rfl [5, 6]

/-- **limb level**: `UnmarshalBinary` stores `montEncode x` (a reduced limb value) for the word x it
read, and `MarshalBinary` writes `montDecode` of the stored limbs, which is the 32-byte encoding of
`x mod p` — for a canonical word (the only ones accepted since /repo 1d47f6b) the very bytes read.
Proved from the Montgomery constants of constants.go (`np·p ≡ −1 mod 2^256`, `r2 = R² mod p`),
for ALL 256-bit words. -/
theorem limb_level_roundtrip (x : Nat) (hx : x < 2 ^ 256) :
    storeCoord x < p ∧ storeCoord x = x * R % p ∧ emitCoord (storeCoord x) = be32 (x % p) ∧
    (x < p → emitCoord (storeCoord x) = be32 x) := by
  have h1 := montEncode_lt x hx
  have h2 := montDecode_montEncode x hx
  refine ⟨h1, montEncode_spec x hx, by simp only [emitCoord, storeCoord, h2], ?_⟩
  intro hp
  simp only [emitCoord, storeCoord, h2, Nat.mod_eq_of_lt hp]

example : emitCoord (storeCoord (p + 5)) = be32 5 := by
  have := (limb_level_roundtrip (p + 5) (by decide)).2.2.1
  rw [this]; congr 1

/-- **decoding does not depend on the receiver.**  `UnmarshalBinary`/`UnmarshalFrom` are methods of a
point object with prior state (fresh, `Null()`, `Base()`, a `Mul` result, an earlier successful or
FAILED decode); the model's decoders take that state as an argument and ignore it, so any sequence of
decodes through one reused receiver answers, step by step, as fresh decodes of the same bytes — in
particular `[P, identity, Q]` gives `P, O, Q`.  True by construction of the model; the `seq` and
`into` correspondence cases (every special encoding × every prior state, both APIs) make it a check of
the code: they catch a decoder that leaves `z`, `t` or limbs of the old value behind. -/
theorem unmarshal_ignores_receiver :
    (∀ (r1 r2 : G1) buf, unmarshalG1Into r1 buf = unmarshalG1Into r2 buf ∧ unmarshalG1Into r1 buf = unmarshalG1 buf) ∧
    (∀ (r1 r2 : G2) buf, unmarshalG2Into r1 buf = unmarshalG2Into r2 buf ∧ unmarshalG2Into r1 buf = unmarshalG2 buf) ∧
    (∀ (r1 r2 : GT) buf, unmarshalGTInto r1 buf = unmarshalGTInto r2 buf ∧ unmarshalGTInto r1 buf = unmarshalGT buf) ∧
    (∀ junk recv bufs, decodeSeq unmarshalG1Into junk recv bufs = bufs.map unmarshalG1) ∧
    (∀ junk recv bufs, decodeSeq unmarshalG2Into junk recv bufs = bufs.map unmarshalG2) ∧
    (∀ junk recv bufs, decodeSeq unmarshalGTInto junk recv bufs = bufs.map unmarshalGT) := by
  refine ⟨fun _ _ _ => ⟨rfl, rfl⟩, fun _ _ _ => ⟨rfl, rfl⟩, fun _ _ _ => ⟨rfl, rfl⟩, ?_, ?_, ?_⟩ <;>
  · intro junk recv bufs
    induction bufs generalizing recv with
    | nil => rfl
    | cons b bs ih => simp only [decodeSeq, List.map_cons, ih]; rfl

example : decodeSeq unmarshalG1Into (fun _ => g1gen) (G1.neg g1gen)
    [marshalG1 g1gen, marshalG1 .inf, [1], marshalG1 g1gen] =
    [.ok g1gen, .ok .inf, .err .short, .ok g1gen] := by decide +kernel

/-! ## 2. fixed lengths -/

/-- every G1 element (identity included) encodes to 64 bytes -/
theorem g1_length (P : G1) : (marshalG1 P).length = 64 := marshalG1_length P

/-- every non-identity G2 element encodes to 129 bytes; the identity to the single byte 0x00 -/
theorem g2_length (x y : Fp2) : (marshalG2 (.aff x y)).length = 129 ∧ marshalG2 .inf = [0] :=
  ⟨marshalG2_length_aff x y, rfl⟩

/-- every GT element encodes to 384 bytes -/
theorem gt_length (g : GT) (hl : g.length = 12) : (marshalGT g).length = 384 := marshalGT_length g hl

/-- every scalar below r encodes to exactly 32 bytes -/
theorem scalar_length (s : Nat) (hs : s < r) (enc : Bytes) (h : marshalScalar s = .ok enc) :
    enc.length = 32 := by
  obtain ⟨e, he, hl, _⟩ := unmarshalScalar_marshalScalar s hs
  rw [he] at h; cases h; exact hl

example : (marshalG1 g1gen).length = 64 ∧ (marshalG2 g2gen).length = 129 :=
  ⟨g1_length _, (g2_length _ _).1⟩

/-! ## 3. distinct elements have distinct encodings; `Equal` (comparison of encodings) is equality -/

theorem g1_equal_iff_bytes (P Q : G1) (hP : G1.valid P = true) (hQ : G1.valid Q = true) :
    (P = Q ↔ marshalG1 P = marshalG1 Q) ∧ (equalG1 P Q = true ↔ P = Q) := by
  have h : P = Q ↔ marshalG1 P = marshalG1 Q := ⟨fun h => by rw [h], marshalG1_inj P Q hP hQ⟩
  refine ⟨h, ?_⟩
  simp only [equalG1, beq_iff_eq]
  exact h.symm

theorem g2_equal_iff_bytes (P Q : G2) (hP : G2.valid P = true) (hQ : G2.valid Q = true) :
    (P = Q ↔ marshalG2 P = marshalG2 Q) ∧ (equalG2 P Q = true ↔ P = Q) := by
  have h : P = Q ↔ marshalG2 P = marshalG2 Q := ⟨fun h => by rw [h], marshalG2_inj P Q hP hQ⟩
  refine ⟨h, ?_⟩
  simp only [equalG2, beq_iff_eq]
  exact h.symm

theorem gt_equal_iff_bytes (g g' : GT) (hg : gtValid g) (hg' : gtValid g') :
    (g = g' ↔ marshalGT g = marshalGT g') ∧ (equalGT g g' = true ↔ g = g') := by
  have h : g = g' ↔ marshalGT g = marshalGT g' := ⟨fun h => by rw [h], marshalGT_inj g g' hg hg'⟩
  refine ⟨h, ?_⟩
  simp only [equalGT, beq_iff_eq]
  exact h.symm

theorem scalar_marshal_injective (s t : Nat) (hs : s < r) (ht : t < r)
    (h : marshalScalar s = marshalScalar t) : s = t := by
  obtain ⟨e1, he1, _, hd1⟩ := unmarshalScalar_marshalScalar s hs
  obtain ⟨e2, he2, _, hd2⟩ := unmarshalScalar_marshalScalar t ht
  rw [he1, he2] at h
  cases h
  rw [hd1] at hd2
  cases hd2; rfl

example : equalG1 g1gen (G1.neg g1gen) = false := by decide

/-! ## 4. decoding never panics — for EVERY byte string -/

theorem unmarshal_total (buf : Bytes) :
    (unmarshalG1 buf).isPanic = false ∧ (unmarshalG2 buf).isPanic = false ∧
    (unmarshalGT buf).isPanic = false ∧ (unmarshalScalar buf).isPanic = false :=
  ⟨unmarshalG1_not_panic buf, unmarshalG2_not_panic buf, unmarshalGT_not_panic buf,
    unmarshalScalar_not_panic buf⟩

/-- the stream decoders never panic either -/
theorem unmarshalFrom_total (stream : Bytes) :
    (unmarshalFrom 64 unmarshalG1 stream).2.isPanic = false ∧
    (unmarshalFromG2 stream).2.isPanic = false ∧
    (unmarshalFrom 384 unmarshalGT stream).2.isPanic = false := by
  refine ⟨?_, ?_, ?_⟩
  · unfold unmarshalFrom; split
    · rfl
    · exact unmarshalG1_not_panic _
  · unfold unmarshalFromG2
    split
    · rfl
    · split
      · exact unmarshalG2_not_panic _
      · split
        · rfl
        · exact unmarshalG2_not_panic _
  · unfold unmarshalFrom; split
    · rfl
    · exact unmarshalGT_not_panic _

example : unmarshalG2 [] = .err .short ∧ unmarshalG1 [1, 2, 3] = .err .short ∧
    unmarshalG2 [2] = .err .malformed := by decide

/-! ## 5. what decoding accepts: exactly the canonical encodings of valid elements -/

/-- **G1**: `UnmarshalBinary` succeeds with `P` iff the input has at least 64 bytes, `P` is a valid
element (coordinates < p, on the curve) and the first 64 bytes ARE the encoding of `P`.
Consequences: too short ⇒ error, off the curve ⇒ error, coordinate ≥ p ⇒ error, and two accepted
inputs decode to the same element iff their first 64 bytes coincide. -/
theorem g1_unmarshal_ok_iff (buf : Bytes) (P : G1) :
    unmarshalG1 buf = .ok P ↔ 64 ≤ buf.length ∧ G1.valid P = true ∧ marshalG1 P = buf.take 64 :=
  unmarshalG1_ok_iff buf P

/-- soundness clauses spelled out -/
theorem g1_unmarshal_sound (buf : Bytes) :
    (buf.length < 64 → unmarshalG1 buf = .err .short) ∧
    (∀ P, unmarshalG1 buf = .ok P → G1.onCurve P = true ∧ G1.valid P = true) := by
  refine ⟨unmarshalG1_short buf, ?_⟩
  intro P h
  have hv := (unmarshalG1_ok buf P h).2.1
  refine ⟨?_, hv⟩
  cases P with
  | inf => rfl
  | aff x y => simp only [G1.valid, Bool.and_eq_true] at hv; exact hv.2

/-- a 64-byte (or longer) input whose two words are not both zero and do not satisfy the curve
equation is rejected -/
theorem g1_offcurve_rejected (buf : Bytes) (hl : 64 ≤ buf.length)
    (hnz : ¬ (beNat (buf.take 32) = 0 ∧ beNat ((buf.drop 32).take 32) = 0))
    (hoff : G1.onCurve (.aff (beNat (buf.take 32)) (beNat ((buf.drop 32).take 32))) = false) :
    ∃ e, unmarshalG1 buf = .err e := by
  rw [unmarshalG1_long buf hl]
  unfold g1OfCoords
  split
  · exact ⟨_, rfl⟩
  · simp [hnz, hoff]

example : unmarshalG1 (marshalG1 (.aff 1 3)) = .err .malformed := by decide +kernel
example : unmarshalG1 (be32 (p + 1) ++ be32 2) = .err .noncanon := by decide +kernel

/-- **G2**: a successful decode returns a valid element — coordinates < p, on the twist AND in the
order-r subgroup; a non-identity result re-encodes to the first 129 bytes of the input -/
theorem g2_unmarshal_sound (buf : Bytes) (P : G2) (h : unmarshalG2 buf = .ok P) :
    G2.onCurve P = true ∧ G2.smul r P = .inf ∧ G2.valid P = true ∧
    (∀ x y, P = .aff x y → 129 ≤ buf.length ∧ marshalG2 P = buf.take 129) := by
  obtain ⟨hv, hc⟩ := unmarshalG2_ok buf P h
  refine ⟨?_, ?_, hv, hc⟩
  · cases P with
    | inf => rfl
    | aff x y => simp only [G2.valid, Bool.and_eq_true] at hv; exact hv.1.2
  · cases P with
    | inf => exact g2_smul_inf r
    | aff x y =>
      simp only [G2.valid, Bool.and_eq_true, G2.inSubgroup, beq_iff_eq] at hv
      exact hv.2

/-- **G2 rejections**: empty input, a tag other than 0/1, fewer than 129 bytes with tag 1, a point
off the twist, and a point ON the twist but OUTSIDE the order-r subgroup are all errors -/
theorem g2_rejects (buf : Bytes) :
    (buf = [] → unmarshalG2 buf = .err .short) ∧
    (∀ t body, buf = t :: body → t ≠ 0 → t ≠ 1 → unmarshalG2 buf = .err .malformed) ∧
    (∀ body, buf = 1 :: body → body.length < 128 → unmarshalG2 buf = .err .short) ∧
    (∀ body, buf = 1 :: body → 128 ≤ body.length →
      ∀ P, g2OfCoords (beNat (body.take 32)) (beNat ((body.drop 32).take 32))
          (beNat ((body.drop 64).take 32)) (beNat ((body.drop 96).take 32)) = .ok P →
        unmarshalG2 buf = .ok P) ∧
    (∀ a b c d, ¬ (a = 0 ∧ b = 0 ∧ c = 0 ∧ d = 0) →
      (G2.onCurve (.aff ⟨a, b⟩ ⟨c, d⟩) = false ∨ G2.smul r (.aff ⟨a, b⟩ ⟨c, d⟩) ≠ .inf) →
      ∃ e, g2OfCoords a b c d = .err e) := by
  refine ⟨?_, ?_, ?_, ?_, ?_⟩
  · rintro rfl; decide
  · rintro t body rfl h0 h1; simp [unmarshalG2, h0, h1]
  · rintro body rfl hl
    have : body.length + 1 < 129 := by omega
    simp [unmarshalG2, this]
  · rintro body rfl hl P hP
    rw [unmarshalG2_long 1 body rfl hl, hP]
  · intro a b c d hnz hbad
    unfold g2OfCoords
    split
    · exact ⟨_, rfl⟩
    · simp only [hnz, if_false]
      rcases hbad with hoff | hsub
      · simp [hoff]
      · by_cases hon : G2.onCurve (.aff ⟨a, b⟩ ⟨c, d⟩) = true
        · have : G2.inSubgroup (.aff ⟨a, b⟩ ⟨c, d⟩) = false := by
            simpa [G2.inSubgroup] using hsub
          simp [hon, this]
        · simp [hon]

example : unmarshalG2 [0, 9, 9] = .ok .inf := by decide

/-- **GT**: accepted iff at least 384 bytes, all twelve words < p; the result re-encodes to the
first 384 bytes (no membership test exists in the code — none is claimed) -/
theorem gt_unmarshal_ok_iff (buf : Bytes) (g : GT) :
    unmarshalGT buf = .ok g ↔ 384 ≤ buf.length ∧ gtValid g ∧ marshalGT g = buf.take 384 := by
  constructor
  · exact unmarshalGT_ok buf g
  · rintro ⟨_, hv, he⟩
    have := unmarshalGT_marshalGT g hv (buf.drop 384)
    rwa [he, List.take_append_drop] at this

theorem gt_short_rejected (buf : Bytes) (h : buf.length < 384) : unmarshalGT buf = .err .short :=
  unmarshalGT_short buf h

example : unmarshalGT (List.replicate 383 0) = .err .short := gt_short_rejected _ (by rw [List.length_replicate]; omega)

/-- recorded, not a clause of the property (C02/C08 rely on knowing it): decoding is NOT injective
on byte strings — bytes after the element are ignored, and the G2 identity is accepted from
`0x00‖anything` and from `0x01‖0^128` besides its canonical one-byte encoding.  (Since /repo 1d47f6b
`x + p` is no longer a second encoding: `g1_unmarshal_ok_iff`.) -/
theorem decode_not_injective_witnesses :
    unmarshalG1 (marshalG1 g1gen ++ [0]) = unmarshalG1 (marshalG1 g1gen) ∧
    unmarshalG2 (1 :: List.replicate 128 0) = .ok .inf ∧
    unmarshalG2 [0, 7] = .ok .inf ∧ unmarshalG2 [0] = .ok .inf := by decide +kernel

/-! ## 6. scalars decode only from in-range values of the exact length -/

theorem scalar_in_range (buf : Bytes) :
    (∀ s, unmarshalScalar buf = .ok s →
        buf.length = 32 ∧ s < r ∧ s = beNat buf ∧ marshalScalar s = .ok buf) ∧
    (buf.length ≠ 32 → unmarshalScalar buf = .err .size) ∧
    (buf.length = 32 → beNat buf ≥ r → unmarshalScalar buf = .err .range) := by
  refine ⟨fun s h => unmarshalScalar_ok buf s h, ?_, ?_⟩
  · intro h; unfold unmarshalScalar; rw [if_pos h]
  · intro h1 h2; unfold unmarshalScalar; rw [if_neg (by simp [h1]), if_pos h2]

example : unmarshalScalar (natBE 32 r) = .err .range := by decide +kernel
example : unmarshalScalar (natBE 32 (r - 1)) = .ok (r - 1) := by decide +kernel
example : unmarshalScalar (natBE 31 5) = .err .size := by decide

end Dos.Props.C11

// Package c06: bls.Verify / bls.Sign of the real code against
//
//	(a) the Lean driver drv_c06 (generic Verify model on the point-equation instance, Lean Keccak),
//	(b) the EVM: go-ethereum core/vm precompiles 0x07 (ecMul) and 0x08 (ecPairing) fed with the
//	    library's canonical encodings,
//	(c) go-ethereum crypto/bn256/google (pure big.Int pairing) and math/big (bnref) for the
//	    expected signature / key bytes.
package c06

import (
	"bytes"
	"crypto/sha256"
	"encoding/binary"
	"fmt"
	"math/big"
	"sort"
	"strings"
	"sync"

	dkg "github.com/DOSNetwork/core/share/dkg/pedersen"
	vss "github.com/DOSNetwork/core/share/vss/pedersen"
	"github.com/DOSNetwork/core/sign/bls"
	"github.com/DOSNetwork/core/suites"
	"github.com/dedis/kyber"
	"github.com/ethereum/go-ethereum/common"
	"github.com/ethereum/go-ethereum/core/vm"
	"github.com/ethereum/go-ethereum/crypto"
	gbn "github.com/ethereum/go-ethereum/crypto/bn256/google"

	"verifharness/internal/h"
	"verifharness/props/c11/bnref"
)

func init() {
	h.Register(&h.Prop{
		ID: "C06",
		Rule: "cases: verify <sk> <msg> <sig> with sk in {0,1,r-1,random}, msg in {empty, 1 MiB, random, short} (keccak ≥ r and < r both occur), sig = valid signature or a mutation " +
			"(one bit flipped in every byte, −S, identity, off-curve, swapped coordinates, signature of another key / another message, x+p and y+p re-encodings, trailing bytes, truncated, S+G, random on-curve point); " +
			"sign <sk> <msg> (emitted signature and public key are canonical EVM encodings); conc <sk> <msg> <sig> <mul|sum> <rounds> <n> (per round a fresh non-normalised key object shared by n goroutines released together: every verdict = the EVM verdict, the key afterwards encodes as an independent copy, inputs unmodified); " +
			"hist <tag> <steps> (call HISTORIES on shared mutable caller objects: message/signature/key byte buffers refilled in place with the same or another length, sub-slices of one backing array, append into spare capacity, " +
			"the same kyber.Point / kyber.Scalar objects set again, interleaved calls on other messages, tbls.Verify over shared key objects, random walks: every call's outcome = the model's outcome for the VALUES at call time (no hidden state) " +
			"and = the EVM predicate on copies taken before the call; a call writes to no caller memory); par <rounds> <calls> (concurrent Sign/Verify calls on different values). non-trivial = every verify case with a non-empty signature, every sign case; distinct = distinct case line",
		Gen:    gen,
		Exec:   exec,
		Shrink: shrinkLine,
	})
}

var suite = suites.MustFind("bn256")
var two256 = new(big.Int).Lsh(big.NewInt(1), 256)

func scalar(k *big.Int) kyber.Scalar {
	return suite.G1().Scalar().SetBytes(new(big.Int).Mod(k, bnref.Rn).Bytes())
}

func msgOf(s string) []byte {
	if strings.HasPrefix(s, "syn:") {
		var n, a, b int
		if _, err := fmt.Sscanf(s, "syn:%d:%d:%d", &n, &a, &b); err != nil {
			panic("bad message descriptor " + s)
		}
		m := make([]byte, n)
		for i := range m {
			m[i] = byte((a*i + b) % 256)
		}
		return m
	}
	return h.UnHex(s)
}

func precompile(n byte, in []byte) ([]byte, error) {
	return vm.PrecompiledContractsIstanbul[common.BytesToAddress([]byte{n})].Run(in)
}

func be32(v *big.Int) []byte {
	b := new(big.Int).Mod(v, two256).Bytes()
	out := make([]byte, 32)
	copy(out[32-len(b):], b)
	return out
}

func isZero(b []byte) bool {
	for _, x := range b {
		if x != 0 {
			return false
		}
	}
	return true
}

// negEVM: (x, p − y) computed with math/big on a canonical 64-byte encoding (identity stays zeros)
func negEVM(enc []byte) []byte {
	if isZero(enc) {
		return make([]byte, 64)
	}
	y := new(big.Int).SetBytes(enc[32:64])
	return append(append([]byte{}, enc[:32]...), be32(bnref.Neg(y))...)
}

func pkEVM(X kyber.Point) ([]byte, error) {
	enc, err := X.MarshalBinary()
	if err != nil {
		return nil, err
	}
	if len(enc) == 1 && enc[0] == 0 {
		return make([]byte, 128), nil
	}
	if len(enc) != 129 || enc[0] != 1 {
		return nil, fmt.Errorf("public key encoding has %d bytes, tag %x", len(enc), enc[:1])
	}
	return enc[1:], nil
}

var g1genEVM = append(be32(big.NewInt(1)), be32(big.NewInt(2))...)
var g2genEVM = bnref.Enc2EVM(bnref.G2Gen())

// evmPredicate: e(−S, G2gen)·e(keccak256(msg)·G1gen, pk) == 1 by precompiles 0x07 and 0x08
func evmPredicate(sigCanon, pk128, msg []byte) (bool, string) {
	kec := crypto.Keccak256(msg)
	H, err := precompile(7, append(append([]byte{}, g1genEVM...), kec...))
	if err != nil {
		return false, "ecMul: " + err.Error()
	}
	in := append([]byte{}, negEVM(sigCanon)...)
	in = append(in, g2genEVM...)
	in = append(in, H...)
	in = append(in, pk128...)
	out, err := precompile(8, in)
	if err != nil {
		return false, "ecPairing: " + err.Error()
	}
	return len(out) == 32 && out[31] == 1 && isZero(out[:31]), ""
}

func googlePredicate(sigCanon, pk128, msg []byte) (bool, string) {
	S, X := new(gbn.G1), new(gbn.G2)
	if _, err := S.Unmarshal(negEVM(sigCanon)); err != nil {
		return false, "google G1: " + err.Error()
	}
	if _, err := X.Unmarshal(pk128); err != nil {
		return false, "google G2: " + err.Error()
	}
	hs := new(big.Int).SetBytes(crypto.Keccak256(msg))
	H := new(gbn.G1).ScalarBaseMult(hs.Mod(hs, bnref.Rn))
	B := new(gbn.G2).ScalarBaseMult(big.NewInt(1))
	return gbn.PairingCheck([]*gbn.G1{S, H}, []*gbn.G2{B, X}), ""
}

func errKind(err error) string {
	s := err.Error()
	switch {
	case strings.Contains(s, "not enough data"):
		return "parse:short"
	case strings.Contains(s, "malformed point"):
		return "parse:malformed"
	case strings.Contains(s, "exceeds modulus"):
		return "parse:noncanon"
	case strings.Contains(s, "invalid signature"):
		return "pairing"
	}
	return "other:" + h.OneLine(s)
}

func hashScalar(msg []byte) *big.Int {
	v := new(big.Int).SetBytes(crypto.Keccak256(msg))
	return v.Mod(v, bnref.Rn)
}

func exec(line string) (res h.Result) {
	w := strings.Fields(line)
	res.Class = w[0]
	res.Nontrivial = true
	switch w[0] {
	case "hist":
		return execHist(w)
	case "par":
		return execPar(w)
	case "verify":
		sk, msg, sig := h.BigDec(w[1]), msgOf(w[2]), h.UnHex(w[3])
		X := suite.G2().Point().Mul(scalar(sk), nil)
		err := bls.Verify(suite, X, msg, sig)
		accept := err == nil
		if accept {
			res.Impl = "accept"
		} else {
			res.Impl = "reject " + errKind(err)
		}
		res.Class = "verify-" + strings.Replace(res.Impl, " ", "-", -1)
		res.Nontrivial = len(sig) > 0
		// does the library parse the signature?
		S := suite.G1().Point()
		if perr := S.UnmarshalBinary(sig); perr != nil {
			if accept {
				res.Oracle = "c06-unparsable-accepted: UnmarshalBinary says " + perr.Error()
			}
			return
		}
		canon, _ := S.MarshalBinary()
		pk, perr := pkEVM(X)
		if perr != nil {
			res.Oracle = "c06-pk-encoding: " + perr.Error()
			return
		}
		evm, e1 := evmPredicate(canon, pk, msg)
		if e1 != "" {
			res.Oracle = "c06-evm-rejects-canonical-encoding: " + e1
			return
		}
		if evm != accept {
			res.Oracle = fmt.Sprintf("c06-verify-differs-from-evm: bls.Verify accept=%v, ecPairing precompile says %v", accept, evm)
			return
		}
		goo, e2 := googlePredicate(canon, pk, msg)
		if e2 != "" {
			res.Oracle = "c06-google-rejects-canonical-encoding: " + e2
			return
		}
		if goo != accept {
			res.Oracle = fmt.Sprintf("c06-verify-differs-from-google: bls.Verify accept=%v, bn256/google says %v", accept, goo)
			return
		}
		// what the secrets say: accept ⇔ S = (sk·h)•G1
		k := new(big.Int).Mul(new(big.Int).Mod(sk, bnref.Rn), hashScalar(msg))
		want := bytes.Equal(canon, bnref.Enc1(bnref.Mul1(k.Mod(k, bnref.Rn), bnref.G1Gen())))
		if want != accept {
			res.Oracle = fmt.Sprintf("c06-verify-differs-from-definition: accept=%v but S == sk·H(m) is %v", accept, want)
		}
	case "sign":
		sk, msg := h.BigDec(w[1]), msgOf(w[2])
		x := scalar(sk)
		X := suite.G2().Point().Mul(x, nil)
		sig, err := bls.Sign(suite, x, msg)
		if err != nil {
			res.Impl = "err sign"
			res.Oracle = "c06-sign-error: " + err.Error()
			return
		}
		pkenc, _ := X.MarshalBinary()
		res.Impl = fmt.Sprintf("ok %s pk=%s tbi=%s dpk=%s", h.Hex(sig), h.Hex(pkenc), toBigIntOf(sig), decodePubKeyOf(X))
		ident := new(big.Int).Mod(sk, bnref.Rn).Sign() == 0
		// canonical EVM encodings
		if len(sig) != 64 {
			res.Oracle = fmt.Sprintf("c06-emitted-signature-length: %d", len(sig))
			return
		}
		for i := 0; i < 2; i++ {
			if new(big.Int).SetBytes(sig[32*i:32*i+32]).Cmp(bnref.P) >= 0 {
				res.Oracle = "c06-emitted-coordinate-not-canonical: signature word " + fmt.Sprint(i)
				return
			}
		}
		k := new(big.Int).Mul(new(big.Int).Mod(sk, bnref.Rn), hashScalar(msg))
		if want := bnref.Enc1(bnref.Mul1(k.Mod(k, bnref.Rn), bnref.G1Gen())); !bytes.Equal(sig, want) {
			res.Oracle = "c06-emitted-signature-differs: expected sk·(keccak256(m) mod r)·G1 = " + h.Hex(want)
			return
		}
		if want := bnref.Enc2(bnref.Mul2(new(big.Int).Mod(sk, bnref.Rn), bnref.G2Gen())); !bytes.Equal(pkenc, want) {
			res.Oracle = "c06-emitted-pubkey-differs: expected 0x01‖x.im‖x.re‖y.im‖y.re = " + h.Hex(want)
			return
		}
		pk, perr := pkEVM(X)
		if perr != nil {
			res.Oracle = "c06-pk-encoding: " + perr.Error()
			return
		}
		// the EVM reads the emitted key and signature: ecAdd(sig, 0) parses it; the pairing predicate holds
		if out, err := precompile(6, append(append([]byte{}, sig...), make([]byte, 64)...)); err != nil || !bytes.Equal(out, sig) {
			res.Oracle = fmt.Sprintf("c06-evm-rejects-emitted-signature: ecAdd err=%v", err)
			return
		}
		if ok, e := evmPredicate(sig, pk, msg); e != "" || !ok {
			res.Oracle = fmt.Sprintf("c06-evm-rejects-emitted-signature: pairing=%v %s", ok, e)
			return
		}
		if err := bls.Verify(suite, X, msg, sig); err != nil {
			res.Oracle = "c06-own-signature-rejected: " + err.Error()
			return
		}
		// the coordinate splitters used for the contract calls invert the encodings
		sx, sy := (&vss.Signature{Signature: sig}).ToBigInt()
		if !bytes.Equal(be32(sx), sig[:32]) || !bytes.Equal(be32(sy), sig[32:]) {
			res.Oracle = "c06-ToBigInt-differs"
			return
		}
		if ident {
			// the identity key: the library emits ONE byte, not four words; what reaches the contract is decided by
			// decodePubKey: an error (nothing is sent), or the EVM's encoding of infinity (four zero words)
			if d := decodePubKeyOf(X); d != "err" && d != "ok 0,0,0,0" {
				res.Oracle = "c06-identity-key-coordinates: decodePubKey of the identity key answers " + d
				return
			}
		}
		if !ident {
			c, err := dkg.VerifDecodePubKey(X)
			if err != nil {
				res.Oracle = "c06-decodePubKey-error: " + err.Error()
				return
			}
			for i := 0; i < 4; i++ {
				if !bytes.Equal(be32(c[i]), pk[32*i:32*i+32]) || c[i].Cmp(bnref.P) >= 0 {
					res.Oracle = fmt.Sprintf("c06-decodePubKey-differs: word %d", i)
					return
				}
			}
		}
	case "conc":
		// conc <sk> <msg> <sig> <keymode> <rounds> <n>: per round a FRESH, not yet normalised key object
		// (Jacobian result of Mul / Add), n goroutines released together, each bls.Verify with the shared
		// key object and the shared message / signature slices.
		sk, msg, sig := h.BigDec(w[1]), msgOf(w[2]), h.UnHex(w[3])
		keymode, rounds, n := w[4], h.Atoi(w[5]), h.Atoi(w[6])
		skr := new(big.Int).Mod(sk, bnref.Rn)
		wantKey := bnref.Enc2(bnref.Mul2(skr, bnref.G2Gen())) // independent copy of the key's encoding
		pk128 := bnref.Enc2EVM(bnref.Mul2(skr, bnref.G2Gen()))
		msg0, sig0 := append([]byte{}, msg...), append([]byte{}, sig...)
		keymode = strings.TrimSuffix(keymode, "+m")
		wantDpk := "err"
		if skr.Sign() != 0 {
			wantDpk = fmt.Sprintf("ok %s,%s,%s,%s", new(big.Int).SetBytes(pk128[0:32]), new(big.Int).SetBytes(pk128[32:64]), new(big.Int).SetBytes(pk128[64:96]), new(big.Int).SetBytes(pk128[96:128]))
		}
		wantObj := suite.G2().Point()
		if err := wantObj.UnmarshalBinary(wantKey); err != nil {
			panic("bad case line: reference key encoding rejected")
		}
		// the EVM verdict, from independently computed encodings
		evm, parsed := false, false
		if r1 := refSig(sig); r1 != nil {
			parsed = true
			var e1 string
			evm, e1 = evmPredicate(r1, pk128, msg)
			if e1 != "" {
				res.Oracle = "c06-evm-rejects-canonical-encoding: " + e1
			}
		}
		counts := map[string]int{}
		for r := 0; r < rounds && res.Oracle == ""; r++ {
			var X kyber.Point
			switch keymode {
			case "mul":
				X = suite.G2().Point().Mul(scalar(sk), nil)
			default: // "sum": a·G2 + (sk−a)·G2, as PubPoly.Commit()/Eval build keys
				a := big.NewInt(int64(7 + r))
				b := new(big.Int).Sub(skr, a)
				X = suite.G2().Point().Add(suite.G2().Point().Mul(scalar(a), nil), suite.G2().Point().Mul(scalar(b.Mod(b, bnref.Rn)), nil))
			}
			verdicts := make([]string, n)
			start := make(chan struct{})
			var wg sync.WaitGroup
			// "+m": while the n goroutines verify, others MARSHAL / Equal / decodePubKey the same shared key object
			// (what the node does with a group key: genGroup reports its coordinates while shares are verified)
			nm := 0
			if strings.HasSuffix(w[4], "+m") {
				nm = 3
			}
			side := make([]string, nm)
			for g := 0; g < nm; g++ {
				wg.Add(1)
				go func(g int) {
					defer wg.Done()
					defer func() {
						if e := recover(); e != nil {
							side[g] = "panic " + h.OneLine(fmt.Sprint(e))
						}
					}()
					<-start
					switch g {
					case 0:
						enc, err := X.MarshalBinary()
						if err != nil || !bytes.Equal(enc, wantKey) {
							side[g] = fmt.Sprintf("MarshalBinary gave %s (err %v)", h.Hex(enc), err)
						}
					case 1:
						if d := decodePubKeyOf(X); d != wantDpk {
							side[g] = "decodePubKey gave " + d + ", expected " + wantDpk
						}
					default:
						if !X.Equal(wantObj) || !wantObj.Equal(X) {
							side[g] = "Equal with an independent copy of the key answered false"
						}
					}
				}(g)
			}
			for g := 0; g < n; g++ {
				wg.Add(1)
				go func(g int) {
					defer wg.Done()
					defer func() {
						if e := recover(); e != nil {
							verdicts[g] = "panic"
						}
					}()
					<-start
					if err := bls.Verify(suite, X, msg, sig); err != nil {
						verdicts[g] = "reject " + errKind(err)
					} else {
						verdicts[g] = "accept"
					}
				}(g)
			}
			close(start)
			wg.Wait()
			for g, sd := range side {
				if sd != "" && res.Oracle == "" {
					res.Oracle = fmt.Sprintf("c06-concurrent-marshal-differs: round %d of %d, goroutine %d working on the key object shared with %d verifying goroutines: %s", r, rounds, g, n, sd)
				}
			}
			for _, v := range verdicts {
				counts[v]++
				if (v == "accept") != (parsed && evm) && res.Oracle == "" {
					res.Oracle = fmt.Sprintf("c06-concurrent-verdict-differs: round %d of %d, %d goroutines sharing one key object: bls.Verify says %q, the EVM predicate says %v", r, rounds, n, v, parsed && evm)
				}
			}
			after, err := X.MarshalBinary()
			if res.Oracle == "" && (err != nil || !bytes.Equal(after, wantKey)) {
				res.Oracle = fmt.Sprintf("c06-verify-modified-key: after round %d the shared key encodes to %s, an independent copy to %s", r, h.Hex(after), h.Hex(wantKey))
			}
			if res.Oracle == "" && (!bytes.Equal(msg, msg0) || !bytes.Equal(sig, sig0)) {
				res.Oracle = "c06-verify-modified-inputs: message or signature bytes changed"
			}
		}
		var ks []string
		for k := range counts {
			ks = append(ks, k)
		}
		sort.Strings(ks)
		if len(ks) == 1 {
			res.Impl = fmt.Sprintf("all=%s rounds=%d n=%d", ks[0], rounds, n)
		} else {
			res.Impl = "mixed"
			for _, k := range ks {
				res.Impl += fmt.Sprintf(" %s×%d", k, counts[k])
			}
		}
		res.Class = fmt.Sprintf("conc-%s-n%d", w[4], n)
	case "split":
		// split <bytes>: Signature.ToBigInt on ANY byte string (short ones included: fewer than 32 bytes give (0, 0),
		// no panic — /repo 6bcc55e); the model is Codec.sigToBigInt
		b := h.UnHex(w[1])
		res.Impl = toBigIntOf(b)
		wx, wy := new(big.Int), new(big.Int)
		if len(b) >= 32 {
			wx.SetBytes(b[:32])
			wy.SetBytes(b[32:])
		}
		if want := wx.String() + "," + wy.String(); res.Impl != want {
			res.Oracle = fmt.Sprintf("c06-ToBigInt-differs: %d bytes give %s, the big-endian words are %s", len(b), res.Impl, want)
		}
		res.Class = fmt.Sprintf("split-%s", map[bool]string{true: "short", false: "long"}[len(b) < 64])
	case "dpk":
		// dpk <sk> <how>: decodePubKey on a key OBJECT built in one of the ways the library offers (identity keys
		// included: Mul by 0, Null, P−P, the encodings 0x00, 0x00‖junk, 0x01‖zeros); the model is Codec.decodePubKey
		// on the library's encoding.  Error for the identity (one byte), the four words < p else; never a panic.
		sk := new(big.Int).Mod(h.BigDec(w[1]), bnref.Rn)
		X := keyObject(sk, w[2])
		res.Impl = decodePubKeyOf(X)
		want := "err"
		if sk.Sign() != 0 {
			e := bnref.Enc2EVM(bnref.Mul2(sk, bnref.G2Gen()))
			want = fmt.Sprintf("ok %s,%s,%s,%s", new(big.Int).SetBytes(e[0:32]), new(big.Int).SetBytes(e[32:64]), new(big.Int).SetBytes(e[64:96]), new(big.Int).SetBytes(e[96:128]))
		}
		if res.Impl != want && !(sk.Sign() == 0 && res.Impl == "ok 0,0,0,0") {
			res.Oracle = fmt.Sprintf("c06-decodePubKey-differs: key %s·G2 built by %s: decodePubKey answers %s, the coordinates are %s", sk, w[2], res.Impl, want)
		}
		res.Class = "dpk-" + w[2]
	case "kp":
		// kp <seed> <msg>: bls.NewKeyPair on a seeded stream: the public key IS x·G2 for the scalar it returns
		// (math/big), both are canonical, a signature under x verifies under X by the library and by the EVM
		x, X := bls.NewKeyPair(suite, &ctrStream{seed: h.UnHex(w[1])})
		msg := msgOf(w[2])
		xb, err := x.MarshalBinary()
		if err != nil || len(xb) != 32 {
			res.Impl = "err scalar"
			res.Oracle = "c06-keypair-scalar-encoding"
			return
		}
		xv := new(big.Int).SetBytes(xb)
		pkenc, _ := X.MarshalBinary()
		res.Impl = "keypair-consistent"
		switch {
		case xv.Cmp(bnref.Rn) >= 0:
			res.Oracle = "c06-keypair-scalar-not-reduced: " + xv.String()
		case !bytes.Equal(pkenc, bnref.Enc2(bnref.Mul2(xv, bnref.G2Gen()))):
			res.Oracle = fmt.Sprintf("c06-keypair-differs: NewKeyPair returned x = %s and X = %s, x·G2 is %s", xv, h.Hex(pkenc), h.Hex(bnref.Enc2(bnref.Mul2(xv, bnref.G2Gen()))))
		}
		if res.Oracle != "" {
			res.Impl = "keypair-inconsistent"
			return
		}
		sig, err := bls.Sign(suite, x, msg)
		if err != nil {
			res.Oracle = "c06-sign-error: " + err.Error()
			return
		}
		if evm, e := evmVerdict(xv, msg, sig); !evm || e != "" {
			res.Oracle = fmt.Sprintf("c06-evm-rejects-emitted-signature: key pair of NewKeyPair, pairing=%v %s", evm, e)
		} else if err := bls.Verify(suite, X, msg, sig); err != nil {
			res.Oracle = "c06-own-signature-rejected: key pair of NewKeyPair: " + err.Error()
		}
		if res.Oracle != "" {
			res.Impl = "keypair-inconsistent"
		}
	case "keccak":
		res.Impl = h.Hex(crypto.Keccak256(msgOf(w[1])))
	default:
		panic("bad case line: " + line)
	}
	return
}

func cryptoKeccak(m []byte) []byte { return crypto.Keccak256(m) }

// refSig: the canonical 64 bytes of a signature the library would parse (math/big decision), or nil
func refSig(sig []byte) []byte {
	if len(sig) < 64 {
		return nil
	}
	x, y := new(big.Int).SetBytes(sig[:32]), new(big.Int).SetBytes(sig[32:64])
	if x.Cmp(bnref.P) >= 0 || y.Cmp(bnref.P) >= 0 {
		return nil
	}
	if x.Sign() == 0 && y.Sign() == 0 {
		return make([]byte, 64)
	}
	if !bnref.OnCurve1(x, y) {
		return nil
	}
	return append([]byte{}, sig[:64]...)
}

// toBigIntOf: "x,y" as Signature.ToBigInt returns them
func toBigIntOf(sig []byte) string {
	return guarded(func() string {
		x, y := (&vss.Signature{Signature: sig}).ToBigInt()
		if x == nil || y == nil {
			return "nil"
		}
		return x.String() + "," + y.String()
	})
}

// decodePubKeyOf: "ok w0,w1,w2,w3" or "err" as dkg.decodePubKey answers for the key object
func decodePubKeyOf(X kyber.Point) string {
	return guarded(func() string {
		c, err := dkg.VerifDecodePubKey(X)
		if err != nil {
			return "err"
		}
		return fmt.Sprintf("ok %s,%s,%s,%s", c[0], c[1], c[2], c[3])
	})
}

// keyObject: sk·G2 as a key object, built as `how` says (the identity modes require sk = 0)
func keyObject(sk *big.Int, how string) kyber.Point {
	X := suite.G2().Point().Mul(scalar(big.NewInt(77)), nil) // an object that already held a key
	var err error
	switch how {
	case "mul":
		X.Mul(scalar(sk), nil)
	case "fresh":
		X = suite.G2().Point().Mul(scalar(sk), nil)
	case "sum":
		a := big.NewInt(9)
		b := new(big.Int).Sub(sk, a)
		X.Add(suite.G2().Point().Mul(scalar(a), nil), suite.G2().Point().Mul(scalar(b.Mod(b, bnref.Rn)), nil))
	case "unm":
		err = X.UnmarshalBinary(bnref.Enc2(bnref.Mul2(sk, bnref.G2Gen())))
	case "null":
		identMode(sk, nil)
		X.Null()
	case "sub":
		identMode(sk, nil)
		X.Sub(X, suite.G2().Point().Set(X))
	case "unz":
		identMode(sk, nil)
		err = X.UnmarshalBinary(append([]byte{1}, make([]byte, 128)...))
	case "unj":
		identMode(sk, nil)
		err = X.UnmarshalBinary(append([]byte{0}, bytes.Repeat([]byte{0x5a}, 128)...))
	case "new": // a point object nothing was ever done with
		identMode(sk, nil)
		X = suite.G2().Point()
	default:
		panic("bad case line: key construction " + how)
	}
	if err != nil {
		panic("bad case line: key encoding rejected: " + err.Error())
	}
	return X
}

// ctrStream: SHA-256 in counter mode over the seed (a deterministic cipher.Stream for NewKeyPair)
type ctrStream struct {
	seed []byte
	ctr  uint64
	buf  []byte
}

func (c *ctrStream) XORKeyStream(dst, src []byte) {
	for i := range src {
		if len(c.buf) == 0 {
			var n [8]byte
			binary.BigEndian.PutUint64(n[:], c.ctr)
			c.ctr++
			d := sha256.Sum256(append(append([]byte{}, c.seed...), n[:]...))
			c.buf = d[:]
		}
		dst[i] = src[i] ^ c.buf[0]
		c.buf = c.buf[1:]
	}
}

/-
C14, round 5 — THE RECEIVER NEVER GOES AWAY (pipeline side of /repo 3a1c0bc), and the drain loop of
`recoverSign` as part of the termination theorems.

`queryLoop` sends every share of a registered request to the request's reply channel
(`req.reply <- content`, guarded by the request context only).  Before 3a1c0bc `recoverSign`, the one
receiver of that channel, returned after its single report while the query context stayed live (until
`handleQuery` returns, i.e. after the chain transaction): `queryLoop` then waited in that send and took
no share of any other request.  The repaired stage ends with `defer drainSigns(ctx, signc)` — deferred
first, so it runs after `close(out)` and `close(errc)` — which keeps receiving until `signc` is closed
or the context is done.  The extractor inlines the deferred call on every exit edge of the stage
(`Gen.Pipes.query_*`, goroutine `dosnode.recoverSign`, the nodes at `dos_stages.go … select` of
`drainSigns`).

Here:
1. general theorems for EVERY pipeline IR (`Model/PipeStay.lean` rules, `Proofs/PipeStay.lean`):
   * `receiver_never_gone` (safety): a goroutine passing `staysUntil gr c k` has not returned in any
     reachable state in which `c` is open and context `k` live — under any schedule;
   * `late_item_is_taken` (progress under weak fairness of the SENDER only): while the goroutine is in
     its drain phase on the unbuffered `c`, a sender standing at a send on `c` moves, or `c` is closed,
     or the context ends;
   * `stage_returns_in_every_fair_run`: the drain loop does terminate — in every fair run in which
     the pipeline context is eventually done (the fairness / deadline hypothesis of
     `all_fair_runs_terminate`; the callers set a deadline: `callers_set_a_deadline`) every static
     stage has returned for ever from some position on.
2. the regenerated query pipelines: `recoverSign` passes the rules for `dosnode.dispatchSign.out`
   (= `signc` = the `reply` channel `queryLoop` sends on) and context 0, by kernel evaluation; the three
   statements instantiated (`query_recoverSign_*`).

The collector side (the request is registered, `queryLoop` stands at the send) is C13's; this file is
the pipeline side: the stage is there to receive.
-/
import DosModel.Props.C14Fair
import DosModel.Proofs.PipeStay
import DosModel.Proofs.PipeWitness

namespace Dos.Props.C14
open Dos Dos.Pipe Dos.Gen.Pipes

/-! ## 1. general -/

/-- **receiver_never_gone.**  A goroutine `g` whose CFG passes `staysUntil gr c k` (no exit node is
reachable from its entry except through the closed branch of a receive on `c` or the
`<-ctx_k.Done()` alternative) has not returned in any reachable state in which `c` is still open and
context `k` not done: any schedule, any cancellation instants, whatever the other goroutines do. -/
theorem receiver_never_gone (p : Pipeline) (g : Gi) (gr : Goroutine) (c : Ch) (k : Nat)
    (hg : p.gs[g]? = some gr) (h : staysUntil gr c k = true) (s : State) (hr : Reach p s)
    (hd : s.gs[g]? = some .done) : s.closed c = true ∨ s.ctxDone k = true :=
  not_gone hg h hr hd

/-- non-vacuity: the rule holds for the caller loop of the regenerated fan-in helper (it reads the merged
channel until it is closed or the context is done) and FAILS for the frozen pre-repair `recoverSign`
(`Old.query_sys`, the tree before e49e40d / 3a1c0bc: the stage returned after its report) -/
example : (match helper_dosnode_mergeErrors.gs[2]? with
      | some gr => gr.name == "env.caller" && staysUntil gr 2 0
      | none => false) = true ∧
    (Old.query_sys.gs.any fun gr => gr.name == "dosnode.recoverSign" &&
      (List.range Old.query_sys.chans.length).all fun c => !gr.hasRecv c || !staysUntil gr c 0) = true := by
  decide +kernel

/-- **late_item_is_taken.**  No crash reachable.  Goroutine `g` passes `drainOkM gr c k m` (every node
of `m` offers a receive on `c` and is left only by receiving — staying in `m` —, by seeing `c`
closed, or by context `k`) and stands in `m` at position `T` of a run; `c` is unbuffered; another
goroutine `g'`, weakly fair, stands at a `select` with a send on `c`.  Then at some later position
`g'` moves — its item was taken, or it left through another alternative of its `select` — or `c` is
closed or context `k` done.  No fairness is asked of `g` or of anybody else. -/
theorem late_item_is_taken (p : Pipeline) (hsafe : NoCrash p) (g : Gi) (gr : Goroutine) (c : Ch) (k : Nat)
    (m : List Bool) (hg : p.gs[g]? = some gr) (hok : drainOkM gr c k m = true)
    (hlen : m.length ≤ gr.nodes.length) (hcap : p.cap c = 0) (r : Run p) (g' : Gi) (hne : g ≠ g')
    (hw : WeakFairG r g') (T : Nat) (pc pc' n : Pc) (nd' : Node)
    (hat : (r.st T).gs[g]? = some (.at pc)) (hm : mark m pc = true)
    (hat' : (r.st T).gs[g']? = some (.at pc')) (hnd' : p.node g' pc' = some nd')
    (hed' : (Lab.send c, n) ∈ nd'.edges) :
    ∃ i, T ≤ i ∧ (r.movesAt g' i ∨ (r.st i).closed c = true ∨ (r.st i).ctxDone k = true) :=
  drain_takes hsafe hg hok hlen hcap r hne hw hat hm hat' hnd' hed'

/-- non-vacuity: `Demo.drain` (a sender of one item, a drain loop on the unbuffered channel 0) and its
run `Demo.drainRun`: at position 0 the drainer (1) stands in its one-node drain phase and the sender (0) at
its send; the sender moves (at position 0: the rendezvous) -/
example : (∃ i, 0 ≤ i ∧ (Demo.drainRun.movesAt 0 i ∨ (Demo.drainRun.st i).closed 0 = true ∨
      (Demo.drainRun.st i).ctxDone 0 = true)) ∧
    drainD Demo.drain.gs[1] 0 0 = [true, false] ∧ staysUntil Demo.drain.gs[1] 0 0 = true ∧
    drainsUntil Demo.drain.gs[1] 0 0 = true := by
  have hg : Demo.drain.gs[1]? = some Demo.drain.gs[1] := rfl
  refine ⟨?_, by decide +kernel, by decide +kernel, by decide +kernel⟩
  exact late_item_is_taken Demo.drain (safe_pipeline_never_crashes _ Demo.drain_wf.1 Demo.drain_wf.2.1) 1 _ 0 0
    [true, false] hg (by decide +kernel) (by decide +kernel) (by decide +kernel) Demo.drainRun 0 (by decide)
    (Demo.drainRun_fair.weak 0) 0 0 0 1 (.sel [.send 0 1, .ctx 0 1]) (by decide +kernel) rfl (by decide +kernel) rfl
    (by simp [Node.edges, Alt.edges])

/-- **stage_returns_in_every_fair_run.**  The drain loop terminates, and it terminates BECAUSE the
context ends: for every pipeline IR passing W0, SafeOk and LiveOk, in every fair run in which the
pipeline context (context 0) is eventually done — the deadline the callers set, or `cancel()` — every
static pipeline goroutine `g` has returned, for ever, from some position on.  (By
`receiver_never_gone` a goroutine passing `staysUntil gr c 0` has NOT returned before that unless `c`
was closed: its drain loop ends exactly when the context ends or its input is closed.) -/
theorem stage_returns_in_every_fair_run (p : Pipeline) (h0 : W0 p = true) (hs : SafeOk p = true)
    (hl : LiveOk p = true) (r : Run p) (hf : Fair r) (hc : ∃ i, (r.st i).ctxDone 0 = true)
    (g : Gi) (gr : Goroutine) (hg : p.gs[g]? = some gr) (hst : gr.static = true) (hdm : gr.daemon = false) :
    ∃ T, ∀ i, T ≤ i → (r.st i).gs[g]? = some GSt.done := by
  obtain ⟨T, hT⟩ := all_fair_runs_terminate p h0 hs hl r hf hc
  refine ⟨T, fun i hi => ?_⟩
  have h00 : (r.st 0).gs[g]? = some (.at 0) := by
    rw [r.start, init_gs, hg]; simp [hst]
  rcases r.at_stable h00 i (Nat.zero_le _) with ⟨pc, hat⟩ | hd
  · exact absurd ⟨gr, pc, hg, hdm, hat⟩ ((hT i hi).1 g)
  · exact hd

example : ∃ T, ∀ i, T ≤ i → (Demo.fairRun.st i).gs[2]? = some GSt.done :=
  stage_returns_in_every_fair_run Demo.fanin Demo.fanin_wf.1 Demo.fanin_wf.2.1 Demo.fanin_wf.2.2 Demo.fairRun
    Demo.fairRun_fair ⟨4, Demo.fairRun_cancelled⟩ 2 _ rfl (by decide +kernel) (by decide +kernel)

/-! ## 2. the regenerated query pipelines -/

/-- what the rule `keepsReceiving p gname cname k` (by names, `Model/PipeStay.lean`) gives -/
theorem keeps_receiving_sound (p : Pipeline) (gname cname : String) (k : Nat)
    (h : keepsReceiving p gname cname k = true) :
    ∃ (g : Gi) (gr : Goroutine) (c : Ch), p.gs[g]? = some gr ∧ gr.hasRecv c = true ∧
      staysUntil gr c k = true ∧ drainsUntil gr c k = true ∧
      (∀ s, Reach p s → s.gs[g]? = some GSt.done → s.closed c = true ∨ s.ctxDone k = true) := by
  unfold keepsReceiving at h
  split at h
  · rename_i g c _ _
    split at h
    · rename_i gr hg
      simp only [Bool.and_eq_true] at h
      exact ⟨g, gr, c, hg, h.1.1.1, h.1.1.2, h.1.2,
        fun s hr hd => receiver_never_gone p g gr c k hg h.1.1.2 s hr hd⟩
    · cases h
  · cases h

example : keepsReceiving helper_dosnode_mergeErrors "env.caller" "dosnode.mergeErrors.out" 0 = true := by
  decide +kernel

/-- **query_recoverSign_keeps_receiving** (checked rule on the REGENERATED IR).  In each of the three
query pipelines the goroutine `dosnode.recoverSign` (exactly one) receives on
`dosnode.dispatchSign.out` — the channel `dispatchSign` registers with `queryLoop` as the request's
`reply` — and: it returns only after that channel was seen closed or the query context done
(`staysUntil`); every node from which it returns lies in a drain phase in which it offers the receive
and which it leaves only by the closed branch or the context (`drainsUntil`: `drainSigns`, deferred
first, inlined after `close(out)` / `close(errc)` on every exit edge).  Reverting 3a1c0bc, returning
early on a new path, or receiving in the drain loop from another channel breaks this theorem. -/
theorem query_recoverSign_keeps_receiving :
    [query_sys, query_user, query_url].all
      (fun p => keepsReceiving p "dosnode.recoverSign" "dosnode.dispatchSign.out" 0) = true := by
  decide +kernel

/-- non-vacuity: the channel is unbuffered, `queryLoop` (a daemon) has sends on it at four or more
nodes, and the drain phase of `recoverSign` has a node on each of its three exit paths (report done,
input closed, context done) -/
example : [query_sys, query_user, query_url].all (fun p =>
    match p.gsWhere (fun gr => gr.name == "dosnode.recoverSign"),
          (p.chans.zipIdx.filterMap fun x => if x.1.name == "dosnode.dispatchSign.out" then some x.2 else none) with
    | [g], [c] => p.cap c == 0 &&
        p.gs.any (fun gr => gr.name == "dosnode.queryLoop" && gr.daemon &&
          decide (4 ≤ (gr.nodes.filter (Node.sendsOn c)).length)) &&
        (match p.gs[g]? with
         | some gr => decide (3 ≤ ((drainD gr c 0).filter id).length) &&
             gr.hasClose (c + 1) && gr.hasClose (c + 2)
         | none => false)
    | _, _ => false) = true := by decide +kernel

/-- **query_receiver_never_gone.**  In every reachable state of each query pipeline — any schedule, any
instant of the deadline — if `recoverSign` has returned then the reply channel is closed or the query
context is done.  So while a request is registered with `queryLoop` and its context is live (the only
states in which `queryLoop` sends a share to `req.reply`: the send is guarded by `req.ctx.Done()`), and
the channel is open, the stage that receives the shares exists.  (The stage is the one goroutine of the
pipeline named `dosnode.recoverSign`, the channel the one named `dosnode.dispatchSign.out`.) -/
theorem query_receiver_never_gone :
    ∀ p ∈ [query_sys, query_user, query_url],
      ∃ (g : Gi) (gr : Goroutine) (c : Ch), p.gs[g]? = some gr ∧ gr.name = "dosnode.recoverSign" ∧ p.cname c = "dosnode.dispatchSign.out" ∧
        ∀ s, Reach p s → s.gs[g]? = some GSt.done → s.closed c = true ∨ s.ctxDone 0 = true := by
  intro p hp
  have hk := query_recoverSign_keeps_receiving
  rw [List.all_eq_true] at hk
  have h := hk p hp
  have hn : (match p.gsWhere (fun gr => gr.name == "dosnode.recoverSign"),
      (p.chans.zipIdx.filterMap fun x => if x.1.name == "dosnode.dispatchSign.out" then some x.2 else none) with
    | [g], [c] => (match p.gs[g]? with
        | some gr => gr.name == "dosnode.recoverSign" | none => false) && p.cname c == "dosnode.dispatchSign.out"
    | _, _ => false) = true := by
    simp only [List.mem_cons, List.mem_nil_iff, or_false] at hp
    rcases hp with rfl | rfl | rfl <;> decide +kernel
  unfold keepsReceiving at h
  split at h
  · rename_i g c hgs hcs
    rw [hgs, hcs] at hn
    split at h
    · rename_i gr hg
      simp only [hg, Bool.and_eq_true, beq_iff_eq] at hn
      simp only [Bool.and_eq_true] at h
      exact ⟨g, gr, c, hg, hn.1, hn.2, fun s hr hd => receiver_never_gone p g gr c 0 hg h.1.1.2 s hr hd⟩
    · cases h
  · cases h

example : (query_sys.gsWhere (fun gr => gr.name == "dosnode.recoverSign")).length = 1 := by decide +kernel

/-- **query_late_share_is_taken.**  In every run of each query pipeline in which `queryLoop` is weakly
fair (nothing is asked of any other goroutine): if at position `T` `recoverSign` is in its drain loop
(a node of `drainD`: it has reported, or its input was closed, or the context ended, and `out` / `errc`
are closed) and some other goroutine `g'` — `queryLoop` — stands at a `select` with a send on the
reply channel, then `g'` moves at a later position (the late share was taken and dropped, or
`queryLoop` left through `<-req.ctx.Done()`), or the reply channel is closed, or the query context is
done.  Before 3a1c0bc the model has the run in which `queryLoop` waits there until the context ends. -/
theorem query_late_share_is_taken :
    ∀ p ∈ [query_sys, query_user, query_url],
      ∃ (g : Gi) (gr : Goroutine) (c : Ch), p.gs[g]? = some gr ∧ gr.name = "dosnode.recoverSign" ∧ p.cname c = "dosnode.dispatchSign.out" ∧
        ∀ (r : Run p) (g' : Gi), g ≠ g' → WeakFairG r g' → ∀ (T : Nat) (pc pc' n : Pc) (nd' : Node),
          (r.st T).gs[g]? = some (.at pc) → mark (drainD gr c 0) pc = true →
          (r.st T).gs[g']? = some (.at pc') → p.node g' pc' = some nd' → (Lab.send c, n) ∈ nd'.edges →
          ∃ i, T ≤ i ∧ (r.movesAt g' i ∨ (r.st i).closed c = true ∨ (r.st i).ctxDone 0 = true) := by
  intro p hp
  have hk := query_recoverSign_keeps_receiving
  rw [List.all_eq_true] at hk
  have h := hk p hp
  have hsafe : NoCrash p := by
    have hq := query_pipelines_can_always_terminate_and_never_crash.1
    simp only [List.mem_cons, List.mem_nil_iff, or_false] at hp
    rcases hp with rfl | rfl | rfl
    · exact hq.1
    · exact hq.2.1
    · exact hq.2.2
  have hn : (match p.gsWhere (fun gr => gr.name == "dosnode.recoverSign"),
      (p.chans.zipIdx.filterMap fun x => if x.1.name == "dosnode.dispatchSign.out" then some x.2 else none) with
    | [g], [c] => (match p.gs[g]? with
        | some gr => gr.name == "dosnode.recoverSign" | none => false) && p.cname c == "dosnode.dispatchSign.out" &&
        p.cap c == 0
    | _, _ => false) = true := by
    simp only [List.mem_cons, List.mem_nil_iff, or_false] at hp
    rcases hp with rfl | rfl | rfl <;> decide +kernel
  unfold keepsReceiving at h
  split at h
  · rename_i g c hgs hcs
    rw [hgs, hcs] at hn
    split at h
    · rename_i gr hg
      simp only [hg, Bool.and_eq_true, beq_iff_eq] at hn
      simp only [Bool.and_eq_true] at h
      have hdr := h.1.2
      unfold drainsUntil at hdr
      rw [Bool.and_eq_true] at hdr
      refine ⟨g, gr, c, hg, hn.1.1, hn.1.2, ?_⟩
      intro r g' hne hw T pc pc' n nd' hat hm hat' hnd' hed'
      exact late_item_is_taken p hsafe g gr c 0 _ hg hdr.1 (Nat.le_of_eq (drainD_length gr c 0)) hn.2 r g' hne hw
        T pc pc' n nd' hat hm hat' hnd' hed'
    · cases h
  · cases h

/-- non-vacuity: the hypotheses meet on the regenerated IR — `queryLoop` is not `recoverSign`, it has
`select` nodes with a send edge on the reply channel, and `recoverSign` has drain nodes -/
example : [query_sys, query_user, query_url].all (fun p =>
    match p.gsWhere (fun gr => gr.name == "dosnode.recoverSign"), p.gsWhere (fun gr => gr.name == "dosnode.queryLoop"),
          (p.chans.zipIdx.filterMap fun x => if x.1.name == "dosnode.dispatchSign.out" then some x.2 else none) with
    | [g], [g'], [c] => g != g' && (match p.gs[g]?, p.gs[g']? with
        | some gr, some gq => (drainD gr c 0).any id && gq.nodes.any (fun nd => nd.edges.any (fun e => e.1 == Lab.send c))
        | _, _ => false)
    | _, _, _ => false) = true := by decide +kernel

/-- **query_recoverSign_returns_when_the_context_ends.**  The drain loop is part of the termination
theorems: in every fair run of each query pipeline in which the query context is eventually done (both
callers set a deadline: `callers_set_a_deadline`), `recoverSign` — drain loop included — has returned
for ever from some position on. -/
theorem query_recoverSign_returns_when_the_context_ends :
    ∀ p ∈ [query_sys, query_user, query_url], ∀ (r : Run p), Fair r → (∃ i, (r.st i).ctxDone 0 = true) →
      ∀ (g : Gi) (gr : Goroutine), p.gs[g]? = some gr → gr.name = "dosnode.recoverSign" →
        ∃ T, ∀ i, T ≤ i → (r.st i).gs[g]? = some GSt.done := by
  intro p hp r hf hc g gr hg hname
  have hwf : subsetOf (violations p) Gen.PipeKnown.sites = true := by
    simp only [List.mem_cons, List.mem_nil_iff, or_false] at hp
    rcases hp with rfl | rfl | rfl
    · exact query_sys_wf
    · exact query_user_wf
    · exact query_url_wf
  obtain ⟨h0, hs, hl⟩ := wf_of_no_violation p (benign_of_subset hwf known_findings_are_benign)
  have hsd : p.gs.all (fun gr => gr.name != "dosnode.recoverSign" || (gr.static && !gr.daemon)) = true := by
    simp only [List.mem_cons, List.mem_nil_iff, or_false] at hp
    rcases hp with rfl | rfl | rfl <;> decide +kernel
  rw [List.all_eq_true] at hsd
  have := hsd gr (List.mem_of_getElem? hg)
  simp only [hname, bne_self_eq_false, Bool.false_or, Bool.and_eq_true, Bool.not_eq_true'] at this
  exact stage_returns_in_every_fair_run p h0 hs hl r hf hc g gr hg this.1 this.2

example : query_sys.gs.any (fun gr => gr.name == "dosnode.recoverSign" && gr.static && !gr.daemon) = true := by
  decide +kernel

end Dos.Props.C14

package p2pflow

// Connection-table facts (C16/C17 round 3): the statement skeleton of the server-level
// connection handling of p2p/server.go (Listen's accept goroutine, receiveHandler, callHandler,
// runClient, handleCallReq, DisConnectTo) and of the per-connection key material of
// p2p/client.go (newClient, receiveID, sendID), plus the facts the model
// Model/ConnTable.lean is instantiated with: under which key each table is read / written /
// deleted, which table a connection that ends is reported to depending on who started it,
// what the duplicate-connection guard compares, where the session key and the request nonces
// of a connection come from.

import (
	"fmt"
	"go/ast"
	"go/token"
	"strings"

	"verifharness/extract/ex"
)

// skeleton lists every simple statement of body (logging and error wrapping left out) with the
// path of the enclosing case / if / for / go headers.
func skeleton(name string, body *ast.BlockStmt) []string {
	var out []string
	var rec func(path string, s ast.Stmt)
	emit := func(path, t string) {
		if strings.HasPrefix(t, "n.logger.") || strings.HasPrefix(t, "defer n.logger.") ||
			strings.HasPrefix(t, "err = &P2PError") || strings.HasPrefix(t, "err := &P2PError") ||
			strings.HasPrefix(t, "errors.Errorf(") {
			return
		}
		out = append(out, name+path+" | "+t)
	}
	block := func(path string, b *ast.BlockStmt) {
		if b == nil {
			return
		}
		for _, s := range b.List {
			rec(path, s)
		}
	}
	funcLits := func(path string, n ast.Node) {
		ast.Inspect(n, func(x ast.Node) bool {
			if fl, ok := x.(*ast.FuncLit); ok {
				block(path+" | func", fl.Body)
				return false
			}
			return true
		})
	}
	rec = func(path string, s ast.Stmt) {
		switch x := s.(type) {
		case *ast.BlockStmt:
			block(path, x)
		case *ast.IfStmt:
			h := txt(x.Cond)
			if x.Init != nil {
				h = txt(x.Init) + "; " + h
				emit(path, txt(x.Init)) // the init statement runs whatever the condition says
			}
			block(path+" | if "+h, x.Body)
			if x.Else != nil {
				rec(path+" | else("+h+")", x.Else)
			}
		case *ast.ForStmt:
			block(path+" | for", x.Body)
		case *ast.RangeStmt:
			h := "range " + txt(x.X)
			if x.Key != nil {
				k := txt(x.Key)
				if x.Value != nil {
					k += ", " + txt(x.Value)
				}
				h = k + " " + x.Tok.String() + " " + h
			}
			emit(path, "for "+h)
			block(path+" | "+h, x.Body)
		case *ast.SelectStmt:
			for _, c := range x.Body.List {
				cc := c.(*ast.CommClause)
				h := "default"
				if cc.Comm != nil {
					h = "case " + txt(cc.Comm)
				}
				for _, b := range cc.Body {
					rec(path+" | "+h, b)
				}
				if len(cc.Body) == 0 {
					emit(path+" | "+h, "(empty)")
				}
			}
		case *ast.SwitchStmt:
			for _, c := range x.Body.List {
				cc := c.(*ast.CaseClause)
				for _, b := range cc.Body {
					rec(path+" | switch-case", b)
				}
			}
		case *ast.LabeledStmt:
			rec(path, x.Stmt)
		case *ast.GoStmt:
			if fl, ok := x.Call.Fun.(*ast.FuncLit); ok {
				block(path+" | go func", fl.Body)
			} else {
				emit(path, txt(x))
			}
		case *ast.DeferStmt:
			if fl, ok := x.Call.Fun.(*ast.FuncLit); ok {
				block(path+" | defer func", fl.Body)
			} else {
				emit(path, txt(x))
			}
		case *ast.DeclStmt:
			// declarations without initial value carry no behaviour
			if gd, ok := x.Decl.(*ast.GenDecl); ok {
				for _, sp := range gd.Specs {
					if vs, ok := sp.(*ast.ValueSpec); ok && len(vs.Values) > 0 {
						emit(path, txt(x))
					}
				}
			}
		default:
			t := txt(s)
			if strings.Contains(t, "func()") || strings.Contains(t, "func(") {
				// a statement carrying a function literal: the literal's statements
				funcLits(path, s)
				return
			}
			emit(path, t)
		}
	}
	block("", body)
	return out
}

// keyOfIndex returns the text of the index of the first `tbl[...]` expression inside n.
func keyOfIndex(n ast.Node, tbl string) string {
	k := ""
	ast.Inspect(n, func(x ast.Node) bool {
		if ix, ok := x.(*ast.IndexExpr); ok && txt(ix.X) == tbl && k == "" {
			k = txt(ix.Index)
		}
		return true
	})
	return k
}

// commCase finds the select clause of fn whose communication mentions ch.
func commCase(fn *ast.FuncDecl, ch string) *ast.CommClause {
	var found *ast.CommClause
	ast.Inspect(fn, func(x ast.Node) bool {
		if cc, ok := x.(*ast.CommClause); ok && cc.Comm != nil && found == nil && strings.Contains(txt(cc.Comm), ch) {
			found = cc
		}
		return true
	})
	return found
}

type tableFacts struct {
	lookupKey, guardKey, storeKey, removeKey string
	guardCloses                              bool // the guard's body closes the new client and skips the store
	runArgs                                  []string
}

func clauseFacts(fn *ast.FuncDecl, addCh, rmCh string) (t tableFacts) {
	if cc := commCase(fn, rmCh); cc != nil {
		for _, b := range cc.Body {
			ast.Inspect(b, func(x ast.Node) bool {
				if c, ok := x.(*ast.CallExpr); ok && txt(c.Fun) == "delete" && len(c.Args) == 2 && txt(c.Args[0]) == "clients" {
					t.removeKey = txt(c.Args[1])
				}
				return true
			})
		}
	}
	if cc := commCase(fn, addCh); cc != nil {
		for _, b := range cc.Body {
			ast.Inspect(b, func(x ast.Node) bool {
				switch y := x.(type) {
				case *ast.IfStmt:
					if k := keyOfIndex(y.Cond, "clients"); k != "" && t.guardKey == "" && strings.Contains(txt(y.Cond), "!= nil") {
						t.guardKey = k
						closes, skips := false, false
						for _, s := range y.Body.List {
							if strings.Contains(txt(s), ".close()") {
								closes = true
							}
							if br, ok := s.(*ast.BranchStmt); ok && br.Tok == token.CONTINUE {
								skips = true
							}
						}
						t.guardCloses = closes && skips
					}
					if y.Init != nil {
						if k := keyOfIndex(y.Init, "clients"); k != "" && t.lookupKey == "" {
							t.lookupKey = k
						}
					}
				case *ast.AssignStmt:
					if len(y.Lhs) == 1 {
						if ix, ok := y.Lhs[0].(*ast.IndexExpr); ok && txt(ix.X) == "clients" {
							t.storeKey = txt(ix.Index)
						}
					}
				case *ast.GoStmt:
					if strings.HasSuffix(txt(y.Call.Fun), ".runClient") {
						for _, a := range y.Call.Args {
							t.runArgs = append(t.runArgs, txt(a))
						}
					}
				}
				return true
			})
		}
	}
	return
}

func paramIndex(fn *ast.FuncDecl, name string) int {
	i := 0
	for _, f := range fn.Type.Params.List {
		for _, n := range f.Names {
			if n.Name == name {
				return i
			}
			i++
		}
	}
	return -1
}

func params(fn *ast.FuncDecl) string {
	var ps []string
	for _, f := range fn.Type.Params.List {
		var ns []string
		for _, n := range f.Names {
			ns = append(ns, n.Name)
		}
		ps = append(ps, strings.Join(ns, ", ")+" "+txt(f.Type))
	}
	return strings.Join(ps, ", ")
}

func newClientArg(body ast.Node, idx int) string {
	r := ""
	ast.Inspect(body, func(x ast.Node) bool {
		if c, ok := x.(*ast.CallExpr); ok && txt(c.Fun) == "newClient" && r == "" && idx >= 0 && idx < len(c.Args) {
			r = txt(c.Args[idx])
		}
		return true
	})
	return r
}

func lstr(ss []string) string {
	var q []string
	for _, s := range ss {
		q = append(q, "  "+ex.LeanStr(s))
	}
	return "[\n" + strings.Join(q, ",\n") + "]"
}

func connTableFacts(cf, sf *ast.File) (string, error) {
	recvH := ex.FuncDecl(sf, "server", "receiveHandler")
	callH := ex.FuncDecl(sf, "server", "callHandler")
	runC := ex.FuncDecl(sf, "server", "runClient")
	hcr := ex.FuncDecl(sf, "server", "handleCallReq")
	disc := ex.FuncDecl(sf, "server", "DisConnectTo")
	listen := ex.FuncDecl(sf, "server", "Listen")
	newC := ex.FuncDecl(cf, "", "newClient")
	rid := ex.FuncDecl(cf, "client", "receiveID")
	sid := ex.FuncDecl(cf, "client", "sendID")
	disp := ex.FuncDecl(cf, "client", "dispatch")
	for _, f := range []*ast.FuncDecl{recvH, callH, runC, hcr, disc, listen, newC, rid, sid, disp} {
		if f == nil {
			return "", fmt.Errorf("connection-table functions not found in p2p/server.go / p2p/client.go")
		}
	}
	// the accept goroutine of Listen: the function literal that calls newClient
	var accept *ast.FuncLit
	ast.Inspect(listen, func(x ast.Node) bool {
		if fl, ok := x.(*ast.FuncLit); ok && accept == nil && newClientArg(fl.Body, 0) != "" {
			accept = fl
		}
		return true
	})
	if accept == nil {
		return "", fmt.Errorf("Listen no longer creates a client per accepted connection")
	}

	var skel []string
	skel = append(skel, skeleton("accept", accept.Body)...)
	skel = append(skel, skeleton("receiveHandler", recvH.Body)...)
	skel = append(skel, skeleton("callHandler", callH.Body)...)
	skel = append(skel, skeleton("runClient("+params(runC)+")", runC.Body)...)
	skel = append(skel, skeleton("handleCallReq", hcr.Body)...)
	skel = append(skel, skeleton("DisConnectTo", disc.Body)...)
	skel = append(skel, skeleton("newClient("+params(newC)+")", newC.Body)...)
	for _, l := range skeleton("receiveID", rid.Body) { // key agreement only
		if strings.Contains(l, "dhKey") || strings.Contains(l, "dhNonce") || strings.Contains(l, "remotePubKey") || strings.Contains(l, "c.remoteID") {
			skel = append(skel, l)
		}
	}
	for _, l := range skeleton("sendID", sid.Body) {
		if strings.Contains(l, "localPubKey") || strings.Contains(l, "pID") {
			skel = append(skel, l)
		}
	}

	in := clauseFacts(recvH, "n.addIncomingC", "n.removeIncomingC")
	out := clauseFacts(callH, "n.calling", "n.removeCallingC")
	// reply routing: the table lookup of the `replying` clause
	replyKey := ""
	if cc := commCase(recvH, "n.replying"); cc != nil {
		for _, b := range cc.Body {
			if k := keyOfIndex(b, "clients"); k != "" && replyKey == "" {
				replyKey = k
			}
		}
	}
	// callHandler refuses a connection whose announced id differs from the dialled one, before the store
	idMatch := false
	ast.Inspect(callH, func(x ast.Node) bool {
		if is, ok := x.(*ast.IfStmt); ok && txt(is.Cond) == "string(c.remoteID) != string(req.id)" {
			closes, skips := false, false
			for _, s := range is.Body.List {
				if strings.Contains(txt(s), "c.close()") {
					closes = true
				}
				if br, ok := s.(*ast.BranchStmt); ok && br.Tok == token.CONTINUE {
					skips = true
				}
			}
			idMatch = closes && skips
		}
		return true
	})

	// runClient: which channel gets what, depending on what
	cond, thenCh, elseCh, sent := "", "", "", ""
	ast.Inspect(runC, func(x ast.Node) bool {
		switch y := x.(type) {
		case *ast.IfStmt:
			if len(y.Body.List) == 1 && strings.HasPrefix(txt(y.Body.List[0]), "delpeer = ") {
				cond = txt(y.Cond)
				thenCh = strings.TrimPrefix(txt(y.Body.List[0]), "delpeer = ")
				if eb, ok := y.Else.(*ast.BlockStmt); ok && len(eb.List) == 1 {
					elseCh = strings.TrimPrefix(txt(eb.List[0]), "delpeer = ")
				}
			}
		case *ast.SendStmt:
			if txt(y.Chan) == "delpeer" {
				sent = txt(y.Value)
			}
		}
		return true
	})
	// the value of the condition for a client started by receiveHandler / by callHandler
	dirOf := func(args []string, creator ast.Node) string {
		if i := paramIndex(runC, cond); i >= 0 {
			if i < len(args) {
				return args[i]
			}
			return "?"
		}
		if cond == "c.inBound" || cond == "!c.inBound" {
			// the field is set by newClient from one of its parameters: what was passed where the client was made
			pi := -1
			ast.Inspect(newC, func(x ast.Node) bool {
				if kv, ok := x.(*ast.KeyValueExpr); ok && txt(kv.Key) == "inBound" {
					pi = paramIndex(newC, txt(kv.Value))
				}
				return true
			})
			v := newClientArg(creator, pi)
			if cond == "!c.inBound" {
				switch v {
				case "true":
					v = "false"
				case "false":
					v = "true"
				}
			}
			return v
		}
		return "?"
	}
	chanFor := func(v string) string {
		switch v {
		case "true":
			return thenCh
		case "false":
			return elseCh
		}
		return "?"
	}
	inboundCh := chanFor(dirOf(in.runArgs, accept.Body))
	outboundCh := chanFor(dirOf(out.runArgs, hcr))

	// DisConnectTo: channel and value
	discCh, discVal := "", ""
	ast.Inspect(disc, func(x ast.Node) bool {
		if s, ok := x.(*ast.SendStmt); ok {
			discCh, discVal = txt(s.Chan), txt(s.Value)
		}
		return true
	})

	// session key: derived in receiveID from this connection's own secret and the presented key
	sessKey := false
	{
		t := txt(rid.Body)
		sessKey = strings.Contains(t, "dhKey := c.suite.Point().Mul(c.localSecKey, c.remotePubKey)") &&
			strings.Contains(t, "c.dhKey = dhBytes[0:32]") && strings.Contains(t, "c.dhNonce = dhBytes[32:44]") &&
			strings.Contains(t, "c.remotePubKey = pub")
	}
	// neither creation site hands key material to newClient (it draws its own)
	nArgsOK := len(newC.Type.Params.List) > 0 && paramIndex(newC, "secKey") < 0 && paramIndex(newC, "pubKey") < 0

	// request nonces: dispatch starts at the connection's base, newClient draws the base at random
	nonceBase := false
	{
		starts := false
		walk(disp, func(n ast.Node, st []ast.Node) {
			if a, ok := n.(*ast.AssignStmt); ok && txt(a) == "nonce := c.nonceBase" {
				starts = true
			}
		})
		draws := strings.Contains(txt(newC.Body), "binary.Read(rand.Reader, binary.BigEndian, &c.nonceBase)")
		cryptoRand := false
		for _, im := range cf.Imports {
			if im.Path.Value == "\"crypto/rand\"" && im.Name == nil {
				cryptoRand = true
			}
		}
		otherWrites := 0
		for _, fn := range cf.Decls {
			if fd, ok := fn.(*ast.FuncDecl); ok {
				ast.Inspect(fd, func(x ast.Node) bool {
					if a, ok := x.(*ast.AssignStmt); ok {
						for _, l := range a.Lhs {
							if txt(l) == "c.nonceBase" {
								otherWrites++
							}
						}
					}
					return true
				})
			}
		}
		nonceBase = starts && draws && cryptoRand && otherWrites == 0
	}

	s := "/-- statement skeleton (logging left out) of Listen's accept goroutine, receiveHandler, callHandler, runClient,\nhandleCallReq, DisConnectTo, newClient and the key agreement of receiveID / sendID -/\n"
	s += "def connTableSkeleton : List String := " + lstr(skel) + "\n"
	str := func(doc, name, v string) {
		s += "/-- " + doc + " -/\n" + fmt.Sprintf("def %s : String := %s\n", name, ex.LeanStr(v))
	}
	str("receiveHandler: key the duplicate-connection guard looks the table up with", "inGuardKey", in.guardKey)
	str("receiveHandler: key a new inbound client is stored under", "inStoreKey", in.storeKey)
	str("receiveHandler: key deleted when a removal is reported", "inRemoveKey", in.removeKey)
	str("receiveHandler: key a Reply picks the connection with", "replyLookupKey", replyKey)
	str("callHandler: key a Request picks the connection with", "outLookupKey", out.lookupKey)
	str("callHandler: key a dialled client is stored under", "outStoreKey", out.storeKey)
	str("callHandler: key deleted when a removal is reported", "outRemoveKey", out.removeKey)
	str("runClient: what it reports when client.run has returned", "runClientReports", sent)
	str("runClient: the channel a client started by receiveHandler is reported on", "inboundEndChannel", inboundCh)
	str("runClient: the channel a client started by callHandler is reported on", "outboundEndChannel", outboundCh)
	str("DisConnectTo: the channel the id is sent on", "disconnectChannel", discCh)
	str("DisConnectTo: what is sent", "disconnectSends", discVal)
	s += "/-- the duplicate-connection guard closes the new client and skips the store -/\n"
	s += fmt.Sprintf("def inGuardClosesNew : Bool := %s\n", lb(in.guardCloses))
	s += "/-- callHandler closes and skips a dialled connection whose announced id is not the dialled one -/\n"
	s += fmt.Sprintf("def callRefusesOtherId : Bool := %s\n", lb(idMatch))
	s += "/-- receiveID derives the AES key and the GCM nonce from this connection's own secret and the key presented in the handshake; newClient is not handed key material -/\n"
	s += fmt.Sprintf("def sessionKeyFromHandshake : Bool := %s\n", lb(sessKey && nArgsOK))
	s += "/-- dispatch starts its nonces at c.nonceBase, which newClient (and nothing else) draws from crypto/rand -/\n"
	s += fmt.Sprintf("def nonceBasePerConnection : Bool := %s\n", lb(nonceBase))
	return s, nil
}

/-
C11 (and C06) composed with C10 — the Montgomery layer.

`Props/C11.lean` `limb_level_roundtrip` and `Props/C06.lean` `emitted_coordinates_canonical` are about
`Bn256.redc / montEncode / montDecode` of `Model/Bn256.lean`; C10 proves `redc_correct` for
`Mont.redc p np` (`Model/Mont.lean`) and that the interpreted assembly of `gfpMul` stores
`Mont.mulM p np a b` for every machine state.  The two developments prove `redc < p` separately; these
theorems IDENTIFY the two definitions (so that a change to one is noticed) and re-derive the C11/C06
facts from C10's theorem:

* `redc_is_c10_redc`            — the two `redc` are the same function at the code's constants (by `rfl`);
* `constants_are_c10_constants` — `p`, `np`, `R` of `Model/Bn256.lean` are the numbers spelled by the limb
  lists `p2`, `np` regenerated from constants.go for C10 (`Gen/Bn256Consts.lean`), `r` its `Order`;
* `montEncode_is_gfpMul`, `montDecode_is_gfpMul` — what C11 calls `montEncode a` / `montDecode a` is
  exactly the value C10's `gfpMul_asm` shows the assembly to store for `(a, r2)` / `(a, 1)`;
* `redc_lt_from_c10` — C06/C11's `redc_lt` + `redc_spec` obtained by instantiating C10's `redc_correct`.

NOT composed (reported in design/Compose.md): C10's curve / tower / field model files and
`Model/Bn256.lean` both declare `Dos.Bn256.p`, `np`, `Fp2`, … — they cannot be imported into one Lean
environment, so `g2_group_law` (C10) cannot be applied to `Bn256.G2` (C11) without renaming one of them.
-/
import DosModel.Props.C11
import DosModel.Proofs.MontRedc
import DosModel.Gen.Bn256Consts

namespace Dos.Props.C11Compose
open Dos Dos.Bn256

/-- **the two Montgomery reductions are one function**: C06/C11's `redc` (`Model/Bn256.lean`) is C10's
`Mont.redc` (`Model/Mont.lean`) at the modulus and `np` of the code — definitionally -/
theorem redc_is_c10_redc (T : Nat) : Bn256.redc T = Mont.redc Bn256.p Bn256.np T := rfl

/-- the constants of the codec model are the ones C10's field model is built from: the value of the
regenerated limb lists `p2`, `np` (what `Bn256Field.p`, `.np` are defined as), radix `2^256`, and the
decimal constants `P`, `Order` of constants.go -/
theorem constants_are_c10_constants :
    Bn256.p = (Mont.L4.ofList Gen.Bn256.p2).val ∧ Bn256.np = (Mont.L4.ofList Gen.Bn256.np).val
    ∧ Bn256.R = Mont.R ∧ Bn256.p = Gen.Bn256.P ∧ Bn256.r = Gen.Bn256.Order := by decide

/-- hypothesis `hnp` of C10 `redc_correct` for the codec's constants -/
theorem np_is_negated_inverse : (Bn256.np * Bn256.p + 1) % Mont.R = 0 := by decide

/-- **C06/C11's `redc_lt` and `redc_spec` are instances of C10's `redc_correct`** -/
theorem redc_lt_from_c10 (T : Nat) (hT : T < Bn256.R * Bn256.p) :
    Bn256.redc T < Bn256.p ∧ Bn256.redc T * Bn256.R ≡ T [MOD Bn256.p] :=
  Mont.redc_correct Bn256.p Bn256.np T np_is_negated_inverse hT

/-- `montDecode a` (what `MarshalBinary` writes for the limbs `a`) is the value C10 proves `gfpMul(c, a, 1)`
to store -/
theorem montDecode_is_gfpMul (a : Nat) (ha : a < Bn256.R) :
    montDecode a = Mont.mulM Bn256.p Bn256.np a 1 := by
  have hT : a * 1 < Bn256.R * Bn256.p := by
    rw [Nat.mul_one]; exact Nat.lt_of_lt_of_le ha (Nat.le_mul_of_pos_right _ (by decide))
  have hlt : Bn256.redc (a * 1) < Mont.R :=
    Nat.lt_trans (redc_lt_from_c10 _ hT).1 (by decide)
  show Bn256.redc (a * 1) = Mont.redc Bn256.p Bn256.np (a * 1) % Mont.R
  rw [← redc_is_c10_redc, Nat.mod_eq_of_lt hlt]

/-- `montEncode a` (what `UnmarshalBinary` stores for the word `a`) is the value C10 proves
`gfpMul(c, a, r2)` to store -/
theorem montEncode_is_gfpMul (a : Nat) (ha : a < Bn256.R) :
    montEncode a = Mont.mulM Bn256.p Bn256.np a Bn256.r2 := by
  have hT : a * Bn256.r2 < Bn256.R * Bn256.p :=
    Nat.mul_lt_mul_of_lt_of_le ha (by decide) (by decide)
  have hlt : Bn256.redc (a * Bn256.r2) < Mont.R :=
    Nat.lt_trans (redc_lt_from_c10 _ hT).1 (by decide)
  show Bn256.redc (a * Bn256.r2) = Mont.redc Bn256.p Bn256.np (a * Bn256.r2) % Mont.R
  rw [← redc_is_c10_redc, Nat.mod_eq_of_lt hlt]

/-- C06 `emitted_coordinates_canonical` re-derived through C10: every emitted word is `< p` and is the
Montgomery decoding `a·R⁻¹` -/
theorem emitted_word_canonical_from_c10 (a : Nat) (ha : a < Bn256.R) :
    montDecode a < Bn256.p ∧ montDecode a * Bn256.R ≡ a [MOD Bn256.p] := by
  have hT : a * 1 < Bn256.R * Bn256.p := by
    rw [Nat.mul_one]; exact Nat.lt_of_lt_of_le ha (Nat.le_mul_of_pos_right _ (by decide))
  obtain ⟨h1, h2⟩ := redc_lt_from_c10 (a * 1) hT
  exact ⟨h1, h2.trans (by rw [Nat.mul_one])⟩

/-! non-vacuity -/
example : Bn256.redc (Bn256.R * Bn256.p - 1) = Mont.redc Bn256.p Bn256.np (Bn256.R * Bn256.p - 1) :=
  redc_is_c10_redc _
example : montEncode 2 = Mont.mulM Bn256.p Bn256.np 2 Bn256.r2 := montEncode_is_gfpMul 2 (by decide)
example : montDecode (montEncode 2) < Bn256.p :=
  (emitted_word_canonical_from_c10 _ (Nat.lt_trans (Dos.Bn256.montEncode_lt 2 (by decide)) (by decide))).1

end Dos.Props.C11Compose

/-
C20 (round 4) — COMPOSITION: the group record the Schnorr model needs (`Schnorr.Grp`), built from the translated
ref10 code, is `Lawful` — so `Lawful g` is no longer a hypothesis about the point code.

`codeGrp : Grp Pt` (G = the curve points, a commutative group by Proofs/EdwardsAssoc.lean):
  add P Q  := the point represented by `ptAdd` (point.Add over ge.go) applied to representations of P and Q
  smul n P := for n < 2^255 (the documented precondition a[31] ≤ 127 of geScalarMult): the point represented by
              `geScalarMult` on the 32 little-endian bytes of n; for larger n (no caller of the Schnorr theorems
              with canonical scalars gets there) the mathematical n • P
  base     := the point represented by the constant `baseext`
  enc P    := `extToBytes` (point.MarshalBinary) of a representation of P
  dec b    := `extFromBytes b` (point.UnmarshalBinary), read as a point
Representations are chosen (`repr`), but every theorem used holds for ALL good representations.
-/
import DosModel.Proofs.Schnorr
import DosModel.Proofs.GeEnc

set_option exponentiation.threshold 600

namespace Dos.Ge
open Dos Dos.Ed25519 Dos.FeProg Dos.FeOps Dos.GeProg Dos.Ed25519Prime Dos.Edwards Dos.Schnorr

/-- some good representation of P (the decoding of its encoding is one) -/
noncomputable def repr (P : Pt) : Ext :=
  open Classical in if h : ∃ e, GoodExt e P then Classical.choose h else default

theorem repr_good {P : Pt} (h : ∃ e, GoodExt e P) : GoodExt (repr P) P := by
  unfold repr
  rw [dif_pos h]
  exact Classical.choose_spec h

/-- the group record of the translated code -/
noncomputable def codeGrp : Grp Pt :=
  { add := fun P Q => absPt (ptAdd (repr P) (repr Q))
    smul := fun n P => if n < 2 ^ 255 then absPt (geScalarMult (natLE 32 n) (repr P)) else n • P
    base := absPt baseExt
    enc := fun P => extToBytes (repr P)
    dec := fun b => (extFromBytes b).map absPt }

/-- what the remaining layers provide -/
structure CodeFacts : Prop where
  dec_enc : ∀ P : Pt, ∃ e, extFromBytes (encPt P) = some e ∧ GoodExt e P
  smul : ∀ (a : Bytes), a.length = 32 → (a.getD 31 0).toNat ≤ 127 → ∀ {A : Ext} {P : Pt}, GoodExt A P →
    GoodExt (geScalarMult a A) (leNat a • P)
  order : ell • basePt = 0

theorem natLE_top (n : Nat) (h : n < 2 ^ 255) : ((natLE 32 n).getD 31 0).toNat ≤ 127 := by
  rw [natLE_succ_append 31 n]
  have hl : (natLE 31 n).length = 31 := natLE_length _ _
  have g : (natLE 31 n ++ [UInt8.ofNat (n / 256 ^ 31 % 256)]).getD 31 0 = UInt8.ofNat (n / 256 ^ 31 % 256) := by
    simp [List.getD, hl]
  rw [g, UInt8.toNat_ofNat']
  have hq : n / 256 ^ 31 < 128 := by
    rw [Nat.div_lt_iff_lt_mul (by positivity)]
    have : (128 : Nat) * 256 ^ 31 = 2 ^ 255 := by norm_num
    omega
  omega

/-- **the translated point code is a lawful group record** -/
theorem codeGrp_lawful (cf : CodeFacts) : Lawful codeGrp := by
  have hrep : ∀ P : Pt, GoodExt (repr P) P := fun P => by
    obtain ⟨e, _, he⟩ := cf.dec_enc P
    exact repr_good ⟨e, he⟩
  refine ⟨?_, ?_, ?_, ?_, ?_⟩
  · intro P Q
    exact absPt_of_good (ptAdd_spec (hrep P) (hrep Q))
  · intro n P
    show (if n < 2 ^ 255 then absPt (geScalarMult (natLE 32 n) (repr P)) else n • P) = n • P
    split
    · rename_i hn
      have h := cf.smul (natLE 32 n) (natLE_length _ _) (natLE_top n hn) (hrep P)
      have hlt : n < 256 ^ 32 := by
        have : (2 : Nat) ^ 255 < 256 ^ 32 := by norm_num
        omega
      rw [leNat_natLE_of_lt 32 n hlt] at h
      exact absPt_of_good h
    · rfl
  · show ell • absPt baseExt = 0
    rw [absPt_of_good baseExt_good]
    exact cf.order
  · intro P
    show (extToBytes (repr P)).length = 32
    rw [extToBytes_spec (hrep P)]
    exact encPt_length P
  · intro P
    show (extFromBytes (extToBytes (repr P))).map absPt = some P
    rw [extToBytes_spec (hrep P)]
    obtain ⟨e, h1, h2⟩ := cf.dec_enc P
    rw [h1]
    show some (absPt e) = some P
    rw [absPt_of_good h2]

theorem codeGrp_base : codeGrp.base = basePt := absPt_of_good baseExt_good

theorem codeGrp_base_ne_zero : codeGrp.base ≠ 0 := by
  rw [codeGrp_base]; exact basePt_ne_zero

end Dos.Ge

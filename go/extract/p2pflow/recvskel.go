package p2pflow

// Statement skeleton of the per-frame receive / send path of p2p/client.go (C16 round 5, review 5-D
// finding 3): the pattern facts (`guardLeaves`: "some if mentions the verify call and leaves") say
// that a check EXISTS, not that every frame reaches it — `if veifyfn != nil && !pa.GetReplyFlag()`
// or forwarding replies before the second bls.Verify changed none of them. The skeleton pins
// where each check stands: text-exact, with the path of enclosing case / if / for headers.

import (
	"fmt"
	"go/ast"

	"verifharness/extract/ex"
)

func recvSkeletonFacts(cf *ast.File) (string, error) {
	type fn struct{ recv, name string }
	var skel []string
	for _, f := range []fn{{"client", "decryptPipe"}, {"client", "decodePipe"}, {"", "decodeBytes"}, {"client", "verifyFn"},
		{"client", "signFn"}, {"", "encodeProto"}, {"client", "encryptPipe"}, {"client", "reportMsg"},
		{"client", "handShake"}, {"client", "sendID"}, {"client", "receiveID"}} {
		d := ex.FuncDecl(cf, f.recv, f.name)
		if d == nil {
			return "", fmt.Errorf("p2p/client.go: %s not found", f.name)
		}
		skel = append(skel, skeleton(f.name+"("+params(d)+")", d.Body)...)
	}
	s := "/-- statement skeleton of decryptPipe, decodePipe, decodeBytes, verifyFn, signFn, encodeProto, encryptPipe, reportMsg, handShake, sendID, receiveID (p2p/client.go) -/\n"
	s += "def recvPathSkeleton : List String := " + lstr(skel) + "\n"
	return s, nil
}

/-
The watchdog of `pdkg.Loop` (round 5, review C finding 4): once a minute `Loop` runs the closure
`expire` over each of its three (buffer map, request map) pairs.  `expire` ranges over the REGISTERED
REQUESTS (`for _, req := range sessionReq`); for a request whose context is done it closes the reply
channel and deletes the session's buffer and request.  A session without a registered request is
not visited: messages that arrived before the local `Grouping` call stay buffered.  The text of
`Loop` (closure included) is pinned by `c04_code_shape` (`Gen.VssFacts.loopWhole`).

`done` says whether `<-req.ctx.Done()` is ready at the tick.  Deadlines are otherwise outside the
model (`Model/DkgSession.lean`): in the runs the liveness theorem speaks about no context is done,
and a tick is then the identity (`Member.tick_false`).
-/
import DosModel.Model.DkgNet

namespace Dos.Dkg
open Dos Dos.Vss

/-- `expire` on the pair of one session: new pair, and whether the reply channel was closed -/
def expire {M : Type} (p : Pair M) (done : Bool) : Pair M × Bool :=
  match p.req with
  | none => (p, false)                                   -- not in `sessionReq`: not visited
  | some _ => if done then (⟨[], none⟩, true) else (p, false)

/-- the reviewer's escape E7 / seeded change C04f-watchdog: buffers nobody asked for are deleted too -/
def expireDropUnasked {M : Type} (p : Pair M) (done : Bool) : Pair M × Bool :=
  match p.req with
  | none => (⟨[], none⟩, false)
  | some _ => if done then (⟨[], none⟩, true) else (p, false)

section
variable {S P : Type}

/-- one tick of the watchdog at a member; a closed reply channel ends the stage waiting on it (its
`ok` is false, it returns, the pipeline drains without a result) -/
def Member.tickWith (ex : {M : Type} → Pair M → Bool → Pair M × Bool) (m : Member S P) (done : Bool) : Member S P :=
  let a := ex m.pkP done
  let b := ex m.dlP done
  let c := ex m.rsP done
  let closed := a.2 || b.2 || c.2
  { m with pkP := a.1, dlP := b.1, rsP := c.1,
           stage := if closed then (match m.stage with
                                    | .done d ks => .done d ks
                                    | .failed w => .failed w
                                    | _ => .failed "deadline") else m.stage }

def Member.tick (m : Member S P) (done : Bool) : Member S P := m.tickWith (fun p d => expire p d) done

/-- events of a group with watchdog ticks -/
inductive EvT where
  | ev (e : Ev)
  | tick (i : Nat) (done : Bool)
  deriving DecidableEq, Repr

end

section
variable {S P : Type} [DecidableEq S] [DecidableEq P]
variable [Zero P] [Add P] [SMul S P] [IntCast S] [Mul S] [Add S] [Zero S]

def stepEvT (g : P) (s : Sys S P) : EvT → Sys S P
  | .ev e => stepEv g s e
  | .tick i done => { s with ms := s.ms.modify i (fun m => m.tick done) }

def runEventsT (c : Cfg S P) (ephs : List (List S)) (evs : List EvT) : Sys S P :=
  evs.foldl (stepEvT c.g) (initSys c ephs)

/-- the schedule without its ticks -/
def dropTicks : List EvT → List Ev
  | [] => []
  | .ev e :: r => e :: dropTicks r
  | .tick _ _ :: r => dropTicks r

end

end Dos.Dkg

/-
C09 — secret-sharing algebra: reconstruction, commitments and equality are exact.

Every theorem is about the functions of `Model/Share.lean` (the statement-by-statement model of
`share/poly.go`), instantiated at an ARBITRARY field `F` (scalars) and `F`-module `G` (points):
no bound on threshold, share count, polynomial, subset or order.  `CharGt F n` says that
`1, …, n` are non-zero in `F` (true for `ℤ/q` with `n < q`).  The last section instantiates
the theorems at `Zq q`, the very type the driver executes (a field for prime `q` by
`Proofs/ShareZq.lean`), so model-as-run and model-as-proved are the same functions.
Helper lemmas: `Proofs/Share.lean`, `Proofs/SharePoly.lean`, `Proofs/Lagrange.lean`.
-/
import DosModel.Proofs.Share
import DosModel.Proofs.SharePoly
import DosModel.Proofs.ShareZq
import DosModel.Gen.PkgVars

set_option linter.unusedSectionVars false

namespace Dos.Props.C09
open Dos Dos.Share

variable {F : Type} [Field F] [DecidableEq F]
variable {G : Type} [AddCommGroup G] [Module F G] [DecidableEq G]

/-! ### 0. facts regenerated from /repo on every run -/

/-- the evaluation point of share index `i` is `i + 1` at all four sites of `share/poly.go`
(`PriPoly.Eval`, `PubPoly.Eval`, `xScalar`, `RecoverCommit`), and the group orders the code
uses are the alt_bn128 and ed25519 ones the driver computes with. -/
theorem c09_code_facts :
    Gen.shareEvalOffsets = [1, 1, 1, 1]
    ∧ Share.bn256Order = 21888242871839275222246405745257275088548364400416034343698204186575808495617
    ∧ Share.ed25519Order = 2 ^ 252 + 27742317777372353535851937790883648493 := by decide

/-- **the code the model transcribes, statement by statement** (regenerated from `share/poly.go` on every
run by `go/extract/tblsfacts`, rendered with go/printer: `depth| statement`). Every function of the file
that `Model/Share.lean` mirrors is pinned completely – guards (`s == nil || s.V == nil || s.I < 0 || n <= s.I`,
the `seen` map of /repo 2d8b40a, `len(x) == t` / `break`, `len(x) < t`, `len(x) != t`), the evaluation point
`1 + int64(i)`, the Lagrange loops (`i == j` / `continue`, `num.Div(num, den)`, `den.Inv(den)`), the length
and group checks of `Add` / `Equal`, `Check`, `Commit`, `Mul`. ANY edit to one of them breaks this obligation
until the model has been compared with the new text. -/
theorem c09_code_shape :
    Gen.TblsShape.newPriPoly = [
      "0| func NewPriPoly(group kyber.Group, t int, s kyber.Scalar, rand cipher.Stream) *PriPoly",
      "1| coeffs := make([]kyber.Scalar, t)",
      "1| coeffs[0] = s",
      "1| if coeffs[0] == nil",
      "2| coeffs[0] = group.Scalar().Pick(rand)",
      "1| for i := 1; i < t; i++",
      "2| coeffs[i] = group.Scalar().Pick(rand)",
      "1| return &PriPoly{g: group, coeffs: coeffs}"
    ] ∧
    Gen.TblsShape.coefficientsToPriPoly = [
      "0| func CoefficientsToPriPoly(g kyber.Group, coeffs []kyber.Scalar) *PriPoly",
      "1| return &PriPoly{g: g, coeffs: coeffs}"
    ] ∧
    Gen.TblsShape.priThreshold = [
      "0| func (p *PriPoly) Threshold() int",
      "1| return len(p.coeffs)"
    ] ∧
    Gen.TblsShape.priSecret = [
      "0| func (p *PriPoly) Secret() kyber.Scalar",
      "1| return p.coeffs[0]"
    ] ∧
    Gen.TblsShape.priEval = [
      "0| func (p *PriPoly) Eval(i int) *PriShare",
      "1| xi := p.g.Scalar().SetInt64(1 + int64(i))",
      "1| v := p.g.Scalar().Zero()",
      "1| for j := p.Threshold() - 1; j >= 0; j--",
      "2| v.Mul(v, xi)",
      "2| v.Add(v, p.coeffs[j])",
      "1| return &PriShare{i, v}"
    ] ∧
    Gen.TblsShape.priShares = [
      "0| func (p *PriPoly) Shares(n int) []*PriShare",
      "1| shares := make([]*PriShare, n)",
      "1| for i := range shares",
      "2| shares[i] = p.Eval(i)",
      "1| return shares"
    ] ∧
    Gen.TblsShape.priAdd = [
      "0| func (p *PriPoly) Add(q *PriPoly) (*PriPoly, error)",
      "1| if p.g.String() != q.g.String()",
      "2| return nil, errorGroups",
      "1| if p.Threshold() != q.Threshold()",
      "2| return nil, errorCoeffs",
      "1| coeffs := make([]kyber.Scalar, p.Threshold())",
      "1| for i := range coeffs",
      "2| coeffs[i] = p.g.Scalar().Add(p.coeffs[i], q.coeffs[i])",
      "1| return &PriPoly{p.g, coeffs}, nil"
    ] ∧
    Gen.TblsShape.priEqual = [
      "0| func (p *PriPoly) Equal(q *PriPoly) bool",
      "1| if p.g.String() != q.g.String()",
      "2| return false",
      "1| if len(p.coeffs) != len(q.coeffs)",
      "2| return false",
      "1| b := 1",
      "1| for i := 0; i < p.Threshold(); i++",
      "2| pb, _ := p.coeffs[i].MarshalBinary()",
      "2| qb, _ := q.coeffs[i].MarshalBinary()",
      "2| b &= subtle.ConstantTimeCompare(pb, qb)",
      "1| return b == 1"
    ] ∧
    Gen.TblsShape.priCommit = [
      "0| func (p *PriPoly) Commit(b kyber.Point) *PubPoly",
      "1| commits := make([]kyber.Point, p.Threshold())",
      "1| for i := range commits",
      "2| commits[i] = p.g.Point().Mul(p.coeffs[i], b)",
      "1| return &PubPoly{p.g, b, commits}"
    ] ∧
    Gen.TblsShape.priMul = [
      "0| func (p *PriPoly) Mul(q *PriPoly) *PriPoly",
      "1| d1 := len(p.coeffs) - 1",
      "1| d2 := len(q.coeffs) - 1",
      "1| newDegree := d1 + d2",
      "1| coeffs := make([]kyber.Scalar, newDegree+1)",
      "1| for i := range coeffs",
      "2| coeffs[i] = p.g.Scalar().Zero()",
      "1| for i := range p.coeffs",
      "2| for j := range q.coeffs",
      "3| tmp := p.g.Scalar().Mul(p.coeffs[i], q.coeffs[j])",
      "3| coeffs[i+j] = tmp.Add(coeffs[i+j], tmp)",
      "1| return &PriPoly{p.g, coeffs}"
    ] ∧
    Gen.TblsShape.priCoefficients = [
      "0| func (p *PriPoly) Coefficients() []kyber.Scalar",
      "1| return p.coeffs"
    ] ∧
    Gen.TblsShape.recoverSecret = [
      "0| func RecoverSecret(g kyber.Group, shares []*PriShare, t, n int) (kyber.Scalar, error)",
      "1| x := xScalar(g, shares, t, n)",
      "1| if len(x) < t",
      "2| return nil, errors.New(\"share: not enough shares to recover secret\")",
      "1| acc := g.Scalar().Zero()",
      "1| num := g.Scalar()",
      "1| den := g.Scalar()",
      "1| tmp := g.Scalar()",
      "1| for i, xi := range x",
      "2| num.Set(shares[i].V)",
      "2| den.One()",
      "2| for j, xj := range x",
      "3| if i == j",
      "4| continue",
      "3| num.Mul(num, xj)",
      "3| den.Mul(den, tmp.Sub(xj, xi))",
      "2| acc.Add(acc, num.Div(num, den))",
      "1| return acc, nil"
    ] ∧
    Gen.TblsShape.xScalar = [
      "0| func xScalar(g kyber.Group, shares []*PriShare, t, n int) map[int]kyber.Scalar",
      "1| x := make(map[int]kyber.Scalar)",
      "1| seen := make(map[int]struct{})",
      "1| for i, s := range shares",
      "2| if s == nil || s.V == nil || s.I < 0 || n <= s.I",
      "3| continue",
      "2| if _, dup := seen[s.I]; dup",
      "3| continue",
      "2| seen[s.I] = struct{}{}",
      "2| x[i] = g.Scalar().SetInt64(1 + int64(s.I))",
      "2| if len(x) == t",
      "3| break",
      "1| return x"
    ] ∧
    Gen.TblsShape.xMinusConst = [
      "0| func xMinusConst(g kyber.Group, c kyber.Scalar) *PriPoly",
      "1| neg := g.Scalar().Neg(c)",
      "1| return &PriPoly{ g: g, coeffs: []kyber.Scalar{neg, g.Scalar().One()}, }"
    ] ∧
    Gen.TblsShape.recoverPriPoly = [
      "0| func RecoverPriPoly(g kyber.Group, shares []*PriShare, t, n int) (*PriPoly, error)",
      "1| x := xScalar(g, shares, t, n)",
      "1| if len(x) != t",
      "2| return nil, errors.New(\"share: not enough shares to recover private polynomial\")",
      "1| var accPoly *PriPoly",
      "1| var err error",
      "1| den := g.Scalar()",
      "1| for j, xj := range x",
      "2| var basis = &PriPoly{ g: g, coeffs: []kyber.Scalar{g.Scalar().One()}, }",
      "2| var acc = g.Scalar().Set(shares[j].V)",
      "2| for m, xm := range x",
      "3| if j == m",
      "4| continue",
      "3| basis = basis.Mul(xMinusConst(g, xm))",
      "3| den.Sub(xj, xm)",
      "3| den.Inv(den)",
      "3| acc.Mul(acc, den)",
      "2| for i := range basis.coeffs",
      "3| basis.coeffs[i] = basis.coeffs[i].Mul(basis.coeffs[i], acc)",
      "2| if accPoly == nil",
      "3| accPoly = basis",
      "3| continue",
      "2| accPoly, err = accPoly.Add(basis)",
      "2| if err != nil",
      "3| return nil, err",
      "1| return accPoly, nil"
    ] ∧
    Gen.TblsShape.newPubPoly = [
      "0| func NewPubPoly(g kyber.Group, b kyber.Point, commits []kyber.Point) *PubPoly",
      "1| return &PubPoly{g, b, commits}"
    ] ∧
    Gen.TblsShape.pubInfo = [
      "0| func (p *PubPoly) Info() (base kyber.Point, commits []kyber.Point)",
      "1| return p.b, p.commits"
    ] ∧
    Gen.TblsShape.pubThreshold = [
      "0| func (p *PubPoly) Threshold() int",
      "1| return len(p.commits)"
    ] ∧
    Gen.TblsShape.pubCommit = [
      "0| func (p *PubPoly) Commit() kyber.Point",
      "1| return p.commits[0]"
    ] ∧
    Gen.TblsShape.pubEval = [
      "0| func (p *PubPoly) Eval(i int) *PubShare",
      "1| xi := p.g.Scalar().SetInt64(1 + int64(i))",
      "1| v := p.g.Point().Null()",
      "1| for j := p.Threshold() - 1; j >= 0; j--",
      "2| v.Mul(xi, v)",
      "2| v.Add(v, p.commits[j])",
      "1| return &PubShare{i, v}"
    ] ∧
    Gen.TblsShape.pubShares = [
      "0| func (p *PubPoly) Shares(n int) []*PubShare",
      "1| shares := make([]*PubShare, n)",
      "1| for i := range shares",
      "2| shares[i] = p.Eval(i)",
      "1| return shares"
    ] ∧
    Gen.TblsShape.pubAdd = [
      "0| func (p *PubPoly) Add(q *PubPoly) (*PubPoly, error)",
      "1| if p.g.String() != q.g.String()",
      "2| return nil, errorGroups",
      "1| if p.Threshold() != q.Threshold()",
      "2| return nil, errorCoeffs",
      "1| commits := make([]kyber.Point, p.Threshold())",
      "1| for i := range commits",
      "2| commits[i] = p.g.Point().Add(p.commits[i], q.commits[i])",
      "1| return &PubPoly{p.g, p.b, commits}, nil"
    ] ∧
    Gen.TblsShape.pubEqual = [
      "0| func (p *PubPoly) Equal(q *PubPoly) bool",
      "1| if p.g.String() != q.g.String()",
      "2| return false",
      "1| if len(p.commits) != len(q.commits)",
      "2| return false",
      "1| b := 1",
      "1| for i := 0; i < p.Threshold(); i++",
      "2| pb, _ := p.commits[i].MarshalBinary()",
      "2| qb, _ := q.commits[i].MarshalBinary()",
      "2| b &= subtle.ConstantTimeCompare(pb, qb)",
      "1| return b == 1"
    ] ∧
    Gen.TblsShape.pubCheck = [
      "0| func (p *PubPoly) Check(s *PriShare) bool",
      "1| pv := p.Eval(s.I)",
      "1| ps := p.g.Point().Mul(s.V, p.b)",
      "1| return pv.V.Equal(ps)"
    ] ∧
    Gen.TblsShape.recoverCommit = [
      "0| func RecoverCommit(g kyber.Group, shares []*PubShare, t, n int) (kyber.Point, error)",
      "1| x := make(map[int]kyber.Scalar)",
      "1| seen := make(map[int]struct{})",
      "1| for i, s := range shares",
      "2| if s == nil || s.V == nil || s.I < 0 || n <= s.I",
      "3| continue",
      "2| if _, dup := seen[s.I]; dup",
      "3| continue",
      "2| seen[s.I] = struct{}{}",
      "2| x[i] = g.Scalar().SetInt64(1 + int64(s.I))",
      "1| if len(x) < t",
      "2| return nil, errors.New(\"share: not enough good public shares to reconstruct secret commitment\")",
      "1| num := g.Scalar()",
      "1| den := g.Scalar()",
      "1| tmp := g.Scalar()",
      "1| Acc := g.Point().Null()",
      "1| Tmp := g.Point()",
      "1| for i, xi := range x",
      "2| num.One()",
      "2| den.One()",
      "2| for j, xj := range x",
      "3| if i == j",
      "4| continue",
      "3| num.Mul(num, xj)",
      "3| den.Mul(den, tmp.Sub(xj, xi))",
      "2| Tmp.Mul(num.Div(num, den), shares[i].V)",
      "2| Acc.Add(Acc, Tmp)",
      "1| return Acc, nil"
    ] :=
  ⟨rfl, rfl, rfl, rfl, rfl, rfl, rfl, rfl, rfl, rfl, rfl, rfl, rfl, rfl, rfl, rfl, rfl, rfl, rfl, rfl, rfl, rfl, rfl, rfl, rfl⟩

/-- **package `share` carries no state from one call to the next** (regenerated from /repo on every run by
`go/extract/pkgvars`: ALL package-level `var` declarations of the directory): the only package-level
variables are the two error values, and nothing outside `init` writes them. A memo table, a pool, a cached
scalar added to the package breaks this obligation. It is what justifies modelling a sequence of calls as
the sequence of the models of the calls (`hist_is_pointwise`). -/
theorem c09_no_package_state :
    Gen.PkgVars.share.map (fun v => (v.file, v.name)) = [("poly.go", "errorGroups"), ("poly.go", "errorCoeffs")]
    ∧ Gen.PkgVars.share.all (fun v => !v.written) = true := by decide

/-- **a recovery is a function of its arguments only**: in the model of a call history (`hist` lines of
the correspondence run, `Share.histOut` – what `drv_c09` executes) the answer of call `k` is the answer of
that call alone, whatever was recovered before – other index sequences, other groups, other polynomials. -/
theorem hist_is_pointwise (calls : List String) (k : Nat) (hk : k < calls.length) :
    (Share.histOut calls)[k]? = some (Share.stepOne ("rt" :: (calls[k]).splitOn "~")) := by
  simp [Share.histOut, hk]

/-- … hence calls can be inserted before, removed from, or appended to a history without changing what the
other calls answer -/
theorem hist_call_erasure (pre post : List String) (c : String) :
    Share.histOut (pre ++ c :: post)
      = Share.histOut pre ++ Share.stepOne ("rt" :: c.splitOn "~") :: Share.histOut post := by
  simp [Share.histOut]

/-! ### 1. reconstruction

`idxPri n shares` / `idxPub n shares` (`Proofs/Share.lean`) are the DISTINCT indices `i ∈ [0,n)`
for which the slice holds an entry with a value – wherever it stands, however often it repeats.
Since /repo 2d8b40a the code keeps one share per index, so the hypothesis is exactly the
property's "any `t` distinct shares": nothing is asked of the order, of repetitions or of the
unusable entries in between. -/

/-- **Any `t` distinct shares reconstruct the secret**, whatever else is in the slice: `shares`
is ANY list (any order, `nil` entries, entries with a nil value, indices outside `[0,n)`, the same
index any number of times, anywhere) in which every usable entry is a true share of `f` and at
least `t` distinct indices are usable.  Holds for both division behaviours (`dp`). -/
theorem recoverSecret_correct (dp : Bool) (f : List F) (t n : Nat) (ht : 0 < t) (hf : f.length ≤ t)
    (hc : CharGt F n) (shares : List (Option (PriShare F)))
    (hval : ∀ iv ∈ shares.filterMap (usablePri n), iv.2 = priEval f iv.1)
    (hcnt : t ≤ (idxPri n shares).card) :
    recoverSecret dp shares t n = .ok (f.headD 0) := by
  obtain ⟨hg, hlen⟩ := xScalar_spec f t n ht hc shares hval hcnt
  have hdeg : (toPoly f).degree < (xScalar shares t n).length := by
    rw [hlen]; exact lt_of_lt_of_le (degree_toPoly_lt f) (by exact_mod_cast hf)
  unfold recoverSecret
  simp only [hlen, Nat.lt_irrefl, if_false]
  rw [secret_fold_good dp _ _ hg hdeg, eval_zero_toPoly]

/-- **order / subset independence**: two qualifying slices of the same sharing – different
subsets, different orders, different repetitions, different junk – give the same answer. -/
theorem recoverSecret_subset_order_independent (dp : Bool) (f : List F) (t n : Nat) (ht : 0 < t)
    (hf : f.length ≤ t) (hc : CharGt F n) (s₁ s₂ : List (Option (PriShare F)))
    (hv₁ : ∀ iv ∈ s₁.filterMap (usablePri n), iv.2 = priEval f iv.1)
    (hc₁ : t ≤ (idxPri n s₁).card)
    (hv₂ : ∀ iv ∈ s₂.filterMap (usablePri n), iv.2 = priEval f iv.1)
    (hc₂ : t ≤ (idxPri n s₂).card) :
    recoverSecret dp s₁ t n = recoverSecret dp s₂ t n := by
  rw [recoverSecret_correct dp f t n ht hf hc s₁ hv₁ hc₁,
    recoverSecret_correct dp f t n ht hf hc s₂ hv₂ hc₂]

/-- **… and the whole polynomial**: with the same hypotheses `RecoverPriPoly` returns exactly
the coefficients of `f` (a polynomial with `t` coefficients). -/
theorem recoverPriPoly_correct (g : Nat) (f : List F) (t n : Nat) (ht : 0 < t) (hf : f.length = t)
    (hc : CharGt F n) (shares : List (Option (PriShare F)))
    (hval : ∀ iv ∈ shares.filterMap (usablePri n), iv.2 = priEval f iv.1)
    (hcnt : t ≤ (idxPri n shares).card) :
    recoverPriPoly g shares t n = .ok ⟨g, f⟩ := by
  obtain ⟨hg, hlen⟩ := xScalar_spec f t n ht hc shares hval hcnt
  exact recoverPriPoly_of_good g f t ht hf _ hg hlen rfl

/-- **fewer than `t` distinct usable shares yield an error** (secret, polynomial), never a value –
however many copies of them the slice holds. -/
theorem recover_too_few (dp : Bool) (g t n : Nat) (shares : List (Option (PriShare F)))
    (hfew : (idxPri n shares).card < t) :
    recoverSecret dp shares t n = .err .few ∧ recoverPriPoly g shares t n = .err .few := by
  have ht : 0 < t := by omega
  have hlen := xScalar_length t n shares ht
  have hlt : (xScalar shares t n).length < t := by rw [hlen]; omega
  constructor
  · unfold recoverSecret; simp [hlt]
  · unfold recoverPriPoly; simp [Nat.ne_of_lt hlt]

/-- same for the commitment: fewer than `t` distinct usable public shares ⇒ error. -/
theorem recoverCommit_too_few (dp : Bool) (t n : Nat) (shares : List (Option (PubShare G)))
    (hfew : (idxPub n shares).card < t) :
    recoverCommit (S := F) dp shares t n = .err .few :=
  recoverCommit_few dp t n shares hfew

/-- **the secret commitment is reconstructed from public shares**: any slice whose usable entries
are public shares `f(i+1)•B` and among which `≥ t ≥ len f` distinct indices occur (in any order,
with any repetitions and junk) gives `f(0)•B`. -/
theorem recoverCommit_correct (dp : Bool) (f : List F) (B : G) (t n : Nat) (hf : f.length ≤ t)
    (hc : CharGt F n) (shares : List (Option (PubShare G)))
    (hval : ∀ iv ∈ shares.filterMap (usablePub n), iv.2 = priEval f iv.1 • B)
    (hcnt : t ≤ (idxPub n shares).card) :
    recoverCommit (S := F) dp shares t n = .ok (f.headD 0 • B) :=
  recoverCommit_ok dp f B t n hf hc shares hval hcnt

/-- **no recovery ever panics**: for EVERY slice (any values – true shares or not –, any
repetitions, `nil`s, any `t` and `n` with `1..n` non-zero) `RecoverSecret` and `RecoverCommit`
answer `ok` or "not enough shares" – the division by zero in `mod.Int.Div` (nil `ModInverse`
dereferenced on bn256, `dp = true`) is unreachable because the collected evaluation points are
pairwise distinct – and `RecoverPriPoly` has no panicking statement at all. -/
theorem recover_never_panics (dp : Bool) (g t n : Nat) (hc : CharGt F n)
    (shares : List (Option (PriShare F))) (pubs : List (Option (PubShare G))) (s : Site) :
    recoverSecret dp shares t n ≠ .panic s ∧ recoverPriPoly g shares t n ≠ .panic s
      ∧ recoverCommit (S := F) dp pubs t n ≠ .panic s := by
  refine ⟨?_, recoverPriPoly_no_panic g t n shares s, ?_⟩
  · rcases recoverSecret_no_panic dp t n hc shares with h | ⟨v, h⟩ <;> rw [h] <;> simp
  · rcases recoverCommit_no_panic (F := F) dp t n hc pubs with h | ⟨v, h⟩ <;> rw [h] <;> simp

/-- what used to be the defect (`[s, s']` with one index: zero denominator, panic on bn256, `ok 0`
on ed25519) is now the error the property asks for: one distinct index is fewer than two. -/
theorem recoverSecret_duplicate_index (dp : Bool) (i : Int) (v w : F) (n : Nat) (h0 : 0 ≤ i)
    (hn : i < n) :
    recoverSecret dp [some ⟨i, some v⟩, some ⟨i, some w⟩] 2 n = .err .few := by
  simp [recoverSecret, xScalar, xScalarAux, usablePri, h0, hn]

/-! ### 2. commitments -/

/-- **the commitment polynomial evaluates to the commitment of the private share** -/
theorem pubEval_commit (p : PriPoly F) (b : G) (i : Int) :
    pubEval F (commit p b).commits i = priEval p.coeffs i • b :=
  pubEval_map_smul p.coeffs b i

/-- **share checking accepts exactly the true share value at its index** (`b` a point that no
non-zero scalar annihilates, e.g. a generator of a group of prime order) -/
theorem check_iff (p : PriPoly F) (b : G) (hb : ∀ c : F, c • b = 0 → c = 0) (i : Int) (v : F) :
    check F (commit p b) i v = true ↔ v = priEval p.coeffs i := by
  unfold check
  rw [decide_eq_true_iff, pubEval_commit]
  show priEval p.coeffs i • b = v • b ↔ _
  constructor
  · intro h
    have : (priEval p.coeffs i - v) • b = 0 := by rw [sub_smul, h, sub_self]
    exact (sub_eq_zero.1 (hb _ this)).symm
  · rintro rfl; rfl

/-- **addition is homomorphic**, polynomials: defined exactly for equal group and length … -/
theorem priAdd_ok_iff (p q : PriPoly F) :
    (∃ r, priAdd p q = .ok r) ↔ p.g = q.g ∧ p.coeffs.length = q.coeffs.length := by
  unfold priAdd
  by_cases hg : p.g = q.g <;> by_cases hl : p.coeffs.length = q.coeffs.length <;> simp [hg, hl]

/-- … and then every share of the sum is the sum of the shares … -/
theorem priEval_add (p q r : PriPoly F) (h : priAdd p q = .ok r) (i : Int) :
    priEval r.coeffs i = priEval p.coeffs i + priEval q.coeffs i := by
  unfold priAdd at h
  by_cases hg : p.g = q.g <;> by_cases hl : p.coeffs.length = q.coeffs.length <;>
    simp [hg, hl] at h
  subst h
  exact priEval_zipWith_add _ _ hl i

/-- … and the commitment of the sum is the sum of the commitments. -/
theorem commit_add (p q r : PriPoly F) (h : priAdd p q = .ok r) (b : G) :
    pubAdd (commit p b) (commit q b) = .ok (commit r b) := by
  unfold priAdd at h
  by_cases hg : p.g = q.g <;> by_cases hl : p.coeffs.length = q.coeffs.length <;>
    simp [hg, hl] at h
  subst h
  simp [pubAdd, commit, hg, hl, add_smul]

/-- `PubPoly.Add` keeps the RECEIVER's base and group tag and adds commitment by commitment, also when the
argument was committed under another base (the sum is then not a commitment of `p + q` under any single
base: callers add polynomials committed under one base, as `commit_add` states) -/
theorem pubAdd_base (p q r : PubPoly G) (h : pubAdd p q = .ok r) :
    r.base = p.base ∧ r.g = p.g ∧ r.commits = List.zipWith (· + ·) p.commits q.commits := by
  unfold pubAdd at h
  by_cases hg : p.g = q.g <;> by_cases hl : p.commits.length = q.commits.length <;>
    simp [hg, hl] at h
  subst h
  exact ⟨rfl, hg.symm, rfl⟩

/-! ### 3. evaluation points -/

/-- **no share index evaluates the polynomial at zero** (so no single share is `f(0)`), and
distinct indices are distinct points. -/
theorem x_ne_zero (n : Nat) (hc : CharGt F n) (i : Int) (h0 : 0 ≤ i) (hn : i < n) :
    (xOf i : F) ≠ 0 ∧ ∀ j : Int, 0 ≤ j → j < n → (xOf i : F) = xOf j → i = j :=
  ⟨xOf_ne_zero hc i h0 hn, fun j hj0 hjn h => xOf_injOn hc i j h0 hn hj0 hjn h⟩

/-- the index is NOT guarded by `Eval` itself: index `−1` is the point zero, `PriPoly.Eval(-1)` returns
the secret (and `PubPoly.Eval(-1)` its commitment). Every caller in the repository passes an index
`≥ 0` (`Shares`, the `I < 0` guard of `xScalar` / `RecoverCommit`, the unsigned 2-byte index of
`tbls`), which is the hypothesis `0 ≤ i` of `x_ne_zero`; the correspondence run does not judge
negative indices. -/
theorem eval_at_minus_one_is_secret (f : List F) :
    (xOf (-1) : F) = 0 ∧ priEval f (-1) = f.headD 0 := by
  have h0 : (xOf (-1) : F) = 0 := by simp [xOf]
  refine ⟨h0, ?_⟩
  cases f with
  | nil => rfl
  | cons c l => simp [priEval, h0]

/-- every share dealt by `Shares(n)` sits at index `k < n`, i.e. at the non-zero point `k+1` -/
theorem shares_points (f : List F) (n : Nat) (hc : CharGt F n) :
    ∀ s ∈ priShares f n, 0 ≤ s.I ∧ s.I < n ∧ (xOf s.I : F) ≠ 0 ∧ s.V = some (priEval f s.I) := by
  intro s hs
  obtain ⟨k, hk, rfl⟩ := List.mem_map.1 hs
  have hk' : k < n := List.mem_range.1 hk
  refine ⟨by simp, by simpa using hk', xOf_ne_zero hc _ (by simp) (by simpa using hk'), rfl⟩

/-! ### 4. equality -/

/-- **two private polynomials compare equal exactly when they are the same** (group, length,
every coefficient) -/
theorem priEqual_iff (p q : PriPoly F) : priEqual p q = true ↔ p = q := by
  unfold priEqual
  obtain ⟨pg, pc⟩ := p
  obtain ⟨qg, qc⟩ := q
  by_cases hg : pg = qg <;> by_cases hl : pc.length = qc.length
  · simp [hg, hl, allEq_iff pc qc hl]
  · simp only [hg, hl, ne_eq, not_true_eq_false, if_false, not_false_eq_true, if_true,
      Bool.false_eq_true, PriPoly.mk.injEq, true_and, false_iff]
    intro h; exact hl (by rw [h])
  · simp [hg]
  · simp [hg]

/-- **two commitment polynomials compare equal exactly when they have the same group, length and
commitments** (the base point is not part of the comparison).  Before the repair af0959e this
failed on different lengths (finding F3). -/
theorem pubEqual_iff (p q : PubPoly G) :
    pubEqual p q = true ↔ p.g = q.g ∧ p.commits = q.commits := by
  unfold pubEqual
  by_cases hg : p.g = q.g <;> by_cases hl : p.commits.length = q.commits.length
  · simp [hg, hl, allEq_iff _ _ hl]
  · simp only [hg, hl, ne_eq, not_true_eq_false, if_false, not_false_eq_true, if_true,
      Bool.false_eq_true, true_and, false_iff]
    intro h; exact hl (by rw [h])
  · simp [hg]
  · simp [hg]

/-! ### 5. the driver's own instance

`Zq q` (numbers modulo `q`, points as discrete logs) is a field and a module over itself for
prime `q`; `1..n` are non-zero when `n < q`.  So all of the above holds verbatim for the
functions `drv_c09` executes (`q` = the bn256 group order or the ed25519 order; their primality
is the standard fact listed under assumptions). -/

theorem zq_charGt (q : Nat) [Fact q.Prime] (n : Nat) (hn : n < q) : CharGt (Zq q) n := by
  intro k hk hkn h0
  have h1 : Zq.toZMod ((k : Nat) : Zq q) = 0 := by rw [h0]; exact Zq.toZMod_zero
  have h2 : Zq.toZMod (((k : Nat) : Zq q)) = (k : ZMod q) := Zq.toZMod_natCast k
  rw [h2, ZMod.natCast_eq_zero_iff] at h1
  exact absurd (Nat.le_of_dvd hk h1) (by omega)

theorem recoverSecret_correct_driver (q : Nat) [Fact q.Prime] (dp : Bool) (f : List (Zq q))
    (t n : Nat) (ht : 0 < t) (hf : f.length ≤ t) (hn : n < q)
    (shares : List (Option (PriShare (Zq q))))
    (hval : ∀ iv ∈ shares.filterMap (usablePri n), iv.2 = priEval f iv.1)
    (hcnt : t ≤ (idxPri n shares).card) :
    recoverSecret dp shares t n = .ok (f.headD 0) :=
  recoverSecret_correct dp f t n ht hf (zq_charGt q n hn) shares hval hcnt

theorem recoverCommit_correct_driver (q : Nat) [Fact q.Prime] (dp : Bool) (f : List (Zq q))
    (B : Zq q) (t n : Nat) (hf : f.length ≤ t) (hn : n < q)
    (shares : List (Option (PubShare (Zq q))))
    (hval : ∀ iv ∈ shares.filterMap (usablePub n), iv.2 = priEval f iv.1 • B)
    (hcnt : t ≤ (idxPub n shares).card) :
    recoverCommit (S := Zq q) dp shares t n = .ok (f.headD 0 • B) :=
  recoverCommit_correct dp f B t n hf (zq_charGt q n hn) shares hval hcnt

/-- the driver never panics in a recovery (both division behaviours) -/
theorem recover_never_panics_driver (q : Nat) [Fact q.Prime] (dp : Bool) (g t n : Nat) (hn : n < q)
    (shares : List (Option (PriShare (Zq q)))) (pubs : List (Option (PubShare (Zq q)))) (s : Site) :
    recoverSecret dp shares t n ≠ .panic s ∧ recoverPriPoly g shares t n ≠ .panic s
      ∧ recoverCommit (S := Zq q) dp pubs t n ≠ .panic s :=
  recover_never_panics dp g t n (zq_charGt q n hn) shares pubs s

/-! ### non-vacuity: the hypotheses hold on concrete, non-trivial values (evaluated in `Zq 7`,
`f = 3 + 2x + 5x²`, shares of members 4, 0, 2 with member 4 REPEATED among the first three usable
entries – the input of the repaired defect – and junk in between) -/

instance : Fact (Nat.Prime 7) := ⟨by decide⟩

example : recoverSecret true (S := Zq 7)
    [some ⟨4, some (priEval [3, 2, 5] 4)⟩, none, some ⟨4, some (priEval [3, 2, 5] 4)⟩,
     some ⟨0, some (priEval [3, 2, 5] 0)⟩, some ⟨9, some 1⟩, some ⟨1, none⟩,
     some ⟨0, some (priEval [3, 2, 5] 0)⟩, some ⟨2, some (priEval [3, 2, 5] 2)⟩] 3 5 = .ok 3 :=
  recoverSecret_correct_driver 7 true [3, 2, 5] 3 5 (by decide) (by decide) (by decide) _
    (by decide) (by decide)

example : recoverSecret true (S := Zq 7)
    [some ⟨4, some (priEval [3, 2, 5] 4)⟩, none, some ⟨4, some (priEval [3, 2, 5] 4)⟩,
     some ⟨0, some (priEval [3, 2, 5] 0)⟩, some ⟨9, some 1⟩, some ⟨1, none⟩,
     some ⟨0, some (priEval [3, 2, 5] 0)⟩, some ⟨2, some (priEval [3, 2, 5] 2)⟩] 3 5 = .ok 3 := by
  decide

/-- the two slices differ in subset, order, repetitions and junk -/
example : recoverSecret false (S := Zq 7)
    [some ⟨4, some (priEval [3, 2, 5] 4)⟩, some ⟨4, some (priEval [3, 2, 5] 4)⟩,
     some ⟨0, some (priEval [3, 2, 5] 0)⟩, some ⟨2, some (priEval [3, 2, 5] 2)⟩] 3 5
    = recoverSecret false (S := Zq 7)
    [none, some ⟨3, some (priEval [3, 2, 5] 3)⟩, some ⟨1, some (priEval [3, 2, 5] 1)⟩,
     some ⟨1, some (priEval [3, 2, 5] 1)⟩, some ⟨-1, some 6⟩, some ⟨2, some (priEval [3, 2, 5] 2)⟩,
     some ⟨0, some (priEval [3, 2, 5] 0)⟩] 3 5 :=
  recoverSecret_subset_order_independent false [3, 2, 5] 3 5 (by decide) (by decide)
    (zq_charGt 7 5 (by decide)) _ _ (by decide) (by decide) (by decide) (by decide)

example : recoverPriPoly 0 (S := Zq 7)
    [some ⟨4, some (priEval [3, 2, 5] 4)⟩, none, some ⟨4, some (priEval [3, 2, 5] 4)⟩,
     some ⟨0, some (priEval [3, 2, 5] 0)⟩, some ⟨2, some (priEval [3, 2, 5] 2)⟩] 3 5
      = .ok ⟨0, [3, 2, 5]⟩ := by decide

example : recoverPriPoly 0 (S := Zq 7)
    [some ⟨4, some (priEval [3, 2, 5] 4)⟩, none, some ⟨4, some (priEval [3, 2, 5] 4)⟩,
     some ⟨0, some (priEval [3, 2, 5] 0)⟩, some ⟨2, some (priEval [3, 2, 5] 2)⟩] 3 5
      = .ok ⟨0, [3, 2, 5]⟩ :=
  recoverPriPoly_correct 0 [3, 2, 5] 3 5 (by decide) (by decide) (zq_charGt 7 5 (by decide)) _
    (by decide) (by decide)

example : recoverCommit (S := Zq 7) (P := Zq 7) true
    [some ⟨4, some (priEval ([3, 2, 5] : List (Zq 7)) 4 • (4 : Zq 7))⟩, none, some ⟨7, some 1⟩,
     some ⟨4, some (priEval ([3, 2, 5] : List (Zq 7)) 4 • (4 : Zq 7))⟩,
     some ⟨0, some (priEval ([3, 2, 5] : List (Zq 7)) 0 • (4 : Zq 7))⟩,
     some ⟨2, some (priEval ([3, 2, 5] : List (Zq 7)) 2 • (4 : Zq 7))⟩,
     some ⟨0, some (priEval ([3, 2, 5] : List (Zq 7)) 0 • (4 : Zq 7))⟩,
     some ⟨1, some (priEval ([3, 2, 5] : List (Zq 7)) 1 • (4 : Zq 7))⟩] 3 5
      = .ok ((3 : Zq 7) • (4 : Zq 7)) :=
  recoverCommit_correct_driver 7 true [3, 2, 5] 4 3 5 (by decide) (by decide) _
    (by decide) (by decide)

example : priEqual (S := Zq 7) ⟨0, [3, 2]⟩ ⟨0, [3, 2, 0]⟩ = false ∧ priEqual (S := Zq 7) ⟨0, [3, 2]⟩ ⟨0, [3, 2]⟩ = true
    ∧ priEqual (S := Zq 7) ⟨0, [3, 2]⟩ ⟨1, [3, 2]⟩ = false := by decide

example : priAdd (S := Zq 7) ⟨0, [3, 2]⟩ ⟨0, [6, 6]⟩ = .ok ⟨0, [2, 1]⟩
    ∧ pubAdd (commit (P := Zq 7) ⟨0, [3, 2]⟩ 4) (commit (P := Zq 7) ⟨0, [6, 6]⟩ 4)
        = .ok (commit (P := Zq 7) ⟨0, [2, 1]⟩ 4) := by decide

/-- three usable entries but only ONE distinct index: an error for `t = 2` -/
example : recoverSecret true (S := Zq 7)
    [some ⟨4, some 1⟩, none, some ⟨4, some 1⟩, some ⟨1, none⟩, some ⟨4, some 3⟩] 2 5 = .err .few :=
  (recover_too_few true 0 2 5 _ (by decide)).1

example : recoverCommit (S := Zq 7) (P := Zq 7) true
    [some ⟨4, some 1⟩, none, some ⟨4, some 1⟩, some ⟨1, none⟩, some ⟨4, some 3⟩] 2 5 = .err .few :=
  recoverCommit_too_few true 2 5 _ (by decide)

/-- arbitrary values (no polynomial behind them), repeated indices: still no panic -/
example : recoverSecret true (S := Zq 7)
    [some ⟨1, some 6⟩, some ⟨1, some 2⟩, some ⟨3, some 0⟩, some ⟨1, some 5⟩] 2 5 ≠ .panic .div0 :=
  (recover_never_panics_driver 7 true 0 2 5 (by decide) _ ([] : List (Option (PubShare (Zq 7)))) .div0).1

example : recoverSecret true (S := Zq 7) [some ⟨2, some 6⟩, some ⟨2, some 1⟩] 2 5 = .err .few :=
  recoverSecret_duplicate_index true 2 6 1 5 (by decide) (by decide)

example : check (Zq 7) (commit (P := Zq 7) ⟨0, [3, 2, 5]⟩ 4) 2 (priEval [3, 2, 5] 2) = true
    ∧ check (Zq 7) (commit (P := Zq 7) ⟨0, [3, 2, 5]⟩ 4) 2 (priEval [3, 2, 5] 2 + 1) = false := by
  decide

example : pubEqual (P := Zq 7) ⟨0, 1, [3, 2]⟩ ⟨0, 1, [3, 2, 5]⟩ = false
    ∧ pubEqual (P := Zq 7) ⟨0, 1, [3, 2, 5]⟩ ⟨0, 1, [3, 2]⟩ = false
    ∧ pubEqual (P := Zq 7) ⟨0, 1, [3, 2, 5]⟩ ⟨0, 4, [3, 2, 5]⟩ = true := by decide

example : CharGt (Zq 7) 5 := zq_charGt 7 5 (by decide)

example : pubAdd (P := Zq 7) ⟨0, 4, [3, 2]⟩ ⟨0, 5, [6, 6]⟩ = .ok ⟨0, 4, [2, 1]⟩ := by decide
example : (⟨0, 4, [2, 1]⟩ : PubPoly (Zq 7)).base = (⟨0, 4, [3, 2]⟩ : PubPoly (Zq 7)).base :=
  (pubAdd_base (G := Zq 7) ⟨0, 4, [3, 2]⟩ ⟨0, 5, [6, 6]⟩ _ (by decide)).1

/-- a history whose two index sequences (1,12) and (11,2) concatenate to the same digits: the second call
answers what it answers alone (and so does the first, in either order of the calls) -/
example : (Share.histOut ["ed:3,2~1~13~1,12", "ed:3,2~1~13~11,2"])[1]?
    = some (Share.stepOne ("rt" :: ("ed:3,2~1~13~11,2").splitOn "~")) :=
  hist_is_pointwise _ 1 (by decide)

example : Share.histOut ([] ++ "ed:3,2~1~13~1,12" :: ["ed:3,2~1~13~11,2"])
    = Share.histOut [] ++ Share.stepOne ("rt" :: ("ed:3,2~1~13~1,12").splitOn "~")
        :: Share.histOut ["ed:3,2~1~13~11,2"] :=
  hist_call_erasure [] ["ed:3,2~1~13~11,2"] "ed:3,2~1~13~1,12"

end Dos.Props.C09

/-
C12 — helper lemmas, part 1: simp lemmas for `Cfg.all`, the single-shot handlers of dosnode and
the transport / gossip handlers.  (Core Lean only: no Mathlib needed.)
-/
import DosModel.Model.HandlersDrv

namespace Dos.Handlers

@[simp] theorem isPanic_ok (i : String) : (Out.ok i).isPanic = false := rfl
@[simp] theorem isPanic_err (k : String) : (Out.err k).isPanic = false := rfl
@[simp] theorem isPanic_dropped : Out.dropped.isPanic = false := rfl
@[simp] theorem isPanic_panic (s : String) : (Out.panic s).isPanic = true := rfl
@[simp] theorem all_xpubCastSelf : Cfg.all.xpubCastSelf = true := rfl
@[simp] theorem all_xpubCastPeer : Cfg.all.xpubCastPeer = true := rfl
@[simp] theorem all_gdkgGuard : Cfg.all.gdkgGuard = true := rfl
@[simp] theorem all_dealsDkgNil : Cfg.all.dealsDkgNil = true := rfl
@[simp] theorem all_dealsCast : Cfg.all.dealsCast = true := rfl
@[simp] theorem all_respsDkgNil : Cfg.all.respsDkgNil = true := rfl
@[simp] theorem all_respsCast : Cfg.all.respsCast = true := rfl
@[simp] theorem all_findPubDkg : Cfg.all.findPubDkg = true := rfl
@[simp] theorem all_respNil : Cfg.all.respNil = true := rfl
@[simp] theorem all_respVerOk : Cfg.all.respVerOk = true := rfl
@[simp] theorem all_pubKeyLen : Cfg.all.pubKeyLen = true := rfl
@[simp] theorem all_peerRespNil : Cfg.all.peerRespNil = true := rfl
@[simp] theorem all_encNil : Cfg.all.encNil = true := rfl
@[simp] theorem all_nonceLen : Cfg.all.nonceLen = true := rfl
@[simp] theorem all_secShareNil : Cfg.all.secShareNil = true := rfl
@[simp] theorem all_shareVNil : Cfg.all.shareVNil = true := rfl
@[simp] theorem all_findPubVss : Cfg.all.findPubVss = true := rfl
@[simp] theorem all_aggNil : Cfg.all.aggNil = true := rfl
@[simp] theorem all_toBigLen : Cfg.all.toBigLen = true := rfl
@[simp] theorem all_qloopOk : Cfg.all.qloopOk = true := rfl
@[simp] theorem all_qloopCast : Cfg.all.qloopCast = true := rfl
@[simp] theorem all_rsNil : Cfg.all.rsNil = true := rfl
@[simp] theorem all_rsMake : Cfg.all.rsMake = true := rfl
@[simp] theorem all_groupInfoIds : Cfg.all.groupInfoIds = true := rfl
@[simp] theorem all_byte32Len : Cfg.all.byte32Len = true := rfl
@[simp] theorem all_crRand : Cfg.all.crRand = true := rfl
@[simp] theorem all_sigIdxLen : Cfg.all.sigIdxLen = true := rfl
@[simp] theorem all_recoverDedup : Cfg.all.recoverDedup = true := rfl
@[simp] theorem all_anyNil : Cfg.all.anyNil = true := rfl
@[simp] theorem all_ridCast : Cfg.all.ridCast = true := rfl
@[simp] theorem all_ridLen : Cfg.all.ridLen = true := rfl
@[simp] theorem all_readSize : Cfg.all.readSize = true := rfl
@[simp] theorem all_mdNil : Cfg.all.mdNil = true := rfl
@[simp] theorem all_listenName : Cfg.all.listenName = true := rfl
@[simp] theorem all_listenCast : Cfg.all.listenCast = true := rfl
@[simp] theorem all_lookupName : Cfg.all.lookupName = true := rfl

theorem decodePubKey_total (len : Nat) : (decodePubKey Cfg.all len).isPanic = false := by
  unfold decodePubKey; simp; split <;> simp

theorem toBigInt_total (len : Nat) : (toBigInt Cfg.all len).isPanic = false := by
  unfold toBigInt; simp; split <;> simp

theorem choseSubmitter_total (r k : Nat) : (choseSubmitter Cfg.all r k).isPanic = false := by
  unfold choseSubmitter; simp; split <;> simp

theorem byte32_total (l : Nat) : (byte32 Cfg.all l).isPanic = false := by
  unfold byte32; simp; split <;> simp

theorem handleCR_total (s : Int) : (handleCRSeed Cfg.all s).isPanic = false := by
  unfold handleCRSeed; simp; split <;> simp

theorem messageDispatch_total (f : Feed) : (messageDispatch Cfg.all f).isPanic = false := by
  cases f <;> simp [messageDispatch]


theorem decodeBytes_err_total (v : Bool) (f : Frame) (o : Out) (h : decodeBytes Cfg.all v f = .error o) : o.isPanic = false := by
  unfold decodeBytes at h
  split at h
  · cases h; rfl
  · simp at h; cases h; rfl
  · split at h
    · cases h; rfl
    · split at h <;> first | (cases h; rfl) | (simp at h)

theorem decodeOut_total (v : Bool) (f : Frame) : (decodeOut Cfg.all v f).isPanic = false := by
  unfold decodeOut
  split
  · next o h => exact decodeBytes_err_total v f o h
  · rfl

theorem decodePipe_total (f : Frame) : (decodePipe Cfg.all f).isPanic = false := by
  unfold decodePipe
  split
  · next s h => have := decodeBytes_err_total true f _ h; simp at this
  · rfl
  · split <;> rfl

theorem receiveID_total (w : Wire) : (receiveID Cfg.all w).isPanic = false := by
  unfold receiveID
  split
  · next o h =>
    unfold readFrom at h
    split at h <;> first | (cases h; rfl) | (simp at h; cases h; rfl) | (simp at h)
  · next f h =>
    split
    · next o h2 => exact decodeBytes_err_total false f o h2
    · next pub rid h2 =>
      cases pub <;> simp
      all_goals (split <;> simp)
    · simp

theorem listenMembers_total (ls : List Nat) : ∀ k o, listenMembers Cfg.all ls k = .error o → o.isPanic = false := by
  induction ls with
  | nil => intro k o h; simp [listenMembers] at h
  | cons l r ih =>
    intro k o h
    unfold listenMembers at h
    split at h
    · simp at h; exact ih _ _ h
    · exact ih _ _ h

theorem listenStep_total (e : SerfEv) : (listenStep Cfg.all e).isPanic = false := by
  cases e with
  | other => simp [listenStep]
  | members ls =>
    simp only [listenStep]
    cases h : listenMembers Cfg.all ls 0 with
    | error o => exact listenMembers_total ls 0 o h
    | ok k => rfl

theorem lookupNames_total (ls : List Nat) : ∀ k o, lookupNames Cfg.all ls k = .error o → o.isPanic = false := by
  induction ls with
  | nil => intro k o h; simp [lookupNames] at h
  | cons l r ih =>
    intro k o h
    unfold lookupNames at h
    split at h
    · simp at h; exact ih _ _ h
    · split at h <;> exact ih _ _ h

theorem lookupOut_total (ls : List Nat) : (lookupOut Cfg.all ls).isPanic = false := by
  unfold lookupOut
  split
  · next o h => exact lookupNames_total ls 0 o h
  · rfl

end Dos.Handlers

package c19

import (
	"fmt"
	"math/big"
	"strings"

	"github.com/DOSNetwork/core/suites"

	"verifharness/internal/h"
)

var hrOutcomes = []string{"acc", "closed", "nonce", "revert", "funds", "other", "done"}
var propOutcomes = []string{"acc", "conn", "nonce", "revert", "funds", "other"} // the six of the property
var extraOutcomes = []string{"closed", "hdr", "connsend"}
var callNames = []string{"ur", "dr", "rg", "rn", "cm", "rv"}

// every call that goes through the request queue (the six of the property and the four others)
var queueCalls = []string{"ur", "dr", "rg", "rn", "cm", "rv", "sg", "un", "su", "sc"}

func assignments(alphabet []string, n int, f func([]string)) {
	cur := make([]string, n)
	var rec func(i int)
	rec = func(i int) {
		if i == n {
			f(append([]string(nil), cur...))
			return
		}
		for _, a := range alphabet {
			cur[i] = a
			rec(i + 1)
		}
	}
	rec(0)
}

var max256 = new(big.Int).Sub(new(big.Int).Lsh(big.NewInt(1), 256), big.NewInt(1))

func sigBoundary(rng *h.Rng, k int) string {
	s := rng.Bytes(64)
	switch k % 8 {
	case 0:
	case 1: // x has a leading zero byte
		s[0] = 0
	case 2: // y has leading zero bytes
		s[32], s[33] = 0, 0
	case 3: // x = 1
		for i := 0; i < 31; i++ {
			s[i] = 0
		}
		s[31] = 1
	case 4: // y = 0
		for i := 32; i < 64; i++ {
			s[i] = 0
		}
	case 5:
		for i := range s {
			s[i] = 0xff
		}
	case 6:
		for i := range s {
			s[i] = 0
		}
	case 7:
		s[0], s[32] = 0, 0
	}
	return h.Hex(s)
}

func ridBoundary(rng *h.Rng, k int) string {
	switch k % 6 {
	case 0:
		return "-"
	case 1:
		return h.Hex(rng.Bytes(1))
	case 2:
		return strings.Repeat("ff", 32)
	case 3:
		b := rng.Bytes(32)
		b[0], b[1] = 0, 0
		return h.Hex(b)
	case 4:
		return h.Hex(rng.Bytes(32))
	}
	return h.Hex(rng.Bytes(1 + rng.Intn(31)))
}

func i64Boundary(rng *h.Rng, k int) string {
	switch k % 7 {
	case 0:
		return "0"
	case 1:
		return "1"
	case 2:
		return "9223372036854775807"
	case 3:
		return "-1" // big.NewInt(int64): packed as two's complement, 32 bytes of 0xff
	case 4:
		return "-9223372036854775808"
	case 5:
		return fmt.Sprint(rng.Intn(1 << 30))
	}
	return fmt.Sprint(-1 - rng.Intn(1<<30))
}

func u256Boundary(rng *h.Rng, k int) string {
	if k%13 == 12 {
		return new(big.Int).Lsh(big.NewInt(1), 255).String()
	}
	switch k % 6 {
	case 0:
		return "0"
	case 1:
		return max256.String()
	case 2:
		return "1"
	case 3:
		return new(big.Int).Lsh(big.NewInt(1), 248).String() // 0x01 00…00: low bytes zero
	case 4:
		return rng.Big(new(big.Int).Lsh(big.NewInt(1), 200)).String() // leading zero bytes
	}
	return rng.Big(max256).String()
}

func callArgs(name string, rng *h.Rng, k int, big1MiB bool) string {
	switch name {
	case "ur":
		return sigBoundary(rng, k)
	case "dr":
		idx := []int{0, 1, 2, 255, 256, 257, 4294967295, 3}[k%8]
		var c string
		switch k % 5 {
		case 0:
			c = "-"
		case 1:
			c = h.Hex(rng.Bytes(1))
		case 2:
			c = h.Hex(rng.Bytes(1 + rng.Intn(100)))
		case 3:
			c = fmt.Sprintf("syn.%d.%d.%d", 31+rng.Intn(3), 1+rng.Intn(250), rng.Intn(256))
		case 4:
			if big1MiB {
				c = fmt.Sprintf("syn.1048576.%d.%d", 1+rng.Intn(250), rng.Intn(256))
			} else {
				c = fmt.Sprintf("syn.%d.%d.%d", 1000+rng.Intn(5000), 1+rng.Intn(250), rng.Intn(256))
			}
		}
		return fmt.Sprintf("%s;%s;%d;%s", sigBoundary(rng, k/2), ridBoundary(rng, k), idx, c)
	case "rg":
		var p []string
		for i := 0; i < 5; i++ {
			p = append(p, u256Boundary(rng, k+i))
		}
		return strings.Join(p, ";")
	case "rn", "un":
		return "-"
	case "sg":
		return []string{"0", "1", "21", "18446744073709551615", "4294967296"}[k%5]
	case "su":
		a := rng.Bytes(20)
		switch k % 4 {
		case 1:
			a[0], a[1] = 0, 0
		case 2:
			a = make([]byte, 20)
		case 3:
			for i := range a {
				a[i] = 0xff
			}
		}
		return strings.Repeat("00", 20-len(a)) + strings.TrimPrefix(h.Hex(a), "-")
	case "sc":
		return fmt.Sprintf("%s;%s;%s;%s", i64Boundary(rng, k), i64Boundary(rng, k+1), i64Boundary(rng, k+2), i64Boundary(rng, k+3))
	case "cm":
		b := rng.Bytes(32)
		switch k % 3 {
		case 1:
			b[0] = 0
		case 2:
			b = make([]byte, 32)
		}
		return fmt.Sprintf("%s;%s", u256Boundary(rng, k), strings.Repeat("00", 32-len(b))+strings.TrimPrefix(h.Hex(b), "-"))
	case "rv":
		return fmt.Sprintf("%s;%s", u256Boundary(rng, k), u256Boundary(rng, k+1))
	}
	panic(name)
}

func gen(tier string, rng *h.Rng, emit func(string)) {
	thorough := tier == "thorough"
	// 1. handleReq alone: every assignment of the 7 outcomes to 0..4 endpoints (0..5 thorough)
	maxN := 4
	if thorough {
		maxN = 5
	}
	emit("hr -")
	for n := 1; n <= maxN; n++ {
		assignments(hrOutcomes, n, func(a []string) { emit("hr " + strings.Join(a, ",")) })
	}
	// operation context found done at every position after every non-stopping prefix
	for p := 0; p <= 3; p++ {
		assignments([]string{"closed", "nonce", "other", "done"}, p, func(pre []string) {
			tail := []string{}
			for i := rng.Intn(3); i > 0; i-- {
				tail = append(tail, hrOutcomes[rng.Intn(len(hrOutcomes))])
			}
			emit("hr " + strings.Join(append(append(pre, "op"), tail...), ","))
		})
	}
	for n := 1; n <= 3; n++ {
		emit(fmt.Sprintf("race %d", n))
	}
	// commit-reveal glue: secrets with 0..32 leading zero bytes (randSeed = 256^k bounds the secret below 256^k)
	reps := 1
	if thorough {
		reps = 6
	}
	for r := 0; r < reps; r++ {
		for k := 0; k <= 32; k++ {
			seed := new(big.Int).Lsh(big.NewInt(1), uint(8*k))
			emit(fmt.Sprintf("cr %s %s", seed, u256Boundary(rng, k+r)))
		}
		emit("cr 2 7")
		emit("cr 0 1") // no seed yet: the code's default modulus
		emit(fmt.Sprintf("cr %s 3", rng.Big(max256)))
	}
	// configuration histories: setters, reconnects, failures, then a call
	prices := []string{"0", "1", "20000000000", "5000000000", "9223372036854775807"}
	limits := []string{"21000", "800000", "5000000", "4700000"}
	// every (price before, price set, reconnect?) triple once
	// prices SET through SetGasPrice: also 2^63 and 2^64-1 (the uint64 field holds them; Connect converted through int64
	// until /repo 21a9d40 — review E #6); the configured start price is read with strconv.Atoi: at most 2^63-1
	setPrices := append(append([]string{}, prices...), "9223372036854775808", "18446744073709551615")
	for _, p0 := range prices {
		for _, p1 := range setPrices {
			emit(fmt.Sprintf("cfg 5000000 %s 1 tx:acc gp:%s tx:acc re tx:acc re tx:acc", p0, p1))
			emit(fmt.Sprintf("cfg 5000000 %s 56 gp:%s gl:%s re tx:nonce,acc tx:acc,acc re tx:acc,acc", p0, p1, limits[rng.Intn(len(limits))]))
		}
	}
	ncfg := 60
	if thorough {
		ncfg = 600
	}
	for j := 0; j < ncfg; j++ {
		n := 1 + rng.Intn(3)
		var ops []string
		for k := 2 + rng.Intn(7); k > 0; k-- {
			switch rng.Intn(5) {
			case 0:
				ops = append(ops, "gp:"+setPrices[rng.Intn(len(setPrices))])
			case 1:
				ops = append(ops, "gl:"+limits[rng.Intn(len(limits))])
			case 2:
				ops = append(ops, "re")
			default:
				a := make([]string, n)
				for i := range a {
					a[i] = []string{"acc", "acc", "conn", "nonce", "other", "revert", "closed"}[rng.Intn(7)]
				}
				ops = append(ops, "tx:"+strings.Join(a, ","))
			}
		}
		ops = append(ops, "tx:"+strings.TrimSuffix(strings.Repeat("acc,", n), ","))
		emit(fmt.Sprintf("cfg %s %s %d %s", limits[rng.Intn(len(limits))], prices[rng.Intn(len(prices))], []int{1, 4, 56, 97}[rng.Intn(4)], strings.Join(ops, " ")))
	}
	// 2. marshalling
	for k := 0; k < 64; k++ {
		emit("sig " + sigBoundary(rng, k))
	}
	for _, n := range []int{0, 1, 31, 32, 33, 63, 65, 96, 128} {
		emit("sig " + h.Hex(rng.Bytes(n)))
	}
	suite := suites.MustFind("bn256")
	npk := 40
	if thorough {
		npk = 400
	}
	for i := 0; i < npk; i++ {
		var k *big.Int
		switch {
		case i < 8:
			k = big.NewInt(int64(i + 1))
		default:
			k = rng.Big(max256)
			if k.Sign() == 0 {
				k = big.NewInt(1)
			}
		}
		sc := suite.G2().Scalar().SetBytes(k.Bytes())
		p := suite.G2().Point().Mul(sc, nil)
		mar, err := p.MarshalBinary()
		if err != nil {
			continue
		}
		emit(fmt.Sprintf("pk %s %s", h.Hex(mar), k))
	}
	// group keys chosen by the BYTE PATTERN of their encoding (seeded change C19g-2 was missed: TrimLeft of the 0x01 tag
	// also eats a coordinate whose top byte is 0x01): walk sk = s0+1, s0+2, … (one point addition each) and take the first
	// key per (coordinate, pattern): top byte 0x00 / 0x01 (= the tag) / 0x02 / 0x30 (the largest possible), top TWO bytes
	// 0x01 0x01 or 0x00 0x00 or 0x00 0x01, low byte 0x00 / 0x01 / 0xff; plus keys where SEVERAL coordinates start with the tag
	{
		starts := []*big.Int{big.NewInt(0)}
		limit := 6000
		if thorough {
			starts = append(starts, rng.Big(max256), rng.Big(max256))
			limit = 40000
		}
		g := suite.G2().Point().Base()
		for _, s0 := range starts {
			seen := map[string]bool{}
			p := suite.G2().Point().Mul(suite.G2().Scalar().SetBytes(s0.Bytes()), nil)
			k := new(big.Int).Set(s0)
			for step := 0; step < limit; step++ {
				p = suite.G2().Point().Add(p, g)
				k = new(big.Int).Add(k, big.NewInt(1))
				mar, err := p.MarshalBinary()
				if err != nil || len(mar) != 129 {
					continue
				}
				var pats []string
				tagged := 0
				for c := 0; c < 4; c++ {
					w := mar[1+32*c : 33+32*c]
					switch w[0] {
					case 0x00, 0x01, 0x02, 0x30:
						pats = append(pats, fmt.Sprintf("c%d-top%02x", c, w[0]))
					}
					if w[0] == 0x01 {
						tagged++
					}
					if w[0] <= 0x01 && w[1] <= 0x01 {
						pats = append(pats, fmt.Sprintf("c%d-top%02x%02x", c, w[0], w[1]))
					}
					switch w[31] {
					case 0x00, 0x01, 0xff:
						pats = append(pats, fmt.Sprintf("c%d-low%02x", c, w[31]))
					}
				}
				if tagged >= 2 {
					pats = append(pats, fmt.Sprintf("tagged%d", tagged))
				}
				hit := false
				for _, pt := range pats {
					if !seen[pt] {
						seen[pt] = true
						hit = true
					}
				}
				if hit {
					emit(fmt.Sprintf("pk %s %s", h.Hex(mar), k))
					emit(fmt.Sprintf("rgk %s", k))
				}
			}
		}
	}
	// a completed key generation's group key through the real registerGroup stage into the adaptor (review E #4)
	grps := [][2]string{{"3", "1"}, {"4", "115792089237316195423570985008687907853269984665640564039457584007913129639935"}}
	if tier == "thorough" {
		grps = append(grps, [2]string{"3", "255"}, [2]string{"5", "4294967296"}, [2]string{"4", "7"}, [2]string{"3", "340282366920938463463374607431768211456"})
	}
	for _, g := range grps {
		emit(fmt.Sprintf("grp %s %s", g[0], g[1]))
	}
	// concurrent callers on one adaptor: the queue serialises them, accepted nonces are consecutive (review E #10)
	for _, kk := range [][2]int{{1, 7}, {2, 7}, {3, 0}, {8, 7}, {16, 1000}, {32, 4294967290}} {
		emit(fmt.Sprintf("cc %d %d", kk[0], kk[1]))
	}
	// the identity group key (k·G2 for k = 0 or the group order) marshals to ONE byte: decodePubKey returns an error
	// since /repo ae5b22f (it panicked on the slice before): review E #7
	emit("pk 00")
	// 3. the real adaptor. every assignment of the six property outcomes to 1..3 endpoints
	k := 0
	cfg := func() string {
		if k%7 == 3 {
			return "3000000 0 97" // gas price 0: the endpoint's suggestion is used
		}
		switch k % 3 {
		case 0:
			return "5000000 20000000000 1"
		case 1:
			return "800000 1 56"
		}
		return "4700000 5000000000 4"
	}
	for n := 1; n <= 3; n++ {
		assignments(propOutcomes, n, func(a []string) {
			for _, nm := range callNames {
				emit(fmt.Sprintf("seq %s %s/%s/%s", cfg(), nm, callArgs(nm, rng, k, false), strings.Join(a, ",")))
				k++
			}
		})
	}
	// review E #2: an endpoint that ACCEPTED the transaction but whose reply is lost ("lost": the connection is cut after
	// eth_sendRawTransaction was processed), at every position among acc / conn / revert / lost endpoints
	for n := 1; n <= 3; n++ {
		assignments([]string{"acc", "conn", "revert", "lost"}, n, func(a []string) {
			has := false
			for _, o := range a {
				has = has || o == "lost"
			}
			if !has {
				return
			}
			for _, nm := range []string{"rn", "ur"} {
				emit(fmt.Sprintf("seq %s %s/%s/%s", cfg(), nm, callArgs(nm, rng, k, false), strings.Join(a, ",")))
				k++
			}
		})
	}
	// … and followed by a second call on the same adaptor: the nonces of the endpoints that took the first one moved
	emit("seq 5000000 20000000000 1 rn/-/lost,acc rn/-/acc,acc rn/-/conn,acc")
	// all six calls x argument boundaries on healthy endpoints
	nb := 8
	if thorough {
		nb = 24
	}
	emit("sel")
	for _, nm := range queueCalls {
		for j := 0; j < nb; j++ {
			n := 1 + j%2
			emit(fmt.Sprintf("seq %s %s/%s/%s", cfg(), nm, callArgs(nm, rng, j, j == 4), strings.Join(make([]string, 0), "")+strings.TrimSuffix(strings.Repeat("acc,", n), ",")))
			k++
		}
	}
	// transport-level variants of the failures
	nx := 40
	if thorough {
		nx = 400
	}
	all := append(append([]string{}, propOutcomes...), extraOutcomes...)
	for j := 0; j < nx; j++ {
		n := 1 + rng.Intn(3)
		a := make([]string, n)
		for i := range a {
			a[i] = all[rng.Intn(len(all))]
		}
		a[rng.Intn(n)] = extraOutcomes[rng.Intn(3)]
		nm := callNames[rng.Intn(6)]
		emit(fmt.Sprintf("seq %s %s/%s/%s", cfg(), nm, callArgs(nm, rng, rng.Intn(64), false), strings.Join(a, ",")))
		k++
	}
	// result sizes around the 32-byte padding boundary and a few kB; every traffic type byte
	for _, sz := range []int{0, 1, 2, 30, 31, 32, 33, 63, 64, 65, 95, 96, 97, 3000, 4095, 4096, 4097, 6000} {
		c := "-"
		if sz > 0 {
			c = fmt.Sprintf("syn.%d.%d.%d", sz, 1+rng.Intn(250), rng.Intn(256))
		}
		emit(fmt.Sprintf("seq %s dr/%s;%s;%d;%s/acc", cfg(), sigBoundary(rng, sz), ridBoundary(rng, sz), rng.Intn(300), c))
		k++
	}
	// nonces across the queue: successive calls through one adaptor, refused sends and failover in between
	// (an endpoint's pending nonce moves only when it has accepted a transaction)
	for _, hist := range []string{
		"rn/-/acc rn/-/acc rn/-/acc",
		"rn/-/revert rn/-/acc rn/-/funds rn/-/acc",
		"rn/-/other,acc rn/-/acc,acc rn/-/other,acc rn/-/acc,acc",
		"rn/-/nonce,acc rn/-/acc,acc rn/-/acc,acc",
		"rn/-/conn,other,acc rn/-/acc,acc,acc rn/-/acc,revert,acc rn/-/acc,acc,acc",
		"un/-/acc,acc rn/-/hdr,acc un/-/acc,acc rn/-/connsend,acc rn/-/acc,acc",
	} {
		emit(fmt.Sprintf("seq %s %s", cfg(), hist))
		k++
	}
	nn := 20
	if thorough {
		nn = 200
	}
	for j := 0; j < nn; j++ {
		n := 1 + rng.Intn(3)
		var cs []string
		for c := 4 + rng.Intn(5); c > 0; c-- {
			a := make([]string, n)
			for i := range a {
				a[i] = []string{"acc", "acc", "acc", "other", "revert", "funds", "hdr"}[rng.Intn(7)]
			}
			nm := queueCalls[rng.Intn(len(queueCalls))]
			cs = append(cs, fmt.Sprintf("%s/%s/%s", nm, callArgs(nm, rng, rng.Intn(64), false), strings.Join(a, ",")))
		}
		emit(fmt.Sprintf("seq %s %s", cfg(), strings.Join(cs, " ")))
		k++
	}
	// sequences of calls on one adaptor: endpoints cancelled by earlier failures stay out
	ns := 60
	if thorough {
		ns = 600
	}
	for j := 0; j < ns; j++ {
		n := 1 + rng.Intn(3)
		m := 2 + rng.Intn(2)
		var cs []string
		for c := 0; c < m; c++ {
			a := make([]string, n)
			for i := range a {
				a[i] = propOutcomes[rng.Intn(len(propOutcomes))]
				if rng.Intn(3) == 0 {
					a[i] = []string{"conn", "nonce", "closed"}[rng.Intn(3)]
				}
			}
			nm := callNames[rng.Intn(6)]
			cs = append(cs, fmt.Sprintf("%s/%s/%s", nm, callArgs(nm, rng, rng.Intn(64), false), strings.Join(a, ",")))
		}
		emit(fmt.Sprintf("seq %s %s", cfg(), strings.Join(cs, " ")))
		k++
	}
}

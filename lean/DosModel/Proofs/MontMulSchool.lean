/-
C10 layer 2/3 — arithmetic of the macro blocks of mul.h (MULQ path), for ALL word operands:
`mulRow` is x·b, `accRow` adds without loss, `mul8` (the `mul` macro) is the full 512-bit
product, `hi5` is ⌊(M + T) / 2^256⌋. Method as in MontLimbs.lean: one linear fact per word
operation (products x·bⱼ are atoms), equalities-only telescoping, then small case analyses.
-/
import Mathlib.Tactic.Ring
import DosModel.Proofs.MontLimbs
import DosModel.Proofs.MontMulStruct

namespace Dos.Mont

abbrev W5 : Nat := W * W * W * W * W

def L5.val (r : L5) : Nat := r.l0 + W * r.l1 + W * W * r.l2 + W * W * W * r.l3 + W * W * W * W * r.l4
def L5.ok (r : L5) : Prop := r.l0 < W ∧ r.l1 < W ∧ r.l2 < W ∧ r.l3 < W ∧ r.l4 < W
def L8.val (t : L8) : Nat := v4 t.l0 t.l1 t.l2 t.l3 + R * v4 t.l4 t.l5 t.l6 t.l7
def L8.ok (t : L8) : Prop :=
  t.l0 < W ∧ t.l1 < W ∧ t.l2 < W ∧ t.l3 < W ∧ t.l4 < W ∧ t.l5 < W ∧ t.l6 < W ∧ t.l7 < W

/-- MULQ / MULXQ: lo + W·hi = x·y, and the high word is at most W − 2 -/
theorem mul_spec (x y : Nat) (hx : x < W) (hy : y < W) :
    mulLo x y + W * mulHi x y = x * y ∧ mulLo x y < W ∧ mulHi x y ≤ W - 2 := by
  have hle : x * y ≤ (W - 1) * (W - 1) := Nat.mul_le_mul (by simp only [W] at *; omega) (by simp only [W] at *; omega)
  refine ⟨?_, Nat.mod_lt _ (by decide), ?_⟩
  · simp only [mulLo, mulHi]; exact Nat.mod_add_div _ _
  · simp only [mulHi]
    calc x * y / W ≤ (W - 1) * (W - 1) / W := Nat.div_le_div_right hle
      _ = W - 2 := by decide

/-- `ADCQ $0, hi` after a MULQ never wraps -/
theorem adc0_exact (hi c : Nat) (hh : hi ≤ W - 2) (hc : c ≤ 1) : adcLo hi 0 c = hi + c := by
  simp only [adcLo, W] at *; omega

theorem mulRow_tele {lo0 lo1 lo2 lo3 hi0 hi1 hi2 hi3 p0 p1 p2 p3 r1 r2 r3 r4 c1 c2 c3 d1 d2 : Nat}
    (m0 : lo0 + W * hi0 = p0) (m1 : lo1 + W * hi1 = p1) (m2 : lo2 + W * hi2 = p2) (m3 : lo3 + W * hi3 = p3)
    (e1 : r1 + W * c1 = hi0 + lo1) (f1 : d1 = hi1 + c1)
    (e2 : r2 + W * c2 = d1 + lo2) (f2 : d2 = hi2 + c2)
    (e3 : r3 + W * c3 = d2 + lo3) (f3 : r4 = hi3 + c3) :
    lo0 + W * r1 + W * W * r2 + W * W * W * r3 + W * W * W * W * r4 =
      p0 + W * p1 + W * W * p2 + W * W * W * p3 := by
  simp only [W] at *; omega

/-- one row: five words whose value is x · b -/
theorem mulRow_val (x : Nat) (b : L4) (hx : x < W) (hb : b.ok) :
    (mulRow x b).val = x * b.val ∧ (mulRow x b).ok := by
  obtain ⟨b0, b1, b2, b3⟩ := b
  obtain ⟨hb0, hb1, hb2, hb3⟩ := hb
  simp only at hb0 hb1 hb2 hb3
  simp only [mulRow, L5.val, L5.ok]
  obtain ⟨m0, l0, k0⟩ := mul_spec x b0 hx hb0
  obtain ⟨m1, l1, k1⟩ := mul_spec x b1 hx hb1
  obtain ⟨m2, l2, k2⟩ := mul_spec x b2 hx hb2
  obtain ⟨m3, l3, k3⟩ := mul_spec x b3 hx hb3
  generalize mulLo x b0 = lo0 at *
  generalize mulHi x b0 = hi0 at *
  generalize mulLo x b1 = lo1 at *
  generalize mulHi x b1 = hi1 at *
  generalize mulLo x b2 = lo2 at *
  generalize mulHi x b2 = hi2 at *
  generalize mulLo x b3 = lo3 at *
  generalize mulHi x b3 = hi3 at *
  have hh0 : hi0 < W := by simp only [W] at *; omega
  obtain ⟨e1, n1, j1⟩ := add_spec hi0 lo1 hh0 l1
  generalize addLo hi0 lo1 = r1 at *
  generalize addC hi0 lo1 = c1 at *
  have f1 := adc0_exact hi1 c1 k1 j1
  generalize adcLo hi1 0 c1 = d1 at *
  have hd1 : d1 < W := by simp only [W] at *; omega
  obtain ⟨e2, n2, j2⟩ := add_spec d1 lo2 hd1 l2
  generalize addLo d1 lo2 = r2 at *
  generalize addC d1 lo2 = c2 at *
  have f2 := adc0_exact hi2 c2 k2 j2
  generalize adcLo hi2 0 c2 = d2 at *
  have hd2 : d2 < W := by simp only [W] at *; omega
  obtain ⟨e3, n3, j3⟩ := add_spec d2 lo3 hd2 l3
  generalize addLo d2 lo3 = r3 at *
  generalize addC d2 lo3 = c3 at *
  have f3 := adc0_exact hi3 c3 k3 j3
  generalize adcLo hi3 0 c3 = r4 at *
  have h4 : r4 < W := by simp only [W] at *; omega
  refine ⟨?_, l0, n1, n2, n3, h4⟩
  rw [mulRow_tele m0 m1 m2 m3 e1 f1 e2 f2 e3 f3, L4.val_eq]
  simp only [v4]; ring

theorem accRow_tele {r0 r1 r2 r3 r4 s1 s2 s3 s4 n0 n1 n2 n3 n4 c0 c1 c2 c3 c4 : Nat}
    (e0 : n0 + W * c0 = r0 + s1) (e1 : n1 + W * c1 = r1 + s2 + c0) (e2 : n2 + W * c2 = r2 + s3 + c1)
    (e3 : n3 + W * c3 = r3 + s4 + c2) (e4 : n4 + W * c4 = r4 + 0 + c3) :
    n0 + W * n1 + W * W * n2 + W * W * W * n3 + W * W * W * W * n4 + W5 * c4 =
      r0 + W * r1 + W * W * r2 + W * W * W * r3 + W * W * W * W * r4 + v4 s1 s2 s3 s4 := by
  simp only [v4, W5, W] at *; omega

theorem acc_agg {N X c : Nat} (h : N + W5 * c = X) (hX : X < W5) : N = X := by
  simp only [W5, W] at *; omega

/-- adding the previous partial result loses nothing as long as the total fits five words -/
theorem accRow_val (r : L5) (s1 s2 s3 s4 : Nat) (hr : r.ok) (h1 : s1 < W) (h2 : s2 < W) (h3 : s3 < W)
    (h4 : s4 < W) (hfit : r.val + v4 s1 s2 s3 s4 < W5) :
    (accRow r s1 s2 s3 s4).val = r.val + v4 s1 s2 s3 s4 ∧ (accRow r s1 s2 s3 s4).ok := by
  obtain ⟨r0, r1, r2, r3, r4⟩ := r
  obtain ⟨hr0, hr1, hr2, hr3, hr4⟩ := hr
  simp only at hr0 hr1 hr2 hr3 hr4
  simp only [accRow, L5.val, L5.ok] at hfit ⊢
  obtain ⟨e0, n0, j0⟩ := add_spec r0 s1 hr0 h1
  generalize addLo r0 s1 = x0 at *
  generalize addC r0 s1 = c0 at *
  obtain ⟨e1, n1, j1⟩ := adc_spec r1 s2 c0 hr1 h2 j0
  generalize adcLo r1 s2 c0 = x1 at *
  generalize adcC r1 s2 c0 = c1 at *
  obtain ⟨e2, n2, j2⟩ := adc_spec r2 s3 c1 hr2 h3 j1
  generalize adcLo r2 s3 c1 = x2 at *
  generalize adcC r2 s3 c1 = c2 at *
  obtain ⟨e3, n3, j3⟩ := adc_spec r3 s4 c2 hr3 h4 j2
  generalize adcLo r3 s4 c2 = x3 at *
  generalize adcC r3 s4 c2 = c3 at *
  obtain ⟨e4, n4, _⟩ := adc_spec r4 0 c3 hr4 (by decide) j3
  generalize adcLo r4 0 c3 = x4 at *
  generalize adcC r4 0 c3 = c4 at *
  exact ⟨acc_agg (accRow_tele e0 e1 e2 e3 e4) hfit, n0, n1, n2, n3, n4⟩

theorem L5.split (r : L5) : r.val = r.l0 + W * v4 r.l1 r.l2 r.l3 r.l4 := by
  simp only [L5.val, v4]; ring

theorem row_fits {x B C : Nat} (hx : x < W) (hB : B < R) (hC : C < R) : x * B + C < W5 := by
  have h : x * B ≤ (W - 1) * (R - 1) :=
    Nat.mul_le_mul (by simp only [W] at *; omega) (by simp only [R] at *; omega)
  have e : (W - 1) * (R - 1) + R ≤ W5 := by decide
  omega

theorem mul8_tele {t0 t1 t2 V3 C0 C1 C2 q0 q1 q2 q3 : Nat}
    (e0 : t0 + W * C0 = q0) (e1 : t1 + W * C1 = q1 + C0) (e2 : t2 + W * C2 = q2 + C1) (e3 : V3 = q3 + C2) :
    t0 + W * t1 + W * W * t2 + W * W * W * V3 = q0 + W * q1 + W * W * q2 + W * W * W * q3 := by
  simp only [W] at *; omega

/-- **the `mul` macro is the full product**: eight words whose value is a · b -/
theorem mul8_val (a b : L4) (ha : a.ok) (hb : b.ok) : (mul8 a b).val = a.val * b.val ∧ (mul8 a b).ok := by
  have hB := L4.val_lt b hb
  obtain ⟨ha0, ha1, ha2, ha3⟩ := ha
  -- row 0
  obtain ⟨v0, o0⟩ := mulRow_val a.l0 b ha0 hb
  have C0lt := v4_lt o0.2.1 o0.2.2.1 o0.2.2.2.1 o0.2.2.2.2
  -- row 1
  obtain ⟨v1, o1⟩ := mulRow_val a.l1 b ha1 hb
  have fit1 : (mulRow a.l1 b).val + v4 (mulRow a.l0 b).l1 (mulRow a.l0 b).l2 (mulRow a.l0 b).l3 (mulRow a.l0 b).l4 < W5 := by
    rw [v1]; exact row_fits ha1 hB C0lt
  obtain ⟨w1, p1⟩ := accRow_val _ _ _ _ _ o1 o0.2.1 o0.2.2.1 o0.2.2.2.1 o0.2.2.2.2 fit1
  generalize hA1 : accRow (mulRow a.l1 b) (mulRow a.l0 b).l1 (mulRow a.l0 b).l2 (mulRow a.l0 b).l3 (mulRow a.l0 b).l4 = A1 at *
  have C1lt := v4_lt p1.2.1 p1.2.2.1 p1.2.2.2.1 p1.2.2.2.2
  -- row 2
  obtain ⟨v2, o2⟩ := mulRow_val a.l2 b ha2 hb
  have fit2 : (mulRow a.l2 b).val + v4 A1.l1 A1.l2 A1.l3 A1.l4 < W5 := by
    rw [v2]; exact row_fits ha2 hB C1lt
  obtain ⟨w2, p2⟩ := accRow_val _ _ _ _ _ o2 p1.2.1 p1.2.2.1 p1.2.2.2.1 p1.2.2.2.2 fit2
  generalize hA2 : accRow (mulRow a.l2 b) A1.l1 A1.l2 A1.l3 A1.l4 = A2 at *
  have C2lt := v4_lt p2.2.1 p2.2.2.1 p2.2.2.2.1 p2.2.2.2.2
  -- row 3
  obtain ⟨v3, o3⟩ := mulRow_val a.l3 b ha3 hb
  have fit3 : (mulRow a.l3 b).val + v4 A2.l1 A2.l2 A2.l3 A2.l4 < W5 := by
    rw [v3]; exact row_fits ha3 hB C2lt
  obtain ⟨w3, p3⟩ := accRow_val _ _ _ _ _ o3 p2.2.1 p2.2.2.1 p2.2.2.2.1 p2.2.2.2.2 fit3
  generalize hA3 : accRow (mulRow a.l3 b) A2.l1 A2.l2 A2.l3 A2.l4 = A3 at *
  have hm : mul8 a b = ⟨(mulRow a.l0 b).l0, A1.l0, A2.l0, A3.l0, A3.l1, A3.l2, A3.l3, A3.l4⟩ := by
    simp only [mul8, hA1, hA2, hA3]
  rw [hm]
  refine ⟨?_, o0.1, p1.1, p2.1, p3.1, p3.2.1, p3.2.2.1, p3.2.2.2.1, p3.2.2.2.2⟩
  -- value
  have e0 : (mulRow a.l0 b).l0 + W * v4 (mulRow a.l0 b).l1 (mulRow a.l0 b).l2 (mulRow a.l0 b).l3 (mulRow a.l0 b).l4
      = a.l0 * b.val := by rw [← L5.split, v0]
  have e1 : A1.l0 + W * v4 A1.l1 A1.l2 A1.l3 A1.l4 = a.l1 * b.val +
      v4 (mulRow a.l0 b).l1 (mulRow a.l0 b).l2 (mulRow a.l0 b).l3 (mulRow a.l0 b).l4 := by
    rw [← L5.split, w1, v1]
  have e2 : A2.l0 + W * v4 A2.l1 A2.l2 A2.l3 A2.l4 = a.l2 * b.val + v4 A1.l1 A1.l2 A1.l3 A1.l4 := by
    rw [← L5.split, w2, v2]
  have e3 : A3.val = a.l3 * b.val + v4 A2.l1 A2.l2 A2.l3 A2.l4 := by rw [w3, v3]
  have key := mul8_tele e0 e1 e2 e3
  have hv : (L8.mk (mulRow a.l0 b).l0 A1.l0 A2.l0 A3.l0 A3.l1 A3.l2 A3.l3 A3.l4).val =
      (mulRow a.l0 b).l0 + W * A1.l0 + W * W * A2.l0 + W * W * W * A3.val := by
    simp only [L8.val, L5.val, v4, R, W]; ring
  rw [hv, key, L4.val_eq a]
  simp only [v4]; ring

theorem hi5_tele_lo {m0 m1 m2 m3 t0 t1 t2 t3 x0 x1 x2 x3 c0 c1 c2 c3 : Nat}
    (e0 : x0 + W * c0 = m0 + t0) (e1 : x1 + W * c1 = m1 + t1 + c0) (e2 : x2 + W * c2 = m2 + t2 + c1)
    (e3 : x3 + W * c3 = m3 + t3 + c2) :
    v4 x0 x1 x2 x3 + R * c3 = v4 m0 m1 m2 m3 + v4 t0 t1 t2 t3 := by
  simp only [v4, W, R] at *; omega

theorem hi5_tele_hi {m4 m5 m6 m7 t4 t5 t6 t7 u0 u1 u2 u3 c3 c4 c5 c6 c7 : Nat}
    (e4 : u0 + W * c4 = m4 + t4 + c3) (e5 : u1 + W * c5 = m5 + t5 + c4) (e6 : u2 + W * c6 = m6 + t6 + c5)
    (e7 : u3 + W * c7 = m7 + t7 + c6) :
    v4 u0 u1 u2 u3 + R * c7 = v4 m4 m5 m6 m7 + v4 t4 t5 t6 t7 + c3 := by
  simp only [v4, W, R] at *; omega

theorem hi5_agg {Llo Ml Tl Mh Th U c3 c7 : Nat} (hL : Llo < R) (hlo : Llo + R * c3 = Ml + Tl)
    (hhi : U + R * c7 = Mh + Th + c3) : U + R * c7 = (Ml + R * Mh + (Tl + R * Th)) / R := by
  simp only [R] at *; omega

/-- the 512-bit addition keeps ⌊(M + T) / 2^256⌋ in five words -/
theorem hi5_val (m t : L8) (hm : m.ok) (ht : t.ok) :
    (hi5 m t).val = (m.val + t.val) / R ∧ (hi5 m t).ok := by
  obtain ⟨m0, m1, m2, m3, m4, m5, m6, m7⟩ := m
  obtain ⟨t0, t1, t2, t3, t4, t5, t6, t7⟩ := t
  obtain ⟨hm0, hm1, hm2, hm3, hm4, hm5, hm6, hm7⟩ := hm
  obtain ⟨ht0, ht1, ht2, ht3, ht4, ht5, ht6, ht7⟩ := ht
  simp only at hm0 hm1 hm2 hm3 hm4 hm5 hm6 hm7 ht0 ht1 ht2 ht3 ht4 ht5 ht6 ht7
  simp only [hi5, L5.val, L5.ok, L8.val]
  obtain ⟨e0, n0, j0⟩ := add_spec m0 t0 hm0 ht0
  generalize addLo m0 t0 = x0 at *
  generalize addC m0 t0 = c0 at *
  obtain ⟨e1, n1, j1⟩ := adc_spec m1 t1 c0 hm1 ht1 j0
  generalize adcLo m1 t1 c0 = x1 at *
  generalize adcC m1 t1 c0 = c1 at *
  obtain ⟨e2, n2, j2⟩ := adc_spec m2 t2 c1 hm2 ht2 j1
  generalize adcLo m2 t2 c1 = x2 at *
  generalize adcC m2 t2 c1 = c2 at *
  obtain ⟨e3, n3, j3⟩ := adc_spec m3 t3 c2 hm3 ht3 j2
  generalize adcLo m3 t3 c2 = x3 at *
  generalize adcC m3 t3 c2 = c3 at *
  obtain ⟨e4, n4, j4⟩ := adc_spec m4 t4 c3 hm4 ht4 j3
  generalize adcLo m4 t4 c3 = u0 at *
  generalize adcC m4 t4 c3 = c4 at *
  obtain ⟨e5, n5, j5⟩ := adc_spec m5 t5 c4 hm5 ht5 j4
  generalize adcLo m5 t5 c4 = u1 at *
  generalize adcC m5 t5 c4 = c5 at *
  obtain ⟨e6, n6, j6⟩ := adc_spec m6 t6 c5 hm6 ht6 j5
  generalize adcLo m6 t6 c5 = u2 at *
  generalize adcC m6 t6 c5 = c6 at *
  obtain ⟨e7, n7, j7⟩ := adc_spec m7 t7 c6 hm7 ht7 j6
  generalize adcLo m7 t7 c6 = u3 at *
  generalize adcC m7 t7 c6 = c7 at *
  have e8 : adcLo 0 0 c7 = c7 := by simp only [adcLo, W]; omega
  rw [e8]
  have h8 : c7 < W := by simp only [W]; omega
  refine ⟨?_, n4, n5, n6, n7, h8⟩
  have := hi5_agg (v4_lt n0 n1 n2 n3) (hi5_tele_lo e0 e1 e2 e3) (hi5_tele_hi e4 e5 e6 e7)
  rw [← this]
  simp only [v4, R, W]

end Dos.Mont

/-
`ProcessResponse` preserves the invariant `GoodGen` of `Proofs/DkgStep.lean`, for every message.
-/
import DosModel.Proofs.DkgStep

set_option linter.unusedSectionVars false

namespace Dos.Dkg
open Dos Dos.Vss

variable {F G : Type} [Field F] [AddCommGroup G] [Module F G] [DecidableEq F] [DecidableEq G]

/-- a response accepted by `verifyResponse` lands in an empty slot of another member and is
recorded with the slot's session id and that member's signature -/
theorem goodA_verifyResponse (g : G) (own : Nat) (long : F) (L : List G) (dealer : G) (j : Nat)
    (a a' : Agg F G) (r : Response F G) (ha : GoodA g own long L dealer j a)
    (h : verifyResponse g a r = .ok a') :
    GoodA g own long L dealer j a' ∧ r.index ≠ own ∧ a'.deal = a.deal ∧ a'.sid = a.sid ∧
      a'.badDealer = a.badDealer ∧ a'.t = a.t ∧ getResponse a' r.index = some r ∧
      (∀ k, k ≠ r.index → getResponse a' k = getResponse a k) := by
  obtain ⟨hsid, ⟨pub, hpub, hsig⟩, hadd⟩ := verifyResponse_ok h
  obtain ⟨hlt, hempty, ha'⟩ := addResponse_ok hadd
  have hjl : r.index < a.responses.length := by rw [ha.hlen, ← ha.hvs]; exact hlt
  have hget : ∀ k, getResponse a' k = if r.index = k then some r else getResponse a k := by
    intro k; rw [ha']; exact getResponse_set a r.index k r hjl
  obtain ⟨ro, hro, hroi, hrosig, hroimp⟩ := ha.ownResp
  have hne : r.index ≠ own := by intro he; rw [he] at hempty; rw [hempty] at hro; cases hro
  refine ⟨⟨by rw [ha']; exact ha.hvs, by rw [ha']; exact ha.hdealer, by rw [ha']; simp [ha.hlen], ?_, ?_⟩,
    hne, by rw [ha'], by rw [ha'], by rw [ha'], by rw [ha'], by rw [hget]; simp, ?_⟩
  · refine ⟨ro, by rw [hget]; simp [hne, hro], hroi, hrosig, ?_⟩
    intro hs; obtain ⟨d, val, h1, h2, h3, h4, h5⟩ := hroimp hs
    exact ⟨d, val, by rw [ha']; exact h1, by rw [ha']; exact h2, h3, h4, h5⟩
  · intro k hk hkj r' hr'
    rw [hget] at hr'
    by_cases hrk : r.index = k
    · simp only [hrk, if_true, Option.some.injEq] at hr'
      subst hr'
      refine ⟨hrk, by rw [ha']; exact hsid, pub, r.status, ?_, ?_⟩
      · rw [← hrk, ← ha.hvs]; exact hpub
      · exact hsig
    · simp only [hrk, if_false] at hr'
      have := ha.others k hk hkj r' hr'
      rw [ha']; exact this
  · intro k hk; rw [hget]; simp [Ne.symm hk]

theorem getResponse_approveStored (a : Agg F G) (idx k : Nat) :
    getResponse { a with responses := approveStored a.responses idx } k =
      if idx = k then (getResponse a k).map (fun r => { r with status := true }) else getResponse a k := by
  unfold getResponse approveStored
  simp only [List.getElem?_modify]
  by_cases h : idx = k
  · subst h
    rcases a.responses[idx]? with _ | x
    · simp
    · cases x <;> simp
  · simp [h]

/-- the three things `verifyJustification` can do to an aggregator that stores its deal -/
theorem vj_cases (g : G) (a : Agg F G) (idx : Nat) (deal : Deal F G) (hdeal : a.deal.isSome = true) :
    (verifyJustification g a idx deal).1 = a ∨
    (verifyJustification g a idx deal).1 = { a with badDealer := true } ∨
    (verifyJustification g a idx deal).1 = { a with responses := approveStored a.responses idx } := by
  have hun := verifyDeal_stored_unchanged g a deal hdeal
  unfold verifyJustification
  split
  · left; rfl
  · split
    · left; rfl
    · split
      · left; rfl
      · rcases hvd : verifyDeal g a deal false with ⟨a1, verr⟩
        rw [hvd] at hun; simp only at hun; subst hun
        rcases verr with _ | e
        · right; right; rfl
        · right; left; rfl

/-- `verifyJustification` on an aggregator that stores its deal: only the complainer's stored status
(or the bad-dealer flag) changes -/
theorem goodA_justification (g : G) (own : Nat) (long : F) (L : List G) (dealer : G) (j : Nat)
    (a : Agg F G) (idx : Nat) (deal : Deal F G) (ha : GoodA g own long L dealer j a)
    (hdeal : a.deal.isSome = true) (hidx : idx ≠ own) :
    GoodA g own long L dealer j (verifyJustification g a idx deal).1 ∧
      (verifyJustification g a idx deal).1.deal = a.deal ∧ (verifyJustification g a idx deal).1.sid = a.sid := by
  rcases vj_cases g a idx deal hdeal with h | h | h
  · rw [h]; exact ⟨ha, rfl, rfl⟩
  · rw [h]; exact ⟨⟨ha.hvs, ha.hdealer, ha.hlen, ha.ownResp, ha.others⟩, rfl, rfl⟩
  · rw [h]
    have hget := getResponse_approveStored a idx
    obtain ⟨ro, hro, hroi, hrosig, hroimp⟩ := ha.ownResp
    refine ⟨⟨ha.hvs, ha.hdealer, by simp [approveStored, ha.hlen], ?_, ?_⟩, rfl, rfl⟩
    · refine ⟨ro, by rw [hget]; simp [hidx, hro], hroi, hrosig, ?_⟩
      intro hs; obtain ⟨d, val, h1, h2, h3, h4, h5⟩ := hroimp hs
      exact ⟨d, val, h1, h2, h3, h4, h5⟩
    · intro k hk hkj r' hr'
      rw [hget] at hr'
      by_cases hik : idx = k
      · subst hik
        rcases hr : getResponse a idx with _ | r
        · simp [hr] at hr'
        · simp only [if_true, hr, Option.map_some, Option.some.injEq] at hr'
          subst hr'
          obtain ⟨i1, i2, pub, st, i3, i4⟩ := ha.others idx hk hkj r hr
          exact ⟨i1, i2, pub, st, i3, i4⟩
      · simp only [hik, if_false] at hr'
        exact ha.others k hk hkj r' hr'

/-- the invariant only looks at the slots, the participant list, the own index and key -/
theorem goodGen_congr (g : G) (d d' : Gen F G) (hv : d'.verifiers = d.verifiers)
    (hp : d'.participants = d.participants) (hi : d'.index = d.index) (hl : d'.long = d.long)
    (hd : GoodGen g d) : GoodGen g d' := by
  have hget : ∀ k, getVerifier d' k = getVerifier d k := by intro k; simp [getVerifier, hv]
  refine ⟨⟨by rw [hv, hp]; exact hd.len, by rw [hl, hp, hi]; exact hd.idx, by rw [hi, hp]; exact hd.lt, ?_⟩, ?_, ?_⟩
  · intro j v h; rw [hget] at h; rw [hi, hl, hp]; exact hd.good j v h
  · rw [hi, hget]; exact hd.ownSlot
  · intro v a h; rw [hi, hget] at h; exact hd.ownDeal v a h

/-- the justification `Dealer.ProcessResponse` issues is indexed by the complainer -/
theorem dealerProcessResponse_idx (g : G) (dl dl1 : Dealer F G) (r : Response F G) (jidx : Nat) (deal : Deal F G)
    (h : dealerProcessResponse g dl r = (dl1, .ok (some (jidx, deal)))) : jidx = r.index := by
  unfold dealerProcessResponse at h
  split at h
  · simp at h
  · split at h
    · simp at h
    · split at h
      · simp at h
      · simp only [Prod.mk.injEq, Except.ok.injEq, Option.some.injEq] at h
        exact h.2.1.symm

/-- what the own-deal tail does to the slots -/
theorem ownResponse_shape (g : G) (d1 : Gen F G) (v1 : Verifier F G) (a' : Agg F G) (r : Response F G) :
    (ownResponse g d1 v1 a' r).1.participants = d1.participants ∧ (ownResponse g d1 v1 a' r).1.index = d1.index ∧
    (ownResponse g d1 v1 a' r).1.long = d1.long ∧
    ((ownResponse g d1 v1 a' r).1.verifiers = d1.verifiers ∨
      ∃ deal, (ownResponse g d1 v1 a' r).1.verifiers =
        d1.verifiers.set d1.index (some { v1 with agg := some (verifyJustification g a' r.index deal).1 })) := by
  unfold ownResponse
  split
  · exact ⟨rfl, rfl, rfl, Or.inl rfl⟩
  · exact ⟨rfl, rfl, rfl, Or.inl rfl⟩
  · rename_i dl1 jidx deal hdp
    have hjidx := dealerProcessResponse_idx g _ dl1 r jidx deal hdp
    subst hjidx
    split
    · rename_i a1 err hvj
      have ha1 : a1 = (verifyJustification g a' r.index deal).1 := by rw [hvj]
      exact ⟨rfl, rfl, rfl, Or.inr ⟨deal, by rw [← ha1]; rfl⟩⟩
    · rename_i a1 hvj
      have ha1 : a1 = (verifyJustification g a' r.index deal).1 := by rw [hvj]
      exact ⟨rfl, rfl, rfl, Or.inr ⟨deal, by rw [← ha1]; rfl⟩⟩

/-- what `ProcessResponse` does to the slots -/
theorem processResponse_shape (g : G) (d : Gen F G) (m : DkgResp F G) :
    (processResponse g d m).1.participants = d.participants ∧ (processResponse g d m).1.index = d.index ∧
    (processResponse g d m).1.long = d.long ∧
    ((processResponse g d m).1.verifiers = d.verifiers ∨
      ∃ r v a a', m.resp = some r ∧ getVerifier d m.index = some v ∧ v.agg = some a ∧
        verifyResponse g a r = .ok a' ∧
        ((processResponse g d m).1.verifiers = d.verifiers.set m.index (some { v with agg := some a' }) ∨
          (m.index = d.index ∧ ∃ deal, (processResponse g d m).1.verifiers =
            d.verifiers.set m.index (some { v with agg := some (verifyJustification g a' r.index deal).1 })))) := by
  unfold processResponse
  split
  · exact ⟨rfl, rfl, rfl, Or.inl rfl⟩
  · rename_i r hr
    split
    · exact ⟨rfl, rfl, rfl, Or.inl rfl⟩
    · rename_i v hv
      split
      · exact ⟨rfl, rfl, rfl, Or.inl rfl⟩
      · rename_i a hagg
        split
        · exact ⟨rfl, rfl, rfl, Or.inl rfl⟩
        · rename_i a' hvr
          simp only
          split
          · exact ⟨rfl, rfl, rfl, Or.inr ⟨r, v, a, a', hr, hv, hagg, hvr, Or.inl rfl⟩⟩
          · rename_i hmi
            have hme : m.index = d.index := by simpa using hmi
            obtain ⟨h1, h2, h3, h4⟩ := ownResponse_shape g (setVerifier d m.index { v with agg := some a' })
              { v with agg := some a' } a' r
            refine ⟨h1, h2, h3, Or.inr ⟨r, v, a, a', hr, hv, hagg, hvr, ?_⟩⟩
            rcases h4 with h4 | ⟨deal, h4⟩
            · left; rw [h4]; rfl
            · right
              refine ⟨hme, deal, ?_⟩
              rw [h4]
              simp only [setVerifier, List.set_set, hme]

/-- replacing the aggregator of an occupied slot by a good one with the same stored deal -/
theorem goodGen_replace (g : G) (d d' : Gen F G) (j : Nat) (v : Verifier F G) (a a2 : Agg F G)
    (hd : GoodGen g d) (hv : getVerifier d j = some v) (hagg : v.agg = some a)
    (h2 : GoodA g d.index d.long d.participants v.dealer j a2) (hdeal : a2.deal = a.deal)
    (hvs : d'.verifiers = d.verifiers.set j (some { v with agg := some a2 }))
    (hp : d'.participants = d.participants) (hi : d'.index = d.index) (hl : d'.long = d.long) :
    GoodGen g d' := by
  have hgv := hd.good j v hv
  have hjv : j < d.verifiers.length := by
    unfold getVerifier at hv
    rcases Nat.lt_or_ge j d.verifiers.length with h | h
    · exact h
    · rw [List.getElem?_eq_none h] at hv; cases hv
  have hget : ∀ k, getVerifier d' k = if j = k then some { v with agg := some a2 } else getVerifier d k := by
    intro k
    unfold getVerifier
    rw [hvs, List.getElem?_set]
    by_cases h : j = k
    · subst h; simp [hjv]
    · simp [h]
  refine ⟨⟨by rw [hvs, hp]; simp [hd.len], by rw [hl, hp, hi]; exact hd.idx, by rw [hi, hp]; exact hd.lt, ?_⟩, ?_, ?_⟩
  · intro k w hw
    rw [hget] at hw
    rw [hi, hl, hp]
    by_cases hk : j = k
    · subst hk
      simp only [if_true, Option.some.injEq] at hw; subst hw
      exact ⟨hgv.hdealer, hgv.hvs, hgv.hlong, hgv.hindex, fun a3 h3 => by
        injection h3 with h3; subst h3; exact h2⟩
    · simp only [hk, if_false] at hw
      exact hd.good k w hw
  · rw [hi, hget]
    by_cases hk : j = d.index
    · simp [hk]
    · simp only [hk, if_false]; exact hd.ownSlot
  · intro w a3 hw h3
    rw [hi, hget] at hw
    by_cases hk : j = d.index
    · simp only [hk, if_true, Option.some.injEq] at hw; subst hw
      injection h3 with h3; subst h3
      rw [hdeal]
      exact hd.ownDeal v a (by rw [← hk]; exact hv) hagg
    · simp only [hk, if_false] at hw
      exact hd.ownDeal w a3 hw h3

theorem processResponse_good (g : G) (d : Gen F G) (m : DkgResp F G) (hd : GoodGen g d) :
    GoodGen g (processResponse g d m).1 := by
  obtain ⟨hp, hi, hl, hsh⟩ := processResponse_shape g d m
  rcases hsh with hsame | ⟨r, v, a, a', _, hv, hagg, hvr, hcase⟩
  · exact goodGen_congr g d _ hsame hp hi hl hd
  · have hga := (hd.good m.index v hv).hagg a hagg
    obtain ⟨hga', hne, hdl, _, _, _, _, _⟩ :=
      goodA_verifyResponse g d.index d.long d.participants v.dealer m.index a a' r hga hvr
    rcases hcase with hvs | ⟨hme, deal, hvs⟩
    · exact goodGen_replace g d _ m.index v a a' hd hv hagg hga' hdl hvs hp hi hl
    · have hdealSome : a'.deal.isSome = true := by
        rw [hdl]; exact hd.ownDeal v a (by rw [← hme]; exact hv) hagg
      obtain ⟨hgj, hjd, _⟩ := goodA_justification g d.index d.long d.participants v.dealer m.index a'
        r.index deal hga' hdealSome hne
      exact goodGen_replace g d _ m.index v a _ hd hv hagg hgj (by rw [hjd, hdl]) hvs hp hi hl

end Dos.Dkg

/-
C14, continued — the defects repaired on this tree, in the model: FROZEN copies of the IR of the
tree before the repairs (Proofs/PipeWitness.lean) are rejected by the rules, and the bad schedules
(leaked goroutine, send on a closed channel) are reachable.  The scenarios are the corpus lines
(corpus/C14/*.txt) that are replayed on the real goroutines at every run.  This file does not depend
on the regenerated facts (Lake re-checks it only when the model changes).
-/
import DosModel.Proofs.PipeExploreSound
import DosModel.Proofs.PipeWitness

namespace Dos.Props.C14
open Dos Dos.Pipe

/-- the scenarios of this file resolve in the frozen pipelines (see `Wit.scOf`) -/
theorem old_scenarios_resolve :
    Wit.resolves Old.helper_dosnode_mergeErrors (Wit.faninSpec "dosnode.mergeErrors" "dosnode.mergeErrors.out") = true ∧
    Wit.resolves Old.helper_dkg_mergeErrors (Wit.faninSpec "dkg.mergeErrors" "dkg.mergeErrors.out") = true ∧
    Wit.resolves Old.query_sys Wit.dispatchSpec = true ∧ Wit.resolves Old.query_sys Wit.recoverSpec = true := by
  decide +kernel

/-- the rules reject the fan-in as it was before 341405c (`return` before `wg.Done()`), and the bad
schedule exists in the model: an error in flight when the deadline fires leaves the closer
goroutine blocked for ever and the merged channel open (F16) -/
theorem old_mergeErrors_leaks :
    (violations Old.helper_dosnode_mergeErrors).any (fun v => v.rule == 5) = true ∧
    ∃ s, Reach (Wit.scOf Old.helper_dosnode_mergeErrors (Wit.faninSpec "dosnode.mergeErrors" "dosnode.mergeErrors.out")).p s ∧
      (let sc := Wit.scOf Old.helper_dosnode_mergeErrors (Wit.faninSpec "dosnode.mergeErrors" "dosnode.mergeErrors.out")
       Wit.Scenario.stuck sc s && Wit.Scenario.leaked sc s && Wit.Scenario.firstOpen sc s) = true :=
  ⟨by decide +kernel, reachSet_any (fuel := 400) (by decide +kernel)⟩

/-- the same for `pdkg.mergeErrors` before cd426fa (unguarded send on the buffered output) -/
theorem old_dkg_mergeErrors_leaks :
    (violations Old.helper_dkg_mergeErrors).any (fun v => v.rule == 2) = true ∧
    ∃ s, Reach (Wit.scOf Old.helper_dkg_mergeErrors (Wit.faninSpec "dkg.mergeErrors" "dkg.mergeErrors.out")).p s ∧
      (let sc := Wit.scOf Old.helper_dkg_mergeErrors (Wit.faninSpec "dkg.mergeErrors" "dkg.mergeErrors.out")
       Wit.Scenario.stuck sc s && Wit.Scenario.leaked sc s && Wit.Scenario.firstOpen sc s) = true :=
  ⟨by decide +kernel, reachSet_any (fuel := 400) (by decide +kernel)⟩

/-- the query pipeline as it was before aee7ef3 / e49e40d: W1 rejects the reply channel of
dispatchSign and W2 the bare sends, and the crash is reachable in the model: with an expired context
dispatchSign closes its reply channel and still registers it; queryLoop then sends the buffered share
on the closed channel (F15) -/
theorem old_dispatchSign_crashes :
    ((violations Old.query_sys).foldl (fun rs v => rs.erase v.rule) [1, 2]) = [] ∧
    ∃ s e g pc, Reach (Wit.scOf Old.query_sys Wit.dispatchSpec).p s ∧
      Step (Wit.scOf Old.query_sys Wit.dispatchSpec).p s e (.crash (.sendClosed 7) g pc) := by
  refine ⟨by decide +kernel, ?_⟩
  have h : ((Wit.scOf Old.query_sys Wit.dispatchSpec).reachSet 2000).any
      (fun s => ((Wit.scOf Old.query_sys Wit.dispatchSpec).crashes s).contains (.sendClosed 7)) = true := by
    decide +kernel
  obtain ⟨s, hr, hs⟩ := reachSet_any h
  have hm : CrashKind.sendClosed 7 ∈ (Wit.scOf Old.query_sys Wit.dispatchSpec).crashes s :=
    List.contains_iff_mem.mp hs
  obtain ⟨e, g, pc, hst⟩ := crashes_step _ hm
  exact ⟨s, e, g, pc, hr, hst⟩

/-- recoverSign before e49e40d: a share without a signature after the fan-in stopped reading leaves
the stage blocked in its bare send for ever -/
theorem old_recoverSign_leaks :
    ∃ s, Reach (Wit.scOf Old.query_sys Wit.recoverSpec).p s ∧
      (let sc := Wit.scOf Old.query_sys Wit.recoverSpec
       Wit.Scenario.stuck sc s && Wit.Scenario.leaked sc s) = true :=
  reachSet_any (fuel := 400) (by decide +kernel)

end Dos.Props.C14

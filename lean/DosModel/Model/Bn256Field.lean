/-
C10 — the base field `gfP` of group/bn256 as the code computes it: a value is the raw
256-bit content of the four limbs (Montgomery form x·R mod p when it is a valid
element); the four primitives are the number-level functions of `Model/Mont.lean`
(proved equal to the interpreted assembly) at the modulus `p2` and the constant `np`
the assembly reads — both regenerated from constants.go.
`newGFp`, `montEncode`, `montDecode`, `Invert` are transcribed from gfp.go.
-/
import DosModel.Model.Mont
import DosModel.Gen.Bn256Consts

namespace Dos.Bn256
open Dos.Mont

/-- squaring as the code of the *extension* does it (gfP2.Square is its own algorithm);
for gfP the code calls gfpMul(a, a) -/
class Sq (α : Type) where
  sq : α → α

def limbsVal (l : List Nat) : Nat := (L4.ofList l).val

/-- the modulus the field code uses: the package variable `p2` -/
def p : Nat := limbsVal Gen.Bn256.p2
/-- the package variable `np` -/
def np : Nat := limbsVal Gen.Bn256.np

/-- raw content of a Go `gfP` -/
structure GFp where
  v : Nat
  deriving DecidableEq, Repr, Inhabited

namespace GFp

instance : Add GFp := ⟨fun a b => ⟨addM p a.v b.v⟩⟩      -- gfpAdd
instance : Sub GFp := ⟨fun a b => ⟨subM p a.v b.v⟩⟩      -- gfpSub
instance : Neg GFp := ⟨fun a => ⟨negM p a.v⟩⟩            -- gfpNeg
instance : Mul GFp := ⟨fun a b => ⟨mulM p np a.v b.v⟩⟩   -- gfpMul
instance : Zero GFp := ⟨⟨0⟩⟩                             -- gfP{0}
instance : Sq GFp := ⟨fun a => a * a⟩

def ofLimbs (l : List Nat) : GFp := ⟨limbsVal l⟩

def r2 : GFp := match Gen.Bn256.r2 with
  | [.limbs l] => ofLimbs l
  | _ => ⟨0⟩
def r3 : GFp := match Gen.Bn256.r3 with
  | [.limbs l] => ofLimbs l
  | _ => ⟨0⟩
def rN1 : GFp := match Gen.Bn256.rN1 with
  | [.limbs l] => ofLimbs l
  | _ => ⟨0⟩

def montEncode (a : GFp) : GFp := a * r2
def montDecode (a : GFp) : GFp := a * ⟨1⟩

/-- newGFp(x) for an int64 x -/
def newGFp (x : Int) : GFp :=
  if x ≥ 0 then montEncode ⟨x.toNat⟩ else montEncode (-(⟨(-x).toNat⟩ : GFp))

instance : One GFp := ⟨newGFp 1⟩

/-- the bits of the four exponent words, least significant first (word 0 bit 0, …) -/
def bitsLE (words : List Nat) : List Bool :=
  words.flatMap fun w => (List.range 64).map fun i => (w >>> i) % 2 == 1

/-- the loop of gfP.Invert: for every bit (least significant first)
`if bit { sum = sum·power }; power = power·power` -/
def invLoopG (bits : List Bool) (st : GFp × GFp) : GFp × GFp :=
  bits.foldl (fun st bit => (if bit then st.1 * st.2 else st.1, st.2 * st.2)) st

/-- gfP.Invert: square-and-multiply over the `bits` table, starting from rN1, fixed up by r3 -/
def invert (f : GFp) : GFp :=
  (invLoopG (bitsLE Gen.Bn256.invertBits) (rN1, f)).1 * r3

instance : Inv GFp := ⟨invert⟩

/-- a source-level constant (`gfP{…}` literal or `newGFp(k)`) -/
def ofLeaf : Gen.Bn256.Leaf → GFp
  | .limbs l => ofLimbs l
  | .newGFp k => newGFp k

end GFp
end Dos.Bn256

import DosModel.Model.Content
import DosModel.Gen.DosnodeConsts
def main : IO Unit := Dos.lineLoop (Dos.Content.stepLine Dos.Gen.padSize Dos.Gen.stripLen)

/-
C14 liveness, part 3: the termination measure and `drain` — from every reachable state in
which the pipeline context is done there is a schedule to a state in which no pipeline
goroutine is running.
-/
import DosModel.Proofs.PipeLive2

namespace Dos.Pipe

/-! ### unpacking `LiveOk` -/

theorem liveOk_parts {p : Pipeline} (h : LiveOk p = true) :
    W0 p = true ∧ ∀ (g : Gi) (gr : Goroutine), p.gs[g]? = some gr → gr.daemon = false →
      (∀ nd ∈ gr.nodes, nodeLive p g nd = true) ∧ W4g p g gr = true := by
  unfold LiveOk at h
  simp only [Bool.and_eq_true] at h
  refine ⟨h.1, ?_⟩
  intro g gr hg hd
  have := zipIdx_all h.2 hg
  simp only [hd, Bool.false_or, liveG, Bool.and_eq_true, List.all_eq_true] at this
  exact this

/-- the escape distance labeling of a goroutine -/
def distG (p : Pipeline) (g : Gi) (gr : Goroutine) : List Nat := distTo (escEdges p g) gr.nodes Node.isExit

theorem W4g_edge {p : Pipeline} {g : Gi} {gr : Goroutine} (h : W4g p g gr = true) {pc : Pc} {nd : Node}
    (hn : gr.nodes[pc]? = some nd) (hne : nd.isExit = false) :
    ∃ l n, (l, n) ∈ escEdges p g nd ∧ distAt (distG p g gr) n < distAt (distG p g gr) pc := by
  unfold W4g distOk at h
  have := zipIdx_all h hn
  simp only [Bool.not_true, Bool.false_or, hne, List.any_eq_true, decide_eq_true_eq] at this
  obtain ⟨⟨l, n⟩, hm, hlt⟩ := this
  exact ⟨l, n, hm, hlt⟩

/-- a running goroutine stands at a node of its graph -/
theorem at_in_range {p : Pipeline} (h0 : W0 p = true) {g : Gi} {gr : Goroutine} (hg : p.gs[g]? = some gr) :
    ∀ s, Reach p s → ∀ pc, s.gs[g]? = some (.at pc) → pc < gr.nodes.length := by
  have hpos : 0 < gr.nodes.length := by
    unfold W0 at h0
    rw [List.all_eq_true] at h0
    have := h0 gr (List.mem_of_getElem? hg)
    simp only [Bool.and_eq_true, decide_eq_true_eq] at this
    exact this.1
  apply reach_inv
  · intro pc hat
    rw [init_gs, hg] at hat
    simp only [Option.map_some] at hat
    split at hat
    · simp only [Option.some.injEq, GSt.at.injEq] at hat; rw [← hat]; exact hpos
    · cases hat
  · intro s e s' _ ih hst pc' hat'
    rcases pos_step hst g with hsame | ⟨pc, nd, l, n, hat, hnd, hed, hat2, _⟩ | ⟨_, hat2⟩ | ⟨pc, _, _, hat2⟩
    · rw [hsame] at hat'; exact ih pc' hat'
    · rw [hat2] at hat'
      simp only [Option.some.injEq, GSt.at.injEq] at hat'
      subst hat'
      exact (W0_edge h0 hg (node_of_gs hg hnd) hed).2
    · rw [hat2] at hat'
      simp only [Option.some.injEq, GSt.at.injEq] at hat'
      rw [← hat']; exact hpos
    · rw [hat2] at hat'; cases hat'

theorem ctxDone_mono {p : Pipeline} {s s' : State} {e : Ev} (hst : Step p s e (.run s')) (k : Nat)
    (h : s.ctxDone k = true) : s'.ctxDone k = true := by
  cases hst with
  | env k' hk hd => simp [State.setCtx_ctxDone, h]
  | act g pc nd l n hat hnd hed hgd hdf => simp [effect_ctxDone_mono s l k h]
  | sync g pc nd n g' pc' nd' n' c hne hat hnd hed hat' hnd' hed' hcap hcl => simpa using h
  | exit g pc hat hnd => simpa using h

theorem reach_path {p : Pipeline} {s s' : State} (hr : Reach p s) (hp : Path p s s') : Reach p s' := by
  induction hp with
  | refl => exact hr
  | step hst _ ih => exact ih (Reach.step hr hst)

theorem path_trans {p : Pipeline} {s t u : State} (h1 : Path p s t) (h2 : Path p t u) : Path p s u := by
  induction h1 with
  | refl => exact h2
  | step hst _ ih => exact Path.step hst (ih h2)

/-! ### the measure -/

def lenSum : List ChSt → Nat
  | [] => 0
  | x :: xs => x.len + lenSum xs

def totalLen (s : State) : Nat := lenSum s.chs

def idleCnt : List GSt → Nat
  | [] => 0
  | x :: xs => (if x = GSt.idle then 1 else 0) + idleCnt xs

def idleCount (s : State) : Nat := idleCnt s.gs

def gweight (p : Pipeline) (g : Gi) (gr : Goroutine) (st : GSt) : Nat :=
  if gr.daemon then 0 else
  match st with
  | .at pc => 1 + distAt (distG p g gr) pc
  | _ => 0

def wsum (p : Pipeline) : Nat → List Goroutine → List GSt → Nat
  | i, gr :: grs, st :: sts => gweight p i gr st + wsum p (i + 1) grs sts
  | _, _, _ => 0

def weightSum (p : Pipeline) (s : State) : Nat := wsum p 0 p.gs s.gs

theorem lenSum_set : ∀ (chs : List ChSt) (c : Nat) (x y : ChSt), chs[c]? = some x →
    lenSum (chs.set c y) + x.len = lenSum chs + y.len := by
  intro chs
  induction chs with
  | nil => intro c x y h; simp at h
  | cons z zs ih =>
    intro c x y h
    cases c with
    | zero =>
      simp only [List.getElem?_cons_zero, Option.some.injEq] at h
      subst h
      simp only [List.set_cons_zero, lenSum]; omega
    | succ c =>
      simp only [List.getElem?_cons_succ] at h
      simp only [List.set_cons_succ, lenSum]
      have := ih c x y h
      omega

theorem idleCnt_set : ∀ (sts : List GSt) (i : Nat) (x y : GSt), sts[i]? = some x →
    idleCnt (sts.set i y) + (if x = GSt.idle then 1 else 0) = idleCnt sts + (if y = GSt.idle then 1 else 0) := by
  intro sts
  induction sts with
  | nil => intro i x y h; simp at h
  | cons z zs ih =>
    intro i x y h
    cases i with
    | zero =>
      simp only [List.getElem?_cons_zero, Option.some.injEq] at h
      subst h
      simp only [List.set_cons_zero, idleCnt]; omega
    | succ i =>
      simp only [List.getElem?_cons_succ] at h
      simp only [List.set_cons_succ, idleCnt]
      have := ih i x y h
      omega

theorem wsum_set (p : Pipeline) : ∀ (grs : List Goroutine) (sts : List GSt) (k i : Nat) (gr : Goroutine) (st st' : GSt),
    grs[i]? = some gr → sts[i]? = some st →
    wsum p k grs (sts.set i st') + gweight p (k + i) gr st = wsum p k grs sts + gweight p (k + i) gr st' := by
  intro grs
  induction grs with
  | nil => intro sts k i gr st st' h; simp at h
  | cons g0 grs ih =>
    intro sts k i gr st st' hg hs
    cases sts with
    | nil => simp at hs
    | cons s0 sts =>
      cases i with
      | zero =>
        simp only [List.getElem?_cons_zero, Option.some.injEq] at hg hs
        subst hg; subst hs
        simp only [List.set_cons_zero, wsum, Nat.add_zero]
        omega
      | succ i =>
        simp only [List.getElem?_cons_succ] at hg hs
        simp only [List.set_cons_succ, wsum]
        have := ih sts (k + 1) i gr st st' hg hs
        have e : k + 1 + i = k + (i + 1) := by omega
        rw [e] at this
        omega

/-- lexicographic decrease of (buffered items, idle goroutines, escape weights) -/
def Dec (p : Pipeline) (s s1 : State) : Prop :=
  totalLen s1 < totalLen s ∨
  (totalLen s1 = totalLen s ∧
    (idleCount s1 < idleCount s ∨ (idleCount s1 = idleCount s ∧ weightSum p s1 < weightSum p s)))

/-! ### how a move changes the measure -/

theorem totalLen_setG (s : State) (g : Gi) (x : GSt) : totalLen (s.setG g x) = totalLen s := rfl

theorem chs_get_of_lt {s : State} {c : Ch} (h : c < s.chs.length) : ∃ x, s.chs[c]? = some x :=
  ⟨s.chs[c], by simp [h]⟩

theorem totalLen_setLen (s : State) (c : Ch) (n : Nat) (h : c < s.chs.length) :
    totalLen (s.setLen c n) + s.len c = totalLen s + n := by
  obtain ⟨x, hx⟩ := chs_get_of_lt h
  unfold totalLen State.setLen
  have := lenSum_set s.chs c x { len := n, closed := s.closed c } hx
  have hl : s.len c = x.len := by simp [State.len, hx]
  dsimp only at this ⊢
  omega

theorem totalLen_setClosed (s : State) (c : Ch) : totalLen (s.setClosed c) = totalLen s := by
  by_cases h : c < s.chs.length
  · obtain ⟨x, hx⟩ := chs_get_of_lt h
    unfold totalLen State.setClosed
    have := lenSum_set s.chs c x { len := s.len c, closed := true } hx
    have hl : s.len c = x.len := by simp [State.len, hx]
    dsimp only at this ⊢
    omega
  · unfold totalLen State.setClosed
    rw [List.set_eq_of_length_le (Nat.le_of_not_lt h)]

/-- an escape label is neither a send nor a successful receive -/
def Lab.quiet : Lab → Bool
  | .send _ | .recvOk _ => false
  | _ => true

theorem totalLen_effect_quiet (s : State) (l : Lab) (h : l.quiet = true) : totalLen (effect s l) = totalLen s := by
  cases l <;> simp [Lab.quiet] at h <;> simp [effect, totalLen_setClosed] <;> try rfl
  case spawn g => split <;> rfl

theorem totalLen_effect_recvOk (s : State) (c : Ch) (hin : c < s.chs.length) (hpos : 0 < s.len c) :
    totalLen (effect s (.recvOk c)) + 1 = totalLen s := by
  have := totalLen_setLen s c (s.len c - 1) hin
  simp only [effect]
  omega

theorem esc_quiet {p : Pipeline} {g : Gi} {nd : Node} {l : Lab} {n : Pc} (h : (l, n) ∈ escEdges p g nd) :
    l.quiet = true := by
  cases nd with
  | sel alts =>
    rw [escEdges_sel] at h
    split at h
    · simp only [List.mem_flatMap, List.mem_filter] at h
      obtain ⟨a, ⟨_, hc⟩, hae⟩ := h
      cases a <;> simp [Alt.isCtx0] at hc
      simp [Alt.edges] at hae; rw [hae.1]; rfl
    · split at h
      · simp only [List.mem_flatMap, List.mem_filter] at h
        obtain ⟨a, ⟨_, hc⟩, hae⟩ := h
        cases a <;> simp [Alt.isTick] at hc
        simp [Alt.edges] at hae; rw [hae.1]; rfl
      · split at h
        · split at h
          · simp at h; rw [h.1]; rfl
          · simp at h
        · simp at h
  | close c n0 => have h : (l, n) ∈ (Node.close c n0).edges := h; simp [Node.edges] at h; rw [h.1]; rfl
  | branch ns =>
    have h : (l, n) ∈ (Node.branch ns).edges := h
    simp only [Node.edges, List.mem_map, Prod.mk.injEq] at h
    obtain ⟨n0, _, h1, _⟩ := h
    rw [← h1]; rfl
  | wgDone w n0 => have h : (l, n) ∈ (Node.wgDone w n0).edges := h; simp [Node.edges] at h; rw [h.1]; rfl
  | wgWait w n0 => have h : (l, n) ∈ (Node.wgWait w n0).edges := h; simp [Node.edges] at h; rw [h.1]; rfl
  | spawn g' n0 => have h : (l, n) ∈ (Node.spawn g' n0).edges := h; simp [Node.edges] at h; rw [h.1]; rfl
  | cancel k n0 => have h : (l, n) ∈ (Node.cancel k n0).edges := h; simp [Node.edges] at h; rw [h.1]; rfl
  | exit => have h : (l, n) ∈ (Node.exit).edges := h; simp [Node.edges] at h

/-- the goroutine list after an effect, as one optional `set` -/
theorem effect_gs_cases (s : State) (l : Lab) :
    (effect s l).gs = s.gs ∨ ∃ g', l = .spawn g' ∧ s.gs[g']? = some GSt.idle ∧ (effect s l).gs = s.gs.set g' (.at 0) := by
  rw [effect_gs]
  cases l <;> try (left; rfl)
  case spawn g' =>
    simp only
    split
    · rename_i h; right; exact ⟨g', rfl, h, rfl⟩
    · left; rfl

theorem idleCount_effect (s : State) (l : Lab) :
    idleCount (effect s l) = idleCount s ∨ idleCount (effect s l) + 1 = idleCount s := by
  unfold idleCount
  rcases effect_gs_cases s l with h | ⟨g', _, hidle, h⟩
  · left; rw [h]
  · right; rw [h]
    have := idleCnt_set s.gs g' GSt.idle (GSt.at 0) hidle
    simp at this
    omega

theorem weightSum_effect_of_idle_same {p : Pipeline} (s : State) (l : Lab)
    (h : idleCount (effect s l) = idleCount s) : wsum p 0 p.gs (effect s l).gs = wsum p 0 p.gs s.gs := by
  rcases effect_gs_cases s l with h1 | ⟨g', _, hidle, h1⟩
  · rw [h1]
  · exfalso
    unfold idleCount at h
    rw [h1] at h
    have := idleCnt_set s.gs g' GSt.idle (GSt.at 0) hidle
    simp at this
    omega

/-- moving the running goroutine `g` along an escape edge to a node closer to the exit
    decreases the measure -/
theorem moved_dec {p : Pipeline} {s : State} {g : Gi} {gr : Goroutine} {pc n : Pc} {l : Lab}
    (hg : p.gs[g]? = some gr) (hd : gr.daemon = false) (hat : s.gs[g]? = some (.at pc))
    (hq : l.quiet = true) (hlt : distAt (distG p g gr) n < distAt (distG p g gr) pc) :
    Dec p s (moved s g l n) := by
  unfold Dec moved
  right
  refine ⟨by rw [totalLen_setG, totalLen_effect_quiet s l hq], ?_⟩
  -- `g` is still at `pc` after the effect
  have hat2 : (effect s l).gs[g]? = some (GSt.at pc) := by
    rw [effect_gs_get]
    split
    · rename_i hc; rw [hat] at hc; cases hc.2
    · exact hat
  have hidle : idleCount ((effect s l).setG g (GSt.at n)) = idleCount (effect s l) := by
    unfold idleCount
    have := idleCnt_set (effect s l).gs g (GSt.at pc) (GSt.at n) hat2
    simp at this
    simpa using this
  rcases idleCount_effect s l with h1 | h1
  · right
    refine ⟨by rw [hidle, h1], ?_⟩
    unfold weightSum
    have hw := wsum_set p p.gs (effect s l).gs 0 g gr (GSt.at pc) (GSt.at n) hg hat2
    rw [weightSum_effect_of_idle_same s l h1] at hw
    simp only [Nat.zero_add] at hw
    have e1 : gweight p g gr (GSt.at pc) = 1 + distAt (distG p g gr) pc := by simp [gweight, hd]
    have e2 : gweight p g gr (GSt.at n) = 1 + distAt (distG p g gr) n := by simp [gweight, hd]
    simp only [State.setG_gs]
    omega
  · left
    rw [hidle]; omega

theorem recvOk_dec {p : Pipeline} {s : State} {g : Gi} {c : Ch} {n : Pc}
    (hin : c < s.chs.length) (hpos : 0 < s.len c) : Dec p s (moved s g (.recvOk c) n) := by
  unfold Dec moved
  left
  rw [totalLen_setG]
  have := totalLen_effect_recvOk s c hin hpos
  omega

theorem exit_dec {p : Pipeline} {s : State} {g : Gi} {gr : Goroutine} {pc : Pc}
    (hg : p.gs[g]? = some gr) (hd : gr.daemon = false) (hat : s.gs[g]? = some (.at pc)) :
    Dec p s (s.setG g .done) := by
  unfold Dec
  right
  refine ⟨rfl, ?_⟩
  right
  constructor
  · unfold idleCount
    have := idleCnt_set s.gs g (GSt.at pc) GSt.done hat
    simp at this
    simpa using this
  · unfold weightSum
    have hw := wsum_set p p.gs s.gs 0 g gr (GSt.at pc) GSt.done hg hat
    simp only [Nat.zero_add] at hw
    have e1 : gweight p g gr (GSt.at pc) = 1 + distAt (distG p g gr) pc := by simp [gweight, hd]
    have e2 : gweight p g gr GSt.done = 0 := by simp [gweight]
    simp only [State.setG_gs]
    omega

end Dos.Pipe

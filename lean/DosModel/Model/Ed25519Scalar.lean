/-
C20 — Ed25519 scalar layer (group/edwards25519/scalar.go), core Lean only.

This file holds the hand-written primitives that the GENERATED translation of the
ref10 limb code (`DosModel/Gen/Ed25519Sc.lean`, extractor go/extract/ed25519sc)
is written in, and the model of the byte-level scalar API (Marshal/Unmarshal/SetBytes).

int64 values are modelled as unbounded `Int`: absence of int64 overflow in the limb
code is NOT modelled (differential only, see design/C20.md).
-/
import DosModel.Model.Util

namespace Dos.Ed25519
open Dos

/-- the order ℓ of the base point, as the property states it: 2^252 + 27742317777372353535851937790883648493 -/
def ell : Nat := 2 ^ 252 + 27742317777372353535851937790883648493

/-- the 24 limbs `s0 … s23` (radix 2^21) the ref10 code works on -/
structure L24 where
  s0 : Int
  s1 : Int
  s2 : Int
  s3 : Int
  s4 : Int
  s5 : Int
  s6 : Int
  s7 : Int
  s8 : Int
  s9 : Int
  s10 : Int
  s11 : Int
  s12 : Int
  s13 : Int
  s14 : Int
  s15 : Int
  s16 : Int
  s17 : Int
  s18 : Int
  s19 : Int
  s20 : Int
  s21 : Int
  s22 : Int
  s23 : Int
  deriving Repr

/-- the integer a limb vector stands for: Σ sᵢ · 2^(21 i) -/
def value (s : L24) : Int :=
  s.s0 + s.s1 * 2 ^ 21 + s.s2 * 2 ^ 42 + s.s3 * 2 ^ 63 + s.s4 * 2 ^ 84 + s.s5 * 2 ^ 105
  + s.s6 * 2 ^ 126 + s.s7 * 2 ^ 147 + s.s8 * 2 ^ 168 + s.s9 * 2 ^ 189 + s.s10 * 2 ^ 210
  + s.s11 * 2 ^ 231 + s.s12 * 2 ^ 252 + s.s13 * 2 ^ 273 + s.s14 * 2 ^ 294 + s.s15 * 2 ^ 315
  + s.s16 * 2 ^ 336 + s.s17 * 2 ^ 357 + s.s18 * 2 ^ 378 + s.s19 * 2 ^ 399 + s.s20 * 2 ^ 420
  + s.s21 * 2 ^ 441 + s.s22 * 2 ^ 462 + s.s23 * 2 ^ 483

/-- value of 12 limbs (an unpacked 32-byte operand) -/
def value12 (x0 x1 x2 x3 x4 x5 x6 x7 x8 x9 x10 x11 : Int) : Int :=
  x0 + x1 * 2 ^ 21 + x2 * 2 ^ 42 + x3 * 2 ^ 63 + x4 * 2 ^ 84 + x5 * 2 ^ 105
  + x6 * 2 ^ 126 + x7 * 2 ^ 147 + x8 * 2 ^ 168 + x9 * 2 ^ 189 + x10 * 2 ^ 210 + x11 * 2 ^ 231

/-- The right shift `>>` of the Go code is a PARAMETER of the generated functions: the
congruence theorems hold for every function put here ("each carry is an arbitrary
integer"); the driver instantiates it with `shrI`. -/
abbrev Shr := Int → Nat → Int

/-- Go's arithmetic `>>` on int64 (floor division by 2^n) -/
def shrI : Shr := fun x n => x >>> n

/-- Go's `<<` on int64, no overflow modelled -/
def shl (x : Int) (n : Nat) : Int := x * 2 ^ n

/-- two's-complement view of an int64 as a 64-bit natural -/
def u64 (x : Int) : Nat := (x % 18446744073709551616).toNat

/-- Go's `&` on int64 (the result is read back as a non-negative value: every use in
scalar.go has a non-negative mask as one operand) -/
def band (x y : Int) : Int := Int.ofNat (u64 x &&& u64 y)

/-- Go's `|` on int64, as the low 64 bits (only ever fed to `byte(…)`) -/
def bor (x y : Int) : Int := Int.ofNat (u64 x ||| u64 y)

/-- Go's `byte(x)` conversion of an int64 -/
def byte (x : Int) : UInt8 := UInt8.ofNat (x % 256).toNat

/-- `in[k:]` -/
def sl (b : Bytes) (k : Nat) : Bytes := b.drop k

/-- fe.go `load3`. Total on the fixed-size arrays the callers pass (`*[32]byte`, `*[64]byte`
sliced at constant offsets ≤ len-3); a shorter slice would be a Go panic and is reported as -1. -/
def load3 : Bytes → Int
  | b0 :: b1 :: b2 :: _ => Int.ofNat (b0.toNat + b1.toNat * 256 + b2.toNat * 65536)
  | _ => -1

/-- fe.go `load4` -/
def load4 : Bytes → Int
  | b0 :: b1 :: b2 :: b3 :: _ => Int.ofNat (b0.toNat + b1.toNat * 256 + b2.toNat * 65536 + b3.toNat * 16777216)
  | _ => -1

/-- run the translated blocks in source order -/
def runBlocks (shr : Shr) (bs : List (Shr → L24 → L24)) (s : L24) : L24 :=
  bs.foldl (fun st f => f shr st) s

/-! ### byte-level scalar API (hand model of scalar.go + kyber `mod.Int`) -/

/-- little-endian value of a byte string -/
def leNat : Bytes → Nat
  | [] => 0
  | b :: bs => b.toNat + 256 * leNat bs

/-- exactly `k` little-endian bytes of `n` (low `8k` bits) -/
def natLE : Nat → Nat → Bytes
  | 0, _ => []
  | k + 1, n => UInt8.ofNat (n % 256) :: natLE k (n / 256)

inductive ScErr | wrongSize
  deriving Repr, DecidableEq

/-- `scalar.UnmarshalBinary`: only the length is checked, the 32 bytes are stored as they are
(NO range check — the root of finding F5). The stored value is the raw byte string. -/
def scUnmarshal (buf : Bytes) : Except ScErr Bytes :=
  if buf.length = 32 then .ok buf else .error .wrongSize

/-- `scalar.MarshalBinary` = `toInt().MarshalBinary()`: `mod.NewIntBytes(v, ℓ, LittleEndian)`
reduces modulo ℓ, then 32 little-endian bytes. -/
def scMarshal (v : Bytes) : Bytes := natLE 32 (leNat v % ell)

/-- `scalar.SetBytes(b)`: any length, little-endian, reduced modulo ℓ -/
def scSetBytes (b : Bytes) : Bytes := natLE 32 (leNat b % ell)

/-- canonical encoding test: what `bytes.Equal(MarshalBinary(Unmarshal(b)), b)` computes -/
def scCanonical (b : Bytes) : Bool := scMarshal b == b

end Dos.Ed25519

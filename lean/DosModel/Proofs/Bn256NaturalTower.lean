/-
C10 — naturality of the transcribed tower code: every gfP2 / gfP6 / gfP12 method, the Frobenius maps,
`Exp` and `finalExponentiationG` are built from the base operations only, so they commute with `map f`
for every f preserving those operations (`OpsHom`, Proofs/Bn256Natural.lean). Used to transport the
theorems proved over fields (ring laws, multiplicativity of the final exponentiation) to the
Montgomery representation the code computes with.
-/
import DosModel.Proofs.Bn256Concrete2
import DosModel.Model.Bn256TFrob

namespace Dos.Bn256

section
set_option linter.unusedSectionVars false
variable {K L : Type}
variable [Add K] [Sub K] [Neg K] [Mul K] [Zero K] [One K] [Inv K] [Sq K] [DecidableEq K]
variable [Add L] [Sub L] [Neg L] [Mul L] [Zero L] [One L] [Inv L] [Sq L] [DecidableEq L]
variable {f : K → L}

/-! ### gfP2 -/
namespace Fp2
theorem map_add' (h : OpsHom f) (a b : Fp2 K) : map f (Fp2.add a b) = Fp2.add (map f a) (map f b) := by
  simp only [map, Fp2.add, h.map_add]
theorem map_sub' (h : OpsHom f) (a b : Fp2 K) : map f (Fp2.sub a b) = Fp2.sub (map f a) (map f b) := by
  simp only [map, Fp2.sub, h.map_sub]
theorem map_neg' (h : OpsHom f) (a : Fp2 K) : map f (Fp2.neg a) = Fp2.neg (map f a) := by
  simp only [map, Fp2.neg, h.map_neg]
theorem map_conjugate (h : OpsHom f) (a : Fp2 K) : map f (Fp2.conjugate a) = Fp2.conjugate (map f a) := by
  simp only [map, Fp2.conjugate, h.map_neg]
theorem map_mul' (h : OpsHom f) (a b : Fp2 K) : map f (Fp2.mul a b) = Fp2.mul (map f a) (map f b) := by
  simp only [map, Fp2.mul, h.map_add, h.map_sub, h.map_mul]
theorem map_mulScalar (h : OpsHom f) (a : Fp2 K) (c : K) :
    map f (Fp2.mulScalar a c) = Fp2.mulScalar (map f a) (f c) := by
  simp only [map, Fp2.mulScalar, h.map_mul]
theorem map_mulXi (h : OpsHom f) (a : Fp2 K) : map f (Fp2.mulXi a) = Fp2.mulXi (map f a) := by
  simp only [map, Fp2.mulXi, h.map_add, h.map_sub]
theorem map_square (h : OpsHom f) (a : Fp2 K) : map f (Fp2.square a) = Fp2.square (map f a) := by
  simp only [map, Fp2.square, h.map_add, h.map_sub, h.map_mul]
theorem map_invert (h : OpsHom f) (a : Fp2 K) : map f (Fp2.invert a) = Fp2.invert (map f a) := by
  simp only [map, Fp2.invert, h.map_add, h.map_mul, h.map_neg, h.map_inv]
theorem map_zero' (h : OpsHom f) : map f (Fp2.zero : Fp2 K) = Fp2.zero := by
  simp only [map, Fp2.zero, h.map_zero]
theorem map_one' (h : OpsHom f) : map f (Fp2.one : Fp2 K) = Fp2.one := by
  simp only [map, Fp2.one, h.map_zero, h.map_one]
theorem map_inj (h : OpsHom f) : Function.Injective (map f) := (Fp2.mapHom h).inj
end Fp2

/-! ### gfP6 -/
def Fp6.map (f : K → L) (a : Fp6 K) : Fp6 L := ⟨Fp2.map f a.x, Fp2.map f a.y, Fp2.map f a.z⟩

namespace Fp6
theorem map_add' (h : OpsHom f) (a b : Fp6 K) : map f (Fp6.add a b) = Fp6.add (map f a) (map f b) := by
  simp only [map, Fp6.add, Fp2.map_add' h]
theorem map_sub' (h : OpsHom f) (a b : Fp6 K) : map f (Fp6.sub a b) = Fp6.sub (map f a) (map f b) := by
  simp only [map, Fp6.sub, Fp2.map_sub' h]
theorem map_neg' (h : OpsHom f) (a : Fp6 K) : map f (Fp6.neg a) = Fp6.neg (map f a) := by
  simp only [map, Fp6.neg, Fp2.map_neg' h]
theorem map_mul' (h : OpsHom f) (a b : Fp6 K) : map f (Fp6.mul a b) = Fp6.mul (map f a) (map f b) := by
  simp only [map, Fp6.mul, Fp2.map_add' h, Fp2.map_sub' h, Fp2.map_mul' h, Fp2.map_mulXi h]
theorem map_square (h : OpsHom f) (a : Fp6 K) : map f (Fp6.square a) = Fp6.square (map f a) := by
  simp only [map, Fp6.square, Fp2.map_add' h, Fp2.map_sub' h, Fp2.map_square h, Fp2.map_mulXi h]
theorem map_mulTau (h : OpsHom f) (a : Fp6 K) : map f (Fp6.mulTau a) = Fp6.mulTau (map f a) := by
  simp only [map, Fp6.mulTau, Fp2.map_mulXi h]
theorem map_mulScalar (h : OpsHom f) (a : Fp6 K) (c : Fp2 K) :
    map f (Fp6.mulScalar a c) = Fp6.mulScalar (map f a) (Fp2.map f c) := by
  simp only [map, Fp6.mulScalar, Fp2.map_mul' h]
theorem map_mulGFP (h : OpsHom f) (a : Fp6 K) (c : K) : map f (Fp6.mulGFP a c) = Fp6.mulGFP (map f a) (f c) := by
  simp only [map, Fp6.mulGFP, Fp2.map_mulScalar h]
theorem map_invert (h : OpsHom f) (a : Fp6 K) : map f (Fp6.invert a) = Fp6.invert (map f a) := by
  simp only [map, Fp6.invert, Fp2.map_add' h, Fp2.map_sub' h, Fp2.map_mul' h, Fp2.map_square h, Fp2.map_mulXi h,
    Fp2.map_invert h]
theorem map_zero' (h : OpsHom f) : map f (Fp6.zero : Fp6 K) = Fp6.zero := by
  simp only [map, Fp6.zero, Fp2.map_zero' h]
theorem map_one' (h : OpsHom f) : map f (Fp6.one : Fp6 K) = Fp6.one := by
  simp only [map, Fp6.one, Fp2.map_zero' h, Fp2.map_one' h]
theorem map_inj (h : OpsHom f) : Function.Injective (map f) := by
  intro a b hab
  have hx := Fp2.map_inj h (congrArg Fp6.x hab)
  have hy := Fp2.map_inj h (congrArg Fp6.y hab)
  have hz := Fp2.map_inj h (congrArg Fp6.z hab)
  cases a; cases b; simp_all
end Fp6

/-- the constants, mapped -/
def FrobConsts.map (f : K → L) (cs : FrobConsts K) : FrobConsts L :=
  { xiToPMinus1Over6 := Fp2.map f cs.xiToPMinus1Over6, xiToPMinus1Over3 := Fp2.map f cs.xiToPMinus1Over3,
    xiToPMinus1Over2 := Fp2.map f cs.xiToPMinus1Over2, xiTo2PMinus2Over3 := Fp2.map f cs.xiTo2PMinus2Over3,
    xiToPSquaredMinus1Over3 := f cs.xiToPSquaredMinus1Over3,
    xiTo2PSquaredMinus2Over3 := f cs.xiTo2PSquaredMinus2Over3,
    xiToPSquaredMinus1Over6 := f cs.xiToPSquaredMinus1Over6 }

namespace Fp6
theorem map_frobeniusG (h : OpsHom f) (cs : FrobConsts K) (a : Fp6 K) :
    map f (Fp6.frobeniusG cs a) = Fp6.frobeniusG (cs.map f) (map f a) := by
  simp only [map, Fp6.frobeniusG, FrobConsts.map, Fp2.map_mul' h, Fp2.map_conjugate h]
theorem map_frobeniusP2G (h : OpsHom f) (cs : FrobConsts K) (a : Fp6 K) :
    map f (Fp6.frobeniusP2G cs a) = Fp6.frobeniusP2G (cs.map f) (map f a) := by
  simp only [map, Fp6.frobeniusP2G, FrobConsts.map, Fp2.map_mulScalar h]
end Fp6

/-! ### gfP12 -/
def Fp12.map (f : K → L) (a : Fp12 K) : Fp12 L := ⟨Fp6.map f a.x, Fp6.map f a.y⟩

namespace Fp12
theorem map_mul' (h : OpsHom f) (a b : Fp12 K) : map f (Fp12.mul a b) = Fp12.mul (map f a) (map f b) := by
  simp only [map, Fp12.mul, Fp6.map_add' h, Fp6.map_mul' h, Fp6.map_mulTau h]
theorem map_square (h : OpsHom f) (a : Fp12 K) : map f (Fp12.square a) = Fp12.square (map f a) := by
  simp only [map, Fp12.square, Fp6.map_add' h, Fp6.map_sub' h, Fp6.map_mul' h, Fp6.map_mulTau h]
theorem map_conjugate (h : OpsHom f) (a : Fp12 K) : map f (Fp12.conjugate a) = Fp12.conjugate (map f a) := by
  simp only [map, Fp12.conjugate, Fp6.map_neg' h]
theorem map_invert (h : OpsHom f) (a : Fp12 K) : map f (Fp12.invert a) = Fp12.invert (map f a) := by
  simp only [map, Fp12.invert, Fp12.mulScalarRecv, Fp6.map_sub' h, Fp6.map_mul' h, Fp6.map_square h,
    Fp6.map_mulTau h, Fp6.map_neg' h, Fp6.map_invert h]
theorem map_one' (h : OpsHom f) : map f (Fp12.one : Fp12 K) = Fp12.one := by
  simp only [map, Fp12.one, Fp6.map_zero' h, Fp6.map_one' h]
theorem map_inj (h : OpsHom f) : Function.Injective (map f) := by
  intro a b hab
  have hx := Fp6.map_inj h (congrArg Fp12.x hab)
  have hy := Fp6.map_inj h (congrArg Fp12.y hab)
  cases a; cases b; simp_all
theorem map_frobeniusG (h : OpsHom f) (cs : FrobConsts K) (a : Fp12 K) :
    map f (Fp12.frobeniusG cs a) = Fp12.frobeniusG (cs.map f) (map f a) := by
  simp only [map, Fp12.frobeniusG, Fp6.map_mulScalar h, Fp6.map_frobeniusG h]
  rfl
theorem map_frobeniusP2G (h : OpsHom f) (cs : FrobConsts K) (a : Fp12 K) :
    map f (Fp12.frobeniusP2G cs a) = Fp12.frobeniusP2G (cs.map f) (map f a) := by
  simp only [map, Fp12.frobeniusP2G, Fp6.map_mulGFP h, Fp6.map_frobeniusP2G h]
  rfl
theorem map_exp (h : OpsHom f) (a : Fp12 K) (k : Nat) : map f (Fp12.exp a k) = Fp12.exp (map f a) k := by
  unfold Fp12.exp
  generalize (List.range (Fp12.bitLen k)).reverse = l
  have : ∀ acc : Fp12 K, map f (l.foldl (fun sum i => let t := sum.square; if k.testBit i then t.mul a else t) acc) =
      l.foldl (fun sum i => let t := sum.square; if k.testBit i then t.mul (map f a) else t) (map f acc) := by
    induction l with
    | nil => intro acc; rfl
    | cons i l ih =>
      intro acc
      simp only [List.foldl_cons]
      rw [ih]
      congr 1
      by_cases hb : k.testBit i
      · simp only [hb, if_true, map_mul' h, map_square h]
      · simp only [hb, Bool.false_eq_true, if_false, map_square h]
  rw [this, map_one' h]
end Fp12

theorem map_finalExponentiationG (h : OpsHom f) (cs : FrobConsts K) (u : Nat) (x : Fp12 K) :
    Fp12.map f (finalExponentiationG cs u x) = finalExponentiationG (cs.map f) u (Fp12.map f x) := by
  have hc : ∀ a : Fp12 K, Fp12.map f ⟨a.x.neg, a.y⟩ = ⟨(Fp12.map f a).x.neg, (Fp12.map f a).y⟩ := by
    intro a; simp only [Fp12.map, Fp6.map_neg' h]
  simp only [finalExponentiationG, Fp12.map_mul' h, Fp12.map_square h, Fp12.map_conjugate h, Fp12.map_invert h,
    Fp12.map_frobeniusG h, Fp12.map_frobeniusP2G h, Fp12.map_exp h, hc]

end
end Dos.Bn256

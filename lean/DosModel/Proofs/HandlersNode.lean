/-
C12 — helper lemmas, part 3: the share collector (queryLoop) and recoverSign → tbls.Recover → RecoverCommit.
-/
import DosModel.Proofs.Handlers

namespace Dos.Handlers

/-! queryLoop -/
theorem qStep_total (s : QSt) (e : QEv) (ha : s.alive = true) :
    (qStep Cfg.all s e).1.alive = true ∧ (qStep Cfg.all s e).2.isPanic = false := by
  cases e with
  | other => simp [qStep, ha]
  | sig rid => by_cases hm : rid ∈ s.reg <;> simp [qStep, ha, hm]
  | reg rid => simp [qStep, ha]

theorem qRun_total (evs : List QEv) : ∀ s, s.alive = true →
    (qRun Cfg.all s evs).1.alive = true ∧ ∀ o ∈ (qRun Cfg.all s evs).2, o.isPanic = false := by
  induction evs with
  | nil => intro s ha; exact ⟨ha, by simp [qRun]⟩
  | cons e r ih =>
    intro s ha
    simp only [qRun]
    have st := qStep_total s e ha
    have := ih _ st.1
    refine ⟨this.1, fun o h => ?_⟩
    rcases List.mem_cons.mp h with h | h
    · subst h; exact st.2
    · exact this.2 o h

/-- keeps serving: after any history, a registration followed by a share for that id delivers it -/
theorem qloop_serves (evs : List QEv) (rid : Bytes) :
    ((qRun Cfg.all {} (evs ++ [.reg rid, .sig rid])).2.getLast?) = some (.ok "deliver") := by
  have key : ∀ s, s.alive = true → (qRun Cfg.all s [.reg rid, .sig rid]).2 = [.ok s!"flush {qcount rid s.buf}", .ok "deliver"] := by
    intro s ha
    simp [qRun, qStep, ha]
  have app : ∀ (es : List QEv) (s : QSt) (tl : List QEv),
      (qRun Cfg.all s (es ++ tl)).2 = (qRun Cfg.all s es).2 ++ (qRun Cfg.all (qRun Cfg.all s es).1 tl).2 := by
    intro es
    induction es with
    | nil => intro s tl; simp [qRun]
    | cons e r ih => intro s tl; simp [qRun, ih]
  rw [app, key _ (qRun_total evs {} rfl).1]
  simp

/-! tbls.Recover / recoverSign -/
theorem collect_total (valid : Bytes → Bool) (t n : Nat) (l : List Bytes) :
    ∀ acc o, collect Cfg.all valid t n l acc = .error o → o.isPanic = false := by
  induction l with
  | nil => intro acc o h; simp [collect] at h
  | cons s r ih =>
    intro acc o h
    unfold collect at h
    simp only [all_sigIdxLen, all_recoverDedup, Bool.true_and, if_true] at h
    split at h
    · exact ih _ _ h
    · split at h
      · exact ih _ _ h
      · split at h
        · exact ih _ _ h
        · split at h
          · cases h
          · exact ih _ _ h

/-- the indices `collect` returns are pairwise distinct and below `n` (given that the accumulator is) -/
theorem collect_nodup (valid : Bytes → Bool) (t n : Nat) (l : List Bytes) :
    ∀ acc res, acc.Nodup → (∀ i ∈ acc, i < n) → collect Cfg.all valid t n l acc = .ok res →
      res.Nodup ∧ ∀ i ∈ res, i < n := by
  induction l with
  | nil => intro acc res hn hb h; simp [collect] at h; subst h; exact ⟨hn, hb⟩
  | cons s r ih =>
    intro acc res hn hb h
    unfold collect at h
    simp only [all_sigIdxLen, all_recoverDedup, Bool.true_and, if_true] at h
    split at h
    · exact ih _ _ hn hb h
    · split at h
      · exact ih _ _ hn hb h
      · next hdup =>
        simp only [Bool.or_eq_true, decide_eq_true_eq, not_or, Nat.not_le] at hdup
        have hn' : (acc ++ [shareIdx s]).Nodup := by
          rw [List.nodup_append]
          refine ⟨hn, by simp, ?_⟩
          intro a ha b hb' ; simp at hb'; subst hb'; intro e; subst e; exact hdup.1 (by simpa using ha)
        have hb'' : ∀ i ∈ acc ++ [shareIdx s], i < n := by
          intro i hi; rcases List.mem_append.mp hi with hi | hi
          · exact hb i hi
          · simp at hi; subst hi; exact hdup.2
        split at h
        · exact ih _ _ hn hb h
        · split at h
          · cases h; exact ⟨hn', hb''⟩
          · exact ih _ _ hn' hb'' h

theorem recoverCommit_total (t n : Nat) (idxs : List Nat) : (recoverCommit Cfg.all t n idxs).isPanic = false := by
  unfold recoverCommit
  have : Cfg.all.rcDedup = true := rfl
  simp only [this, if_true]
  split <;> rfl

theorem tblsRecover_total (valid : Bytes → Bool) (t n : Nat) (sigs : List Bytes) : (tblsRecover Cfg.all valid t n sigs).isPanic = false := by
  unfold tblsRecover
  cases h : collect Cfg.all valid t n (uniq sigs []) [] with
  | error o => exact collect_total valid t n _ _ o h
  | ok idxs => exact recoverCommit_total t n idxs

theorem rsStep_total (valid : Bytes → Bytes → Bool) (t n : Nat) (st : RsSt) (m : Option Sign) (ha : st.alive = true) :
    (rsStep Cfg.all valid t n st m).1.alive = true ∧ (rsStep Cfg.all valid t n st m).2.isPanic = false := by
  cases m with
  | none =>
    simp only [rsStep, ha, all_rsNil]
    split <;> simp [ha]
  | some s =>
    simp only [rsStep, ha, all_rsNil, all_toBigLen, all_rsMake, Bool.true_and, Bool.not_true, Bool.false_or, Bool.false_and]
    split
    · first | exact ⟨ha, rfl⟩ | exact ⟨rfl, rfl⟩
    · split
      · first | exact ⟨ha, rfl⟩ | exact ⟨rfl, rfl⟩
      · split
        · first | exact ⟨ha, rfl⟩ | exact ⟨rfl, rfl⟩
        · split
          · first | exact ⟨ha, rfl⟩ | exact ⟨rfl, rfl⟩
          · have hp := tblsRecover_total (valid (s.content.getD [])) t n (st.shares ++ [s.sig.getD []])
            split
            · next site hh => rw [hh] at hp; simp at hp
            · first | exact ⟨ha, rfl⟩ | exact ⟨rfl, rfl⟩
            · first | exact ⟨ha, rfl⟩ | exact ⟨rfl, rfl⟩
            · simp only [Bool.false_eq_true, if_false]
              split <;> first | exact ⟨ha, rfl⟩ | exact ⟨rfl, rfl⟩ | simp

theorem rsRun_total (valid : Bytes → Bytes → Bool) (t n : Nat) (ms : List (Option Sign)) : ∀ st, st.alive = true →
    (rsRun Cfg.all valid t n st ms).1.alive = true ∧ ∀ o ∈ (rsRun Cfg.all valid t n st ms).2, o.isPanic = false := by
  induction ms with
  | nil => intro st ha; exact ⟨ha, by simp [rsRun]⟩
  | cons m r ih =>
    intro st ha
    simp only [rsRun]
    have s1 := rsStep_total valid t n st m ha
    have := ih _ s1.1
    refine ⟨this.1, fun o h => ?_⟩
    rcases List.mem_cons.mp h with h | h
    · subst h; exact s1.2
    · exact this.2 o h

end Dos.Handlers

/-
Representation-level model of the codecs of `group/bn256/point.go`: the decoders and encoders as they act on
the OBJECTS the Go code has — a `curvePoint` / `twistPoint` is four field values `x, y, z, t` (Jacobian
coordinates, `t` meant to hold `z²`) in Montgomery limbs, a `gfP12` twelve — transcribed statement by
statement, every field write explicit, the receiver's previous state an argument and the receiver's state
after the call (also after an error) part of the result.

Why (review 4-B, findings 1 and 10): `Model/Codec.lean` is affine and value-level; a decoder that leaves
`t = 0` next to `z = 1` (the deleted `p.g.t.SetOne()`) is the same function there, yet every pairing with the
decoded object goes wrong (`miller` reads `r.t`).  Here `z` and `t` exist.

The transcription is GENERIC in the coordinate type `K` and its primitives (`Fld K`: the word↔gfP
conversions, `montEncode`/`montDecode`, `gfP{0}`, `*newGFp(1)`, limb equality) and in the two functions of
curve.go / twist.go the codecs call (`IsOnCurve`, `MakeAffine`).  It is instantiated twice, because the two
developments of the field cannot be imported into one Lean environment (`Dos.Bn256.p` is declared by both):
  * `Model/Codec.lean` — `K = Nat`, the number-level Montgomery functions of `Model/Bn256.lean`: what the C11
    driver executes (it predicts the form `z = t = 1` / identity the harness reads through the verif hook), and
    `Proofs/CodecRep.lean` proves it equal to the affine decoders;
  * `Proofs/CodecJac.lean` — `K = GFp` of C10 (`Model/Bn256Field.lean`), with C10's transcriptions
    `curveIsOnCurve`, `twistIsOnCurve`, `Jac.makeAffine`: there the decoded object is shown to satisfy the
    preconditions of C10's theorems (reduced limbs, a valid point, normalised) and two representatives of one
    element are shown to marshal to the same bytes.
Core Lean only.
-/
import DosModel.Model.CodecBase

namespace Dos.CodecRep
open Dos Dos.Codec

/-- what the codecs use of `gfP` (gfp.go) -/
structure Fld (K : Type) where
  /-- the number whose limbs `p2` are (`isCanonical` compares with it) -/
  p : Nat
  /-- the gfP holding the 256-bit word `gfP.Unmarshal` just read -/
  raw : Nat → K
  /-- the 256-bit content of a gfP (`gfP.Marshal` writes it big-endian) -/
  val : K → Nat
  /-- `montEncode(c, a)` -/
  enc : K → K
  /-- `montDecode(c, a)` -/
  dec : K → K
  /-- `gfP{0}` -/
  zero : K
  /-- `*newGFp(1)` -/
  one : K
  /-- `==` on `[4]uint64` -/
  eq : K → K → Bool

/-- `curvePoint` (K = gfP) / `twistPoint` (K = gfP2) -/
structure Pt (K : Type) where
  x : K
  y : K
  z : K
  t : K
  deriving DecidableEq, Repr, Inhabited

variable {K : Type}

/-- `e.isCanonical()` on the raw limbs just read -/
def Fld.isCanonical (F : Fld K) (a : K) : Bool := decide (F.val a < F.p)

/-- `buf[off:]` then `gfP.Unmarshal` -/
def readAt (F : Fld K) (buf : Bytes) (off : Nat) : Out K :=
  match sliceFrom buf off with
  | .ok s =>
    match gfpUnmarshal s with
    | .ok w => .ok (F.raw w)
    | .err e => .err e
    | .panic m => .panic m
  | .err e => .err e
  | .panic m => .panic m

/-! ### G1: `pointG1.UnmarshalBinary`, `MarshalBinary` -/

/-- `pointG1.UnmarshalBinary(buf)` on the receiver's curve point `g`; `isOnCurve` = `curvePoint.IsOnCurve`
(it normalises its receiver: first component).  Returns the receiver afterwards and the outcome. -/
def unmarshalG1 (F : Fld K) (isOnCurve : Pt K → Pt K × Bool) (g : Pt K) (buf : Bytes) : Pt K × Out Unit :=
  if buf.length < 64 then (g, .err .short)                       -- len(buf) < p.MarshalSize()
  else
    let g := { g with x := F.zero, y := F.zero }                 -- p.g.x, p.g.y = gfP{0}, gfP{0}
    match readAt F buf 0 with                                    -- p.g.x.Unmarshal(buf)
    | .ok rx =>
      let g := { g with x := rx }
      match readAt F buf 32 with                                 -- p.g.y.Unmarshal(buf[n:])
      | .ok ry =>
        let g := { g with y := ry }
        if !F.isCanonical g.x || !F.isCanonical g.y then (g, .err .noncanon)
        else
          let g := { g with x := F.enc g.x }                     -- montEncode(&p.g.x, &p.g.x)
          let g := { g with y := F.enc g.y }
          let g :=
            if F.eq g.x F.zero && F.eq g.y F.zero then           -- the point at infinity
              { g with y := F.one, z := F.zero, t := F.zero }
            else
              { g with z := F.one, t := F.one }
          let r := isOnCurve g                                   -- if !p.g.IsOnCurve()
          if !r.2 then (r.1, .err .malformed) else (r.1, .ok ())
      | .err e => (g, .err e)
      | .panic m => (g, .panic m)
    | .err e => (g, .err e)
    | .panic m => (g, .panic m)

/-- `pointG1.MarshalBinary`: `pgtemp := *p.g; pgtemp.MakeAffine()`; 64 zero bytes for infinity, else
`montDecode` of x, y written big-endian.  The receiver is not written. -/
def marshalG1 (F : Fld K) (makeAffine : Pt K → Pt K) (g : Pt K) : Bytes :=
  let c := makeAffine g
  if F.eq c.z F.zero then List.replicate 64 0                    -- pgtemp.IsInfinity()
  else be32 (F.val (F.dec c.x)) ++ be32 (F.val (F.dec c.y))

/-! ### G2 (K2 = gfP2 = a pair: `.1` = field `x` (imaginary part), `.2` = field `y`) -/

def zero2 (F : Fld K) : K × K := (F.zero, F.zero)               -- SetZero
def one2 (F : Fld K) : K × K := (F.zero, F.one)                 -- SetOne: x = gfP{0}, y = *newGFp(1)
def isZero2 (F : Fld K) (a : K × K) : Bool := F.eq a.1 F.zero && F.eq a.2 F.zero
def isOne2 (F : Fld K) (a : K × K) : Bool := F.eq a.1 F.zero && F.eq a.2 F.one

/-- `twistPoint.SetInfinity` -/
def infinity2 (F : Fld K) : Pt (K × K) := ⟨zero2 F, one2 F, zero2 F, zero2 F⟩

/-- `pointG2.UnmarshalBinary(buf)`; `isOnCurve` = `twistPoint.IsOnCurve` -/
def unmarshalG2 (F : Fld K) (isOnCurve : Pt (K × K) → Pt (K × K) × Bool) (g : Pt (K × K)) (buf : Bytes) :
    Pt (K × K) × Out Unit :=
  if buf.head? = some 0 then (infinity2 F, .ok ())               -- len(buf) > 0 && buf[0] == 0x00: SetInfinity
  else if buf.length > 0 ∧ buf.head? ≠ some 1 then (g, .err .malformed)
  else if buf.length < 129 then (g, .err .short)
  else
    match readAt F buf 1 with                                    -- p.g.x.x.Unmarshal(buf[1+0*n:])
    | .ok a =>
      let g := { g with x := (a, g.x.2) }
      match readAt F buf 33 with                                 -- p.g.x.y.Unmarshal(buf[1+1*n:])
      | .ok b =>
        let g := { g with x := (g.x.1, b) }
        match readAt F buf 65 with                               -- p.g.y.x.Unmarshal(buf[1+2*n:])
        | .ok c =>
          let g := { g with y := (c, g.y.2) }
          match readAt F buf 97 with                             -- p.g.y.y.Unmarshal(buf[1+3*n:])
          | .ok d =>
            let g := { g with y := (g.y.1, d) }
            if !F.isCanonical g.x.1 || !F.isCanonical g.x.2 || !F.isCanonical g.y.1 || !F.isCanonical g.y.2 then
              (g, .err .noncanon)
            else
              let g := { g with x := (F.enc g.x.1, F.enc g.x.2), y := (F.enc g.y.1, F.enc g.y.2) }
              if isZero2 F g.x && isZero2 F g.y then             -- the point at infinity
                ({ g with y := one2 F, z := zero2 F, t := zero2 F }, .ok ())
              else
                let g := { g with z := one2 F, t := one2 F }     -- p.g.z.SetOne(); p.g.t.SetOne()
                let r := isOnCurve g
                if !r.2 then (r.1, .err .malformed) else (r.1, .ok ())
          | .err e => (g, .err e)
          | .panic m => (g, .panic m)
        | .err e => (g, .err e)
        | .panic m => (g, .panic m)
      | .err e => (g, .err e)
      | .panic m => (g, .panic m)
    | .err e => (g, .err e)
    | .panic m => (g, .panic m)

/-- `pointG2.MarshalBinary` (after /repo 622f44b: from a copy, as G1) -/
def marshalG2 (F : Fld K) (makeAffine : Pt (K × K) → Pt (K × K)) (g : Pt (K × K)) : Bytes :=
  let c := makeAffine g
  if isZero2 F c.z then [0]                                      -- IsInfinity: make([]byte, 1)
  else [1] ++ be32 (F.val (F.dec c.x.1)) ++ be32 (F.val (F.dec c.x.2)) ++
        be32 (F.val (F.dec c.y.1)) ++ be32 (F.val (F.dec c.y.2))

/-! ### GT: twelve gfP in struct order (x.x.x, x.x.y, x.y.x, …, y.z.y) -/

/-- the twelve reads `p.g.<c>.Unmarshal(buf[k*n:])`, k = 0..11 (state after a panic: the coordinates read so far) -/
def readGT (F : Fld K) (buf : Bytes) : Nat → Nat → Out (List K)
  | 0, _ => .ok []
  | n + 1, k =>
    match readAt F buf (k * 32) with
    | .ok c =>
      match readGT F buf n (k + 1) with
      | .ok cs => .ok (c :: cs)
      | .err e => .err e
      | .panic m => .panic m
    | .err e => .err e
    | .panic m => .panic m

/-- `pointGT.UnmarshalBinary(buf)`: the receiver is the list of its twelve coordinates -/
def unmarshalGT (F : Fld K) (g : List K) (buf : Bytes) : List K × Out Unit :=
  if buf.length < 384 then (g, .err .short)
  else
    match readGT F buf 12 0 with
    | .ok cs =>
      if cs.any (fun c => !F.isCanonical c) then (cs, .err .noncanon)   -- the `for _, c := range` loop
      else (cs.map F.enc, .ok ())
    | .err e => (g, .err e)
    | .panic m => (g, .panic m)

/-- `pointGT.MarshalBinary` -/
def marshalGT (F : Fld K) (g : List K) : Bytes := (g.map fun c => be32 (F.val (F.dec c))).flatten

/-! ### `Equal`: comparison of the two encodings -/
def equalBy {α : Type} (m : α → Bytes) (a b : α) : Bool := m a == m b

/-! ### the form of a representation -/

/-- normalised affine: `z = t = 1` -/
def Pt.normal1 (F : Fld K) (g : Pt K) : Bool := F.eq g.z F.one && F.eq g.t F.one
/-- the identity as `SetInfinity` / the decoders write it: (0, 1, 0, 0) -/
def Pt.ident1 (F : Fld K) (g : Pt K) : Bool :=
  F.eq g.x F.zero && F.eq g.y F.one && F.eq g.z F.zero && F.eq g.t F.zero
def Pt.normal2 (F : Fld K) (g : Pt (K × K)) : Bool := isOne2 F g.z && isOne2 F g.t
def Pt.ident2 (F : Fld K) (g : Pt (K × K)) : Bool :=
  isZero2 F g.x && isOne2 F g.y && isZero2 F g.z && isZero2 F g.t

end Dos.CodecRep

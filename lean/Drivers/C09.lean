import DosModel.Model.ShareZq
def main : IO Unit := Dos.lineLoop Dos.Share.step
